import Tengo.Proofs.C19EnumChunk
import Tengo.Proofs.C19EnumPrint
import Tengo.Model.StdlibExpect
/-!
C19, the enum source module on the reference interpreter of C01 (`Spec.callClosure` = what the interpreter
runs when a function value is called).

* `enum_ast_renders_audited_code`: the AST of the module used below (`Proofs/C19EnumAst.lean`), printed by
  `render`, is line by line the audited code `StdlibExpect.enumCode` (= srcmod_enum.tengo = the embedded
  string by `C19.enum_code_matches`, `enum_source_matches`).
* `enum_key_spec`, `enum_value_spec`: for ALL argument values, heaps, environments and fuel ≥ 5 the exported
  functions `key` / `value` return their first / second argument; the heap only grows by the two parameter cells.
* `enum_each_spec`, `enum_all_spec`, `enum_any_spec`, `enum_find_spec`, `enum_find_key_spec`, `enum_map_spec`,
  `enum_filter_spec`: on every array `x` (heap reference reading as `es`) and every callback closure meeting the
  contract `CallsAs Fc σ cr f` (called on (index, value) in any heap extending `σ`, with fuel ≥ `Fc`, it returns
  `f index value` and only extends the heap — the interpreter has no abstract host functions), the call returns
  undefined / `List.all` / `List.any` / `List.find?` (element) / `List.find?` (index) / a fresh array reading as
  `List.map` / `List.filter` over `es.zipIdx`, for every fuel ≥ `Fc + es.length + 24`. Truthiness is `truthy`
  (docs/runtime-types.md) and the predicates' answers on the elements must be scalar (truthiness of arrays and
  maps reads the heap).
* `enum_not_enumerable_spec`, `enum_filter_not_array_spec`: the documented "returns undefined if `x` is not
  enumerable / not array" clause for all, any, each, find, find_key, map, at / filter.
* `callsAs_key`, `callsAs_value`: the module's own `key` and `value` closures meet the callback contract.
* `enum_*_imarr_spec`: the same seven results on immutable arrays (the loop runs over the snapshot).
* `enum_at_array_spec`: `at` on arrays; `enum_chunk_array_spec`: `chunk` on non-empty arrays, int size ≥ 1
  (value of the groups only: they are slice headers over the storage of `x`).
Not proved: `at` on maps, `chunk` on empty / immutable arrays, the looping functions on maps and strings,
callbacks that write to the heap or fail (see notes/C19.md).
-/
namespace Tengo.Props.C19Enum
open Tengo.Model Tengo.Model.Spec Tengo.Proofs.C19Enum

theorem enum_ast_renders_audited_code : render = Tengo.Model.StdlibExpect.enumCode := by decide

/-- The closure the interpreter builds for the exported function `name` in environment `env`. -/
def exportClosure (name : String) (env : Env) : Option Closure :=
  (enumExports.lookup name).map (fun pb => ⟨pb.1, false, pb.2, env⟩)

theorem enum_key_spec (F : Nat) (ctx : Ctx) (env : Env) (c : Closure) (a b : Value) (gs : GSt) (σ : St)
    (hc : exportClosure "key" env = some c) (hd : ctx.callDepth < 900) :
    callClosure (F + 5) ctx c [a, b] gs σ = .ok ((a, gs), st2 σ a b) ∧ Ext σ (st2 σ a b) := by
  have : c = ⟨["k", "_"], false, keyBody, env⟩ := by
    have h : exportClosure "key" env = some ⟨["k", "_"], false, keyBody, env⟩ := rfl
    rw [h] at hc; exact (Option.some.inj hc).symm
  subst this
  refine ⟨?_, ext_st2 σ a b⟩
  rw [callClosure2 gs σ hd (by decide)]
  have hv : Var (st2 σ a b) (enter2 env ctx "k" "_" σ).env "k" a :=
    ⟨σ.heap.size, false, by simp [enter2, lookupVar_cons, List.lookup], st2_get0 σ a b⟩
  unfold keyBody
  rw [em_bind_ok (block_ret_ident hv F 0 gs)]
  rfl

theorem enum_value_spec (F : Nat) (ctx : Ctx) (env : Env) (c : Closure) (a b : Value) (gs : GSt) (σ : St)
    (hc : exportClosure "value" env = some c) (hd : ctx.callDepth < 900) :
    callClosure (F + 5) ctx c [a, b] gs σ = .ok ((b, gs), st2 σ a b) ∧ Ext σ (st2 σ a b) := by
  have : c = ⟨["_", "v"], false, valueBody, env⟩ := by
    have h : exportClosure "value" env = some ⟨["_", "v"], false, valueBody, env⟩ := rfl
    rw [h] at hc; exact (Option.some.inj hc).symm
  subst this
  refine ⟨?_, ext_st2 σ a b⟩
  rw [callClosure2 gs σ hd (by decide)]
  have hv : Var (st2 σ a b) (enter2 env ctx "_" "v" σ).env "v" b :=
    ⟨σ.heap.size + 1, false, by simp [enter2, lookupVar_cons, List.lookup], st2_get1 σ a b⟩
  unfold valueBody
  rw [em_bind_ok (block_ret_ident hv F 0 gs)]
  rfl

/-- Non-vacuity: the hypotheses are met (empty environment, empty heap, call at top level), and the result is
the first argument. -/
example : ∃ c, exportClosure "key" [] = some c ∧
    callClosure 5 { env := [] } c [.int 7, .bool true] {} {} = .ok ((.int 7, {}), st2 {} (.int 7) (.bool true)) := by
  refine ⟨⟨["k", "_"], false, keyBody, []⟩, rfl, ?_⟩
  exact (enum_key_spec 0 { env := [] } [] _ (.int 7) (.bool true) {} {} rfl (by decide)).1

example : ∃ c, exportClosure "value" [] = some c ∧
    callClosure 5 { env := [] } c [.int 7, .bool true] {} {} = .ok ((.bool true, {}), st2 {} (.int 7) (.bool true)) := by
  refine ⟨⟨["_", "v"], false, valueBody, []⟩, rfl, ?_⟩
  exact (enum_value_spec 0 { env := [] } [] _ (.int 7) (.bool true) {} {} rfl (by decide)).1

/-! ### the looping functions on arrays -/

/-- The situation of a call `enum.<name>(x, fn)`: in heap `σ` the module environment `menv` binds
`is_enumerable` to the module's helper closure, `x = .arr r` is an array reading as `es`, `fn = .fn cr` is a
closure meeting the callback contract for the total function `f` on (index, value), and the caller is below
the frame limit. -/
structure EnumCall (Fc : Nat) (σ : St) (menv : Env) (ctx : Ctx) (r st : Nat) (es : List Value) (cr : Nat)
    (f : Nat → Value → Value) : Prop where
  bound : IsEnumBound σ menv
  arr : ArrAt σ r st es
  cb : CallsAs Fc σ cr f
  depth : ctx.callDepth < 899

theorem exportClosure_eq {name : String} {menv : Env} {c : Closure} {ps : List String} {body : List Stmt}
    (hc : exportClosure name menv = some c) (h : exportClosure name menv = some ⟨ps, false, body, menv⟩) :
    c = ⟨ps, false, body, menv⟩ := by
  rw [h] at hc; exact (Option.some.inj hc).symm

/-- `each` on an array returns undefined (after calling `fn` on every (index, element)). -/
theorem enum_each_spec {Fc : Nat} {σ : St} {menv : Env} {ctx : Ctx} {r st cr : Nat} {es : List Value}
    {f : Nat → Value → Value} (h : EnumCall Fc σ menv ctx r st es cr f) (c : Closure)
    (hc : exportClosure "each" menv = some c) (F : Nat) (hF : Fc ≤ F) (gs : GSt) :
    ∃ σ', Ext σ σ' ∧
      callClosure (F + es.length + 23) ctx c [.arr r, .fn cr] gs σ = .ok ((.undef, gs), σ') := by
  have := exportClosure_eq hc (ps := ["x", "fn"]) (body := eachBody) rfl
  subst this
  obtain ⟨σ', he, hrun⟩ := enum_fn_run (Kb := 7) (tail := []) (ctx := ctx) gs h.bound h.arr h.depth
    (each_body h.cb) F hF
  refine ⟨σ', he, ?_⟩
  have hfu : F + es.length + 23 = F + 7 + es.length + 16 := by omega
  rw [hfu]
  show callClosure _ ctx ⟨["x", "fn"], false, guardEnum :: forKV eachLoop :: [], menv⟩ _ gs σ = _
  rw [hrun, firstRes_none]
  exact tail_nil (F + 7 + es.length + 11) _ gs σ'

/-- `all` on an array: true iff `fn(index, element)` is truthy for every element. -/
theorem enum_all_spec {Fc : Nat} {σ : St} {menv : Env} {ctx : Ctx} {r st cr : Nat} {es : List Value}
    {f : Nat → Value → Value} (h : EnumCall Fc σ menv ctx r st es cr f) (hsc : ∀ i x, es[i]? = some x → Scalar (f i x) = true)
    (c : Closure) (hc : exportClosure "all" menv = some c) (F : Nat) (hF : Fc ≤ F) (gs : GSt) :
    ∃ σ', Ext σ σ' ∧
      callClosure (F + es.length + 24) ctx c [.arr r, .fn cr] gs σ =
        .ok ((.bool (es.zipIdx.all (fun q => truthy (f q.2 q.1))), gs), σ') := by
  have := exportClosure_eq hc (ps := ["x", "fn"]) (body := allBody) rfl
  subst this
  obtain ⟨σ', he, hrun⟩ := enum_fn_run (Kb := 8) (tail := [.ret (some (.bool true))]) (ctx := ctx) gs
    h.bound h.arr h.depth (all_body h.cb hsc) F hF
  refine ⟨σ', he, ?_⟩
  have hfu : F + es.length + 24 = F + 8 + es.length + 16 := by omega
  rw [hfu]
  show callClosure _ ctx ⟨["x", "fn"], false, guardEnum :: forKV allLoop :: [.ret (some (.bool true))], menv⟩ _ gs σ = _
  rw [hrun, firstRes_all]
  cases hall : es.zipIdx.all (fun q => truthy (f q.2 q.1))
  · rfl
  · exact tail_ret_bool (F + 8 + es.length + 9) _ true gs σ'

/-- `any` on an array: true iff `fn(index, element)` is truthy for some element. -/
theorem enum_any_spec {Fc : Nat} {σ : St} {menv : Env} {ctx : Ctx} {r st cr : Nat} {es : List Value}
    {f : Nat → Value → Value} (h : EnumCall Fc σ menv ctx r st es cr f) (hsc : ∀ i x, es[i]? = some x → Scalar (f i x) = true)
    (c : Closure) (hc : exportClosure "any" menv = some c) (F : Nat) (hF : Fc ≤ F) (gs : GSt) :
    ∃ σ', Ext σ σ' ∧
      callClosure (F + es.length + 23) ctx c [.arr r, .fn cr] gs σ =
        .ok ((.bool (es.zipIdx.any (fun q => truthy (f q.2 q.1))), gs), σ') := by
  have := exportClosure_eq hc (ps := ["x", "fn"]) (body := anyBody) rfl
  subst this
  obtain ⟨σ', he, hrun⟩ := enum_fn_run (Kb := 7) (tail := [.ret (some (.bool false))]) (ctx := ctx) gs
    h.bound h.arr h.depth
    (ifret_body h.cb hsc (.bool true) (fun _ _ => .bool true) (fun F cx gs σI _ _ _ _ => ev_bool F cx true gs σI)) F hF
  refine ⟨σ', he, ?_⟩
  have hfu : F + es.length + 23 = F + 7 + es.length + 16 := by omega
  rw [hfu]
  refine Eq.trans hrun ?_
  rw [firstRes_any]
  cases hany : es.zipIdx.any (fun q => truthy (f q.2 q.1))
  · exact tail_ret_bool (F + 7 + es.length + 9) _ false gs σ'
  · rfl

/-- `find` on an array: the first element for which `fn(index, element)` is truthy, else undefined. -/
theorem enum_find_spec {Fc : Nat} {σ : St} {menv : Env} {ctx : Ctx} {r st cr : Nat} {es : List Value}
    {f : Nat → Value → Value} (h : EnumCall Fc σ menv ctx r st es cr f) (hsc : ∀ i x, es[i]? = some x → Scalar (f i x) = true)
    (c : Closure) (hc : exportClosure "find" menv = some c) (F : Nat) (hF : Fc ≤ F) (gs : GSt) :
    ∃ σ', Ext σ σ' ∧
      callClosure (F + es.length + 23) ctx c [.arr r, .fn cr] gs σ =
        .ok ((((es.zipIdx.find? (fun q => truthy (f q.2 q.1))).map (fun q => q.1)).getD .undef, gs), σ') := by
  have := exportClosure_eq hc (ps := ["x", "fn"]) (body := findBody) rfl
  subst this
  obtain ⟨σ', he, hrun⟩ := enum_fn_run (Kb := 7) (tail := []) (ctx := ctx) gs h.bound h.arr h.depth
    (ifret_body h.cb hsc (.ident "v") (fun _ x => x) (fun F cx gs σI _ _ _ hv => ev_ident hv F gs)) F hF
  refine ⟨σ', he, ?_⟩
  have hfu : F + es.length + 23 = F + 7 + es.length + 16 := by omega
  rw [hfu]
  refine Eq.trans hrun ?_
  rw [firstRes_find]
  cases hfind : es.zipIdx.find? (fun q => truthy (f q.2 q.1))
  · exact tail_nil (F + 7 + es.length + 11) _ gs σ'
  · rfl

/-- `find_key` on an array: the index of the first element for which `fn(index, element)` is truthy. -/
theorem enum_find_key_spec {Fc : Nat} {σ : St} {menv : Env} {ctx : Ctx} {r st cr : Nat} {es : List Value}
    {f : Nat → Value → Value} (h : EnumCall Fc σ menv ctx r st es cr f) (hsc : ∀ i x, es[i]? = some x → Scalar (f i x) = true)
    (c : Closure) (hc : exportClosure "find_key" menv = some c) (F : Nat) (hF : Fc ≤ F) (gs : GSt) :
    ∃ σ', Ext σ σ' ∧
      callClosure (F + es.length + 23) ctx c [.arr r, .fn cr] gs σ =
        .ok ((((es.zipIdx.find? (fun q => truthy (f q.2 q.1))).map (fun q => Value.int q.2)).getD .undef, gs), σ') := by
  have := exportClosure_eq hc (ps := ["x", "fn"]) (body := findKeyBody) rfl
  subst this
  obtain ⟨σ', he, hrun⟩ := enum_fn_run (Kb := 7) (tail := []) (ctx := ctx) gs h.bound h.arr h.depth
    (ifret_body h.cb hsc (.ident "k") (fun i _ => .int i) (fun F cx gs σI _ _ hk _ => ev_ident hk F gs)) F hF
  refine ⟨σ', he, ?_⟩
  have hfu : F + es.length + 23 = F + 7 + es.length + 16 := by omega
  rw [hfu]
  refine Eq.trans hrun ?_
  rw [firstRes_find]
  cases hfind : es.zipIdx.find? (fun q => truthy (f q.2 q.1))
  · exact tail_nil (F + 7 + es.length + 11) _ gs σ'
  · rfl

/-! ### the same functions on immutable arrays (the loop runs over the snapshot of the elements) -/

/-- `each` on an immutable array returns undefined (after calling `fn` on every (index, element)). -/
theorem enum_each_imarr_spec {Fc : Nat} {σ : St} {menv : Env} {ctx : Ctx} {r st cr : Nat} {es : List Value}
    {f : Nat → Value → Value} (h : EnumCall Fc σ menv ctx r st es cr f) (c : Closure)
    (hc : exportClosure "each" menv = some c) (F : Nat) (hF : Fc ≤ F) (gs : GSt) :
    ∃ σ', Ext σ σ' ∧
      callClosure (F + es.length + 23) ctx c [.imarr r, .fn cr] gs σ = .ok ((.undef, gs), σ') := by
  have := exportClosure_eq hc (ps := ["x", "fn"]) (body := eachBody) rfl
  subst this
  obtain ⟨σ', he, hrun⟩ := enum_fn_run_im (Kb := 7) (tail := []) (ctx := ctx) gs h.bound h.arr h.depth
    (each_body h.cb) F hF
  refine ⟨σ', he, ?_⟩
  have hfu : F + es.length + 23 = F + 7 + es.length + 16 := by omega
  rw [hfu]
  show callClosure _ ctx ⟨["x", "fn"], false, guardEnum :: forKV eachLoop :: [], menv⟩ _ gs σ = _
  rw [hrun, firstRes_none]
  exact tail_nil (F + 7 + es.length + 11) _ gs σ'

/-- `all` on an immutable array: true iff `fn(index, element)` is truthy for every element. -/
theorem enum_all_imarr_spec {Fc : Nat} {σ : St} {menv : Env} {ctx : Ctx} {r st cr : Nat} {es : List Value}
    {f : Nat → Value → Value} (h : EnumCall Fc σ menv ctx r st es cr f) (hsc : ∀ i x, es[i]? = some x → Scalar (f i x) = true)
    (c : Closure) (hc : exportClosure "all" menv = some c) (F : Nat) (hF : Fc ≤ F) (gs : GSt) :
    ∃ σ', Ext σ σ' ∧
      callClosure (F + es.length + 24) ctx c [.imarr r, .fn cr] gs σ =
        .ok ((.bool (es.zipIdx.all (fun q => truthy (f q.2 q.1))), gs), σ') := by
  have := exportClosure_eq hc (ps := ["x", "fn"]) (body := allBody) rfl
  subst this
  obtain ⟨σ', he, hrun⟩ := enum_fn_run_im (Kb := 8) (tail := [.ret (some (.bool true))]) (ctx := ctx) gs
    h.bound h.arr h.depth (all_body h.cb hsc) F hF
  refine ⟨σ', he, ?_⟩
  have hfu : F + es.length + 24 = F + 8 + es.length + 16 := by omega
  rw [hfu]
  show callClosure _ ctx ⟨["x", "fn"], false, guardEnum :: forKV allLoop :: [.ret (some (.bool true))], menv⟩ _ gs σ = _
  rw [hrun, firstRes_all]
  cases hall : es.zipIdx.all (fun q => truthy (f q.2 q.1))
  · rfl
  · exact tail_ret_bool (F + 8 + es.length + 9) _ true gs σ'

/-- `any` on an immutable array: true iff `fn(index, element)` is truthy for some element. -/
theorem enum_any_imarr_spec {Fc : Nat} {σ : St} {menv : Env} {ctx : Ctx} {r st cr : Nat} {es : List Value}
    {f : Nat → Value → Value} (h : EnumCall Fc σ menv ctx r st es cr f) (hsc : ∀ i x, es[i]? = some x → Scalar (f i x) = true)
    (c : Closure) (hc : exportClosure "any" menv = some c) (F : Nat) (hF : Fc ≤ F) (gs : GSt) :
    ∃ σ', Ext σ σ' ∧
      callClosure (F + es.length + 23) ctx c [.imarr r, .fn cr] gs σ =
        .ok ((.bool (es.zipIdx.any (fun q => truthy (f q.2 q.1))), gs), σ') := by
  have := exportClosure_eq hc (ps := ["x", "fn"]) (body := anyBody) rfl
  subst this
  obtain ⟨σ', he, hrun⟩ := enum_fn_run_im (Kb := 7) (tail := [.ret (some (.bool false))]) (ctx := ctx) gs
    h.bound h.arr h.depth
    (ifret_body h.cb hsc (.bool true) (fun _ _ => .bool true) (fun F cx gs σI _ _ _ _ => ev_bool F cx true gs σI)) F hF
  refine ⟨σ', he, ?_⟩
  have hfu : F + es.length + 23 = F + 7 + es.length + 16 := by omega
  rw [hfu]
  refine Eq.trans hrun ?_
  rw [firstRes_any]
  cases hany : es.zipIdx.any (fun q => truthy (f q.2 q.1))
  · exact tail_ret_bool (F + 7 + es.length + 9) _ false gs σ'
  · rfl

/-- `find` on an immutable array: the first element for which `fn(index, element)` is truthy, else undefined. -/
theorem enum_find_imarr_spec {Fc : Nat} {σ : St} {menv : Env} {ctx : Ctx} {r st cr : Nat} {es : List Value}
    {f : Nat → Value → Value} (h : EnumCall Fc σ menv ctx r st es cr f) (hsc : ∀ i x, es[i]? = some x → Scalar (f i x) = true)
    (c : Closure) (hc : exportClosure "find" menv = some c) (F : Nat) (hF : Fc ≤ F) (gs : GSt) :
    ∃ σ', Ext σ σ' ∧
      callClosure (F + es.length + 23) ctx c [.imarr r, .fn cr] gs σ =
        .ok ((((es.zipIdx.find? (fun q => truthy (f q.2 q.1))).map (fun q => q.1)).getD .undef, gs), σ') := by
  have := exportClosure_eq hc (ps := ["x", "fn"]) (body := findBody) rfl
  subst this
  obtain ⟨σ', he, hrun⟩ := enum_fn_run_im (Kb := 7) (tail := []) (ctx := ctx) gs h.bound h.arr h.depth
    (ifret_body h.cb hsc (.ident "v") (fun _ x => x) (fun F cx gs σI _ _ _ hv => ev_ident hv F gs)) F hF
  refine ⟨σ', he, ?_⟩
  have hfu : F + es.length + 23 = F + 7 + es.length + 16 := by omega
  rw [hfu]
  refine Eq.trans hrun ?_
  rw [firstRes_find]
  cases hfind : es.zipIdx.find? (fun q => truthy (f q.2 q.1))
  · exact tail_nil (F + 7 + es.length + 11) _ gs σ'
  · rfl

/-- `find_key` on an immutable array: the index of the first element for which `fn(index, element)` is truthy. -/
theorem enum_find_key_imarr_spec {Fc : Nat} {σ : St} {menv : Env} {ctx : Ctx} {r st cr : Nat} {es : List Value}
    {f : Nat → Value → Value} (h : EnumCall Fc σ menv ctx r st es cr f) (hsc : ∀ i x, es[i]? = some x → Scalar (f i x) = true)
    (c : Closure) (hc : exportClosure "find_key" menv = some c) (F : Nat) (hF : Fc ≤ F) (gs : GSt) :
    ∃ σ', Ext σ σ' ∧
      callClosure (F + es.length + 23) ctx c [.imarr r, .fn cr] gs σ =
        .ok ((((es.zipIdx.find? (fun q => truthy (f q.2 q.1))).map (fun q => Value.int q.2)).getD .undef, gs), σ') := by
  have := exportClosure_eq hc (ps := ["x", "fn"]) (body := findKeyBody) rfl
  subst this
  obtain ⟨σ', he, hrun⟩ := enum_fn_run_im (Kb := 7) (tail := []) (ctx := ctx) gs h.bound h.arr h.depth
    (ifret_body h.cb hsc (.ident "k") (fun i _ => .int i) (fun F cx gs σI _ _ hk _ => ev_ident hk F gs)) F hF
  refine ⟨σ', he, ?_⟩
  have hfu : F + es.length + 23 = F + 7 + es.length + 16 := by omega
  rw [hfu]
  refine Eq.trans hrun ?_
  rw [firstRes_find]
  cases hfind : es.zipIdx.find? (fun q => truthy (f q.2 q.1))
  · exact tail_nil (F + 7 + es.length + 11) _ gs σ'
  · rfl

/-- `map` on an immutable array: a fresh array (its own store) reading as `fn(index, element)` for every element in
order. Needs the append bookkeeping of the heap to be well formed and `append` not to be shadowed in the
module environment. -/
theorem enum_map_imarr_spec {Fc : Nat} {σ : St} {menv : Env} {ctx : Ctx} {r st cr : Nat} {es : List Value}
    {f : Nat → Value → Value} (h : EnumCall Fc σ menv ctx r st es cr f) (hwf : WfApp σ)
    (happ : lookupVar menv "append" = none)
    (c : Closure) (hc : exportClosure "map" menv = some c) (F : Nat) (hF : Fc ≤ F) (gs : GSt) :
    ∃ σ' rd sd, Ext σ σ' ∧ σ.heap.size ≤ rd ∧ ArrAt σ' rd sd (es.zipIdx.map (fun q => f q.2 q.1)) ∧
      callClosure (F + es.length + 17) ctx c [.imarr r, .fn cr] gs σ = .ok ((.arr rd, gs), σ') := by
  have := exportClosure_eq hc (ps := ["x", "fn"]) (body := mapBody) rfl
  subst this
  obtain ⟨σ', rd, sd, hI, hdc, hda, hrun⟩ := map_run_im (ctx := ctx) gs h.bound h.arr h.cb h.depth hwf happ F hF
  obtain ⟨rd', sd', hdc', _, hrd⟩ := hI.dst
  have : rd' = rd := by
    rw [hdc] at hdc'
    injection hdc' with h1
    injection h1 with h2 _
    injection h2 with h3
    exact h3.symm
  subst this
  exact ⟨σ', rd', sd, hI.ext, hrd, hda.arrAt, hrun⟩

/-- `filter` on an immutable array: a fresh array of the elements for which `fn(index, element)` is truthy, in order.
(`filter` is guarded by `is_array_like`, so the module environment must bind that helper.) -/
theorem enum_filter_imarr_spec {Fc : Nat} {σ : St} {menv : Env} {ctx : Ctx} {r st cr : Nat} {es : List Value}
    {f : Nat → Value → Value} (hb : IsArrLikeBound σ menv) (harr : ArrAt σ r st es) (hcb : CallsAs Fc σ cr f)
    (hd : ctx.callDepth < 899) (hsc : ∀ i x, es[i]? = some x → Scalar (f i x) = true) (hwf : WfApp σ)
    (happ : lookupVar menv "append" = none)
    (c : Closure) (hc : exportClosure "filter" menv = some c) (F : Nat) (hF : Fc ≤ F) (gs : GSt) :
    ∃ σ' rd sd, Ext σ σ' ∧ σ.heap.size ≤ rd ∧
      ArrAt σ' rd sd ((es.zipIdx.filter (fun q => truthy (f q.2 q.1))).map (fun q => q.1)) ∧
      callClosure (F + es.length + 17) ctx c [.imarr r, .fn cr] gs σ = .ok ((.arr rd, gs), σ') := by
  have := exportClosure_eq hc (ps := ["x", "fn"]) (body := filterBody) rfl
  subst this
  obtain ⟨σ', rd, sd, hI, hdc, hda, hrun⟩ := filter_run_im (ctx := ctx) gs hb harr hcb hd hwf happ hsc F hF
  obtain ⟨rd', sd', hdc', _, hrd⟩ := hI.dst
  have : rd' = rd := by
    rw [hdc] at hdc'
    injection hdc' with h1
    injection h1 with h2 _
    injection h2 with h3
    exact h3.symm
  subst this
  exact ⟨σ', rd', sd, hI.ext, hrd, hda.arrAt, hrun⟩

/-! ### `at` on arrays -/

/-- `at(x, key)` on an array: the element at `key` when `key` is an int within bounds, undefined when it is an
int out of bounds or not an int. Needs both helpers bound and `is_int` not shadowed. -/
theorem enum_at_array_spec {σ : St} {menv : Env} {ctx : Ctx} {r st : Nat} {es : List Value}
    (hb : IsEnumBound σ menv) (hba : IsArrLikeBound σ menv) (harr : ArrAt σ r st es) (hd : ctx.callDepth < 899)
    (hint : lookupVar menv "is_int" = none) (c : Closure) (hc : exportClosure "at" menv = some c)
    (kv : Value) (F : Nat) (gs : GSt) :
    ∃ σ', Ext σ σ' ∧ callClosure (F + 16) ctx c [.arr r, kv] gs σ =
      .ok ((match kv with
            | .int n => if n < 0 || n ≥ es.length then Value.undef else es.getD n.toNat .undef
            | _ => Value.undef, gs), σ') := by
  have := exportClosure_eq hc (ps := ["x", "key"]) (body := atBody) rfl
  subst this
  obtain ⟨σ', he, h⟩ := at_run (ctx := ctx) kv gs hb hba harr hd hint F
  refine ⟨σ', he, ?_⟩
  rw [h]
  cases kv <;> rfl

/-! ### `chunk` on arrays -/

theorem slice_value (L : List Value) (off len k s : Nat) :
    (L.drop (off + k)).take (min len (k + s) - k) = (((L.drop off).take len).drop k).take s := by
  rw [List.drop_take, List.take_take, List.drop_drop]
  congr 1
  omega

/-- `chunk(x, size)` on a non-empty array `x` (header `.arr st off len` over the store `vs`) with an int
`size ≥ 1` (and `len + size` within int64): a fresh array of `⌈len / size⌉` arrays, the `t`-th of which is a
slice header over the store of `x` reading as `es[t*size : t*size + size]` (the documented consecutive groups,
the last one shorter). Only the VALUE of the groups is stated: they alias the storage of `x`. -/
theorem enum_chunk_array_spec {σ : St} {menv : Env} {ctx : Ctx} {r st off len sN h0 : Nat} {vs : Array Value}
    (hba : IsArrLikeBound σ menv) (hr : σ.heap[r]? = some (.arr st off len)) (hst : σ.heap[st]? = some (.store vs h0))
    (hfit : off + len ≤ vs.size) (hclean : σ.appendedFrom.lookup r = none) (hrst : r ≠ st)
    (hd : ctx.callDepth < 899) (hwf : WfApp σ)
    (happ : lookupVar menv "append" = none) (hlen : lookupVar menv "len" = none)
    (hs1 : 1 ≤ sN) (hl1 : 1 ≤ len) (hmax : (len : Int) + sN ≤ maxInt64)
    (c : Closure) (hc : exportClosure "chunk" menv = some c) (F : Nat) (gs : GSt) :
    ∃ σ' rd sd hs, callClosure (F + len + 19) ctx c [.arr r, .int sN] gs σ = .ok ((.arr rd, gs), σ') ∧
      ArrAt σ' rd sd hs ∧ len ≤ hs.length * sN ∧ (hs.length - 1) * sN < len ∧
      ∀ t v, hs[t]? = some v → ∃ ref o l h', v = .arr ref ∧ σ'.heap[ref]? = some (.arr st o l) ∧
        σ'.heap[st]? = some (.store vs h') ∧
        (vs.toList.drop o).take l = (((vs.toList.drop off).take len).drop (t * sN)).take sN := by
  have := exportClosure_eq hc (ps := ["x", "size"]) (body := chunkBody) rfl
  subst this
  obtain ⟨σ', rd, sd, hs, j, hrun, hda, hj, h1, h2, hrefs, h', hst'⟩ :=
    chunk_run (ctx := ctx) gs hba hr hst hfit hclean hrst hd hwf happ hlen hs1 hl1 hmax F
  subst hj
  refine ⟨σ', rd, sd, hs, hrun, hda.arrAt, h1, h2, ?_⟩
  intro t v hv
  obtain ⟨ref, e, _, _, _, hh⟩ := hrefs t v hv
  exact ⟨ref, _, _, h', e, hh, hst', slice_value _ _ _ _ _⟩

/-! ### "returns undefined if `x` is not enumerable" -/

theorem not_enum_of_guard {F : Nat} {ctx : Ctx} {menv : Env} {q : String} {rest : List Stmt} {xv b : Value}
    (gs : GSt) (σ : St) (hq : ("x" == q) = false) (hq2 : ("is_enumerable" == q) = false)
    (hb : IsEnumBound σ menv) (hd : ctx.callDepth < 899) (hne : isEnum xv = false) :
    callClosure (F + 16) ctx ⟨["x", q], false, guardEnum :: rest, menv⟩ [xv, b] gs σ =
      .ok ((.undef, gs), stG σ xv b) := by
  rw [guarded_call gs σ hq hq2 hb hd, hne]
  rfl

/-- all, any, each, find, find_key, map, at: a first argument that is not an array, immutable array, map or
immutable map gives undefined (the second argument is not looked at). -/
theorem enum_not_enumerable_spec {name : String}
    (hn : name ∈ ["all", "any", "each", "find", "find_key", "map", "at"]) {σ : St} {menv : Env} {ctx : Ctx}
    (hb : IsEnumBound σ menv) (hd : ctx.callDepth < 899) (c : Closure) (hc : exportClosure name menv = some c)
    (xv b : Value) (hne : isEnum xv = false) (F : Nat) (gs : GSt) :
    callClosure (F + 16) ctx c [xv, b] gs σ = .ok ((.undef, gs), stG σ xv b) ∧ Ext σ (stG σ xv b) := by
  refine ⟨?_, ext_stG σ xv b⟩
  simp only [List.mem_cons, List.not_mem_nil, or_false] at hn
  rcases hn with rfl | rfl | rfl | rfl | rfl | rfl | rfl
  · have := exportClosure_eq hc (ps := ["x", "fn"]) (body := allBody) rfl
    subst this
    exact not_enum_of_guard gs σ (by decide) (by decide) hb hd hne
  · have := exportClosure_eq hc (ps := ["x", "fn"]) (body := anyBody) rfl
    subst this
    exact not_enum_of_guard gs σ (by decide) (by decide) hb hd hne
  · have := exportClosure_eq hc (ps := ["x", "fn"]) (body := eachBody) rfl
    subst this
    exact not_enum_of_guard gs σ (by decide) (by decide) hb hd hne
  · have := exportClosure_eq hc (ps := ["x", "fn"]) (body := findBody) rfl
    subst this
    exact not_enum_of_guard gs σ (by decide) (by decide) hb hd hne
  · have := exportClosure_eq hc (ps := ["x", "fn"]) (body := findKeyBody) rfl
    subst this
    exact not_enum_of_guard gs σ (by decide) (by decide) hb hd hne
  · have := exportClosure_eq hc (ps := ["x", "fn"]) (body := mapBody) rfl
    subst this
    exact not_enum_of_guard gs σ (by decide) (by decide) hb hd hne
  · have := exportClosure_eq hc (ps := ["x", "key"]) (body := atBody) rfl
    subst this
    exact not_enum_of_guard gs σ (by decide) (by decide) hb hd hne

/-! ### callbacks that meet the contract: the module's own `key` and `value` -/

theorem callsAs_value {σ : St} {cr : Nat} {env : Env}
    (h : σ.heap[cr]? = some (.clos ⟨["_", "v"], false, valueBody, env⟩)) : CallsAs 5 σ cr (fun _ x => x) := by
  refine ⟨_, h, ?_⟩
  intro F hF ctx hd gs σ1 i x _
  obtain ⟨k, rfl⟩ : ∃ k, F = k + 5 := ⟨F - 5, by omega⟩
  exact ⟨_, enum_value_spec k ctx env _ (.int i) x gs σ1 rfl hd⟩

theorem callsAs_key {σ : St} {cr : Nat} {env : Env}
    (h : σ.heap[cr]? = some (.clos ⟨["k", "_"], false, keyBody, env⟩)) : CallsAs 5 σ cr (fun i _ => .int i) := by
  refine ⟨_, h, ?_⟩
  intro F hF ctx hd gs σ1 i x _
  obtain ⟨k, rfl⟩ : ∃ k, F = k + 5 := ⟨F - 5, by omega⟩
  exact ⟨_, enum_key_spec k ctx env _ (.int i) x gs σ1 rfl hd⟩

/-- `map` on an array: a fresh array (its own store) reading as `fn(index, element)` for every element in
order. Needs the append bookkeeping of the heap to be well formed and `append` not to be shadowed in the
module environment. -/
theorem enum_map_spec {Fc : Nat} {σ : St} {menv : Env} {ctx : Ctx} {r st cr : Nat} {es : List Value}
    {f : Nat → Value → Value} (h : EnumCall Fc σ menv ctx r st es cr f) (hwf : WfApp σ)
    (happ : lookupVar menv "append" = none)
    (c : Closure) (hc : exportClosure "map" menv = some c) (F : Nat) (hF : Fc ≤ F) (gs : GSt) :
    ∃ σ' rd sd, Ext σ σ' ∧ σ.heap.size ≤ rd ∧ ArrAt σ' rd sd (es.zipIdx.map (fun q => f q.2 q.1)) ∧
      callClosure (F + es.length + 17) ctx c [.arr r, .fn cr] gs σ = .ok ((.arr rd, gs), σ') := by
  have := exportClosure_eq hc (ps := ["x", "fn"]) (body := mapBody) rfl
  subst this
  obtain ⟨σ', rd, sd, hI, hdc, hda, hrun⟩ := map_run (ctx := ctx) gs h.bound h.arr h.cb h.depth hwf happ F hF
  obtain ⟨rd', sd', hdc', _, hrd⟩ := hI.dst
  have : rd' = rd := by
    rw [hdc] at hdc'
    injection hdc' with h1
    injection h1 with h2 _
    injection h2 with h3
    exact h3.symm
  subst this
  exact ⟨σ', rd', sd, hI.ext, hrd, hda.arrAt, hrun⟩

/-- `filter` on an array: a fresh array of the elements for which `fn(index, element)` is truthy, in order.
(`filter` is guarded by `is_array_like`, so the module environment must bind that helper.) -/
theorem enum_filter_spec {Fc : Nat} {σ : St} {menv : Env} {ctx : Ctx} {r st cr : Nat} {es : List Value}
    {f : Nat → Value → Value} (hb : IsArrLikeBound σ menv) (harr : ArrAt σ r st es) (hcb : CallsAs Fc σ cr f)
    (hd : ctx.callDepth < 899) (hsc : ∀ i x, es[i]? = some x → Scalar (f i x) = true) (hwf : WfApp σ)
    (happ : lookupVar menv "append" = none)
    (c : Closure) (hc : exportClosure "filter" menv = some c) (F : Nat) (hF : Fc ≤ F) (gs : GSt) :
    ∃ σ' rd sd, Ext σ σ' ∧ σ.heap.size ≤ rd ∧
      ArrAt σ' rd sd ((es.zipIdx.filter (fun q => truthy (f q.2 q.1))).map (fun q => q.1)) ∧
      callClosure (F + es.length + 17) ctx c [.arr r, .fn cr] gs σ = .ok ((.arr rd, gs), σ') := by
  have := exportClosure_eq hc (ps := ["x", "fn"]) (body := filterBody) rfl
  subst this
  obtain ⟨σ', rd, sd, hI, hdc, hda, hrun⟩ := filter_run (ctx := ctx) gs hb harr hcb hd hwf happ hsc F hF
  obtain ⟨rd', sd', hdc', _, hrd⟩ := hI.dst
  have : rd' = rd := by
    rw [hdc] at hdc'
    injection hdc' with h1
    injection h1 with h2 _
    injection h2 with h3
    exact h3.symm
  subst this
  exact ⟨σ', rd', sd, hI.ext, hrd, hda.arrAt, hrun⟩

/-- `filter`: a first argument that is not an array or immutable array gives undefined. -/
theorem enum_filter_not_array_spec {σ : St} {menv : Env} {ctx : Ctx} (hb : IsArrLikeBound σ menv)
    (hd : ctx.callDepth < 899) (c : Closure) (hc : exportClosure "filter" menv = some c)
    (xv b : Value) (hne : isArrLike xv = false) (F : Nat) (gs : GSt) :
    callClosure (F + 16) ctx c [xv, b] gs σ = .ok ((.undef, gs), stG σ xv b) ∧ Ext σ (stG σ xv b) := by
  have := exportClosure_eq hc (ps := ["x", "fn"]) (body := filterBody) rfl
  subst this
  refine ⟨?_, ext_stG σ xv b⟩
  rw [filterBody_eq, guardedArr_call gs σ (by decide) (by decide) hb hd, hne]
  rfl

/-! ### non-vacuity: a concrete heap, module environment, array and callback meet `EnumCall` -/

def exHeap : St :=
  { heap := #[.cell (.fn 1) false, .clos ⟨["x"], false, isEnumerableBody, []⟩,
              .store #[.int 1, .int 0] 1, .arr 2 0 2, .clos ⟨["_", "v"], false, valueBody, []⟩,
              .clos ⟨["k", "_"], false, keyBody, []⟩,
              .cell (.fn 7) false, .clos ⟨["x"], false, isArrayLikeBody, []⟩, .arr 2 0 2] }
def exEnv : Env := [{ vars := [("is_enumerable", 0), ("is_array_like", 6)] }]

theorem exBoundArr : IsArrLikeBound exHeap exEnv :=
  ⟨7, [], ⟨6, false, rfl, rfl⟩, rfl, fun _ _ => rfl⟩

theorem exBound : IsEnumBound exHeap exEnv :=
  ⟨1, [], ⟨0, false, rfl, rfl⟩, rfl, fun _ _ => rfl⟩

/-- `x = [1, 0]`, `fn = enum.value`: the hypotheses of all the theorems above hold. -/
theorem exCall : EnumCall 5 exHeap exEnv { env := [] } 3 2 [.int 1, .int 0] 4 (fun _ x => x) :=
  ⟨exBound, ⟨⟨0, 2, rfl, #[.int 1, .int 0], 1, rfl, rfl⟩, rfl⟩, callsAs_value rfl, by decide⟩

theorem exCallKey : EnumCall 5 exHeap exEnv { env := [] } 3 2 [.int 1, .int 0] 5 (fun i _ => .int i) :=
  ⟨exBound, ⟨⟨0, 2, rfl, #[.int 1, .int 0], 1, rfl, rfl⟩, rfl⟩, callsAs_key rfl, by decide⟩

theorem exScalar : ∀ (i : Nat) (x : Value), [Value.int 1, Value.int 0][i]? = some x → Scalar x = true := by
  intro i x h
  match i, h with
  | 0, h => cases h; rfl
  | 1, h => cases h; rfl
  | n + 2, h => simp at h

/-- `enum.all([1, 0], enum.value)` is false, `enum.any` is true, `enum.find` is 1, `enum.find_key(…, enum.key)`
is 1 (index 0 is falsy), on the reference interpreter. -/
example : ∃ c σ', exportClosure "all" exEnv = some c ∧
    callClosure (5 + 2 + 24) { env := [] } c [.arr 3, .fn 4] {} exHeap = .ok ((.bool false, {}), σ') := by
  obtain ⟨σ', _, h⟩ := enum_all_spec exCall exScalar _ rfl 5 (Nat.le_refl _) {}
  exact ⟨_, σ', rfl, h⟩

example : ∃ c σ', exportClosure "any" exEnv = some c ∧
    callClosure (5 + 2 + 23) { env := [] } c [.arr 3, .fn 4] {} exHeap = .ok ((.bool true, {}), σ') := by
  obtain ⟨σ', _, h⟩ := enum_any_spec exCall exScalar _ rfl 5 (Nat.le_refl _) {}
  exact ⟨_, σ', rfl, h⟩

example : ∃ c σ', exportClosure "find" exEnv = some c ∧
    callClosure (5 + 2 + 23) { env := [] } c [.arr 3, .fn 4] {} exHeap = .ok ((.int 1, {}), σ') := by
  obtain ⟨σ', _, h⟩ := enum_find_spec exCall exScalar _ rfl 5 (Nat.le_refl _) {}
  exact ⟨_, σ', rfl, h⟩

example : ∃ c σ', exportClosure "find_key" exEnv = some c ∧
    callClosure (5 + 2 + 23) { env := [] } c [.arr 3, .fn 5] {} exHeap = .ok ((.int 1, {}), σ') := by
  obtain ⟨σ', _, h⟩ := enum_find_key_spec exCallKey (fun _ _ _ => rfl) _ rfl 5 (Nat.le_refl _) {}
  exact ⟨_, σ', rfl, h⟩

example : ∃ c σ', exportClosure "each" exEnv = some c ∧
    callClosure (5 + 2 + 23) { env := [] } c [.arr 3, .fn 4] {} exHeap = .ok ((.undef, {}), σ') := by
  obtain ⟨σ', _, h⟩ := enum_each_spec exCall _ rfl 5 (Nat.le_refl _) {}
  exact ⟨_, σ', rfl, h⟩

/-- `enum.map([1, 0], enum.key)` is a fresh array reading `[0, 1]`. -/
example : ∃ c σ' rd sd, exportClosure "map" exEnv = some c ∧
    callClosure (5 + 2 + 17) { env := [] } c [.arr 3, .fn 5] {} exHeap = .ok ((.arr rd, {}), σ') ∧
    ArrAt σ' rd sd [.int 0, .int 1] := by
  obtain ⟨σ', rd, sd, _, _, ha, h⟩ := enum_map_spec exCallKey (fun _ _ => rfl) rfl _ rfl 5 (Nat.le_refl _) {}
  exact ⟨_, σ', rd, sd, rfl, h, ha⟩

/-- `enum.filter([1, 0], enum.value)` is a fresh array reading `[1]`. -/
example : ∃ c σ' rd sd, exportClosure "filter" exEnv = some c ∧
    callClosure (5 + 2 + 17) { env := [] } c [.arr 3, .fn 4] {} exHeap = .ok ((.arr rd, {}), σ') ∧
    ArrAt σ' rd sd [.int 1] := by
  obtain ⟨σ', rd, sd, _, _, ha, h⟩ := enum_filter_spec exBoundArr exCall.arr exCall.cb (ctx := { env := [] })
    (by decide) exScalar (fun _ _ => rfl) rfl _ rfl 5 (Nat.le_refl _) {}
  exact ⟨_, σ', rd, sd, rfl, h, ha⟩

/-- `enum.at([1, 0], 1)` is 0; `enum.all(immutable([1, 0]), enum.value)` is false. -/
example : ∃ c σ', exportClosure "at" exEnv = some c ∧
    callClosure 16 { env := [] } c [.arr 3, .int 1] {} exHeap = .ok ((.int 0, {}), σ') := by
  obtain ⟨σ', _, h⟩ := enum_at_array_spec (ctx := { env := [] }) exBound exBoundArr exCall.arr (by decide) rfl _ rfl
    (.int 1) 0 {}
  exact ⟨_, σ', rfl, h⟩

theorem exCallIm : EnumCall 5 exHeap exEnv { env := [] } 8 2 [.int 1, .int 0] 4 (fun _ x => x) :=
  ⟨exBound, ⟨⟨0, 2, rfl, #[.int 1, .int 0], 1, rfl, rfl⟩, rfl⟩, callsAs_value rfl, by decide⟩

example : ∃ c σ', exportClosure "all" exEnv = some c ∧
    callClosure (5 + 2 + 24) { env := [] } c [.imarr 8, .fn 4] {} exHeap = .ok ((.bool false, {}), σ') := by
  obtain ⟨σ', _, h⟩ := enum_all_imarr_spec exCallIm exScalar _ rfl 5 (Nat.le_refl _) {}
  exact ⟨_, σ', rfl, h⟩

/-- `enum.map(immutable([1, 0]), enum.value)` is a fresh array reading `[1, 0]`. -/
example : ∃ c σ' rd sd, exportClosure "map" exEnv = some c ∧
    callClosure (5 + 2 + 17) { env := [] } c [.imarr 8, .fn 4] {} exHeap = .ok ((.arr rd, {}), σ') ∧
    ArrAt σ' rd sd [.int 1, .int 0] := by
  obtain ⟨σ', rd, sd, _, _, ha, h⟩ := enum_map_imarr_spec exCallIm (fun _ _ => rfl) rfl _ rfl 5 (Nat.le_refl _) {}
  exact ⟨_, σ', rd, sd, rfl, h, ha⟩

/-- `enum.chunk([1, 0], 1)` is a fresh array of two groups. -/
example : ∃ c σ' rd sd hs, exportClosure "chunk" exEnv = some c ∧
    callClosure (0 + 2 + 19) { env := [] } c [.arr 3, .int (1 : Nat)] {} exHeap = .ok ((.arr rd, {}), σ') ∧
    ArrAt σ' rd sd hs ∧ 2 ≤ hs.length * 1 ∧ (hs.length - 1) * 1 < 2 := by
  obtain ⟨σ', rd, sd, hs, h, ha, h1, h2, _⟩ := enum_chunk_array_spec (ctx := { env := [] }) (σ := exHeap) (r := 3)
    (st := 2) (off := 0) (len := 2) (sN := 1) (h0 := 1) (vs := #[.int 1, .int 0]) exBoundArr rfl rfl (by decide) rfl
    (by decide) (by decide) (fun _ _ => rfl) rfl rfl (by decide) (by decide) (by decide) _ rfl 0 {}
  exact ⟨_, σ', rd, sd, hs, rfl, h, ha, h1, h2⟩

example : ∃ c, exportClosure "all" exEnv = some c ∧
    callClosure 16 { env := [] } c [.int 3, .fn 4] {} exHeap = .ok ((.undef, {}), stG exHeap (.int 3) (.fn 4)) :=
  ⟨_, rfl, (enum_not_enumerable_spec (name := "all") (by simp) exBound (by decide) _ rfl (.int 3) (.fn 4) rfl 0 {}).1⟩

end Tengo.Props.C19Enum

import Tengo.Proofs.C19EnumEval
import Tengo.Proofs.C19EnumPrint
import Tengo.Model.StdlibExpect
/-!
C19, the enum source module on the reference interpreter of C01 (`Spec.callClosure` = what the interpreter
runs when a function value is called).

* `enum_ast_renders_audited_code`: the AST of the module used below (`Proofs/C19EnumAst.lean`), printed by
  `render`, is line by line the audited code `StdlibExpect.enumCode` (= srcmod_enum.tengo = the embedded
  string by `C19.enum_code_matches`, `enum_source_matches`).
* `enum_key_spec`, `enum_value_spec`: for ALL argument values, heaps, environments and fuel ≥ 5 the exported
  functions `key` / `value` return their first / second argument (documented: "key returns the first
  argument", "value returns the second argument"); the heap only grows by the two parameter cells.
Not proved yet: all, any, each, filter, find, find_key, map, at, chunk (see notes/C19.md; the call/guard
lemmas they need are in `Proofs/C19EnumEval.lean`).
-/
namespace Tengo.Props.C19Enum
open Tengo.Model Tengo.Model.Spec Tengo.Proofs.C19Enum

theorem enum_ast_renders_audited_code : render = Tengo.Model.StdlibExpect.enumCode := by decide

/-- The closure the interpreter builds for the exported function `name` in environment `env`. -/
def exportClosure (name : String) (env : Env) : Option Closure :=
  (enumExports.lookup name).map (fun pb => ⟨pb.1, false, pb.2, env⟩)

theorem enum_key_spec (F : Nat) (ctx : Ctx) (env : Env) (c : Closure) (a b : Value) (gs : GSt) (σ : St)
    (hc : exportClosure "key" env = some c) (hd : ctx.callDepth < 900) :
    callClosure (F + 5) ctx c [a, b] gs σ = .ok ((a, gs), st2 σ a b) ∧ Ext σ (st2 σ a b) := by
  have : c = ⟨["k", "_"], false, keyBody, env⟩ := by
    have h : exportClosure "key" env = some ⟨["k", "_"], false, keyBody, env⟩ := rfl
    rw [h] at hc; exact (Option.some.inj hc).symm
  subst this
  refine ⟨?_, ext_st2 σ a b⟩
  rw [callClosure2 gs σ hd (by decide)]
  have hv : Var (st2 σ a b) (enter2 env ctx "k" "_" σ).env "k" a :=
    ⟨σ.heap.size, false, by simp [enter2, lookupVar_cons, List.lookup], st2_get0 σ a b⟩
  unfold keyBody
  rw [em_bind_ok (block_ret_ident hv F 0 gs)]
  rfl

theorem enum_value_spec (F : Nat) (ctx : Ctx) (env : Env) (c : Closure) (a b : Value) (gs : GSt) (σ : St)
    (hc : exportClosure "value" env = some c) (hd : ctx.callDepth < 900) :
    callClosure (F + 5) ctx c [a, b] gs σ = .ok ((b, gs), st2 σ a b) ∧ Ext σ (st2 σ a b) := by
  have : c = ⟨["_", "v"], false, valueBody, env⟩ := by
    have h : exportClosure "value" env = some ⟨["_", "v"], false, valueBody, env⟩ := rfl
    rw [h] at hc; exact (Option.some.inj hc).symm
  subst this
  refine ⟨?_, ext_st2 σ a b⟩
  rw [callClosure2 gs σ hd (by decide)]
  have hv : Var (st2 σ a b) (enter2 env ctx "_" "v" σ).env "v" b :=
    ⟨σ.heap.size + 1, false, by simp [enter2, lookupVar_cons, List.lookup], st2_get1 σ a b⟩
  unfold valueBody
  rw [em_bind_ok (block_ret_ident hv F 0 gs)]
  rfl

/-- Non-vacuity: the hypotheses are met (empty environment, empty heap, call at top level), and the result is
the first argument. -/
example : ∃ c, exportClosure "key" [] = some c ∧
    callClosure 5 { env := [] } c [.int 7, .bool true] {} {} = .ok ((.int 7, {}), st2 {} (.int 7) (.bool true)) := by
  refine ⟨⟨["k", "_"], false, keyBody, []⟩, rfl, ?_⟩
  exact (enum_key_spec 0 { env := [] } [] _ (.int 7) (.bool true) {} {} rfl (by decide)).1

example : ∃ c, exportClosure "value" [] = some c ∧
    callClosure 5 { env := [] } c [.int 7, .bool true] {} {} = .ok ((.bool true, {}), st2 {} (.int 7) (.bool true)) := by
  refine ⟨⟨["_", "v"], false, valueBody, []⟩, rfl, ?_⟩
  exact (enum_value_spec 0 { env := [] } [] _ (.int 7) (.bool true) {} {} rfl (by decide)).1

end Tengo.Props.C19Enum

import Tengo.Model.Verifier
import Tengo.Proofs.VMSafe
import Tengo.Gen.Opcodes
import Tengo.Gen.Limits
/-!
C02 — Emitted bytecode is structurally sound and stack-balanced.

`verify_sound`: a function accepted by the verifier (`heights`) has, at every instruction the
abstract stack machine can reach, exactly the operand-stack height the table predicts; it never
underflows, never leaves the instruction boundaries of the function (so every jump lands on a
boundary and no path runs off the end), and never exceeds the height limit. The verifier is run on
every function the real compiler emits (harness/cmd/c02) and its height table is compared with the
`sp` the real VM shows at every dispatched instruction.
-/
namespace Tengo.Props.C02
open Tengo.Model Tengo.Model.Opcodes Tengo.Model.Verifier
open Tengo.Model.VM Tengo.Model.Spec

theorem opcode_table_matches : Tengo.Gen.Opcodes.table = Tengo.Model.Opcodes.table := by decide

/-- The operand stack budget used by the harness is the VM's `StackSize`. -/
theorem stack_limit_matches : Tengo.Gen.Limits.stackSize = 2048 ∧ Tengo.Gen.Limits.maxFrames = 1024 ∧
    Tengo.Gen.Limits.globalsSize = 1024 := by decide

theorem instrAt_mem {is : List Instr} {p : Nat} {i : Instr} (h : instrAt is p = some i) :
    i ∈ is ∧ i.pos = p := by
  unfold instrAt at h
  have h1 := List.mem_of_find?_eq_some h
  have h2 := List.find?_some h
  exact ⟨h1, by simpa using h2⟩

/-- Soundness of a checked height table: every reachable abstract state has the tabulated height. -/
theorem table_sound (is : List Instr) (hm : HMap) (limit : Nat)
    (hc : checkAll is hm limit = true) (h0 : hm.get 0 = some 0)
    {p h : Nat} (hr : AReach is p h) : hm.get p = some h := by
  induction hr with
  | entry => exact h0
  | @step p h p' h' i l _ hi hs hmem ih =>
    obtain ⟨himem, hpos⟩ := instrAt_mem hi
    have hci : checkInstr is hm limit i = true := by
      unfold checkAll at hc
      exact (List.all_eq_true.mp hc) i himem
    unfold checkInstr at hci
    rw [hpos, ih] at hci
    simp only [Bool.and_eq_true] at hci
    rw [hs] at hci
    have := (List.all_eq_true.mp hci.2) (p', h') hmem
    simp only [Bool.and_eq_true, beq_iff_eq] at this
    exact this.2

/-- Every reachable position is an instruction boundary of the function (jumps land on
boundaries; no path runs off the end). -/
theorem reach_on_boundary (is : List Instr) (hm : HMap) (limit : Nat)
    (hc : checkAll is hm limit = true) (h0 : hm.get 0 = some 0) (hstart : (instrAt is 0).isSome = true)
    {p h : Nat} (hr : AReach is p h) : (instrAt is p).isSome = true := by
  cases hr with
  | entry => exact hstart
  | @step p0 h0' _ _ i l hr0 hi hs hmem =>
    have ih := table_sound is hm limit hc h0 hr0
    obtain ⟨himem, hpos⟩ := instrAt_mem hi
    have hci : checkInstr is hm limit i = true := (List.all_eq_true.mp (by simpa [checkAll] using hc)) i himem
    unfold checkInstr at hci
    rw [hpos, ih] at hci
    simp only [Bool.and_eq_true] at hci
    rw [hs] at hci
    have := (List.all_eq_true.mp hci.2) (p, h) hmem
    simp only [Bool.and_eq_true] at this
    exact this.1

/-- No reachable instruction underflows the operand stack or is an unknown opcode, and the height
stays within the limit. -/
theorem reach_progress (is : List Instr) (hm : HMap) (limit : Nat)
    (hc : checkAll is hm limit = true) (h0 : hm.get 0 = some 0)
    {p h : Nat} {i : Instr} (hr : AReach is p h) (hi : instrAt is p = some i) :
    (succs i h).isSome = true ∧ h ≤ limit := by
  have ih := table_sound is hm limit hc h0 hr
  obtain ⟨himem, hpos⟩ := instrAt_mem hi
  have hci : checkInstr is hm limit i = true := (List.all_eq_true.mp (by simpa [checkAll] using hc)) i himem
  unfold checkInstr at hci
  rw [hpos, ih] at hci
  simp only [Bool.and_eq_true, decide_eq_true_eq] at hci
  refine ⟨?_, hci.1⟩
  cases hsx : succs i h with
  | none => rw [hsx] at hci; simp at hci
  | some l => rfl

/-- **C02 (verify_sound).** What acceptance by the verifier guarantees for every execution of the
abstract stack machine, at any number of steps. -/
theorem verify_sound (is : List Instr) (limit : Nat) (hm : HMap) (hv : heights is limit = .ok hm)
    {p h : Nat} (hr : AReach is p h) :
    hm.get p = some h ∧ (∃ i, instrAt is p = some i ∧ (succs i h).isSome = true) ∧ h ≤ limit := by
  unfold heights at hv
  split at hv
  · simp at hv
  · split at hv
    · simp at hv
    · rename_i hm' _
      split at hv
      · rename_i hcond
        simp only [Bool.and_eq_true, beq_iff_eq] at hcond
        injection hv with hv
        subst hv
        obtain ⟨⟨hc, h0⟩, hstart⟩ := hcond
        have hb := reach_on_boundary is hm' limit hc h0 hstart hr
        obtain ⟨i, hi⟩ := Option.isSome_iff_exists.mp hb
        have hp := reach_progress is hm' limit hc h0 hr hi
        exact ⟨table_sound is hm' limit hc h0 hr, ⟨i, hi, hp.1⟩, hp.2⟩
      · split at hv <;> simp at hv

/-- Non-vacuity: `CONST 0; CONST 0; BINARYOP +; POP; SUSPEND` is accepted with heights 0,1,2,1,0,
and the state after the two pushes is reachable. -/
example :
    let is : List Instr := [⟨0, opConstant, [0]⟩, ⟨3, opConstant, [0]⟩, ⟨6, opBinaryOp, [11]⟩, ⟨8, opPop, []⟩, ⟨9, opSuspend, []⟩]
    (match heights is 2048 with | .ok hm => hm.get 6 == some 2 && hm.get 9 == some 0 | .error _ => false) = true := by
  decide

/-- Non-vacuity of rejection: a POP on an empty stack is refused. -/
example : (match heights [⟨0, opPop, []⟩, ⟨1, opSuspend, []⟩] 2048 with | .ok _ => true | .error _ => false) = false := by
  decide

/-- **C02 for the whole-VM model (`verified_run_safe`).** If the whole-program verifier accepts the
code object, then a run started as `VM.Run` starts it — any length, any allocation budget, any heap,
any initial globals — never ends in an internal fault, and if it halts the operand stack is empty and
no call frame is left. -/
theorem verified_run_safe (code : Code) (G : Nat) (t : ProgTabs) (hv : verifyProgram code G = .ok t)
    (globals : Array Value) (hG : globals.size = G) (fobjs : Array FnObj) (hi : initOk code t fobjs = true)
    (keep fuel : Nat) (allocs : Int) (g : GSt) (heap : St) :
    GoodOutcome code t G (run code keep fuel allocs ⟨initCore globals fobjs, g, heap⟩ {}).1 :=
  run_safe (verifyProgram_ok hv) keep fuel allocs _ {} (init_inv (verifyProgram_ok hv) globals hG fobjs hi)

theorem verified_no_fault (code : Code) (G : Nat) (t : ProgTabs) (hv : verifyProgram code G = .ok t)
    (globals : Array Value) (hG : globals.size = G) (fobjs : Array FnObj) (hi : initOk code t fobjs = true)
    (keep fuel : Nat) (allocs : Int) (g : GSt) (heap : St) (ft : Fault) (at_ : Cfg) :
    (run code keep fuel allocs ⟨initCore globals fobjs, g, heap⟩ {}).1 ≠ .fault ft at_ := by
  intro h
  have := verified_run_safe code G t hv globals hG fobjs hi keep fuel allocs g heap
  rw [h] at this
  exact this

theorem verified_halt_balanced (code : Code) (G : Nat) (t : ProgTabs) (hv : verifyProgram code G = .ok t)
    (globals : Array Value) (hG : globals.size = G) (fobjs : Array FnObj) (hi : initOk code t fobjs = true)
    (keep fuel : Nat) (allocs : Int) (g : GSt) (heap : St) (cfg' : Cfg)
    (h : (run code keep fuel allocs ⟨initCore globals fobjs, g, heap⟩ {}).1 = .halted cfg') :
    cfg'.core.regs.sp = 0 ∧ cfg'.core.callers = [] := by
  have := verified_run_safe code G t hv globals hG fobjs hi keep fuel allocs g heap
  rw [h] at this
  exact this

/-! non-vacuity: `x := 1 + 1` (CONST 0; CONST 0; BINARYOP +; SETG 0; SUSPEND) and a program with a closure call -/
def exMain : Fn := { insts := #[0, 0, 0, 0, 0, 0, 40, 11, 23, 0, 0, 41], numLocals := 0, numParams := 0, varargs := false }
def exCode : Code := { main := exMain, consts := #[.val (.int 1)] }

example : (match verifyProgram exCode 1 with | .ok t => initOk exCode t #[] | .error _ => false) = true := by decide


/-- a program that calls a function constant: `f := func() {}; f()` -/
def exFn : Fn := { insts := #[21, 0], numLocals := 0, numParams := 0, varargs := false }
def exCode2 : Code := { main := { insts := #[0, 0, 0, 20, 0, 0, 2, 41], numLocals := 0, numParams := 0, varargs := false },
                        consts := #[.fn exFn 0] }
example : (match verifyProgram exCode2 1 with | .ok t => initOk exCode2 t #[(0, [])] && t.fns.length == 2 | .error _ => false) = true := by
  decide

/-- and rejection: a main function that pops an empty stack -/
example : (match verifyProgram { main := { insts := #[2, 41], numLocals := 0, numParams := 0, varargs := false }, consts := #[] } 1 with
    | .ok _ => true | .error _ => false) = false := by decide

end Tengo.Props.C02

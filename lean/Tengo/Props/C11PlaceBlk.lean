import Tengo.Proofs.C11PlaceBlkMain
import Tengo.Props.C11Place
/-!
C11 — PLACEMENT global ↦ local on fragment F3 WITH DECLARATIONS IN NESTED BLOCKS (`x := e` inside `if` / loop
bodies, block-scoped shadowing).

The program is given with its variables resolved to slots (what the symbol table does; `Props/C11`:
`visible_locals_distinct`, `global_define_fresh`): `n` variables, one slot each; the slots `< m` are the OUTER
variables, the slots `m … n-1` are declared by `:=` inside the statements, at ANY nesting depth — a declaration that
shadows an outer name is simply another slot. `B` (class `l2Ss n`) is the function-body form: reads `GETL i`,
`x := e` = `defl i e` (`DEFL`), `x = e` = `setl i e` (`SETL`). The GLOBAL placement is `progG (globSs B)`: the same
statements at the top level of main, where every variable — also one declared in a nested block — is a global slot
(`SETG` for both `:=` and `=`, `GETG`). The LOCAL placement is
`progLB m n L B`: `f = func() { x_0 := r_0; …; x_{m-1} := r_{m-1}; B; r_0 = x_0; …; r_{m-1} = x_{m-1} }; f()`.

The two placements differ in what a variable holds BEFORE its declaration was executed (a global slot holds its
start value, a local slot of the reference semantics nothing: `bad`, "not a behaviour of the language"), so the
statement is for local placements that are never `bad` — implied by the static scope check `F3.Scoped` (definite
assignment with block scope: a definition inside an `if` / loop body does not count after it — exactly tengo's
block scoping).

* `placement_global_vs_local_nested_define_fragment3_sem`: on `F3.exec`, both directions.
* `placement_global_vs_local_nested_define_fragment3_scoped`: the same from `Scoped`.
* `placement_global_vs_local_nested_define_fragment3_vm_partial`: on `VM.run` over any code `CodeRel3`-related to
  the FRAGMENT compiler's output `F3.compProg` for both programs. PARTIAL: `Compiler.compileFile` is not covered —
  `compileFile_fragment3_partial` has local definitions only at the top level of a function body; NOT modelled: the
  real compiler re-uses the local slot of a finished block for the next sibling block (here: one slot per declared
  variable).
-/
set_option linter.unusedVariables false
namespace Tengo.Props.C11PlaceBlk
open Tengo.Model Tengo.Model.F3
open Tengo.Model.F0 (Sem upd)
open Tengo.Model.Spec (Value GSt Err)
open Tengo.Model.VM (Core Code Cfg Log)
open Tengo.Proofs.C11Place
open Tengo.Proofs.C01BridgeF3 (DataRel GlobRel3 CodeRel3 Rel3)
open Tengo.Props.C01F3Bridge (WithinVM vm_computes_fragment3)

/-- **Same fuel, statement by statement, declarations at any depth**: a statement list of the local placement is
`bad` (block variable read before its definition) or has the result of the global placement, final locals related
to the final globals. -/
theorem placement_nested_define_same_fuel {V : Type} (E : Env V) (m n : Nat) (P P' : Prog) (f : Nat) (ss : Stms)
    (g : Nat → V) (lG : Locals V) (gL : Nat → V) (l : Locals V) (hc : l2Ss n ss = true) (hR : Rm m n g l) :
    SimR m n gL (execSs E P' f ss gL l) (execSs E P f (globSs ss) g lG) :=
  (simR_all E m n P P' f).ss ss g lG gL l hc hR

/-- **Placement global ↦ local with `:=` in nested blocks, reference semantics.** `B` of class `l2Ss n`, outer
variables `< m ≤ n`, `E.asFn (E.cs L) = some L`, start globals `g`, and the local placement is never `bad` from `g`
(`hnb`). Then, with `gL = upd g n (E.cs L)`: the local placement ends with `g''` iff the global placement ends with
some `g'` and `g'' = mkG m gL g'` (the outer variables' final values in the slots `< m`); run-time errors
correspond; divergence corresponds; and the global placement is never `bad` either. -/
theorem placement_global_vs_local_nested_define_fragment3_sem {V : Type} (E : Env V) (m n L : Nat) (B : Stms)
    (hmn : m ≤ n) (hc : l2Ss n B = true) (hfn : E.asFn (E.cs L) = some L) (g : Nat → V)
    (hnb : ∀ F, F3.exec E (progLB m n L B) F g ≠ .bad) :
    (∀ g'', (∃ F, F3.exec E (progLB m n L B) F g = .done g'') ↔
      ∃ f g', F3.exec E (progG (globSs B)) f g = .done g' ∧ g'' = mkG m (upd g n (E.cs L)) g') ∧
    ((∃ F, F3.exec E (progLB m n L B) F g = .err) ↔ ∃ f, F3.exec E (progG (globSs B)) f g = .err) ∧
    ((∀ F, F3.exec E (progLB m n L B) F g = .out) ↔ ∀ f, F3.exec E (progG (globSs B)) f g = .out) ∧
    (∀ f, F3.exec E (progG (globSs B)) f g ≠ .bad) := by
  have fwd : ∀ f r, F3.exec E (progG (globSs B)) f g = r → r ≠ .out →
      ∃ F, F3.exec E (progLB m n L B) F g = tP m (upd g n (E.cs L)) r := by
    intro f r hr hne
    obtain ⟨F, hF⟩ := placementB_forward m n L B hmn hc hfn f g r hr hne
    rcases hF with hb | hF
    · exact absurd hb (hnb F)
    · exact ⟨F, hF⟩
  refine ⟨fun g'' => ⟨?_, ?_⟩, ⟨?_, ?_⟩, ⟨?_, ?_⟩, ?_⟩
  · rintro ⟨F, hF⟩
    obtain ⟨f, r, hr, hne, heq⟩ := placementB_backward m n L B hmn hc hfn g hnb F _ hF (by simp)
    cases r with
    | done g' => simp only [tP, PRes.done.injEq] at heq; exact ⟨f, g', hr, heq⟩
    | err => cases heq
    | out => cases heq
    | bad => cases heq
  · rintro ⟨f, g', hf, rfl⟩
    exact fwd f _ hf (by simp)
  · rintro ⟨F, hF⟩
    obtain ⟨f, r, hr, hne, heq⟩ := placementB_backward m n L B hmn hc hfn g hnb F _ hF (by simp)
    cases r with
    | done g' => cases heq
    | err => exact ⟨f, hr⟩
    | out => cases heq
    | bad => cases heq
  · rintro ⟨f, hf⟩
    exact fwd f _ hf (by simp)
  · intro h f
    cases hr : F3.exec E (progG (globSs B)) f g with
    | out => rfl
    | done g' => obtain ⟨F, hF⟩ := fwd f _ hr (by simp); rw [h F] at hF; cases hF
    | err => obtain ⟨F, hF⟩ := fwd f _ hr (by simp); rw [h F] at hF; cases hF
    | bad => obtain ⟨F, hF⟩ := fwd f _ hr (by simp); rw [h F] at hF; cases hF
  · intro h F
    cases hr : F3.exec E (progLB m n L B) F g with
    | out => rfl
    | done g' =>
      obtain ⟨f, hf⟩ := placementB_progress m n L B hc hfn F g (by rw [hr]; simp) (hnb F)
      exact absurd (h f) hf
    | err =>
      obtain ⟨f, hf⟩ := placementB_progress m n L B hc hfn F g (by rw [hr]; simp) (hnb F)
      exact absurd (h f) hf
    | bad => exact absurd hr (hnb F)
  · intro f hb
    obtain ⟨F, hF⟩ := fwd f _ hb (by simp)
    exact hnb F hF

/-- The same for statically scoped local placements (`F3.Scoped`: definite assignment with block scope, `break` /
`continue` inside loops, callable values denote function constants). -/
theorem placement_global_vs_local_nested_define_fragment3_scoped {V : Type} (E : Env V) (m n L : Nat) (B : Stms)
    (hmn : m ≤ n) (hc : l2Ss n B = true) (hfn : E.asFn (E.cs L) = some L) (hS : Scoped E (progLB m n L B))
    (g : Nat → V) :
    (∀ g'', (∃ F, F3.exec E (progLB m n L B) F g = .done g'') ↔
      ∃ f g', F3.exec E (progG (globSs B)) f g = .done g' ∧ g'' = mkG m (upd g n (E.cs L)) g') ∧
    ((∃ F, F3.exec E (progLB m n L B) F g = .err) ↔ ∃ f, F3.exec E (progG (globSs B)) f g = .err) ∧
    ((∀ F, F3.exec E (progLB m n L B) F g = .out) ↔ ∀ f, F3.exec E (progG (globSs B)) f g = .out) ∧
    (∀ f, F3.exec E (progG (globSs B)) f g ≠ .bad) :=
  placement_global_vs_local_nested_define_fragment3_sem E m n L B hmn hc hfn g (fun F => F3.exec_not_bad hS F g)

/-- **On `VM.run`, over the fragment compiler's code (PARTIAL: not `Compiler.compileFile`, see the module text).**
`codeG` / `codeL` are any VM codes `CodeRel3`-related to `F3.compProg` of the two placements, `cG` / `cL` cores
related to the initial machine states, both programs `ProgOk`, both runs within the VM's sizes, the local placement
`Scoped`. If the reference run of the global placement ends with `g'`, both `VM.run`s halt (every fuel from some
point on, heap untouched, empty stack) with globals related to `g'` resp. `mkG m gL g'` — so the outer variables'
slots `i < m` hold `val (g' i)` in both; if it ends in a run-time error, both end `failed`, not with `fuel`. -/
theorem placement_global_vs_local_nested_define_fragment3_vm_partial {V : Type} (E : Env V) (m n L : Nat) (B : Stms)
    (hmn : m ≤ n) (hc : l2Ss n B = true) (hfn : E.asFn (E.cs L) = some L) (hS : Scoped E (progLB m n L B))
    (hPG : ProgOk (progG (globSs B))) (hPL : ProgOk (progLB m n L B))
    (g stk : Nat → V) {KG KL nG nL : Nat} (hnG : m ≤ nG) (hnL : m ≤ nL) {val : V → Value} {ref : Nat → Nat}
    {codeG codeL : Code}
    (hcodeG : CodeRel3 (compProg (progG (globSs B))) KG nG E val ref codeG)
    (hcodeL : CodeRel3 (compProg (progLB m n L B)) KL nL E val ref codeL) (hD : DataRel E.S val) {cG cL : Core}
    (hrelG : Rel3 (compProg (progG (globSs B))) nG val ref (St.init stk g) cG)
    (hrelL : Rel3 (compProg (progLB m n L B)) nL val ref (St.init stk g) cL)
    (hWG : WithinVM E (compProg (progG (globSs B))) (St.init stk g))
    (hWL : WithinVM E (compProg (progLB m n L B)) (St.init stk g))
    (keep : Nat) (allocs : Int) (log : Log) (gst : GSt) (heap : Spec.St) (ha : allocs ≤ 0) :
    (∀ f g', F3.exec E (progG (globSs B)) f g = .done g' →
      ∃ (cG' cL' : Core) (mG mL : Nat),
        (∀ k, (VM.run codeG keep (mG + 1 + k) allocs ⟨cG, gst, heap⟩ log).1 = .halted ⟨cG', gst, heap⟩) ∧
        (∀ k, (VM.run codeL keep (mL + 1 + k) allocs ⟨cL, gst, heap⟩ log).1 = .halted ⟨cL', gst, heap⟩) ∧
        cG'.regs.sp = 0 ∧ cL'.regs.sp = 0 ∧
        ∀ i, i < m → cG'.regs.globals.getD i .undef = val (g' i) ∧ cL'.regs.globals.getD i .undef = val (g' i)) ∧
    (∀ f, F3.exec E (progG (globSs B)) f g = .err →
      ∃ (eG eL : Err) (atG atL : Cfg) (mG mL : Nat), eG ≠ Err.fuel ∧ eL ≠ Err.fuel ∧
        (∀ k, (VM.run codeG keep (mG + 1 + k) allocs ⟨cG, gst, heap⟩ log).1 = .failed eG atG) ∧
        (∀ k, (VM.run codeL keep (mL + 1 + k) allocs ⟨cL, gst, heap⟩ log).1 = .failed eL atL)) := by
  have hnb : ∀ F, F3.exec E (progLB m n L B) F g ≠ .bad := fun F => F3.exec_not_bad hS F g
  constructor
  · intro f g' hf
    obtain ⟨F, hF⟩ := placementB_forward m n L B hmn hc hfn f g _ hf (by simp)
    rcases hF with hb | hF
    · exact absurd hb (hnb F)
    obtain ⟨cG', mG, hglG, hspG, hrunG⟩ :=
      (vm_computes_fragment3 E _ hPG f g stk hcodeG hD hrelG hWG keep allocs log gst heap ha).1 g' hf
    obtain ⟨cL', mL, hglL, hspL, hrunL⟩ :=
      (vm_computes_fragment3 E _ hPL F g stk hcodeL hD hrelL hWL keep allocs log gst heap ha).1 _ hF
    refine ⟨cG', cL', mG, mL, hrunG, hrunL, hspG, hspL, fun i hi => ⟨hglG.2 i (by omega), ?_⟩⟩
    rw [hglL.2 i (by omega)]
    simp only [mkG, hi, if_true]
  · intro f hf
    obtain ⟨F, hF⟩ := placementB_forward m n L B hmn hc hfn f g _ hf (by simp)
    rcases hF with hb | hF
    · exact absurd hb (hnb F)
    obtain ⟨eG, atG, mG, hneG, hrunG⟩ :=
      (vm_computes_fragment3 E _ hPG f g stk hcodeG hD hrelG hWG keep allocs log gst heap ha).2 hf
    obtain ⟨eL, atL, mL, hneL, hrunL⟩ :=
      (vm_computes_fragment3 E _ hPL F g stk hcodeL hD hrelL hWL keep allocs log gst heap ha).2 hF
    exact ⟨eG, eL, atG, atL, mG, mL, hneG, hneL, hrunG, hrunL⟩

/-! ### non-vacuity -/

namespace Example
open Tengo.Props.C11Place.Example (natEnv ends)

/-- One outer variable `x` (slot 0), two block-scoped declarations sharing the name `y` with nothing outside
(slot 1; the second one, in the loop body, is declared again on every iteration):
`if x < 3 { y := x + 1; x = y + y };  for x < 3 { y := x; x = y + 3 }`
(constants of `natEnv`: 1 ↦ 3, 2 ↦ 1; token 38 is `<`, 11 is `+`). -/
def blkB : Stms :=
  .cons (.ifs (.bin 38 (.loc 0) (.lit 1))
    (.cons (.defl 1 (.bin 11 (.loc 0) (.lit 2))) (.cons (.setl 0 (.bin 11 (.loc 1) (.loc 1))) .nil)))
  (.cons (.whil (.bin 38 (.loc 0) (.lit 1))
    (.cons (.defl 1 (.loc 0)) (.cons (.setl 0 (.bin 11 (.loc 1) (.lit 1))) .nil))) .nil)

example : l2Ss 2 blkB = true := by decide

theorem blk_scoped : Scoped natEnv (progLB 1 2 4 blkB) where
  fns := by
    intro k fd h
    by_cases hk : k = 4
    · subst hk
      simp only [progLB, if_true, Option.some.injEq] at h
      subst h
      decide
    · simp only [progLB, if_neg hk] at h; cases h
  main := by decide
  closed := by
    intro v k h
    simp only [natEnv] at h
    by_cases hv : (v == 1000) = true
    · rw [if_pos hv] at h; injection h with h; subst h
      exact ⟨fnDefB 1 2 blkB, by simp only [progLB, if_true]⟩
    · rw [if_neg hv] at h; cases h

/-- **Non-vacuity of `placement_global_vs_local_nested_define_fragment3_scoped`**: the global placement (the block
variables are the global slot 1) ends with `x = 5` (fuel 30), so the local placement (the block variables are `DEFL`
in nested blocks of the function body) ends with `r0 = 5`; checked directly as well (fuel 40). -/
example : ∃ F g'', F3.exec natEnv (progLB 1 2 4 blkB) F (fun _ => 0) = .done g'' ∧ g'' 0 = 5 := by
  have hG : ends 5 2 (F3.exec natEnv (progG (globSs blkB)) 30 (fun _ => 0)) = true := by decide
  cases he : F3.exec natEnv (progG (globSs blkB)) 30 (fun _ => 0) with
  | done g' =>
    rw [he] at hG
    simp only [ends, Bool.and_eq_true, beq_iff_eq] at hG
    obtain ⟨F, hF⟩ := ((placement_global_vs_local_nested_define_fragment3_scoped natEnv 1 2 4 blkB (by decide)
      (by decide) (by decide) blk_scoped (fun _ => 0)).1 _).2 ⟨30, g', he, rfl⟩
    exact ⟨F, _, hF, by simp only [mkG]; exact hG.1⟩
  | err => rw [he] at hG; cases hG
  | out => rw [he] at hG; cases hG
  | bad => rw [he] at hG; cases hG

example : ends 5 0 (F3.exec natEnv (progLB 1 2 4 blkB) 40 (fun _ => 0)) = true := by decide

/-- The hypothesis "never `bad`" is needed: `if false { y := 1 }; x = y` reads the start value of the global `y` in
the global placement, but an undefined local in the local placement (the real compiler rejects the program:
unresolved reference). -/
def blkBad : Stms :=
  .cons (.ifs .fls (.cons (.defl 1 (.lit 2)) .nil)) (.cons (.setl 0 (.loc 1)) .nil)

def isBad : PRes Nat → Bool
  | .bad => true
  | _ => false

example : ends 7 7 (F3.exec natEnv (progG (globSs blkBad)) 10 (fun _ => 7)) = true ∧
    isBad (F3.exec natEnv (progLB 1 2 4 blkBad) 20 (fun _ => 7)) = true := by decide

end Example

end Tengo.Props.C11PlaceBlk

import Tengo.Model.Dedup
import Tengo.Gen.Opcodes
import Tengo.Gen.GobFields
/-!
C12 — Bytecode post-processing and serialization preserve behaviour.

Theorems about `Tengo.Model.Dedup` (the model of `RemoveDuplicates`/`updateConstIndexes` and the abstract
gob round trip). The model is tied to bytecode.go by the `dedup`/`pool` correspondence streams (byte-identical
output) and by the regenerated facts `Tengo.Gen.GobFields` / `Tengo.Gen.Opcodes`.
-/
namespace Tengo.Props.C12
open Tengo.Model Tengo.Model.Opcodes Tengo.Model.Dedup

/-! ### Regenerated facts -/

/-- The opcode table `updateConstIndexes` decodes with is the one parser/opcodes.go declares now. -/
theorem opcode_table_matches : Tengo.Gen.Opcodes.table = Tengo.Model.Opcodes.table := by decide

/-- gob registrations in `init()` of bytecode.go. -/
theorem gob_registered_matches : Tengo.Gen.GobFields.registered = gobRegistered := by decide

/-- Arms of the type switch of `RemoveDuplicates` = the constructors of `Const` with a key, plus default;
the update loop visits exactly the `*CompiledFunction` constants; main + loop = two update calls; the
rewritten opcodes are CONST and CLOSURE. -/
theorem dedup_arms_match :
    Tengo.Gen.GobFields.dedupArms = dedupArms ∧ Tengo.Gen.GobFields.updateArms = ["CompiledFunction"] ∧
    Tengo.Gen.GobFields.dedupUpdates = 2 ∧ Tengo.Gen.GobFields.updateOps = ["OpConstant", "OpClosure"] := by decide

/-- Arms of the type switch of `fixDecodedObject`. -/
theorem fix_arms_match : Tengo.Gen.GobFields.fixArms = fixArms := by decide

/-- **gob_fields_cover.** Every field of `Bytecode`, `CompiledFunction`, `SourceFileSet`, `SourceFile` and of
the constant object types that the VM and the error decoration read is exported, not func-typed and not
embedded in the current source, i.e. transmitted by gob. -/
theorem gob_fields_cover : ∀ p ∈ fieldsRead, p ∈ Tengo.Gen.GobFields.gobVisible := by decide

/-- The fields gob does NOT transmit are exactly these four; `Bool.value` is carried by the custom
GobEncode/GobDecode pair (1 ↦ true, 0 ↦ false, decoded by `== 1`), `SourceFile.set` and `String.runeStr` are
not read by the VM's run path, `UserFunction.Value` is restored by relinking builtin modules. -/
theorem gob_dropped_fields :
    (Tengo.Gen.GobFields.structs.flatMap (fun s =>
      (s.2.filter (fun f => f.2 == "unexported" || f.2 == "func")).map (fun f => (s.1, f.1)))) =
      [("SourceFile", "set"), ("Bool", "value"), ("String", "runeStr"), ("UserFunction", "Value")] ∧
    Tengo.Gen.GobFields.customGob = ["Bool"] ∧ Tengo.Gen.GobFields.boolGob = (1, 0, 1) := by decide

/-! ### List and table lemmas -/

theorem getElem?_snoc {α} (l : List α) (a x : α) (i : Nat) :
    (l ++ [a])[i]? = some x ↔ (l[i]? = some x) ∨ (i = l.length ∧ x = a) := by
  by_cases h : i < l.length
  · rw [List.getElem?_append_left h]
    constructor
    · intro h'; exact Or.inl h'
    · rintro (h' | ⟨h', _⟩)
      · exact h'
      · omega
  · have h2 : l.length ≤ i := Nat.le_of_not_lt h
    rw [List.getElem?_append_right h2]
    have hn : l[i]? = none := List.getElem?_eq_none h2
    rw [hn]
    by_cases h3 : i = l.length
    · subst h3; simp [eq_comm]
    · have : i - l.length ≠ 0 := by omega
      cases hk : i - l.length with
      | zero => omega
      | succ k => simp [h3]

theorem Table.get?_some {t : Table} {k : Key} {j : Nat} (h : t.get? k = some j) :
    ∃ k', (k', j) ∈ t ∧ k'.eqv k = true := by
  unfold Table.get? at h
  cases hf : t.find? (fun e => e.1.eqv k) with
  | none => simp [hf] at h
  | some e =>
    simp [hf] at h
    refine ⟨e.1, ?_, ?_⟩
    · have := List.mem_of_find?_eq_some hf
      rw [← h]; exact this
    · have := List.find?_some hf
      simpa using this

theorem Table.get?_none {t : Table} {k : Key} (h : t.get? k = none) :
    ∀ k' j, (k', j) ∈ t → k'.eqv k = false := by
  unfold Table.get? at h
  intro k' j hm
  cases hf : t.find? (fun e => e.1.eqv k) with
  | some e => simp [hf] at h
  | none =>
    have := List.find?_eq_none.mp hf (k', j) hm
    simpa using this

/-- `d` stands for the same constant as `c`: literally the same entry, or an earlier entry of the same table
whose key compares equal (Go map-key equality) while `c` may be merged at all. -/
def Same (c d : Const) : Prop :=
  c = d ∨ (c.reusable = true ∧ ∃ kc kd, c.key = some kc ∧ d.key = some kd ∧ kd.eqv kc = true)

/-- Invariant of the scan loop after the constants `pre` have been processed. -/
structure Inv (pre : List Const) (s : Scan) : Prop where
  len : s.indexMap.length = pre.length
  dlen : s.deduped.length ≤ pre.length
  bound : ∀ j ∈ s.indexMap, j < s.deduped.length
  sub : ∀ d ∈ s.deduped, d ∈ pre
  tsound : ∀ (k : Key) (j : Nat), (k, j) ∈ s.table → ∃ d, s.deduped[j]? = some d ∧ d.key = some k
  tcomplete : ∀ (j : Nat) (d : Const) (k : Key), s.deduped[j]? = some d → d.key = some k → (k, j) ∈ s.table
  nodup : ∀ (i j : Nat) (c d : Const) (kc kd : Key), i < j → s.deduped[i]? = some c → s.deduped[j]? = some d →
    c.key = some kc → d.key = some kd → d.reusable = true → kc.eqv kd = false
  maps : ∀ (i : Nat) (c : Const), pre[i]? = some c → ∃ j d, s.indexMap[i]? = some j ∧ s.deduped[j]? = some d ∧ Same c d

theorem inv_init : Inv [] ⟨[], [], []⟩ := by
  constructor <;> simp

theorem inv_reuse {pre : List Const} {s : Scan} (hI : Inv pre s) (c : Const) (k : Key) (j : Nat)
    (hk : c.key = some k) (hr : c.reusable = true) (hg : s.table.get? k = some j) :
    Inv (pre ++ [c]) (s.reuse j) := by
  obtain ⟨k', hmem, heq⟩ := Table.get?_some hg
  obtain ⟨d, hd, hdk⟩ := hI.tsound k' j hmem
  have hj : j < s.deduped.length := (List.getElem?_eq_some_iff.mp hd).1
  constructor
  · simp [Scan.reuse, hI.len]
  · have := hI.dlen; simp [Scan.reuse]; omega
  · intro x hx
    simp [Scan.reuse] at hx ⊢
    rcases hx with hx | hx
    · exact hI.bound x hx
    · omega
  · intro x hx
    simp [Scan.reuse] at hx
    simp; exact Or.inl (hI.sub x hx)
  · exact hI.tsound
  · exact hI.tcomplete
  · exact hI.nodup
  · intro i x hx
    rcases (getElem?_snoc _ _ _ _).mp hx with h | ⟨h1, h2⟩
    · obtain ⟨j', d', h1, h2, h3⟩ := hI.maps i x h
      refine ⟨j', d', ?_, h2, h3⟩
      simp only [Scan.reuse]
      exact (getElem?_snoc _ _ _ _).mpr (Or.inl h1)
    · subst h2
      refine ⟨j, d, ?_, hd, Or.inr ⟨hr, k, k', hk, hdk, heq⟩⟩
      simp only [Scan.reuse]
      exact (getElem?_snoc _ _ _ _).mpr (Or.inr ⟨by rw [h1, hI.len], rfl⟩)

theorem inv_add {pre : List Const} {s : Scan} (hI : Inv pre s) (c : Const) (ko : Option Key)
    (hk : c.key = ko)
    (hfresh : ∀ k, ko = some k → c.reusable = true → s.table.get? k = none) :
    Inv (pre ++ [c]) (s.add c ko) := by
  constructor
  · simp [Scan.add, hI.len]
  · have := hI.dlen; simp [Scan.add]; omega
  · intro x hx
    simp [Scan.add] at hx ⊢
    rcases hx with hx | hx
    · have := hI.bound x hx; omega
    · omega
  · intro x hx
    simp [Scan.add] at hx
    rcases hx with hx | hx
    · simp; exact Or.inl (hI.sub x hx)
    · simp [hx]
  · intro k j hm
    have old : ∀ k j, (k, j) ∈ s.table → ∃ d, (s.deduped ++ [c])[j]? = some d ∧ d.key = some k := by
      intro k j hm
      obtain ⟨d, h1, h2⟩ := hI.tsound k j hm
      exact ⟨d, (getElem?_snoc _ _ _ _).mpr (Or.inl h1), h2⟩
    cases ko with
    | none => exact old k j (by simpa [Scan.add] using hm)
    | some k0 =>
      simp [Scan.add] at hm
      rcases hm with ⟨h1, h2⟩ | hm
      · subst h1; subst h2
        exact ⟨c, (getElem?_snoc _ _ _ _).mpr (Or.inr ⟨rfl, rfl⟩), hk⟩
      · exact old k j hm
  · intro j d k hd hdk
    simp only [Scan.add] at hd
    rcases (getElem?_snoc _ _ _ _).mp hd with h | ⟨h1, h2⟩
    · have := hI.tcomplete j d k h hdk
      cases ko with
      | none => simpa [Scan.add] using this
      | some k0 => simp [Scan.add]; exact Or.inr this
    · subst h2
      rw [hk] at hdk
      subst hdk
      simp [Scan.add, h1]
  · intro i j x y kx ky hij hx hy hkx hky hry
    simp only [Scan.add] at hx hy
    rcases (getElem?_snoc _ _ _ _).mp hy with h | ⟨h1, h2⟩
    · have hj : j < s.deduped.length := (List.getElem?_eq_some_iff.mp h).1
      rcases (getElem?_snoc _ _ _ _).mp hx with h' | ⟨h1', _⟩
      · exact hI.nodup i j x y kx ky hij h' h hkx hky hry
      · omega
    · subst h2
      rcases (getElem?_snoc _ _ _ _).mp hx with h' | ⟨h1', _⟩
      · have hmem := hI.tcomplete i x kx h' hkx
        have hnone := hfresh ky (by rw [← hk, hky]) hry
        exact Table.get?_none hnone kx i hmem
      · omega
  · intro i x hx
    rcases (getElem?_snoc _ _ _ _).mp hx with h | ⟨h1, h2⟩
    · obtain ⟨j', d', h1, h2, h3⟩ := hI.maps i x h
      refine ⟨j', d', ?_, ?_, h3⟩
      · simp only [Scan.add]; exact (getElem?_snoc _ _ _ _).mpr (Or.inl h1)
      · simp only [Scan.add]; exact (getElem?_snoc _ _ _ _).mpr (Or.inl h2)
    · subst h2
      refine ⟨s.deduped.length, x, ?_, ?_, Or.inl rfl⟩
      · simp only [Scan.add]
        exact (getElem?_snoc _ _ _ _).mpr (Or.inr ⟨by rw [h1, hI.len], rfl⟩)
      · simp only [Scan.add]
        exact (getElem?_snoc _ _ _ _).mpr (Or.inr ⟨rfl, rfl⟩)

theorem inv_step {pre : List Const} {s : Scan} (hI : Inv pre s) (c : Const) :
    Inv (pre ++ [c]) (scanStep s c) := by
  cases hk : c.key with
  | none =>
    have e : scanStep s c = s.add c none := by simp [scanStep, hk]
    rw [e]; exact inv_add hI c none hk (by intro k h; cases h)
  | some k =>
    cases hg : s.table.get? k with
    | none =>
      have e : scanStep s c = s.add c (some k) := by simp [scanStep, hk, hg]
      rw [e]; exact inv_add hI c (some k) hk (by intro k' h _; cases h; exact hg)
    | some j =>
      by_cases hr : c.reusable = true
      · have e : scanStep s c = s.reuse j := by simp [scanStep, hk, hg, hr]
        rw [e]; exact inv_reuse hI c k j hk hr hg
      · have e : scanStep s c = s.add c (some k) := by simp [scanStep, hk, hg, hr]
        rw [e]; exact inv_add hI c (some k) hk (by intro k' _ h; exact absurd h hr)

theorem inv_scanFrom (cs : List Const) : ∀ (pre : List Const) (s : Scan), Inv pre s → Inv (pre ++ cs) (scanFrom s cs) := by
  induction cs with
  | nil => intro pre s h; simpa [scanFrom] using h
  | cons c cs ih =>
    intro pre s h
    have := ih (pre ++ [c]) (scanStep s c) (inv_step h c)
    simpa [scanFrom, List.append_assoc] using this

theorem inv_scan (cs : List Const) : Inv cs (scan cs) := by
  simpa [scan] using inv_scanFrom cs [] _ inv_init

/-! ### updateConstIndexes rewrites exactly the CONST/CLOSURE operands -/

/-- Renaming of the constant operand of an instruction. -/
def renInstr (r : Nat → Nat) (i : Instr) : Instr :=
  if isConstRef i.op then
    { i with args := match i.args with
        | c :: more => r c :: more
        | [] => [] }
  else i

theorem renInstr_pos (r : Nat → Nat) (i : Instr) : (renInstr r i).pos = i.pos := by
  unfold renInstr; split <;> rfl

theorem renInstr_op (r : Nat → Nat) (i : Instr) : (renInstr r i).op = i.op := by
  unfold renInstr; split <;> rfl

theorem readOperands_split : ∀ (ws : List Nat) (bs : Bytes) (args : List Nat) (r : Bytes),
    readOperands ws bs = some (args, r) →
    ∃ p, bs = p ++ r ∧ p.length = ws.sum ∧ ∀ t, readOperands ws (p ++ t) = some (args, t) := by
  intro ws
  induction ws with
  | nil =>
    intro bs args r h
    simp [readOperands] at h
    exact ⟨[], by simp [h.2], by simp, by intro t; simp [readOperands, h.1]⟩
  | cons w ws ih =>
    intro bs args r h
    unfold readOperands at h
    by_cases hl : bs.length < w
    · simp [hl] at h
    · simp only [hl, if_false] at h
      cases hr : readOperands ws (bs.drop w) with
      | none => simp [hr] at h
      | some pr =>
        obtain ⟨vs, r'⟩ := pr
        simp [hr] at h
        obtain ⟨h1, h2⟩ := h
        subst h2
        obtain ⟨p', hp1, hp2, hp3⟩ := ih _ _ _ hr
        have hw : w ≤ bs.length := Nat.le_of_not_lt hl
        have htl : (bs.take w).length = w := by simp [List.length_take]; omega
        refine ⟨bs.take w ++ p', ?_, ?_, ?_⟩
        · rw [List.append_assoc, ← hp1, List.take_append_drop]
        · simp [List.length_append, htl, hp2]
        · intro t
          unfold readOperands
          have hlen : ¬ (bs.take w ++ p' ++ t).length < w := by
            simp [List.length_append, htl]
          have hdrop : (bs.take w ++ p' ++ t).drop w = p' ++ t := by
            rw [List.append_assoc]
            exact List.drop_left' htl
          have htake : (bs.take w ++ p' ++ t).take w = bs.take w := by
            rw [List.append_assoc]
            exact List.take_left' htl
          simp only [hlen, if_false, hdrop, htake, hp3 t, ← h1]

theorem widths_const : widths 0 = some [2] := by decide
theorem widths_closure : widths 35 = some [2, 1] := by decide

theorem read2 {rest rest' : Bytes} {args : List Nat} (h : readOperands [2] rest = some (args, rest')) :
    ∃ x y, rest = x :: y :: rest' ∧ args = [x.toNat * 256 + y.toNat] := by
  match rest, h with
  | x :: y :: tl, h =>
    simp [readOperands, beVal] at h
    exact ⟨x, y, by simp [h.2], by simp [← h.1]⟩
  | [x], h => simp [readOperands] at h
  | [], h => simp [readOperands] at h

theorem read21 {rest rest' : Bytes} {args : List Nat} (h : readOperands [2, 1] rest = some (args, rest')) :
    ∃ x y z, rest = x :: y :: z :: rest' ∧ args = [x.toNat * 256 + y.toNat, z.toNat] := by
  match rest, h with
  | x :: y :: z :: tl, h =>
    simp [readOperands, beVal] at h
    exact ⟨x, y, z, by simp [h.2], by simp [← h.1]⟩
  | [x, y], h => simp [readOperands] at h
  | [x], h => simp [readOperands] at h
  | [], h => simp [readOperands] at h

/-- Every CONST/CLOSURE instruction has an operand below `n`. -/
def RefsOK (n : Nat) (is : List Instr) : Prop :=
  ∀ i ∈ is, isConstRef i.op = true → ∃ cur, i.args.head? = some cur ∧ cur < n

theorem isConstRef_cases {op : Nat} (h : isConstRef op = true) : op = 0 ∨ op = 35 := by
  simp [isConstRef, opConstant, opClosure] at h
  exact h

theorem encodeInstr_const (b : UInt8) (new : Nat) (h : b.toNat = 0) :
    encodeInstr b.toNat [new] = [b, UInt8.ofNat (new / 256 % 256), UInt8.ofNat (new % 256)] := by
  have hb : UInt8.ofNat b.toNat = b := by simp
  simp only [encodeInstr, hb]
  rw [h, widths_const]
  simp [encodeOperands, beBytes]

theorem encodeInstr_closure (b z : UInt8) (new : Nat) (h : b.toNat = 35) :
    encodeInstr b.toNat [new, z.toNat] = [b, UInt8.ofNat (new / 256 % 256), UInt8.ofNat (new % 256), z] := by
  have hb : UInt8.ofNat b.toNat = b := by simp
  simp only [encodeInstr, hb]
  rw [h, widths_closure]
  simp [encodeOperands, beBytes]

theorem beVal2 (new : Nat) (h : new < 65536) :
    (UInt8.ofNat (new / 256 % 256)).toNat * 256 + (UInt8.ofNat (new % 256)).toNat = new := by
  simp
  omega

theorem updFuel_decode (m : List Nat) (dflt : Nat) (hm : ∀ j ∈ m, j < 65536) :
    ∀ (f pos : Nat) (bs : Bytes) (is : List Instr), decodeFuel f pos bs = some is → RefsOK m.length is →
    ∃ bs', updFuel f m bs = .ok bs' ∧ bs'.length = bs.length ∧
      decodeFuel f pos bs' = some (is.map (renInstr (fun c => (m[c]?).getD dflt))) := by
  intro f
  induction f with
  | zero =>
    intro pos bs is h _
    cases bs with
    | nil => simp [decodeFuel] at h; subst h; exact ⟨[], by simp [updFuel], rfl, by simp [decodeFuel]⟩
    | cons b rest => simp [decodeFuel] at h
  | succ f ih =>
    intro pos bs is h hok
    cases bs with
    | nil => simp [decodeFuel] at h; subst h; exact ⟨[], by simp [updFuel], rfl, by simp [decodeFuel]⟩
    | cons b rest =>
      unfold decodeFuel at h
      cases hw : widths b.toNat with
      | none => simp [hw] at h
      | some ws =>
        simp only [hw] at h
        cases hro : readOperands ws rest with
        | none => simp [hro] at h
        | some pr =>
          obtain ⟨args, rest'⟩ := pr
          simp only [hro] at h
          cases htl : decodeFuel f (pos + 1 + ws.sum) rest' with
          | none => simp [htl] at h
          | some tl =>
            simp only [htl] at h
            have his : is = { pos := pos, op := b.toNat, args := args } :: tl := by
              simpa [eq_comm] using h
            subst his
            have hok' : RefsOK m.length tl := fun i hi => hok i (List.mem_cons_of_mem _ hi)
            obtain ⟨t, ht1, ht2, ht3⟩ := ih _ _ _ htl hok'
            obtain ⟨p, hp1, hp2, hp3⟩ := readOperands_split _ _ _ _ hro
            have htake : rest.take ws.sum = p := by
              rw [hp1]; exact List.take_left' hp2
            by_cases hcr : isConstRef b.toNat = true
            · obtain ⟨cur, hcur1, hcur2⟩ := hok _ List.mem_cons_self hcr
              have hnew : m[cur]? = some (m[cur]'hcur2) := List.getElem?_eq_getElem hcur2
              have hlt : m[cur]'hcur2 < 65536 := hm _ (List.getElem_mem hcur2)
              rcases isConstRef_cases hcr with hb | hb
              · rw [hb, widths_const] at hw
                cases hw
                obtain ⟨x, y, hx, ha⟩ := read2 hro
                subst ha
                simp at hcur1
                subst hcur1
                refine ⟨[b, UInt8.ofNat (m[x.toNat * 256 + y.toNat] / 256 % 256), UInt8.ofNat (m[x.toNat * 256 + y.toNat] % 256)] ++ t, ?_, ?_, ?_⟩
                · unfold updFuel
                  simp only [hb, widths_const, hro, updInstr, hnew]
                  rw [← hb, encodeInstr_const b _ hb, ht1]
                  simp [hcr]
                · simp [ht2, hx]
                · have hv : m[x.toNat * 256 + y.toNat] / 256 % 256 * 256 + m[x.toNat * 256 + y.toNat] % 256 = m[x.toNat * 256 + y.toNat] := by omega
                  have hcr' : isConstRef 0 = true := by rw [hb] at hcr; exact hcr
                  unfold decodeFuel
                  simp only [List.cons_append, List.nil_append, hb, widths_const]
                  simp only [readOperands, beVal, List.length_cons]
                  simp [renInstr, hcr', hnew, hv]
                  rw [if_neg (by omega)]
                  simp at ht3
                  simp [ht3]
              · rw [hb, widths_closure] at hw
                cases hw
                obtain ⟨x, y, z, hx, ha⟩ := read21 hro
                subst ha
                simp at hcur1
                subst hcur1
                refine ⟨[b, UInt8.ofNat (m[x.toNat * 256 + y.toNat] / 256 % 256), UInt8.ofNat (m[x.toNat * 256 + y.toNat] % 256), z] ++ t, ?_, ?_, ?_⟩
                · unfold updFuel
                  simp only [hb, widths_closure, hro, updInstr, hnew]
                  rw [← hb, encodeInstr_closure b z _ hb, ht1]
                  simp [hcr]
                · simp [ht2, hx]
                · have hv : m[x.toNat * 256 + y.toNat] / 256 % 256 * 256 + m[x.toNat * 256 + y.toNat] % 256 = m[x.toNat * 256 + y.toNat] := by omega
                  have hcr' : isConstRef 35 = true := by rw [hb] at hcr; exact hcr
                  unfold decodeFuel
                  simp only [List.cons_append, List.nil_append, hb, widths_closure]
                  simp only [readOperands, beVal, List.length_cons]
                  simp [renInstr, hcr', hnew, hv]
                  rw [if_neg (by omega)]
                  simp at ht3
                  simp [ht3]
            · refine ⟨(b :: p) ++ t, ?_, ?_, ?_⟩
              · unfold updFuel
                simp only [hw, hro, updInstr, hcr, htake, ht1]
                simp
              · simp [ht2, hp1, hp2]
              · unfold decodeFuel
                simp only [List.cons_append, hw, hp3 t, ht3]
                simp [renInstr, hcr]

/-! ### Well-formed input and the assembled theorems -/

/-- The operand renaming induced by an index map (`dflt` for indexes outside the map). -/
def rOf (m : List Nat) (dflt : Nat) : Nat → Nat := fun c => (m[c]?).getD dflt

/-- A function body decodes and all its constant references are below `n`. -/
def CodeOK (n : Nat) (bs : Bytes) : Prop := ∃ is, decode bs = some is ∧ RefsOK n is

/-- Well-formed bytecode: at most 65536 constants (the operand is two bytes wide), main and every
function constant decode and only refer to existing constants. -/
structure WF (bc : Bytecode) : Prop where
  small : bc.consts.length ≤ 65536
  main : CodeOK bc.consts.length bc.main
  fns : ∀ f, Const.fn f ∈ bc.consts → CodeOK bc.consts.length f.insts

theorem update_ok (m : List Nat) (dflt : Nat) (hm : ∀ j ∈ m, j < 65536) (bs : Bytes) (is : List Instr)
    (hd : decode bs = some is) (hr : RefsOK m.length is) :
    ∃ bs', updateConstIndexes m bs = .ok bs' ∧ decode bs' = some (is.map (renInstr (rOf m dflt))) := by
  obtain ⟨bs', h1, h2, h3⟩ := updFuel_decode m dflt hm bs.length 0 bs is hd hr
  refine ⟨bs', h1, ?_⟩
  unfold decode
  rw [h2]
  exact h3

theorem refsOK_ren (m : List Nat) (dflt n' : Nat) (is : List Instr) (hr : RefsOK m.length is)
    (hb : ∀ j ∈ m, j < n') : RefsOK n' (is.map (renInstr (rOf m dflt))) := by
  intro i' hi' hc
  obtain ⟨i, hi, rfl⟩ := List.mem_map.mp hi'
  rw [renInstr_op] at hc
  obtain ⟨cur, h1, h2⟩ := hr i hi hc
  cases ha : i.args with
  | nil => simp [ha] at h1
  | cons a more =>
    simp [ha] at h1
    subst h1
    refine ⟨rOf m dflt a, ?_, ?_⟩
    · simp [renInstr, hc, ha]
    · have : m[a]? = some (m[a]'h2) := List.getElem?_eq_getElem h2
      simp only [rOf, this, Option.getD_some]
      exact hb _ (List.getElem_mem h2)

theorem rewriteConst_key {m : List Nat} {c c' : Const} (h : rewriteConst m c = .ok c') :
    c'.key = c.key ∧ c'.reusable = c.reusable := by
  cases c with
  | fn f =>
    simp only [rewriteConst] at h
    cases hu : updateConstIndexes m f.insts with
    | error e => simp [hu] at h
    | ok i => simp [hu] at h; subst h; simp [Const.key, Const.reusable]
  | _ => simp [rewriteConst] at h; subst h; exact ⟨rfl, rfl⟩

theorem rewriteConst_nonfn {m : List Nat} {c c' : Const} (h : rewriteConst m c = .ok c')
    (hn : ∀ f, c ≠ .fn f) : c' = c := by
  cases c with
  | fn f => exact absurd rfl (hn f)
  | _ => simp [rewriteConst] at h; exact h.symm

theorem rewriteAll_ok (m : List Nat) : ∀ (cs : List Const), (∀ c ∈ cs, ∃ c', rewriteConst m c = .ok c') →
    ∃ cs', rewriteAll m cs = .ok cs' := by
  intro cs
  induction cs with
  | nil => intro _; exact ⟨[], rfl⟩
  | cons c cs ih =>
    intro h
    obtain ⟨c', hc⟩ := h c List.mem_cons_self
    obtain ⟨cs', hcs⟩ := ih (fun x hx => h x (List.mem_cons_of_mem _ hx))
    exact ⟨c' :: cs', by simp [rewriteAll, hc, hcs]⟩

theorem rewriteAll_get (m : List Nat) : ∀ (cs cs' : List Const), rewriteAll m cs = .ok cs' →
    cs'.length = cs.length ∧
    (∀ (j : Nat) (c : Const), cs[j]? = some c → ∃ c', cs'[j]? = some c' ∧ rewriteConst m c = .ok c') ∧
    (∀ (j : Nat) (c' : Const), cs'[j]? = some c' → ∃ c, cs[j]? = some c ∧ rewriteConst m c = .ok c') := by
  intro cs
  induction cs with
  | nil => intro cs' h; simp [rewriteAll] at h; subst h; simp
  | cons c cs ih =>
    intro cs' h
    simp only [rewriteAll] at h
    cases hc : rewriteConst m c with
    | error e => simp [hc] at h
    | ok c1 =>
      cases hcs : rewriteAll m cs with
      | error e => simp [hc, hcs] at h
      | ok cs1 =>
        simp [hc, hcs] at h
        subst h
        obtain ⟨h1, h2, h3⟩ := ih cs1 hcs
        refine ⟨by simp [h1], ?_, ?_⟩
        · intro j x hx
          cases j with
          | zero => simp at hx; subst hx; exact ⟨c1, by simp, hc⟩
          | succ j => simp at hx; simpa using h2 j x hx
        · intro j x hx
          cases j with
          | zero => simp at hx; subst hx; exact ⟨c, by simp, hc⟩
          | succ j => simp at hx; simpa using h3 j x hx

theorem dedup_unfold {bc bc' : Bytecode} {m : List Nat} (h : dedup bc = .ok (bc', m)) :
    m = (scan bc.consts).indexMap ∧ updateConstIndexes m bc.main = .ok bc'.main ∧
    rewriteAll m (scan bc.consts).deduped = .ok bc'.consts ∧ bc'.mainSrcMap = bc.mainSrcMap := by
  unfold dedup at h
  simp only [] at h
  cases h1 : updateConstIndexes (scan bc.consts).indexMap bc.main with
  | error e => simp [h1] at h
  | ok main' =>
    cases h2 : rewriteAll (scan bc.consts).indexMap (scan bc.consts).deduped with
    | error e => simp [h1, h2] at h
    | ok cs =>
      simp [h1, h2] at h
      obtain ⟨hb, hm⟩ := h
      subst hm; subst hb
      exact ⟨rfl, h1, h2, rfl⟩

theorem scan_small {bc : Bytecode} (hwf : WF bc) : ∀ j ∈ (scan bc.consts).indexMap, j < 65536 := by
  intro j hj
  have hI := inv_scan bc.consts
  have := hI.bound j hj
  have := hI.dlen
  have := hwf.small
  omega

/-- **dedup_index_map_total.** On well-formed bytecode `RemoveDuplicates` does not panic ("constant index
not found" is unreachable) and the index map is defined on every old index. -/
theorem dedup_index_map_total (bc : Bytecode) (hwf : WF bc) :
    ∃ bc' m, dedup bc = .ok (bc', m) ∧ m.length = bc.consts.length := by
  have hI := inv_scan bc.consts
  have hm := scan_small hwf
  obtain ⟨is, hd, hr⟩ := hwf.main
  rw [← hI.len] at hr
  obtain ⟨main', hmain, _⟩ := update_ok _ 0 hm bc.main is hd hr
  have hall : ∀ c ∈ (scan bc.consts).deduped, ∃ c', rewriteConst (scan bc.consts).indexMap c = .ok c' := by
    intro c hc
    cases c with
    | fn f =>
      obtain ⟨is, hd, hr⟩ := hwf.fns f (hI.sub _ hc)
      rw [← hI.len] at hr
      obtain ⟨i', hi', _⟩ := update_ok _ 0 hm f.insts is hd hr
      exact ⟨.fn { f with insts := i' }, by simp [rewriteConst, hi']⟩
    | _ => exact ⟨_, rfl⟩
  obtain ⟨cs', hcs⟩ := rewriteAll_ok _ _ hall
  refine ⟨{ main := main', mainSrcMap := bc.mainSrcMap, consts := cs' }, (scan bc.consts).indexMap, ?_, hI.len⟩
  simp [dedup, hmain, hcs]

/-- **dedup_refs_valid.** After de-duplication of well-formed bytecode every CONST/CLOSURE operand of main
and of every function constant is below the new pool size (the output is well formed again), and the new
constant at `indexMap[i]` is the rewritten form of an entry `d` that is the same constant as `consts[i]`
(same entry, or same table and equal key). -/
theorem dedup_refs_valid (bc bc' : Bytecode) (m : List Nat) (hwf : WF bc) (hd : dedup bc = .ok (bc', m)) :
    WF bc' ∧
    ∀ (i : Nat) (c : Const), bc.consts[i]? = some c →
      ∃ j d d', m[i]? = some j ∧ bc'.consts[j]? = some d' ∧ rewriteConst m d = .ok d' ∧ Same c d := by
  obtain ⟨hm, hmain, hall, _⟩ := dedup_unfold hd
  have hI := inv_scan bc.consts
  have hsmall := scan_small hwf
  subst hm
  obtain ⟨hlen, hget, hget'⟩ := rewriteAll_get _ _ _ hall
  have hbound : ∀ j ∈ (scan bc.consts).indexMap, j < bc'.consts.length := by
    intro j hj; rw [hlen]; exact hI.bound j hj
  refine ⟨⟨?_, ?_, ?_⟩, ?_⟩
  · have := hI.dlen; have := hwf.small; omega
  · obtain ⟨is, hdec, hr⟩ := hwf.main
    rw [← hI.len] at hr
    obtain ⟨main', hmain', hdec'⟩ := update_ok _ 0 hsmall bc.main is hdec hr
    rw [hmain] at hmain'
    cases hmain'
    exact ⟨_, hdec', refsOK_ren _ 0 _ is hr hbound⟩
  · intro f' hf'
    obtain ⟨j, hj⟩ := List.getElem?_of_mem hf'
    obtain ⟨c, hc, hrw⟩ := hget' j _ hj
    cases c with
    | fn f =>
      have hmem : Const.fn f ∈ bc.consts := hI.sub _ (List.mem_of_getElem? hc)
      obtain ⟨is, hdec, hr⟩ := hwf.fns f hmem
      rw [← hI.len] at hr
      obtain ⟨i', hi', hdec'⟩ := update_ok _ 0 hsmall f.insts is hdec hr
      simp [rewriteConst, hi'] at hrw
      rw [← hrw]
      exact ⟨_, hdec', refsOK_ren _ 0 _ is hr hbound⟩
    | _ => simp [rewriteConst] at hrw
  · intro i c hc
    obtain ⟨j, d, h1, h2, h3⟩ := hI.maps i c hc
    obtain ⟨d', h4, h5⟩ := hget j d h2
    exact ⟨j, d, d', h1, h4, h5, h3⟩

/-! ### No two de-duplicable constants of the output are equal -/

theorem floatEq_symm (a b : Nat) : floatEq a b = floatEq b a := by
  unfold floatEq
  rw [BEq.comm (a := a) (b := b)]
  cases isNaN a <;> cases isNaN b <;> cases isZero a <;> cases isZero b <;> simp

theorem Key.eqv_symm (a b : Key) : a.eqv b = b.eqv a := by
  cases a <;> cases b <;> simp [Key.eqv, floatEq_symm] <;> exact BEq.comm

/-- The key under which a constant can be merged with an earlier one: none for other constant types and
for immutable maps without a module name. -/
def dkey (c : Const) : Option Key := if c.reusable then c.key else none

/-- **dedup_no_dups.** No two de-duplicable constants of the output are equal (as Go map keys: a NaN is
equal to nothing, not even itself). No hypothesis on the input is needed. -/
theorem dedup_no_dups (bc bc' : Bytecode) (m : List Nat) (hd : dedup bc = .ok (bc', m))
    (i j : Nat) (c d : Const) (kc kd : Key) (hij : i ≠ j)
    (hc : bc'.consts[i]? = some c) (hdj : bc'.consts[j]? = some d)
    (hkc : dkey c = some kc) (hkd : dkey d = some kd) : kc.eqv kd = false := by
  obtain ⟨_, _, hall, _⟩ := dedup_unfold hd
  have hI := inv_scan bc.consts
  obtain ⟨_, _, hget'⟩ := rewriteAll_get _ _ _ hall
  obtain ⟨c0, hc0, hrc⟩ := hget' i c hc
  obtain ⟨d0, hd0, hrd⟩ := hget' j d hdj
  obtain ⟨hck, hcr⟩ := rewriteConst_key hrc
  obtain ⟨hdk, hdr⟩ := rewriteConst_key hrd
  have hc1 : c.reusable = true ∧ c.key = some kc := by
    unfold dkey at hkc; by_cases h : c.reusable = true
    · simp [h] at hkc; exact ⟨h, hkc⟩
    · simp [h] at hkc
  have hd1 : d.reusable = true ∧ d.key = some kd := by
    unfold dkey at hkd; by_cases h : d.reusable = true
    · simp [h] at hkd; exact ⟨h, hkd⟩
    · simp [h] at hkd
  rcases Nat.lt_or_gt_of_ne hij with h | h
  · exact hI.nodup i j c0 d0 kc kd h hc0 hd0 (by rw [← hck]; exact hc1.2) (by rw [← hdk]; exact hd1.2)
      (by rw [← hdr]; exact hd1.1)
  · rw [Key.eqv_symm]
    exact hI.nodup j i d0 c0 kd kc h hd0 hc0 (by rw [← hdk]; exact hd1.2) (by rw [← hck]; exact hc1.2)
      (by rw [← hcr]; exact hc1.1)

/-! ### Simulation -/

/-- Function constants with the same pointer are the same object. -/
def PtrConsistent (bc : Bytecode) : Prop :=
  ∀ f g, Const.fn f ∈ bc.consts → Const.fn g ∈ bc.consts → f.ptr = g.ptr → f = g

/-- No float constant is a zero other than +0 (the compiler never emits -0.0: `-0.0` is a negation). -/
def NoNegZeroConst (bc : Bytecode) : Prop :=
  ∀ b, Const.float b ∈ bc.consts → isZero b = true → b = 0

theorem key_eqv_cases {c d : Const} {kc kd : Key} (hkc : c.key = some kc) (hkd : d.key = some kd)
    (he : kd.eqv kc = true) :
    (∃ f g, c = .fn f ∧ d = .fn g ∧ g.ptr = f.ptr) ∨ (∃ a b, c = .float a ∧ d = .float b ∧ floatEq b a = true) ∨
      c = d := by
  cases c <;> cases d <;> simp [Const.key] at hkc hkd <;> subst hkc <;> subst hkd <;> simp [Key.eqv] at he
  case fn.fn f g => exact Or.inl ⟨f, g, rfl, rfl, he⟩
  case float.float a b => exact Or.inr (Or.inl ⟨a, b, rfl, rfl, he⟩)
  all_goals (subst he; exact Or.inr (Or.inr rfl))

theorem same_eq {bc : Bytecode} (hp : PtrConsistent bc) (hz : NoNegZeroConst bc) {c d : Const}
    (hc : c ∈ bc.consts) (hd : d ∈ bc.consts) (h : Same c d) : c = d := by
  rcases h with h | ⟨_, kc, kd, hkc, hkd, he⟩
  · exact h
  · rcases key_eqv_cases hkc hkd he with ⟨f, g, rfl, rfl, h⟩ | ⟨a, b, rfl, rfl, h⟩ | h
    · rw [hp g f hd hc h]
    · unfold floatEq at h
      simp at h
      rcases h.2 with h' | ⟨h1, h2⟩
      · rw [h']
      · rw [hz a hc h2, hz b hd h1]
    · exact h

/-- What the machine sees of a constant: a function as a handle (its pool index) with the frame layout,
any other constant as its value. -/
inductive CView where
  | fn (handle numLocals numParams : Nat) (varargs : Bool)
  | val (c : Const)
  deriving DecidableEq

def view (bc : Bytecode) (k : Nat) : Option CView :=
  match bc.consts[k]? with
  | none => none
  | some (.fn f) => some (.fn k f.numLocals f.numParams f.varargs)
  | some c => some (.val c)

/-- Code and source map behind a handle: `none` is the main function, `some h` the function constant `h`. -/
def codeOf (bc : Bytecode) : Option Nat → Option (Bytes × List (Nat × Nat))
  | none => some (bc.main, bc.mainSrcMap)
  | some h =>
    match bc.consts[h]? with
    | some (.fn f) => some (f.insts, f.srcMap)
    | _ => none

/-- The instruction that starts at `ip` of the function behind `ref`, with that function's source map. -/
def fetch (bc : Bytecode) (ref : Option Nat) (ip : Nat) : Option (Instr × List (Nat × Nat)) :=
  match codeOf bc ref with
  | none => none
  | some (bs, sm) =>
    match decode bs with
    | none => none
    | some is => (is.find? (fun i => i.pos == ip)).map (fun i => (i, sm))

/-- The constant named by a CONST/CLOSURE instruction: the only access path to the pool. -/
def operandView (bc : Bytecode) : Option (Instr × List (Nat × Nat)) → Option CView
  | some (i, _) => if isConstRef i.op then i.args.head?.bind (view bc) else none
  | none => none

/-- An abstract machine over bytecode, parametric in its data semantics (`S`: stack, frames, globals, heap,
…). It learns the program only through the instruction at its program counter and through the constant a
CONST/CLOSURE operand names; function values it holds are pool handles, renamed by `ren`. -/
structure Machine (S O : Type) where
  pc   : S → Option Nat × Nat
  step : S → Option (Instr × List (Nat × Nat)) → Option CView → Option S
  obs  : S → O
  ren  : (Nat → Nat) → S → S

def CView.ren (r : Nat → Nat) : CView → CView
  | .fn h a b c => .fn (r h) a b c
  | v => v

def renCode (r : Nat → Nat) (p : Instr × List (Nat × Nat)) : Instr × List (Nat × Nat) := (renInstr r p.1, p.2)

/-- The machine treats handles opaquely: renaming them commutes with every step and is not observable. -/
structure Machine.Natural {S O : Type} (M : Machine S O) : Prop where
  pc_ren   : ∀ r s, M.pc (M.ren r s) = ((M.pc s).1.map r, (M.pc s).2)
  obs_ren  : ∀ r s, M.obs (M.ren r s) = M.obs s
  step_ren : ∀ r s code v,
    M.step (M.ren r s) (code.map (renCode r)) (v.map (CView.ren r)) = (M.step s code v).map (M.ren r)

def Machine.next {S O : Type} (M : Machine S O) (bc : Bytecode) (s : S) : Option S :=
  M.step s (fetch bc (M.pc s).1 (M.pc s).2) (operandView bc (fetch bc (M.pc s).1 (M.pc s).2))

def Machine.runN {S O : Type} (M : Machine S O) (bc : Bytecode) : Nat → S → Option S
  | 0, s => some s
  | n + 1, s => (M.next bc s).bind (M.runN bc n)

section Sim
variable {bc bc' : Bytecode} {m : List Nat}

theorem consts_ren (hp : PtrConsistent bc) (hz : NoNegZeroConst bc) (hd : dedup bc = .ok (bc', m))
    (i : Nat) :
    (∀ c, bc.consts[i]? = some c →
      ∃ c', bc'.consts[rOf m bc'.consts.length i]? = some c' ∧ rewriteConst m c = .ok c') ∧
    (bc.consts[i]? = none → bc'.consts[rOf m bc'.consts.length i]? = none) := by
  obtain ⟨hm, _, hall, _⟩ := dedup_unfold hd
  have hI := inv_scan bc.consts
  subst hm
  obtain ⟨hlen, hget, _⟩ := rewriteAll_get _ _ _ hall
  constructor
  · intro c hc
    obtain ⟨j, d, h1, h2, h3⟩ := hI.maps i c hc
    have hcd : c = d := same_eq hp hz (List.mem_of_getElem? hc) (hI.sub _ (List.mem_of_getElem? h2)) h3
    subst hcd
    obtain ⟨c', h4, h5⟩ := hget j c h2
    exact ⟨c', by simp [rOf, h1, h4], h5⟩
  · intro hn
    have hlt : bc.consts.length ≤ i := by
      rcases Nat.lt_or_ge i bc.consts.length with h | h
      · rw [List.getElem?_eq_getElem h] at hn; cases hn
      · exact h
    have : (scan bc.consts).indexMap[i]? = none := List.getElem?_eq_none (by rw [hI.len]; exact hlt)
    simp [rOf, this]

theorem view_ren (hp : PtrConsistent bc) (hz : NoNegZeroConst bc) (hd : dedup bc = .ok (bc', m))
    (i : Nat) : view bc' (rOf m bc'.consts.length i) = (view bc i).map (CView.ren (rOf m bc'.consts.length)) := by
  obtain ⟨h1, h2⟩ := consts_ren hp hz hd i
  cases hc : bc.consts[i]? with
  | none => simp [view, hc, h2 hc]
  | some c =>
    obtain ⟨c', hc', hrw⟩ := h1 c hc
    cases c with
    | fn f =>
      simp only [rewriteConst] at hrw
      cases hu : updateConstIndexes m f.insts with
      | error e => simp [hu] at hrw
      | ok i' => simp [hu] at hrw; subst hrw; simp [view, hc, hc', CView.ren]
    | _ => simp [rewriteConst] at hrw; subst hrw; simp [view, hc, hc', CView.ren]

theorem find_pos_ren (r : Nat → Nat) (ip : Nat) (is : List Instr) :
    (is.map (renInstr r)).find? (fun i => i.pos == ip) = (is.find? (fun i => i.pos == ip)).map (renInstr r) := by
  induction is with
  | nil => rfl
  | cons i is ih =>
    simp only [List.map_cons, List.find?_cons, renInstr_pos]
    cases (i.pos == ip) <;> simp [ih]

theorem fetch_ren (hwf : WF bc) (hp : PtrConsistent bc) (hz : NoNegZeroConst bc) (hd : dedup bc = .ok (bc', m))
    (ref : Option Nat) (ip : Nat) :
    fetch bc' (ref.map (rOf m bc'.consts.length)) ip = (fetch bc ref ip).map (renCode (rOf m bc'.consts.length)) := by
  obtain ⟨hm, hmain, _, hsm⟩ := dedup_unfold hd
  have hI := inv_scan bc.consts
  have hsmall := scan_small hwf
  rw [← hm] at hsmall
  have hlenm : m.length = bc.consts.length := by rw [hm]; exact hI.len
  cases ref with
  | none =>
    obtain ⟨is, hdec, hr⟩ := hwf.main
    rw [← hlenm] at hr
    obtain ⟨main', hmain', hdec'⟩ := update_ok m bc'.consts.length hsmall bc.main is hdec hr
    rw [hmain] at hmain'
    cases hmain'
    simp only [fetch, codeOf, Option.map_none, hdec, hdec', hsm, find_pos_ren]
    cases is.find? (fun i => i.pos == ip) <;> simp [renCode]
  | some h =>
    obtain ⟨h1, h2⟩ := consts_ren hp hz hd h
    cases hc : bc.consts[h]? with
    | none => simp [fetch, codeOf, hc, h2 hc]
    | some c =>
      obtain ⟨c', hc', hrw⟩ := h1 c hc
      cases c with
      | fn f =>
        obtain ⟨is, hdec, hr⟩ := hwf.fns f (List.mem_of_getElem? hc)
        rw [← hlenm] at hr
        obtain ⟨i', hi', hdec'⟩ := update_ok m bc'.consts.length hsmall f.insts is hdec hr
        simp [rewriteConst, hi'] at hrw
        subst hrw
        simp only [fetch, codeOf, Option.map_some, hc, hc', hdec, hdec', find_pos_ren]
        cases is.find? (fun i => i.pos == ip) <;> simp [renCode]
      | _ =>
        simp [rewriteConst] at hrw; subst hrw
        simp [fetch, codeOf, hc, hc']

theorem operandView_ren (hp : PtrConsistent bc) (hz : NoNegZeroConst bc)
    (hd : dedup bc = .ok (bc', m)) (code : Option (Instr × List (Nat × Nat))) :
    operandView bc' (code.map (renCode (rOf m bc'.consts.length))) =
      (operandView bc code).map (CView.ren (rOf m bc'.consts.length)) := by
  cases code with
  | none => rfl
  | some p =>
    obtain ⟨i, sm⟩ := p
    simp only [Option.map_some, renCode, operandView, renInstr_op]
    by_cases hc : isConstRef i.op = true
    · simp only [hc, if_true]
      cases ha : i.args with
      | nil => simp [renInstr, hc, ha]
      | cons a more => simp [renInstr, hc, ha, view_ren hp hz hd a]
    · simp [hc]

theorem next_ren {S O : Type} (M : Machine S O) (hM : M.Natural) (hwf : WF bc) (hp : PtrConsistent bc)
    (hz : NoNegZeroConst bc) (hd : dedup bc = .ok (bc', m)) (s : S) :
    M.next bc' (M.ren (rOf m bc'.consts.length) s) = (M.next bc s).map (M.ren (rOf m bc'.consts.length)) := by
  unfold Machine.next
  rw [hM.pc_ren]
  simp only [fetch_ren hwf hp hz hd, operandView_ren hp hz hd]
  exact hM.step_ren _ _ _ _

/-- **dedup_simulates.** For every machine that reads the pool only through `consts[operand]` and treats
function handles opaquely, running the de-duplicated bytecode from the renamed state is step for step the
renamed run of the original: same observations after every number of steps, in particular same results,
same errors and same error positions (the source maps are untouched). -/
theorem dedup_simulates {S O : Type} (M : Machine S O) (hM : M.Natural) (hwf : WF bc) (hp : PtrConsistent bc)
    (hz : NoNegZeroConst bc) (hd : dedup bc = .ok (bc', m)) :
    ∀ (n : Nat) (s : S),
      M.runN bc' n (M.ren (rOf m bc'.consts.length) s) = (M.runN bc n s).map (M.ren (rOf m bc'.consts.length)) := by
  intro n
  induction n with
  | zero => intro s; rfl
  | succ n ih =>
    intro s
    simp only [Machine.runN, next_ren M hM hwf hp hz hd]
    cases M.next bc s with
    | none => rfl
    | some s' => simp [ih]

theorem dedup_same_observations {S O : Type} (M : Machine S O) (hM : M.Natural) (hwf : WF bc)
    (hp : PtrConsistent bc) (hz : NoNegZeroConst bc) (hd : dedup bc = .ok (bc', m)) (n : Nat) (s : S) :
    (M.runN bc' n (M.ren (rOf m bc'.consts.length) s)).map M.obs = (M.runN bc n s).map M.obs := by
  rw [dedup_simulates M hM hwf hp hz hd]
  cases M.runN bc n s <;> simp [hM.obs_ren]
end Sim

/-! ### Abstract gob round trip -/

mutual
  /-- Objects the round trip must give back unchanged: shared singletons, no user function outside a
  builtin module, immutable maps that are not builtin modules of `mods`, no error values (the fix-up has no
  arm for `*Error`). -/
  def plainObj (mods : Modules) : Obj → Bool
    | .undef c => c
    | .bool _ c => c
    | .userFn _ _ => false
    | .err _ => false
    | .arr xs => plainObjs mods xs
    | .iarr xs => plainObjs mods xs
    | .map kv => plainObjs mods kv
    | .imap kv => (mods.lookup (Obj.moduleName (.imap kv))).isNone && plainObjs mods kv
    | _ => true
  def plainObjs (mods : Modules) : Objs → Bool
    | .nil => true
    | .cons _ o tl => plainObj mods o && plainObjs mods tl
end

theorem lookup_wireDeep (q : Bytes) : ∀ kv : Objs, kv.wireDeep.lookup q = (kv.lookup q).map Obj.wireDeep
  | .nil => by simp [Objs.wireDeep, Objs.lookup]
  | .cons k o tl => by
    simp only [Objs.wireDeep, Objs.lookup]
    by_cases h : k == q
    · simp [h]
    · simp [h, lookup_wireDeep q tl]

theorem moduleName_wireDeep (kv : Objs) : Obj.moduleName (.imap kv.wireDeep) = Obj.moduleName (.imap kv) := by
  simp only [Obj.moduleName, lookup_wireDeep]
  cases kv.lookup moduleNameKey with
  | none => rfl
  | some o =>
    cases o <;> simp [Obj.wireDeep, wire]

theorem plain_no_userFn (mods : Modules) : ∀ kv : Objs, plainObjs mods kv = true → kv.wireDeep.hasUserFn = false
  | .nil, _ => by simp [Objs.wireDeep, Objs.hasUserFn]
  | .cons k o tl, h => by
    simp only [plainObjs, Bool.and_eq_true] at h
    have ih := plain_no_userFn mods tl h.2
    cases o <;> simp_all [Objs.wireDeep, Obj.wireDeep, wire, Objs.hasUserFn, plainObj]

mutual
  theorem roundtrip_plain (mods : Modules) : ∀ o : Obj, plainObj mods o = true → roundtrip mods o = some o
    | .undef c, h => by simp [plainObj] at h; simp [roundtrip, Obj.wireDeep, wire, Obj.fix, h]
    | .bool v c, h => by simp [plainObj] at h; simp [roundtrip, Obj.wireDeep, wire, Obj.fix, h]
    | .userFn _ _, h => by simp [plainObj] at h
    | .err _, h => by simp [plainObj] at h
    | .scalar c, _ => by simp [roundtrip, Obj.wireDeep, wire, Obj.fix]
    | .bytes b, _ => by simp [roundtrip, Obj.wireDeep, wire, Obj.fix]
    | .func .., _ => by simp [roundtrip, Obj.wireDeep, wire, Obj.fix]
    | .arr xs, h => by
      simp only [plainObj] at h
      simp [roundtrip, Obj.wireDeep, Obj.fix, roundtrips_plain mods xs h]
    | .iarr xs, h => by
      simp only [plainObj] at h
      simp [roundtrip, Obj.wireDeep, Obj.fix, roundtrips_plain mods xs h]
    | .map xs, h => by
      simp only [plainObj] at h
      simp [roundtrip, Obj.wireDeep, Obj.fix, roundtrips_plain mods xs h]
    | .imap kv, h => by
      simp only [plainObj, Bool.and_eq_true, Option.isNone_iff_eq_none] at h
      simp [roundtrip, Obj.wireDeep, Obj.fix, moduleName_wireDeep, h.1, plain_no_userFn mods kv h.2,
        roundtrips_plain mods kv h.2]
  theorem roundtrips_plain (mods : Modules) : ∀ kv : Objs, plainObjs mods kv = true → kv.wireDeep.fix mods = some kv
    | .nil, _ => by simp [Objs.wireDeep, Objs.fix]
    | .cons k o tl, h => by
      simp only [plainObjs, Bool.and_eq_true] at h
      have h1 := roundtrip_plain mods o h.1
      have h2 := roundtrips_plain mods tl h.2
      simp only [roundtrip] at h1
      simp [Objs.wireDeep, Objs.fix, h1, h2]
end

/-- A builtin module constant is relinked to the module of the same name in the module map handed to
`Decode`, whatever gob did to its attributes (its user functions lost their Go funcs). -/
theorem roundtrip_module (mods : Modules) (kv attrs : Objs) (h : mods.lookup (Obj.moduleName (.imap kv)) = some attrs) :
    roundtrip mods (.imap kv) =
      some (.imap (.cons moduleNameKey (.scalar (.str (Obj.moduleName (.imap kv)))) attrs)) := by
  simp [roundtrip, Obj.wireDeep, Obj.fix, moduleName_wireDeep, h]

/-! ### Idempotence -/

/-- No later mergeable entry has a key equal to an earlier entry of its table. -/
def NoDupList (ds : List Const) : Prop :=
  ∀ (i j : Nat) (c d : Const) (kc kd : Key), i < j → ds[i]? = some c → ds[j]? = some d →
    c.key = some kc → d.key = some kd → d.reusable = true → kc.eqv kd = false

theorem scanStep_fresh {pre : List Const} {s : Scan} (hI : Inv pre s) (hs : s.deduped = pre) (c : Const)
    (cs : List Const) (hn : NoDupList (pre ++ c :: cs)) : scanStep s c = s.add c c.key := by
  cases hk : c.key with
  | none => simp [scanStep, hk]
  | some k =>
    cases hg : s.table.get? k with
    | none => simp [scanStep, hk, hg]
    | some j =>
      by_cases hr : c.reusable = true
      · exfalso
        obtain ⟨k', hmem, heq⟩ := Table.get?_some hg
        obtain ⟨d, hd, hdk⟩ := hI.tsound k' j hmem
        rw [hs] at hd
        have hj : j < pre.length := (List.getElem?_eq_some_iff.mp hd).1
        have h1 : (pre ++ c :: cs)[j]? = some d := by rw [List.getElem?_append_left hj]; exact hd
        have h2 : (pre ++ c :: cs)[pre.length]? = some c := by
          rw [List.getElem?_append_right (Nat.le_refl _)]; simp
        have := hn j pre.length d c k' k hj h1 h2 hdk hk hr
        rw [this] at heq
        cases heq
      · simp [scanStep, hk, hg, hr]

theorem scanFrom_fixed (cs : List Const) : ∀ (pre : List Const) (s : Scan), Inv pre s → s.deduped = pre →
    s.indexMap = List.range pre.length → NoDupList (pre ++ cs) →
    (scanFrom s cs).deduped = pre ++ cs ∧ (scanFrom s cs).indexMap = List.range (pre ++ cs).length := by
  induction cs with
  | nil => intro pre s _ h1 h2 _; simp [scanFrom, h1, h2]
  | cons c cs ih =>
    intro pre s hI h1 h2 hn
    have hstep := scanStep_fresh hI h1 c cs hn
    have hI' := inv_step hI c
    rw [hstep] at hI'
    have := ih (pre ++ [c]) (s.add c c.key) hI' (by simp [Scan.add, h1])
      (by simp [Scan.add, h1, h2, List.range_succ]) (by simpa [List.append_assoc] using hn)
    simpa [scanFrom, hstep, List.append_assoc] using this

theorem scan_fixed (ds : List Const) (hn : NoDupList ds) :
    (scan ds).deduped = ds ∧ (scan ds).indexMap = List.range ds.length := by
  simpa [scan] using scanFrom_fixed ds [] _ inv_init rfl rfl (by simpa using hn)

theorem encodeInstr_const_id (b x y : UInt8) (h : b.toNat = 0) :
    encodeInstr b.toNat [x.toNat * 256 + y.toNat] = [b, x, y] := by
  rw [encodeInstr_const b _ h]
  have hx := x.toNat_lt
  have hy := y.toNat_lt
  have h1 : (x.toNat * 256 + y.toNat) / 256 % 256 = x.toNat := by omega
  have h2 : (x.toNat * 256 + y.toNat) % 256 = y.toNat := by omega
  rw [h1, h2]
  simp

theorem encodeInstr_closure_id (b x y z : UInt8) (h : b.toNat = 35) :
    encodeInstr b.toNat [x.toNat * 256 + y.toNat, z.toNat] = [b, x, y, z] := by
  rw [encodeInstr_closure b z _ h]
  have hx := x.toNat_lt
  have hy := y.toNat_lt
  have h1 : (x.toNat * 256 + y.toNat) / 256 % 256 = x.toNat := by omega
  have h2 : (x.toNat * 256 + y.toNat) % 256 = y.toNat := by omega
  rw [h1, h2]
  simp

theorem updFuel_id (n : Nat) : ∀ (f pos : Nat) (bs : Bytes) (is : List Instr), decodeFuel f pos bs = some is →
    RefsOK n is → updFuel f (List.range n) bs = .ok bs := by
  intro f
  induction f with
  | zero =>
    intro pos bs is h _
    cases bs with
    | nil => simp [updFuel]
    | cons b rest => simp [decodeFuel] at h
  | succ f ih =>
    intro pos bs is h hok
    cases bs with
    | nil => simp [updFuel]
    | cons b rest =>
      unfold decodeFuel at h
      cases hw : widths b.toNat with
      | none => simp [hw] at h
      | some ws =>
        simp only [hw] at h
        cases hro : readOperands ws rest with
        | none => simp [hro] at h
        | some pr =>
          obtain ⟨args, rest'⟩ := pr
          simp only [hro] at h
          cases htl : decodeFuel f (pos + 1 + ws.sum) rest' with
          | none => simp [htl] at h
          | some tl =>
            simp only [htl] at h
            have his : is = { pos := pos, op := b.toNat, args := args } :: tl := by
              simpa [eq_comm] using h
            subst his
            have ht := ih _ _ _ htl (fun i hi => hok i (List.mem_cons_of_mem _ hi))
            obtain ⟨p, hp1, hp2, _⟩ := readOperands_split _ _ _ _ hro
            have htake : rest.take ws.sum = p := by
              rw [hp1]; exact List.take_left' hp2
            by_cases hcr : isConstRef b.toNat = true
            · obtain ⟨cur, hcur1, hcur2⟩ := hok _ List.mem_cons_self hcr
              have hnew : (List.range n)[cur]? = some cur := by simp [hcur2]
              rcases isConstRef_cases hcr with hb | hb
              · rw [hb, widths_const] at hw
                cases hw
                obtain ⟨x, y, hx, ha⟩ := read2 hro
                subst ha
                simp at hcur1
                subst hcur1
                unfold updFuel
                simp only [hb, widths_const, hro, updInstr, hnew, ht]
                rw [← hb, encodeInstr_const_id b x y hb]
                simp [hcr, hx]
              · rw [hb, widths_closure] at hw
                cases hw
                obtain ⟨x, y, z, hx, ha⟩ := read21 hro
                subst ha
                simp at hcur1
                subst hcur1
                unfold updFuel
                simp only [hb, widths_closure, hro, updInstr, hnew, ht]
                rw [← hb, encodeInstr_closure_id b x y z hb]
                simp [hcr, hx]
            · unfold updFuel
              simp only [hw, hro, updInstr, hcr, htake, ht]
              simp [hp1]

theorem update_id (n : Nat) (bs : Bytes) (h : CodeOK n bs) : updateConstIndexes (List.range n) bs = .ok bs := by
  obtain ⟨is, hd, hr⟩ := h
  exact updFuel_id n bs.length 0 bs is hd hr

theorem rewriteAll_id (n : Nat) : ∀ (cs : List Const), (∀ f, Const.fn f ∈ cs → CodeOK n f.insts) →
    rewriteAll (List.range n) cs = .ok cs := by
  intro cs
  induction cs with
  | nil => intro _; rfl
  | cons c cs ih =>
    intro h
    have h1 := ih (fun f hf => h f (List.mem_cons_of_mem _ hf))
    cases c with
    | fn f => simp [rewriteAll, rewriteConst, update_id n f.insts (h f List.mem_cons_self), h1]
    | _ => simp [rewriteAll, rewriteConst, h1]

/-- **dedup_idempotent.** De-duplicating the output again changes nothing: same bytes, same pool, identity
index map. -/
theorem dedup_idempotent (bc bc' : Bytecode) (m : List Nat) (hwf : WF bc) (hd : dedup bc = .ok (bc', m)) :
    dedup bc' = .ok (bc', List.range bc'.consts.length) := by
  obtain ⟨hwf', _⟩ := dedup_refs_valid bc bc' m hwf hd
  have hn : NoDupList bc'.consts := by
    obtain ⟨_, _, hall, _⟩ := dedup_unfold hd
    have hI := inv_scan bc.consts
    obtain ⟨_, _, hget'⟩ := rewriteAll_get _ _ _ hall
    intro i j c d kc kd hij hc hdj hkc hkd hr
    obtain ⟨c0, hc0, hrc⟩ := hget' i c hc
    obtain ⟨d0, hd0, hrd⟩ := hget' j d hdj
    obtain ⟨hck, _⟩ := rewriteConst_key hrc
    obtain ⟨hdk, hdr⟩ := rewriteConst_key hrd
    exact hI.nodup i j c0 d0 kc kd hij hc0 hd0 (by rw [← hck]; exact hkc) (by rw [← hdk]; exact hkd)
      (by rw [← hdr]; exact hr)
  obtain ⟨h1, h2⟩ := scan_fixed bc'.consts hn
  have h3 := update_id _ _ hwf'.main
  have h4 := rewriteAll_id _ _ hwf'.fns
  simp [dedup, h1, h2, h3, h4]

/-! ### Non-vacuity: a concrete pool meets every hypothesis and exercises every arm -/

/-- Boolean form of `RefsOK`, for closed examples. -/
def refsOKb (n : Nat) (is : List Instr) : Bool :=
  is.all (fun i => !isConstRef i.op || (match i.args.head? with
    | some c => decide (c < n)
    | none => false))

theorem refsOKb_sound {n : Nat} {is : List Instr} (h : refsOKb n is = true) : RefsOK n is := by
  intro i hi hc
  have := List.all_eq_true.mp h i hi
  simp only [hc, Bool.not_true, Bool.false_or] at this
  cases hh : i.args.head? with
  | none => simp [hh] at this
  | some c => simp [hh] at this; exact ⟨c, rfl, this⟩

/-- `CONST 1; RET 1` -/
def exBody : Bytes := [0, 0, 1, 21, 1]
def exF : Fn := { ptr := 7, insts := exBody, numLocals := 0, numParams := 0, varargs := false, srcMap := [(0, 5)] }
def exNaN : Nat := 0x7ff8000000000001

/-- ints 1,1; the same function pointer twice (a source module imported twice); NaN twice; +0 twice;
an unnamed immutable map twice; module "m" twice; two other constants; a string and a char that share
their bytes with nothing. main: `CONST 1; CONST 3; CLOSURE 3 0; CONST 5; CONST 7; CONST 9; CONST 11; CONST 13` -/
def exBc : Bytecode :=
  { main := [0, 0, 1, 0, 0, 3, 35, 0, 3, 0, 0, 0, 5, 0, 0, 7, 0, 0, 9, 0, 0, 11, 0, 0, 13]
    mainSrcMap := [(0, 1)]
    consts := [.int 1, .int 1, .fn exF, .fn exF, .float exNaN, .float exNaN, .float 0, .float 0,
      .imap [], .imap [], .imap [109], .imap [109], .other, .other, .str [97], .char 97] }

def exOut : Bytecode :=
  { main := [0, 0, 0, 0, 0, 1, 35, 0, 1, 0, 0, 0, 3, 0, 0, 4, 0, 0, 6, 0, 0, 7, 0, 0, 9]
    mainSrcMap := [(0, 1)]
    consts := [.int 1, .fn { exF with insts := [0, 0, 0, 21, 1] }, .float exNaN, .float exNaN, .float 0,
      .imap [], .imap [], .imap [109], .other, .other, .str [97], .char 97] }

theorem exBc_dedup : dedup exBc = .ok (exOut, [0, 0, 1, 1, 2, 3, 4, 4, 5, 6, 7, 7, 8, 9, 10, 11]) := by rfl

example : WF exBc :=
  ⟨by decide, ⟨_, rfl, refsOKb_sound (by decide)⟩, by
    intro f hf
    have : f = exF := by
      simp [exBc] at hf
      exact hf
    subst this
    exact ⟨_, rfl, refsOKb_sound (by decide)⟩⟩

example : PtrConsistent exBc := by
  intro f g hf hg _
  simp [exBc] at hf hg
  rw [hf, hg]

example : NoNegZeroConst exBc := by
  intro b hb hz
  simp [exBc] at hb
  rcases hb with rfl | rfl
  · simp [exNaN, isZero] at hz
  · rfl

/-- +0 and -0 collide as Go map keys: without `NoNegZeroConst` the reference to -0 is redirected to +0. -/
example : (scan [.float 0, .float (2 ^ 63)]).indexMap = [0, 0] := by decide

/-- ints and chars (and strings) live in different tables. -/
example : (scan [.int 97, .char 97, .str [57, 55]]).indexMap = [0, 1, 2] := by decide

/-- A machine that meets `Machine.Natural` and uses everything it is given: it logs the constants it
loads, enters a function when a CONST/CLOSURE names one, and stops at RET. -/
structure DemoState where
  ref : Option Nat
  ip  : Nat
  log : List CView

def demo : Machine DemoState (Nat × List (Option Const)) where
  pc s := (s.ref, s.ip)
  step s code v :=
    match code with
    | none => none
    | some (i, _) =>
      match v with
      | some (.fn h a b c) => some { ref := some h, ip := 0, log := .fn h a b c :: s.log }
      | some (.val c) => some { s with ip := s.ip + i.size, log := .val c :: s.log }
      | none => if i.op == opReturn then none else some { s with ip := s.ip + i.size }
  obs s := (s.ip, s.log.map (fun v => match v with
    | .val c => some c
    | .fn .. => none))
  ren r s := { ref := s.ref.map r, ip := s.ip, log := s.log.map (CView.ren r) }

example : demo.Natural where
  pc_ren _ _ := rfl
  obs_ren r s := by
    simp only [demo, List.map_map]
    congr 1
    apply List.map_congr_left
    intro v _
    cases v <;> rfl
  step_ren r s code v := by
    cases code with
    | none => rfl
    | some p =>
      obtain ⟨i, sm⟩ := p
      have hsz : (renInstr r i).size = i.size := by simp [Instr.size, renInstr_op]
      cases v with
      | none => simp [demo, renCode, renInstr_op, hsz]; split <;> rfl
      | some v => cases v <;> simp [demo, renCode, CView.ren, hsz]

/-- Both runs of the example make the same observations, and they are not trivial ones. -/
example : (demo.runN exBc 3 ⟨none, 0, []⟩).map demo.obs = some (3, [some (.int 1), none, some (.int 1)]) ∧
    (demo.runN exOut 3 ⟨none, 0, []⟩).map demo.obs = some (3, [some (.int 1), none, some (.int 1)]) := by
  decide

/-- Non-vacuity of the gob model: a pool entry with nested singletons survives; a builtin module is
relinked; the fix-up does not look inside `*Error` (outside the property: the compiler never emits one). -/
example : plainObj [] (.arr (.cons [] (.bool true true) (.cons [] (.undef true) .nil))) = true := by decide
example : roundtrip [] (.err (.bool true true)) = some (.err (.bool true false)) := by
  simp [roundtrip, Obj.wireDeep, wire, Obj.fix]

end Tengo.Props.C12

import Tengo.Props.C17
import Tengo.Model.FormatSpecHex
import Tengo.Proofs.C17Hex
import Tengo.Proofs.C17HexMulti
/-!
# C17 — `M = G` for `%x` / `%X` on strings and byte slices

`G` = `Tengo.Model.FormatSpecHex.renderHex` (two hex digits per byte, lower/upper case, the precision truncates the
INPUT to `p` bytes, `#` puts `0x`/`0X` in front once — or in front of every byte with the space flag —, the space flag
separates the bytes by a blank, then the field rule: width, `-`, `0` pads with zeros on the left).
`M` = `fmtSbx` of `Model/Format.lean` (formatter.go's `fmtSbx` with the `MaxStringLen` guard of O11).

* `M_eq_G_hex`: on the parsed directive, for every flag combination, width, precision and operand.
* `hex_ok` / `hex_limit_iff`: the text if it fits, the string-limit error exactly when it does not.
* `format_eq_G_single_hex`: end to end (`Format` on the printed directive and one operand).

* `format_eq_G_multi_hex` (+ `format_multi_hex_ok`, `format_multi_hex_limit_iff`): whole format strings. The item type of
  `format_eq_G_multi` is fixed (`FormatSpecMulti.DirOk` admits only `%s` for string/bytes operands), so the hex directives
  enter through a NEW item type `FormatSpecHex.HItem` = an item of `FormatSpecMulti` | a canonical hex directive with its
  string / byte-slice operand; the loop invariant is re-proved over it from the unchanged per-item lemmas of `Proofs/C17Multi`
  plus `loop_hex` (every operand supplied; the missing/surplus variants of `C17Multi` are not repeated for `HItem`).
-/
namespace Tengo.Props.C17Hex
open Tengo.Model.Format Tengo.Model.FormatSpec Tengo.Model.FormatSpecMulti Tengo.Model.FormatSpecHex
  Tengo.Proofs.FormatParse Tengo.Props.C17 Tengo.Proofs.C17Hex Tengo.Proofs.C17HexMulti

/-- **`%x` / `%X` on strings and bytes**, with `#`, ` `, `-`, `0`, width and precision (= number of input bytes): `M = G`.
For every directive `d` with verb `x`/`X` (every flag combination, width, precision), every operand `s` (as a string and
as a byte slice), every oracle, limit and buffer within the limit: the model's `printArg` is ONE guarded write of `renderHex d s`. -/
theorem M_eq_G_hex (O : Oracle) (L : Nat) (d : GDir) (buf s : Bytes) (hv : d.verb = 120 ∨ d.verb = 88) (h : buf.length ≤ L) :
    printArg O L (flOf d) buf (.str s) d.verb = write L buf (renderHex d s) ∧
    printArg O L (flOf d) buf (.bytes s) d.verb = write L buf (renderHex d s) :=
  printArg_hex O L d buf s hv h

/-- The text fits: exactly `G`'s text is appended. -/
theorem hex_ok (O : Oracle) (L : Nat) (d : GDir) (buf s : Bytes) (hv : d.verb = 120 ∨ d.verb = 88)
    (hfit : buf.length + (renderHex d s).length ≤ L) :
    printArg O L (flOf d) buf (.str s) d.verb = .ok (buf ++ renderHex d s) ∧
    printArg O L (flOf d) buf (.bytes s) d.verb = .ok (buf ++ renderHex d s) := by
  have hw : write L buf (renderHex d s) = .ok (buf ++ renderHex d s) := by
    unfold write
    rw [if_neg (by omega)]
  have := M_eq_G_hex O L d buf s hv (by omega)
  rw [hw] at this
  exact this

/-- The string-limit error exactly when the text does not fit (and no other error ever). -/
theorem hex_limit_iff (O : Oracle) (L : Nat) (d : GDir) (buf s : Bytes) (hv : d.verb = 120 ∨ d.verb = 88)
    (h : buf.length ≤ L) (a : Arg) (ha : a = .str s ∨ a = .bytes s) :
    (printArg O L (flOf d) buf a d.verb = .error .limit ↔ buf.length + (renderHex d s).length > L) ∧
    (∀ e, printArg O L (flOf d) buf a d.verb = .error e → e = .limit) := by
  have hM : printArg O L (flOf d) buf a d.verb = write L buf (renderHex d s) := by
    rcases ha with ha | ha <;> subst ha
    · exact (M_eq_G_hex O L d buf s hv h).1
    · exact (M_eq_G_hex O L d buf s hv h).2
  rw [hM]
  unfold write
  by_cases hgt : buf.length + (renderHex d s).length > L
  · rw [if_pos hgt]
    exact ⟨⟨fun _ => hgt, fun _ => rfl⟩, fun e he => by cases he; rfl⟩
  · rw [if_neg hgt]
    exact ⟨⟨fun hc => (by cases hc), fun hc => absurd hc hgt⟩, fun e he => (by cases he)⟩

/-- **`M = G` end to end on single-directive hex formats.** `format("%<flags><width><.prec>x", s)` — the whole of
`Format`: directive parser, operand selection, verb dispatch, `fmtSbx`, limit, surplus check — is `G`'s text (or the
string-limit error if that text does not fit), for `%x` and `%X` on every string and byte slice. Canonical directive
(flags in the order `+-# 0`, width 1..10^6, precision ≤ 10^6), any oracle. -/
theorem format_eq_G_single_hex (O : Oracle) (L : Nat) (d : GDir) (vb : UInt8) (hvb : vb.toNat = d.verb)
    (hv : d.verb = 120 ∨ d.verb = 88)
    (hw : ∀ w, d.width = some w → 1 ≤ w ∧ w ≤ 1000000) (hp : ∀ p, d.prec = some p → p ≤ 1000000) (s : Bytes) :
    format O L (37 :: dirText d vb []) [.str s] = write L [] (renderHex d s) ∧
    format O L (37 :: dirText d vb []) [.bytes s] = write L [] (renderHex d s) := by
  have hpv := plainVerb_of vb d.verb hvb (by omega)
  exact ⟨format_single_directive O L d vb (.str s) _ [parseInt s] rfl hvb hpv (by omega) (by omega) hw hp
      (M_eq_G_hex O L d [] s hv (by simp)).1,
    format_single_directive O L d vb (.bytes s) _ [none] rfl hvb hpv (by omega) (by omega) hw hp
      (M_eq_G_hex O L d [] s hv (by simp)).2⟩

/-- **`M = G` for whole format strings with hex directives.** For every oracle, limit and list of items with
`HItemsOk items` — literal text without `%`, `%%`, canonical directives of the families of `format_eq_G_multi` with their
operands, and canonical `%x` / `%X` directives (any flags, width 1..10^6, precision ≤ 10^6) on strings and byte slices, any
number, any order — `Format` on the printed format string and the operands is ONE guarded write of the concatenation of the
literal bytes, `%` per `%%`, and `G`'s rendering of every directive (`renderHex` for the hex ones). -/
theorem format_eq_G_multi_hex (O : Oracle) (L : Nat) (items : List HItem) (hok : HItemsOk items) :
    format O L (showHItems items) (operandsH items) = write L [] (renderAllH items) :=
  format_hitems O L items hok

/-- The text fits: `Format` returns exactly `G`'s text. -/
theorem format_multi_hex_ok (O : Oracle) (L : Nat) (items : List HItem) (hok : HItemsOk items)
    (hfit : (renderAllH items).length ≤ L) :
    format O L (showHItems items) (operandsH items) = .ok (renderAllH items) := by
  rw [format_eq_G_multi_hex O L items hok]
  unfold write
  have : ¬ (([] : Bytes).length + (renderAllH items).length > L) := by simp; omega
  rw [if_neg this, List.nil_append]

/-- The string-limit error exactly when `G`'s text does not fit. -/
theorem format_multi_hex_limit_iff (O : Oracle) (L : Nat) (items : List HItem) (hok : HItemsOk items) :
    format O L (showHItems items) (operandsH items) = .error .limit ↔ (renderAllH items).length > L := by
  rw [format_eq_G_multi_hex O L items hok]
  unfold write
  by_cases h : ([] : Bytes).length + (renderAllH items).length > L
  · rw [if_pos h]; simp at h; exact ⟨fun _ => h, fun _ => rfl⟩
  · rw [if_neg h]; simp at h; exact ⟨fun hc => (by cases hc), fun hc => (by omega)⟩

/-- Non-vacuity of `format_eq_G_multi_hex`: `"id=%# x;%d%%%-5.1X|"` on (bytes 01 ff, 7, "hi") is well-formed;
its text is `id=0x01 0xff;7%68   |`. -/
def sampleH : List HItem :=
  [.base (.lit [105, 100, 61]), .hex { sharp := true, space := true, verb := 120 } true [1, 255], .base (.lit [59]),
   .base (.dir { verb := 100 } (.int 7)), .base .pct,
   .hex { minus := true, width := some 5, prec := some 1, verb := 88 } false [104, 105], .base (.lit [124])]

example : HItemsOk sampleH := by
  intro it hit
  simp only [sampleH, List.mem_cons, List.not_mem_nil, or_false] at hit
  rcases hit with h | h | h | h | h | h | h <;> subst h
  · simp [HItemOk, ItemOk]
  · exact ⟨(by intro w h; cases h), (by intro p h; cases h), Or.inl rfl⟩
  · simp [HItemOk, ItemOk]
  · exact ⟨(by intro w h; cases h), (by intro p h; cases h), Or.inl (by decide)⟩
  · trivial
  · refine ⟨?_, ?_, Or.inr rfl⟩
    · intro w h; cases h; omega
    · intro p h; cases h; omega
  · simp [HItemOk, ItemOk]

example : showHItems sampleH =
    [105, 100, 61, 37, 35, 32, 120, 59, 37, 100, 37, 37, 37, 45, 53, 46, 49, 88, 124] := by
  simp [sampleH, showHItems, showHItem, showItem, showDir, decimal, digitsText, digitsRev, digitChar, encodeRune]

example : renderAllH sampleH =
    [105, 100, 61, 48, 120, 48, 49, 32, 48, 120, 102, 102, 59, 55, 37, 54, 56, 32, 32, 32, 124] := by
  simp [sampleH, renderAllH, renderHItem, renderItem, renderDir, renderHex, hexBody, hexPair, hexMark, joinBlank, field, runes,
    runeCount, decodeRune, digitChar, renderInt, renderInt.finish, baseOf, digitsText, digitsRev, List.replicate]

/-! ### Non-vacuity and the documented examples -/

/-- `%x` of "hi" = `6869`; `% X` of bytes 01 ff = `01 FF`; `%#x` = one `0x`; `% #x` = `0x` before every byte. -/
example : renderHex { verb := 120 } [104, 105] = [54, 56, 54, 57] := by
  simp [renderHex, hexBody, field, hexPair, digitChar]
example : renderHex { space := true, verb := 88 } [1, 255] = [48, 49, 32, 70, 70] := by
  simp [renderHex, hexBody, field, hexPair, digitChar, joinBlank]
example : renderHex { sharp := true, verb := 120 } [1, 255] = [48, 120, 48, 49, 102, 102] := by
  simp [renderHex, hexBody, field, hexPair, hexMark, digitChar]
example : renderHex { sharp := true, space := true, verb := 120 } [1, 255] = [48, 120, 48, 49, 32, 48, 120, 102, 102] := by
  simp [renderHex, hexBody, field, hexPair, hexMark, digitChar, joinBlank]
/-- The precision counts input BYTES: `%.1x` of "é" (c3 a9) = `c3`. -/
example : renderHex { prec := some 1, verb := 120 } [195, 169] = [99, 51] := by
  simp [renderHex, hexBody, field, hexPair, digitChar]
/-- `%06x` of "a" pads with zeros, `%-4x` with blanks on the right, `%3x` of "" is three blanks. -/
example : renderHex { zero := true, width := some 6, verb := 120 } [97] = [48, 48, 48, 48, 54, 49] := by
  simp [renderHex, hexBody, field, hexPair, digitChar, runes, runeCount, decodeRune, List.replicate]
example : renderHex { minus := true, zero := true, width := some 4, verb := 120 } [97] = [54, 49, 32, 32] := by
  simp [renderHex, hexBody, field, hexPair, digitChar, runes, runeCount, decodeRune, List.replicate]
example : renderHex { width := some 3, verb := 120 } [] = [32, 32, 32] := by
  simp [renderHex, hexBody, field, runes, runeCount, List.replicate]

/-- Non-vacuity of `M_eq_G_hex` / `hex_limit_iff`: `% #-12.2X` after a 3-byte buffer under the limit 15 fits
exactly (3 + 12), under 14 it is the limit error. -/
example : printArg ⟨fun _ _ _ => none, fun _ => none, fun _ => none, fun _ => none, fun _ => none, fun _ => none,
      fun _ => none, fun _ => none, fun _ => none⟩ 15
    (flOf { minus := true, sharp := true, space := true, width := some 12, prec := some 2, verb := 88 }) [1, 2, 3]
    (.str [104, 105, 33]) 88 = .ok [1, 2, 3, 48, 88, 54, 56, 32, 48, 88, 54, 57, 32, 32, 32] := by
  rfl
example : printArg ⟨fun _ _ _ => none, fun _ => none, fun _ => none, fun _ => none, fun _ => none, fun _ => none,
      fun _ => none, fun _ => none, fun _ => none⟩ 14
    (flOf { minus := true, sharp := true, space := true, width := some 12, prec := some 2, verb := 88 }) [1, 2, 3]
    (.bytes [104, 105, 33]) 88 = .error .limit := by
  rfl

/-- Non-vacuity of `format_eq_G_single_hex`: `%-# 012.2X` has a canonical text and satisfies the hypotheses. -/
example : dirText { minus := true, sharp := true, space := true, zero := true, width := some 12, prec := some 2, verb := 88 } 88 [] =
    [45, 35, 32, 48, 49, 50, 46, 50, 88] := by
  simp [dirText, flagText, widthText, precText, decimal, digitsText, digitsRev, digitChar]

end Tengo.Props.C17Hex

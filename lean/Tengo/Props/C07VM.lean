import Tengo.Model.VMAbort
import Tengo.Proofs.C07VMRun
import Tengo.Proofs.C07VMBeh
import Tengo.Proofs.C07VMLoops
import Tengo.Props.C07
/-!
C07 on the WHOLE-VM model — cancellation of `Tengo.Model.VM.run` (all 42 opcodes, frames, self tail calls, the
model the `vm` stream compares with vm.go in lock step), and the protocol theorems of `Props/C07` instantiated
with the behaviour of a VM configuration.

Part 1 (`runAbort`): the loop of `VM.run` with the abort flag polled before every dispatch
(`Model/VMAbort.lean`; `VM.exec` is reused unchanged).
* `runAbort_never_is_run` — without `Abort` it IS `VM.run` (same fuel, same log).
* `abort_bound_vm`, `abort_stops_running_vm`, `abort_after_end_vm`, `abort_dispatch_count_vm`,
  `aborted_only_at_k`, `abort_fuel_short_vm` — with the flag visible after `k` dispatches the loop performs at
  most `k` dispatches (exactly `min k L`, `L` the length of the uninterrupted run), ends in `aborted` exactly when
  the uninterrupted run is still going after `k` dispatches, and then in the configuration `VM.run` has after `k`
  dispatches: no further instruction takes effect.
* `cyclic_run_never_ends`, `cyclic_run_cancellable`, `for_loop_*`, `tail_rec_*` — backward jumps and self tail
  calls do not evade the poll: `for {}` and `f := func() { return f() }` never end under `VM.run` for any fuel
  and stop after exactly `k` dispatches under `runAbort (some k)`.

Part 2 (`behOf`): the `Conc.Beh` of a VM configuration, derived from `VM.exec`'s outcome at each dispatch.
* `vm_behaviour_classes`, `vm_terminates_iff`, `vm_reaches_fatal_iff` — what the protocol model's notions
  mean for a VM configuration. The VM model's outcome type has ONE member that is classed `fatal`: a dispatch in
  which the value model's bounded native recursion runs out (`Err.fuel`: `equalsV 64`, `toStringV 64`, `copyV 64`
  on a deeper or cyclic value). It is a property of the MODEL's outcome type that nothing else is fatal; on the
  real code native recursion on a cyclic value kills the process (known finding O9), and the model shows it
  as exactly this member. Go-runtime fatal conditions the model does not have (out of memory, …) stay outside.
* `vm_rc_safety`, `vm_abort_bound`, `vm_abort_point`, `vm_rc_prompt`, `vm_rc_pre_cancelled`,
  `vm_rc_uncancelled_result`, `vm_inf_cancellable` + the two programs — the theorems of `Props/C07` about the
  whole-VM model: hypotheses and conclusions speak about `VM.run`.

Still assumed (as in `Props/C07`): every single dispatch terminates and is atomic; the scheduler is fair
(liveness only). The tie of `VM.run` to vm.go is the lock-step stream `vm`; the tie of the protocol to
script.go is `C07.shape_matches` + the cancel-at-k stream. `runAbort` itself has no stream of its own: it adds
to `VM.run` only the loop guard, whose shape is the regenerated fact `C07.shape_matches`.
-/
namespace Tengo.Props.C07VM
open Tengo.Model Tengo.Model.VM Tengo.Model.Spec Tengo.Model.VMAbort Tengo.Model.Conc Tengo.Proofs.Conc
open Tengo.Proofs.C07VMLoops

/-! ## Part 1: the abortable loop -/

/-- Without `Abort` the abortable loop is `VM.run`: same outcome, same log, for every fuel. -/
theorem runAbort_never_is_run (code : Code) (keep fuel : Nat) (allocs : Int) (cfg : Cfg) (log : Log) :
    runAbort code keep none fuel allocs cfg log =
      (.fin (run code keep fuel allocs cfg log).1, (run code keep fuel allocs cfg log).2) :=
  runAbort_none code keep fuel allocs cfg log

/-- **Bound.** With the flag visible after `k` dispatches (and fuel for them) the loop is the run with fuel
`k`, read as "still going after `k` dispatches = aborted there": it performs at most `k` dispatches. -/
theorem abort_bound_vm (code : Code) (keep k fuel : Nat) (hk : k ≤ fuel) (allocs : Int) (cfg : Cfg) (log : Log) :
    runAbort code keep (some k) fuel allocs cfg log = abortView (run code keep k allocs cfg log) ∧
    (runAbort code keep (some k) fuel allocs cfg log).2.steps ≤ log.steps + k := by
  have h := runAbort_some code keep k fuel allocs cfg log
  rw [if_pos hk] at h
  refine ⟨h, ?_⟩
  rw [h]
  have := (run_steps_le code keep k allocs cfg log).2
  unfold abortView
  split <;> exact this

/-- **The abort takes effect at dispatch `k`, and nothing after it does.** If the uninterrupted run is still
going after `k` dispatches, in configuration `c`, then the loop whose poll sees the flag after `k` dispatches
ends `aborted` in exactly `c` — registers, frames, globals, heap — after exactly `k` dispatches, with the log
`VM.run` has then. -/
theorem abort_stops_running_vm (code : Code) (keep k fuel : Nat) (hk : k ≤ fuel) (allocs : Int) (cfg : Cfg) (log : Log)
    (c : Cfg) (hgo : (run code keep k allocs cfg log).1 = .outOfFuel c) :
    runAbort code keep (some k) fuel allocs cfg log = (.aborted c, (run code keep k allocs cfg log).2) ∧
    (runAbort code keep (some k) fuel allocs cfg log).2.steps = log.steps + k := by
  have h := (abort_bound_vm code keep k fuel hk allocs cfg log).1
  have h2 : abortView (run code keep k allocs cfg log) = (.aborted c, (run code keep k allocs cfg log).2) := by
    unfold abortView
    rw [hgo]
  rw [h, h2]
  exact ⟨rfl, run_steps_outOfFuel code keep k allocs cfg log c hgo⟩

/-- If the run ended by itself within `k` dispatches the flag is never seen: the result is the result of the
uninterrupted run (which every larger fuel gives too). -/
theorem abort_after_end_vm (code : Code) (keep k fuel : Nat) (hk : k ≤ fuel) (allocs : Int) (cfg : Cfg) (log : Log)
    (hend : ∀ c, (run code keep k allocs cfg log).1 ≠ .outOfFuel c) :
    runAbort code keep (some k) fuel allocs cfg log =
      (.fin (run code keep k allocs cfg log).1, (run code keep k allocs cfg log).2) ∧
    ∀ fuel', k ≤ fuel' → run code keep fuel' allocs cfg log = run code keep k allocs cfg log := by
  have h := (abort_bound_vm code keep k fuel hk allocs cfg log).1
  rw [h]
  exact ⟨abortView_of_ne hend, fun fuel' hle => run_ended_ge code keep hle allocs cfg log hend⟩

/-- **Exactly `min k L` dispatches**, `L` the number of dispatches of the uninterrupted run (`F` any fuel
with which it ends by itself). -/
theorem abort_dispatch_count_vm (code : Code) (keep k fuel F : Nat) (hk : k ≤ fuel) (allocs : Int) (cfg : Cfg)
    (log : Log) (hF : ∀ c, (run code keep F allocs cfg log).1 ≠ .outOfFuel c) :
    (runAbort code keep (some k) fuel allocs cfg log).2.steps =
      log.steps + min k ((run code keep F allocs cfg log).2.steps - log.steps) := by
  have h := (abort_bound_vm code keep k fuel hk allocs cfg log).1
  have h2 : (abortView (run code keep k allocs cfg log)).2 = (run code keep k allocs cfg log).2 := by
    unfold abortView
    split <;> rfl
  rw [h, h2]
  exact run_steps_min code keep k F allocs cfg log hF

/-- Conversely the `aborted` outcome only arises at the `k`-th loop head, in the configuration (and with the
log) `VM.run` has after `k` dispatches. -/
theorem aborted_only_at_k (code : Code) (keep k fuel : Nat) (allocs : Int) (cfg : Cfg) (log : Log) (c : Cfg) (l : Log)
    (h : runAbort code keep (some k) fuel allocs cfg log = (.aborted c, l)) :
    k ≤ fuel ∧ run code keep k allocs cfg log = (.outOfFuel c, l) := by
  rw [runAbort_some] at h
  by_cases hk : k ≤ fuel
  · rw [if_pos hk] at h
    refine ⟨hk, ?_⟩
    unfold abortView at h
    split at h
    · rename_i c' heq
      simp only [Prod.mk.injEq, AOutcome.aborted.injEq] at h
      obtain ⟨rfl, rfl⟩ := h
      exact Prod.ext heq rfl
    · simp at h
  · rw [if_neg hk] at h
    simp [finView] at h

/-- The model's fuel running out before the flag is seen is an artefact of the fuel, reported as such. -/
theorem abort_fuel_short_vm (code : Code) (keep k fuel : Nat) (hk : fuel < k) (allocs : Int) (cfg : Cfg) (log : Log) :
    runAbort code keep (some k) fuel allocs cfg log =
      (.fin (run code keep fuel allocs cfg log).1, (run code keep fuel allocs cfg log).2) := by
  rw [runAbort_some, if_neg (by omega)]
  rfl

/-- A VM run never ends: whatever the fuel, it is still going. -/
def NeverEnds (code : Code) (allocs : Int) (cfg : Cfg) : Prop :=
  ∀ (keep fuel : Nat) (log : Log), ∃ c, (run code keep fuel allocs cfg log).1 = .outOfFuel c

/-- A run that comes back to its own configuration and allocation counter after `p ≥ 1` dispatches never
ends under `VM.run` … -/
theorem cyclic_run_never_ends (code : Code) (p : Nat) (hp : 0 < p) (allocs : Int) (cfg : Cfg)
    (hcyc : cfgAt code p allocs cfg = some (cfg, allocs)) : NeverEnds code allocs cfg :=
  fun keep fuel log => cycle_never_ends code keep p hp allocs cfg hcyc fuel log

/-- … and a run that never ends is stopped by the poll after exactly `k` dispatches, for every `k` — whether it
loops through backward jumps, self tail calls (the loop body's `continue`) or anything else: the poll is per
dispatch. -/
theorem never_ending_run_cancellable (code : Code) (allocs : Int) (cfg : Cfg) (hinf : NeverEnds code allocs cfg)
    (keep k fuel : Nat) (hk : k ≤ fuel) (log : Log) :
    ∃ c, runAbort code keep (some k) fuel allocs cfg log = (.aborted c, (run code keep k allocs cfg log).2) ∧
      (runAbort code keep (some k) fuel allocs cfg log).2.steps = log.steps + k ∧
      (run code keep k allocs cfg log).1 = .outOfFuel c := by
  obtain ⟨c, hc⟩ := hinf keep k log
  obtain ⟨h1, h2⟩ := abort_stops_running_vm code keep k fuel hk allocs cfg log c hc
  exact ⟨c, h1, h2, hc⟩

theorem cyclic_run_cancellable (code : Code) (p : Nat) (hp : 0 < p) (allocs : Int) (cfg : Cfg)
    (hcyc : cfgAt code p allocs cfg = some (cfg, allocs)) (keep k fuel : Nat) (hk : k ≤ fuel) (log : Log) :
    ∃ c, runAbort code keep (some k) fuel allocs cfg log = (.aborted c, (run code keep k allocs cfg log).2) ∧
      (runAbort code keep (some k) fuel allocs cfg log).2.steps = log.steps + k :=
  let ⟨c, h1, h2, _⟩ := never_ending_run_cancellable code allocs cfg
    (cyclic_run_never_ends code p hp allocs cfg hcyc) keep k fuel hk log
  ⟨c, h1, h2⟩

/-- `for {}` (`JMP 0`: a backward jump) never ends under `VM.run`, for any fuel, heap and allocation budget. -/
theorem for_loop_never_ends (allocs : Int) (g : GSt) (h : St) : NeverEnds forCode allocs (forCfg g h) :=
  cyclic_run_never_ends forCode 1 (by decide) allocs _ (for_cycle allocs g h)

/-- `for {}` stops after exactly `k` dispatches once the flag is visible after `k` dispatches. -/
theorem for_loop_aborts (allocs : Int) (g : GSt) (h : St) (keep k fuel : Nat) (hk : k ≤ fuel) (log : Log) :
    ∃ c l, runAbort forCode keep (some k) fuel allocs (forCfg g h) log = (.aborted c, l) ∧ l.steps = log.steps + k := by
  obtain ⟨c, h1, h2⟩ := cyclic_run_cancellable forCode 1 (by decide) allocs _ (for_cycle allocs g h) keep k fuel hk log
  exact ⟨c, _, h1, by rw [h1] at h2; exact h2⟩

/-- Unbounded self tail recursion (`f := func() { return f() }`: the frame-reusing `continue` path of OpCall)
never ends under `VM.run` … -/
theorem tail_rec_never_ends (allocs : Int) (g : GSt) (h : St) : NeverEnds tailCode allocs (tailCfg g h) :=
  cyclic_run_never_ends tailCode 2 (by decide) allocs _ (tail_cycle allocs g h)

/-- … and does not evade the poll either. -/
theorem tail_rec_aborts (allocs : Int) (g : GSt) (h : St) (keep k fuel : Nat) (hk : k ≤ fuel) (log : Log) :
    ∃ c l, runAbort tailCode keep (some k) fuel allocs (tailCfg g h) log = (.aborted c, l) ∧ l.steps = log.steps + k := by
  obtain ⟨c, h1, h2⟩ := cyclic_run_cancellable tailCode 2 (by decide) allocs _ (tail_cycle allocs g h) keep k fuel hk log
  exact ⟨c, _, h1, by rw [h1] at h2; exact h2⟩

/-! ## Part 2: the protocol model instantiated with the behaviour of a VM configuration -/

/-- **Which outcome class a dispatch has is derived from the VM model.** The behaviour `behOf` handed to the
protocol model finishes at dispatch `i` with class `oc` iff `VM.run` is still going after `i` dispatches and
ends at the next one with an outcome whose class (`classify`) is `oc`. -/
theorem vm_behaviour_classes (code : Code) (keep : Nat) (allocs : Int) (cfg : Cfg) (log : Log) (i : Nat)
    (oc : Conc.Outcome) :
    FinishesAt (behOf code allocs cfg) i oc ↔
      (∃ c, (run code keep i allocs cfg log).1 = .outOfFuel c) ∧
      (∀ c, (run code keep (i + 1) allocs cfg log).1 ≠ .outOfFuel c) ∧
      classify (run code keep (i + 1) allocs cfg log).1 = oc :=
  finishesAt_iff code keep allocs cfg log i oc

/-- The protocol model's "the program terminates" is "`VM.run` ends by itself for some fuel". -/
theorem vm_terminates_iff (code : Code) (keep : Nat) (allocs : Int) (cfg : Cfg) (log : Log) :
    Terminates (behOf code allocs cfg) ↔ ∃ fuel, ∀ c, (run code keep fuel allocs cfg log).1 ≠ .outOfFuel c :=
  terminates_iff code keep allocs cfg log

/-- The protocol model's "reaches a Go-fatal condition" is, for a VM configuration, "some dispatch exhausts the
value model's bounded native recursion". Every other way a VM-model run can end is `ok`, `err` or `goPanic`
— by the model's outcome type, not by a fact about vm.go. -/
theorem vm_reaches_fatal_iff (code : Code) (keep : Nat) (allocs : Int) (cfg : Cfg) (log : Log) :
    ReachesFatal (behOf code allocs cfg) ↔
      ∃ fuel at_, (run code keep fuel allocs cfg log).1 = .failed .fuel at_ :=
  reachesFatal_iff code keep allocs cfg log

/-- No dispatch of the run exhausts the value model's bounded native recursion. -/
def NoNativeDepthExhaustion (code : Code) (allocs : Int) (cfg : Cfg) : Prop :=
  ∀ (fuel : Nat) (at_ : Cfg), (run code 0 fuel allocs cfg {}).1 ≠ .failed .fuel at_

theorem vm_no_fatal (code : Code) (allocs : Int) (cfg : Cfg) (h : NoNativeDepthExhaustion code allocs cfg) :
    ¬ ReachesFatal (behOf code allocs cfg) := by
  intro hf
  obtain ⟨fuel, at_, hr⟩ := (reachesFatal_iff code 0 allocs cfg {}).mp hf
  exact h fuel at_ hr

/-- A run that never ends has no fatal dispatch, and its behaviour is "every instruction continues". -/
theorem neverEnds_beh (code : Code) (allocs : Int) (cfg : Cfg) (hinf : NeverEnds code allocs cfg) :
    behOf code allocs cfg = Prog.inf.beh := by
  funext i
  rw [behOf_eq_run code 0 allocs cfg {}]
  exact stepOutOf_cont_iff.mpr (hinf 0 (i + 1) {})

/-- **Safety on the whole-VM model.** In every terminal state of the protocol system run on the behaviour of
a VM configuration (unless the process was lost): the caller has returned, lock free, goroutine finished,
channel used once and drained; `ctx.Err()` only if cancelled and aborted; the run's own result `m` only if
`Abort` was never called, and then `VM.run` ends by itself (for some fuel) with an outcome of the class that
`m` reports. -/
theorem vm_rc_safety (code : Code) (keep : Nat) (allocs : Int) (cfg : Cfg) (log : Log) (pre : Bool) (s : State)
    (hr : Reach (behOf code allocs cfg) pre s) (ht : Terminal (behOf code allocs cfg) s) (hnc : s.rpc ≠ .crashed) :
    ∃ r, s.cpc = .returned r ∧ s.lockHeld = false ∧ s.rpc = .done ∧ s.sends = 1 ∧ s.recvs = 1 ∧ s.chan = none ∧
      (r = .ctxErr → s.cancelled = true ∧ s.abortCalled = true) ∧
      (∀ m, r = .res m → s.abortCalled = false ∧
        ∃ fuel, (∀ c, (run code keep fuel allocs cfg log).1 ≠ .outOfFuel c) ∧
          (classify (run code keep fuel allocs cfg log).1).msg = m) := by
  obtain ⟨r, h1, h2, h3, h4, h5, h6, h7, h8⟩ := C07.rc_safety _ pre s hr ht hnc
  refine ⟨r, h1, h2, h3, h4, h5, h6, h7, ?_⟩
  intro m hm
  obtain ⟨ha, o, i, hfin, hmsg, _⟩ := h8 m hm
  obtain ⟨_, hne, hcl⟩ := (finishesAt_iff code keep allocs cfg log i o).mp hfin
  exact ⟨ha, i + 1, hne, by rw [hcl, hmsg]⟩

/-- **Bound after Abort** on the whole-VM model: at most one dispatch of `VM.exec` and four runner transitions
after `v.Abort()`, in every reachable state. -/
theorem vm_abort_bound (code : Code) (allocs : Int) (cfg : Cfg) (pre : Bool) (s : State)
    (hr : Reach (behOf code allocs cfg) pre s) : s.instrAfterAbort ≤ 1 ∧ s.stepsAfterAbort ≤ 4 :=
  C07.abort_bound _ pre s hr

/-- **Where the protocol's abort lands in the VM.** When the runner goroutine is at the loop head before
dispatch `i` with the flag set, (1) `VM.run` is still going after `i` dispatches, in some configuration `c`;
(2) the runner's next transition leaves the loop without dispatching; (3) the VM-level loop `runAbort (some i)`
ends `aborted` in that same `c` after exactly `i` dispatches. So the VM the protocol leaves behind is the
configuration of the uninterrupted run after `i` dispatches — no instruction is half done, none is skipped. -/
theorem vm_abort_point (code : Code) (keep : Nat) (allocs : Int) (cfg : Cfg) (log : Log) (pre : Bool) (s : State)
    (hr : Reach (behOf code allocs cfg) pre s) (i : Nat) (hp : s.rpc = .poll i) (ha : s.aborting = true) :
    ∃ c, (run code keep i allocs cfg log).1 = .outOfFuel c ∧
      (∃ t, runnerStep (behOf code allocs cfg) s = some t ∧ t.rpc = .ranOut .nilErr) ∧
      ∀ fuel, i ≤ fuel →
        runAbort code keep (some i) fuel allocs cfg log = (.aborted c, (run code keep i allocs cfg log).2) ∧
        (runAbort code keep (some i) fuel allocs cfg log).2.steps = log.steps + i := by
  have hreach := (inv_reach hr).prefixCont i (Or.inl hp)
  obtain ⟨c, hc⟩ := (reachesInstr_iff code keep allocs cfg log i).mp hreach
  refine ⟨c, hc, ⟨{ tick s false with rpc := .ranOut .nilErr }, by simp [runnerStep, hp, ha], rfl⟩, ?_⟩
  intro fuel hk
  exact abort_stops_running_vm code keep i fuel hk allocs cfg log c hc

/-- Likewise a runner about to dispatch instruction `i` sits on the configuration of the uninterrupted run
after `i` dispatches. -/
theorem vm_exec_point (code : Code) (keep : Nat) (allocs : Int) (cfg : Cfg) (log : Log) (pre : Bool) (s : State)
    (hr : Reach (behOf code allocs cfg) pre s) (i : Nat) (hp : s.rpc = .exec i) :
    ∃ c, (run code keep i allocs cfg log).1 = .outOfFuel c :=
  (reachesInstr_iff code keep allocs cfg log i).mp ((inv_reach hr).prefixCont i (Or.inr hp))

/-- **Promptness on the whole-VM model.** From any reachable state with the context cancelled, for ANY VM
configuration none of whose dispatches exhausts the bounded native recursion — terminating, failing,
panicking or running forever — every fair schedule makes `RunContext` return, with the goroutine finished,
the lock free, at most one dispatch and four runner transitions after `Abort`. -/
theorem vm_rc_prompt (code : Code) (allocs : Int) (cfg : Cfg) (hnd : NoNativeDepthExhaustion code allocs cfg)
    (pre : Bool) (s : State) (hr : Reach (behOf code allocs cfg) pre s) (hc : s.cancelled = true)
    (σ : Nat → Choice) (hf : C07.Fair σ) :
    ∃ n r, (Conc.run (behOf code allocs cfg) σ s n).cpc = .returned r ∧
      (Conc.run (behOf code allocs cfg) σ s n).rpc = .done ∧
      (Conc.run (behOf code allocs cfg) σ s n).lockHeld = false ∧
      (Conc.run (behOf code allocs cfg) σ s n).instrAfterAbort ≤ 1 ∧
      (Conc.run (behOf code allocs cfg) σ s n).stepsAfterAbort ≤ 4 :=
  C07.rc_prompt _ pre s hr hc (vm_no_fatal code allocs cfg hnd) σ hf

/-- **Already-cancelled context** on the whole-VM model: the call returns `ctx.Err()`, or the result class of
a `VM.run` that ended by itself. -/
theorem vm_rc_pre_cancelled (code : Code) (keep : Nat) (allocs : Int) (cfg : Cfg) (log : Log)
    (hnd : NoNativeDepthExhaustion code allocs cfg) (σ : Nat → Choice) (hf : C07.Fair σ) :
    ∃ n r, (Conc.run (behOf code allocs cfg) σ (init true) n).cpc = .returned r ∧
      (r = .ctxErr ∨ ∃ fuel, (∀ c, (run code keep fuel allocs cfg log).1 ≠ .outOfFuel c) ∧
        r = .res (classify (run code keep fuel allocs cfg log).1).msg) := by
  obtain ⟨n, r, hret, h⟩ := C07.rc_pre_cancelled _ (vm_no_fatal code allocs cfg hnd) σ hf
  refine ⟨n, r, hret, ?_⟩
  rcases h with h | ⟨o, i, hfin, hres⟩
  · exact Or.inl h
  · obtain ⟨_, hne, hcl⟩ := (finishesAt_iff code keep allocs cfg log i o).mp hfin
    exact Or.inr ⟨i + 1, hne, by rw [hcl, hres]⟩

/-- **An uncancelled call returns what the VM model computes.** If `VM.run` ends by itself (some fuel) then
under every fair schedule that never cancels, `RunContext` returns the class of that outcome: nil for SUSPEND,
the run-time error, or the recovered Go panic as an error. -/
theorem vm_rc_uncancelled_result (code : Code) (keep fuel : Nat) (allocs : Int) (cfg : Cfg) (log : Log)
    (hnd : NoNativeDepthExhaustion code allocs cfg)
    (hend : ∀ c, (run code keep fuel allocs cfg log).1 ≠ .outOfFuel c)
    (σ : Nat → Choice) (hf : C07.Fair σ) (hnever : ∀ n, σ n ≠ .cancel) :
    ∃ n, (Conc.run (behOf code allocs cfg) σ (init false) n).cpc =
      .returned (.res (classify (run code keep fuel allocs cfg log).1).msg) := by
  obtain ⟨i, _, hfin⟩ := finishesAt_of_run code keep fuel allocs cfg log hend
  exact C07.rc_uncancelled_result _ (vm_no_fatal code allocs cfg hnd) i _ hfin σ hf hnever

/-- A run that never ends has no fatal dispatch. -/
theorem neverEnds_noNativeDepth (code : Code) (allocs : Int) (cfg : Cfg) (hinf : NeverEnds code allocs cfg) :
    NoNativeDepthExhaustion code allocs cfg := by
  intro fuel at_ h
  obtain ⟨c, hc⟩ := hinf 0 fuel {}
  rw [hc] at h
  cases h

/-- **Never-ending VM runs are cancellable through RunContext**: once the context is cancelled every fair
schedule returns `ctx.Err()`, at most one dispatch after `Abort`. -/
theorem vm_inf_cancellable (code : Code) (allocs : Int) (cfg : Cfg) (hinf : NeverEnds code allocs cfg)
    (pre : Bool) (s : State) (hr : Reach (behOf code allocs cfg) pre s) (hc : s.cancelled = true)
    (σ : Nat → Choice) (hf : C07.Fair σ) :
    ∃ n, (Conc.run (behOf code allocs cfg) σ s n).cpc = .returned .ctxErr ∧
      (Conc.run (behOf code allocs cfg) σ s n).instrAfterAbort ≤ 1 := by
  have hb := neverEnds_beh code allocs cfg hinf
  rw [hb] at hr ⊢
  exact C07.inf_cancellable pre s hr hc σ hf

/-- `for {}` on the whole-VM model, through RunContext. -/
theorem vm_for_loop_cancellable (allocs : Int) (g : GSt) (h : St) (pre : Bool) (s : State)
    (hr : Reach (behOf forCode allocs (forCfg g h)) pre s) (hc : s.cancelled = true)
    (σ : Nat → Choice) (hf : C07.Fair σ) :
    ∃ n, (Conc.run (behOf forCode allocs (forCfg g h)) σ s n).cpc = .returned .ctxErr ∧
      (Conc.run (behOf forCode allocs (forCfg g h)) σ s n).instrAfterAbort ≤ 1 :=
  vm_inf_cancellable _ _ _ (for_loop_never_ends allocs g h) pre s hr hc σ hf

/-- Unbounded self tail recursion on the whole-VM model, through RunContext. -/
theorem vm_tail_rec_cancellable (allocs : Int) (g : GSt) (h : St) (pre : Bool) (s : State)
    (hr : Reach (behOf tailCode allocs (tailCfg g h)) pre s) (hc : s.cancelled = true)
    (σ : Nat → Choice) (hf : C07.Fair σ) :
    ∃ n, (Conc.run (behOf tailCode allocs (tailCfg g h)) σ s n).cpc = .returned .ctxErr ∧
      (Conc.run (behOf tailCode allocs (tailCfg g h)) σ s n).instrAfterAbort ≤ 1 :=
  vm_inf_cancellable _ _ _ (tail_rec_never_ends allocs g h) pre s hr hc σ hf

/-! ### Non-vacuity -/

/-- `TRUE; POP; SUSPEND` is, for the protocol model, "two continuing instructions, then ok". -/
theorem ok_beh (a : Int) : behOf okCode a okStart = (Prog.fin 2 .ok).beh := by
  funext i
  rw [behOf_eq_run okCode 0 a okStart {}]
  have hend : ∀ c, (run okCode 0 3 a okStart {}).1 ≠ .outOfFuel c := by rw [(ok_run 0 a {}).1]; simp
  by_cases h : i < 2
  · obtain ⟨c, hc⟩ := run_going_le okCode 0 (show i + 1 ≤ 2 by omega) a okStart {} _ (ok_run 0 a {}).2
    rw [hc]
    simp [Prog.beh, h, stepOutOf]
  · rw [run_ended_ge okCode 0 (show 3 ≤ i + 1 by omega) a okStart {} hend, (ok_run 0 a {}).1]
    simp [Prog.beh, h, stepOutOf, classify]

theorem ok_noNativeDepth (a : Int) : NoNativeDepthExhaustion okCode a okStart := by
  intro fuel at_ h
  have hend : ∀ c, (run okCode 0 3 a okStart {}).1 ≠ .outOfFuel c := by rw [(ok_run 0 a {}).1]; simp
  rcases Nat.lt_or_ge fuel 3 with hlt | hge
  · obtain ⟨c, hc⟩ := run_going_le okCode 0 (show fuel ≤ 2 by omega) a okStart {} _ (ok_run 0 a {}).2
    rw [hc] at h
    cases h
  · rw [run_ended_ge okCode 0 hge a okStart {} hend, (ok_run 0 a {}).1] at h
    cases h

/-- abort_stops_running_vm: the flag visible after 2 of the 3 dispatches of `TRUE; POP; SUSPEND` — the loop
stops before SUSPEND, in the configuration `VM.run` has after `TRUE; POP`. -/
example (keep : Nat) (a : Int) (log : Log) :
    (runAbort okCode keep (some 2) 5 a okStart log).1 = .aborted (okCfg 1 0 #[.bool true]) ∧
    (runAbort okCode keep (some 2) 5 a okStart log).2.steps = log.steps + 2 := by
  obtain ⟨h1, h2⟩ := abort_stops_running_vm okCode keep 2 5 (by decide) a okStart log _ (ok_run keep a log).2
  exact ⟨by rw [h1], h2⟩

/-- abort_after_end_vm / abort_dispatch_count_vm: the flag visible only after 4 dispatches is never seen:
halted after min 4 3 = 3 dispatches. -/
example (keep : Nat) (a : Int) (log : Log) :
    (runAbort okCode keep (some 4) 9 a okStart log).1 = .fin (.halted (okCfg 2 0 #[.bool true])) ∧
    (runAbort okCode keep (some 4) 9 a okStart log).2.steps = log.steps + min 4 3 := by
  have hend : ∀ c, (run okCode keep 3 a okStart log).1 ≠ .outOfFuel c := by rw [(ok_run keep a log).1]; simp
  have h4 := run_ended_ge okCode keep (show 3 ≤ 4 by decide) a okStart log hend
  have hend4 : ∀ c, (run okCode keep 4 a okStart log).1 ≠ .outOfFuel c := by rw [h4]; exact hend
  refine ⟨?_, ?_⟩
  · rw [(abort_after_end_vm okCode keep 4 9 (by decide) a okStart log hend4).1, h4, (ok_run keep a log).1]
  · have h := abort_dispatch_count_vm okCode keep 4 9 3 (by decide) a okStart log hend
    have h3 := ok_run_steps keep a log
    rw [h, h3]
    omega

/-- aborted_only_at_k is not vacuous: `for {}` aborted after 7 dispatches. -/
example (a : Int) (g : GSt) (h : St) : ∃ c l, runAbort forCode 0 (some 7) 7 a (forCfg g h) {} = (.aborted c, l) :=
  let ⟨c, l, hh, _⟩ := for_loop_aborts a g h 0 7 7 (Nat.le_refl _) {}
  ⟨c, l, hh⟩

/-- cyclic_run_never_ends / cyclic_run_cancellable hypotheses: both programs come back to their configuration. -/
example (a : Int) (g : GSt) (h : St) : cfgAt forCode 1 a (forCfg g h) = some (forCfg g h, a) := for_cycle a g h
example (a : Int) (g : GSt) (h : St) : cfgAt tailCode 2 a (tailCfg g h) = some (tailCfg g h, a) := tail_cycle a g h

/-- vm_no_fatal / vm_rc_prompt / vm_rc_pre_cancelled hypothesis `NoNativeDepthExhaustion`: met by the
terminating program and by the two loops. -/
example (a : Int) : NoNativeDepthExhaustion okCode a okStart := ok_noNativeDepth a
example (a : Int) (g : GSt) (h : St) : NoNativeDepthExhaustion forCode a (forCfg g h) :=
  neverEnds_noNativeDepth _ _ _ (for_loop_never_ends a g h)

/-- vm_rc_uncancelled_result on `TRUE; POP; SUSPEND`: RunContext returns nil. -/
example (a : Int) : ∃ n, (Conc.run (behOf okCode a okStart) C07.noCancel (init false) n).cpc = .returned (.res .nilErr) := by
  have hend : ∀ c, (run okCode 0 3 a okStart {}).1 ≠ .outOfFuel c := by rw [(ok_run 0 a {}).1]; simp
  obtain ⟨n, hn⟩ := vm_rc_uncancelled_result okCode 0 3 a okStart {} (ok_noNativeDepth a) hend C07.noCancel
    C07.noCancel_fair.1 C07.noCancel_fair.2
  rw [(ok_run 0 a {}).1] at hn
  exact ⟨n, hn⟩

/-- vm_abort_point / vm_rc_prompt / vm_for_loop_cancellable: `for {}` on the whole-VM model, cancelled while
instruction 0 is being dispatched; `Abort` lands; the runner is at the loop head before dispatch 1 with the flag
set. -/
def exAbortPoint : State := runList Prog.inf.beh (init false)
  [.caller false, .caller false, .runner, .runner, .cancel, .caller true, .caller true, .runner]

example (a : Int) (g : GSt) (h : St) :
    Reach (behOf forCode a (forCfg g h)) false exAbortPoint ∧ exAbortPoint.rpc = .poll 1 ∧
      exAbortPoint.aborting = true ∧ exAbortPoint.cancelled = true := by
  rw [neverEnds_beh _ _ _ (for_loop_never_ends a g h)]
  exact ⟨runList_reach _ Reach.init, by decide, by decide, by decide⟩

/-- vm_rc_safety: a terminal state of the protocol run on `TRUE; POP; SUSPEND`. -/
def exOkTerminal : State := runList (Prog.fin 2 .ok).beh (init false)
  [.caller false, .caller false, .runner, .runner, .runner, .runner, .runner, .runner, .runner, .runner, .runner,
   .caller false, .caller false]

example (a : Int) : Reach (behOf okCode a okStart) false exOkTerminal ∧ Terminal (behOf okCode a okStart) exOkTerminal ∧
    exOkTerminal.rpc ≠ .crashed ∧ exOkTerminal.cpc = .returned (.res .nilErr) := by
  rw [ok_beh]
  exact ⟨runList_reach _ Reach.init, ⟨by decide, by decide⟩, by decide, by decide⟩

end Tengo.Props.C07VM

import Tengo.Proofs.C16CompileFnFile
import Tengo.Proofs.C16CompileFnNeg
import Tengo.Props.C16Compile
/-!
# C16 — `tail_pattern_sound` from SOURCE, for the compiler model (`Tengo.Model.Compiler`)

`Tengo.Props.C16Compile` proved the layout of `return e` / `e;` inside the instruction buffer and that
`optimizeFunc` keeps the successor of a LIVE instruction. This file composes them through `compileExpr (.func …)`.

Source-level notions (all syntactic):
* `TailE e ell f args` (from `C16Compile`): the call `f(args)` is in tail position of the expression `e`;
* `TailS last n sp zop zargs`: the statement `last` of a function body `pre…; last; post…` ends with
  `CALL n sp; zop zargs`: `return e` (`RETURN 1`) or `e;` (`POP`) with `TailE e`; `if [init;] c { pre'…; last'; post'… }`
  without else (the `stmt-in-if` form; an init statement must pass), the same with an else branch when the tail call is a `return`
  (`if c { return f(x) } else { … }`), `if c { … } else last'` (`else { … }`, `else if …`),
  `{ pre'…; last'; post'… }`, nested at will. Statements after the tail statement (`post`, `post'`) are allowed
  behind `CALL; RETURN` only (a `CALL; POP` needs the RETURN 0 that `optimizeFunc` appends at the end of the body);
* `passes st` (decidable, recursive): expression statement, assignment `l op= r`, `x++`, `if` with anything inside
  (so every if / else-if / else chain, with or without returns), `for` WITH a condition, `for … in`, a bare block
  `{ … }` all of whose statements pass, empty statement, `export` — the statements after which `optimizeFunc` never drops the
  following code as dead (every `if` / conditional loop leaves a jump to its own end, the others contain no
  RETURN). `return`, `break`, `continue`, a block containing one of them and `for { }` without condition are not allowed before the
  tail statement (dead code after them is what the optimizer removes; a `for` without condition makes what follows
  dead).

Theorems:
* `func_return_tail_call`: for `func(ps) { pre…; last; post… }` (any `post`, e.g.
  `if n > 0 { return f(n - 1) }; return 0`) with `pre.all passes` and `TailS last n sp RETURN [1]`, the
  function constant added to the pool decodes to an instruction list containing `CALL n sp` at some offset `p`
  and `RETURN 1` at `p + 3` (and the bytes at `p`, `p + 3` are those opcodes). No hypothesis about the raw body
  or `newPos`: liveness is PROVED.
* `func_stmt_tail_call`: same for `TailS last n sp POP []` (call statement last, also inside `if` / `else`):
  `CALL n sp; POP; RETURN 0` at `p`, `p + 3`, `p + 4` (the RETURN 0 is the one `optimizeFunc` appends).
* `compiled_self_tail_call_reuses_frame`, `compiled_self_stmt_call_reuses_frame`: composed with
  `Tengo.Props.VM.self_tail_call_reuses_frame`: whenever the whole-VM model dispatches that CALL of that constant
  with the running function object as callee, callers / base pointer / function are unchanged.
* `file_self_tail_call_reuses_frame`: the same from `compileFile`: a file whose top-level statement list contains
  `name := func(ps) { pre…; last; post… }` (as above) compiles to a `Bytecode'` with such a function constant, and
  the whole-VM model reuses the frame at that CALL (hypotheses of `compile_verifies` only).
* `return_operator_not_tail`, `exprstmt_operator_not_tail`: converse for the family `opLast` (binary operators other
  than `&&`/`||`, index, selector): `return f(x) + 1` is `B ++ [y, RETURN 1]` with `y` an operator instruction, not a CALL.
* negative contexts, general: `assign_call_not_tail` (`l op= r`, e.g. `a := f(x)`: every CALL in its code is
  followed, inside its code, by an instruction that is neither RETURN nor POP) and `stmt_call_then_more`
  (`e; more` with `more` an expression statement, an assignment or `return e2`: the POP after the call is followed
  by an instruction that is not RETURN) — with `opt_keeps_next` the optimizer keeps these successors.

Hypotheses: C02's layout invariant `Inv s L F` of the state in which the literal is compiled (any nesting of any
program; `init_inv` for the initial state), the size bound of C02, and at most 65536 constants / globals in the
state reached (2-byte operands; the hypotheses of `compile_verifies`).
-/
set_option linter.unusedVariables false
namespace Tengo.Props.C16CompileFn
open Tengo.Model Tengo.Model.Opcodes Tengo.Model.Compiler Tengo.Model.Optimizer
open Tengo.Model.Spec (Expr Stmt)
open Tengo.Proofs.C03 Tengo.Proofs.C03Reloc Tengo.Props.C03Sim Tengo.Proofs.C02Compile Tengo.Proofs.C16Compile
open Tengo.Proofs.C16Fn

/-- the decidable liveness condition on the statements before the last one -/
abbrev passes := Tengo.Proofs.C16Fn.passes

/-- tail position of a statement (see the header) -/
abbrev TailS := Tengo.Proofs.C16Fn.TailS

/-- `return n == 0 || f(n - 1)`; `if n > 0 { f(n - 1) }` (stmt-in-if); `if a { return f(x) } else { return 0 }`;
`if a { return 1 } else { x++; return f(x) }` -/
example : TailS (.ret (some (.bin "LOr" (.bin "Equal" (.ident "n") (.int 0)) (.call false (.ident "f") [.ident "n"]))))
    1 0 opReturn [1] := .ret (.andor _ (by decide) (.call _ _ _))
example : TailS (.ifs none (.bin "Greater" (.ident "n") (.int 0))
    ([] ++ [.expr (.call false (.ident "f") [.bin "Sub" (.ident "n") (.int 1)])]) none) 1 0 opPop [] :=
  .ifThen none _ [] [] (by simp) (Or.inl rfl) (by simp) (.expr (.call _ _ _))
/-- `if x := g(); x { return f(x) }` (init statement) -/
example : TailS (.ifs (some (.assign "Define" [.ident "x"] [.call false (.ident "g") []])) (.ident "x")
    ([] ++ .ret (some (.call false (.ident "f") [.ident "x"])) :: []) none) 1 0 opReturn [1] :=
  .ifThen _ _ [] [] (by intro st h; cases h; decide) (Or.inl rfl) (by simp) (.ret (.call _ _ _))
example : TailS (.ifs none (.ident "a") ([] ++ .ret (some (.call false (.ident "f") [.ident "x"])) :: [])
    (some (.block [.ret (some (.int 0))]))) 1 0 opReturn [1] :=
  .ifThenElse none _ [] [] _ (by simp) (by simp) (.ret (.call _ _ _))
example : TailS (.ifs none (.ident "a") [.ret (some (.int 1))]
    (some (.block ([.incdec "Inc" (.ident "x")] ++ [.ret (some (.call false (.ident "f") [.ident "x"]))]))))
    1 0 opReturn [1] :=
  .ifElse none _ _ (by simp) (.block _ [] (Or.inl rfl) (by decide) (.ret (.call _ _ _)))

/-- `if n == 0 { return acc }`, `acc += n`, `g(n)`, `x++`, `if a { return 1 } else { return 2 }`,
`for i < n { return 1 }`, `for x in xs { }` pass; `return`, `break`, `for { }` and a bare block do not -/
example : passes (.ifs none (.bin "Equal" (.ident "n") (.int 0)) [.ret (some (.ident "acc"))] none) = true ∧
    passes (.assign "AddAssign" [.ident "acc"] [.ident "n"]) = true ∧
    passes (.expr (.call false (.ident "g") [.ident "n"])) = true ∧
    passes (.incdec "Inc" (.ident "x")) = true ∧
    passes (.ifs none (.ident "a") [.ret (some (.int 1))] (some (.block [.ret (some (.int 2))]))) = true ∧
    passes (.fors none (some (.bin "Less" (.ident "i") (.ident "n"))) none [.ret (some (.int 1))]) = true ∧
    passes (.forin "_" "x" (.ident "xs") []) = true ∧
    passes (.block [.incdec "Inc" (.ident "x"), .block [.empty]]) = true ∧
    passes (.ret none) = false ∧ passes (.branch "Break") = false ∧ passes (.fors none none none []) = false ∧
    passes (.block [.ret none]) = false := by decide

/-- What is exposed about function constant `k` of the final state: its code decodes to `insts`, which has
`CALL n sp` at `p` and the instruction `z…` at `p + 3`. -/
def HasCallAt (s' : CState) (lo k np : Nat) (va : Bool) (code : Bytes) (p n sp : Nat) : Prop :=
  lo ≤ k ∧ (∃ nl, s'.consts.toList[k]? = some (Const.fn code nl np va)) ∧
    (∃ insts, decode code = some insts ∧ (⟨p, opCall, [n, sp]⟩ : Instr) ∈ insts) ∧
    (code.getD p 0).toNat = opCall

theorem instr_eta {y : Instr} {p op : Nat} {args : List Nat} (h1 : y.pos = p) (h2 : y.op = op) (h3 : y.args = args) :
    y = ⟨p, op, args⟩ := by
  obtain ⟨a, b, c⟩ := y
  simp only at h1 h2 h3
  subst h1; subst h2; subst h3; rfl

/-- **(1) `func(ps) { pre…; last; post… }`, `last` ending with a call in `return` tail position (`return e`,
possibly inside `if` / `else` / a block): the function constant contains `CALL n sp; RETURN 1`.** -/
theorem func_return_tail_call {d : Nat} (va : Bool) (ps : List String) (pre : List Stmt) {last : Stmt} (post : List Stmt) {n sp : Nat}
    (hT : TailS last n sp opReturn [1]) (hpre : pre.all passes = true)
    (s s' : CState) (L : List Instr) (F : List Nat)
    (h : compileExpr (d + 1) (.func va ps (pre ++ last :: post)) s = .ok ((), s')) (hinv : Inv s L F)
    (hsz : szE (d + 1) (.func va ps (pre ++ last :: post)) < 2 ^ 30)
    (hconsts : s'.consts.size ≤ 65536) (hglob : rootMax s'.tables ≤ 65536) :
    ∃ k code p, HasCallAt s' s.consts.size k ps.length va code p n sp ∧
      (∃ insts, decode code = some insts ∧ (⟨p + 3, opReturn, [1]⟩ : Instr) ∈ insts) ∧
      (code.getD (p + 3) 0).toNat = opReturn := by
  obtain ⟨k, res, nl, Lb, x, z, m, hlo, hk, hdec, hlen, hopt, hx, hz, hxo, hxa, hzp, hzo, hza, hzend, hm⟩ :=
    func_tail va ps pre last post (Or.inr rfl) (fun st hst => List.all_eq_true.mp hpre st hst)
      (tailS_tailEnd hT) s s' L F h hinv hsz hconsts hglob
  obtain ⟨y1, hy1, y2, hy2, hp1, ho1, ha1, hp2, ho2, ha2⟩ :=
    opt_next hdec hopt hx hz hzp (by rw [hxo]; decide) hm
  have h' : optInstrs Lb (encode Lb).length [] 0 = .ok res := by simpa [opt, hdec] using hopt
  have hd' := out_decode hdec hlen h'
  obtain ⟨b1, b2⟩ := opt_call_ret_bytes hdec hlen hopt hx hz hzp hxo hzo hm
  have hxs : x.size = 3 := call_size hxo
  have e1 : y1 = ⟨m, opCall, [n, sp]⟩ :=
    instr_eta hp1 (ho1.trans hxo) ((ha1 (by rw [hxo]; rfl)).trans hxa)
  have e2 : y2 = ⟨m + 3, opReturn, [1]⟩ :=
    instr_eta (by rw [hp2, hxs]) (ho2.trans hzo) ((ha2 (by rw [hzo]; rfl)).trans hza)
  exact ⟨k, res.bytes, m, ⟨hlo, ⟨nl, hk⟩, ⟨res.insts, hd', e1 ▸ hy1⟩, b1⟩, ⟨res.insts, hd', e2 ▸ hy2⟩, b2⟩

/-- **(1') `func(ps) { pre…; last }`, `last` ending with a call statement (`e;`, also as the last statement of an
`if` / `else` / block that ends the body — `stmt-in-if`): the function constant contains
`CALL n sp; POP; RETURN 0`** (the RETURN 0 appended by `optimizeFunc`). -/
theorem func_stmt_tail_call {d : Nat} (va : Bool) (ps : List String) (pre : List Stmt) {last : Stmt} {n sp : Nat}
    (hT : TailS last n sp opPop []) (hpre : pre.all passes = true)
    (s s' : CState) (L : List Instr) (F : List Nat)
    (h : compileExpr (d + 1) (.func va ps (pre ++ [last])) s = .ok ((), s')) (hinv : Inv s L F)
    (hsz : szE (d + 1) (.func va ps (pre ++ [last])) < 2 ^ 30)
    (hconsts : s'.consts.size ≤ 65536) (hglob : rootMax s'.tables ≤ 65536) :
    ∃ k code p, HasCallAt s' s.consts.size k ps.length va code p n sp ∧
      (∃ insts, decode code = some insts ∧ (⟨p + 3, opPop, []⟩ : Instr) ∈ insts ∧
        (⟨p + 4, opReturn, [0]⟩ : Instr) ∈ insts) ∧
      (code.getD (p + 3) 0).toNat = opPop ∧ (code.getD (p + 4) 0).toNat = opReturn := by
  obtain ⟨k, res, nl, Lb, x, z, m, hlo, hk, hdec, hlen, hopt, hx, hz, hxo, hxa, hzp, hzo, hza, hzend, hm⟩ :=
    func_tail va ps pre last [] (Or.inl rfl) (fun st hst => List.all_eq_true.mp hpre st hst)
      (tailS_tailEnd hT) s s' L F h hinv hsz hconsts hglob
  obtain ⟨y1, hy1, y2, hy2, hp1, ho1, ha1, hp2, ho2, ha2⟩ :=
    opt_next hdec hopt hx hz hzp (by rw [hxo]; decide) hm
  have h' : optInstrs Lb (encode Lb).length [] 0 = .ok res := by simpa [opt, hdec] using hopt
  have hd' := out_decode hdec hlen h'
  obtain ⟨b1, b2, b3⟩ := opt_call_pop_end_bytes hdec hlen hopt hx hz hzp hxo hzo (hzend (by decide)) hm
  have hxs : x.size = 3 := call_size hxo
  have hl : Layout 0 Lb := Tengo.Proofs.C03.decode_layout hdec
  have hzs : z.size = 1 := by
    obtain ⟨pos, op, zargs⟩ := z
    simp only at hzo; subst hzo; rfl
  have hzn : newPos Lb z.pos = some (m + 3) := by
    rcases posmap_succ hl hx hm (by rw [hxo]; decide) with h1 | ⟨h1, _, _⟩
    · rw [hzp, ← hxs]; exact h1
    · exfalso
      have := layout_end hl z hz
      have := size_pos z
      omega
  obtain ⟨y3, hy3, hp3, ho3, _, hret⟩ := opt_last hdec hopt hz (hzend (by decide)) (by rw [hzo]; decide) hzn
  rw [hzs] at hret
  have e1 : y1 = ⟨m, opCall, [n, sp]⟩ :=
    instr_eta hp1 (ho1.trans hxo) ((ha1 (by rw [hxo]; rfl)).trans hxa)
  have e2 : y2 = ⟨m + 3, opPop, []⟩ :=
    instr_eta (by rw [hp2, hxs]) (ho2.trans hzo) ((ha2 (by rw [hzo]; rfl)).trans hza)
  exact ⟨k, res.bytes, m, ⟨hlo, ⟨nl, hk⟩, ⟨res.insts, hd', e1 ▸ hy1⟩, b1⟩,
    ⟨res.insts, hd', e2 ▸ hy2, hret⟩, b2, b3⟩

/-- **(2) the frame of a compiled self tail call is reused — from the source.** `func(ps) { pre…; last }`
as in (1): the function constant `k` has a CALL at offset `p` such that, whenever the whole-VM model runs a function
object with that code, dispatches that CALL (`ip + 1 = p`) and the callee is the running function object itself,
the frame is reused: same callers, same base pointer, same function. -/
theorem compiled_self_tail_call_reuses_frame {d : Nat} (va : Bool) (ps : List String) (pre : List Stmt) {last : Stmt} (post : List Stmt)
    {n sp : Nat} (hT : TailS last n sp opReturn [1]) (hpre : pre.all passes = true)
    (s s' : CState) (L : List Instr) (F : List Nat)
    (h : compileExpr (d + 1) (.func va ps (pre ++ last :: post)) s = .ok ((), s')) (hinv : Inv s L F)
    (hsz : szE (d + 1) (.func va ps (pre ++ last :: post)) < 2 ^ 30)
    (hconsts : s'.consts.size ≤ 65536) (hglob : rootMax s'.tables ≤ 65536) :
    ∃ k code p, HasCallAt s' s.consts.size k ps.length va code p n sp ∧
      ∀ (vcode : VM.Code) (c : VM.Core) (fo : VM.Fn) (cr : Nat),
        vcode.fn c.cur.fnIdx = some fo → fo.insts = code.toArray → c.cur.ip + 1 = (p : Int) →
        VM.calleeOf fo c = .cfn cr → c.cur.fnRef = some cr →
        VM.PostX (VM.exec vcode c) (fun o => ∀ c' a, o = .next c' a →
          c'.callers = c.callers ∧ c'.cur.bp = c.cur.bp ∧ c'.cur.fnRef = c.cur.fnRef) := by
  obtain ⟨k, code, p, hc, _, b2⟩ := func_return_tail_call va ps pre post hT hpre s s' L F h hinv hsz hconsts hglob
  refine ⟨k, code, p, hc, ?_⟩
  intro vcode c fo cr hf hfi hip hcallee hself
  have hl : fo.insts.toList = code := by rw [hfi]
  refine Tengo.Props.VM.self_tail_call_reuses_frame vcode c fo cr hf ?_ hcallee hself (Or.inl ?_)
  · rw [hip, VM.byteAt_getD, hl]; exact hc.2.2.2
  · have e : c.cur.ip + 1 + 2 + 1 = ((p + 3 : Nat) : Int) := by omega
    rw [e, VM.byteAt_getD, hl]; exact b2

/-- **(2') … and of a self call that is the last statement** (`CALL; POP; RETURN 0`). -/
theorem compiled_self_stmt_call_reuses_frame {d : Nat} (va : Bool) (ps : List String) (pre : List Stmt) {last : Stmt}
    {n sp : Nat} (hT : TailS last n sp opPop []) (hpre : pre.all passes = true)
    (s s' : CState) (L : List Instr) (F : List Nat)
    (h : compileExpr (d + 1) (.func va ps (pre ++ [last])) s = .ok ((), s')) (hinv : Inv s L F)
    (hsz : szE (d + 1) (.func va ps (pre ++ [last])) < 2 ^ 30)
    (hconsts : s'.consts.size ≤ 65536) (hglob : rootMax s'.tables ≤ 65536) :
    ∃ k code p, HasCallAt s' s.consts.size k ps.length va code p n sp ∧
      ∀ (vcode : VM.Code) (c : VM.Core) (fo : VM.Fn) (cr : Nat),
        vcode.fn c.cur.fnIdx = some fo → fo.insts = code.toArray → c.cur.ip + 1 = (p : Int) →
        VM.calleeOf fo c = .cfn cr → c.cur.fnRef = some cr →
        VM.PostX (VM.exec vcode c) (fun o => ∀ c' a, o = .next c' a →
          c'.callers = c.callers ∧ c'.cur.bp = c.cur.bp ∧ c'.cur.fnRef = c.cur.fnRef) := by
  obtain ⟨k, code, p, hc, _, b2, b3⟩ := func_stmt_tail_call va ps pre hT hpre s s' L F h hinv hsz hconsts hglob
  refine ⟨k, code, p, hc, ?_⟩
  intro vcode c fo cr hf hfi hip hcallee hself
  have hl : fo.insts.toList = code := by rw [hfi]
  refine Tengo.Props.VM.self_tail_call_reuses_frame vcode c fo cr hf ?_ hcallee hself (Or.inr ⟨?_, ?_⟩)
  · rw [hip, VM.byteAt_getD, hl]; exact hc.2.2.2
  · have e : c.cur.ip + 1 + 2 + 1 = ((p + 3 : Nat) : Int) := by omega
    rw [e, VM.byteAt_getD, hl]; exact b2
  · have e : c.cur.ip + 1 + 2 + 2 = ((p + 4 : Nat) : Int) := by omega
    rw [e, VM.byteAt_getD, hl]; exact b3

/-! ## (2'') from `compileFile` -/

/-- what "the frame is reused at offset `p` of `code`" means on the whole-VM model -/
def ReusesFrameAt (code : Bytes) (p : Nat) : Prop :=
  ∀ (vcode : VM.Code) (c : VM.Core) (fo : VM.Fn) (cr : Nat),
    vcode.fn c.cur.fnIdx = some fo → fo.insts = code.toArray → c.cur.ip + 1 = (p : Int) →
    VM.calleeOf fo c = .cfn cr → c.cur.fnRef = some cr →
    VM.PostX (VM.exec vcode c) (fun o => ∀ c' a, o = .next c' a →
      c'.callers = c.callers ∧ c'.cur.bp = c.cur.bp ∧ c'.cur.fnRef = c.cur.fnRef)

theorem reusesFrameAt_ret {code : Bytes} {p : Nat} (b1 : (code.getD p 0).toNat = opCall)
    (b2 : (code.getD (p + 3) 0).toNat = opReturn) : ReusesFrameAt code p := by
  intro vcode c fo cr hf hfi hip hcallee hself
  have hl : fo.insts.toList = code := by rw [hfi]
  refine Tengo.Props.VM.self_tail_call_reuses_frame vcode c fo cr hf ?_ hcallee hself (Or.inl ?_)
  · rw [hip, VM.byteAt_getD, hl]; exact b1
  · have e : c.cur.ip + 1 + 2 + 1 = ((p + 3 : Nat) : Int) := by omega
    rw [e, VM.byteAt_getD, hl]; exact b2

/-- **(2'') a whole file.** If the statement list of a file contains, at its top level, the statement
`name := func(ps) { pre…; last; post… }` with `pre.all passes` and `TailS last n sp RETURN [1]`, then the bytecode
`compileFile` returns has a function constant whose code decodes to a list with `CALL n sp` at an offset `p` and
`RETURN 1` at `p + 3`, and the whole-VM model reuses the frame whenever that CALL is dispatched with the running
function object as callee. Hypotheses: those of C02's `compile_verifies` (size bound, ≤ 65536 constants and
globals). -/
theorem file_self_tail_call_reuses_frame (pre0 post0 : List Stmt) (name : String) (va : Bool) (ps : List String)
    (pre : List Stmt) {last : Stmt} (post : List Stmt) {n sp : Nat}
    (hT : TailS last n sp opReturn [1]) (hpre : pre.all passes = true)
    (inputs : List String) (bc : Bytecode')
    (h : compileFile (pre0 ++ .assign "Define" [.ident name] [.func va ps (pre ++ last :: post)] :: post0) inputs
      = .ok bc)
    (hsz : Tengo.Model.Compiler.codeBound
      (pre0 ++ .assign "Define" [.ident name] [.func va ps (pre ++ last :: post)] :: post0) ≤ 2 ^ 30)
    (hconsts : bc.consts.length ≤ 65536) (hglobals : bc.maxGlobals ≤ 65536) :
    ∃ (k : Nat) (code : Bytes) (nl p : Nat), bc.consts[k]? = some (Const.fn code nl ps.length va) ∧
      (∃ insts, decode code = some insts ∧ (⟨p, opCall, [n, sp]⟩ : Instr) ∈ insts ∧
        (⟨p + 3, opReturn, [1]⟩ : Instr) ∈ insts) ∧
      ReusesFrameAt code p := by
  have hsz' : szSs fuel (pre0 ++ .assign "Define" [.ident name] [.func va ps (pre ++ last :: post)] :: post0)
      < 2 ^ 30 := by unfold Compiler.codeBound at hsz; omega
  unfold compileFile at h
  split at h
  · cases h
  · rename_i u send hrun
    injection h with h
    have hrun' : compileStmts fuel _ (initState inputs) = .ok ((), send) := hrun
    obtain ⟨B, F, bs, cs, o⟩ := (all_spec fuel).ss _ _ send [] [] hrun' (init_inv inputs) hsz'
    have hP := initState_P inputs
    obtain ⟨t0, ht0⟩ := hP.one
    have htab := o.step.tabs
    rw [ht0] at htab
    have hcs : bc.consts = send.consts.toList := by rw [← h]
    have hmg : bc.maxGlobals = rootMax send.tables := by
      rw [← h]
      generalize hc : send.tables = c at htab
      match c, htab with
      | [t'], _ => simp [rootMax]
      | [], h2 => exact h2.elim
      | _ :: _ :: _, h2 => exact h2.2.elim
    obtain ⟨d', s1, s2, L1, F1, hinv1, hst, hszst, hpre2, hroot2⟩ :=
      stmts_at pre0 fuel _ post0 (initState inputs) send [] [] hrun' (init_inv inputs) hsz'
    obtain ⟨d'', sa, sb, Fa, hinva, hce, hsze, hca, hcb, htb⟩ :=
      define_func_inner name va ps _ s1 s2 L1 F1 hst hinv1 hszst
    have hlen2 : s2.consts.size ≤ 65536 := by
      have := hpre2.length_le
      simp only [Array.length_toList] at this
      rw [hcs] at hconsts
      simp only [Array.length_toList] at hconsts
      omega
    obtain ⟨k, code, p, ⟨_, ⟨nl, hk⟩, ⟨insts, hd1, hm1⟩, b1⟩, ⟨insts2, hd2, hm2⟩, b2⟩ :=
      func_return_tail_call va ps pre post hT hpre sa sb L1 Fa hce hinva hsze (by rw [← hcb]; exact hlen2)
        (by rw [← htb]; rw [hmg] at hglobals; exact Nat.le_trans hroot2 hglobals)
    rw [hd1] at hd2
    injection hd2 with hd2
    subst hd2
    refine ⟨k, code, nl, p, ?_, ⟨insts, hd1, hm1, hm2⟩, reusesFrameAt_ret b1 b2⟩
    rw [hcs]
    rw [← hcb] at hk
    exact prefix_get hpre2 hk

/-! ## (3) negative contexts -/

/-- in `B` every CALL has a successor, and it is neither RETURN nor POP -/
def CallsNotTail (B : List Instr) : Prop :=
  ∀ A x C, B = A ++ x :: C → x.op = opCall → ∃ y C', C = y :: C' ∧ y.op ≠ opReturn ∧ y.op ≠ opPop

/-- **`l op= r` (`a := f(x)`, `a = f(x)`, `a += f(x)`, `m.k = f(x)`): no call of its code is in tail layout.**
The code `B` is not empty, contains neither POP nor RETURN and does not end with a CALL — the instruction
after `f(x)`'s CALL is the store (`DEFL` / `SETL` / `SETG` / `SETF` / `SETS*`) or a selector / operator. -/
theorem assign_call_not_tail {d : Nat} (tok : String) (l r : Expr) (s s' : CState) (L : List Instr) (F : List Nat)
    (h : compileStmt (d + 2) (.assign tok [l] [r]) s = .ok ((), s')) (hinv : Inv s L F)
    (hsz : szS (d + 2) (.assign tok [l] [r]) < 2 ^ 30) :
    ∃ B F', Inv s' (L ++ B) F' ∧ B ≠ [] ∧ (∀ i ∈ B, i.op ≠ opPop ∧ i.op ≠ opReturn) ∧ CallsNotTail B := by
  rw [compileStmt] at h
  have hszd : szS (d + 2) (.assign tok [l] [r]) = szAssign (d + 1) [l] [r] := by rw [szS]
  rw [hszd] at hsz
  obtain ⟨B, F', bs, cs, ho, hn, hne⟩ := assign_noPR l r tok s s' L F h hinv hsz
  refine ⟨B, F', ho.inv, hne, hn, ?_⟩
  intro A x C hB hxo
  cases C with
  | nil =>
    exfalso
    have hlay := ho.blk.lay
    rw [hB] at hlay
    have hp := (layout_split hlay).2.1
    refine ho.blk.nce x (by rw [hB]; simp) ?_ hxo
    rw [hp, hB]
    simp only [totalSize_append, totalSize_cons, totalSize_nil]
    omega
  | cons y C' =>
    have hy := hn y (by rw [hB]; simp)
    exact ⟨y, C', rfl, hy.2, hy.1⟩

/-- the statements `more` for which `e; more` is proved not to put `e`'s call in tail layout -/
def notRetFirst : Stmt → Bool
  | .expr _ => true
  | .assign _ [_] [_] => true
  | .incdec _ _ => true
  | .ret (some _) => true
  | _ => false

/-- first instruction of a non-empty block laid out at `lo` -/
theorem head_of_layout {lo : Nat} {B : List Instr} (hl : Layout lo B) (hne : B ≠ []) :
    ∃ y C, B = y :: C ∧ y.pos = lo := by
  cases B with
  | nil => exact absurd rfl hne
  | cons y C => exact ⟨y, C, rfl, hl.1⟩

/-- the code of `more` (`notRetFirst`) is not empty and starts with an instruction that is not RETURN -/
theorem more_first_not_ret {d : Nat} (more : Stmt) (hm : notRetFirst more = true) (s s' : CState) (L : List Instr)
    (F : List Nat) (h : compileStmt (d + 2) more s = .ok ((), s')) (hinv : Inv s L F)
    (hsz : szS (d + 2) more < 2 ^ 30) :
    ∃ y C F', Inv s' (L ++ y :: C) F' ∧ y.pos = totalSize L ∧ y.op ≠ opReturn := by
  cases more with
  | expr e =>
    rw [compileStmt] at h
    have hszd : szS (d + 2) (.expr e) = szE (d + 1) e + 1 := by rw [szS]
    rw [hszd] at hsz
    obtain ⟨_, s1, h1, h⟩ := bind_ok h
    have e3 := demit_ok h; simp only at e3; subst e3
    obtain ⟨B₁, F₁, o1, hb1⟩ := (all_spec (d + 1)).e e s s1 L F h1 hinv (by omega)
    obtain ⟨H, h0, h1', hl, hhi, _, hn⟩ := Tengo.Props.C02Compile.eblk_meaning (hb1 0)
    have hne : B₁ ≠ [] := by
      intro hnil; subst hnil
      simp only [totalSize_nil, Nat.add_zero] at h1'
      omega
    obtain ⟨y, C, hB, hyp⟩ := head_of_layout hl hne
    subst hB
    have hinv' := o1.inv.emit (op := opPop) (args := []) ⟨[], rfl, rfl⟩ (opReq_other rfl)
    refine ⟨y, C ++ [⟨totalSize (L ++ y :: C), opPop, []⟩], F₁, ?_, hyp, (hn y (by simp)).2⟩
    simpa using hinv'
  | assign tok lhs rhs =>
    match lhs, rhs, hm with
    | [l], [r], _ =>
      rw [compileStmt] at h
      have hszd : szS (d + 2) (.assign tok [l] [r]) = szAssign (d + 1) [l] [r] := by rw [szS]
      rw [hszd] at hsz
      obtain ⟨B, F', bs, cs, ho, hn, hne⟩ := assign_noPR l r tok s s' L F h hinv hsz
      obtain ⟨y, C, hB, hyp⟩ := head_of_layout ho.blk.lay hne
      exact ⟨y, C, F', by rw [← hB]; exact ho.inv, hyp, (hn y (by rw [hB]; simp)).2⟩
  | incdec tok e =>
    rw [compileStmt] at h
    have hszd : szS (d + 2) (.incdec tok e) = szAssign (d + 1) [e] [.int 1] := by rw [szS]
    rw [hszd] at hsz
    obtain ⟨B, F', bs, cs, ho, hn, hne⟩ := assign_noPR e (.int 1) _ s s' L F h hinv hsz
    obtain ⟨y, C, hB, hyp⟩ := head_of_layout ho.blk.lay hne
    exact ⟨y, C, F', by rw [← hB]; exact ho.inv, hyp, (hn y (by rw [hB]; simp)).2⟩
  | ret oe =>
    cases oe with
    | none => cases hm
    | some e =>
      unfold compileStmt at h
      obtain ⟨st, s0, h0, h⟩ := bind_ok h
      have e0 := get_ok h0
      have est : st = s := (Prod.mk.inj e0).1
      have es0 : s0 = s := (Prod.mk.inj e0).2
      rw [est, es0] at h
      clear e0 est es0 h0
      obtain ⟨hg, h⟩ := guard_ok h
      have hg' : globalCtx s.tables = false := by simpa using hg
      have hszd : szS (d + 2) (.ret (some e)) = szE (d + 1) e + 2 := by simp only [szS]
      rw [hszd] at hsz
      simp only at h
      obtain ⟨_, s1, h1, h⟩ := bind_ok h
      have e3 := demit_ok h; simp only at e3; subst e3
      obtain ⟨B₁, F₁, o1, hb1⟩ := (all_spec (d + 1)).e e s s1 L F h1 hinv (by omega)
      obtain ⟨H, h0, h1', hl, hhi, _, hn⟩ := Tengo.Props.C02Compile.eblk_meaning (hb1 0)
      have hne : B₁ ≠ [] := by
        intro hnil; subst hnil
        simp only [totalSize_nil, Nat.add_zero] at h1'
        omega
      obtain ⟨y, C, hB, hyp⟩ := head_of_layout hl hne
      subst hB
      have hg1 : globalCtx s1.tables = false := by rw [← o1.step.tabs.globalCtx]; exact hg'
      have hinv' := o1.inv.emit (op := opReturn) (args := [1]) ⟨[1], rfl, rfl⟩ (opReq_ret hg1 (by omega))
      refine ⟨y, C ++ [⟨totalSize (L ++ y :: C), opReturn, [1]⟩], F₁, ?_, hyp, (hn y (by simp)).2⟩
      simpa using hinv'
  | ifs _ _ _ _ => cases hm
  | fors _ _ _ _ => cases hm
  | forin _ _ _ _ => cases hm
  | block _ => cases hm
  | branch _ => cases hm
  | «export» _ => cases hm
  | empty => cases hm
  | bad => cases hm

/-- **`e; more` (`f(x); g()`, `f(x); a = 1`, `f(x); return y`): the call of `e` is not in tail layout.** The code
is `… CALL n s; POP; y …` where `y`, the first instruction of `more`, is not RETURN — so the CALL is followed by
POP but not by `POP; RETURN` (`notRetFirst more`: expression statement, assignment, `x++`, `return e2`). -/
theorem stmt_call_then_more {d : Nat} {e : Expr} {ell : Bool} {f : Expr} {args : List Expr} (ht : TailE e ell f args)
    (more : Stmt) (hm : notRetFirst more = true) (rest : List Stmt) (s s' : CState) (L : List Instr) (F : List Nat)
    (h : compileStmts (d + 4) (.expr e :: more :: rest) s = .ok ((), s')) (hinv : Inv s L F)
    (hsz : szSs (d + 4) (.expr e :: more :: rest) < 2 ^ 30) :
    ∃ B0 y C s2 F', Inv s2 (L ++ B0 ++ [Tengo.Props.C16Compile.callI (totalSize L + totalSize B0) ell args,
        ⟨totalSize L + totalSize B0 + 3, opPop, []⟩] ++ y :: C) F' ∧
      y.pos = totalSize L + totalSize B0 + 4 ∧ y.op ≠ opReturn ∧
      compileStmts (d + 2) rest s2 = .ok ((), s') := by
  rw [compileStmts] at h
  have hszd : szSs (d + 4) (.expr e :: more :: rest) = szS (d + 3) (.expr e) + szSs (d + 3) (more :: rest) := by
    rw [szSs]
  rw [hszd] at hsz
  obtain ⟨_, s1, h1, h⟩ := bind_ok h
  rw [compileStmts] at h
  have hszd2 : szSs (d + 3) (more :: rest) = szS (d + 2) more + szSs (d + 2) rest := by rw [szSs]
  rw [hszd2] at hsz
  obtain ⟨_, s2, h2, h⟩ := bind_ok h
  obtain ⟨B0, F₁, hinv1, _⟩ := exprstmt_tail (d := d + 2) ht s s1 L F h1 hinv
    (by show szS (d + 3) (.expr e) < 2 ^ 30; omega)
  obtain ⟨y, C, F₂, hinv2, hyp, hyo⟩ := more_first_not_ret more hm s1 s2 _ F₁ h2 hinv1 (by omega)
  refine ⟨B0, y, C, s2, F₂, hinv2, ?_, hyo, h⟩
  rw [hyp]
  simp only [totalSize_append, totalSize_cons, totalSize_nil, call_sz]
  have : (Instr.mk (totalSize L + totalSize B0 + 3) opPop []).size = 1 := rfl
  omega

/-! ## (3') converse for a family of non-tail expression forms -/

/-- expression forms whose code ends with an operator instruction: binary operators other than `&&` / `||`,
index and selector expressions -/
abbrev opLast := Tengo.Proofs.C16Fn.opLast
/-- the instruction is neither CALL nor POP nor RETURN -/
abbrev OpI := Tengo.Proofs.C16Fn.OpI

example : opLast (.bin "Add" (.call false (.ident "f") [.ident "x"]) (.int 1)) = true ∧
    opLast (.idx (.call false (.ident "f") [.ident "x"]) (.int 0)) = true ∧
    opLast (.bin "LOr" (.ident "a") (.call false (.ident "f") [.ident "x"])) = false ∧
    opLast (.call false (.ident "f") [.ident "x"]) = false := by decide

/-- **`return f(x) + 1`, `return 1 + f(x)`, `return f(x) == y`, `return f(x)[i]`, `return f(x).k` are NOT tail calls:**
the code of the statement is `B ++ [y, RETURN 1]` where `B` contains neither POP nor RETURN and `y` (BINARYOP /
EQUAL / NOTEQUAL / INDEX) is neither CALL nor POP nor RETURN. So the RETURN is preceded by `y`, not by a CALL, and
every CALL of `B` is followed by an instruction of `B ++ [y]`; with `opt_keeps_next` this stays so in the function
constant. -/
theorem return_operator_not_tail {d : Nat} (e : Expr) (he : opLast e = true) (s s' : CState) (L : List Instr)
    (F : List Nat) (h : compileStmt (d + 2) (.ret (some e)) s = .ok ((), s')) (hinv : Inv s L F)
    (hsz : szS (d + 2) (.ret (some e)) < 2 ^ 30) :
    ∃ B y F', Inv s' (L ++ B ++ [y, ⟨y.pos + y.size, opReturn, [1]⟩]) F' ∧
      (∀ i ∈ B, i.op ≠ opPop ∧ i.op ≠ opReturn) ∧ OpI y :=
  ret_oplast_not_tail e he s s' L F h hinv hsz

/-- … and as a statement: `f(x) + 1;` is `B ++ [y, POP]`. -/
theorem exprstmt_operator_not_tail {d : Nat} (e : Expr) (he : opLast e = true) (s s' : CState) (L : List Instr)
    (F : List Nat) (h : compileStmt (d + 2) (.expr e) s = .ok ((), s')) (hinv : Inv s L F)
    (hsz : szS (d + 2) (.expr e) < 2 ^ 30) :
    ∃ B y F', Inv s' (L ++ B ++ [y, ⟨y.pos + y.size, opPop, []⟩]) F' ∧
      (∀ i ∈ B, i.op ≠ opPop ∧ i.op ≠ opReturn) ∧ OpI y :=
  exprstmt_oplast_not_tail e he s s' L F h hinv hsz

/-! ## Non-vacuity -/

/-- the state after `f` has been declared (what `f := func…` does before compiling the literal) -/
def demoState : CState := (defS "f" (initState [])).2

theorem demoState_inv : Inv demoState [] [] := ((init_inv []).define "f").1

/-- `func(n, acc) { if n == 0 { return acc }; acc += n; return n == 0 || f(n - 1, acc) }` -/
def demoLit : Expr :=
  .func false ["n", "acc"]
    ([.ifs none (.bin "Equal" (.ident "n") (.int 0)) [.ret (some (.ident "acc"))] none,
      .assign "AddAssign" [.ident "acc"] [.ident "n"]] ++
     [.ret (some (.bin "LOr" (.bin "Equal" (.ident "n") (.int 0))
        (.call false (.ident "f") [.bin "Sub" (.ident "n") (.int 1), .ident "acc"])))])

/-- `func(n) { if n == 0 { return }; f(n - 1) }` -/
def demoLitStmt : Expr :=
  .func false ["n"]
    ([.ifs none (.bin "Equal" (.ident "n") (.int 0)) [.ret none] none] ++
     [.expr (.call false (.ident "f") [.bin "Sub" (.ident "n") (.int 1)])])

/-- `func(n) { x := n; if n > 0 { x--; f(x) } }` (the call statement is last inside an `if` that ends the body) -/
def demoLitIf : Expr :=
  .func false ["n"]
    ([.assign "Define" [.ident "x"] [.ident "n"]] ++
     [.ifs none (.bin "Greater" (.ident "n") (.int 0))
        ([.incdec "Dec" (.ident "x")] ++ [.expr (.call false (.ident "f") [.ident "x"])]) none])

/-- the hypotheses of (1')/(2') hold for `demoLitIf`, and (1') applies to it -/
example : (match compileExpr 40 demoLitIf demoState with
    | .ok (_, s') => decide (s'.consts.size ≤ 65536) && decide (rootMax s'.tables ≤ 65536)
    | .error _ => false) = true ∧ szE 40 demoLitIf < 2 ^ 30 := by
  constructor <;> decide +kernel

example (s' : CState) (h : compileExpr 40 demoLitIf demoState = .ok ((), s'))
    (hc : s'.consts.size ≤ 65536) (hg : rootMax s'.tables ≤ 65536) :
    ∃ k code p, HasCallAt s' demoState.consts.size k 1 false code p 1 0 ∧
      (∃ insts, decode code = some insts ∧ (⟨p + 3, opPop, []⟩ : Instr) ∈ insts ∧
        (⟨p + 4, opReturn, [0]⟩ : Instr) ∈ insts) ∧
      (code.getD (p + 3) 0).toNat = opPop ∧ (code.getD (p + 4) 0).toNat = opReturn :=
  func_stmt_tail_call (d := 39) false ["n"] _ (.ifThen none _ _ [] (by simp) (Or.inl rfl) (by decide) (.expr (.call _ _ _))) (by decide)
    demoState s' [] [] h demoState_inv (by decide +kernel) hc hg

/-- `func(n, acc) { if n > 0 { return f(n - 1, acc + n) }; return acc }`: the tail call sits in an `if` that is
followed by another statement -/
def demoLitMid : Expr :=
  .func false ["n", "acc"]
    ([] ++ (.ifs none (.bin "Greater" (.ident "n") (.int 0))
        ([] ++ [.ret (some (.call false (.ident "f") [.bin "Sub" (.ident "n") (.int 1),
          .bin "Add" (.ident "acc") (.ident "n")]))]) none) :: [.ret (some (.ident "acc"))])

example : (match compileExpr 40 demoLitMid demoState with
    | .ok (_, s') => decide (s'.consts.size ≤ 65536) && decide (rootMax s'.tables ≤ 65536)
    | .error _ => false) = true ∧ szE 40 demoLitMid < 2 ^ 30 := by
  constructor <;> decide +kernel

example (s' : CState) (h : compileExpr 40 demoLitMid demoState = .ok ((), s'))
    (hc : s'.consts.size ≤ 65536) (hg : rootMax s'.tables ≤ 65536) :
    ∃ k code p, HasCallAt s' demoState.consts.size k 2 false code p 2 0 ∧
      (∃ insts, decode code = some insts ∧ (⟨p + 3, opReturn, [1]⟩ : Instr) ∈ insts) ∧
      (code.getD (p + 3) 0).toNat = opReturn :=
  func_return_tail_call (d := 39) false ["n", "acc"] [] [.ret (some (.ident "acc"))]
    (.ifThen none _ [] [] (by simp) (Or.inl rfl) (by simp) (.ret (.call _ _ _))) (by decide)
    demoState s' [] [] h demoState_inv (by decide +kernel) hc hg

/-- the hypotheses of (1)/(2) hold for `demoLit` in `demoState`: it compiles, within the bounds -/
example : (match compileExpr 40 demoLit demoState with
    | .ok (_, s') => decide (s'.consts.size ≤ 65536) && decide (rootMax s'.tables ≤ 65536)
    | .error _ => false) = true ∧ szE 40 demoLit < 2 ^ 30 := by
  constructor <;> decide +kernel

/-- … and those of (1')/(2') for `demoLitStmt` -/
example : (match compileExpr 40 demoLitStmt demoState with
    | .ok (_, s') => decide (s'.consts.size ≤ 65536) && decide (rootMax s'.tables ≤ 65536)
    | .error _ => false) = true ∧ szE 40 demoLitStmt < 2 ^ 30 := by
  constructor <;> decide +kernel

/-- (1) instantiated: whatever state `demoLit` compiles to, its constant has `CALL 2 0; RETURN 1` -/
example (s' : CState) (h : compileExpr 40 demoLit demoState = .ok ((), s'))
    (hc : s'.consts.size ≤ 65536) (hg : rootMax s'.tables ≤ 65536) :
    ∃ k code p, HasCallAt s' demoState.consts.size k 2 false code p 2 0 ∧
      (∃ insts, decode code = some insts ∧ (⟨p + 3, opReturn, [1]⟩ : Instr) ∈ insts) ∧
      (code.getD (p + 3) 0).toNat = opReturn :=
  func_return_tail_call (d := 39) false ["n", "acc"] _ [] (.ret (.andor _ (by decide) (.call _ _ _))) (by decide)
    demoState s' [] [] h demoState_inv (by decide +kernel) hc hg

/-- a whole file: `sum := func(n, acc) { if n == 0 { return acc }; return sum(n - 1, acc + n) }; out := sum(10, 0)` -/
def demoFile : List Stmt :=
  [] ++ .assign "Define" [.ident "sum"] [.func false ["n", "acc"]
      ([.ifs none (.bin "Equal" (.ident "n") (.int 0)) [.ret (some (.ident "acc"))] none] ++
       .ret (some (.call false (.ident "sum") [.bin "Sub" (.ident "n") (.int 1), .bin "Add" (.ident "acc") (.ident "n")]))
        :: [])] ::
    [.assign "Define" [.ident "out"] [.call false (.ident "sum") [.int 10, .int 0]]]

/-- the hypotheses of `file_self_tail_call_reuses_frame` hold for `demoFile` … -/
example : (match compileFile demoFile [] with
    | .ok bc => decide (bc.consts.length ≤ 65536) && decide (bc.maxGlobals ≤ 65536)
    | .error _ => false) = true ∧ Tengo.Model.Compiler.codeBound demoFile ≤ 2 ^ 30 := by
  constructor <;> decide +kernel

/-- … and its conclusion, from the theorem -/
example : ∀ bc, compileFile demoFile [] = .ok bc → ∃ (k : Nat) (code : Bytes) (nl p : Nat),
    bc.consts[k]? = some (Const.fn code nl 2 false) ∧
    (∃ insts, decode code = some insts ∧ (⟨p, opCall, [2, 0]⟩ : Instr) ∈ insts ∧
      (⟨p + 3, opReturn, [1]⟩ : Instr) ∈ insts) ∧ ReusesFrameAt code p := by
  intro bc h
  have hb : (match compileFile demoFile [] with
      | .ok bc => decide (bc.consts.length ≤ 65536) && decide (bc.maxGlobals ≤ 65536)
      | .error _ => false) = true := by decide +kernel
  rw [h] at hb
  simp only [Bool.and_eq_true, decide_eq_true_eq] at hb
  exact file_self_tail_call_reuses_frame [] _ "sum" false ["n", "acc"] _ [] (.ret (.call _ _ _)) (by decide) [] bc h
    (by decide +kernel) hb.1 hb.2

/-- the hypotheses of `return_operator_not_tail` hold for `return f(1) + 1` inside a function scope, and those of
`exprstmt_operator_not_tail` for `f(1)[0];` -/
example : (match compileStmt 10 (.ret (some (.bin "Add" (.call false (.ident "f") [.int 1]) (.int 1)))) (enterS demoState) with
    | .ok _ => true
    | .error _ => false) = true ∧
    (match compileStmt 10 (.expr (.idx (.call false (.ident "f") [.int 1]) (.int 0))) demoState with
    | .ok _ => true
    | .error _ => false) = true := by
  constructor <;> decide +kernel

example : Inv (enterS demoState) [] [] := demoState_inv.enter

/-- the hypotheses of `assign_call_not_tail` hold for `a := f(1)` … -/
example : (match compileStmt 10 (.assign "Define" [.ident "a"] [.call false (.ident "f") [.int 1]]) demoState with
    | .ok _ => true
    | .error _ => false) = true ∧
    szS 10 (.assign "Define" [.ident "a"] [.call false (.ident "f") [.int 1]]) < 2 ^ 30 := by
  constructor <;> decide +kernel

/-- … and those of `stmt_call_then_more` for `f(1); f(2)` and `f(1); a := 2` -/
example : (match compileStmts 10 [.expr (.call false (.ident "f") [.int 1]), .expr (.call false (.ident "f") [.int 2])]
      demoState with
    | .ok _ => true
    | .error _ => false) = true ∧
    (match compileStmts 10 [.expr (.call false (.ident "f") [.int 1]), .assign "Define" [.ident "a"] [.int 2]]
      demoState with
    | .ok _ => true
    | .error _ => false) = true := by
  constructor <;> decide +kernel

end Tengo.Props.C16CompileFn

import Tengo.Props.C10
/-!
# C10 — the order is transitive on each ordered type

`trichotomy` and `le_is_lt_or_eq` (Props/C10) say how `<`, `==`, `>` relate on ONE pair. "Ordering obeys its
laws" also needs the law that relates three operands: on int, char, string, time and non-NaN float operands `<`
and `<=` are transitive (so sorting a list of such values by `<` is well defined). The theorem is about the same
`binaryCmp` the `pairs`/`cmp` streams of c10 compare with the per-type `BinaryOp` arms of objects.go.

Not claimed: transitivity through MIXED int/float chains. `int(2^53) == float(2^53)` and
`float(2^53) == int(2^53 + 1)` hold (the int is taken as a float) while the two ints differ, so `==` is not
transitive across the two types in Go either; the witness is the theorem `mixed_eq_not_transitive` below.
-/

namespace Tengo.Props.C10Trans
open Tengo.Model.Val
open Tengo.Model.Val.F64 (cmpInt)
open Tengo.Props.C10

/-- the three-way comparison of two orderings chained: lt·lt, lt·eq, eq·lt give lt; eq·eq gives eq -/
def ChainLe (o₁ o₂ o₃ : Ordering) : Prop :=
  (o₁ ≠ .gt → o₂ ≠ .gt → o₃ ≠ .gt) ∧ (o₁ ≠ .gt → o₂ ≠ .gt → (o₁ = .lt ∨ o₂ = .lt) → o₃ = .lt)

theorem cmpInt_chain (x y z : Int) : ChainLe (cmpInt x y) (cmpInt y z) (cmpInt x z) := by
  unfold ChainLe cmpInt
  refine ⟨?_, ?_⟩ <;> (repeat' split) <;> simp <;> omega

theorem cmpBytes_chain : ∀ s t u : Bytes, ChainLe (cmpBytes s t) (cmpBytes t u) (cmpBytes s u)
  | [], [], [] => by simp [ChainLe, cmpBytes]
  | [], [], _ :: _ => by simp [ChainLe, cmpBytes]
  | [], _ :: _, [] => by simp [ChainLe, cmpBytes]
  | [], _ :: _, _ :: _ => by simp [ChainLe, cmpBytes]
  | _ :: _, [], _ => by simp [ChainLe, cmpBytes]
  | a :: as, b :: bs, [] => by
      simp only [ChainLe, cmpBytes]
      refine ⟨?_, ?_⟩ <;> intro _ h <;> exact absurd rfl h
  | a :: as, b :: bs, c :: cs => by
      have ih := cmpBytes_chain as bs cs
      have hi := cmpInt_chain a.toNat b.toNat c.toNat
      have e1 := cmpInt_eq_iff (a.toNat : Int) b.toNat
      have e2 := cmpInt_eq_iff (b.toNat : Int) c.toNat
      have e3 := cmpInt_eq_iff (a.toNat : Int) c.toNat
      simp only [cmpBytes]
      unfold ChainLe at *
      cases h1 : cmpInt (a.toNat : Int) b.toNat <;> cases h2 : cmpInt (b.toNat : Int) c.toNat <;>
        cases h3 : cmpInt (a.toNat : Int) c.toNat <;> simp_all <;> omega

/-- the operands of one ordered type: the pairs of `SameOrdered`, three at a time -/
def SameOrdered3 : Value → Value → Value → Prop
  | .int _, .int _, .int _ => True
  | .char _, .char _, .char _ => True
  | .str _, .str _, .str _ => True
  | .time _, .time _, .time _ => True
  | .float f, .float g, .float h => F64.isNaN f = false ∧ F64.isNaN g = false ∧ F64.isNaN h = false
  | _, _, _ => False

theorem f64_chain (f g k : BitVec 64) (h1 : F64.isNaN f = false) (h2 : F64.isNaN g = false)
    (h3 : F64.isNaN k = false) :
    ∃ o₁ o₂ o₃, ordOf (.float f) (.float g) = .ord o₁ ∧ ordOf (.float g) (.float k) = .ord o₂ ∧
      ordOf (.float f) (.float k) = .ord o₃ ∧ ChainLe o₁ o₂ o₃ := by
  refine ⟨cmpInt (F64.key f) (F64.key g), cmpInt (F64.key g) (F64.key k), cmpInt (F64.key f) (F64.key k),
    ?_, ?_, ?_, cmpInt_chain _ _ _⟩ <;> simp [ordOf, F64.cmp, Ord3.ofFloat, h1, h2, h3]

theorem ordOf_chain (a b c : Value) (h : SameOrdered3 a b c) :
    ∃ o₁ o₂ o₃, ordOf a b = .ord o₁ ∧ ordOf b c = .ord o₂ ∧ ordOf a c = .ord o₃ ∧ ChainLe o₁ o₂ o₃ := by
  cases a <;> cases b <;> cases c <;> simp only [SameOrdered3] at h <;>
    first
      | exact h.elim
      | exact ⟨_, _, _, rfl, rfl, rfl, cmpInt_chain _ _ _⟩
      | exact ⟨_, _, _, rfl, rfl, rfl, cmpBytes_chain _ _ _⟩
      | exact f64_chain _ _ _ h.1 h.2.1 h.2.2

/-- `<` is transitive on three operands of one ordered type. -/
theorem lt_trans (a b c : Value) (h : SameOrdered3 a b c)
    (h1 : binaryCmp .lt a b = some true) (h2 : binaryCmp .lt b c = some true) :
    binaryCmp .lt a c = some true := by
  obtain ⟨o₁, o₂, o₃, e1, e2, e3, _, hc⟩ := ordOf_chain a b c h
  unfold binaryCmp at *
  rw [e1] at h1; rw [e2] at h2; rw [e3]
  cases o₁ <;> cases o₂ <;> simp [Ord3.result, CmpOp.holds] at h1 h2
  simp [Ord3.result, hc (by simp) (by simp) (Or.inl rfl), CmpOp.holds]

/-- `<=` is transitive, and a strict step anywhere in the chain makes the conclusion strict. -/
theorem le_trans (a b c : Value) (h : SameOrdered3 a b c)
    (h1 : binaryCmp .le a b = some true) (h2 : binaryCmp .le b c = some true) :
    binaryCmp .le a c = some true ∧
    ((binaryCmp .lt a b = some true ∨ binaryCmp .lt b c = some true) → binaryCmp .lt a c = some true) := by
  obtain ⟨o₁, o₂, o₃, e1, e2, e3, hle, hlt⟩ := ordOf_chain a b c h
  unfold binaryCmp at *
  rw [e1] at h1 ⊢; rw [e2] at h2 ⊢; rw [e3]
  have g1 : o₁ ≠ .gt := by cases o₁ <;> simp [Ord3.result, CmpOp.holds] at h1 ⊢
  have g2 : o₂ ≠ .gt := by cases o₂ <;> simp [Ord3.result, CmpOp.holds] at h2 ⊢
  refine ⟨?_, ?_⟩
  · have := hle g1 g2
    cases o₃ <;> simp [Ord3.result, CmpOp.holds] at this ⊢
  · intro hs
    have : o₁ = .lt ∨ o₂ = .lt := by
      rcases hs with hs | hs
      · left; cases o₁ <;> simp [Ord3.result, CmpOp.holds] at hs ⊢
      · right; cases o₂ <;> simp [Ord3.result, CmpOp.holds] at hs ⊢
    simp [Ord3.result, hlt g1 g2 this, CmpOp.holds]

/-- `>` and `>=` are transitive too: by the duality theorems they are `<` and `<=` read backwards. -/
theorem gt_trans (a b c : Value) (h : SameOrdered3 c b a)
    (h1 : binaryCmp .gt a b = some true) (h2 : binaryCmp .gt b c = some true) :
    binaryCmp .gt a c = some true := by
  rw [← lt_gt_dual] at *
  exact lt_trans c b a h h2 h1

-- the premises are satisfiable, on strings with a common prefix and on floats of both signs
example : SameOrdered3 (.str [1, 2]) (.str [1, 2, 0]) (.str [1, 3]) := trivial
example : binaryCmp .lt (.str [1, 2]) (.str [1, 2, 0]) = some true ∧
    binaryCmp .lt (.str [1, 2, 0]) (.str [1, 3]) = some true := by decide
example : SameOrdered3 (.float (F64.ofInt (-2))) (.float (F64.ofInt 0)) (.float (F64.ofInt 5)) := by
  refine ⟨?_, ?_, ?_⟩ <;> decide
example : binaryCmp .lt (.float (F64.ofInt (-2))) (.float (F64.ofInt 0)) = some true := by decide

/-! ### chains that mix int and char

An int and a char compare by code point (`int_char_order`), so any chain over ints and chars is ordered by one key. -/

/-- the operand is an int or a char -/
def IntLike : Value → Prop
  | .int _ => True
  | .char _ => True
  | _ => False

/-- the key an int or char is compared by: its value, the char's int32 code point as an int -/
def intKey : Value → Int
  | .int x => x.toInt
  | .char c => c.toInt
  | _ => 0

theorem ordOf_intLike (a b : Value) (ha : IntLike a) (hb : IntLike b) :
    ordOf a b = .ord (cmpInt (intKey a) (intKey b)) := by
  cases a <;> cases b <;> simp only [IntLike] at ha hb <;> rfl

/-- `<` and `<=` are transitive over any mix of int and char operands, and a strict step makes the result strict. -/
theorem int_char_trans (a b c : Value) (ha : IntLike a) (hb : IntLike b) (hc : IntLike c)
    (h1 : binaryCmp .le a b = some true) (h2 : binaryCmp .le b c = some true) :
    binaryCmp .le a c = some true ∧
    ((binaryCmp .lt a b = some true ∨ binaryCmp .lt b c = some true) → binaryCmp .lt a c = some true) := by
  have hch := cmpInt_chain (intKey a) (intKey b) (intKey c)
  unfold binaryCmp at *
  rw [ordOf_intLike a b ha hb] at h1 ⊢; rw [ordOf_intLike b c hb hc] at h2 ⊢; rw [ordOf_intLike a c ha hc]
  generalize cmpInt (intKey a) (intKey b) = o₁ at *
  generalize cmpInt (intKey b) (intKey c) = o₂ at *
  generalize cmpInt (intKey a) (intKey c) = o₃ at *
  obtain ⟨hle, hlt⟩ := hch
  cases o₁ <;> cases o₂ <;> simp [Ord3.result, CmpOp.holds] at h1 h2 hle hlt ⊢ <;>
    cases o₃ <;> simp_all

example : IntLike (.int 97#64) ∧ IntLike (.char 98#32) ∧ IntLike (.int 99#64) := ⟨trivial, trivial, trivial⟩
example : binaryCmp .lt (.int 97#64) (.char 98#32) = some true ∧ binaryCmp .lt (.char 98#32) (.int 99#64) = some true := by
  decide

/-- Across int and float `==` is NOT transitive (in Go as in the model): 2^53 + 1 as a float is 2^53. -/
theorem mixed_eq_not_transitive :
    equals (.int 9007199254740993#64) (.float (F64.ofInt 9007199254740992)) = true ∧
    equals (.float (F64.ofInt 9007199254740992)) (.int 9007199254740992#64) = true ∧
    equals (.int 9007199254740993#64) (.int 9007199254740992#64) = false := by
  refine ⟨?_, ?_, ?_⟩ <;> decide

end Tengo.Props.C10Trans

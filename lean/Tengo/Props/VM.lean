import Tengo.Proofs.VMRun
import Tengo.Proofs.VMFrames
import Tengo.Proofs.VMAlloc
import Tengo.Proofs.VMTail
import Tengo.Gen.Limits
import Tengo.Gen.Opcodes
/-!
# Theorems about the whole-VM model (`Tengo.Model.VM`)

`Tengo.Model.VM.run` is a model of `VM.run` of vm.go with all 42 opcodes, frames, captured cells,
iterators, the allocation counter and self tail calls; the harness stream `vm` compares it with the
real VM in lock step (function, ip, sp, bp, frame index and allocation counter at every dispatched
instruction, outcome, error text, all globals) on every generated program of C01, C06 and C16.

The statements below hold for EVERY code object, heap, fuel and budget. Used by C06 (allocation
budget, frame limit) and C16 (self tail calls).
-/
namespace Tengo.Props.VM
open Tengo.Model.VM Tengo.Model.Spec Tengo.Model.Opcodes

/-! ## ties to the source -/

theorem limits_match :
    Tengo.Gen.Limits.maxFrames = maxFrames ∧ Tengo.Gen.Limits.stackSize = stackSize := by decide

theorem opcode_table_matches : Tengo.Gen.Opcodes.table = Tengo.Model.Opcodes.table := by decide

/-! ## C06: allocation budget -/

/-- With `maxAllocs = N ≥ 0`, `VM.Run` starts the counter at `N + 1`; any run performs at most `N`
tracked allocations. -/
theorem alloc_budget (code : Code) (keep fuel : Nat) (N : Nat) (cfg : Cfg) :
    (run code keep fuel (N + 1) cfg {}).2.counted ≤ N :=
  run_budget code keep fuel N cfg

/-- The allocation-limit error means the budget was used up exactly: `N` allocations succeeded and
the next one was refused. -/
theorem alloc_limit_exact (code : Code) (keep fuel : Nat) (N : Nat) (cfg at_ : Cfg)
    (h : (run code keep fuel (N + 1) cfg {}).1 = .limit at_) :
    (run code keep fuel (N + 1) cfg {}).2.counted = N := by
  have := run_limit_exact code keep fuel (N + 1) cfg {} at_ (by omega) h
  simp at this
  omega

/-- A negative budget is no budget. -/
theorem alloc_unlimited (code : Code) (keep fuel : Nat) (M : Int) (hM : M < 0) (cfg at_ : Cfg) :
    (run code keep fuel (M + 1) cfg {}).1 ≠ .limit at_ :=
  run_unlimited code keep fuel (M + 1) cfg {} at_ (by omega)

/-- Raising the budget (or removing it) never changes how a run ends, unless it ended in the limit
error: same final registers, frames, globals and heap, or the same error at the same configuration. -/
theorem alloc_monotone (code : Code) (keep fuel : Nat) (N : Nat) (M : Int) (hM : (N : Int) ≤ M ∨ M < 0)
    (cfg : Cfg) (o : Tengo.Model.VM.Outcome)
    (h : (run code keep fuel (N + 1) cfg {}).1 = o) (hn : ∀ c, o ≠ .limit c) :
    (run code keep fuel (M + 1) cfg {}).1 = o :=
  run_mono code keep fuel (N + 1) (M + 1) cfg {} {} o (by omega)
    (by rcases hM with h | h
        · left; omega
        · right; omega) h hn

/-- … nor the number of dispatched instructions and of tracked allocations. -/
theorem alloc_monotone_counts (code : Code) (keep fuel : Nat) (N : Nat) (M : Int) (hM : (N : Int) ≤ M ∨ M < 0)
    (cfg : Cfg) (hn : ∀ c, (run code keep fuel (N + 1) cfg {}).1 ≠ .limit c) :
    (run code keep fuel (M + 1) cfg {}).2.steps = (run code keep fuel (N + 1) cfg {}).2.steps ∧
    (run code keep fuel (M + 1) cfg {}).2.counted = (run code keep fuel (N + 1) cfg {}).2.counted :=
  run_mono_counts code keep fuel (N + 1) (M + 1) cfg {} {} (by omega)
    (by rcases hM with h | h
        · left; omega
        · right; omega) rfl rfl hn

/-- The opcodes whose `case` in vm.go has an `allocs--` site (regenerated) are exactly those the model
may count; each site is tested at once, before the store. -/
theorem alloc_ops_match :
    (Tengo.Gen.AllocSites.allocSites.filter (fun p => !p.2.isEmpty)).map Prod.fst = modelAllocOps :=
  Tengo.Model.VM.alloc_ops_match

theorem alloc_sites_tested :
    Tengo.Gen.AllocSites.allocSites.all (fun p => p.2.all (fun s => s.2.1 && s.2.2.1 && !s.2.2.2)) = true :=
  Tengo.Model.VM.alloc_sites_tested

/-- In every state, no simple instruction outside that set is counted as an allocation … -/
theorem only_listed_ops_allocate (code : Code) (fr : Tengo.Model.VM.Frame) (a0 a1 : Nat) (op : Nat) (r : Regs)
    (hop : op ∉ simpleAllocOps) : PostX (execSimple code fr a0 a1 op r) (fun o => o.alloc = false) :=
  execSimple_noalloc code fr a0 a1 op r hop

/-- … and a return never is. -/
theorem return_does_not_allocate (a0 : Nat) (c : Core) :
    PostX (execReturn a0 c) (fun o => ∀ c' a, o = .next c' a → a = false) :=
  execReturn_noalloc a0 c

/-- Fuel is only a bound on the length of the run the model computes: any outcome other than "out of
fuel" (halt, error, fault, allocation limit), with its log, is the same under every larger fuel. All
statements above and below therefore speak about THE run of a program, not about a fuel-indexed family. -/
theorem fuel_is_a_bound (code : Code) (keep fuel : Nat) (allocs : Int) (cfg : Cfg) (log : Log) (k : Nat)
    (h : ∀ c, (run code keep fuel allocs cfg log).1 ≠ .outOfFuel c) :
    run code keep (fuel + k) allocs cfg log = run code keep fuel allocs cfg log :=
  run_fuel_mono code keep fuel allocs cfg log k h

/-! ## C06 / C05: the frame limit -/

/-- Every configuration a run started by `VM.Run` reaches has `framesIndex ≤ MaxFrames`: recursion
beyond the frame capacity ends in the stack-overflow error of OpCall, never in an access outside
the frame array. -/
theorem depth_bounded (code : Code) (keep fuel : Nat) (allocs : Int) (globals : Array Value) (fobjs : Array FnObj) (g : GSt) (heap : St) :
    (run code keep fuel allocs ⟨initCore globals fobjs, g, heap⟩ {}).1.cfg.core.depth ≤ maxFrames :=
  run_depth code keep fuel allocs _ {} (by simp [Core.depth, initCore, maxFrames])

/-- One dispatch stays in the frame, pushes exactly one frame (only when there is room and the call
is not a self tail call), or pops exactly one. -/
theorem frame_discipline (code : Code) (c : Core) :
    PostX (exec code c) (fun o => ∃ f, code.fn c.cur.fnIdx = some f ∧ StepPost f c o) :=
  exec_frames code c

/-! ## C16: self tail calls -/

/-- A self call directly followed by a return (or by POP, return) reuses the frame — whatever the
depth, the arguments, the heap: callers, base pointer and function are unchanged. -/
theorem self_tail_call_reuses_frame (code : Code) (c : Core) (f : Fn) (cr : Nat)
    (hf : code.fn c.cur.fnIdx = some f)
    (hop : byteAt f (c.cur.ip + 1) = opCall)
    (hcallee : calleeOf f c = .cfn cr)
    (hself : c.cur.fnRef = some cr)
    (hnext : byteAt f (c.cur.ip + 1 + 2 + 1) = opReturn ∨
             (byteAt f (c.cur.ip + 1 + 2 + 1) = opPop ∧ byteAt f (c.cur.ip + 1 + 2 + 2) = opReturn)) :
    PostX (exec code c) (fun o => ∀ c' a, o = .next c' a →
      c'.callers = c.callers ∧ c'.cur.bp = c.cur.bp ∧ c'.cur.fnRef = c.cur.fnRef) :=
  Tengo.Model.VM.self_tail_call_reuses_frame code c f cr hf hop hcallee hself hnext

/-- Conversely a frame is pushed only by a call that fails the tail-call test: a self call that is
not followed by a return is never treated as a tail call, and a tail-position call of another
function object is not either. -/
theorem push_only_when_not_tail (code : Code) (c : Core) :
    PostX (exec code c) (fun o => ∀ c' a, o = .next c' a → c'.callers.length = c.callers.length + 1 →
      ∃ f cr, code.fn c.cur.fnIdx = some f ∧ calleeOf f c = .cfn cr ∧
        isSelfTail f c.cur cr (c.cur.ip + 1 + 2) = false) := by
  refine PostX_mono (exec_frames code c) ?_
  rintro o ⟨f, hf, h⟩ c' a rfl hlen
  simp only [StepPost] at h
  cases h with
  | same h1 => rw [h1] at hlen; omega
  | push cr _ _ _ _ hc hnt => exact ⟨f, cr, hf, hc, hnt⟩
  | pop _ hc => rw [hc] at hlen; simp at hlen; omega

/-- **C16 for verified programs: constant frame space AND constant operand-stack space.** In a program
accepted by the whole-program verifier, a self call directly followed by a return (or POP, return)
cannot fault and leaves the same callers, the same base pointer, `ip` at the start of the function,
the operand stack empty (`sp = bp + NumLocals`) and the invariant intact — so the next iteration
starts from a configuration of the same shape, for every recursion depth. -/
theorem tail_call_constant_space {code : Code} {t : ProgTabs} {G : Nat} (hck : checkProgram code G t = true)
    {c : Core} (hinv : Inv code t G c) (f : Fn) (cr : Nat)
    (hf : code.fn c.cur.fnIdx = some f)
    (hop : byteAt f (c.cur.ip + 1) = opCall)
    (hcallee : calleeOf f c = .cfn cr)
    (hself : c.cur.fnRef = some cr)
    (hnext : byteAt f (c.cur.ip + 1 + 2 + 1) = opReturn ∨
             (byteAt f (c.cur.ip + 1 + 2 + 1) = opPop ∧ byteAt f (c.cur.ip + 1 + 2 + 2) = opReturn)) :
    SafeX (exec code c) (fun o => ∃ c', o = .next c' false ∧ c'.callers = c.callers ∧ c'.cur.bp = c.cur.bp ∧
      c'.cur.fnRef = c.cur.fnRef ∧ c'.cur.ip = -1 ∧ c'.regs.sp = c.cur.bp + f.numLocals ∧ Inv code t G c') :=
  self_tail_call_constant_space hck hinv f cr hf hop hcallee hself hnext

/-! ### non-vacuity: a frame running `f` whose next instruction is `CALL 1 0; RET 1` on itself -/

def exFn : Fn := { insts := #[20, 1, 0, 21, 1], numLocals := 1, numParams := 1, varargs := false }
def exCode : Code := { main := { insts := #[41], numLocals := 0, numParams := 0, varargs := false },
                       consts := #[.fn exFn 0] }
def exCore : Core :=
  { regs := { stack := #[.undef, .int 7, .cfn 0, .int 6], sp := 4, globals := #[], fobjs := #[(0, [])] },
    cur := { fnIdx := 1, fnRef := some 0, ip := -1, bp := 1, free := [] },
    callers := [{ fnIdx := 0, fnRef := none, ip := 5, bp := 0, free := [] }] }

example : exCode.fn exCore.cur.fnIdx = some exFn := rfl
example : byteAt exFn (exCore.cur.ip + 1) = opCall := by decide
example : byteAt exFn (exCore.cur.ip + 1 + 2 + 1) = opReturn := by decide
example : exCore.cur.fnRef = some 0 := rfl
example : isSelfTail exFn exCore.cur 0 (exCore.cur.ip + 1 + 2) = true := by decide

end Tengo.Props.VM

import Tengo.Proofs.C11RenameOn
/-!
# C11 — the compiler does not care what the variables are called

`Tengo.Props.C11` proves rename invariance for a model of the symbol table alone.  This file states it for
the model of the WHOLE compiler (`Tengo.Model.Compiler.compileFile`, tied byte for byte to compiler.go by the
`comp` stream of harness/cmd/c01): compiling a consistently renamed program gives the IDENTICAL bytecode —
main function bytes, constant pool with every compiled function literal (bytes, NumLocals, NumParameters,
VarArgs), `MaxSymbols()` of the root table — and a compile error is the same error with the name inside
its message renamed.

* `renameStmts ρ` (`Tengo.Proofs.C11Rename`): `ρ` applied to every identifier expression, assignment target,
  function parameter and for-in key / value name.  Selector names `a.b` and map-literal keys are string
  constants of the AST (`Expr.str`, `Spec.Bytes`) and `import("m")` names are not variables: untouched.
* `Renaming ρ`: `ρ` is injective and fixes the names the compiler itself puts into the symbol table or tests
  for: the builtin function names (`Spec.builtinNames`; the root table holds them under their own names, and
  a builtin is whatever resolves to that entry), the hidden iterator `:it` of for-in, the blank identifier
  `_` (for-in defines no variable for it) and the empty name (what `resolveAssignLHS` answers for a target that
  is no variable, e.g. `(a) := 1`).  Injectivity makes `ρ n` a non-builtin, non-blank name whenever `n` is.
* `ErrRel ρ e e'`: `e' = e`, or both are `unresolved reference '…'` / `'…' redeclared in this block` with
  the name `n` on the left and `ρ n` on the right (the only two messages of the compiler that quote a name).

* `RenamingOn ρ names` (`compile_rename_on`): the same for a `ρ` that is only known on the names that matter
  (`namesStmts ss ++ inputs` and the reserved names): injective THERE, fixing the reserved names; what `ρ` does to
  other strings is irrelevant.  Such a `ρ` agrees on those names with a `Renaming` (a product of transpositions,
  `extend_injOn`), and `renameStmts` only looks at those names (`renameStmts_congr`).

Why each part of the hypothesis is needed: without injectivity `a := 1; b := 2` becomes a redeclaration; a
renamed builtin (`len ↦ foo`) makes `len([])` an unresolved reference, and a variable renamed onto a builtin
name turns `foo = 1` (unresolved) into `len = 1` (assignment to a builtin); `k ↦ _` in `for k, v in x`
drops a definition; `:it` and the empty name cannot come out of the parser, but the theorem is about every AST.

The proof (`Tengo.Proofs.C11Rename*`) is a simulation: `renState ρ` maps every name stored in the chain of
symbol tables; `defineIn`, `resolveIn` (with the `LocalAssigned` test, the capture path `defineFree` and the
fresh symbol ids), `fork`, `unfork`, `enterScope`, `leaveScope` commute with it, every other primitive does not
look at names, and an induction over the depth budget carries the relation through the eight mutually
recursive compile functions.
-/
namespace Tengo.Props.C11Compile
open Tengo.Model Tengo.Model.Compiler
open Tengo.Model.Spec (Expr Stmt)
open Tengo.Proofs.C11Rename

/-- **Rename invariance of the compiler.** For a renaming `ρ` (injective, fixing the builtin names, `:it`,
`_` and the empty name) the renamed program with the renamed inputs compiles to exactly the same
`Bytecode'` (main bytes, constants incl. function bodies, maxGlobals), or fails with the same error, the
quoted name renamed. -/
theorem compile_rename (ρ : String → String) (hρ : Renaming ρ) (ss : List Stmt) (inputs : List String) :
    OutRel ρ (compileFile ss inputs) (compileFile (renameStmts ρ ss) (inputs.map ρ)) :=
  compileFile_rename hρ ss inputs

/-- If the original compiles, the renamed program compiles to the same bytecode. -/
theorem compile_rename_ok (ρ : String → String) (hρ : Renaming ρ) (ss : List Stmt) (inputs : List String)
    (b : Bytecode') (h : compileFile ss inputs = .ok b) :
    compileFile (renameStmts ρ ss) (inputs.map ρ) = .ok b := by
  have := compile_rename ρ hρ ss inputs
  rw [h] at this
  generalize compileFile (renameStmts ρ ss) (inputs.map ρ) = y at this
  cases this
  rfl

/-- … and conversely: bytecode of the renamed program is bytecode of the original. -/
theorem compile_rename_ok_iff (ρ : String → String) (hρ : Renaming ρ) (ss : List Stmt) (inputs : List String)
    (b : Bytecode') :
    compileFile (renameStmts ρ ss) (inputs.map ρ) = .ok b ↔ compileFile ss inputs = .ok b := by
  constructor
  · intro h
    have := compile_rename ρ hρ ss inputs
    rw [h] at this
    generalize compileFile ss inputs = x at this
    cases this
    rfl
  · exact compile_rename_ok ρ hρ ss inputs b

/-- A compile error of the original is a compile error of the renamed program, related by `ErrRel`. -/
theorem compile_rename_error (ρ : String → String) (hρ : Renaming ρ) (ss : List Stmt) (inputs : List String)
    (e : CompileErr) (h : compileFile ss inputs = .error e) :
    ∃ e', compileFile (renameStmts ρ ss) (inputs.map ρ) = .error e' ∧ ErrRel ρ e e' := by
  have := compile_rename ρ hρ ss inputs
  rw [h] at this
  generalize compileFile (renameStmts ρ ss) (inputs.map ρ) = y at this
  cases this with
  | err he => exact ⟨_, rfl, he⟩

/-- **Rename invariance, the renaming known only where it matters.** If `ρ` is injective on the reserved
names together with the names of the program and the inputs, and fixes the reserved names, then it agrees there
with a `Renaming` `π` and the two compilations are related as in `compile_rename` (errors: by `ErrRel π`). -/
theorem compile_rename_on (ρ : String → String) (ss : List Stmt) (inputs : List String)
    (hρ : RenamingOn ρ (namesStmts ss ++ inputs)) :
    ∃ π, Renaming π ∧ (∀ n, n ∈ namesStmts ss ++ inputs → π n = ρ n) ∧
      OutRel π (compileFile ss inputs) (compileFile (renameStmts ρ ss) (inputs.map ρ)) :=
  compileFile_rename_on ss inputs hρ

/-- Same bytecode, both directions, under the weak hypothesis. -/
theorem compile_rename_on_ok_iff (ρ : String → String) (ss : List Stmt) (inputs : List String)
    (hρ : RenamingOn ρ (namesStmts ss ++ inputs)) (b : Bytecode') :
    compileFile (renameStmts ρ ss) (inputs.map ρ) = .ok b ↔ compileFile ss inputs = .ok b := by
  obtain ⟨π, _, _, h⟩ := compile_rename_on ρ ss inputs hρ
  generalize compileFile ss inputs = x at h
  generalize compileFile (renameStmts ρ ss) (inputs.map ρ) = y at h
  cases h with
  | ok b' => exact Iff.rfl
  | err he => exact ⟨fun e => (nomatch e), fun e => (nomatch e)⟩

/-- A decidable form of `RenamingOn` for concrete renamings and programs. -/
def checkRenamingOn (ρ : String → String) (names : List String) : Bool :=
  (reserved ++ names).all (fun a => (reserved ++ names).all (fun b => ρ a != ρ b || a == b)) &&
    reserved.all (fun n => ρ n == n)

theorem checkRenamingOn_sound {ρ : String → String} {names : List String} (h : checkRenamingOn ρ names = true) :
    RenamingOn ρ names := by
  simp only [checkRenamingOn, Bool.and_eq_true, List.all_eq_true, Bool.or_eq_true, bne_iff_ne, ne_eq,
    beq_iff_eq] at h
  refine ⟨fun a b ha hb e => ?_, h.2⟩
  rcases h.1 a ha b hb with h' | h'
  · exact absurd e h'
  · exact h'

/-! ## Renamings exist: transpositions and their compositions -/

theorem swapName_renaming (a b : String) (ha : a ∉ reserved) (hb : b ∉ reserved) : Renaming (swapName a b) where
  inj x y h := by
    have := congrArg (swapName a b) h
    rwa [swapName_swapName, swapName_swapName] at this
  builtin n hn := swapName_fix a b n
    (fun e => ha (e ▸ List.mem_cons_of_mem _ (List.mem_cons_of_mem _ (List.mem_cons_of_mem _ hn))))
    (fun e => hb (e ▸ List.mem_cons_of_mem _ (List.mem_cons_of_mem _ (List.mem_cons_of_mem _ hn))))
  hidden := swapName_fix a b _ (fun e => ha (e ▸ List.mem_cons_self))
    (fun e => hb (e ▸ List.mem_cons_self))
  blank := swapName_fix a b _ (fun e => ha (e ▸ List.mem_cons_of_mem _ List.mem_cons_self))
    (fun e => hb (e ▸ List.mem_cons_of_mem _ List.mem_cons_self))
  empty := swapName_fix a b _
    (fun e => ha (e ▸ List.mem_cons_of_mem _ (List.mem_cons_of_mem _ List.mem_cons_self)))
    (fun e => hb (e ▸ List.mem_cons_of_mem _ (List.mem_cons_of_mem _ List.mem_cons_self)))

theorem renaming_id : Renaming id where
  inj _ _ h := h
  builtin _ _ := rfl
  hidden := rfl
  blank := rfl
  empty := rfl

theorem renaming_comp {f g : String → String} (hf : Renaming f) (hg : Renaming g) : Renaming (f ∘ g) where
  inj x y h := hg.inj _ _ (hf.inj _ _ h)
  builtin n hn := by show f (g n) = n; rw [hg.builtin n hn, hf.builtin n hn]
  hidden := by show f (g ":it") = ":it"; rw [hg.hidden, hf.hidden]
  blank := by show f (g "_") = "_"; rw [hg.blank, hf.blank]
  empty := by show f (g "") = ""; rw [hg.empty, hf.empty]

/-! ## Non-vacuity: a program with a global, a parameter, a local, captured variables and a builtin call

```
g := 10
f := func(p) { loc := p + g; return func() { return len([loc, p]) } }
out := f(inp)()
```
with the host input `inp`, renamed by `g ↔ loc`, `p ↔ out`, `inp ↔ f` (so the global is now called like the
former local, the parameter like a former global, …). -/

def demo : List Stmt :=
  [.assign "Define" [.ident "g"] [.int 10],
   .assign "Define" [.ident "f"] [.func false ["p"]
      [.assign "Define" [.ident "loc"] [.bin "Add" (.ident "p") (.ident "g")],
       .ret (some (.func false []
          [.ret (some (.call false (.ident "len") [.arr [.ident "loc", .ident "p"]]))]))]],
   .assign "Define" [.ident "out"] [.call false (.call false (.ident "f") [.ident "inp"]) []]]

def demoρ : String → String := swapName "g" "loc" ∘ swapName "p" "out" ∘ swapName "inp" "f"

theorem demoρ_renaming : Renaming demoρ :=
  renaming_comp (swapName_renaming _ _ (by decide) (by decide))
    (renaming_comp (swapName_renaming _ _ (by decide) (by decide))
      (swapName_renaming _ _ (by decide) (by decide)))

/-- The renamed program is a different program … -/
example : renameStmts demoρ demo =
    [.assign "Define" [.ident "loc"] [.int 10],
     .assign "Define" [.ident "inp"] [.func false ["out"]
        [.assign "Define" [.ident "g"] [.bin "Add" (.ident "out") (.ident "loc")],
         .ret (some (.func false []
            [.ret (some (.call false (.ident "len") [.arr [.ident "g", .ident "out"]]))]))]],
     .assign "Define" [.ident "p"] [.call false (.call false (.ident "inp") [.ident "f"]) []]] := by
  rfl

def isOk {ε α : Type} : Except ε α → Bool
  | .ok _ => true
  | .error _ => false

/-- … the original compiles (so the `ok` case of `compile_rename` is inhabited) … -/
example : isOk (compileFile demo ["inp"]) = true := by decide +kernel

/-- … and so does the renamed one, to the same bytecode. -/
example : ∃ b, compileFile demo ["inp"] = .ok b ∧ compileFile (renameStmts demoρ demo) ["f"] = .ok b := by
  cases h : compileFile demo ["inp"] with
  | error e =>
    have : isOk (compileFile demo ["inp"]) = true := by decide +kernel
    rw [h] at this
    exact Bool.noConfusion this
  | ok b => exact ⟨b, rfl, compile_rename_ok demoρ demoρ_renaming demo ["inp"] b h⟩

def errMsg? {α : Type} : Except CompileErr α → Option String
  | .error (.err m) => some m
  | _ => none

/-- The error case is inhabited too: `x := y` is `unresolved reference 'y'`, and renamed by `y ↔ z` it is
`unresolved reference 'z'`. -/
example :
    errMsg? (compileFile [.assign "Define" [.ident "x"] [.ident "y"]] []) = some "unresolved reference 'y'" ∧
    errMsg? (compileFile (renameStmts (swapName "y" "z") [.assign "Define" [.ident "x"] [.ident "y"]]) [])
      = some "unresolved reference 'z'" := by
  decide +kernel

/-- The weak hypothesis is strictly weaker: `g ↦ loc2`, `p ↦ q`, everything else fixed is not injective
(`loc2 ↦ loc2` too), but it is on the names of `demo` and its input, and the bytecode is the same. -/
def demoσ (n : String) : String := if n = "g" then "loc2" else if n = "p" then "q" else n

example : demoσ "g" = demoσ "loc2" := by decide

theorem demoσ_renamingOn : RenamingOn demoσ (namesStmts demo ++ ["inp"]) :=
  checkRenamingOn_sound (by decide +kernel)

example : ∃ b, compileFile demo ["inp"] = .ok b ∧ compileFile (renameStmts demoσ demo) ["inp"] = .ok b := by
  cases h : compileFile demo ["inp"] with
  | error e =>
    have : isOk (compileFile demo ["inp"]) = true := by decide +kernel
    rw [h] at this
    exact Bool.noConfusion this
  | ok b => exact ⟨b, rfl, (compile_rename_on_ok_iff demoσ demo ["inp"] demoσ_renamingOn b).mpr h⟩

end Tengo.Props.C11Compile

import Tengo.Props.C01Bridge
import Tengo.Proofs.C01ConverseRun
import Tengo.Proofs.C01ConverseVM
/-!
C01 bridge, both directions — the three big models on fragment F1 WITHOUT the fragment's evaluator as a
termination witness.

`Tengo.Props.C01Bridge.reference_and_vm_agree_fragment` says: whenever the fragment's evaluator `F1.exec`
terminates, the reference interpreter `Spec.runProgram` and compile-and-run (`Compiler.compileFile`, `VM.run`)
end alike. Here the witness is removed, in both directions:

* `runProgram_converse` (Proofs/C01ConverseRun.lean, re-exported below): an answer of `Spec.runProgram` other
  than fuel exhaustion FORCES `F1.exec` to terminate with the same result (with the interpreter's fuel and
  every larger one). Proof: a second simulation, by induction on the interpreter's fuel, stated as a
  trichotomy "out of fuel, or as `F1.exec` says at every fuel `≥ F`" (`all_conv`, `evalTri`), so that
  fuel monotonicity of `F1.exec` comes with the statement;
* `vm_converse`: an outcome of `VM.run` other than `outOfFuel` forces `F1.exec` to terminate: if `F1.exec` runs
  out of every fuel, the machine is still running after any number of dispatches (`F1.all_divB`: every unit of
  fuel beyond the nesting height is a loop iteration, and every iteration dispatches its back jump), so
  `VM.run` is `outOfFuel` at every fuel (`diverges_outOfFuel`);
* `reference_and_vm_agree_fragment_full`: for every fragment program (hypotheses of the old headline), speaking
  only about `Spec.runProgram`, `Compiler.compileFile` and `VM.run`:
  1. `runProgram F … = ok gs st` ⇒ `VM.run` halts for every sufficient fuel, operand stack empty, heap untouched,
     and `gs` is the list of the slot names with the VM's final globals;
  2. `runProgram F …` neither `ok` nor `fuel` ⇒ `VM.run` ends `failed` (error other than fuel) for every
     sufficient fuel;
  3. `VM.run … m … = halted cfg` ⇒ `runProgram` answers `ok` with exactly `cfg`'s globals for every sufficient
     fuel (from every initial heap); `cfg` has an empty operand stack and the heap it started with;
  4. `VM.run … m … = failed e at_` ⇒ `runProgram` answers a run-time failure (not `ok`, not fuel, not a compile
     error) for every sufficient fuel;
  5. `VM.run` never answers `fault` or `limit` on these programs: halted, failed, or out of fuel.
-/
namespace Tengo.Props.C01Converse
open Tengo.Model Tengo.Model.F0 Tengo.Model.Opcodes Tengo.Proofs.C01Bridge Tengo.Props.C01Bridge
open Tengo.Model.Spec (Value GSt)

/-! ### the converse for the interpreter -/

/-- **Converse of `runProgram_fragment`** (see Proofs/C01ConverseRun.lean): an `ok` answer of the reference
interpreter forces the fragment's evaluator to finish with the same globals — with fuel `F` and every larger
fuel —, an answer that is neither `ok` nor fuel exhaustion forces it to report an error. -/
theorem runProgram_converse (names : Nat → String) (ctab : Nat → F0.Const) (n : Nat) (ss : F1.Stms) (F : Nat)
    (hinj : ∀ i j, i < n → j < n → names i = names j → i = j)
    (hwf : wfSs n 0 ss = true) (hbud : budSs ss ≤ 4000)
    (g : Nat → SV) (initHeap : Spec.St) :
    (∀ gs st, Spec.runProgram F (inputsV names n g) initHeap (toAstSs names ctab ss) = .ok gs st →
      ∃ g', (∀ f, F ≤ f → F1.exec vmSem (svConst ctab) f (.inr ss) g = .done g') ∧ gs = globalsV names n g') ∧
    ((∀ gs st, Spec.runProgram F (inputsV names n g) initHeap (toAstSs names ctab ss) ≠ .ok gs st) →
      Spec.runProgram F (inputsV names n g) initHeap (toAstSs names ctab ss) ≠ .fuel →
      ∀ f, F ≤ f → F1.exec vmSem (svConst ctab) f (.inr ss) g = .err) :=
  Tengo.Proofs.C01Bridge.runProgram_converse names ctab n ss F hinj hwf hbud g initHeap

/-! ### the converse for the VM -/

/-- **Converse of `compile_run_correct_fragment`.** If `VM.run` on the bytecode of the fragment program — the
code relation `CodeRel` is what `compileFile`'s output satisfies, `codeRel_compiled` — answers anything but
`outOfFuel`, the fragment's evaluator terminates (finishes or reports an error) with some fuel. -/
theorem vm_converse (ctab : Nat → F0.Const) (n : Nat) (ss : F1.Stms)
    (hwf : wfSs n 0 ss = true) (hdepth : F1.depthSs ss ≤ VM.stackSize)
    (hn : n ≤ 65536) (hK : nlitsSs ss ≤ 65536) (hsize : F1.sssize ss < 4294967296)
    (g : Nat → SV) (globals : Array Value) (hgs : globals.size = n)
    (hg : ∀ i, i < n → globals.getD i .undef = (g i).1)
    (keep : Nat) (allocs : Int) (ha : allocs ≤ 0) (log : VM.Log) (gst : GSt) (heap : Spec.St) (m : Nat)
    (hrun : ∀ cfg,
      (VM.run
        (codeOf { main := encodeIns (F1.compSs 0 ss) ++ [UInt8.ofNat opSuspend],
                  consts := constTable ctab (nlitsSs ss), maxGlobals := n })
        keep m allocs ⟨VM.initCore globals #[], gst, heap⟩ log).1 ≠ .outOfFuel cfg) :
    (∃ f g', F1.exec vmSem (svConst ctab) f (.inr ss) g = .done g') ∨
    (∃ f, F1.exec vmSem (svConst ctab) f (.inr ss) g = .err) := by
  rcases exec_cases vmSem (svConst ctab) (.inr ss) g with hout | h | h
  · exfalso
    obtain ⟨cfg, hc⟩ := diverges_outOfFuel (codeRel_compiled ctab n ss hwf hn hK hsize)
      (rel_init (n := n) globals g hgs hg) hdepth hout keep allocs log gst heap ha m
    exact hrun cfg hc
  · exact .inl h
  · exact .inr h

/-! ### the headline without the witness -/

/-- **Reference interpreter = compile-and-run, on fragment F1, both directions, no termination witness.**
For every fragment program `ss` (hypotheses exactly those of `reference_and_vm_agree_fragment`: injective
naming of the `n` slots, well-formed embedding, nesting within the static check's budget, expression depth
within the VM's stack, operands within their encoded widths, allocation limit off, the VM's initial globals
array holding the inputs): `Compiler.compileFile` compiles the embedded AST to some `bc`, and

1. if `Spec.runProgram` (any fuel `F`, any initial heap) answers `ok gs st`, then `VM.run` of `bc` halts — for
   every sufficient fuel, heap and declaration table untouched, operand stack empty — and `gs` is exactly the
   list of the slot names with the values of the VM's globals array at the halt;
2. if `Spec.runProgram` answers anything that is neither `ok` nor fuel exhaustion, `VM.run` ends in a `failed`
   outcome (an error other than fuel), for every sufficient fuel;
3. if `VM.run` with some fuel `m` answers `halted cfg`, then `cfg` has an empty operand stack, the heap and
   table it started with, and `Spec.runProgram` — every sufficient fuel, every initial heap — answers `ok` with
   exactly the slot names and `cfg`'s globals;
4. if `VM.run` with some fuel answers `failed e at_`, `Spec.runProgram` — every sufficient fuel, every initial
   heap — answers the outcome of an error other than fuel exhaustion (never `ok`, never a compile error);
5. `VM.run` answers `halted`, `failed` or `outOfFuel` at every fuel (never `fault`, never `limit`). -/
theorem reference_and_vm_agree_fragment_full
    (names : Nat → String) (ctab : Nat → F0.Const) (n : Nat) (ss : F1.Stms)
    (hinj : ∀ i j, i < n → j < n → names i = names j → i = j)
    (hwf : wfSs n 0 ss = true) (hbud : budSs ss ≤ 4000)
    (hdepth : F1.depthSs ss ≤ VM.stackSize)
    (hn : n ≤ 65536) (hK : nlitsSs ss ≤ 65536) (hsize : F1.sssize ss < 4294967296)
    (g : Nat → SV) (globals : Array Value) (hgs : globals.size = n)
    (hg : ∀ i, i < n → globals.getD i .undef = (g i).1)
    (keep : Nat) (allocs : Int) (ha : allocs ≤ 0) (log : VM.Log) (gst : GSt) (heap : Spec.St) :
    ∃ bc, Compiler.compileFile (toAstSs names ctab ss) (inputsOf names n) = .ok bc ∧
      (∀ F initHeap gs st,
        Spec.runProgram F (inputsV names n g) initHeap (toAstSs names ctab ss) = .ok gs st →
        ∃ fuel c',
          (∀ k, (VM.run (codeOf bc) keep (fuel + k) allocs ⟨VM.initCore globals #[], gst, heap⟩ log).1 =
            .halted ⟨c', gst, heap⟩) ∧
          c'.regs.sp = 0 ∧
          gs = (List.range n).map (fun i => (names i, c'.regs.globals.getD i .undef))) ∧
      (∀ F initHeap,
        (∀ gs st, Spec.runProgram F (inputsV names n g) initHeap (toAstSs names ctab ss) ≠ .ok gs st) →
        Spec.runProgram F (inputsV names n g) initHeap (toAstSs names ctab ss) ≠ .fuel →
        ∃ fuel e at_, e ≠ Spec.Err.fuel ∧
          ∀ k, (VM.run (codeOf bc) keep (fuel + k) allocs ⟨VM.initCore globals #[], gst, heap⟩ log).1 =
            .failed e at_) ∧
      (∀ m cfg,
        (VM.run (codeOf bc) keep m allocs ⟨VM.initCore globals #[], gst, heap⟩ log).1 = .halted cfg →
        cfg.gst = gst ∧ cfg.heap = heap ∧ cfg.core.regs.sp = 0 ∧
        ∃ F0, ∀ F initHeap, F0 ≤ F →
          ∃ st, Spec.runProgram F (inputsV names n g) initHeap (toAstSs names ctab ss) =
            .ok ((List.range n).map (fun i => (names i, cfg.core.regs.globals.getD i .undef))) st) ∧
      (∀ m e at_,
        (VM.run (codeOf bc) keep m allocs ⟨VM.initCore globals #[], gst, heap⟩ log).1 = .failed e at_ →
        ∃ F0, ∀ F initHeap, F0 ≤ F →
          ∃ err, err ≠ Spec.Err.fuel ∧
            Spec.runProgram F (inputsV names n g) initHeap (toAstSs names ctab ss) = errOutcome err) ∧
      (∀ m,
        (∃ cfg, (VM.run (codeOf bc) keep m allocs ⟨VM.initCore globals #[], gst, heap⟩ log).1 = .halted cfg) ∨
        (∃ e at_, (VM.run (codeOf bc) keep m allocs ⟨VM.initCore globals #[], gst, heap⟩ log).1 = .failed e at_) ∨
        (∃ cfg, (VM.run (codeOf bc) keep m allocs ⟨VM.initCore globals #[], gst, heap⟩ log).1 = .outOfFuel cfg)) := by
  have hbudC : budSs ss ≤ Compiler.fuel := by unfold Compiler.fuel; omega
  obtain ⟨bc, hbc, hmain, hconsts, _, _⟩ := compile_run_correct_fragment names ctab n ss 0 hinj hwf hbudC hdepth
    hn hK hsize g globals hgs hg keep allocs ha log gst heap
  -- what the old headline gives at each fuel of the fragment's evaluator, for THIS `bc`
  have key : ∀ f,
      (∀ g', F1.exec vmSem (svConst ctab) f (.inr ss) g = .done g' →
        ∃ fuel c', (∀ i, i < n → c'.regs.globals.getD i .undef = (g' i).1) ∧ c'.regs.sp = 0 ∧
          ∀ k, (VM.run (codeOf bc) keep (fuel + k) allocs ⟨VM.initCore globals #[], gst, heap⟩ log).1 =
            .halted ⟨c', gst, heap⟩) ∧
      (F1.exec vmSem (svConst ctab) f (.inr ss) g = .err →
        ∃ fuel e at_, e ≠ Spec.Err.fuel ∧
          ∀ k, (VM.run (codeOf bc) keep (fuel + k) allocs ⟨VM.initCore globals #[], gst, heap⟩ log).1 =
            .failed e at_) := by
    intro f
    obtain ⟨bc', hbc', _, _, hdone, herr⟩ := compile_run_correct_fragment names ctab n ss f hinj hwf hbudC hdepth
      hn hK hsize g globals hgs hg keep allocs ha log gst heap
    have e : bc' = bc := by
      rw [hbc] at hbc'
      injection hbc' with hbc'
      exact hbc'.symm
    subst e
    refine ⟨fun g' hg' => ?_, herr⟩
    obtain ⟨fuel, c', hgl, _, hsp, hrun⟩ := hdone g' hg'
    exact ⟨fuel, c', hgl, hsp, hrun⟩
  have hglob : ∀ (g' : Nat → SV) (c' : VM.Core), (∀ i, i < n → c'.regs.globals.getD i .undef = (g' i).1) →
      globalsV names n g' = (List.range n).map (fun i => (names i, c'.regs.globals.getD i .undef)) := by
    intro g' c' hgl
    unfold globalsV
    apply List.map_congr_left
    intro i hi
    rw [hgl i (by simpa using hi)]
  -- the evaluator's three cases, with the VM's answer in each
  have hcode : bc =
      { main := encodeIns (F1.compSs 0 ss) ++ [UInt8.ofNat opSuspend],
        consts := constTable ctab (nlitsSs ss), maxGlobals := bc.maxGlobals } := by
    cases bc
    simp only at hmain hconsts
    subst hmain hconsts
    rfl
  have hdiv : (∀ f, F1.exec vmSem (svConst ctab) f (.inr ss) g = .out) →
      ∀ m, ∃ cfg, (VM.run (codeOf bc) keep m allocs ⟨VM.initCore globals #[], gst, heap⟩ log).1 = .outOfFuel cfg := by
    intro hout m
    have hrel := codeRel_compiled ctab n ss hwf hn hK hsize
    have hcodeOf : codeOf bc =
        codeOf { main := encodeIns (F1.compSs 0 ss) ++ [UInt8.ofNat opSuspend],
                 consts := constTable ctab (nlitsSs ss), maxGlobals := n } := by
      rw [hcode]; rfl
    rw [hcodeOf]
    exact diverges_outOfFuel hrel (rel_init (n := n) globals g hgs hg) hdepth hout keep allocs log gst heap ha m
  refine ⟨bc, hbc, ?_, ?_, ?_, ?_, ?_⟩
  · -- 1. interpreter ok ⇒ VM halts with the same globals
    intro F initHeap gs st hrun
    obtain ⟨g', hR, hgs'⟩ :=
      (Tengo.Proofs.C01Bridge.runProgram_converse names ctab n ss F hinj hwf hbud g initHeap).1 gs st hrun
    obtain ⟨fuel, c', hgl, hsp, hvm⟩ := (key F).1 g' (hR F (Nat.le_refl F))
    exact ⟨fuel, c', hvm, hsp, by rw [hgs', hglob g' c' hgl]⟩
  · -- 2. interpreter fails ⇒ VM fails
    intro F initHeap hnok hnfuel
    have herr :=
      (Tengo.Proofs.C01Bridge.runProgram_converse names ctab n ss F hinj hwf hbud g initHeap).2 hnok hnfuel F
        (Nat.le_refl F)
    exact (key F).2 herr
  · -- 3. VM halts ⇒ interpreter ok with the same globals
    intro m cfg hrun
    rcases exec_cases vmSem (svConst ctab) (.inr ss) g with hout | ⟨f, g', hf⟩ | ⟨f, hf⟩
    · obtain ⟨c, hc⟩ := hdiv hout m
      rw [hrun] at hc; cases hc
    · obtain ⟨fuel, c', hgl, hsp, hvm⟩ := (key f).1 g' hf
      rcases run_agree _ keep m fuel allocs _ log _ hvm with ⟨c, hc⟩ | h
      · rw [hrun] at hc; cases hc
      · rw [hrun] at h
        injection h with h
        subst h
        refine ⟨rfl, rfl, hsp, 4 * f + budSs ss, fun F initHeap hF => ?_⟩
        obtain ⟨st, hst⟩ := (runProgram_fragment names ctab n ss f F hinj hwf hbud hF g initHeap).1 g' hf
        exact ⟨st, by rw [hst, hglob g' c' hgl]⟩
    · obtain ⟨fuel, e, at_, _, hvm⟩ := (key f).2 hf
      rcases run_agree _ keep m fuel allocs _ log _ hvm with ⟨c, hc⟩ | h
      · rw [hrun] at hc; cases hc
      · rw [hrun] at h; cases h
  · -- 4. VM fails ⇒ interpreter fails
    intro m e at_ hrun
    rcases exec_cases vmSem (svConst ctab) (.inr ss) g with hout | ⟨f, g', hf⟩ | ⟨f, hf⟩
    · obtain ⟨c, hc⟩ := hdiv hout m
      rw [hrun] at hc; cases hc
    · obtain ⟨fuel, c', hgl, hsp, hvm⟩ := (key f).1 g' hf
      rcases run_agree _ keep m fuel allocs _ log _ hvm with ⟨c, hc⟩ | h
      · rw [hrun] at hc; cases hc
      · rw [hrun] at h; cases h
    · exact ⟨4 * f + budSs ss, fun F initHeap hF =>
        (runProgram_fragment names ctab n ss f F hinj hwf hbud hF g initHeap).2 hf⟩
  · -- 5. nothing else
    intro m
    rcases exec_cases vmSem (svConst ctab) (.inr ss) g with hout | ⟨f, g', hf⟩ | ⟨f, hf⟩
    · exact .inr (.inr (hdiv hout m))
    · obtain ⟨fuel, c', hgl, hsp, hvm⟩ := (key f).1 g' hf
      rcases run_agree _ keep m fuel allocs _ log _ hvm with hc | h
      · exact .inr (.inr hc)
      · exact .inl ⟨_, h⟩
    · obtain ⟨fuel, e, at_, _, hvm⟩ := (key f).2 hf
      rcases run_agree _ keep m fuel allocs _ log _ hvm with hc | h
      · exact .inr (.inr hc)
      · exact .inr (.inl ⟨_, _, h⟩)

/-! ### non-vacuity: the concrete program of Props/C01Bridge.lean -/

set_option maxRecDepth 100000 in
/-- The fragment's evaluator finishes on `exProg` (fuel 40). -/
theorem exProg_done : ∃ g', F1.exec vmSem (svConst exCtab) 40 (.inr exProg) exG = .done g' := by
  have h : (match F1.exec vmSem (svConst exCtab) 40 (.inr exProg) exG with
      | .done _ => true
      | _ => false) = true := by decide
  cases hr : F1.exec vmSem (svConst exCtab) 40 (.inr exProg) exG with
  | done g' => exact ⟨g', rfl⟩
  | err => rw [hr] at h; cases h
  | out => rw [hr] at h; cases h

/-- The hypothesis of direction 1 is met: the reference interpreter answers `ok` on the concrete program
(`g0 = 0; for g0 < 3 { if g0 == 1 { g1 = g1 + 10 } else { g1 = g1 + 1 }; g0 = g0 + 1 }`, slots `g0`, `g1`),
with fuel 200, from the empty heap. -/
theorem exProg_runProgram_ok :
    ∃ gs st, Spec.runProgram 200 (inputsV gname 2 exG) {} (toAstSs gname exCtab exProg) = .ok gs st := by
  obtain ⟨g', hg'⟩ := exProg_done
  obtain ⟨st, hst⟩ := (runProgram_fragment gname exCtab 2 exProg 40 200 (fun _ _ _ _ h => gname_inj h)
    (by decide) (by decide) (by decide) exG {}).1 g' hg'
  exact ⟨_, st, hst⟩

/-- The interpreter's converse on the concrete program: its `ok` answer forces the fragment's evaluator to
finish, with fuel 200 and every larger one. -/
example : ∃ g', ∀ f, 200 ≤ f → F1.exec vmSem (svConst exCtab) f (.inr exProg) exG = .done g' := by
  obtain ⟨gs, st, h⟩ := exProg_runProgram_ok
  obtain ⟨g', hR, _⟩ := (runProgram_converse gname exCtab 2 exProg 200 (fun _ _ _ _ h => gname_inj h)
    (by decide) (by decide) exG {}).1 gs st h
  exact ⟨g', hR⟩

/-- All hypotheses of the full headline hold of the concrete program. -/
example (keep : Nat) (log : VM.Log) (gst : GSt) (heap : Spec.St) :=
  reference_and_vm_agree_fragment_full gname exCtab 2 exProg (fun _ _ _ _ h => gname_inj h)
    (by decide) (by decide) (by decide) (by decide) (by decide) (by decide)
    exG #[.int 0, .int 0] rfl (by intro i hi; match i, hi with | 0, _ => rfl | 1, _ => rfl)
    keep 0 (by decide) log gst heap

/-- … and direction 1 fires on it: the interpreter's `ok` answer (fuel 200) is matched by a halting run of
`VM.run` on `compileFile`'s bytecode, with the interpreter's globals. -/
example (keep : Nat) (log : VM.Log) (gst : GSt) (heap : Spec.St) :
    ∃ bc gs st fuel c',
      Compiler.compileFile (toAstSs gname exCtab exProg) (inputsOf gname 2) = .ok bc ∧
      Spec.runProgram 200 (inputsV gname 2 exG) {} (toAstSs gname exCtab exProg) = .ok gs st ∧
      (∀ k, (VM.run (codeOf bc) keep (fuel + k) 0 ⟨VM.initCore #[.int 0, .int 0] #[], gst, heap⟩ log).1 =
        .halted ⟨c', gst, heap⟩) ∧
      c'.regs.sp = 0 ∧
      gs = (List.range 2).map (fun i => (gname i, c'.regs.globals.getD i .undef)) := by
  obtain ⟨bc, hbc, h1, _⟩ := reference_and_vm_agree_fragment_full gname exCtab 2 exProg
    (fun _ _ _ _ h => gname_inj h)
    (by decide) (by decide) (by decide) (by decide) (by decide) (by decide)
    exG #[.int 0, .int 0] rfl (by intro i hi; match i, hi with | 0, _ => rfl | 1, _ => rfl)
    keep 0 (by decide) log gst heap
  obtain ⟨gs, st, hrun⟩ := exProg_runProgram_ok
  obtain ⟨fuel, c', hvm, hsp, hgs⟩ := h1 200 {} gs st hrun
  exact ⟨bc, gs, st, fuel, c', hbc, hrun, hvm, hsp, hgs⟩

end Tengo.Props.C01Converse

import Tengo.Model.Heap9
import Tengo.Gen.Immut
/-!
C09 — Immutable values cannot be changed by any sequence of operations.

Theorems about `Tengo.Model.Heap9` (explicit heap: object headers, backing arrays, Go maps, handles).
The model is tied to /repo by the `objops`/`exhaustive` correspondence streams of harness/cmd/c09
(same operations on real tengo objects, outcomes and deep snapshots compared) and by the regenerated
inventory `Tengo.Gen.Immut` (who has an IndexSet, who writes container storage, who wraps existing
storage, what `export` compiles to).

Main statements
* `Inv h F`            no mutable array/map header points into the frozen stores `F`
* `step_preserves`     one operation keeps `Inv` and leaves every frozen store unchanged
* `ops_preserve`       any operation sequence does
* `make_immutable_inv` `immutable(x)` of a value without another mutable alias establishes `Inv`
* `write_fails_or_noop` an operation aimed at an immutable value fails or leaves all storage unchanged
* `freeze_*`           freeze is pure, its result equals its argument and (`_partial`: not looking behind
                       error values) is immutable throughout; `freeze_deep_immutable_full_false`: the full
                       statement is false (finding O24), with the concrete witness replayed by the harness
-/
namespace Tengo.Props.C09
open Tengo.Model.Heap9

/-! ### The regenerated source inventory is the one the model was written against -/

theorem index_set_types_match : Tengo.Gen.Immut.indexSetTypes = indexSetTypes := by decide
theorem storage_writes_match : Tengo.Gen.Immut.storageWrites = storageWrites := by decide
theorem storage_aliases_match : Tengo.Gen.Immut.storageAliases = storageAliases := by decide
theorem export_emits_match : Tengo.Gen.Immut.exportEmits = exportEmits := by decide
theorem builtin_module_immutable : Tengo.Gen.Immut.builtinModuleImmutable = true := by decide

/-! ### Frozen stores and the invariant -/

/-- A storage location: a backing array or a Go map. -/
inductive Loc where
  | a (s : Nat)
  | m (s : Nat)
  deriving DecidableEq, Repr

abbrev FSet := Loc → Prop

/-- Some mutable array header (a `*Array`) lies over backing array `st`. -/
def MutArr (h : Heap) (st : Nat) : Prop := ∃ r off len cap : Nat, h.objs[r]? = some (Obj.arr true st off len cap)
/-- Some `*Map` holds Go map `st`. -/
def MutMap (h : Heap) (st : Nat) : Prop := ∃ r : Nat, h.objs[r]? = some (Obj.map true st)

/-- No mutable handle points into `F` (and `F` only names allocated stores). -/
structure Inv (h : Heap) (F : FSet) : Prop where
  abound : ∀ s, F (.a s) → s < h.astores.length
  mbound : ∀ s, F (.m s) → s < h.mstores.length
  noArr : ∀ s, MutArr h s → ¬ F (.a s)
  noMap : ∀ s, MutMap h s → ¬ F (.m s)

/-- The contents of every store of `F` are the same in `h'` as in `h`. -/
def SameOn (F : FSet) (h h' : Heap) : Prop :=
  (∀ s, F (.a s) → h'.astores[s]? = h.astores[s]?) ∧ (∀ s, F (.m s) → h'.mstores[s]? = h.mstores[s]?)

/-- Frame condition every operation satisfies: stores only change under a mutable header, new mutable
headers lie over fresh stores or over stores that already had a mutable header, and objects that are not
mutable containers are never rewritten. -/
structure Safe (h h' : Heap) : Prop where
  alen : h.astores.length ≤ h'.astores.length
  mlen : h.mstores.length ≤ h'.mstores.length
  astore : ∀ s, s < h.astores.length → h'.astores[s]? = h.astores[s]? ∨ MutArr h s
  mstore : ∀ s, s < h.mstores.length → h'.mstores[s]? = h.mstores[s]? ∨ MutMap h s
  newArr : ∀ s, MutArr h' s → h.astores.length ≤ s ∨ MutArr h s
  newMap : ∀ s, MutMap h' s → h.mstores.length ≤ s ∨ MutMap h s
  objs : ∀ (r : Nat) (o : Obj), h.objs[r]? = some o → o.isMut = false → h'.objs[r]? = some o

theorem Safe.refl (h : Heap) : Safe h h :=
  ⟨Nat.le_refl _, Nat.le_refl _, fun _ _ => .inl rfl, fun _ _ => .inl rfl, fun _ hm => .inr hm, fun _ hm => .inr hm,
   fun _ _ ho _ => ho⟩

theorem Safe.trans {h1 h2 h3 : Heap} (a : Safe h1 h2) (b : Safe h2 h3) : Safe h1 h3 where
  alen := Nat.le_trans a.alen b.alen
  mlen := Nat.le_trans a.mlen b.mlen
  astore s hs := by
    rcases a.astore s hs with e1 | m1
    · rcases b.astore s (Nat.lt_of_lt_of_le hs a.alen) with e2 | m2
      · exact .inl (e2.trans e1)
      · rcases a.newArr s m2 with f | m
        · omega
        · exact .inr m
    · exact .inr m1
  mstore s hs := by
    rcases a.mstore s hs with e1 | m1
    · rcases b.mstore s (Nat.lt_of_lt_of_le hs a.mlen) with e2 | m2
      · exact .inl (e2.trans e1)
      · rcases a.newMap s m2 with f | m
        · omega
        · exact .inr m
    · exact .inr m1
  newArr s hm := by
    rcases b.newArr s hm with f | m
    · exact .inl (Nat.le_trans a.alen f)
    · exact a.newArr s m
  newMap s hm := by
    rcases b.newMap s hm with f | m
    · exact .inl (Nat.le_trans a.mlen f)
    · exact a.newMap s m
  objs r o ho hm := b.objs r o (a.objs r o ho hm) hm

/-- The frame condition gives the two halves of `step_preserves`. -/
theorem Safe.inv {h h' : Heap} {F : FSet} (s : Safe h h') (i : Inv h F) : Inv h' F ∧ SameOn F h h' := by
  refine ⟨⟨?_, ?_, ?_, ?_⟩, ?_, ?_⟩
  · intro x hx; exact Nat.lt_of_lt_of_le (i.abound x hx) s.alen
  · intro x hx; exact Nat.lt_of_lt_of_le (i.mbound x hx) s.mlen
  · intro x hm hf
    rcases s.newArr x hm with f | m
    · have := i.abound x hf; omega
    · exact i.noArr x m hf
  · intro x hm hf
    rcases s.newMap x hm with f | m
    · have := i.mbound x hf; omega
    · exact i.noMap x m hf
  · intro x hf
    rcases s.astore x (i.abound x hf) with e | m
    · exact e
    · exact absurd hf (i.noArr x m)
  · intro x hf
    rcases s.mstore x (i.mbound x hf) with e | m
    · exact e
    · exact absurd hf (i.noMap x m)

/-! ### Frame condition of the heap primitives -/

theorem obj_some {h : Heap} {r : Ref} {o : Obj} (e : h.obj r = o) (nd : o ≠ .dead) : h.objs[r]? = some o := by
  unfold Heap.obj at e
  rw [List.getD_eq_getElem?_getD] at e
  cases hr : h.objs[r]? with
  | none => simp [hr] at e; exact absurd e.symm nd
  | some x => simp [hr] at e; simp [e]

/-- Same object table and stores (only handles differ). -/
theorem Safe.of_eq {h h' : Heap} (o : h'.objs = h.objs) (a : h'.astores = h.astores) (m : h'.mstores = h.mstores) :
    Safe h h' := by
  refine ⟨by rw [a]; exact Nat.le_refl _, by rw [m]; exact Nat.le_refl _, fun _ _ => .inl (by rw [a]), fun _ _ => .inl (by rw [m]), ?_, ?_, ?_⟩
  · intro s hm; right; unfold MutArr at *; rw [o] at hm; exact hm
  · intro s hm; right; unfold MutMap at *; rw [o] at hm; exact hm
  · intro r x hx _; rw [o]; exact hx

theorem safe_push (h : Heap) (v : Val) : Safe h (h.push v) := Safe.of_eq rfl rfl rfl
theorem safe_pushAll (h : Heap) (vs : List Val) : Safe h (h.pushAll vs) := Safe.of_eq rfl rfl rfl

theorem getElem?_append_one {α} (l : List α) (x : α) (i : Nat) {y : α} (hy : (l ++ [x])[i]? = some y) :
    l[i]? = some y ∨ (i = l.length ∧ y = x) := by
  by_cases hi : i < l.length
  · left; rw [List.getElem?_append_left hi] at hy; exact hy
  · right
    have : l.length ≤ i := Nat.le_of_not_lt hi
    rw [List.getElem?_append_right this] at hy
    cases hk : i - l.length with
    | zero => simp [hk] at hy; exact ⟨by omega, hy.symm⟩
    | succ k => simp [hk] at hy

theorem safe_newArr (h : Heap) (mu : Bool) (xs : List Val) (cap : Nat) : Safe h (h.newArr mu xs cap).1 := by
  unfold Heap.newArr
  refine ⟨by simp, by simp, ?_, ?_, ?_, ?_, ?_⟩
  · intro s hs; left; simp [List.getElem?_append_left hs]
  · intro s _; left; rfl
  · intro s ⟨r, off, len, cap', hr⟩
    simp only at hr
    rcases getElem?_append_one _ _ _ hr with e | ⟨_, e⟩
    · right; exact ⟨r, off, len, cap', e⟩
    · left; injection e with _ e2; omega
  · intro s ⟨r, hr⟩
    simp only at hr
    rcases getElem?_append_one _ _ _ hr with e | ⟨_, e⟩
    · right; exact ⟨r, e⟩
    · cases e
  · intro r o ho _
    simp only
    have : r < h.objs.length := by
      rcases List.getElem?_eq_some_iff.mp ho with ⟨hl, _⟩; exact hl
    rw [List.getElem?_append_left this]; exact ho

theorem safe_newMap (h : Heap) (mu : Bool) (kvs : List (String × Val)) : Safe h (h.newMap mu kvs).1 := by
  unfold Heap.newMap
  refine ⟨by simp, by simp, ?_, ?_, ?_, ?_, ?_⟩
  · intro s _; left; rfl
  · intro s hs; left; simp [List.getElem?_append_left hs]
  · intro s ⟨r, off, len, cap', hr⟩
    simp only at hr
    rcases getElem?_append_one _ _ _ hr with e | ⟨_, e⟩
    · right; exact ⟨r, off, len, cap', e⟩
    · cases e
  · intro s ⟨r, hr⟩
    simp only at hr
    rcases getElem?_append_one _ _ _ hr with e | ⟨_, e⟩
    · right; exact ⟨r, e⟩
    · left; injection e with _ e2; omega
  · intro r o ho _
    simp only
    have : r < h.objs.length := by
      rcases List.getElem?_eq_some_iff.mp ho with ⟨hl, _⟩; exact hl
    rw [List.getElem?_append_left this]; exact ho

/-- A new header that is immutable, or mutable over a store that already has a mutable header. -/
theorem safe_allocObj (h : Heap) (o : Obj)
    (ok : o.isMut = false ∨ (∃ st off len cap : Nat, o = .arr true st off len cap ∧ MutArr h st)) :
    Safe h (h.allocObj o).1 := by
  unfold Heap.allocObj
  refine ⟨Nat.le_refl _, Nat.le_refl _, fun _ _ => .inl rfl, fun _ _ => .inl rfl, ?_, ?_, ?_⟩
  · intro s ⟨r, off, len, cap', hr⟩
    simp only at hr
    rcases getElem?_append_one _ _ _ hr with e | ⟨_, e⟩
    · right; exact ⟨r, off, len, cap', e⟩
    · right
      rcases ok with im | ⟨st, off', len', cap'', eo, hm⟩
      · rw [← e] at im; simp [Obj.isMut] at im
      · rw [eo] at e; injection e with _ e2; rw [e2]; exact hm
  · intro s ⟨r, hr⟩
    simp only at hr
    rcases getElem?_append_one _ _ _ hr with e | ⟨_, e⟩
    · right; exact ⟨r, e⟩
    · rcases ok with im | ⟨st, off', len', cap'', eo, _⟩
      · rw [← e] at im; simp [Obj.isMut] at im
      · rw [eo] at e; cases e
  · intro r x hx _
    simp only
    have : r < h.objs.length := by
      rcases List.getElem?_eq_some_iff.mp hx with ⟨hl, _⟩; exact hl
    rw [List.getElem?_append_left this]; exact hx

theorem safe_setA (h : Heap) (s : Nat) (xs : List Val) (hm : MutArr h s) : Safe h (h.setA s xs) := by
  unfold Heap.setA
  refine ⟨by simp, Nat.le_refl _, ?_, fun _ _ => .inl rfl, fun _ m => .inr m, fun _ m => .inr m, fun _ _ ho _ => ho⟩
  intro t _
  by_cases e : s = t
  · right; rw [← e]; exact hm
  · left; simp [List.getElem?_set_ne e]

theorem safe_setM (h : Heap) (s : Nat) (kvs : List (String × Val)) (hm : MutMap h s) : Safe h (h.setM s kvs) := by
  unfold Heap.setM
  refine ⟨Nat.le_refl _, by simp, fun _ _ => .inl rfl, ?_, fun _ m => .inr m, fun _ m => .inr m, fun _ _ ho _ => ho⟩
  intro t _
  by_cases e : s = t
  · right; rw [← e]; exact hm
  · left; simp [List.getElem?_set_ne e]

theorem getElem?_set_cases {α} (l : List α) (i j : Nat) (x y : α) (hy : (l.set i x)[j]? = some y) :
    l[j]? = some y ∨ (j = i ∧ y = x ∧ i < l.length) := by
  by_cases e : i = j
  · right
    subst e
    by_cases hl : i < l.length
    · rw [List.getElem?_set_self hl] at hy; injection hy with hy; exact ⟨rfl, hy.symm, hl⟩
    · have : (l.set i x).length ≤ i := by simp; omega
      rw [List.getElem?_eq_none this] at hy; cases hy
  · left; rw [List.getElem?_set_ne e] at hy; exact hy

/-- Rewriting a mutable header: to `dead` (the temporary of `immutable(tmp)`), or to another mutable
header over a store that has a mutable header. -/
theorem safe_setObj (h : Heap) (r : Ref) (o o' : Obj) (ho : h.objs[r]? = some o) (hmut : o.isMut = true)
    (ok : o' = .dead ∨ (∃ st off len cap : Nat, o' = .arr true st off len cap ∧ MutArr h st)) :
    Safe h (h.setObj r o') := by
  unfold Heap.setObj
  refine ⟨Nat.le_refl _, Nat.le_refl _, fun _ _ => .inl rfl, fun _ _ => .inl rfl, ?_, ?_, ?_⟩
  · intro s ⟨q, off, len, cap', hq⟩
    simp only at hq
    rcases getElem?_set_cases _ _ _ _ _ hq with e | ⟨_, e, _⟩
    · right; exact ⟨q, off, len, cap', e⟩
    · right
      rcases ok with d | ⟨st, off', len', cap'', eo, hm⟩
      · rw [d] at e; cases e
      · rw [eo] at e; injection e with _ e2; rw [e2]; exact hm
  · intro s ⟨q, hq⟩
    simp only at hq
    rcases getElem?_set_cases _ _ _ _ _ hq with e | ⟨_, e, _⟩
    · right; exact ⟨q, e⟩
    · rcases ok with d | ⟨st, off', len', cap'', eo, _⟩
      · rw [d] at e; cases e
      · rw [eo] at e; cases e
  · intro q x hx hxm
    simp only
    by_cases e : r = q
    · subst e; rw [ho] at hx; injection hx with hx; rw [hx] at hmut; rw [hmut] at hxm; cases hxm
    · rw [List.getElem?_set_ne e]; exact hx

/-! ### Frame condition of every operation -/

theorem mutArr_of_obj {h : Heap} {r s off len cap : Nat} (e : h.obj r = Obj.arr true s off len cap) : MutArr h s :=
  ⟨r, off, len, cap, obj_some e (by simp)⟩

theorem mutMap_of_obj {h : Heap} {r s : Nat} (e : h.obj r = Obj.map true s) : MutMap h s :=
  ⟨r, obj_some e (by simp)⟩

theorem arrSet_safe {h : Heap} {s : Nat} (hm : MutArr h s) (off len : Nat) (n : Int) (v : Val) :
    Safe h (arrSet h s off len n v).1 := by
  unfold arrSet
  split
  · exact Safe.refl _
  · exact safe_setA _ _ _ hm

theorem indexSet_safe (h : Heap) (dst idx v : Val) : Safe h (indexSet h dst idx v).1 := by
  unfold indexSet
  repeat' split
  all_goals first
    | exact Safe.refl _
    | exact arrSet_safe (mutArr_of_obj (by assumption)) _ _ _ _
    | exact safe_setM _ _ _ (mutMap_of_obj (by assumption))

theorem indexAssign_safe (h : Heap) (dst : Val) (sels : List Val) (src : Val) :
    Safe h (indexAssign h dst sels src).1 := by
  induction sels generalizing dst with
  | nil => exact Safe.refl _
  | cons i rest ih =>
    cases rest with
    | nil => exact indexSet_safe _ _ _ _
    | cons j rest' =>
      unfold indexAssign
      split
      · exact ih _
      · exact Safe.refl _
      · exact Safe.refl _

theorem pushNew_safe {h : Heap} {p : Heap × Ref} (s : Safe h p.1) : Safe h (pushNew p).1 :=
  Safe.trans s (safe_push _ _)

theorem stepAppend_safe (h : Heap) (x : Nat) (items : List Nat) (nc : Nat) : Safe h (stepAppend h x items nc).1 := by
  unfold stepAppend
  repeat' split
  all_goals first
    | exact Safe.refl _
    | exact pushNew_safe (safe_newArr _ _ _ _)
    | exact pushNew_safe (Safe.trans (safe_setA _ _ _ (mutArr_of_obj (by assumption)))
        (safe_allocObj _ _ (.inr ⟨_, _, _, _, rfl, mutArr_of_obj (by assumption)⟩)))

theorem stepSlice_safe (h : Heap) (x lo hi nc : Nat) : Safe h (stepSlice h x lo hi nc).1 := by
  unfold stepSlice
  repeat' split
  all_goals try subst_vars
  all_goals first
    | exact Safe.refl _
    | exact pushNew_safe (safe_newArr _ _ _ _)
    | exact pushNew_safe (safe_allocObj _ _ (.inr ⟨_, _, _, _, rfl, mutArr_of_obj (by assumption)⟩))

theorem stepAdd_safe (h : Heap) (x y : Nat) : Safe h (stepAdd h x y).1 := by
  unfold stepAdd
  repeat' split
  all_goals first
    | exact Safe.refl _
    | exact safe_push _ _
    | exact pushNew_safe (safe_newArr _ _ _ _)

theorem stepDelete_safe (h : Heap) (x k : Nat) : Safe h (stepDelete h x k).1 := by
  unfold stepDelete
  repeat' split
  all_goals first
    | exact Safe.refl _
    | exact safe_setM _ _ _ (mutMap_of_obj (by assumption))

theorem stepIter_safe (h : Heap) (x : Nat) : Safe h (stepIter h x).1 := by
  unfold stepIter
  repeat' split
  all_goals first
    | exact Safe.refl _
    | exact safe_pushAll _ _

theorem safe_realloc (h : Heap) (r : Ref) (o : Obj) (xs : List Val) (l c : Nat)
    (ho : h.objs[r]? = some o) (hmut : o.isMut = true) :
    Safe h { h with astores := h.astores ++ [xs], objs := h.objs.set r (Obj.arr true h.astores.length 0 l c) } := by
  refine ⟨by simp, Nat.le_refl _, ?_, fun _ _ => .inl rfl, ?_, ?_, ?_⟩
  · intro s hs; left; simp [List.getElem?_append_left hs]
  · intro s ⟨q, off, len, cap', hq⟩
    simp only at hq
    rcases getElem?_set_cases _ _ _ _ _ hq with e | ⟨_, e, _⟩
    · right; exact ⟨q, off, len, cap', e⟩
    · left; injection e with _ e2; omega
  · intro s ⟨q, hq⟩
    simp only at hq
    rcases getElem?_set_cases _ _ _ _ _ hq with e | ⟨_, e, _⟩
    · right; exact ⟨q, e⟩
    · cases e
  · intro q x hx hxm
    simp only
    by_cases e : r = q
    · subst e; rw [ho] at hx; injection hx with hx; rw [hx] at hmut; rw [hmut] at hxm; cases hxm
    · rw [List.getElem?_set_ne e]; exact hx

theorem spliceWrite_safe (h : Heap) (r : Ref) (s off len cap st : Nat) (items : List Val) (nc : Nat)
    (ho : h.objs[r]? = some (Obj.arr true s off len cap)) :
    Safe h (spliceWrite h r s off len cap st items nc) := by
  have hm : MutArr h s := ⟨r, off, len, cap, ho⟩
  unfold spliceWrite
  simp only
  split
  · exact Safe.trans (safe_setA _ _ _ hm)
      (safe_setObj (h.setA _ _) r _ _ ho rfl (.inr ⟨_, _, _, _, rfl, hm⟩))
  · exact safe_realloc h r _ _ _ _ ho rfl

theorem stepSplice_safe (h : Heap) (x : Nat) (args : List Nat) (nc dc : Nat) :
    Safe h (stepSplice h x args nc dc).1 := by
  unfold stepSplice
  repeat' split
  all_goals first
    | exact Safe.refl _
    | exact pushNew_safe (Safe.trans (spliceWrite_safe _ _ _ _ _ _ _ _ _ (obj_some (by assumption) (by simp)))
        (safe_newArr _ _ _ _))

theorem safe_consume (h : Heap) (r : Ref) (o : Obj) (x : Nat) (ho : h.objs[r]? = some o) (hmut : o.isMut = true) :
    Safe h { h.setObj r Obj.dead with regs := h.regs.set x Val.undef } :=
  Safe.trans (safe_setObj h r o Obj.dead ho hmut (.inl rfl)) (Safe.of_eq rfl rfl rfl)

theorem stepImmutable_safe (h : Heap) (c : Bool) (x : Nat) : Safe h (stepImmutable h c x).1 := by
  unfold stepImmutable
  repeat' split
  all_goals first
    | exact Safe.refl _
    | exact safe_push _ _
    | exact pushNew_safe (safe_allocObj _ _ (.inl rfl))
    | exact pushNew_safe (Safe.trans (safe_consume h _ _ _ (obj_some (by assumption) (by simp)) rfl)
        (safe_allocObj _ _ (.inl rfl)))

theorem foldVals_safe {σ : Type} (f : Heap → σ → Val → Option (Heap × σ × Val))
    (hf : ∀ h st v h' st' v', f h st v = some (h', st', v') → Safe h h') :
    ∀ (vs : List Val) (h : Heap) (st : σ) (h' : Heap) (st' : σ) (vs' : List Val),
      foldVals f h st vs = some (h', st', vs') → Safe h h' := by
  intro vs
  induction vs with
  | nil => intro h st h' st' vs' e; simp [foldVals] at e; rw [e.1]; exact Safe.refl _
  | cons v vs ih =>
    intro h st h' st' vs' e
    unfold foldVals at e
    split at e
    · cases e
    · rename_i h1 st1 v1 e1
      split at e
      · cases e
      · rename_i h2 st2 vs2 e2
        injection e with e; injection e with e3 e4
        rw [← e3]
        exact Safe.trans (hf _ _ _ _ _ _ e1) (ih _ _ _ _ _ e2)

theorem copyN_safe : ∀ (n : Nat) (h : Heap) (caps : List Nat) (v : Val) (h' : Heap) (caps' : List Nat) (v' : Val),
    copyN n h caps v = some (h', caps', v') → Safe h h' := by
  intro n
  induction n with
  | zero => intro h caps v h' caps' v' e; simp [copyN] at e
  | succ n ih =>
    intro h caps v h' caps' v' e
    unfold copyN at e
    repeat' split at e
    all_goals first
      | (cases e; done)
      | (injection e with e; injection e with e1 e2; rw [← e1]; first
          | exact Safe.refl _
          | exact Safe.trans (foldVals_safe _ ih _ _ _ _ _ _ (by assumption)) (safe_newArr _ _ _ _)
          | exact Safe.trans (foldVals_safe _ ih _ _ _ _ _ _ (by assumption)) (safe_newMap _ _ _)
          | exact Safe.trans (ih _ _ _ _ _ _ (by assumption)) (safe_allocObj _ _ (.inl rfl)))

theorem freezeN_safe : ∀ (n : Nat) (h : Heap) (memo : Memo) (v : Val) (h' : Heap) (memo' : Memo) (v' : Val),
    freezeN n h memo v = some (h', memo', v') → Safe h h' := by
  intro n
  induction n with
  | zero => intro h memo v h' memo' v' e; simp [freezeN] at e
  | succ n ih =>
    intro h memo v h' memo' v' e
    unfold freezeN at e
    repeat' split at e
    all_goals first
      | (cases e; done)
      | (injection e with e; injection e with e1 e2; rw [← e1]; first
          | exact Safe.refl _
          | exact foldVals_safe _ ih _ _ _ _ _ _ (by assumption)
          | exact Safe.trans (foldVals_safe _ ih _ _ _ _ _ _ (by assumption)) (safe_newArr _ _ _ _)
          | exact Safe.trans (foldVals_safe _ ih _ _ _ _ _ _ (by assumption)) (safe_newMap _ _ _))

/-- Every operation satisfies the frame condition. -/
theorem step_safe (h : Heap) (op : Op) : Safe h (step h op).1 := by
  cases op with
  | lit l => exact safe_push _ _
  | mkArr elems cap =>
    simp only [step]; split
    · exact pushNew_safe (safe_newArr _ _ _ _)
    · exact Safe.refl _
  | mkMap kvs =>
    simp only [step]; split
    · exact pushNew_safe (safe_newMap _ _ _)
    · exact Safe.refl _
  | mkErr x =>
    simp only [step]; split
    · exact pushNew_safe (safe_allocObj _ _ (.inl rfl))
    · exact Safe.refl _
  | immutable c x => exact stepImmutable_safe _ _ _
  | idxGet x i =>
    simp only [step]
    repeat' split
    all_goals first | exact Safe.refl _ | exact safe_push _ _
  | setSel x sels v =>
    simp only [step]; split
    · exact indexAssign_safe _ _ _ _
    · exact Safe.refl _
  | append x items nc => exact stepAppend_safe _ _ _ _
  | splice x args nc dc => exact stepSplice_safe _ _ _ _ _
  | delete x k => exact stepDelete_safe _ _ _
  | slice x lo hi nc => exact stepSlice_safe _ _ _ _ _
  | add x y => exact stepAdd_safe _ _ _
  | copy x caps =>
    simp only [step]
    repeat' split
    all_goals first
      | exact Safe.refl _
      | exact Safe.trans (copyN_safe _ _ _ _ _ _ _ (by assumption)) (safe_push _ _)
  | freeze x =>
    simp only [step]
    repeat' split
    all_goals first
      | exact Safe.refl _
      | exact Safe.trans (freezeN_safe _ _ _ _ _ _ _ (by assumption)) (safe_push _ _)
  | iter x => exact stepIter_safe _ _
  | eq x y =>
    simp only [step]
    repeat' split
    all_goals exact Safe.refl _

/-! ### The main theorems -/

/-- One operation keeps the invariant and leaves the contents of every frozen store unchanged. -/
theorem step_preserves {h : Heap} {F : FSet} (op : Op) (i : Inv h F) :
    Inv (step h op).1 F ∧ SameOn F h (step h op).1 :=
  (step_safe h op).inv i

theorem run_safe (ops : List Op) : ∀ h : Heap, Safe h (run h ops) := by
  induction ops with
  | nil => intro h; exact Safe.refl _
  | cons op ops ih => intro h; exact Safe.trans (step_safe h op) (ih _)

/-- Any operation sequence keeps the invariant and the contents of every frozen store. -/
theorem ops_preserve {h : Heap} {F : FSet} (ops : List Op) (i : Inv h F) :
    Inv (run h ops) F ∧ SameOn F h (run h ops) :=
  (run_safe ops h).inv i

/-- Headers of immutable containers and error objects are never rewritten, by any sequence. -/
theorem ops_keep_immutable_headers {h : Heap} (ops : List Op) {r : Ref} {o : Obj}
    (ho : h.objs[r]? = some o) (him : o.isMut = false) : (run h ops).objs[r]? = some o :=
  (run_safe ops h).objs r o ho him

/-! ### Pure extension: nothing that exists is modified -/

/-- `h'` extends `h`: every existing object, backing array and Go map is still there, unchanged. -/
structure Ext (h h' : Heap) : Prop where
  objs : ∀ (r : Nat) (o : Obj), h.objs[r]? = some o → h'.objs[r]? = some o
  astores : ∀ (s : Nat) (x : List Val), h.astores[s]? = some x → h'.astores[s]? = some x
  mstores : ∀ (s : Nat) (x : List (String × Val)), h.mstores[s]? = some x → h'.mstores[s]? = some x

theorem Ext.refl (h : Heap) : Ext h h := ⟨fun _ _ e => e, fun _ _ e => e, fun _ _ e => e⟩

theorem Ext.trans {a b c : Heap} (x : Ext a b) (y : Ext b c) : Ext a c :=
  ⟨fun r o e => y.objs r o (x.objs r o e), fun s v e => y.astores s v (x.astores s v e),
   fun s v e => y.mstores s v (x.mstores s v e)⟩

theorem getElem?_append_some {α} (l : List α) (x : α) (i : Nat) {y : α} (hy : l[i]? = some y) :
    (l ++ [x])[i]? = some y := by
  have : i < l.length := by
    rcases List.getElem?_eq_some_iff.mp hy with ⟨hl, _⟩; exact hl
  rw [List.getElem?_append_left this]; exact hy

theorem ext_push (h : Heap) (v : Val) : Ext h (h.push v) := ⟨fun _ _ e => e, fun _ _ e => e, fun _ _ e => e⟩
theorem ext_pushAll (h : Heap) (vs : List Val) : Ext h (h.pushAll vs) := ⟨fun _ _ e => e, fun _ _ e => e, fun _ _ e => e⟩

theorem ext_newArr (h : Heap) (mu : Bool) (xs : List Val) (cap : Nat) : Ext h (h.newArr mu xs cap).1 :=
  ⟨fun _ _ e => getElem?_append_some _ _ _ e, fun _ _ e => getElem?_append_some _ _ _ e, fun _ _ e => e⟩

theorem ext_newMap (h : Heap) (mu : Bool) (kvs : List (String × Val)) : Ext h (h.newMap mu kvs).1 :=
  ⟨fun _ _ e => getElem?_append_some _ _ _ e, fun _ _ e => e, fun _ _ e => getElem?_append_some _ _ _ e⟩

theorem ext_allocObj (h : Heap) (o : Obj) : Ext h (h.allocObj o).1 :=
  ⟨fun _ _ e => getElem?_append_some _ _ _ e, fun _ _ e => e, fun _ _ e => e⟩

theorem pushNew_ext {h : Heap} {p : Heap × Ref} (s : Ext h p.1) : Ext h (pushNew p).1 :=
  Ext.trans s (ext_push _ _)

theorem foldVals_ext {σ : Type} (f : Heap → σ → Val → Option (Heap × σ × Val))
    (hf : ∀ h st v h' st' v', f h st v = some (h', st', v') → Ext h h') :
    ∀ (vs : List Val) (h : Heap) (st : σ) (h' : Heap) (st' : σ) (vs' : List Val),
      foldVals f h st vs = some (h', st', vs') → Ext h h' := by
  intro vs
  induction vs with
  | nil => intro h st h' st' vs' e; simp [foldVals] at e; rw [e.1]; exact Ext.refl _
  | cons v vs ih =>
    intro h st h' st' vs' e
    unfold foldVals at e
    split at e
    · cases e
    · rename_i h1 st1 v1 e1
      split at e
      · cases e
      · rename_i h2 st2 vs2 e2
        injection e with e; injection e with e3 e4
        rw [← e3]
        exact Ext.trans (hf _ _ _ _ _ _ e1) (ih _ _ _ _ _ e2)

/-- `copy` only allocates. -/
theorem copyN_ext : ∀ (n : Nat) (h : Heap) (caps : List Nat) (v : Val) (h' : Heap) (caps' : List Nat) (v' : Val),
    copyN n h caps v = some (h', caps', v') → Ext h h' := by
  intro n
  induction n with
  | zero => intro h caps v h' caps' v' e; simp [copyN] at e
  | succ n ih =>
    intro h caps v h' caps' v' e
    unfold copyN at e
    repeat' split at e
    all_goals first
      | (cases e; done)
      | (injection e with e; injection e with e1 e2; rw [← e1]; first
          | exact Ext.refl _
          | exact Ext.trans (foldVals_ext _ ih _ _ _ _ _ _ (by assumption)) (ext_newArr _ _ _ _)
          | exact Ext.trans (foldVals_ext _ ih _ _ _ _ _ _ (by assumption)) (ext_newMap _ _ _)
          | exact Ext.trans (ih _ _ _ _ _ _ (by assumption)) (ext_allocObj _ _))

/-- `freeze` only allocates: it does not modify any pre-existing location (its argument included). -/
theorem freeze_pure : ∀ (n : Nat) (h : Heap) (memo : Memo) (v : Val) (h' : Heap) (memo' : Memo) (v' : Val),
    freezeN n h memo v = some (h', memo', v') → Ext h h' := by
  intro n
  induction n with
  | zero => intro h memo v h' memo' v' e; simp [freezeN] at e
  | succ n ih =>
    intro h memo v h' memo' v' e
    unfold freezeN at e
    repeat' split at e
    all_goals first
      | (cases e; done)
      | (injection e with e; injection e with e1 e2; rw [← e1]; first
          | exact Ext.refl _
          | exact foldVals_ext _ ih _ _ _ _ _ _ (by assumption)
          | exact Ext.trans (foldVals_ext _ ih _ _ _ _ _ _ (by assumption)) (ext_newArr _ _ _ _)
          | exact Ext.trans (foldVals_ext _ ih _ _ _ _ _ _ (by assumption)) (ext_newMap _ _ _))

/-! ### Operations aimed at an immutable value -/

/-- The handle an operation is aimed at (selector assignment: depth one; deeper assignments are covered by
`step_preserves`, their target is whatever the element reads hand out). -/
def _root_.Tengo.Model.Heap9.Op.target : Op → Option Nat
  | .setSel x [_] _ => some x
  | .append x _ _ => some x
  | .splice x _ _ _ => some x
  | .delete x _ => some x
  | .slice x _ _ _ => some x
  | .add x _ => some x
  | .copy x _ => some x
  | .freeze x => some x
  | .iter x => some x
  | .idxGet x _ => some x
  | .eq x _ => some x
  | _ => none

/-- `v` is an immutable container or an error value. -/
def IsImmutable (h : Heap) (v : Val) : Prop :=
  ∃ r, v = .ref r ∧ ((∃ s off len cap, h.obj r = .arr false s off len cap) ∨ (∃ s, h.obj r = .map false s) ∨ (∃ p, h.obj r = .err p))

/-- The three mutators answer an error on an immutable value and leave the whole heap as it was. -/
theorem write_to_immutable_fails {h : Heap} {x : Nat} {v : Val} (hx : h.regs[x]? = some v) (im : IsImmutable h v) :
    (∀ i src, (∃ e, step h (.setSel x [i] src) = (h, .err e)) ∨ step h (.setSel x [i] src) = (h, .bad)) ∧
    (∀ args nc dc, step h (.splice x args nc dc) = (h, .err .invalidArgFirst) ∨ step h (.splice x args nc dc) = (h, .bad)) ∧
    (∀ k, step h (.delete x k) = (h, .err .invalidArgFirst) ∨ step h (.delete x k) = (h, .bad)) := by
  obtain ⟨r, rfl, hr⟩ := im
  refine ⟨?_, ?_, ?_⟩
  · intro i src
    simp only [step, hx, regsOf]
    cases hi : h.regs[i]? <;> cases hs : h.regs[src]? <;> simp
    rcases hr with ⟨s, off, len, cap, e⟩ | ⟨s, e⟩ | ⟨p, e⟩ <;> simp [indexAssign, indexSet, e]
  · intro args nc dc
    simp only [step, stepSplice, hx]
    cases ha : regsOf h args <;> simp
    rcases hr with ⟨s, off, len, cap, e⟩ | ⟨s, e⟩ | ⟨p, e⟩ <;> simp [e]
  · intro k
    simp only [step, stepDelete, hx]
    cases hk : h.regs[k]? <;> simp
    rcases hr with ⟨s, off, len, cap, e⟩ | ⟨s, e⟩ | ⟨p, e⟩ <;> simp [e]

/-- Whatever is aimed at an immutable value modifies no existing object, backing array or Go map. -/
theorem ops_on_immutable_noop {h : Heap} {op : Op} {x : Nat} {v : Val} (ht : op.target = some x)
    (hx : h.regs[x]? = some v) (im : IsImmutable h v) : Ext h (step h op).1 := by
  obtain ⟨r, rfl, hr⟩ := im
  cases op
  case setSel y sels src =>
    cases sels with
    | nil => simp [Op.target] at ht
    | cons i rest =>
      cases rest with
      | cons j rest' => simp [Op.target] at ht
      | nil =>
        simp [Op.target] at ht; subst ht
        rcases (write_to_immutable_fails hx ⟨r, rfl, hr⟩).1 i src with ⟨e, he⟩ | he <;> rw [he] <;> exact Ext.refl _
  case splice y args nc dc =>
    simp [Op.target] at ht; subst ht
    rcases (write_to_immutable_fails hx ⟨r, rfl, hr⟩).2.1 args nc dc with he | he <;> rw [he] <;> exact Ext.refl _
  case delete y k =>
    simp [Op.target] at ht; subst ht
    rcases (write_to_immutable_fails hx ⟨r, rfl, hr⟩).2.2 k with he | he <;> rw [he] <;> exact Ext.refl _
  all_goals (simp [Op.target] at ht; try subst ht)
  all_goals (
    simp only [step, stepAppend, stepSlice, stepAdd, stepIter, hx]
    repeat' split
    all_goals first
      | exact Ext.refl _
      | exact ext_push _ _
      | exact ext_pushAll _ _
      | exact pushNew_ext (ext_newArr _ _ _ _)
      | exact Ext.trans (copyN_ext _ _ _ _ _ _ _ (by assumption)) (ext_push _ _)
      | exact Ext.trans (freeze_pure _ _ _ _ _ _ _ (by assumption)) (ext_push _ _)
      | (exfalso; rcases hr with ⟨s, off, len, cap, e⟩ | ⟨s, e⟩ | ⟨p, e⟩ <;> simp_all))

/-- An operation aimed at an immutable value fails with an error leaving the heap as it was, or leaves
every existing object and store unchanged (it may allocate a result). -/
theorem write_fails_or_noop {h : Heap} {op : Op} {x : Nat} {v : Val} (ht : op.target = some x)
    (hx : h.regs[x]? = some v) (im : IsImmutable h v) :
    (∃ e, step h op = (h, .err e)) ∨ Ext h (step h op).1 :=
  .inr (ops_on_immutable_noop ht hx im)

/-! ### Making a value immutable -/

/-- The stores owned by an immutable wrapper `v`: its own backing array or Go map (for `immutable(expr)`,
`export`, builtin-module tables; for `freeze` see `DeepImm`: every store reachable). -/
def Frozen (h : Heap) (v : Val) : FSet
  | .a s => ∃ r off len cap : Nat, v = .ref r ∧ h.objs[r]? = some (Obj.arr false s off len cap)
  | .m s => ∃ r : Nat, v = .ref r ∧ h.objs[r]? = some (Obj.map false s)

/-- "No mutable alias of its storage existed before": the operand `r` is the only mutable header over
its (allocated) store. -/
def NoMutableAlias (h : Heap) (r : Ref) : Prop :=
  (∀ s off len cap : Nat, h.objs[r]? = some (Obj.arr true s off len cap) →
      s < h.astores.length ∧ ∀ q off' len' cap' : Nat, h.objs[q]? = some (Obj.arr true s off' len' cap') → q = r) ∧
  (∀ s : Nat, h.objs[r]? = some (Obj.map true s) →
      s < h.mstores.length ∧ ∀ q : Nat, h.objs[q]? = some (Obj.map true s) → q = r)

theorem stepImmutable_arr {h : Heap} {x r s off len cap : Nat} (hx : h.regs[x]? = some (.ref r))
    (e : h.obj r = .arr true s off len cap) :
    (step h (.immutable true x)).1 =
      { objs := h.objs.set r .dead ++ [.arr false s off len cap], astores := h.astores, mstores := h.mstores,
        regs := h.regs.set x .undef ++ [.ref h.objs.length] } := by
  simp [step, stepImmutable, hx, e, pushNew, Heap.allocObj, Heap.setObj, Heap.push]

theorem stepImmutable_map {h : Heap} {x r s : Nat} (hx : h.regs[x]? = some (.ref r))
    (e : h.obj r = .map true s) :
    (step h (.immutable true x)).1 =
      { objs := h.objs.set r .dead ++ [.map false s], astores := h.astores, mstores := h.mstores,
        regs := h.regs.set x .undef ++ [.ref h.objs.length] } := by
  simp [step, stepImmutable, hx, e, pushNew, Heap.allocObj, Heap.setObj, Heap.push]

/-- Lookup in the object table after `immutable(tmp)`. -/
theorem lookup_after_consume {objs : List Obj} {r q : Nat} {n o : Obj} (hq : (objs.set r .dead ++ [n])[q]? = some o) :
    (q ≠ r ∧ objs[q]? = some o) ∨ o = .dead ∨ (q = objs.length ∧ o = n) := by
  rcases getElem?_append_one _ _ _ hq with e | ⟨e1, e2⟩
  · rcases getElem?_set_cases _ _ _ _ _ e with e' | ⟨_, e', _⟩
    · by_cases hqr : q = r
      · subst hqr
        by_cases hl : q < objs.length
        · rw [List.getElem?_set_self hl] at e; injection e with e; exact .inr (.inl e.symm)
        · have : objs.length ≤ q := Nat.le_of_not_lt hl
          rw [List.getElem?_eq_none this] at e'; cases e'
      · exact .inl ⟨hqr, e'⟩
    · exact .inr (.inl e')
  · simp at e1; exact .inr (.inr ⟨e1, e2⟩)

/-- `immutable(x)` of a temporary without another mutable alias establishes the invariant for the stores
the new immutable value owns; the result is handed out as a new handle. -/
theorem make_immutable_inv {h : Heap} {x r : Nat} (hx : h.regs[x]? = some (.ref r))
    (hm : (h.obj r).isMut = true) (na : NoMutableAlias h r) :
    (step h (.immutable true x)).1.regs[h.regs.length]? = some (.ref h.objs.length) ∧
    Inv (step h (.immutable true x)).1 (Frozen (step h (.immutable true x)).1 (.ref h.objs.length)) ∧
    (∃ l, Frozen (step h (.immutable true x)).1 (.ref h.objs.length) l) := by
  cases e : h.obj r with
  | arr mu s off len cap =>
    rw [e] at hm; simp [Obj.isMut] at hm; subst hm
    have ho := obj_some e (by simp)
    obtain ⟨hs, huniq⟩ := na.1 s off len cap ho
    rw [stepImmutable_arr hx e]
    have hnew : (h.objs.set r .dead ++ [Obj.arr false s off len cap])[h.objs.length]? = some (Obj.arr false s off len cap) := by
      rw [List.getElem?_append_right (by simp)]; simp
    refine ⟨by simp, ⟨?_, ?_, ?_, ?_⟩, ⟨.a s, h.objs.length, off, len, cap, rfl, hnew⟩⟩
    · intro t ⟨q, off', len', cap', hq, hq2⟩
      injection hq with hq; subst hq
      simp only at hq2; rw [hnew] at hq2; injection hq2 with hq2; injection hq2 with _ e2; rw [← e2]; exact hs
    · intro t ⟨q, hq, hq2⟩
      injection hq with hq; subst hq
      simp only at hq2; rw [hnew] at hq2; cases hq2
    · intro t ⟨q, off', len', cap', hq⟩ ⟨q2, off2, len2, cap2, hq2, hq3⟩
      injection hq2 with hq2; subst hq2
      simp only at hq3 hq; rw [hnew] at hq3; injection hq3 with hq3; injection hq3 with _ e2
      subst e2
      rcases lookup_after_consume hq with ⟨hne, e'⟩ | e' | ⟨_, e'⟩
      · exact hne (huniq q off' len' cap' e')
      · cases e'
      · cases e'
    · intro t _ ⟨q2, hq2, hq3⟩
      injection hq2 with hq2; subst hq2
      simp only at hq3; rw [hnew] at hq3; cases hq3
  | map mu s =>
    rw [e] at hm; simp [Obj.isMut] at hm; subst hm
    have ho := obj_some e (by simp)
    obtain ⟨hs, huniq⟩ := na.2 s ho
    rw [stepImmutable_map hx e]
    have hnew : (h.objs.set r .dead ++ [Obj.map false s])[h.objs.length]? = some (Obj.map false s) := by
      rw [List.getElem?_append_right (by simp)]; simp
    refine ⟨by simp, ⟨?_, ?_, ?_, ?_⟩, ⟨.m s, h.objs.length, rfl, hnew⟩⟩
    · intro t ⟨q, off', len', cap', hq, hq2⟩
      injection hq with hq; subst hq
      simp only at hq2; rw [hnew] at hq2; cases hq2
    · intro t ⟨q, hq, hq2⟩
      injection hq with hq; subst hq
      simp only at hq2; rw [hnew] at hq2; injection hq2 with hq2; injection hq2 with _ e2; rw [← e2]; exact hs
    · intro t _ ⟨q2, off2, len2, cap2, hq2, hq3⟩
      injection hq2 with hq2; subst hq2
      simp only at hq3; rw [hnew] at hq3; cases hq3
    · intro t ⟨q, hq⟩ ⟨q2, hq2, hq3⟩
      injection hq2 with hq2; subst hq2
      simp only at hq3 hq; rw [hnew] at hq3; injection hq3 with hq3; injection hq3 with _ e2
      subst e2
      rcases lookup_after_consume hq with ⟨hne, e'⟩ | e' | ⟨_, e'⟩
      · exact hne (huniq q e')
      · cases e'
      · cases e'
  | err p => rw [e] at hm; simp [Obj.isMut] at hm
  | dead => rw [e] at hm; simp [Obj.isMut] at hm

/-! ### freeze -/

/-- Every header's store is allocated (well-formedness of the heap; an invariant of every operation,
checked here where freeze needs it). -/
def storeOk (h : Heap) : Obj → Bool
  | .arr _ s _ _ _ => decide (s < h.astores.length)
  | .map _ s => decide (s < h.mstores.length)
  | _ => true

def Closed (h : Heap) : Prop := ∀ o ∈ h.objs, storeOk h o = true

instance (h : Heap) : Decidable (Closed h) := by unfold Closed; infer_instance

theorem closed_arr {h : Heap} (c : Closed h) {r : Nat} {m : Bool} {s off len cap : Nat}
    (ho : h.objs[r]? = some (Obj.arr m s off len cap)) : ∃ st, h.astores[s]? = some st := by
  have := c _ (List.mem_of_getElem? ho)
  simp [storeOk] at this
  exact ⟨h.astores[s], List.getElem?_eq_getElem this⟩

theorem closed_map {h : Heap} (c : Closed h) {r : Nat} {m : Bool} {s : Nat}
    (ho : h.objs[r]? = some (Obj.map m s)) : ∃ st, h.mstores[s]? = some st := by
  have := c _ (List.mem_of_getElem? ho)
  simp [storeOk] at this
  exact ⟨h.mstores[s], List.getElem?_eq_getElem this⟩

theorem storeOk_mono {h h' : Heap} (a : h.astores.length ≤ h'.astores.length) (m : h.mstores.length ≤ h'.mstores.length)
    {o : Obj} (ok : storeOk h o = true) : storeOk h' o = true := by
  cases o <;> simp [storeOk] at * <;> omega

theorem closed_newArr {h : Heap} (c : Closed h) (mu : Bool) (xs : List Val) (cap : Nat) : Closed (h.newArr mu xs cap).1 := by
  intro o ho
  simp only [Heap.newArr, List.mem_append, List.mem_singleton] at ho
  rcases ho with ho | ho
  · exact storeOk_mono (by simp [Heap.newArr]) (by simp [Heap.newArr]) (c o ho)
  · subst ho; simp [storeOk, Heap.newArr]

theorem closed_newMap {h : Heap} (c : Closed h) (mu : Bool) (kvs : List (String × Val)) : Closed (h.newMap mu kvs).1 := by
  intro o ho
  simp only [Heap.newMap, List.mem_append, List.mem_singleton] at ho
  rcases ho with ho | ho
  · exact storeOk_mono (by simp [Heap.newMap]) (by simp [Heap.newMap]) (c o ho)
  · subst ho; simp [storeOk, Heap.newMap]

/-- Everything reachable from `v` is an immutable container over an allocated store. `behind = false`: error
values are not looked into (what `freezeObject` guarantees); `behind = true`: their payload too (what the
property asks for; false of the code, finding O24). -/
inductive DeepImm (h : Heap) (behind : Bool) : Val → Prop
  | undef : DeepImm h behind .undef
  | int (n : Int) : DeepImm h behind (.int n)
  | str (s : String) : DeepImm h behind (.str s)
  | opq (s : String) : DeepImm h behind (.opq s)
  | arr {r s off len cap : Nat} {st : List Val} : h.objs[r]? = some (Obj.arr false s off len cap) →
      h.astores[s]? = some st → (∀ x ∈ (st.drop off).take len, DeepImm h behind x) → DeepImm h behind (.ref r)
  | map {r s : Nat} {kvs : List (String × Val)} : h.objs[r]? = some (Obj.map false s) →
      h.mstores[s]? = some kvs → (∀ x ∈ kvs.map Prod.snd, DeepImm h behind x) → DeepImm h behind (.ref r)
  | err {r : Nat} {p : Val} : h.objs[r]? = some (Obj.err p) → (behind = true → DeepImm h behind p) →
      DeepImm h behind (.ref r)

/-- `a.Equals(b)` as a relation (arrays/maps of either mutability compare by contents, errors by identity).
Opaque scalars are related to themselves: exact on NaN-free, function-free values. -/
inductive Eqv (h : Heap) : Val → Val → Prop
  | undef : Eqv h .undef .undef
  | int (n : Int) : Eqv h (.int n) (.int n)
  | str (s : String) : Eqv h (.str s) (.str s)
  | opq (s : String) : Eqv h (.opq s) (.opq s)
  | arr {r r' s s' off off' len len' cap cap' : Nat} {m m' : Bool} {st st' : List Val} :
      h.objs[r]? = some (Obj.arr m s off len cap) → h.objs[r']? = some (Obj.arr m' s' off' len' cap') →
      h.astores[s]? = some st → h.astores[s']? = some st' →
      ((st.drop off).take len).length = ((st'.drop off').take len').length →
      (∀ (i : Nat) (a b : Val), ((st.drop off).take len)[i]? = some a → ((st'.drop off').take len')[i]? = some b → Eqv h a b) →
      Eqv h (.ref r) (.ref r')
  | map {r r' s s' : Nat} {m m' : Bool} {kvs kvs' : List (String × Val)} :
      h.objs[r]? = some (Obj.map m s) → h.objs[r']? = some (Obj.map m' s') →
      h.mstores[s]? = some kvs → h.mstores[s']? = some kvs' →
      kvs.map Prod.fst = kvs'.map Prod.fst →
      (∀ (i : Nat) (a b : Val), (kvs.map Prod.snd)[i]? = some a → (kvs'.map Prod.snd)[i]? = some b → Eqv h a b) →
      Eqv h (.ref r) (.ref r')
  | err {r : Nat} {p : Val} : h.objs[r]? = some (Obj.err p) → Eqv h (.ref r) (.ref r)

theorem DeepImm.mono {h h' : Heap} {b : Bool} (e : Ext h h') {v : Val} (d : DeepImm h b v) : DeepImm h' b v := by
  induction d with
  | undef => exact .undef
  | int n => exact .int n
  | str s => exact .str s
  | opq s => exact .opq s
  | arr ho hs _ ih => exact .arr (e.objs _ _ ho) (e.astores _ _ hs) ih
  | map ho hs _ ih => exact .map (e.objs _ _ ho) (e.mstores _ _ hs) ih
  | err ho _ ih => exact .err (e.objs _ _ ho) ih

theorem Eqv.mono {h h' : Heap} (e : Ext h h') {a b : Val} (d : Eqv h a b) : Eqv h' a b := by
  induction d with
  | undef => exact .undef
  | int n => exact .int n
  | str s => exact .str s
  | opq s => exact .opq s
  | arr ho ho' hs hs' hl _ ih => exact .arr (e.objs _ _ ho) (e.objs _ _ ho') (e.astores _ _ hs) (e.astores _ _ hs') hl ih
  | map ho ho' hs hs' hk _ ih => exact .map (e.objs _ _ ho) (e.objs _ _ ho') (e.mstores _ _ hs) (e.mstores _ _ hs') hk ih
  | err ho => exact .err (e.objs _ _ ho)

/-- Memo entries are finished: the frozen copy is deeply immutable and equal to its source. -/
def MemoOK (h : Heap) (memo : Memo) : Prop :=
  ∀ r r' : Nat, memo.find r = some r' → DeepImm h false (.ref r') ∧ Eqv h (.ref r') (.ref r)

theorem MemoOK.mono {h h' : Heap} {memo : Memo} (e : Ext h h') (m : MemoOK h memo) : MemoOK h' memo :=
  fun r r' f => ⟨(m r r' f).1.mono e, (m r r' f).2.mono e⟩

theorem MemoOK.cons {h : Heap} {memo : Memo} {r r' : Nat} (m : MemoOK h memo)
    (d : DeepImm h false (.ref r')) (q : Eqv h (.ref r') (.ref r)) : MemoOK h ((r, r') :: memo) := by
  intro a b f
  simp only [Memo.find] at f
  split at f
  · injection f with f; subst_vars; exact ⟨d, q⟩
  · exact m a b f

theorem memoOK_nil (h : Heap) : MemoOK h [] := by intro r r' f; simp [Memo.find] at f

theorem newArr_obj (h : Heap) (mu : Bool) (xs : List Val) (cap : Nat) :
    (h.newArr mu xs cap).1.objs[h.objs.length]? = some (Obj.arr mu h.astores.length 0 xs.length (max cap xs.length)) := by
  simp [Heap.newArr]

theorem newArr_store (h : Heap) (mu : Bool) (xs : List Val) (cap : Nat) :
    (h.newArr mu xs cap).1.astores[h.astores.length]? = some (xs ++ List.replicate (max cap xs.length - xs.length) Val.undef) := by
  simp [Heap.newArr]

theorem newMap_obj (h : Heap) (mu : Bool) (kvs : List (String × Val)) :
    (h.newMap mu kvs).1.objs[h.objs.length]? = some (Obj.map mu h.mstores.length) := by
  simp [Heap.newMap]

theorem newMap_store (h : Heap) (mu : Bool) (kvs : List (String × Val)) :
    (h.newMap mu kvs).1.mstores[h.mstores.length]? = some kvs := by
  simp [Heap.newMap]

theorem take_pad (xs : List Val) (k : Nat) : ((xs ++ List.replicate k Val.undef).drop 0).take xs.length = xs := by simp

theorem content_eq {h : Heap} {s : Nat} {st : List Val} (hs : h.astores[s]? = some st) (off len : Nat) :
    h.content s off len = (st.drop off).take len := by
  simp [Heap.content, Heap.astore, List.getD_eq_getElem?_getD, hs]

theorem mstore_eq {h : Heap} {s : Nat} {kvs : List (String × Val)} (hs : h.mstores[s]? = some kvs) : h.mstore s = kvs := by
  simp [Heap.mstore, List.getD_eq_getElem?_getD, hs]

theorem zip_fst {α β} : ∀ (l1 : List α) (l2 : List β), l1.length = l2.length → (l1.zip l2).map Prod.fst = l1
  | [], _, _ => by simp
  | a :: l1, [], e => by simp at e
  | a :: l1, b :: l2, e => by simp at e; simp [zip_fst l1 l2 e]

theorem zip_snd {α β} : ∀ (l1 : List α) (l2 : List β), l1.length = l2.length → (l1.zip l2).map Prod.snd = l2
  | [], [], _ => by simp
  | [], b :: l2, e => by simp at e
  | a :: l1, [], e => by simp at e
  | a :: l1, b :: l2, e => by simp at e; simp [zip_snd l1 l2 e]

theorem frozen_arr_ok {h1 : Heap} {fs : List Val} {b : Bool} (hd : ∀ x ∈ fs, DeepImm h1 b x) :
    DeepImm (h1.newArr false fs fs.length).1 b (.ref h1.objs.length) := by
  refine .arr (newArr_obj _ _ _ _) (newArr_store _ _ _ _) ?_
  rw [take_pad]
  intro x hx
  exact (hd x hx).mono (ext_newArr _ _ _ _)

theorem frozen_arr_eqv {h1 : Heap} {fs : List Val} {r s off len cap : Nat} {m : Bool} {st : List Val}
    (ho : h1.objs[r]? = some (Obj.arr m s off len cap)) (hs : h1.astores[s]? = some st)
    (hl : fs.length = ((st.drop off).take len).length)
    (hp : ∀ (i : Nat) (a b : Val), fs[i]? = some a → ((st.drop off).take len)[i]? = some b → Eqv h1 a b) :
    Eqv (h1.newArr false fs fs.length).1 (.ref h1.objs.length) (.ref r) := by
  have e := ext_newArr h1 false fs fs.length
  refine .arr (newArr_obj _ _ _ _) (e.objs _ _ ho) (newArr_store _ _ _ _) (e.astores _ _ hs) ?_ ?_
  · rw [take_pad]; exact hl
  · rw [take_pad]; intro i a b ha hb; exact (hp i a b ha hb).mono e

theorem frozen_map_ok {h1 : Heap} {keys : List String} {fs : List Val} {b : Bool} (hk : keys.length = fs.length)
    (hd : ∀ x ∈ fs, DeepImm h1 b x) :
    DeepImm (h1.newMap false (keys.zip fs)).1 b (.ref h1.objs.length) := by
  refine .map (newMap_obj _ _ _) (newMap_store _ _ _) ?_
  rw [zip_snd _ _ hk]
  intro x hx
  exact (hd x hx).mono (ext_newMap _ _ _)

theorem frozen_map_eqv {h1 : Heap} {fs : List Val} {r s : Nat} {m : Bool} {kvs : List (String × Val)}
    (ho : h1.objs[r]? = some (Obj.map m s)) (hs : h1.mstores[s]? = some kvs)
    (hl : fs.length = (kvs.map Prod.snd).length)
    (hp : ∀ (i : Nat) (a b : Val), fs[i]? = some a → (kvs.map Prod.snd)[i]? = some b → Eqv h1 a b) :
    Eqv (h1.newMap false ((kvs.map Prod.fst).zip fs)).1 (.ref h1.objs.length) (.ref r) := by
  have e := ext_newMap h1 false ((kvs.map Prod.fst).zip fs)
  have hk : (kvs.map Prod.fst).length = fs.length := by simp at hl; simp [hl]
  refine .map (newMap_obj _ _ _) (e.objs _ _ ho) (newMap_store _ _ _) (e.mstores _ _ hs) ?_ ?_
  · rw [zip_fst _ _ hk]
  · rw [zip_snd _ _ hk]; intro i a b ha hb; exact (hp i a b ha hb).mono e

/-- What one call of freeze establishes, as a predicate to thread through the element loop. -/
def FreezeSpec (n : Nat) : Prop :=
  ∀ (h : Heap) (memo : Memo) (v : Val) (h' : Heap) (memo' : Memo) (v' : Val),
    freezeN n h memo v = some (h', memo', v') → Closed h → MemoOK h memo →
    Closed h' ∧ MemoOK h' memo' ∧ DeepImm h' false v' ∧ Eqv h' v' v

theorem foldVals_freeze_spec {n : Nat} (ih : FreezeSpec n) :
    ∀ (vs : List Val) (h : Heap) (memo : Memo) (h' : Heap) (memo' : Memo) (fs : List Val),
      foldVals (freezeN n) h memo vs = some (h', memo', fs) → Closed h → MemoOK h memo →
      Closed h' ∧ MemoOK h' memo' ∧ fs.length = vs.length ∧
      ∀ (i : Nat) (f e : Val), fs[i]? = some f → vs[i]? = some e → DeepImm h' false f ∧ Eqv h' f e := by
  intro vs
  induction vs with
  | nil =>
    intro h memo h' memo' fs e c m
    simp [foldVals] at e
    obtain ⟨e1, e2, e3⟩ := e
    subst e1 e2 e3
    exact ⟨c, m, rfl, by intro i f e hf; simp at hf⟩
  | cons v vs ihl =>
    intro h memo h' memo' fs e c m
    unfold foldVals at e
    split at e
    · cases e
    · rename_i h1 m1 v1 e1
      split at e
      · cases e
      · rename_i h2 m2 vs2 e2
        injection e with e; injection e with e3 e4; injection e4 with e4 e5
        subst e3 e4 e5
        obtain ⟨c1, mo1, d1, q1⟩ := ih _ _ _ _ _ _ e1 c m
        obtain ⟨c2, mo2, l2, p2⟩ := ihl _ _ _ _ _ e2 c1 mo1
        have x12 : Ext h1 h2 := foldVals_ext _ (freeze_pure n) _ _ _ _ _ _ e2
        refine ⟨c2, mo2, by simp [l2], ?_⟩
        intro i f e hf he
        cases i with
        | zero => simp at hf he; subst hf he; exact ⟨d1.mono x12, q1.mono x12⟩
        | succ i => simp at hf he; exact p2 i f e hf he

theorem mem_of_spec {h : Heap} {fs vs : List Val} (hl : fs.length = vs.length)
    (hp : ∀ (i : Nat) (f e : Val), fs[i]? = some f → vs[i]? = some e → DeepImm h false f ∧ Eqv h f e) :
    ∀ x ∈ fs, DeepImm h false x := by
  intro x hx
  obtain ⟨i, hi⟩ := List.getElem?_of_mem hx
  have hlt : i < vs.length := by
    rcases List.getElem?_eq_some_iff.mp hi with ⟨hl', _⟩; omega
  exact (hp i x vs[i] hi (List.getElem?_eq_getElem hlt)).1

theorem eqv_of_spec {h : Heap} {fs vs : List Val}
    (hp : ∀ (i : Nat) (f e : Val), fs[i]? = some f → vs[i]? = some e → DeepImm h false f ∧ Eqv h f e) :
    ∀ (i : Nat) (a b : Val), fs[i]? = some a → vs[i]? = some b → Eqv h a b :=
  fun i a b ha hb => (hp i a b ha hb).2

theorem same_index {α} {l : List α} {i : Nat} {a b : α} (ha : l[i]? = some a) (hb : l[i]? = some b) : a = b := by
  rw [ha] at hb; injection hb

/-- freeze: the result is immutable throughout (not looking behind error values) and equal to the
argument; the memo stays consistent; the heap stays well-formed. -/
theorem freeze_spec : ∀ n : Nat, FreezeSpec n := by
  intro n
  induction n with
  | zero => intro h memo v h' memo' v' e; simp [freezeN] at e
  | succ n ih =>
    intro h memo v h' memo' v' e c m
    unfold freezeN at e
    split at e
    · rename_i r
      split at e
      · -- *Array
        rename_i s off len cap heq
        have ho := obj_some heq (by simp)
        obtain ⟨st, hs⟩ := closed_arr c ho
        split at e
        · rename_i r' hf
          injection e with e; injection e with e1 e2; injection e2 with e2 e3; subst e1 e2 e3
          exact ⟨c, m, (m r r' hf).1, (m r r' hf).2⟩
        · split at e
          · cases e
          · rename_i h1 memo1 fs ef
            injection e with e; injection e with e1 e2; injection e2 with e2 e3; subst e1 e2 e3
            obtain ⟨c1, mo1, l1, p1⟩ := foldVals_freeze_spec ih _ _ _ _ _ _ ef c m
            have x1 : Ext h h1 := foldVals_ext _ (freeze_pure n) _ _ _ _ _ _ ef
            rw [content_eq hs] at l1 p1
            have d := frozen_arr_ok (mem_of_spec l1 p1)
            have q := frozen_arr_eqv (x1.objs _ _ ho) (x1.astores _ _ hs) l1 (eqv_of_spec p1)
            exact ⟨closed_newArr c1 _ _ _, (mo1.mono (ext_newArr _ _ _ _)).cons d q, d, q⟩
      · -- *ImmutableArray
        rename_i s off len cap heq
        have ho := obj_some heq (by simp)
        obtain ⟨st, hs⟩ := closed_arr c ho
        split at e
        · cases e
        · rename_i h1 memo1 fs ef
          obtain ⟨c1, mo1, l1, p1⟩ := foldVals_freeze_spec ih _ _ _ _ _ _ ef c m
          have x1 : Ext h h1 := foldVals_ext _ (freeze_pure n) _ _ _ _ _ _ ef
          rw [content_eq hs] at l1 p1
          split at e
          · rename_i hfs
            rw [content_eq hs] at hfs
            injection e with e; injection e with e1 e2; injection e2 with e2 e3; subst e1 e2 e3
            refine ⟨c1, mo1, ?_, ?_⟩
            · refine .arr (x1.objs _ _ ho) (x1.astores _ _ hs) ?_
              rw [← hfs]; exact mem_of_spec l1 p1
            · refine .arr (x1.objs _ _ ho) (x1.objs _ _ ho) (x1.astores _ _ hs) (x1.astores _ _ hs) rfl ?_
              intro i a b ha hb
              have := same_index ha hb; subst this
              exact (p1 i a a (by rw [hfs]; exact ha) ha).2
          · injection e with e; injection e with e1 e2; injection e2 with e2 e3; subst e1 e2 e3
            have d := frozen_arr_ok (mem_of_spec l1 p1)
            have q := frozen_arr_eqv (x1.objs _ _ ho) (x1.astores _ _ hs) l1 (eqv_of_spec p1)
            exact ⟨closed_newArr c1 _ _ _, mo1.mono (ext_newArr _ _ _ _), d, q⟩
      · -- *Map
        rename_i s heq
        have ho := obj_some heq (by simp)
        obtain ⟨kvs, hs⟩ := closed_map c ho
        split at e
        · rename_i r' hf
          injection e with e; injection e with e1 e2; injection e2 with e2 e3; subst e1 e2 e3
          exact ⟨c, m, (m r r' hf).1, (m r r' hf).2⟩
        · split at e
          · cases e
          · rename_i h1 memo1 fs ef
            injection e with e; injection e with e1 e2; injection e2 with e2 e3; subst e1 e2 e3
            obtain ⟨c1, mo1, l1, p1⟩ := foldVals_freeze_spec ih _ _ _ _ _ _ ef c m
            have x1 : Ext h h1 := foldVals_ext _ (freeze_pure n) _ _ _ _ _ _ ef
            rw [mstore_eq hs] at l1 p1 ⊢
            have hk : (kvs.map Prod.fst).length = fs.length := by simp at l1; simp [l1]
            have d := frozen_map_ok (h1 := h1) hk (mem_of_spec l1 p1)
            have q := frozen_map_eqv (x1.objs _ _ ho) (x1.mstores _ _ hs) l1 (eqv_of_spec p1)
            exact ⟨closed_newMap c1 _ _, (mo1.mono (ext_newMap _ _ _)).cons d q, d, q⟩
      · -- *ImmutableMap
        rename_i s heq
        have ho := obj_some heq (by simp)
        obtain ⟨kvs, hs⟩ := closed_map c ho
        split at e
        · cases e
        · rename_i h1 memo1 fs ef
          obtain ⟨c1, mo1, l1, p1⟩ := foldVals_freeze_spec ih _ _ _ _ _ _ ef c m
          have x1 : Ext h h1 := foldVals_ext _ (freeze_pure n) _ _ _ _ _ _ ef
          rw [mstore_eq hs] at l1 p1 e
          split at e
          · rename_i hfs
            injection e with e; injection e with e1 e2; injection e2 with e2 e3; subst e1 e2 e3
            refine ⟨c1, mo1, ?_, ?_⟩
            · refine .map (x1.objs _ _ ho) (x1.mstores _ _ hs) ?_
              rw [← hfs]; exact mem_of_spec l1 p1
            · refine .map (x1.objs _ _ ho) (x1.objs _ _ ho) (x1.mstores _ _ hs) (x1.mstores _ _ hs) rfl ?_
              intro i a b ha hb
              have := same_index ha hb; subst this
              exact (p1 i a a (by rw [hfs]; exact ha) ha).2
          · injection e with e; injection e with e1 e2; injection e2 with e2 e3; subst e1 e2 e3
            have hk : (kvs.map Prod.fst).length = fs.length := by simp at l1; simp [l1]
            have d := frozen_map_ok (h1 := h1) hk (mem_of_spec l1 p1)
            have q := frozen_map_eqv (x1.objs _ _ ho) (x1.mstores _ _ hs) l1 (eqv_of_spec p1)
            exact ⟨closed_newMap c1 _ _, mo1.mono (ext_newMap _ _ _), d, q⟩
      · -- *Error: returned as it is
        rename_i p heq
        have ho := obj_some heq (by simp)
        injection e with e; injection e with e1 e2; injection e2 with e2 e3; subst e1 e2 e3
        exact ⟨c, m, .err ho (by intro hb; cases hb), .err ho⟩
      · cases e
    · injection e with e; injection e with e1 e2; injection e2 with e2 e3; subst e1 e2 e3
      rename_i hnr
      cases v with
      | undef => exact ⟨c, m, .undef, .undef⟩
      | int k => exact ⟨c, m, .int k, .int k⟩
      | str t => exact ⟨c, m, .str t, .str t⟩
      | opq t => exact ⟨c, m, .opq t, .opq t⟩
      | ref r => exact absurd rfl (hnr r)

/-- `freeze(x)` as an operation: it only allocates (`Ext`: no pre-existing location, the argument
included, is modified), hands out a value equal to its argument, immutable throughout as far as error
values are not looked into, and keeps the heap well-formed. `Out.fuel` only on cyclic values. -/
theorem freeze_equal_and_pure_partial {h : Heap} {x : Nat} {v : Val} (hx : h.regs[x]? = some v) (c : Closed h) :
    (step h (.freeze x)) = (h, .fuel) ∨
    ∃ v', (step h (.freeze x)).2 = .pushed 1 ∧ (step h (.freeze x)).1.regs[h.regs.length]? = some v' ∧
      Ext h (step h (.freeze x)).1 ∧ Eqv (step h (.freeze x)).1 v' v ∧
      DeepImm (step h (.freeze x)).1 false v' ∧ Closed (step h (.freeze x)).1 := by
  simp only [step, hx]
  split
  · rename_i h1 mm w e
    right
    obtain ⟨c1, _, d, q⟩ := freeze_spec _ _ _ _ _ _ _ e c (memoOK_nil h)
    have x1 := freeze_pure _ _ _ _ _ _ _ e
    have hp : h1.regs = h.regs := by
      have : ∀ (n : Nat) (h : Heap) (memo : Memo) (v : Val) (h' : Heap) (memo' : Memo) (v' : Val),
          freezeN n h memo v = some (h', memo', v') → h'.regs = h.regs := by
        intro n
        induction n with
        | zero => intro h memo v h' memo' v' e; simp [freezeN] at e
        | succ n ih =>
          have fold : ∀ (vs : List Val) (h : Heap) (st : Memo) (h' : Heap) (st' : Memo) (vs' : List Val),
              foldVals (freezeN n) h st vs = some (h', st', vs') → h'.regs = h.regs := by
            intro vs
            induction vs with
            | nil => intro h st h' st' vs' e; simp [foldVals] at e; rw [e.1]
            | cons v vs ihl =>
              intro h st h' st' vs' e
              unfold foldVals at e
              split at e
              · cases e
              · rename_i h1 st1 v1 e1
                split at e
                · cases e
                · rename_i h2 st2 vs2 e2
                  injection e with e; injection e with e3 e4
                  rw [← e3, ihl _ _ _ _ _ e2, ih _ _ _ _ _ _ e1]
          intro h memo v h' memo' v' e
          unfold freezeN at e
          repeat' split at e
          all_goals first
            | (cases e; done)
            | (injection e with e; injection e with e1 e2; subst e1; first
                | rfl
                | exact fold _ _ _ _ _ _ (by assumption)
                | (simp only [Heap.newArr, Heap.newMap]; exact fold _ _ _ _ _ _ (by assumption)))
      exact this _ _ _ _ _ _ _ e
    refine ⟨w, rfl, ?_, Ext.trans x1 (ext_push _ _), q.mono (ext_push _ _), d.mono (ext_push _ _), ?_⟩
    · simp [Heap.push, hp]
    · intro o ho; exact storeOk_mono (Nat.le_refl _) (Nat.le_refl _) (c1 o ho)
  · left; rfl

/-- The statement the property asks for: everything reachable from `freeze(x)`, error payloads
included, is immutable. -/
def freeze_deep_immutable_full : Prop :=
  ∀ (h : Heap) (x : Nat) (v v' : Val), Closed h → h.regs[x]? = some v →
    (step h (.freeze x)).2 = .pushed 1 → (step h (.freeze x)).1.regs[h.regs.length]? = some v' →
    DeepImm (step h (.freeze x)).1 true v'

/-- Witness of finding O24: `freeze([error([3])])`. -/
def o24pre : Heap := run {} [.lit (.int 3), .mkArr [0] 1, .mkErr 1, .mkArr [2] 1]
def o24heap : Heap := (step o24pre (.freeze 3)).1

theorem o24_objs : o24heap.objs = [.arr true 0 0 1 1, .err (.ref 0), .arr true 1 0 1 1, .arr false 2 0 1 1] := by decide
theorem o24_astores : o24heap.astores = [[.int 3], [.ref 1], [.ref 1]] := by decide

theorem o24_not_deep : ¬ DeepImm o24heap true (.ref 3) := by
  intro H
  cases H with
  | arr ho hs hall =>
    rw [o24_objs] at ho; simp at ho
    obtain ⟨rfl, rfl, rfl, rfl⟩ := ho
    rw [o24_astores] at hs; simp at hs; subst hs
    have h1 := hall (.ref 1) (by simp)
    cases h1 with
    | arr ho1 _ _ => rw [o24_objs] at ho1; simp at ho1
    | map ho1 _ _ => rw [o24_objs] at ho1; simp at ho1
    | err ho1 hp =>
      rw [o24_objs] at ho1; simp at ho1; subst ho1
      have h0 := hp rfl
      cases h0 with
      | arr ho0 _ _ => rw [o24_objs] at ho0; simp at ho0
      | map ho0 _ _ => rw [o24_objs] at ho0; simp at ho0
      | err ho0 _ => rw [o24_objs] at ho0; simp at ho0
  | map ho _ _ => rw [o24_objs] at ho; simp at ho
  | err ho _ => rw [o24_objs] at ho; simp at ho

/-- The full statement is false of the code as it is (finding O24: `freezeObject` returns error values
as they are, so the payload of an error inside a frozen value stays mutable). -/
theorem freeze_deep_immutable_full_false : ¬ freeze_deep_immutable_full := by
  intro H
  exact o24_not_deep (H o24pre 3 (.ref 2) (.ref 3) (by decide) (by decide) (by decide) (by decide))

/-- The same witness dynamically: after `f := freeze([error([3])])`, the assignment `f[0].value[0] = 8`
succeeds and rewrites a backing array reachable from the frozen value. -/
theorem o24_write_through_error_payload :
    let ops : List Op := [.lit (.int 0), .lit (.str (hexStr "value")), .idxGet 4 5, .idxGet 7 6, .lit (.int 8), .setSel 8 [5] 9]
    (step (run o24heap (ops.take 5)) (.setSel 8 [5] 9)).2 = .done ∧
    o24heap.astores[0]? = some [.int 3] ∧ (run o24heap ops).astores[0]? = some [.int 8] := by decide

/-! ### Contents forever: headers, stores, deep snapshots -/

/-- An immutable array keeps its header and its elements through any operation sequence. -/
theorem immutable_array_forever {h : Heap} {F : FSet} {r s off len cap : Nat} (i : Inv h F)
    (ho : h.objs[r]? = some (Obj.arr false s off len cap)) (hf : F (.a s)) (ops : List Op) :
    (run h ops).objs[r]? = some (Obj.arr false s off len cap) ∧ (run h ops).content s off len = h.content s off len := by
  refine ⟨ops_keep_immutable_headers ops ho rfl, ?_⟩
  have := (ops_preserve ops i).2.1 s hf
  simp [Heap.content, Heap.astore, List.getD_eq_getElem?_getD, this]

/-- An immutable map keeps its header and its entries through any operation sequence. -/
theorem immutable_map_forever {h : Heap} {F : FSet} {r s : Nat} (i : Inv h F)
    (ho : h.objs[r]? = some (Obj.map false s)) (hf : F (.m s)) (ops : List Op) :
    (run h ops).objs[r]? = some (Obj.map false s) ∧ (run h ops).mstore s = h.mstore s := by
  refine ⟨ops_keep_immutable_headers ops ho rfl, ?_⟩
  have := (ops_preserve ops i).2.2 s hf
  simp [Heap.mstore, List.getD_eq_getElem?_getD, this]

/-- Everything reachable from `v` (error payloads included) is an immutable container whose store is in `F`:
what freeze establishes for values without mutable error payloads. -/
inductive Covered (h : Heap) (F : FSet) : Val → Prop
  | undef : Covered h F .undef
  | int (n : Int) : Covered h F (.int n)
  | str (s : String) : Covered h F (.str s)
  | opq (s : String) : Covered h F (.opq s)
  | arr {r s off len cap : Nat} {st : List Val} : h.objs[r]? = some (Obj.arr false s off len cap) → F (.a s) →
      h.astores[s]? = some st → (∀ x ∈ (st.drop off).take len, Covered h F x) → Covered h F (.ref r)
  | map {r s : Nat} {kvs : List (String × Val)} : h.objs[r]? = some (Obj.map false s) → F (.m s) →
      h.mstores[s]? = some kvs → (∀ x ∈ kvs.map Prod.snd, Covered h F x) → Covered h F (.ref r)
  | err {r : Nat} {p : Val} : h.objs[r]? = some (Obj.err p) → Covered h F p → Covered h F (.ref r)

theorem obj_of_some {h : Heap} {r : Nat} {o : Obj} (e : h.objs[r]? = some o) : h.obj r = o := by
  simp [Heap.obj, List.getD_eq_getElem?_getD, e]

/-- A covered value stays covered and its deep snapshot (what `lib.Canon` prints) never changes. -/
theorem covered_forever {h h' : Heap} {F : FSet} (sf : Safe h h') (i : Inv h F) {v : Val} (c : Covered h F v) :
    Covered h' F v ∧ ∀ n : Nat, snapN n h' v = snapN n h v := by
  have so := (sf.inv i).2
  induction c with
  | undef => exact ⟨.undef, fun n => by cases n <;> rfl⟩
  | int k => exact ⟨.int k, fun n => by cases n <;> rfl⟩
  | str t => exact ⟨.str t, fun n => by cases n <;> rfl⟩
  | opq t => exact ⟨.opq t, fun n => by cases n <;> rfl⟩
  | arr ho hf hs _ ih =>
    rename_i r s off len cap st _
    have ho' := sf.objs _ _ ho rfl
    have hs' : h'.astores[s]? = some st := by rw [so.1 s hf]; exact hs
    refine ⟨.arr ho' hf hs' (fun x hx => (ih x hx).1), ?_⟩
    intro n
    cases n with
    | zero => rfl
    | succ n =>
      simp only [snapN, obj_of_some ho, obj_of_some ho', content_eq hs, content_eq hs']
      congr 2
      apply congrArg String.join
      apply List.map_congr_left
      intro x hx
      rw [(ih x hx).2 n]
  | map ho hf hs _ ih =>
    rename_i r s kvs _
    have ho' := sf.objs _ _ ho rfl
    have hs' : h'.mstores[s]? = some kvs := by rw [so.2 s hf]; exact hs
    refine ⟨.map ho' hf hs' (fun x hx => (ih x hx).1), ?_⟩
    intro n
    cases n with
    | zero => rfl
    | succ n =>
      simp only [snapN, obj_of_some ho, obj_of_some ho', mstore_eq hs, mstore_eq hs']
      congr 2
      apply congrArg String.join
      apply List.map_congr_left
      intro kv hkv
      rw [(ih kv.2 (List.mem_map_of_mem hkv)).2 n]
  | err ho _ ih =>
    have ho' := sf.objs _ _ ho rfl
    refine ⟨.err ho' ih.1, ?_⟩
    intro n
    cases n with
    | zero => rfl
    | succ n => simp only [snapN, obj_of_some ho, obj_of_some ho', ih.2 n]

/-- The capstone: a covered (fully frozen) value prints the same at every depth after any sequence. -/
theorem frozen_snapshot_forever {h : Heap} {F : FSet} (i : Inv h F) {v : Val} (c : Covered h F v) (ops : List Op) (n : Nat) :
    snapN n (run h ops) v = snapN n h v :=
  (covered_forever (run_safe ops h) i c).2 n

/-! ### freeze establishes the invariant for everything reachable -/

/-- A header allocated after `h`: immutable, over a store allocated after `h`. -/
def FreshImm (h : Heap) (o : Obj) : Prop :=
  (∃ s off len cap : Nat, o = Obj.arr false s off len cap ∧ h.astores.length ≤ s) ∨
  (∃ s : Nat, o = Obj.map false s ∧ h.mstores.length ≤ s)

/-- `h'` has the objects of `h` plus immutable containers over new stores (what freeze allocates). -/
structure Grows (h h' : Heap) : Prop where
  alen : h.astores.length ≤ h'.astores.length
  mlen : h.mstores.length ≤ h'.mstores.length
  origin : ∀ (r : Nat) (o : Obj), h'.objs[r]? = some o → h.objs[r]? = some o ∨ FreshImm h o

theorem Grows.refl (h : Heap) : Grows h h := ⟨Nat.le_refl _, Nat.le_refl _, fun _ _ e => .inl e⟩

theorem Grows.trans {a b c : Heap} (x : Grows a b) (y : Grows b c) : Grows a c := by
  refine ⟨Nat.le_trans x.alen y.alen, Nat.le_trans x.mlen y.mlen, ?_⟩
  intro r o ho
  rcases y.origin r o ho with e | f
  · exact x.origin r o e
  · right
    rcases f with ⟨s, off, len, cap, e, hl⟩ | ⟨s, e, hl⟩
    · exact .inl ⟨s, off, len, cap, e, Nat.le_trans x.alen hl⟩
    · exact .inr ⟨s, e, Nat.le_trans x.mlen hl⟩

theorem grows_newArr (h : Heap) (xs : List Val) (cap : Nat) : Grows h (h.newArr false xs cap).1 := by
  refine ⟨by simp [Heap.newArr], by simp [Heap.newArr], ?_⟩
  intro r o ho
  simp only [Heap.newArr] at ho
  rcases getElem?_append_one _ _ _ ho with e | ⟨_, e⟩
  · exact .inl e
  · exact .inr (.inl ⟨_, _, _, _, e, Nat.le_refl _⟩)

theorem grows_newMap (h : Heap) (kvs : List (String × Val)) : Grows h (h.newMap false kvs).1 := by
  refine ⟨by simp [Heap.newMap], by simp [Heap.newMap], ?_⟩
  intro r o ho
  simp only [Heap.newMap] at ho
  rcases getElem?_append_one _ _ _ ho with e | ⟨_, e⟩
  · exact .inl e
  · exact .inr (.inr ⟨_, e, Nat.le_refl _⟩)

theorem foldVals_grows {σ : Type} (f : Heap → σ → Val → Option (Heap × σ × Val))
    (hf : ∀ h st v h' st' v', f h st v = some (h', st', v') → Grows h h') :
    ∀ (vs : List Val) (h : Heap) (st : σ) (h' : Heap) (st' : σ) (vs' : List Val),
      foldVals f h st vs = some (h', st', vs') → Grows h h' := by
  intro vs
  induction vs with
  | nil => intro h st h' st' vs' e; simp [foldVals] at e; rw [e.1]; exact Grows.refl _
  | cons v vs ih =>
    intro h st h' st' vs' e
    unfold foldVals at e
    split at e
    · cases e
    · rename_i h1 st1 v1 e1
      split at e
      · cases e
      · rename_i h2 st2 vs2 e2
        injection e with e; injection e with e3 e4
        rw [← e3]
        exact Grows.trans (hf _ _ _ _ _ _ e1) (ih _ _ _ _ _ e2)

/-- freeze allocates immutable containers over fresh stores, nothing else. -/
theorem freezeN_grows : ∀ (n : Nat) (h : Heap) (memo : Memo) (v : Val) (h' : Heap) (memo' : Memo) (v' : Val),
    freezeN n h memo v = some (h', memo', v') → Grows h h' := by
  intro n
  induction n with
  | zero => intro h memo v h' memo' v' e; simp [freezeN] at e
  | succ n ih =>
    intro h memo v h' memo' v' e
    unfold freezeN at e
    repeat' split at e
    all_goals first
      | (cases e; done)
      | (injection e with e; injection e with e1 e2; rw [← e1]; first
          | exact Grows.refl _
          | exact foldVals_grows _ ih _ _ _ _ _ _ (by assumption)
          | exact Grows.trans (foldVals_grows _ ih _ _ _ _ _ _ (by assumption)) (grows_newArr _ _ _)
          | exact Grows.trans (foldVals_grows _ ih _ _ _ _ _ _ (by assumption)) (grows_newMap _ _))

theorem Covered.mono {h h' : Heap} {F F' : FSet} (e : Ext h h') (sub : ∀ l, F l → F' l) {v : Val}
    (c : Covered h F v) : Covered h' F' v := by
  induction c with
  | undef => exact .undef
  | int n => exact .int n
  | str s => exact .str s
  | opq s => exact .opq s
  | arr ho hf hs _ ih => exact .arr (e.objs _ _ ho) (sub _ hf) (e.astores _ _ hs) ih
  | map ho hf hs _ ih => exact .map (e.objs _ _ ho) (sub _ hf) (e.mstores _ _ hs) ih
  | err ho _ ih => exact .err (e.objs _ _ ho) ih

/-- Every immutable container that exists already is frozen, and error payloads are covered: the state of
a program whose immutable values were all made without mutable aliases. -/
structure ImmFrozen (h : Heap) (F : FSet) : Prop where
  arrs : ∀ r s off len cap : Nat, h.objs[r]? = some (Obj.arr false s off len cap) → F (.a s)
  maps : ∀ r s : Nat, h.objs[r]? = some (Obj.map false s) → F (.m s)
  errs : ∀ (r : Nat) (p : Val), h.objs[r]? = some (Obj.err p) → Covered h F p

/-- The stores `h'` has beyond those of `h`. -/
def FreshStores (h h' : Heap) : FSet
  | .a s => h.astores.length ≤ s ∧ s < h'.astores.length
  | .m s => h.mstores.length ≤ s ∧ s < h'.mstores.length

theorem lt_of_lookup {α} {l : List α} {i : Nat} {x : α} (e : l[i]? = some x) : i < l.length := by
  rcases List.getElem?_eq_some_iff.mp e with ⟨hl, _⟩; exact hl

/-- `make_immutable_inv` for freeze, without any alias hypothesis: after `f := freeze(x)` the invariant
holds for the old frozen stores plus every store freeze allocated, and `f` is covered by them — so
(`frozen_snapshot_forever`) `f` prints the same after any later operation sequence. The hypothesis on
error payloads (`ImmFrozen.errs`) is where finding O24 is excluded. -/
theorem freeze_establishes {h : Heap} {x : Nat} {v : Val} {F : FSet} (hx : h.regs[x]? = some v) (c : Closed h)
    (i : Inv h F) (z : ImmFrozen h F) :
    step h (.freeze x) = (h, .fuel) ∨
    ∃ v', (step h (.freeze x)).1.regs[h.regs.length]? = some v' ∧
      Inv (step h (.freeze x)).1 (fun l => F l ∨ FreshStores h (step h (.freeze x)).1 l) ∧
      Covered (step h (.freeze x)).1 (fun l => F l ∨ FreshStores h (step h (.freeze x)).1 l) v' := by
  rcases freeze_equal_and_pure_partial hx c with e | ⟨v', _, hr, ext, hq, d, _⟩
  · exact .inl e
  right
  refine ⟨v', hr, ?_, ?_⟩
  all_goals (
    have g : Grows h (step h (.freeze x)).1 := by
      simp only [step, hx]
      split
      · rename_i h1 mm w e
        exact Grows.trans (freezeN_grows _ _ _ _ _ _ _ e) ⟨Nat.le_refl _, Nat.le_refl _, fun _ _ e => .inl e⟩
      · exact Grows.refl _)
  · refine ⟨?_, ?_, ?_, ?_⟩
    · intro s hs
      rcases hs with hs | hs
      · exact Nat.lt_of_lt_of_le (i.abound s hs) g.alen
      · exact hs.2
    · intro s hs
      rcases hs with hs | hs
      · exact Nat.lt_of_lt_of_le (i.mbound s hs) g.mlen
      · exact hs.2
    · intro s ⟨r, off, len, cap, ho⟩ hf
      rcases g.origin r _ ho with e | f
      · rcases hf with hf | hf
        · exact i.noArr s ⟨r, off, len, cap, e⟩ hf
        · obtain ⟨st, hst⟩ := closed_arr c e
          have := lt_of_lookup hst
          have := hf.1
          omega
      · rcases f with ⟨_, _, _, _, e, _⟩ | ⟨_, e, _⟩ <;> cases e
    · intro s ⟨r, ho⟩ hf
      rcases g.origin r _ ho with e | f
      · rcases hf with hf | hf
        · exact i.noMap s ⟨r, e⟩ hf
        · obtain ⟨st, hst⟩ := closed_map c e
          have := lt_of_lookup hst
          have := hf.1
          omega
      · rcases f with ⟨_, _, _, _, e, _⟩ | ⟨_, e, _⟩ <;> cases e
  · clear hr hq
    induction d with
    | undef => exact .undef
    | int n => exact .int n
    | str s => exact .str s
    | opq s => exact .opq s
    | arr ho hs _ ih =>
      refine .arr ho ?_ hs ih
      rcases g.origin _ _ ho with e | f
      · exact .inl (z.arrs _ _ _ _ _ e)
      · rcases f with ⟨_, _, _, _, e, hl⟩ | ⟨_, e, _⟩
        · injection e with _ e2; subst e2; exact .inr ⟨hl, lt_of_lookup hs⟩
        · cases e
    | map ho hs _ ih =>
      refine .map ho ?_ hs ih
      rcases g.origin _ _ ho with e | f
      · exact .inl (z.maps _ _ e)
      · rcases f with ⟨_, _, _, _, e, _⟩ | ⟨_, e, hl⟩
        · cases e
        · injection e with _ e2; subst e2; exact .inr ⟨hl, lt_of_lookup hs⟩
    | err ho _ _ =>
      rcases g.origin _ _ ho with e | f
      · exact .err ho ((z.errs _ _ e).mono ext (fun l hl => .inl hl))
      · rcases f with ⟨_, _, _, _, e, _⟩ | ⟨_, e, _⟩ <;> cases e

/-! ### Non-vacuity: the hypotheses are met by concrete heaps -/

/-- `[1, 2]` with capacity 3 in handle @2. -/
def exPre : Heap := run {} [.lit (.int 1), .lit (.int 2), .mkArr [0, 1] 3]

theorem exPre_noalias : NoMutableAlias exPre 0 := by
  have ho : exPre.objs = [.arr true 0 0 2 3] := by decide
  have ha : exPre.astores.length = 1 := by decide
  refine ⟨?_, ?_⟩
  · intro s off len cap hq
    rw [ho] at hq; simp at hq
    obtain ⟨rfl, _⟩ := hq
    refine ⟨by omega, ?_⟩
    intro q off' len' cap' hq'
    rw [ho] at hq'
    match q, hq' with
    | 0, _ => rfl
    | q + 1, hq' => simp at hq'
  · intro s hq; rw [ho] at hq; simp at hq

/-- `x := immutable([1, 2])`. -/
def exImm : Heap := (step exPre (.immutable true 2)).1

/-- `make_immutable_inv` applies: handle, mutability and no-alias hypotheses hold. -/
theorem exImm_inv : Inv exImm (Frozen exImm (.ref 1)) :=
  (make_immutable_inv (h := exPre) (x := 2) (r := 0) (by decide) (by decide) exPre_noalias).2.1

/-- The frozen set is not empty: it holds the backing array of `x`. -/
theorem exImm_frozen : Frozen exImm (.ref 1) (.a 0) := ⟨1, 0, 2, 3, rfl, by decide⟩

/-- `step_preserves` / `ops_preserve` instantiated: any sequence leaves `x`'s elements `[1, 2]`. -/
example (ops : List Op) : (run exImm ops).content 0 0 2 = [.int 1, .int 2] := by
  have := (immutable_array_forever exImm_inv (r := 1) (s := 0) (off := 0) (len := 2) (cap := 3) (by decide) exImm_frozen ops).2
  rw [this]; decide

/-- `write_fails_or_noop`: `x` is an immutable value held in handle @3; `x[1] = 2` answers an error. -/
example : exImm.regs[3]? = some (.ref 1) ∧ IsImmutable exImm (.ref 1) :=
  ⟨by decide, 1, rfl, .inl ⟨0, 0, 2, 3, by decide⟩⟩
example : step exImm (.setSel 3 [0] 1) = (exImm, .err .notIndexAssignable) := by decide
/-- … while the same assignment on the mutable `[1, 2]` succeeds (the model does write). -/
example : (step exPre (.setSel 2 [0] 0)).2 = .done ∧ (step exPre (.setSel 2 [0] 0)).1.astores[0]? = some [.int 1, .int 1, .undef] := by decide
/-- … and a slice of a MUTABLE array shares its storage (Go slices): writing the slice changes the array. -/
example : (run exPre [.lit .undef, .slice 2 3 3 0, .setSel 4 [0] 0]).content 0 0 2 = [.int 1, .int 1] := by decide
/-- … while a slice of the immutable value is a copy: writing it leaves `x` alone. -/
example : (run exImm [.lit .undef, .slice 3 4 4 0, .setSel 5 [0] 0]).content 0 0 2 = [.int 1, .int 2] ∧
    (run exImm [.lit .undef, .slice 3 4 4 0, .setSel 5 [0] 0]).content 1 0 2 = [.int 1, .int 1] := by decide

theorem exImm_objs : exImm.objs = [.dead, .arr false 0 0 2 3] := by decide

/-- `freeze_establishes`: its hypotheses hold for the heap after `x := immutable([1, 2])` with the frozen
set of `x` (well-formed, invariant, every immutable container frozen, no error values). -/
theorem exImm_immFrozen : ImmFrozen exImm (Frozen exImm (.ref 1)) := by
  refine ⟨?_, ?_, ?_⟩
  · intro r s off len cap ho
    have ho' := ho
    rw [exImm_objs] at ho'
    match r, ho, ho' with
    | 0, _, h0 => simp at h0
    | 1, ho, h1 => simp at h1; obtain ⟨rfl, rfl, rfl, rfl⟩ := h1; exact ⟨1, 0, 2, 3, rfl, ho⟩
    | r + 2, _, h2 => simp at h2
  · intro r s ho
    rw [exImm_objs] at ho
    match r, ho with
    | 0, h0 => simp at h0
    | 1, h1 => simp at h1
    | r + 2, h2 => simp at h2
  · intro r p ho
    rw [exImm_objs] at ho
    match r, ho with
    | 0, h0 => simp at h0
    | 1, h1 => simp at h1
    | r + 2, h2 => simp at h2

example : Closed exImm ∧ exImm.regs[3]? = some (.ref 1) := ⟨by decide, by decide⟩
example := freeze_establishes (h := exImm) (x := 3) (v := .ref 1) (by decide) (by decide) exImm_inv exImm_immFrozen

/-- `freeze_equal_and_pure_partial`: the witness heap of O24 is well-formed and holds `[error([3])]` in @3. -/
example : Closed o24pre ∧ o24pre.regs[3]? = some (.ref 2) := ⟨by decide, by decide⟩

/-- `f := freeze([[1]])`: both new backing arrays are frozen, and the value is covered. -/
def exFz : Heap := run {} [.lit (.int 1), .mkArr [0] 1, .mkArr [1] 1, .freeze 2]
def exF : FSet := fun l => l = .a 2 ∨ l = .a 3

theorem exFz_objs : exFz.objs = [.arr true 0 0 1 1, .arr true 1 0 1 1, .arr false 2 0 1 1, .arr false 3 0 1 1] := by decide

theorem exFz_inv : Inv exFz exF := by
  refine ⟨?_, ?_, ?_, ?_⟩
  · intro s hs; have : exFz.astores.length = 4 := by decide
    rcases hs with hs | hs <;> injection hs with hs <;> omega
  · intro s hs; rcases hs with hs | hs <;> cases hs
  · intro s ⟨r, off, len, cap, hr⟩ hf
    rw [exFz_objs] at hr
    match r, hr with
    | 0, hr => simp at hr; obtain ⟨rfl, _⟩ := hr; rcases hf with hf | hf <;> cases hf
    | 1, hr => simp at hr; obtain ⟨rfl, _⟩ := hr; rcases hf with hf | hf <;> cases hf
    | 2, hr => simp at hr
    | 3, hr => simp at hr
    | r + 4, hr => simp at hr
  · intro s ⟨r, hr⟩ _
    rw [exFz_objs] at hr
    match r, hr with
    | 0, hr => simp at hr
    | 1, hr => simp at hr
    | 2, hr => simp at hr
    | 3, hr => simp at hr
    | r + 4, hr => simp at hr

theorem exFz_covered : Covered exFz exF (.ref 3) := by
  refine .arr (s := 3) (off := 0) (len := 1) (cap := 1) (st := [.ref 2]) (by decide) (.inr rfl) (by decide) ?_
  intro x hx; simp at hx; subst hx
  refine .arr (s := 2) (off := 0) (len := 1) (cap := 1) (st := [.int 1]) (by decide) (.inl rfl) (by decide) ?_
  intro x hx; simp at hx; subst hx
  exact .int 1

/-- `frozen_snapshot_forever` instantiated: `f` prints the same after any sequence. -/
example (ops : List Op) (n : Nat) : snapN n (run exFz ops) (.ref 3) = snapN n exFz (.ref 3) :=
  frozen_snapshot_forever exFz_inv exFz_covered ops n

end Tengo.Props.C09

import Tengo.Proofs.C11PlaceMain
import Tengo.Proofs.C11PlaceWf
import Tengo.Props.C01F3Source
/-!
C11 — "a program means the same wherever its variables live": **PLACEMENT global ↦ local, on fragment F3.**

The program `P` ("F2-style", class `g2Ss n`): top-level statements over the variables `x_0 … x_{n-1}` — expression
statements, assignments `x_i = e`, `if` / `if-else`, `for c {}` / `for {}` / `for ; c; post {}`, `break`,
`continue`; expressions over constants, `true` / `false` / `undefined`, the variables, unary and binary operators,
`==` / `!=`, `&&` / `||`, `c ? t : f`. No calls, no `return`.

* GLOBAL placement `progG P`: the variables are the global slots `0 … n-1` (predeclared, as `Compiled.Set` /
  `Script.Add` inputs; every write is `x_i = e`, compiled to `SETG`, every read `GETG`).
* LOCAL placement `progL n L P`:
  `f = func() { x_0 := r_0; …; x_{n-1} := r_{n-1};  P;  r_0 = x_0; …; r_{n-1} = x_{n-1} };  f()`
  — the variables are LOCALS of a function (declared by `:=` at the top level of the function body: `DEFL`; inside
  `P` every write is `x_i = e`: `SETL`, every read `GETL`), initialised from and written back to the globals
  `r_i` (slot `i`); `f` is global slot `n`, the function literal is constant `L`.

Covered declaration forms: `:=` exactly once per variable at the top level of the function body (what
`compileFile_fragment3_partial` covers), `=` everywhere else, at any nesting depth of `if` / loop blocks. NOT covered:
`:=` inside nested blocks (block-scoped shadowing), `:=` at the top level of main (the embedding declares globals as
inputs), variables captured by closures, calls inside `P`.

Theorems:
* `placement_global_vs_local_fragment3_sem` (reference semantics `F3.exec`, any data semantics): the local
  placement ends with globals `g''` iff the global placement ends with globals `g'` and `g''` is `g'` on the slots
  `< n` (and the start globals with `f` stored in slot `n` elsewhere); one ends in a run-time error iff the other
  does; one is `bad` (stray `break` / `continue`) iff the other is; one runs out of every fuel iff the other does.
* `placement_global_vs_local_fragment3`: lifted through `source_to_vm_fragment3`: `Compiler.compileFile` compiles
  BOTH embedded programs, and whenever the reference semantics of the global placement terminates — with globals `g'`
  resp. in a run-time error — `VM.run` on BOTH compiled programs (GETG/SETG code vs CONST/SETG/GETG/CALL +
  DEFL/GETL/SETL code in the function constant, optimized bodies) halts with the SAME values in the global slots
  `0 … n-1` (= `g'`), resp. both end `failed` with an error that is not `fuel`. Hypotheses: those of
  `source_to_vm_fragment3` for both programs (`WithinVM` twice: the runs stay within the VM's fixed sizes).
-/
set_option linter.unusedVariables false
namespace Tengo.Props.C11Place
open Tengo.Model Tengo.Model.F3
open Tengo.Model.F0 (Sem upd)
open Tengo.Model.Spec (Value GSt Err)
open Tengo.Model.VM (Core Code Cfg Log FnObj)
open Tengo.Proofs.C11Place
open Tengo.Proofs.C01BridgeF3 (DataRel GlobRel3)
open Tengo.Proofs.C01BridgeF3Comp (NamesOK toAstProg budMain nlitsMain nlitsSs3 budSs3)
open Tengo.Proofs.C01Bridge (inputsOf)
open Tengo.Proofs.C02Compile (toCodeR)
open Tengo.Proofs.C01F3Opt (SrcOk EnvOk)
open Tengo.Props.C01F3Bridge (WithinVM)
open Tengo.Props.C01F3Source (source_to_vm_fragment3)

/-! ### reference semantics -/

/-- **Fuel monotonicity of the reference semantics of F3** (all programs): an answer (anything but "out of fuel")
is the answer for every larger fuel — so "terminates with …" does not depend on the fuel. -/
theorem exec_fuel_mono {V : Type} (E : Env V) (P : Prog) {f f' : Nat} (h : f ≤ f') {g : Nat → V} {r : PRes V}
    (hr : F3.exec E P f g = r) (hne : r ≠ .out) : F3.exec E P f' g = r :=
  exec_mono E P h hr hne

/-- **Same fuel, statement by statement**: the moved statements (variables in local slots holding the globals'
values, any globals `gL`, any program `P'`) have the result of the originals on the globals (`tS`). -/
theorem placement_statements_same_fuel {V : Type} (E : Env V) (n : Nat) (P P' : Prog) (f : Nat) (ss : Stms)
    (g : Nat → V) (lG : Locals V) (gL : Nat → V) (l0 : Locals V) (hc : g2Ss n ss = true) :
    execSs E P' f (renSs ss) gL (mkL n g l0) = tS n gL l0 (execSs E P f ss g lG) :=
  (sim_all E n P P' f).ss ss g lG gL l0 hc

/-- **Placement global ↦ local, reference semantics of F3.** `E` any data semantics in which constant `L` is the
function value of function constant `L` (`hfn`), `body` in the class, `g` any start globals. With
`gL = upd g n (E.cs L)` (the start globals with the function stored in slot `n`):
1. the local placement ends with globals `g''` (some fuel) iff the global placement ends with some `g'` (some fuel)
   and `g'' = mkG n gL g'` (`g'` on the slots `< n`, `gL` elsewhere);
2. run-time errors correspond; 3. `bad` (a `break` / `continue` outside a loop) corresponds;
4. divergence (out of fuel for every fuel) corresponds. -/
theorem placement_global_vs_local_fragment3_sem {V : Type} (E : Env V) (n L : Nat) (body : Stms)
    (hc : g2Ss n body = true) (hfn : E.asFn (E.cs L) = some L) (g : Nat → V) :
    (∀ g'', (∃ F, F3.exec E (progL n L body) F g = .done g'') ↔
      ∃ f g', F3.exec E (progG body) f g = .done g' ∧ g'' = mkG n (upd g n (E.cs L)) g') ∧
    ((∃ F, F3.exec E (progL n L body) F g = .err) ↔ ∃ f, F3.exec E (progG body) f g = .err) ∧
    ((∃ F, F3.exec E (progL n L body) F g = .bad) ↔ ∃ f, F3.exec E (progG body) f g = .bad) ∧
    ((∀ F, F3.exec E (progL n L body) F g = .out) ↔ ∀ f, F3.exec E (progG body) f g = .out) := by
  refine ⟨fun g'' => ⟨?_, ?_⟩, ⟨?_, ?_⟩, ⟨?_, ?_⟩, ⟨?_, ?_⟩⟩
  · rintro ⟨F, hF⟩
    obtain ⟨f, r, hr, hne, heq⟩ := placement_backward n L body hc hfn F g _ hF (by simp)
    cases r with
    | done g' => simp only [tP, PRes.done.injEq] at heq; exact ⟨f, g', hr, heq⟩
    | err => cases heq
    | out => cases heq
    | bad => cases heq
  · rintro ⟨f, g', hf, rfl⟩
    exact placement_forward n L body hc hfn f g _ hf (by simp)
  · rintro ⟨F, hF⟩
    obtain ⟨f, r, hr, hne, heq⟩ := placement_backward n L body hc hfn F g _ hF (by simp)
    cases r with
    | done g' => cases heq
    | err => exact ⟨f, hr⟩
    | out => cases heq
    | bad => cases heq
  · rintro ⟨f, hf⟩
    exact placement_forward n L body hc hfn f g _ hf (by simp)
  · rintro ⟨F, hF⟩
    obtain ⟨f, r, hr, hne, heq⟩ := placement_backward n L body hc hfn F g _ hF (by simp)
    cases r with
    | done g' => cases heq
    | err => cases heq
    | out => cases heq
    | bad => exact ⟨f, hr⟩
  · rintro ⟨f, hf⟩
    exact placement_forward n L body hc hfn f g _ hf (by simp)
  · intro h f
    cases hr : F3.exec E (progG body) f g with
    | out => rfl
    | done g' =>
      obtain ⟨F, hF⟩ := placement_forward n L body hc hfn f g _ hr (by simp)
      rw [h F] at hF; cases hF
    | err =>
      obtain ⟨F, hF⟩ := placement_forward n L body hc hfn f g _ hr (by simp)
      rw [h F] at hF; cases hF
    | bad =>
      obtain ⟨F, hF⟩ := placement_forward n L body hc hfn f g _ hr (by simp)
      rw [h F] at hF; cases hF
  · intro h F
    cases hr : F3.exec E (progL n L body) F g with
    | out => rfl
    | done g' =>
      obtain ⟨f, hf⟩ := placement_progress n L body hc hfn F g (by rw [hr]; simp)
      exact absurd (h f) hf
    | err =>
      obtain ⟨f, hf⟩ := placement_progress n L body hc hfn F g (by rw [hr]; simp)
      exact absurd (h f) hf
    | bad =>
      obtain ⟨f, hf⟩ := placement_progress n L body hc hfn F g (by rw [hr]; simp)
      exact absurd (h f) hf

/-! ### lifted to `Compiler.compileFile` + `VM.run` -/

/-- The data side of the global placement from that of the local one. -/
theorem envOk_progG {V : Type} {E : Env V} {val : V → Value} {refs : Nat → Nat} {ctab : Nat → F0.Const} {n : Nat}
    {body : Stms} (hE : EnvOk (progL n (nlitsSs3 body) body) ctab E val refs) :
    EnvOk (progG body) ctab E val refs where
  vals := by
    intro k hk _
    have hk : k < nlitsMain (progG body) body := hk
    rw [nlitsMain_progG] at hk
    refine hE.vals k (by rw [nlitsMain_progL]; omega) ?_
    have : ¬ k = nlitsSs3 body := by omega
    simp only [progL, if_neg this]
  inj := hE.inj
  csfn := by intro k fd h; simp [progG] at h
  asFn_some := hE.asFn_some
  asFn_none := hE.asFn_none

/-- In such a data semantics constant `L` is callable and denotes function constant `L`. -/
theorem asFn_of_envOk {V : Type} {E : Env V} {val : V → Value} {refs : Nat → Nat} {ctab : Nat → F0.Const} {n L : Nat}
    {body : Stms} (hE : EnvOk (progL n L body) ctab E val refs) : E.asFn (E.cs L) = some L := by
  have hcs := hE.csfn L (fnDef n body) (by simp only [progL, if_true])
  cases h : E.asFn (E.cs L) with
  | none => exact absurd hcs ((hE.asFn_none _ h).1 (refs L))
  | some k =>
    have h2 := hE.asFn_some _ k h
    rw [hcs] at h2
    injection h2 with h2
    rw [hE.inj L k h2]

theorem namesOK_restrict {names lnames : Nat → String} {n : Nat} (h : NamesOK names lnames (n + 1)) :
    NamesOK names lnames n :=
  ⟨fun i j hi hj => h.ginj i j (by omega) (by omega), h.linj, fun i j hj => h.dis i j (by omega)⟩

/-- **Placement global ↦ local on fragment F3, on `Compiler.compileFile` + `VM.run`.**

`body` is in the class `g2Ss n` and the global placement is `SrcOk` (constants numbered in compilation order,
`break` / `continue` inside loops, operand widths); `n ≤ 256` (locals are one byte wide), two size bounds and the
traversal budget for the bigger program; one naming (`n + 1` global names, local names) and one data semantics
`E` / `val` / `refs` for both programs (`hD`, `hE`; `L = nlitsSs3 body` is the function constant); both VMs start
with the same values `g i` in the slots `i < n` (the local placement has the extra slot `n` for `f`); `fobjs`
holds the function object of the function constant; both runs stay within the VM's sizes (`hWG`, `hWL`).

Then `compileFile` compiles both embedded programs (`bcG`: GETG/SETG code; `bcL`: the function constant with
DEFL/GETL/SETL code, stored and called by main), and for every fuel `f` of the reference semantics:
* if the global placement's reference run ends with globals `g'`: BOTH `VM.run`s halt (every fuel from some point
  on, heap untouched, empty stack), and every slot `i < n` holds `val (g' i)` in BOTH final cores — the same values
  wherever the variables live;
* if it ends in a run-time error: BOTH `VM.run`s end `failed` with an error other than `fuel` (same class:
  a run-time error of the VM, not a fault, not the allocation limit, not out of fuel). -/
theorem placement_global_vs_local_fragment3 {V : Type} (E : Env V) (val : V → Value) (refs : Nat → Nat)
    (names lnames : Nat → String) (ctab : Nat → F0.Const) (n : Nat) (body : Stms)
    (hN : NamesOK names lnames (n + 1)) (hb : ∀ i, lnames i ∉ Spec.builtinNames)
    (hc : g2Ss n body = true) (hs : SrcOk (progG body) n) (hn : n ≤ 256)
    (hsz : F3.sssize body + 10 * n < 4294967296) (hp : nlitsSs3 body < 65536)
    (hbud : budSs3 body + 2 * n + 12 ≤ Compiler.fuel)
    (hD : DataRel E.S val) (hE : EnvOk (progL n (nlitsSs3 body) body) ctab E val refs)
    (g : Nat → V) (globalsG globalsL : Array Value) (fobjs : Array FnObj)
    (hgsG : globalsG.size = n) (hgG : ∀ i, i < n → globalsG.getD i .undef = val (g i))
    (hgsL : globalsL.size = n + 1) (hgL : ∀ i, i < n + 1 → globalsL.getD i .undef = val (g i))
    (hfo : fobjs[refs (nlitsSs3 body)]? = some (nlitsSs3 body, []))
    (hWG : WithinVM E (compProg (progG body)) (St.init (fun _ => E.S.undef) g))
    (hWL : WithinVM E (compProg (progL n (nlitsSs3 body) body)) (St.init (fun _ => E.S.undef) g))
    (keep : Nat) (allocs : Int) (ha : allocs ≤ 0) (gst : GSt) (heap : Spec.St) :
    ∃ bcG bcL,
      Compiler.compileFile (toAstProg names lnames ctab (progG body)) (inputsOf names n) = .ok bcG ∧
      Compiler.compileFile (toAstProg names lnames ctab (progL n (nlitsSs3 body) body)) (inputsOf names (n + 1)) =
        .ok bcL ∧
      (∀ f g', F3.exec E (progG body) f g = .done g' →
        ∃ (cG cL : Core) (mG mL : Nat),
          (∀ k, (VM.run (toCodeR refs bcG) keep (mG + 1 + k) allocs ⟨VM.initCore globalsG fobjs, gst, heap⟩ {}).1 =
            .halted ⟨cG, gst, heap⟩) ∧
          (∀ k, (VM.run (toCodeR refs bcL) keep (mL + 1 + k) allocs ⟨VM.initCore globalsL fobjs, gst, heap⟩ {}).1 =
            .halted ⟨cL, gst, heap⟩) ∧
          cG.regs.sp = 0 ∧ cL.regs.sp = 0 ∧
          ∀ i, i < n → cG.regs.globals.getD i .undef = val (g' i) ∧ cL.regs.globals.getD i .undef = val (g' i)) ∧
      (∀ f, F3.exec E (progG body) f g = .err →
        ∃ (eG eL : Err) (atG atL : Cfg) (mG mL : Nat), eG ≠ Err.fuel ∧ eL ≠ Err.fuel ∧
          (∀ k, (VM.run (toCodeR refs bcG) keep (mG + 1 + k) allocs ⟨VM.initCore globalsG fobjs, gst, heap⟩ {}).1 =
            .failed eG atG) ∧
          (∀ k, (VM.run (toCodeR refs bcL) keep (mL + 1 + k) allocs ⟨VM.initCore globalsL fobjs, gst, heap⟩ {}).1 =
            .failed eL atL)) := by
  have hfn := asFn_of_envOk hE
  have hsL := srcOk_progL hs hc hn hsz hp
  have hbG : budMain (progG body) (progG body).main ≤ Compiler.fuel := by
    show budMain (progG body) body ≤ Compiler.fuel
    rw [budMain_progG]; omega
  have hbL : budMain (progL n (nlitsSs3 body) body) (progL n (nlitsSs3 body) body).main ≤ Compiler.fuel :=
    Nat.le_trans (budMain_progL n body) hbud
  obtain ⟨bcG, hcG, hG1, hG2⟩ := source_to_vm_fragment3 E val refs names lnames ctab n (progG body)
    (namesOK_restrict hN) hb hs hbG hD (envOk_progG hE) 0 g globalsG fobjs hgsG hgG
    (fun k fd h => by simp [progG] at h) hWG keep allocs ha gst heap
  obtain ⟨bcL, hcL, hL1, hL2⟩ := source_to_vm_fragment3 E val refs names lnames ctab (n + 1)
    (progL n (nlitsSs3 body) body) hN hb hsL hbL hD hE 0 g globalsL fobjs hgsL hgL
    (fun k fd h => by
      have hk : k = nlitsSs3 body := by
        by_cases hk : k = nlitsSs3 body
        · exact hk
        · simp only [progL, if_neg hk] at h; cases h
      subst hk; exact hfo) hWL keep allocs ha gst heap
  -- the statements of `source_to_vm_fragment3` are for one fuel; redo them for the fuels needed
  refine ⟨bcG, bcL, hcG, hcL, ?_, ?_⟩
  · intro f g' hf
    obtain ⟨bcG', hcG', hG1', _⟩ := source_to_vm_fragment3 E val refs names lnames ctab n (progG body)
      (namesOK_restrict hN) hb hs hbG hD (envOk_progG hE) f g globalsG fobjs hgsG hgG
      (fun k fd h => by simp [progG] at h) hWG keep allocs ha gst heap
    rw [hcG] at hcG'; injection hcG' with hcG'; subst hcG'
    obtain ⟨F, hF⟩ := placement_forward n (nlitsSs3 body) body hc hfn f g _ hf (by simp)
    obtain ⟨bcL', hcL', hL1', _⟩ := source_to_vm_fragment3 E val refs names lnames ctab (n + 1)
      (progL n (nlitsSs3 body) body) hN hb hsL hbL hD hE F g globalsL fobjs hgsL hgL
      (fun k fd h => by
        have hk : k = nlitsSs3 body := by
          by_cases hk : k = nlitsSs3 body
          · exact hk
          · simp only [progL, if_neg hk] at h; cases h
        subst hk; exact hfo) hWL keep allocs ha gst heap
    rw [hcL] at hcL'; injection hcL' with hcL'; subst hcL'
    obtain ⟨cG, mG, hglG, hspG, hrunG⟩ := hG1' g' hf
    obtain ⟨cL, mL, hglL, hspL, hrunL⟩ := hL1' _ hF
    refine ⟨cG, cL, mG, mL, hrunG, hrunL, hspG, hspL, fun i hi => ⟨hglG.2 i hi, ?_⟩⟩
    rw [hglL.2 i (by omega)]
    simp only [mkG, hi, if_true]
  · intro f hf
    obtain ⟨bcG', hcG', _, hG2'⟩ := source_to_vm_fragment3 E val refs names lnames ctab n (progG body)
      (namesOK_restrict hN) hb hs hbG hD (envOk_progG hE) f g globalsG fobjs hgsG hgG
      (fun k fd h => by simp [progG] at h) hWG keep allocs ha gst heap
    rw [hcG] at hcG'; injection hcG' with hcG'; subst hcG'
    obtain ⟨F, hF⟩ := placement_forward n (nlitsSs3 body) body hc hfn f g _ hf (by simp)
    obtain ⟨bcL', hcL', _, hL2'⟩ := source_to_vm_fragment3 E val refs names lnames ctab (n + 1)
      (progL n (nlitsSs3 body) body) hN hb hsL hbL hD hE F g globalsL fobjs hgsL hgL
      (fun k fd h => by
        have hk : k = nlitsSs3 body := by
          by_cases hk : k = nlitsSs3 body
          · exact hk
          · simp only [progL, if_neg hk] at h; cases h
        subst hk; exact hfo) hWL keep allocs ha gst heap
    rw [hcL] at hcL'; injection hcL' with hcL'; subst hcL'
    obtain ⟨eG, atG, mG, hneG, hrunG⟩ := hG2' hf
    obtain ⟨eL, atL, mL, hneL, hrunL⟩ := hL2' hF
    exact ⟨eG, eL, atG, atL, mG, mL, hneG, hneL, hrunG, hrunL⟩

/-- **The same, with the LOCAL placement's reference run as the termination witness** (corollary of the theorem
above and of the backward direction of `placement_global_vs_local_fragment3_sem`): if the reference semantics of the
local placement ends with globals `g''` (ends in a run-time error), both `VM.run`s halt with `val (g'' i)` in every
slot `i < n` of both final cores (both end `failed`, not `fuel`). -/
theorem placement_global_vs_local_fragment3_from_local {V : Type} (E : Env V) (val : V → Value) (refs : Nat → Nat)
    (names lnames : Nat → String) (ctab : Nat → F0.Const) (n : Nat) (body : Stms)
    (hN : NamesOK names lnames (n + 1)) (hb : ∀ i, lnames i ∉ Spec.builtinNames)
    (hc : g2Ss n body = true) (hs : SrcOk (progG body) n) (hn : n ≤ 256)
    (hsz : F3.sssize body + 10 * n < 4294967296) (hp : nlitsSs3 body < 65536)
    (hbud : budSs3 body + 2 * n + 12 ≤ Compiler.fuel)
    (hD : DataRel E.S val) (hE : EnvOk (progL n (nlitsSs3 body) body) ctab E val refs)
    (g : Nat → V) (globalsG globalsL : Array Value) (fobjs : Array FnObj)
    (hgsG : globalsG.size = n) (hgG : ∀ i, i < n → globalsG.getD i .undef = val (g i))
    (hgsL : globalsL.size = n + 1) (hgL : ∀ i, i < n + 1 → globalsL.getD i .undef = val (g i))
    (hfo : fobjs[refs (nlitsSs3 body)]? = some (nlitsSs3 body, []))
    (hWG : WithinVM E (compProg (progG body)) (St.init (fun _ => E.S.undef) g))
    (hWL : WithinVM E (compProg (progL n (nlitsSs3 body) body)) (St.init (fun _ => E.S.undef) g))
    (keep : Nat) (allocs : Int) (ha : allocs ≤ 0) (gst : GSt) (heap : Spec.St) :
    ∃ bcG bcL,
      Compiler.compileFile (toAstProg names lnames ctab (progG body)) (inputsOf names n) = .ok bcG ∧
      Compiler.compileFile (toAstProg names lnames ctab (progL n (nlitsSs3 body) body)) (inputsOf names (n + 1)) =
        .ok bcL ∧
      (∀ F g'', F3.exec E (progL n (nlitsSs3 body) body) F g = .done g'' →
        ∃ (cG cL : Core) (mG mL : Nat),
          (∀ k, (VM.run (toCodeR refs bcG) keep (mG + 1 + k) allocs ⟨VM.initCore globalsG fobjs, gst, heap⟩ {}).1 =
            .halted ⟨cG, gst, heap⟩) ∧
          (∀ k, (VM.run (toCodeR refs bcL) keep (mL + 1 + k) allocs ⟨VM.initCore globalsL fobjs, gst, heap⟩ {}).1 =
            .halted ⟨cL, gst, heap⟩) ∧
          cG.regs.sp = 0 ∧ cL.regs.sp = 0 ∧
          ∀ i, i < n → cG.regs.globals.getD i .undef = val (g'' i) ∧ cL.regs.globals.getD i .undef = val (g'' i)) ∧
      (∀ F, F3.exec E (progL n (nlitsSs3 body) body) F g = .err →
        ∃ (eG eL : Err) (atG atL : Cfg) (mG mL : Nat), eG ≠ Err.fuel ∧ eL ≠ Err.fuel ∧
          (∀ k, (VM.run (toCodeR refs bcG) keep (mG + 1 + k) allocs ⟨VM.initCore globalsG fobjs, gst, heap⟩ {}).1 =
            .failed eG atG) ∧
          (∀ k, (VM.run (toCodeR refs bcL) keep (mL + 1 + k) allocs ⟨VM.initCore globalsL fobjs, gst, heap⟩ {}).1 =
            .failed eL atL)) := by
  obtain ⟨bcG, bcL, hcG, hcL, h1, h2⟩ := placement_global_vs_local_fragment3 E val refs names lnames ctab n body hN hb hc
    hs hn hsz hp hbud hD hE g globalsG globalsL fobjs hgsG hgG hgsL hgL hfo hWG hWL keep allocs ha gst heap
  have hsem := placement_global_vs_local_fragment3_sem E n (nlitsSs3 body) body hc (asFn_of_envOk hE) g
  refine ⟨bcG, bcL, hcG, hcL, ?_, ?_⟩
  · intro F g'' hF
    obtain ⟨f, g', hf, rfl⟩ := (hsem.1 g'').1 ⟨F, hF⟩
    obtain ⟨cG, cL, mG, mL, hrG, hrL, hsG, hsL, hval⟩ := h1 f g' hf
    refine ⟨cG, cL, mG, mL, hrG, hrL, hsG, hsL, fun i hi => ?_⟩
    have : mkG n (upd g n (E.cs (nlitsSs3 body))) g' i = g' i := by simp only [mkG, hi, if_true]
    rw [this]; exact hval i hi
  · intro F hF
    obtain ⟨f, hf⟩ := hsem.2.1.1 ⟨F, hF⟩
    exact h2 f hf

/-! ### non-vacuity -/

namespace Example
open Tengo.Props.C01F3 (natSem3)

/-- `x1 = 0; for x0 < 3 { x1 = x1 + x0; x0 = x0 + 1; if x1 == 100 { break } }` over two variables (token 38 is
`<`, 11 is `+` in `natSem3`); constants 0 ↦ 0, 1 ↦ 3, 2 ↦ 1, 3 ↦ 100, 4 ↦ the function (value 1000). -/
def body2 : Stms :=
  .cons (.assign 1 (.lit 0))
  (.cons (.whil (.bin 38 (.glob 0) (.lit 1))
    (.cons (.assign 1 (.bin 11 (.glob 1) (.glob 0)))
    (.cons (.assign 0 (.bin 11 (.glob 0) (.lit 2)))
    (.cons (.ifs (.eq (.glob 1) (.lit 3)) (.cons .brk .nil)) .nil)))) .nil)

def natEnv : Env Nat :=
  { S := natSem3, cs := fun k => [0, 3, 1, 100, 1000].getD k 0, asFn := fun v => if v == 1000 then some 4 else none }

/-- decidable view of a result: `x0 = a`, `x1 = b` -/
def ends (a b : Nat) : PRes Nat → Bool
  | .done g => g 0 == a && g 1 == b
  | _ => false

example : g2Ss 2 body2 = true := by decide

/-- **Non-vacuity of `placement_global_vs_local_fragment3_sem`**: the global placement ends with `x0 = 3, x1 = 3`
(fuel 30), so — by the theorem — the local placement ends with the globals `r0 = 3, r1 = 3`; checked directly as
well (fuel 40). -/
example : ∃ F g'', F3.exec natEnv (progL 2 4 body2) F (fun _ => 0) = .done g'' ∧ g'' 0 = 3 ∧ g'' 1 = 3 := by
  have hG : ends 3 3 (F3.exec natEnv (progG body2) 30 (fun _ => 0)) = true := by decide
  cases he : F3.exec natEnv (progG body2) 30 (fun _ => 0) with
  | done g' =>
    rw [he] at hG
    simp only [ends, Bool.and_eq_true, beq_iff_eq] at hG
    obtain ⟨F, hF⟩ := ((placement_global_vs_local_fragment3_sem natEnv 2 4 body2 (by decide) (by decide)
      (fun _ => 0)).1 _).2 ⟨30, g', he, rfl⟩
    exact ⟨F, _, hF, by simp only [mkG]; exact hG.1, by simp only [mkG]; exact hG.2⟩
  | err => rw [he] at hG; cases hG
  | out => rw [he] at hG; cases hG
  | bad => rw [he] at hG; cases hG

example : ends 3 3 (F3.exec natEnv (progL 2 4 body2) 40 (fun _ => 0)) = true := by decide

/-- `x0 = -x0` (`natSem3` has no negation: a run-time error); constant 0 ↦ the function. -/
def negBody : Stms := .cons (.assign 0 (.neg (.glob 0))) .nil

def natEnv0 : Env Nat := { S := natSem3, cs := fun _ => 1000, asFn := fun v => if v == 1000 then some 0 else none }

def isErr : PRes Nat → Bool
  | .err => true
  | _ => false

theorem eq_err_of_isErr {r : PRes Nat} (h : isErr r = true) : r = .err := by
  cases r <;> first | rfl | cases h

/-- … and a run-time error corresponds (by the theorem, and checked directly). -/
example : ∃ F, F3.exec natEnv0 (progL 1 0 negBody) F (fun _ => 0) = .err :=
  ((placement_global_vs_local_fragment3_sem natEnv0 1 0 negBody (by decide) (by decide) (fun _ => 0)).2.1).2
    ⟨5, eq_err_of_isErr (by decide)⟩

example : isErr (F3.exec natEnv0 (progL 1 0 negBody) 12 (fun _ => 0)) = true := by decide

end Example

namespace ExampleVM
open Tengo.Proofs.C01BridgeF3 (FV sem3 env3 dataRel3 asFn3_some asFn3_none)
open Tengo.Proofs.C01BridgeF3Comp (gname lname demo_builtin)
open Tengo.Props.C01F3Source.Example (exD_names fnCode)

/-- `x0 = 0; for x0 < 2 { x0 = x0 + 1 }` (38 = `<`, 11 = `+`); constants 0 ↦ 0, 1 ↦ 2, 2 ↦ 1, 3 ↦ the function. -/
def bodyV : Stms :=
  .cons (.assign 0 (.lit 0))
  (.cons (.whil (.bin 38 (.glob 0) (.lit 1)) (.cons (.assign 0 (.bin 11 (.glob 0) (.lit 2))) .nil)) .nil)

def vCtab : Nat → F0.Const
  | 0 => .int 0
  | 1 => .int 2
  | _ => .int 1

/-- heap identities of the constants: the function constant 3 gets function object 0 (as `VM.initFobjs` does) -/
def vRefs (k : Nat) : Nat := if k = 3 then 0 else k + 1
def vUnref : Nat → Option Nat := fun r => if r = 0 then some 3 else none
def vCs : Nat → FV vUnref
  | 0 => ⟨.int 0, rfl⟩
  | 1 => ⟨.int 2, rfl⟩
  | 3 => ⟨.cfn 0, rfl⟩
  | _ => ⟨.int 1, rfl⟩

theorem bodyV_src : SrcOk (progG bodyV) 1 :=
  ⟨by decide, fun k fd hf => by simp [progG] at hf, by decide, by decide, by decide,
    fun k fd hf => by simp [progG] at hf⟩

theorem progL_fns {k : Nat} {fd : FnDef} (h : (progL 1 (nlitsSs3 bodyV) bodyV).fns k = some fd) : k = 3 := by
  by_cases hk : k = 3
  · exact hk
  · have : ¬ k = nlitsSs3 bodyV := hk
    simp only [progL, if_neg this] at h; cases h

theorem bodyV_env : EnvOk (progL 1 (nlitsSs3 bodyV) bodyV) vCtab (env3 vUnref vCs) Subtype.val vRefs where
  vals := by
    intro k hk hf
    have hk4 : k < 4 := hk
    match k, hk4 with
    | 0, _ => rfl
    | 1, _ => rfl
    | 2, _ => rfl
    | 3, _ => simp [progL, nlitsSs3, bodyV, Tengo.Proofs.C01BridgeF3Comp.nlitsS3, Tengo.Proofs.C01BridgeF3Comp.nlitsE3] at hf
  inj := by
    intro a b h
    simp only [vRefs] at h
    split at h <;> split at h <;> omega
  csfn := by
    intro k fd h
    have := progL_fns h
    subst this
    rfl
  asFn_some := asFn3_some vUnref vRefs (fun r k h => by
    simp only [vUnref] at h
    by_cases hr : r = 0
    · rw [if_pos hr] at h; injection h with h; subst h; exact hr
    · rw [if_neg hr] at h; cases h) vCs
  asFn_none := asFn3_none vUnref vCs

def x0is2 : PRes (FV vUnref) → Bool
  | .done g => (match (g 0).1 with
    | .int 2 => true
    | _ => false)
  | _ => false

set_option maxRecDepth 4000 in
theorem hWG : WithinVM (env3 vUnref vCs) (compProg (progG bodyV))
    (St.init (fun _ => (env3 vUnref vCs).S.undef) (fun _ => (sem3 vUnref).undef)) :=
  Tengo.Props.C01F3Bridge.withinVM_of_check 40 _ (by decide)

set_option maxRecDepth 4000 in
theorem hWL : WithinVM (env3 vUnref vCs) (compProg (progL 1 (nlitsSs3 bodyV) bodyV))
    (St.init (fun _ => (env3 vUnref vCs).S.undef) (fun _ => (sem3 vUnref).undef)) :=
  Tengo.Props.C01F3Bridge.withinVM_of_check 60 _ (by decide)

/-- **Non-vacuity of `placement_global_vs_local_fragment3`**: every hypothesis is discharged for
`x0 = 0; for x0 < 2 { x0 = x0 + 1 }`, the concrete data semantics `env3` and the initial configurations `VM.Run`
sets up; so both placements compile, and `VM.run` on both — the loop on GETG/SETG in main, resp. on GETL/SETL in
the function constant, after `DEFL` and before the write-back — halts with an empty stack and the integer 2 in
global slot 0. -/
example (keep : Nat) (allocs : Int) (ha : allocs ≤ 0) (gst : GSt) (heap : Spec.St) :
    ∃ bcG bcL,
      Compiler.compileFile (toAstProg gname lname vCtab (progG bodyV)) (inputsOf gname 1) = .ok bcG ∧
      Compiler.compileFile (toAstProg gname lname vCtab (progL 1 (nlitsSs3 bodyV) bodyV)) (inputsOf gname 2) =
        .ok bcL ∧
      -- the function constant: GETG 0; DEFL 0; CONST 0; SETL 0; GETL 0; CONST 1; BINOP <; JMPF 36; GETL 0; CONST 2;
      -- BINOP +; SETL 0; JMP 10; GETL 0; SETG 0; RET 0 — and main of the global placement on GETG / SETG
      fnCode bcL.consts[3]? = [22, 0, 0, 27, 0, 0, 0, 0, 26, 0, 25, 0, 0, 0, 1, 40, 38, 9, 0, 0, 0, 36, 25, 0, 0, 0, 2,
        40, 11, 26, 0, 12, 0, 0, 0, 10, 25, 0, 23, 0, 0, 21, 0] ∧
      bcG.main = [0, 0, 0, 23, 0, 0, 22, 0, 0, 0, 0, 1, 40, 38, 9, 0, 0, 0, 35, 22, 0, 0, 0, 0, 2, 40, 11, 23, 0, 0,
        12, 0, 0, 0, 6, 41] ∧
      ∃ (cG cL : Core) (mG mL : Nat),
        (∀ k, (VM.run (toCodeR vRefs bcG) keep (mG + 1 + k) allocs ⟨VM.initCore #[.undef] #[(3, [])], gst, heap⟩ {}).1 =
          .halted ⟨cG, gst, heap⟩) ∧
        (∀ k, (VM.run (toCodeR vRefs bcL) keep (mL + 1 + k) allocs
          ⟨VM.initCore #[.undef, .undef] #[(3, [])], gst, heap⟩ {}).1 = .halted ⟨cL, gst, heap⟩) ∧
        cG.regs.sp = 0 ∧ cL.regs.sp = 0 ∧
        cG.regs.globals.getD 0 .undef = .int 2 ∧ cL.regs.globals.getD 0 .undef = .int 2 := by
  obtain ⟨bcG, bcL, hcG, hcL, hdone, _⟩ := placement_global_vs_local_fragment3 (env3 vUnref vCs) Subtype.val vRefs
    gname lname vCtab 1 bodyV exD_names demo_builtin (by decide) bodyV_src (by decide) (by decide) (by decide)
    (by decide) (dataRel3 vUnref) bodyV_env (fun _ => (sem3 vUnref).undef) #[.undef] #[.undef, .undef] #[(3, [])]
    rfl (by intro i hi; match i, hi with
      | 0, _ => rfl)
    rfl (by intro i hi; match i, hi with
      | 0, _ => rfl
      | 1, _ => rfl)
    rfl hWG hWL keep allocs ha gst heap
  have hcG' := Tengo.Props.C01F3Source.compileFile_srcOk gname lname vCtab 1 (progG bodyV)
    (namesOK_restrict exD_names) demo_builtin bodyV_src (by decide)
  have hcL' := Tengo.Props.C01F3Source.compileFile_srcOk gname lname vCtab 2 (progL 1 (nlitsSs3 bodyV) bodyV)
    exD_names demo_builtin (srcOk_progL bodyV_src (by decide) (by decide) (by decide) (by decide)) (by decide)
  rw [hcG'] at hcG; injection hcG with hcG; subst hcG
  rw [hcL'] at hcL; injection hcL with hcL; subst hcL
  refine ⟨_, _, hcG', hcL', by decide, by decide, ?_⟩
  have hev : x0is2 (F3.exec (env3 vUnref vCs) (progG bodyV) 20 (fun _ => (sem3 vUnref).undef)) = true := by decide
  cases he : F3.exec (env3 vUnref vCs) (progG bodyV) 20 (fun _ => (sem3 vUnref).undef) with
  | done g' =>
    rw [he] at hev
    obtain ⟨cG, cL, mG, mL, hrG, hrL, hsG, hsL, hval⟩ := hdone 20 g' he
    have hv : (g' 0).1 = .int 2 := by
      simp only [x0is2] at hev
      split at hev
      · assumption
      · cases hev
    refine ⟨cG, cL, mG, mL, hrG, hrL, hsG, hsL, ?_, ?_⟩
    · rw [(hval 0 (by decide)).1, hv]
    · rw [(hval 0 (by decide)).2, hv]
  | err => rw [he] at hev; cases hev
  | out => rw [he] at hev; cases hev
  | bad => rw [he] at hev; cases hev

/-- … and the hypotheses of `placement_global_vs_local_fragment3_from_local` (the same list) hold for it as well. -/
example (keep : Nat) (allocs : Int) (ha : allocs ≤ 0) (gst : GSt) (heap : Spec.St) :=
  placement_global_vs_local_fragment3_from_local (env3 vUnref vCs) Subtype.val vRefs
    gname lname vCtab 1 bodyV exD_names demo_builtin (by decide) bodyV_src (by decide) (by decide) (by decide)
    (by decide) (dataRel3 vUnref) bodyV_env (fun _ => (sem3 vUnref).undef) #[.undef] #[.undef, .undef] #[(3, [])]
    rfl (by intro i hi; match i, hi with
      | 0, _ => rfl)
    rfl (by intro i hi; match i, hi with
      | 0, _ => rfl
      | 1, _ => rfl)
    rfl hWG hWL keep allocs ha gst heap

end ExampleVM

end Tengo.Props.C11Place

import Tengo.Props.C02
import Tengo.Props.C02Compile
/-! C02: soundness of the bytecode verifier against the whole-VM model (`C02`) and the universal theorem that
whatever the compiler model emits passes the verifier (`C02Compile`: `compile_verifies`,
`compiled_never_faults`), as one module for the checker. -/

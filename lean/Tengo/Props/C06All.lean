import Tengo.Props.C06
import Tengo.Props.C06Stack
/-! C06: the budget / length / frame theorems (`C06`, with `Props.VM`) and the operand-stack and
frame-capacity theorems about the whole-VM model (`C06Stack`), as one module for the checker. -/

import Tengo.Props.C01F3
import Tengo.Proofs.C01BridgeF3VMRun
import Tengo.Proofs.C01BridgeF3VMInst
import Tengo.Proofs.C01BridgeF3VMExample
import Tengo.Proofs.C01BridgeF3CompFile
/-!
C01 on fragment F3 (first-order functions) against the big models.

* VM side (`Tengo/Proofs/C01BridgeF3VM*.lean`): one `F3.step` is one `VM.exec` dispatch between related states in
  EVERY frame (`step_sim3`: the 17 old instructions, `GETL/SETL/DEFL`, `RET`, `CALL` with a new frame, `CALL` with
  the frame reused), errors are errors (`err_sim3`, `err_sim3_call` with the texts), the end of main is SUSPEND
  (`halt_sim3`), bounded runs are `VM.run`s (`runs_halt3`, `fails_failed3`).
* `vm_computes_fragment3`: TOGETHER with `program_correct_F3`: if the reference evaluator `F3.exec` finishes with
  globals `g'` (ends in a run-time error), then `VM.run` on ANY code related to `F3.compProg P` (`CodeRel3`: main =
  encoding + SUSPEND, function constants = encodings of `F3.compFn`, i.e. raw body + `RET 0`) started in a related
  core halts with globals related to `g'` (fails with an error that is not `fuel`), for every sufficient fuel, heap
  untouched — PROVIDED the run of the fragment machine stays within the VM's fixed sizes (`WithinVM`: `sp ≤ 2048`,
  fewer than 1024 frames, local slots inside the stack). `program_correct_F3` is about the unbounded machine, so
  this is a hypothesis here (`vm_computes_fragment3_TODO` below).
* Compiler side (`Tengo/Proofs/C01BridgeF3Comp*.lean`): `compileFile_fragment3_partial` (re-exported): the whole
  compiler model on the embedded AST emits the fragment's main code and, per function, the OPTIMIZER's output on the
  fragment's raw body.
Open between the two: the function constants `compileFile` stores are `Optimizer.opt (raw body)`, those of
`CodeRel3` are `raw body + RET 0` (the unoptimized twin); `Tengo.Props.C03Source.compiled_runs_like_unoptimized`
says the two run alike on `VM.run`, but gives the raw bodies only existentially — identifying them with
`encodeIns3 (F3.compSs 0 0 0 body)` is not done (`reference_and_vm_agree_fragment3_TODO`). Not done either:
`Spec.runProgram` against `F3.exec` (function values are heap closures with environments there, locals are cells).
-/
set_option linter.unusedVariables false
namespace Tengo.Props.C01F3Bridge
open Tengo.Model Tengo.Model.F3 Tengo.Proofs.C01BridgeF3
open Tengo.Model.Spec (Value GSt Err)
open Tengo.Model.VM (Core Code Cfg Log)

variable {V : Type}

/-- Every dispatch of the run of the fragment machine from `s` stays within the VM's fixed sizes (`Bnd3`: the
new `sp` is at most 2048, fewer than 1024 caller frames, local slots and reused-frame arguments inside the
stack). -/
def WithinVM (E : Env V) (M : Mach) (s : St V) : Prop :=
  ∀ j a b, runN E M j s = .at a → step E M a = .next b → Bnd3 M a b

theorem runsB3_of_runN {E : Env V} {M : Mach} : ∀ (m : Nat) (s s' : St V), runN E M m s = .at s' →
    WithinVM E M s → RunsB3 E M m s s'
  | 0, s, s', h, _ => by
    simp only [runN, Out.at.injEq] at h
    subst h
    exact .refl s
  | m + 1, s, s', h, hW => by
    simp only [runN] at h
    cases hs : step E M s with
    | next s1 =>
      rw [hs] at h
      exact .step hs (hW 0 s s1 rfl hs)
        (runsB3_of_runN m s1 s' h (fun j a b ha hb => hW (j + 1) a b (by simp only [runN, hs]; exact ha) hb))
    | err => rw [hs] at h; cases h
    | stuck => rw [hs] at h; cases h

theorem fails_split {E : Env V} {M : Mach} : ∀ (n : Nat) (s : St V), runN E M n s = .err →
    ∃ m b, runN E M m s = .at b ∧ step E M b = .err
  | 0, s, h => by simp [runN] at h
  | n + 1, s, h => by
    simp only [runN] at h
    cases hs : step E M s with
    | next s1 =>
      rw [hs] at h
      obtain ⟨m, b, h1, h2⟩ := fails_split n s1 h
      exact ⟨m + 1, b, by simp only [runN, hs]; exact h1, h2⟩
    | err => exact ⟨0, s, rfl, hs⟩
    | stuck => rw [hs] at h; cases h

/-- **C01 on fragment F3: the reference evaluator and the whole-VM model** (within the VM's sizes).
`P` is `ProgOk`; `code` is any VM code related to the fragment compiler's program (`CodeRel3`), `c` any core
related to the fragment machine's initial state (`Rel3`; `rel_init3`: `VM.initCore`), the data semantics `E.S`
agrees with the VM's operations on the embedded values (`DataRel`; `dataRel3`: the scalars plus compiled-function
values), and the run of the fragment machine stays within the VM's fixed sizes (`WithinVM`). Then:
if `F3.exec` finishes with globals `g'`, `VM.run` halts — for every fuel from some point on, heap untouched — in a
core with an empty stack whose globals are (the embedding of) `g'`; if `F3.exec` ends in a run-time error,
`VM.run` ends `failed` with an error that is not `fuel`. -/
theorem vm_computes_fragment3 (E : Env V) (P : Prog) (hP : ProgOk P) (f : Nat) (g stk : Nat → V)
    {K n : Nat} {val : V → Value} {ref : Nat → Nat} {code : Code}
    (hcode : CodeRel3 (compProg P) K n E val ref code) (hD : DataRel E.S val) {c : Core}
    (hrel : Rel3 (compProg P) n val ref (St.init stk g) c)
    (hW : WithinVM E (compProg P) (St.init stk g))
    (keep : Nat) (allocs : Int) (log : Log) (gst : GSt) (heap : Spec.St) (ha : allocs ≤ 0) :
    (∀ g', F3.exec E P f g = .done g' →
      ∃ (c' : Core) (m : Nat), GlobRel3 n val g' c'.regs.globals ∧ c'.regs.sp = 0 ∧
        ∀ k, (VM.run code keep (m + 1 + k) allocs ⟨c, gst, heap⟩ log).1 = .halted ⟨c', gst, heap⟩) ∧
    (F3.exec E P f g = .err →
      ∃ (e : Err) (at_ : Cfg) (m : Nat), e ≠ Err.fuel ∧
        ∀ k, (VM.run code keep (m + 1 + k) allocs ⟨c, gst, heap⟩ log).1 = .failed e at_) := by
  obtain ⟨h1, h2⟩ := F3.program_correct_F3 E P hP f g stk
  constructor
  · intro g' hg
    obtain ⟨stk', m, hm⟩ := h1 g' hg
    have hr := runsB3_of_runN m _ _ hm hW
    obtain ⟨c', hglb, hsp, hrun⟩ := runs_halt3 hcode hD hrel hr rfl
      (by show sssize P.main = csize (compProg P).main
          exact (csize_compSs P.main 0 0 0).symm) keep allocs log gst heap ha
    exact ⟨c', m, hglb, hsp, hrun⟩
  · intro hg
    obtain ⟨n', hn⟩ := h2 hg
    obtain ⟨m, b, hm, hb⟩ := fails_split n' _ hn
    have hr := runsB3_of_runN m _ _ hm hW
    obtain ⟨e, at_, hne, hrun⟩ := fails_failed3 hcode hD hrel hr hb keep allocs log gst heap ha
    exact ⟨e, at_, m, hne, hrun⟩

/-! ### a decidable certificate for `WithinVM`, and a fully instantiated example -/

/-- `SlotOK` of the VM bridge as a check. -/
def slotCheck (M : Mach) (s : St V) : Bool :=
  match M.code s.fn with
  | none => true
  | some is =>
    match fetch is s.ip with
    | some (.getl j) => decide (s.bp + j < VM.stackSize)
    | some (.setl j) => decide (s.bp + j < VM.stackSize)
    | some (.defl j) => decide (s.bp + j < VM.stackSize)
    | some (.call n) => decide (s.bp + n ≤ VM.stackSize)
    | _ => true

def bndCheck (M : Mach) (s s' : St V) : Bool :=
  decide (s'.sp ≤ VM.stackSize) && decide (s'.callers.length < VM.maxFrames) && slotCheck M s

theorem bnd3_of_check {M : Mach} {s s' : St V} (h : bndCheck M s s' = true) : Bnd3 M s s' := by
  simp only [bndCheck, Bool.and_eq_true, decide_eq_true_eq] at h
  refine ⟨h.1.1, h.1.2, ?_⟩
  intro is i hc hf
  have h3 := h.2
  unfold slotCheck at h3
  rw [hc] at h3
  dsimp only at h3
  rw [hf] at h3
  cases i <;> simp_all

/-- Run at most `N` dispatches, checking the VM's sizes at each; `true` only if the machine stops (end of code,
error or fault) within `N` dispatches and every dispatch passed. -/
def runCheck (E : Env V) (M : Mach) : Nat → St V → Bool
  | 0, _ => false
  | n + 1, s =>
    match step E M s with
    | .next s' => bndCheck M s s' && runCheck E M n s'
    | _ => true

theorem withinVM_of_check {E : Env V} {M : Mach} : ∀ (N : Nat) (s : St V), runCheck E M N s = true →
    WithinVM E M s
  | 0, s, h => by simp [runCheck] at h
  | N + 1, s, h => by
    intro j a b ha hb
    simp only [runCheck] at h
    cases hs : step E M s with
    | next s1 =>
      rw [hs] at h
      simp only [Bool.and_eq_true] at h
      cases j with
      | zero =>
        simp only [runN, Out.at.injEq] at ha
        subst ha
        rw [hs] at hb
        cases hb
        exact bnd3_of_check h.1
      | succ j =>
        simp only [runN, hs] at ha
        exact withinVM_of_check N s1 h.2 j a b ha hb
    | err =>
      cases j with
      | zero =>
        simp only [runN, Out.at.injEq] at ha
        subst ha
        rw [hs] at hb; cases hb
      | succ j => simp only [runN, hs] at ha; cases ha
    | stuck =>
      cases j with
      | zero =>
        simp only [runN, Out.at.injEq] at ha
        subst ha
        rw [hs] at hb; cases hb
      | succ j => simp only [runN, hs] at ha; cases ha

/-- `f = func(x) { return x }; f(5)` — the program whose compiled form is `C01BridgeF3.Example.M`. -/
def exP : Prog where
  fns := fun k => if k = 0 then some { nparams := 1, nlocals := 1, body := .cons (.ret (.loc 0)) .nil } else none
  main := .cons (.assign 0 (.lit 0)) (.cons (.expr (.call (.glob 0) (.cons (.lit 1) .nil))) .nil)

theorem compProg_exP : compProg exP = Example.M := by
  unfold compProg Example.M
  congr 1
  funext k
  by_cases hk : k = 0
  · subst hk; rfl
  · simp only [exP, if_neg hk]; rfl

theorem exP_ok : ProgOk exP where
  fns := by
    intro k fd h
    unfold exP at h
    dsimp only at h
    split at h
    · cases h; exact ⟨by decide, by decide⟩
    · cases h
  main := by decide

/-- **Non-vacuity of `vm_computes_fragment3`**: for the concrete program, the concrete data semantics `env3` (the
scalars plus compiled-function values), the concrete VM code and `VM.initCore`, every hypothesis holds (the size
certificate by evaluation), so `VM.run` halts with an empty stack, for every fuel from some point on. -/
example (keep : Nat) (allocs : Int) (log : Log) (gst : GSt) (heap : Spec.St) (ha : allocs ≤ 0) :
    ∃ (c' : Core) (m : Nat), c'.regs.sp = 0 ∧
      ∀ k, (VM.run Example.code keep (m + 1 + k) allocs
        ⟨VM.initCore #[.undef] #[(0, [])], gst, heap⟩ log).1 = .halted ⟨c', gst, heap⟩ := by
  have hW : WithinVM (env3 Example.unref Example.cs) (compProg exP)
      (St.init (fun _ => (sem3 Example.unref).undef) (fun _ => (sem3 Example.unref).undef)) :=
    withinVM_of_check 12 _ (by decide)
  have hcode := Example.codeRel
  have hrel := Example.relInit
  rw [← compProg_exP] at hcode hrel
  have h := (vm_computes_fragment3 (env3 Example.unref Example.cs) exP exP_ok 12
    (fun _ => (sem3 Example.unref).undef) (fun _ => (sem3 Example.unref).undef) hcode
    (dataRel3 Example.unref) hrel hW keep allocs log gst heap ha).1
  cases he : F3.exec (env3 Example.unref Example.cs) exP 12 (fun _ => (sem3 Example.unref).undef) with
  | done g' =>
    obtain ⟨c', m, _, hsp, hrun⟩ := h g' he
    exact ⟨c', m, hsp, hrun⟩
  | err =>
    exact absurd (he ▸ (by decide : Tengo.Props.C01F3.tag
      (F3.exec (env3 Example.unref Example.cs) exP 12 (fun _ => (sem3 Example.unref).undef)) = 0)) (by decide)
  | out =>
    exact absurd (he ▸ (by decide : Tengo.Props.C01F3.tag
      (F3.exec (env3 Example.unref Example.cs) exP 12 (fun _ => (sem3 Example.unref).undef)) = 0)) (by decide)
  | bad =>
    exact absurd (he ▸ (by decide : Tengo.Props.C01F3.tag
      (F3.exec (env3 Example.unref Example.cs) exP 12 (fun _ => (sem3 Example.unref).undef)) = 0)) (by decide)

/- vm_computes_fragment3_TODO: the same without `WithinVM`, from a reference evaluator that counts call depth and
stack height (an `F3.exec` with the two budgets as parameters, `out`-like result when exceeded) and the machine
with the VM's two limits. -/

/-- **Compiler bridge for F3, partial** (re-export of
`Tengo.Proofs.C01BridgeF3Comp.compileFile_fragment3_partial`, see there for the exclusions): the whole compiler
model on the embedded program emits the fragment compiler's main code followed by SUSPEND, and the pool
`poolOf P ctab`: value constants, and for `P.fns k = some fd` the function constant with `fd.nlocals`,
`fd.nparams` and the optimizer model's output on the encoding of `F3.compSs 0 0 0 fd.body` (`fnConst_spec`). -/
theorem compileFile_fragment3_partial (names lnames : Nat → String) (ctab : Nat → F0.Const) (n : Nat) (P : Prog)
    (hN : Tengo.Proofs.C01BridgeF3Comp.NamesOK names lnames n) (hb : ∀ i, lnames i ∉ Spec.builtinNames)
    (hwf : Tengo.Proofs.C01BridgeF3Comp.wfProg P n = true)
    (hopt : Tengo.Proofs.C01BridgeF3Comp.optOK P P.main = true)
    (hbud : Tengo.Proofs.C01BridgeF3Comp.budMain P P.main ≤ Compiler.fuel) :
    Compiler.compileFile (Tengo.Proofs.C01BridgeF3Comp.toAstProg names lnames ctab P)
        (Tengo.Proofs.C01Bridge.inputsOf names n) =
      .ok { main := Tengo.Proofs.C01BridgeF3Comp.encodeIns3 (F3.compProg P).main ++
              [UInt8.ofNat Opcodes.opSuspend],
            consts := (List.range (Tengo.Proofs.C01BridgeF3Comp.nlitsMain P P.main)).map
              (Tengo.Proofs.C01BridgeF3Comp.poolOf P ctab),
            maxGlobals := n } :=
  Tengo.Proofs.C01BridgeF3Comp.compileFile_fragment3_partial names lnames ctab n P hN hb hwf hopt hbud

/-- The two byte encodings of `F3.Ins` (compiler side, VM side) are the same function. -/
theorem encodeIns3_agree (is : List F3.Ins) :
    Tengo.Proofs.C01BridgeF3Comp.encodeIns3 is = Tengo.Proofs.C01BridgeF3.encodeIns3 is := by
  have h : Tengo.Proofs.C01BridgeF3Comp.encI3 = Tengo.Proofs.C01BridgeF3.encI3 := by
    funext i; cases i <;> rfl
  unfold Tengo.Proofs.C01BridgeF3Comp.encodeIns3 Tengo.Proofs.C01BridgeF3.encodeIns3
  rw [h]

/- reference_and_vm_agree_fragment3_TODO: `Spec.runProgram (toAstProg … P)` and `VM.run (compileFile (toAstProg … P))`
agree. Missing: (1) `Spec.runProgram` against `F3.exec` (closures on the heap, locals in cells: a value RELATION,
not the equality the F1/F2 bridges use); (2) the stored function constants are `Optimizer.opt` of the raw bodies
while `CodeRel3` wants raw body + `RET 0`: `C03Source.compiled_runs_like_unoptimized` closes it once its raw bodies
are identified with `encodeIns3 (F3.compSs 0 0 0 body)`; (3) `WithinVM`. -/

end Tengo.Props.C01F3Bridge

import Tengo.Model.Symtab
import Tengo.Gen.ScopeOpcodes
/-!
C11 — A program means the same wherever its variables live.

Theorems about `Tengo.Model.Symtab`, the model of `symbol_table.go` (tied to the real
`tengo.SymbolTable` by the `symops` correspondence stream of harness/cmd/c11 and to compiler.go by the
regenerated scope ↦ opcode tables).

(a) `resolve_rename`, `step_rename`, `run_rename`: names influence nothing but lookup equality.
(b) `resolve_decl`, `scope_classification`: which scope a name resolves to is decided by where its
    defining table sits relative to function boundaries.
(c) `resolve_capture`, `free_capture_complete`: captured symbols, their indexes and originals.
(d) `visible_locals_distinct`, `visible_locals_lt_max`, `global_define_fresh`: index facts.
(e) `scope_opcodes_match`: the opcode family table.
-/
namespace Tengo.Props.C11
open Tengo.Model.Symtab

/-! ## (e) the opcode families -/

/-- What compiler.go emits per scope now is what the model documents. -/
theorem scope_opcodes_match :
    Tengo.Gen.ScopeOpcodes.identLoad = identLoad ∧
    Tengo.Gen.ScopeOpcodes.assignStore = assignStore ∧
    Tengo.Gen.ScopeOpcodes.captureLoad = captureLoad ∧
    Tengo.Gen.ScopeOpcodes.resolveCalls = resolveCalls ∧
    Tengo.Gen.ScopeOpcodes.identLoadTag = "symbol.Scope" ∧
    Tengo.Gen.ScopeOpcodes.assignStoreTag = "symbol.Scope" ∧
    Tengo.Gen.ScopeOpcodes.captureLoadTag = "s.Scope" :=
  ⟨by decide, by decide, by decide, by decide, by decide, by decide, by decide⟩

/-- The three families are pairwise disjoint and every assignable scope has all three kinds of
store; a captured original is local or free. -/
theorem scope_families :
    opsFor identLoad .global = ["OpGetGlobal"] ∧ opsFor identLoad .local = ["OpGetLocal"] ∧
    opsFor identLoad .free = ["OpGetFree"] ∧ opsFor identLoad .builtin = ["OpGetBuiltin"] ∧
    opsFor assignStore .global = ["OpSetSelGlobal", "OpSetGlobal"] ∧
    opsFor assignStore .local = ["OpSetSelLocal", "OpDefineLocal", "OpSetLocal"] ∧
    opsFor assignStore .free = ["OpSetSelFree", "OpSetFree"] ∧
    opsFor assignStore .builtin = [] ∧
    opsFor captureLoad .local = ["OpNull", "OpDefineLocal", "OpGetLocalPtr"] ∧
    opsFor captureLoad .free = ["OpGetFreePtr"] ∧
    opsFor captureLoad .global = [] ∧ opsFor captureLoad .builtin = [] :=
  ⟨by decide, by decide, by decide, by decide, by decide, by decide, by decide, by decide, by decide,
   by decide, by decide, by decide⟩

/-! ## (a) renaming -/

section Rename
variable {σ : String → String}

theorem lookup_rename (hσ : Function.Injective σ) (n : String) (st : List (String × Symbol)) :
    lookup (σ n) (renameStore σ st) = (lookup n st).map (Symbol.rename σ) := by
  induction st with
  | nil => rfl
  | cons p rest ih =>
    obtain ⟨k, s⟩ := p
    by_cases h : k = n
    · simp [renameStore, lookup, h]
    · have h' : σ k ≠ σ n := fun e => h (hσ e)
      simp [renameStore, lookup, h, h', ih]

theorem put_rename (hσ : Function.Injective σ) (n : String) (s : Symbol) (st : List (String × Symbol)) :
    renameStore σ (put n s st) = put (σ n) (s.rename σ) (renameStore σ st) := by
  induction st with
  | nil => rfl
  | cons p rest ih =>
    obtain ⟨k, v⟩ := p
    by_cases h : k = n
    · simp [renameStore, put, h]
    · have h' : σ k ≠ σ n := fun e => h (hσ e)
      simp [renameStore, put, h, h', ih]

theorem setAssigned_rename (hσ : Function.Injective σ) (n : String) (st : List (String × Symbol)) :
    renameStore σ (setAssigned n st) = setAssigned (σ n) (renameStore σ st) := by
  induction st with
  | nil => rfl
  | cons p rest ih =>
    obtain ⟨k, v⟩ := p
    by_cases h : k = n
    · by_cases hs : v.scope = .local <;> simp [renameStore, setAssigned, h, hs, Symbol.rename]
    · have h' : σ k ≠ σ n := fun e => h (hσ e)
      simp [renameStore, setAssigned, h, h', ih]

@[simp] theorem rename_block (t : Table) : (t.rename σ).block = t.block := rfl
@[simp] theorem rename_num (t : Table) : (t.rename σ).numDefinition = t.numDefinition := rfl
@[simp] theorem rename_max (t : Table) : (t.rename σ).maxDefinition = t.maxDefinition := rfl
@[simp] theorem rename_scope (s : Symbol) : (s.rename σ).scope = s.scope := rfl
@[simp] theorem rename_index (s : Symbol) : (s.rename σ).index = s.index := rfl
@[simp] theorem rename_assigned (s : Symbol) : (s.rename σ).localAssigned = s.localAssigned := rfl
@[simp] theorem renameChain_nil : renameChain σ [] = [] := rfl
@[simp] theorem renameChain_cons (t : Table) (c : Chain) :
    renameChain σ (t :: c) = t.rename σ :: renameChain σ c := rfl

theorem nextIndex_rename (c : Chain) : nextIndex (renameChain σ c) = nextIndex c := by
  induction c with
  | nil => rfl
  | cons t ps ih => simp [nextIndex, ih]

theorem globalCtx_rename (c : Chain) : globalCtx (renameChain σ c) = globalCtx c := by
  induction c with
  | nil => rfl
  | cons t ps ih =>
    have hl : (renameChain σ ps).isEmpty = ps.isEmpty := by cases ps <;> rfl
    by_cases h : t.block <;> simp [globalCtx, h, ih, hl]

theorem updateMax_rename (k : Nat) (c : Chain) :
    updateMax k (renameChain σ c) = renameChain σ (updateMax k c) := by
  induction c with
  | nil => rfl
  | cons t ps ih =>
    by_cases h : t.block <;> simp [updateMax, h, ih, Table.rename]

theorem incRoot_rename (c : Chain) : incRoot (renameChain σ c) = renameChain σ (incRoot c) := by
  induction c with
  | nil => rfl
  | cons t ps ih =>
    cases ps with
    | nil => simp [incRoot, Table.rename]
    | cons p ps => simp [incRoot] at ih ⊢; exact ih

theorem define_rename (hσ : Function.Injective σ) (n : String) (c : Chain) :
    define (σ n) (renameChain σ c) = ((define n c).1.rename σ, renameChain σ (define n c).2) := by
  cases c with
  | nil => rfl
  | cons t ps =>
    have hn := nextIndex_rename (σ := σ) (t :: ps)
    have hg := globalCtx_rename (σ := σ) (t :: ps)
    simp only [renameChain_cons] at hn hg
    simp only [define, renameChain_cons, hn, hg]
    by_cases g : globalCtx (t :: ps) = true
    · simp only [g, if_true]
      refine Prod.ext rfl ?_
      simp only [← updateMax_rename]
      congr 1
      have := incRoot_rename (σ := σ) ({ t with store := put n ⟨n, .global, nextIndex (t :: ps), false⟩ t.store } :: ps)
      simp only [renameChain_cons] at this
      rw [← this]
      congr 2
      simp [Table.rename, put_rename hσ, Symbol.rename]
    · simp only [g]
      refine Prod.ext rfl ?_
      simp only [← updateMax_rename]
      congr 1
      simp [Table.rename, put_rename hσ, Symbol.rename]

theorem defineBuiltin_rename (hσ : Function.Injective σ) (i : Nat) (n : String) (c : Chain) :
    defineBuiltin i (σ n) (renameChain σ c)
      = ((defineBuiltin i n c).1.rename σ, renameChain σ (defineBuiltin i n c).2) := by
  induction c with
  | nil => rfl
  | cons t ps ih =>
    cases ps with
    | nil => simp [defineBuiltin, Table.rename, put_rename hσ, Symbol.rename]
    | cons p ps =>
      simp only [renameChain_cons] at ih
      simp [defineBuiltin, ih]

theorem resolveUp_rename (hσ : Function.Injective σ) (t : Table) (up : Option (Symbol × Nat) × Chain) :
    resolveUp (t.rename σ) (up.1.map (fun p => (p.1.rename σ, p.2)), renameChain σ up.2)
      = ((resolveUp t up).1.map (fun p => (p.1.rename σ, p.2)), renameChain σ (resolveUp t up).2) := by
  obtain ⟨r, c⟩ := up
  cases r with
  | none => simp [resolveUp]
  | some p =>
    obtain ⟨s, d⟩ := p
    by_cases h : (!t.block && s.scope != .global && s.scope != .builtin) = true
    · simp [resolveUp, h, Table.defineFree, Table.rename, put_rename hσ, Symbol.rename]
    · simp [resolveUp, h]

/-- **(a)** `Resolve` commutes with an injective renaming of every name in the table tree: the
found symbol's scope, index and assigned flag, the depth, and every table after the `defineFree`
calls (indexes, free lists, counters) are the same up to the names. -/
theorem resolve_rename (hσ : Function.Injective σ) (c : Chain) (n : String) (r : Bool) :
    resolve (renameChain σ c) (σ n) r
      = ((resolve c n r).1.map (fun p => (p.1.rename σ, p.2)), renameChain σ (resolve c n r).2) := by
  induction c generalizing r with
  | nil => rfl
  | cons t ps ih =>
    simp only [renameChain_cons, resolve]
    have hl : lookup (σ n) (t.rename σ).store = (lookup n t.store).map (Symbol.rename σ) :=
      lookup_rename hσ n t.store
    rw [hl]
    cases hlk : lookup n t.store with
    | none =>
      simp only [Option.map_none]
      rw [ih true]; exact resolveUp_rename hσ t _
    | some s =>
      simp only [Option.map_some]
      have hu : usable (s.rename σ) r = usable s r := rfl
      rw [hu]
      by_cases u : usable s r = true
      · simp [u]
      · simp only [u]
        rw [ih true]; exact resolveUp_rename hσ t _

theorem markLevel_rename (hσ : Function.Injective σ) (n : String) (d : Nat) (c : Chain) :
    markLevel (σ n) d (renameChain σ c) = renameChain σ (markLevel n d c) := by
  induction c generalizing d with
  | nil => cases d <;> rfl
  | cons t ps ih =>
    cases d with
    | zero => simp [markLevel, Table.rename, setAssigned_rename hσ]
    | succ d => simp [markLevel, ih]

theorem markFirst_rename (hσ : Function.Injective σ) (n : String) (c : Chain) :
    markFirst (σ n) (renameChain σ c) = renameChain σ (markFirst n c) := by
  induction c with
  | nil => rfl
  | cons t ps ih =>
    simp only [renameChain_cons, markFirst]
    have hl : lookup (σ n) (t.rename σ).store = (lookup n t.store).map (Symbol.rename σ) :=
      lookup_rename hσ n t.store
    rw [hl]
    cases lookup n t.store with
    | none => simp [ih]
    | some s => simp [Table.rename, setAssigned_rename hσ]

theorem markCaptured_rename (hσ : Function.Injective σ) (os : List Symbol) (c : Chain) :
    markCaptured (os.map (Symbol.rename σ)) (renameChain σ c) = renameChain σ (markCaptured os c) := by
  induction os generalizing c with
  | nil => rfl
  | cons o os ih =>
    simp only [List.map_cons, markCaptured, rename_scope]
    by_cases h : o.scope = .local
    · simp only [h, if_true]
      have : (o.rename σ).name = σ o.name := rfl
      rw [this, markFirst_rename hσ, ih]
    · simp only [h, if_false, ih]

theorem parent_rename (c : Chain) : parent (renameChain σ c) = (parent c).map (renameChain σ) := by
  match c with
  | [] => rfl
  | [_] => rfl
  | _ :: _ :: _ => rfl

/-- Every operation of the table commutes with the renaming. -/
theorem step_rename (hσ : Function.Injective σ) (o : Op) (c : Chain) :
    step (o.rename σ) (renameChain σ c) = ((step o c).1.rename σ, renameChain σ (step o c).2) := by
  cases o with
  | define n => simp [Op.rename, step, define_rename hσ, Res.rename]
  | builtin i n => simp [Op.rename, step, defineBuiltin_rename hσ, Res.rename]
  | fork b => simp [Op.rename, step, fork, Res.rename, Table.rename, renameStore]
  | parent =>
    simp only [Op.rename, step, parent_rename]
    cases parent c <;> simp [Res.rename]
  | leave =>
    simp only [Op.rename, step]
    match c with
    | [] => rfl
    | [_] => rfl
    | t :: p :: ps =>
      simp only [renameChain_cons, parent, Res.rename]
      have := markCaptured_rename hσ t.freeSymbols (p :: ps)
      simp only [renameChain_cons] at this
      have ht : (t.rename σ).freeSymbols = t.freeSymbols.map (Symbol.rename σ) := rfl
      rw [ht, this]
  | resolve n r =>
    simp only [Op.rename, step, resolve_rename hσ]
    cases (resolve c n r).1 with
    | none => simp [resOf, Res.rename]
    | some p => simp [resOf, Res.rename]
  | assign n =>
    simp only [Op.rename, step, resolve_rename hσ]
    cases (resolve c n false).1 with
    | none => simp [Res.rename]
    | some p =>
      obtain ⟨s, d⟩ := p
      by_cases h : s.scope = .local <;> simp [Res.rename, h, markLevel_rename hσ]
  | mark n =>
    simp only [Op.rename, step, resolve_rename hσ]
    cases (resolve c n true).1 with
    | none => simp [Res.rename]
    | some p =>
      obtain ⟨s, d⟩ := p
      by_cases h : s.scope = .local ∧ d = 0
      · simp [Res.rename, h, markLevel_rename hσ]
      · simp only [Option.map_some, rename_scope, h, if_false, Res.rename]

/-- **(a), whole histories.** Replaying a consistently renamed sequence of operations gives the
same results and the same tables, up to the names. -/
theorem run_rename (hσ : Function.Injective σ) (os : List Op) (c : Chain) :
    run (os.map (Op.rename σ)) (renameChain σ c)
      = ((run os c).1.map (Res.rename σ), renameChain σ (run os c).2) := by
  induction os generalizing c with
  | nil => rfl
  | cons o os ih => simp [run, step_rename hσ, ih]

end Rename

/-! ## (b) where a name resolves to -/

/-- The declaration a lookup finds: level (tables up from the current one) and the stored symbol.
Pure lookup, no table is changed. At level 0 an unassigned local is skipped unless `recur`. -/
def declAt : Chain → String → Bool → Option (Nat × Symbol)
  | [], _, _ => none
  | t :: ps, n, r =>
    match lookup n t.store with
    | some s => if usable s r then some (0, s) else (declAt ps n true).map (fun p => (p.1 + 1, p.2))
    | none => (declAt ps n true).map (fun p => (p.1 + 1, p.2))

/-- A function boundary (a non-block table) lies among the `d` innermost tables. -/
def crossed (c : Chain) (d : Nat) : Bool := (c.take d).any (fun t => !t.block)

/-- Symbols that turn into free symbols when a function boundary is crossed. -/
def captures (e : Symbol) : Bool := e.scope != .global && e.scope != .builtin

theorem crossed_zero (c : Chain) : crossed c 0 = false := by simp [crossed]
theorem crossed_succ (t : Table) (ps : Chain) (d : Nat) :
    crossed (t :: ps) (d + 1) = (!t.block || crossed ps d) := by simp [crossed]

theorem resolve_none_iff (c : Chain) (n : String) (r : Bool) :
    (resolve c n r).1 = none ↔ declAt c n r = none := by
  induction c generalizing r with
  | nil => simp [resolve, declAt]
  | cons t ps ih =>
    have up : (resolveUp t (resolve ps n true)).1 = none ↔ (declAt ps n true) = none := by
      rw [← ih true]
      unfold resolveUp
      cases h : (resolve ps n true).1 with
      | none => simp
      | some p => obtain ⟨s, d⟩ := p; by_cases g : (!t.block && s.scope != .global && s.scope != .builtin) = true <;> simp [g]
    simp only [resolve, declAt]
    cases lookup n t.store with
    | none => simpa using up
    | some s => by_cases u : usable s r = true <;> simp [u] <;> simpa using up

/-- **(b), mechanism.** What `Resolve` returns is decided by the first usable declaration `e` at
level `d` and by whether a function boundary lies between: a global or builtin is returned as it
is; a local or free symbol is returned as it is when only blocks lie between, and as a FREE symbol
of the same name otherwise. -/
theorem resolve_decl (c : Chain) (n : String) (r : Bool) (s : Symbol) (d : Nat)
    (h : (resolve c n r).1 = some (s, d)) :
    ∃ e, declAt c n r = some (d, e) ∧
      ((captures e && crossed c d) = true → s.scope = .free ∧ s.name = e.name) ∧
      ((captures e && crossed c d) = false → s = e) := by
  induction c generalizing r s d with
  | nil => simp [resolve] at h
  | cons t ps ih =>
    have up : ∀ s d, (resolveUp t (resolve ps n true)).1 = some (s, d) →
        ∃ e, (declAt ps n true).map (fun p => (p.1 + 1, p.2)) = some (d, e) ∧
          ((captures e && crossed (t :: ps) d) = true → s.scope = .free ∧ s.name = e.name) ∧
          ((captures e && crossed (t :: ps) d) = false → s = e) := by
      intro s d h
      unfold resolveUp at h
      cases hr : (resolve ps n true).1 with
      | none => simp [hr] at h
      | some p =>
        obtain ⟨s0, d0⟩ := p
        obtain ⟨e, he, h1, h2⟩ := ih true s0 d0 hr
        simp only [hr] at h
        by_cases g : (!t.block && s0.scope != .global && s0.scope != .builtin) = true
        · simp only [g, if_true, Table.defineFree, Option.some.injEq, Prod.mk.injEq] at h
          obtain ⟨hs, hd⟩ := h
          subst hd
          refine ⟨e, by simp [he], ?_, ?_⟩
          · intro _
            subst hs
            refine ⟨rfl, ?_⟩
            cases hc : (captures e && crossed ps d0)
            · rw [h2 hc]
            · exact (h1 hc).2
          · intro hf
            exfalso
            have hb : t.block = false := by
              cases hb : t.block <;> simp [hb] at g ⊢
            have hcap : captures e = true := by
              cases hc : (captures e && crossed ps d0)
              · have := h2 hc; subst this
                simp only [hb] at g
                simpa [captures] using g
              · simp only [Bool.and_eq_true] at hc; exact hc.1
            simp [crossed_succ, hb, hcap] at hf
        · rw [if_neg g] at h
          simp only [Option.some.injEq, Prod.mk.injEq] at h
          obtain ⟨hs, hd⟩ := h
          subst hd; subst hs
          refine ⟨e, by simp [he], ?_, ?_⟩
          · intro hc
            rw [crossed_succ] at hc
            cases hb : t.block
            · -- a function table that did not capture: the symbol is global or builtin
              exfalso
              have hs0 : captures s0 = false := by
                simp only [hb] at g
                cases hcs : captures s0
                · rfl
                · exfalso; apply g; simpa [captures] using hcs
              cases hc' : (captures e && crossed ps d0)
              · have := h2 hc'; subst this
                simp [hs0] at hc
              · have := (h1 hc').1
                simp [captures, this] at hs0
            · simp only [hb] at hc
              exact h1 (by simpa using hc)
          · intro hc
            rw [crossed_succ] at hc
            apply h2
            cases hce : captures e
            · simp
            · simp only [hce, Bool.true_and, Bool.or_eq_false_iff] at hc
              simp [hc.2]
    simp only [resolve] at h
    simp only [declAt]
    cases hl : lookup n t.store with
    | none => simp only [hl] at h; exact up s d h
    | some s1 =>
      simp only [hl] at h
      by_cases u : usable s1 r = true
      · simp only [u, if_true] at h
        have h' : s1 = s ∧ 0 = d := by simpa using h
        obtain ⟨hs, hd⟩ := h'
        subst hs; subst hd
        exact ⟨s1, by simp [u], by simp [crossed_zero], fun _ => rfl⟩
      · simp only [u] at h ⊢
        exact up s d h


/-! ### store lemmas -/

theorem lookup_put (m n : String) (s : Symbol) (st : List (String × Symbol)) :
    lookup m (put n s st) = if m = n then some s else lookup m st := by
  induction st with
  | nil => by_cases h : m = n <;> simp [put, lookup, h, eq_comm]
  | cons p rest ih =>
    obtain ⟨k, v⟩ := p
    by_cases hk : k = n
    · subst hk
      by_cases h : m = k
      · simp [put, lookup, h]
      · have h' : ¬ k = m := fun e => h e.symm
        simp [put, lookup, h, h']
    · by_cases hm : k = m
      · subst hm
        simp [put, lookup, hk]
      · simp [put, lookup, hk, hm, ih]

theorem lookup_setAssigned (m n : String) (st : List (String × Symbol)) :
    lookup m (setAssigned n st) =
      (lookup m st).map (fun e => if m = n ∧ e.scope = .local then { e with localAssigned := true } else e) := by
  induction st with
  | nil => rfl
  | cons p rest ih =>
    obtain ⟨k, v⟩ := p
    by_cases hk : k = n
    · subst hk
      by_cases hm : k = m
      · subst hm
        by_cases hs : v.scope = .local <;> simp [setAssigned, lookup, hs]
      · have : ¬ m = k := fun e => hm e.symm
        simp [setAssigned, lookup, hm, this]
    · by_cases hm : k = m
      · subst hm
        simp [setAssigned, lookup, hk]
      · simp [setAssigned, lookup, hk, hm, ih]

/-- Marking changes nothing but the assigned flag. -/
theorem lookup_setAssigned_some {m n : String} {st : List (String × Symbol)} {e' : Symbol}
    (h : lookup m (setAssigned n st) = some e') :
    ∃ e, lookup m st = some e ∧ e'.name = e.name ∧ e'.scope = e.scope ∧ e'.index = e.index := by
  rw [lookup_setAssigned] at h
  cases hl : lookup m st with
  | none => simp [hl] at h
  | some e =>
    simp only [hl, Option.map_some, Option.some.injEq] at h
    refine ⟨e, rfl, ?_⟩
    subst h
    by_cases c : m = n ∧ e.scope = .local <;> simp [c]

/-! ### frames: what `Resolve` and the marks leave untouched -/

/-- The block flags of a chain. -/
def shape (c : Chain) : List Bool := c.map (·.block)

/-- Block flag and counters of a table. -/
def frame (t : Table) : Bool × Nat × Nat := (t.block, t.numDefinition, t.maxDefinition)

theorem shape_of_frames {c c' : Chain} (h : c.map frame = c'.map frame) : shape c = shape c' := by
  have := congrArg (List.map (fun f : Bool × Nat × Nat => f.1)) h
  simpa [shape, List.map_map, Function.comp_def, frame] using this

theorem globalCtx_congr : ∀ {c c' : Chain}, shape c = shape c' → globalCtx c = globalCtx c'
  | [], [], _ => rfl
  | [], _ :: _, h => by simp [shape] at h
  | _ :: _, [], h => by simp [shape] at h
  | t :: ps, t' :: ps', h => by
    simp only [shape, List.map_cons, List.cons.injEq] at h
    have ih := globalCtx_congr (c := ps) (c' := ps') h.2
    have he : ps.isEmpty = ps'.isEmpty := by
      cases ps <;> cases ps' <;> simp_all
    simp [globalCtx, h.1, ih, he]

theorem nextIndex_congr : ∀ {c c' : Chain}, c.map frame = c'.map frame → nextIndex c = nextIndex c'
  | [], [], _ => rfl
  | [], _ :: _, h => by simp at h
  | _ :: _, [], h => by simp at h
  | t :: ps, t' :: ps', h => by
    simp only [List.map_cons, List.cons.injEq, frame, Prod.mk.injEq] at h
    have ih := nextIndex_congr (c := ps) (c' := ps') h.2
    simp [nextIndex, h.1.1, h.1.2.1, ih]

theorem resolveUp_frames (t : Table) (up : Option (Symbol × Nat) × Chain) :
    (resolveUp t up).2.map frame = frame t :: up.2.map frame := by
  obtain ⟨r, c⟩ := up
  cases r with
  | none => rfl
  | some p =>
    obtain ⟨s, d⟩ := p
    by_cases g : (!t.block && s.scope != .global && s.scope != .builtin) = true
    · simp [resolveUp, g, Table.defineFree, frame]
    · simp [resolveUp, g]

theorem resolve_frames (c : Chain) (n : String) (r : Bool) :
    (resolve c n r).2.map frame = c.map frame := by
  induction c generalizing r with
  | nil => rfl
  | cons t ps ih =>
    simp only [resolve]
    cases lookup n t.store with
    | none => simp [resolveUp_frames, ih]
    | some s => by_cases u : usable s r = true <;> simp [u, resolveUp_frames, ih]

theorem ne_nil_of_shape {a b : Chain} (h : shape a = shape b) (hb : b ≠ []) : a ≠ [] := by
  intro e; subst e
  cases b with
  | nil => exact hb rfl
  | cons _ _ => simp [shape] at h

theorem resolve_some_ne_nil {c : Chain} {n : String} {r : Bool} {p : Symbol × Nat}
    (h : (resolve c n r).1 = some p) : c ≠ [] := by
  intro hc; subst hc; simp [resolve] at h

/-! ### invariant 1: a stored symbol's scope says where its table sits -/

/-- The rule for the entry `e` stored under `m` in a table with block flag `b` whose parents have
the block flags `sh`. -/
def EntryOK (b : Bool) (ps : Chain) (m : String) (e : Symbol) : Prop :=
  e.name = m ∧
  (e.scope = .global → globalCtx ({ block := b } :: ps) = true) ∧
  (e.scope = .local → globalCtx ({ block := b } :: ps) = false) ∧
  (e.scope = .free → b = false ∧ ps ≠ []) ∧
  (e.scope = .builtin → ps = [])

def ScopeInv : Chain → Prop
  | [] => True
  | t :: ps => (∀ m e, lookup m t.store = some e → EntryOK t.block ps m e) ∧ ScopeInv ps

theorem globalCtx_head (t : Table) (ps : Chain) :
    globalCtx ({ block := t.block } :: ps) = globalCtx (t :: ps) := by simp [globalCtx]

theorem entryOK_congr {b : Bool} {ps ps' : Chain} (h : shape ps = shape ps') {m : String} {e : Symbol}
    (he : EntryOK b ps m e) : EntryOK b ps' m e := by
  have hg : globalCtx ({ block := b } :: ps) = globalCtx ({ block := b } :: ps') :=
    globalCtx_congr (by simp [shape] at h ⊢; exact h)
  have hn : ps = [] ↔ ps' = [] := by
    cases ps <;> cases ps' <;> simp_all [shape]
  obtain ⟨h1, h2, h3, h4, h5⟩ := he
  refine ⟨h1, fun x => hg ▸ h2 x, fun x => hg ▸ h3 x, fun x => ⟨(h4 x).1, fun y => (h4 x).2 (hn.2 y)⟩,
    fun x => hn.1 (h5 x)⟩

/-- `ScopeInv` looks at block flags and stores only. -/
theorem scopeInv_congr : ∀ {c c' : Chain},
    c.map (fun t => (t.block, t.store)) = c'.map (fun t => (t.block, t.store)) → ScopeInv c → ScopeInv c'
  | [], [], _, _ => trivial
  | [], _ :: _, h, _ => by simp at h
  | _ :: _, [], h, _ => by simp at h
  | t :: ps, t' :: ps', h, hi => by
    simp only [List.map_cons, List.cons.injEq, Prod.mk.injEq] at h
    obtain ⟨⟨hb, hs⟩, ht⟩ := h
    have hsh : shape ps = shape ps' := by
      have := congrArg (List.map (fun f : Bool × List (String × Symbol) => f.1)) ht
      simpa [shape, List.map_map, Function.comp_def] using this
    refine ⟨fun m e hl => ?_, scopeInv_congr ht hi.2⟩
    rw [← hs] at hl
    rw [← hb]
    exact entryOK_congr hsh (hi.1 m e hl)

theorem updateMax_view (k : Nat) (c : Chain) :
    (updateMax k c).map (fun t => (t.block, t.store)) = c.map (fun t => (t.block, t.store)) := by
  induction c with
  | nil => rfl
  | cons t ps ih => by_cases h : t.block <;> simp [updateMax, h, ih]

theorem incRoot_view (c : Chain) :
    (incRoot c).map (fun t => (t.block, t.store)) = c.map (fun t => (t.block, t.store)) := by
  induction c with
  | nil => rfl
  | cons t ps ih =>
    cases ps with
    | nil => simp [incRoot]
    | cons p ps => simpa [incRoot] using ih

theorem scopeInv_define (n : String) (c : Chain) (h : ScopeInv c) : ScopeInv (define n c).2 := by
  cases c with
  | nil => trivial
  | cons t ps =>
    simp only [define]
    have key : ScopeInv ({ t with store := put n ⟨n, if globalCtx (t :: ps) = true then .global else .local,
        nextIndex (t :: ps), false⟩ t.store } :: ps) := by
      refine ⟨fun m e hl => ?_, h.2⟩
      simp only [lookup_put] at hl
      by_cases hm : m = n
      · simp only [hm, if_true, Option.some.injEq] at hl
        subst hl; subst hm
        by_cases g : globalCtx (t :: ps) = true
        · simp [EntryOK, g, globalCtx_head]
        · simp [EntryOK, g, globalCtx_head]
      · simp only [hm, if_false] at hl
        exact h.1 m e hl
    by_cases g : globalCtx (t :: ps) = true
    · simp only [g, if_true] at key ⊢
      exact scopeInv_congr (by rw [updateMax_view, incRoot_view]) key
    · simp only [g, if_false] at key ⊢
      refine scopeInv_congr ?_ key
      rw [updateMax_view]; simp

theorem scopeInv_defineBuiltin (i : Nat) (n : String) (c : Chain) (h : ScopeInv c) :
    ScopeInv (defineBuiltin i n c).2 := by
  induction c with
  | nil => trivial
  | cons t ps ih =>
    cases ps with
    | nil =>
      refine ⟨fun m e hl => ?_, trivial⟩
      simp only [lookup_put] at hl
      by_cases hm : m = n
      · simp only [hm, if_true, Option.some.injEq] at hl
        subst hl; subst hm
        simp [EntryOK]
      · simp only [hm, if_false] at hl
        exact h.1 m e hl
    | cons p ps =>
      simp only [defineBuiltin]
      refine ⟨fun m e hl => entryOK_congr ?_ (h.1 m e hl), ih h.2⟩
      clear ih h
      -- defineBuiltin keeps the shape
      have : ∀ c : Chain, shape (defineBuiltin i n c).2 = shape c := by
        intro c
        induction c with
        | nil => rfl
        | cons t ps ih =>
          cases ps with
          | nil => simp [defineBuiltin, shape]
          | cons p ps => simpa [defineBuiltin, shape] using ih
      exact (this (p :: ps)).symm

theorem scopeInv_resolve (c : Chain) (n : String) (r : Bool) (h : ScopeInv c) :
    ScopeInv (resolve c n r).2 := by
  induction c generalizing r with
  | nil => trivial
  | cons t ps ih =>
    have hsh : shape (resolve ps n true).2 = shape ps := shape_of_frames (resolve_frames ps n true)
    have up : ScopeInv (resolveUp t (resolve ps n true)).2 := by
      unfold resolveUp
      cases hr : (resolve ps n true).1 with
      | none => exact ⟨fun m e hl => entryOK_congr hsh.symm (h.1 m e hl), ih true h.2⟩
      | some p =>
        obtain ⟨s0, d0⟩ := p
        by_cases g : (!t.block && s0.scope != .global && s0.scope != .builtin) = true
        · simp only [g, if_true, Table.defineFree]
          refine ⟨fun m e hl => ?_, ih true h.2⟩
          simp only [lookup_put] at hl
          by_cases hm : m = s0.name
          · simp only [hm, if_true, Option.some.injEq] at hl
            subst hl; subst hm
            have hb : t.block = false := by cases hb : t.block <;> simp [hb] at g ⊢
            have hne : (resolve ps n true).2 ≠ [] :=
              ne_nil_of_shape hsh (resolve_some_ne_nil hr)
            simp [EntryOK, hb, hne]
          · simp only [hm, if_false] at hl
            exact entryOK_congr hsh.symm (h.1 m e hl)
        · have g' := (Bool.not_eq_true _).mp g
          simp only [g', Bool.false_eq_true, if_false]
          exact ⟨fun m e hl => entryOK_congr hsh.symm (h.1 m e hl), ih true h.2⟩
    simp only [resolve]
    cases lookup n t.store with
    | none => exact up
    | some s => by_cases u : usable s r = true <;> simp only [u, if_true] <;> first | exact h | exact up

theorem scopeInv_markLevel (n : String) (d : Nat) (c : Chain) (h : ScopeInv c) :
    ScopeInv (markLevel n d c) := by
  induction c generalizing d with
  | nil => cases d <;> trivial
  | cons t ps ih =>
    cases d with
    | zero =>
      refine ⟨fun m e hl => ?_, h.2⟩
      obtain ⟨e0, hl0, hn, hs, _⟩ := lookup_setAssigned_some hl
      have := h.1 m e0 hl0
      simp only [EntryOK, hn, hs] at this ⊢
      exact this
    | succ d =>
      have hsh : shape (markLevel n d ps) = shape ps := by
        clear ih h
        induction ps generalizing d with
        | nil => cases d <;> rfl
        | cons p ps ih => cases d <;> simp [markLevel, shape] at ih ⊢; exact ih _
      exact ⟨fun m e hl => entryOK_congr hsh.symm (h.1 m e hl), ih d h.2⟩


theorem markLevel_shape (n : String) (d : Nat) (c : Chain) : shape (markLevel n d c) = shape c := by
  induction c generalizing d with
  | nil => cases d <;> rfl
  | cons t ps ih => cases d <;> simp [markLevel, shape] at ih ⊢; exact ih _

theorem markFirst_shape (n : String) (c : Chain) : shape (markFirst n c) = shape c := by
  induction c with
  | nil => rfl
  | cons t ps ih =>
    simp only [markFirst]
    cases lookup n t.store <;> simp [shape] at ih ⊢
    exact ih

theorem scopeInv_markFirst (n : String) (c : Chain) (h : ScopeInv c) : ScopeInv (markFirst n c) := by
  induction c with
  | nil => trivial
  | cons t ps ih =>
    simp only [markFirst]
    cases hl : lookup n t.store with
    | some _ => exact scopeInv_markLevel n 0 (t :: ps) h
    | none =>
      exact ⟨fun m e hl => entryOK_congr (markFirst_shape n ps).symm (h.1 m e hl), ih h.2⟩

theorem scopeInv_markCaptured (os : List Symbol) (c : Chain) (h : ScopeInv c) :
    ScopeInv (markCaptured os c) := by
  induction os generalizing c with
  | nil => exact h
  | cons o os ih =>
    simp only [markCaptured]
    by_cases g : o.scope = .local
    · simp only [g, if_true]; exact ih _ (scopeInv_markFirst _ _ h)
    · simp only [g, if_false]; exact ih _ h

theorem scopeInv_tail {t : Table} {ps : Chain} (h : ScopeInv (t :: ps)) : ScopeInv ps := h.2

theorem scopeInv_fork (b : Bool) (c : Chain) (h : ScopeInv c) : ScopeInv (fork b c) :=
  ⟨fun m e hl => by simp [lookup] at hl, h⟩

theorem scopeInv_init : ScopeInv init := ⟨fun m e hl => by simp [lookup] at hl, trivial⟩

theorem scopeInv_step (o : Op) (c : Chain) (h : ScopeInv c) : ScopeInv (step o c).2 := by
  cases o with
  | define n => exact scopeInv_define n c h
  | builtin i n => exact scopeInv_defineBuiltin i n c h
  | fork b => exact scopeInv_fork b c h
  | parent =>
    simp only [step]
    match c, h with
    | [], _ => trivial
    | [_], h => exact h
    | _ :: p :: ps, h => exact h.2
  | leave =>
    simp only [step]
    match c, h with
    | [], _ => trivial
    | [_], h => exact h
    | t :: p :: ps, h => exact scopeInv_markCaptured _ _ h.2
  | resolve n r => exact scopeInv_resolve c n r h
  | assign n =>
    simp only [step]
    have := scopeInv_resolve c n false h
    cases (resolve c n false).1 with
    | none => exact this
    | some p =>
      obtain ⟨s, d⟩ := p
      by_cases g : s.scope = .local
      · simp only [g, if_true]; exact scopeInv_markLevel _ _ _ this
      · simp only [g, if_false]; exact this
  | mark n =>
    simp only [step]
    have := scopeInv_resolve c n true h
    cases (resolve c n true).1 with
    | none => exact this
    | some p =>
      obtain ⟨s, d⟩ := p
      by_cases g : s.scope = .local ∧ d = 0
      · simp only [g, and_self, if_true]; exact scopeInv_markLevel _ _ _ this
      · simp only [g, if_false]; exact this

theorem scopeInv_run (os : List Op) (c : Chain) (h : ScopeInv c) : ScopeInv (run os c).2 := by
  induction os generalizing c with
  | nil => exact h
  | cons o os ih => exact ih _ (scopeInv_step o c h)

theorem scopeInv_drop (c : Chain) (d : Nat) (h : ScopeInv c) : ScopeInv (c.drop d) := by
  induction d generalizing c with
  | zero => exact h
  | succ d ih =>
    cases c with
    | nil => trivial
    | cons t ps => exact ih ps h.2

/-- The declaration found sits in the store of the table `d` levels up. -/
theorem declAt_drop (c : Chain) (n : String) (r : Bool) (d : Nat) (e : Symbol)
    (h : declAt c n r = some (d, e)) : ∃ t ps, c.drop d = t :: ps ∧ lookup n t.store = some e := by
  induction c generalizing r d with
  | nil => simp [declAt] at h
  | cons t ps ih =>
    have up : (declAt ps n true).map (fun p => (p.1 + 1, p.2)) = some (d, e) →
        ∃ t' ps', (t :: ps).drop d = t' :: ps' ∧ lookup n t'.store = some e := by
      intro h
      cases hd : declAt ps n true with
      | none => simp [hd] at h
      | some p =>
        obtain ⟨d0, e0⟩ := p
        simp only [hd, Option.map_some, Option.some.injEq, Prod.mk.injEq] at h
        obtain ⟨h1, h2⟩ := h
        subst h1; subst h2
        exact ih true d0 hd
    simp only [declAt] at h
    cases hl : lookup n t.store with
    | none => simp only [hl] at h; exact up h
    | some s1 =>
      simp only [hl] at h
      by_cases u : usable s1 r = true
      · simp only [u, if_true, Option.some.injEq, Prod.mk.injEq] at h
        obtain ⟨h1, h2⟩ := h
        subst h1; subst h2
        exact ⟨t, ps, rfl, hl⟩
      · have u' := (Bool.not_eq_true _).mp u
        simp only [u', Bool.false_eq_true, if_false] at h
        exact up h

/-- **(b) scope classification.** In a well-formed chain (`ScopeInv`, which holds after any
sequence of operations: `scopeInv_run`) let the name's declaration `e` sit `d` tables up. Then the
name resolves to GLOBAL/BUILTIN exactly when no function boundary lies between the declaring
table and the root; to LOCAL exactly when the declaring table is inside a function, only blocks lie
between it and the current table, and `e` was defined there; to FREE exactly when the declaring
table is inside a function and either a function boundary lies between, or `e` is itself a capture
made earlier by the current function's table. -/
theorem scope_classification (c : Chain) (hc : ScopeInv c) (n : String) (r : Bool) (s : Symbol) (d : Nat)
    (h : (resolve c n r).1 = some (s, d)) :
    ∃ e, declAt c n r = some (d, e) ∧
      ((s.scope = .global ∨ s.scope = .builtin) ↔ globalCtx (c.drop d) = true) ∧
      (s.scope = .local ↔ globalCtx (c.drop d) = false ∧ crossed c d = false ∧ e.scope = .local) ∧
      (s.scope = .free ↔ globalCtx (c.drop d) = false ∧ (crossed c d = true ∨ e.scope = .free)) := by
  obtain ⟨e, hd, h1, h2⟩ := resolve_decl c n r s d h
  obtain ⟨t, ps, hdrop, hl⟩ := declAt_drop c n r d e hd
  have hok : EntryOK t.block ps n e := by
    have := scopeInv_drop c d hc
    rw [hdrop] at this
    exact this.1 n e hl
  obtain ⟨_, og, ol, ofr, ob⟩ := hok
  rw [globalCtx_head] at og ol
  refine ⟨e, hd, ?_⟩
  rw [hdrop]
  cases hs : e.scope with
  | global =>
    have : s = e := h2 (by simp [captures, hs])
    subst this
    simp [hs, og hs]
  | builtin =>
    have : s = e := h2 (by simp [captures, hs])
    subst this
    have hps := ob hs
    subst hps
    have : globalCtx [t] = true := by by_cases b : t.block <;> simp [globalCtx, b]
    simp [hs, this]
  | «local» =>
    have hg := ol hs
    cases hx : crossed c d with
    | true =>
      have := (h1 (by simp [captures, hs, hx])).1
      simp [this, hg]
    | false =>
      have : s = e := h2 (by simp [hx])
      subst this
      simp [hs, hg]
  | free =>
    have hg : globalCtx (t :: ps) = false := by
      obtain ⟨hb, hne⟩ := ofr hs
      cases ps with
      | nil => exact absurd rfl hne
      | cons _ _ => simp [globalCtx, hb]
    cases hx : crossed c d with
    | true =>
      have := (h1 (by simp [captures, hs, hx])).1
      simp [this, hg]
    | false =>
      have : s = e := h2 (by simp [hx])
      subst this
      simp [hs, hg]


/-! ## (d) index facts -/

/-- First index a table may hand out: a block continues its parent's numbering. -/
def lo (t : Table) (ps : Chain) : Nat := if t.block then nextIndex ps else 0

/-- `MaxSymbols()` of the enclosing function's table. -/
def funcMax : Chain → Nat
  | [] => 0
  | t :: ps => if t.block then funcMax ps else t.maxDefinition

/-- Invariant 2: the local entries of a table have pairwise different indexes inside the table's
own window `[lo, lo + numDefinition)` and below its `maxDefinition`. -/
def IdxInv : Chain → Prop
  | [] => True
  | t :: ps =>
    (∀ m e, lookup m t.store = some e → e.scope = .local →
      lo t ps ≤ e.index ∧ e.index < lo t ps + t.numDefinition ∧ e.index < t.maxDefinition) ∧
    (∀ m₁ m₂ e₁ e₂, lookup m₁ t.store = some e₁ → lookup m₂ t.store = some e₂ →
      e₁.scope = .local → e₂.scope = .local → m₁ ≠ m₂ → e₁.index ≠ e₂.index) ∧
    IdxInv ps

/-- Invariant 3: `maxDefinition` grows from a block to its parent; the root is not a block. -/
def MaxMono : Chain → Prop
  | [] => True
  | [t] => t.block = false
  | t :: p :: ps => (t.block = true → t.maxDefinition ≤ p.maxDefinition) ∧ MaxMono (p :: ps)

/-- `c'` has the frames of `c` and no local entry that `c` does not have (up to the assigned flag). -/
def LocSub (t' t : Table) : Prop :=
  (t'.block = t.block ∧ t'.numDefinition = t.numDefinition ∧ t.maxDefinition ≤ t'.maxDefinition) ∧
  ∀ m e', lookup m t'.store = some e' → (e'.scope = .local ∨ e'.scope = .global) →
    ∃ e, lookup m t.store = some e ∧ e.scope = e'.scope ∧ e.index = e'.index

inductive ChainSub : Chain → Chain → Prop
  | nil : ChainSub [] []
  | cons {t' t : Table} {ps' ps : Chain} : LocSub t' t → ChainSub ps' ps → ChainSub (t' :: ps') (t :: ps)

theorem locSub_refl (t : Table) : LocSub t t := ⟨⟨rfl, rfl, Nat.le_refl _⟩, fun _ e h _ => ⟨e, h, rfl, rfl⟩⟩

theorem nextIndex_of_sub {c' c : Chain} (h : ChainSub c' c) : nextIndex c' = nextIndex c := by
  induction h with
  | nil => rfl
  | cons h _ ih => simp [nextIndex, h.1.1, h.1.2.1, ih]

theorem idxInv_sub {c' c : Chain} (h : ChainSub c' c) (hi : IdxInv c) : IdxInv c' := by
  induction h with
  | nil => trivial
  | @cons t' t ps' ps ht hps ih =>
    obtain ⟨h1, h2, h3⟩ := hi
    have hlo : lo t' ps' = lo t ps := by
      simp [lo, ht.1.1, nextIndex_of_sub hps]
    have hnum : t'.numDefinition = t.numDefinition := ht.1.2.1
    have hmax : t.maxDefinition ≤ t'.maxDefinition := ht.1.2.2
    refine ⟨fun m e' hl hs => ?_, fun m₁ m₂ e₁ e₂ hl₁ hl₂ hs₁ hs₂ hne => ?_, ih h3⟩
    · obtain ⟨e, hle, hse, hie⟩ := ht.2 m e' hl (Or.inl hs)
      have := h1 m e hle (hse.trans hs)
      rw [hlo, hnum, ← hie]; omega
    · obtain ⟨f₁, hf₁, hsf₁, hif₁⟩ := ht.2 m₁ e₁ hl₁ (Or.inl hs₁)
      obtain ⟨f₂, hf₂, hsf₂, hif₂⟩ := ht.2 m₂ e₂ hl₂ (Or.inl hs₂)
      rw [← hif₁, ← hif₂]
      exact h2 m₁ m₂ f₁ f₂ hf₁ hf₂ (hsf₁.trans hs₁) (hsf₂.trans hs₂) hne

/-- `MaxMono` looks at block flags and `maxDefinition` only. -/
theorem maxMono_congr : ∀ {c c' : Chain},
    c.map (fun t => (t.block, t.maxDefinition)) = c'.map (fun t => (t.block, t.maxDefinition)) →
    MaxMono c → MaxMono c'
  | [], [], _, _ => trivial
  | [], _ :: _, h, _ => by simp at h
  | _ :: _, [], h, _ => by simp at h
  | [t], [t'], h, hm => by
    simp only [List.map_cons, List.map_nil, List.cons.injEq, Prod.mk.injEq, and_true] at h
    simp only [MaxMono] at hm ⊢; rw [← h.1]; exact hm
  | [_], _ :: _ :: _, h, _ => by simp at h
  | _ :: _ :: _, [_], h, _ => by simp at h
  | t :: p :: ps, t' :: p' :: ps', h, hm => by
    simp only [List.map_cons, List.cons.injEq, Prod.mk.injEq] at h
    obtain ⟨⟨hb, hmx⟩, ⟨hpb, hpm⟩, hrest⟩ := h
    refine ⟨fun hb' => ?_, maxMono_congr (c := p :: ps) (c' := p' :: ps') (by simp [*]) hm.2⟩
    rw [← hmx, ← hpm]; exact hm.1 (hb ▸ hb')

theorem bm_of_frames {c c' : Chain} (h : c.map frame = c'.map frame) :
    c.map (fun t => (t.block, t.maxDefinition)) = c'.map (fun t => (t.block, t.maxDefinition)) := by
  have := congrArg (List.map (fun f : Bool × Nat × Nat => (f.1, f.2.2))) h
  simpa [List.map_map, Function.comp_def, frame] using this

/-- What `Resolve` does to a table: nothing, or one more free entry. -/
theorem resolveUp_sub (t : Table) (up : Option (Symbol × Nat) × Chain) {ps : Chain}
    (h : ChainSub up.2 ps) : ChainSub (resolveUp t up).2 (t :: ps) := by
  obtain ⟨r, c⟩ := up
  cases r with
  | none => exact ChainSub.cons (locSub_refl t) h
  | some p =>
    obtain ⟨s, d⟩ := p
    by_cases g : (!t.block && s.scope != .global && s.scope != .builtin) = true
    · simp only [resolveUp, g, if_true, Table.defineFree]
      refine ChainSub.cons ⟨⟨rfl, rfl, Nat.le_refl _⟩, fun m e' hl hs => ?_⟩ h
      simp only [lookup_put] at hl
      by_cases hm : m = s.name
      · simp only [hm, if_true, Option.some.injEq] at hl
        subst hl; simp at hs
      · simp only [hm, if_false] at hl
        exact ⟨e', hl, rfl, rfl⟩
    · have g' := (Bool.not_eq_true _).mp g
      simp only [resolveUp, g', Bool.false_eq_true, if_false]
      exact ChainSub.cons (locSub_refl t) h

theorem forall₂_refl (c : Chain) : ChainSub c c := by
  induction c with
  | nil => exact ChainSub.nil
  | cons t ps ih => exact ChainSub.cons (locSub_refl t) ih

theorem resolve_sub (c : Chain) (n : String) (r : Bool) : ChainSub (resolve c n r).2 c := by
  induction c generalizing r with
  | nil => exact ChainSub.nil
  | cons t ps ih =>
    simp only [resolve]
    cases lookup n t.store with
    | none => exact resolveUp_sub t _ (ih true)
    | some s =>
      by_cases u : usable s r = true
      · simp only [u, if_true]; exact forall₂_refl _
      · have u' := (Bool.not_eq_true _).mp u
        simp only [u', Bool.false_eq_true, if_false]; exact resolveUp_sub t _ (ih true)

theorem setAssigned_sub (n : String) (t : Table) : LocSub { t with store := setAssigned n t.store } t :=
  ⟨⟨rfl, rfl, Nat.le_refl _⟩, fun m e' hl hs => by
    obtain ⟨e, hle, _, hse, hie⟩ := lookup_setAssigned_some hl
    exact ⟨e, hle, hse.symm, hie.symm⟩⟩

theorem markLevel_sub (n : String) (d : Nat) (c : Chain) : ChainSub (markLevel n d c) c := by
  induction c generalizing d with
  | nil => cases d <;> exact ChainSub.nil
  | cons t ps ih =>
    cases d with
    | zero => exact ChainSub.cons (setAssigned_sub n t) (forall₂_refl ps)
    | succ d => exact ChainSub.cons (locSub_refl t) (ih d)

theorem markFirst_sub (n : String) (c : Chain) : ChainSub (markFirst n c) c := by
  induction c with
  | nil => exact ChainSub.nil
  | cons t ps ih =>
    simp only [markFirst]
    cases lookup n t.store with
    | none => exact ChainSub.cons (locSub_refl t) ih
    | some _ => exact ChainSub.cons (setAssigned_sub n t) (forall₂_refl ps)

theorem locSub_trans {a b c : Table} (h₁ : LocSub a b) (h₂ : LocSub b c) : LocSub a c :=
  ⟨⟨h₁.1.1.trans h₂.1.1, h₁.1.2.1.trans h₂.1.2.1, Nat.le_trans h₂.1.2.2 h₁.1.2.2⟩, fun m e' hl hs => by
    obtain ⟨e, hle, hse, hie⟩ := h₁.2 m e' hl hs
    obtain ⟨f, hlf, hsf, hif⟩ := h₂.2 m e hle (hse ▸ hs)
    exact ⟨f, hlf, hsf.trans hse, hif.trans hie⟩⟩

theorem forall₂_trans {a b c : Chain} (h₁ : ChainSub a b) (h₂ : ChainSub b c) :
    ChainSub a c := by
  induction h₁ generalizing c with
  | nil => cases h₂; exact ChainSub.nil
  | cons h _ ih =>
    cases h₂ with
    | cons h' hr => exact ChainSub.cons (locSub_trans h h') (ih hr)

theorem markCaptured_sub (os : List Symbol) (c : Chain) : ChainSub (markCaptured os c) c := by
  induction os generalizing c with
  | nil => exact forall₂_refl c
  | cons o os ih =>
    simp only [markCaptured]
    by_cases g : o.scope = .local
    · simp only [g, if_true]; exact forall₂_trans (ih _) (markFirst_sub _ _)
    · simp only [g, if_false]; exact ih _

theorem defineBuiltin_sub (i : Nat) (n : String) (c : Chain) :
    ChainSub (defineBuiltin i n c).2 c := by
  induction c with
  | nil => exact ChainSub.nil
  | cons t ps ih =>
    cases ps with
    | nil =>
      refine ChainSub.cons ⟨⟨rfl, rfl, Nat.le_refl _⟩, fun m e' hl hs => ?_⟩ ChainSub.nil
      simp only [lookup_put] at hl
      by_cases hm : m = n
      · simp only [hm, if_true, Option.some.injEq] at hl
        subst hl; simp at hs
      · simp only [hm, if_false] at hl
        exact ⟨e', hl, rfl, rfl⟩
    | cons p ps => exact ChainSub.cons (locSub_refl t) ih


theorem updateMax_sub (k : Nat) (c : Chain) : ChainSub (updateMax k c) c := by
  induction c with
  | nil => exact ChainSub.nil
  | cons t ps ih =>
    have ht : LocSub { t with maxDefinition := max t.maxDefinition k } t :=
      ⟨⟨rfl, rfl, Nat.le_max_left _ _⟩, fun _ e h _ => ⟨e, h, rfl, rfl⟩⟩
    simp only [updateMax]
    split
    · exact ChainSub.cons ht ih
    · exact ChainSub.cons ht (forall₂_refl ps)

theorem updateMax_cons (k : Nat) (t : Table) (ps : Chain) :
    updateMax k (t :: ps) = { t with maxDefinition := max t.maxDefinition k } :: (if t.block then updateMax k ps else ps) := by
  simp only [updateMax]; split <;> simp [*]

theorem updateMax_length (k : Nat) (c : Chain) : (updateMax k c).length = c.length := by
  have := congrArg List.length (updateMax_view k c); simpa using this

theorem incRoot_length (c : Chain) : (incRoot c).length = c.length := by
  have := congrArg List.length (incRoot_view c); simpa using this

theorem define_length (n : String) (c : Chain) : (define n c).2.length = c.length := by
  cases c with
  | nil => rfl
  | cons t ps =>
    simp only [define, updateMax_length]
    split <;> simp [incRoot_length]

theorem maxMono_updateMax (k : Nat) : ∀ (c : Chain), MaxMono c → MaxMono (updateMax k c)
  | [], _ => trivial
  | [t], h => by
    simp only [MaxMono] at h
    simp [updateMax, h, MaxMono]
  | t :: p :: ps, h => by
    have ih := maxMono_updateMax k (p :: ps) h.2
    by_cases b : t.block
    · simp only [updateMax, b, if_true] at ih ⊢
      by_cases bp : p.block
      · simp only [bp, if_true] at ih ⊢
        exact ⟨fun _ => by have := h.1 b; simp only []; omega, ih⟩
      · simp only [bp] at ih ⊢
        exact ⟨fun _ => by have := h.1 b; simp only []; omega, ih⟩
    · simp only [updateMax, b]
      exact ⟨fun hb => by simp at hb, h.2⟩

theorem globalCtx_tail {t : Table} {ps : Chain} (h : globalCtx (t :: ps) = true) : globalCtx ps = true := by
  by_cases b : t.block
  · simpa [globalCtx, b] using h
  · simp only [globalCtx, b] at h
    cases ps with
    | nil => rfl
    | cons _ _ => simp at h

/-- No table of the chain stores a local symbol. -/
def NoLocal (c : Chain) : Prop := ∀ t ∈ c, ∀ m e, lookup m t.store = some e → e.scope ≠ .local

theorem noLocal_of_global : ∀ (c : Chain), ScopeInv c → globalCtx c = true → NoLocal c
  | [], _, _ => fun _ h => by simp at h
  | t :: ps, hs, hg => by
    intro t' ht' m e hl
    simp only [List.mem_cons] at ht'
    cases ht' with
    | inl h =>
      subst h
      intro hsc
      have := (hs.1 m e hl).2.2.1 hsc
      rw [globalCtx_head, hg] at this
      exact absurd this (by simp)
    | inr h => exact noLocal_of_global ps hs.2 (globalCtx_tail hg) t' h m e hl

theorem idxInv_of_noLocal : ∀ (c : Chain), NoLocal c → IdxInv c
  | [], _ => trivial
  | t :: ps, h =>
    ⟨fun m e hl hs => absurd hs (h t (by simp) m e hl),
     fun m₁ _ e₁ _ hl₁ _ hs₁ _ _ => absurd hs₁ (h t (by simp) m₁ e₁ hl₁),
     idxInv_of_noLocal ps (fun t' ht' => h t' (by simp [ht']))⟩

theorem updateMax_stores (k : Nat) (c : Chain) : (updateMax k c).map (·.store) = c.map (·.store) := by
  have := congrArg (List.map (fun f : Bool × List (String × Symbol) => f.2)) (updateMax_view k c)
  simpa [List.map_map, Function.comp_def] using this

theorem incRoot_stores (c : Chain) : (incRoot c).map (·.store) = c.map (·.store) := by
  have := congrArg (List.map (fun f : Bool × List (String × Symbol) => f.2)) (incRoot_view c)
  simpa [List.map_map, Function.comp_def] using this

theorem noLocal_congr {c c' : Chain} (h : c'.map (·.store) = c.map (·.store)) (hn : NoLocal c) : NoLocal c' := by
  intro t' ht' m e hl
  have : t'.store ∈ c'.map (·.store) := List.mem_map_of_mem ht'
  rw [h] at this
  obtain ⟨t, ht, hst⟩ := List.mem_map.mp this
  exact hn t ht m e (hst ▸ hl)

theorem nextIndex_eq_lo (t : Table) (ps : Chain) : nextIndex (t :: ps) = lo t ps + t.numDefinition := by
  by_cases b : t.block <;> simp [nextIndex, lo, b]

/-- The current table after a local `Define`. -/
def defTop (t : Table) (n : String) (idx : Nat) : Table :=
  { t with store := put n ⟨n, .local, idx, false⟩ t.store, numDefinition := t.numDefinition + 1, maxDefinition := max t.maxDefinition (idx + 1) }

theorem idxInv_define (n : String) (c : Chain) (hs : ScopeInv c) (h : IdxInv c) : IdxInv (define n c).2 := by
  cases c with
  | nil => trivial
  | cons t ps =>
    simp only [define]
    by_cases g : globalCtx (t :: ps) = true
    · -- global: no table of the chain has local entries, before or after
      simp only [g, if_true]
      apply idxInv_of_noLocal
      have h0 := noLocal_of_global (t :: ps) hs g
      have h1 : NoLocal ({ t with store := put n ⟨n, .global, nextIndex (t :: ps), false⟩ t.store } :: ps) := by
        intro t' ht' m e hl
        simp only [List.mem_cons] at ht'
        cases ht' with
        | inl h' =>
          subst h'
          simp only [lookup_put] at hl
          by_cases hm : m = n
          · simp only [hm, if_true, Option.some.injEq] at hl
            subst hl; simp
          · simp only [hm, if_false] at hl
            exact h0 t (by simp) m e hl
        | inr h' => exact h0 t' (by simp [h']) m e hl
      exact noLocal_congr (by rw [updateMax_stores, incRoot_stores]) h1
    · have g' := (Bool.not_eq_true _).mp g
      simp only [g', Bool.false_eq_true, if_false]
      obtain ⟨h1, h2, h3⟩ := h
      have hps : ChainSub (if t.block then updateMax (nextIndex (t :: ps) + 1) ps else ps) ps := by
        by_cases b : t.block
        · simp only [b, if_true]; exact updateMax_sub _ _
        · simp only [b]; exact forall₂_refl _
      have hidx := nextIndex_eq_lo t ps
      have key : IdxInv (defTop t n (nextIndex (t :: ps)) ::
            (if t.block then updateMax (nextIndex (t :: ps) + 1) ps else ps)) := by
        have hlo : lo (defTop t n (nextIndex (t :: ps)))
            (if t.block then updateMax (nextIndex (t :: ps) + 1) ps else ps) = lo t ps := by
          simp only [lo, defTop, nextIndex_of_sub hps]
        have key1 : ∀ m e, lookup m (put n ⟨n, .local, nextIndex (t :: ps), false⟩ t.store) = some e →
            e.scope = .local → lo t ps ≤ e.index ∧ e.index < lo t ps + (t.numDefinition + 1) ∧
              e.index < max t.maxDefinition (nextIndex (t :: ps) + 1) := by
          intro m e hl hsc
          simp only [lookup_put] at hl
          by_cases hm : m = n
          · simp only [hm, if_true, Option.some.injEq] at hl
            have hi : e.index = nextIndex (t :: ps) := by rw [← hl]
            omega
          · simp only [hm, if_false] at hl
            have := h1 m e hl hsc
            omega
        have key2 : ∀ m₁ m₂ e₁ e₂, lookup m₁ (put n ⟨n, .local, nextIndex (t :: ps), false⟩ t.store) = some e₁ →
            lookup m₂ (put n ⟨n, .local, nextIndex (t :: ps), false⟩ t.store) = some e₂ →
            e₁.scope = .local → e₂.scope = .local → m₁ ≠ m₂ → e₁.index ≠ e₂.index := by
          intro m₁ m₂ e₁ e₂ hl₁ hl₂ hs₁ hs₂ hne
          simp only [lookup_put] at hl₁ hl₂
          by_cases hm₁ : m₁ = n
          · by_cases hm₂ : m₂ = n
            · exact absurd (hm₁.trans hm₂.symm) hne
            · simp only [hm₁, if_true, Option.some.injEq] at hl₁
              simp only [hm₂, if_false] at hl₂
              have hi : e₁.index = nextIndex (t :: ps) := by rw [← hl₁]
              have := h1 m₂ e₂ hl₂ hs₂
              omega
          · simp only [hm₁, if_false] at hl₁
            by_cases hm₂ : m₂ = n
            · simp only [hm₂, if_true, Option.some.injEq] at hl₂
              have hi : e₂.index = nextIndex (t :: ps) := by rw [← hl₂]
              have := h1 m₁ e₁ hl₁ hs₁
              omega
            · simp only [hm₂, if_false] at hl₂
              exact h2 m₁ m₂ e₁ e₂ hl₁ hl₂ hs₁ hs₂ hne
        refine ⟨?_, key2, idxInv_sub hps h3⟩
        rw [hlo]
        exact key1
      rw [updateMax_cons]
      exact key

theorem incRoot_bm (c : Chain) :
    (incRoot c).map (fun t => (t.block, t.maxDefinition)) = c.map (fun t => (t.block, t.maxDefinition)) := by
  induction c with
  | nil => rfl
  | cons t ps ih =>
    cases ps with
    | nil => simp [incRoot]
    | cons p ps => simpa [incRoot] using ih

theorem maxMono_define (n : String) (c : Chain) (h : MaxMono c) : MaxMono (define n c).2 := by
  cases c with
  | nil => trivial
  | cons t ps =>
    simp only [define]
    apply maxMono_updateMax
    by_cases g : globalCtx (t :: ps) = true
    · simp only [g, if_true]
      exact maxMono_congr (by rw [incRoot_bm]; simp) h
    · have g' := (Bool.not_eq_true _).mp g
      simp only [g', Bool.false_eq_true, if_false]
      exact maxMono_congr (by simp) h

theorem defineBuiltin_frames (i : Nat) (n : String) (c : Chain) :
    (defineBuiltin i n c).2.map frame = c.map frame := by
  induction c with
  | nil => rfl
  | cons t ps ih =>
    cases ps with
    | nil => simp [defineBuiltin, frame]
    | cons p ps => simpa [defineBuiltin] using ih

theorem markLevel_frames (n : String) (d : Nat) (c : Chain) : (markLevel n d c).map frame = c.map frame := by
  induction c generalizing d with
  | nil => cases d <;> rfl
  | cons t ps ih => cases d <;> simp [markLevel, frame, ih]

theorem markFirst_frames (n : String) (c : Chain) : (markFirst n c).map frame = c.map frame := by
  induction c with
  | nil => rfl
  | cons t ps ih =>
    simp only [markFirst]
    cases lookup n t.store <;> simp [frame, ih]

theorem markCaptured_frames (os : List Symbol) (c : Chain) : (markCaptured os c).map frame = c.map frame := by
  induction os generalizing c with
  | nil => rfl
  | cons o os ih =>
    simp only [markCaptured]
    by_cases g : o.scope = .local
    · simp only [g, if_true, ih, markFirst_frames]
    · simp only [g, if_false, ih]

/-- The three invariants together. -/
structure WF (c : Chain) : Prop where
  ne : c ≠ []
  scope : ScopeInv c
  idx : IdxInv c
  mono : MaxMono c

theorem wf_init : WF init :=
  ⟨by simp [init], scopeInv_init, ⟨fun m e hl => by simp [init, lookup] at hl, fun m₁ _ e₁ _ hl => by simp [init, lookup] at hl, trivial⟩,
   by simp [init, MaxMono]⟩

theorem maxMono_tail {t p : Table} {ps : Chain} (h : MaxMono (t :: p :: ps)) : MaxMono (p :: ps) := h.2

theorem step_ne_nil (o : Op) (c : Chain) (h : c ≠ []) : (step o c).2 ≠ [] := by
  have hl : ∀ c' : Chain, c'.map frame = c.map frame → c' ≠ [] := by
    intro c' hf e; subst e
    cases c with
    | nil => exact h rfl
    | cons _ _ => simp at hf
  cases o with
  | define n =>
    intro e
    have := define_length n c
    simp only [step] at e
    rw [e] at this
    cases c with
    | nil => exact h rfl
    | cons _ _ => simp at this
  | builtin i n => exact hl _ (defineBuiltin_frames i n c)
  | fork b => simp [step, fork]
  | parent =>
    simp only [step]
    match c, h with
    | [_], _ => simp [parent]
    | _ :: _ :: _, _ => simp [parent]
  | leave =>
    simp only [step]
    match c, h with
    | [_], _ => simp [parent]
    | t :: p :: ps, _ =>
      simp only [parent]
      intro e
      have := congrArg List.length (markCaptured_frames t.freeSymbols (p :: ps))
      rw [e] at this; simp at this
  | resolve n r => exact hl _ (resolve_frames c n r)
  | assign n =>
    simp only [step]
    have := hl _ (resolve_frames c n false)
    cases (resolve c n false).1 with
    | none => exact this
    | some p =>
      obtain ⟨s, d⟩ := p
      by_cases g : s.scope = .local
      · simp only [g, if_true]; exact hl _ ((markLevel_frames _ _ _).trans (resolve_frames c n false))
      · simp only [g, if_false]; exact this
  | mark n =>
    simp only [step]
    have := hl _ (resolve_frames c n true)
    cases (resolve c n true).1 with
    | none => exact this
    | some p =>
      obtain ⟨s, d⟩ := p
      by_cases g : s.scope = .local ∧ d = 0
      · simp only [g, and_self, if_true]; exact hl _ ((markLevel_frames _ _ _).trans (resolve_frames c n true))
      · simp only [g, if_false]; exact this

theorem wf_step (o : Op) (c : Chain) (h : WF c) : WF (step o c).2 := by
  refine ⟨step_ne_nil o c h.ne, scopeInv_step o c h.scope, ?_, ?_⟩
  · cases o with
    | define n => exact idxInv_define n c h.scope h.idx
    | builtin i n => exact idxInv_sub (defineBuiltin_sub i n c) h.idx
    | fork b => exact ⟨fun m e hl => by simp [lookup] at hl, fun m₁ _ e₁ _ hl => by simp [lookup] at hl, h.idx⟩
    | parent =>
      simp only [step]
      match c, h.idx with
      | [], _ => trivial
      | [_], h => exact h
      | _ :: p :: ps, h => exact h.2.2
    | leave =>
      simp only [step]
      match c, h.idx with
      | [], _ => trivial
      | [_], h => exact h
      | t :: p :: ps, h => exact idxInv_sub (markCaptured_sub _ _) h.2.2
    | resolve n r => exact idxInv_sub (resolve_sub c n r) h.idx
    | assign n =>
      simp only [step]
      have := idxInv_sub (resolve_sub c n false) h.idx
      cases (resolve c n false).1 with
      | none => exact this
      | some p =>
        obtain ⟨s, d⟩ := p
        by_cases g : s.scope = .local
        · simp only [g, if_true]; exact idxInv_sub (markLevel_sub _ _ _) this
        · simp only [g, if_false]; exact this
    | mark n =>
      simp only [step]
      have := idxInv_sub (resolve_sub c n true) h.idx
      cases (resolve c n true).1 with
      | none => exact this
      | some p =>
        obtain ⟨s, d⟩ := p
        by_cases g : s.scope = .local ∧ d = 0
        · simp only [g, and_self, if_true]; exact idxInv_sub (markLevel_sub _ _ _) this
        · simp only [g, if_false]; exact this
  · cases o with
    | define n => exact maxMono_define n c h.mono
    | builtin i n => exact maxMono_congr (bm_of_frames (defineBuiltin_frames i n c).symm) h.mono
    | fork b =>
      simp only [step, fork]
      match c, h.mono with
      | [], _ => exact absurd rfl h.ne
      | p :: ps, hm => exact ⟨fun _ => Nat.zero_le _, hm⟩
    | parent =>
      simp only [step]
      match c, h.mono with
      | [], _ => trivial
      | [_], h => exact h
      | _ :: p :: ps, h => exact h.2
    | leave =>
      simp only [step]
      match c, h.mono with
      | [], _ => trivial
      | [_], h => exact h
      | t :: p :: ps, h => exact maxMono_congr (bm_of_frames (markCaptured_frames _ _).symm) h.2
    | resolve n r => exact maxMono_congr (bm_of_frames (resolve_frames c n r).symm) h.mono
    | assign n =>
      simp only [step]
      have := maxMono_congr (bm_of_frames (resolve_frames c n false).symm) h.mono
      cases (resolve c n false).1 with
      | none => exact this
      | some p =>
        obtain ⟨s, d⟩ := p
        by_cases g : s.scope = .local
        · simp only [g, if_true]; exact maxMono_congr (bm_of_frames (markLevel_frames _ _ _).symm) this
        · simp only [g, if_false]; exact this
    | mark n =>
      simp only [step]
      have := maxMono_congr (bm_of_frames (resolve_frames c n true).symm) h.mono
      cases (resolve c n true).1 with
      | none => exact this
      | some p =>
        obtain ⟨s, d⟩ := p
        by_cases g : s.scope = .local ∧ d = 0
        · simp only [g, and_self, if_true]; exact maxMono_congr (bm_of_frames (markLevel_frames _ _ _).symm) this
        · simp only [g, if_false]; exact this


theorem wf_run (os : List Op) (c : Chain) (h : WF c) : WF (run os c).2 := by
  induction os generalizing c with
  | nil => exact h
  | cons o os ih => exact ih _ (wf_step o c h)

/-- Every state the operations can reach from `NewSymbolTable()` is well formed. -/
theorem wf_reachable (os : List Op) : WF (run os init).2 := wf_run os init wf_init

theorem local_lt_nextIndex : ∀ (c : Chain) (b : Nat) (tb : Table) (m : String) (e : Symbol),
    IdxInv c → c[b]? = some tb → crossed c b = false → lookup m tb.store = some e → e.scope = .local →
    e.index < nextIndex c
  | [], _, _, _, _, _, h, _, _, _ => by simp at h
  | t :: ps, 0, tb, m, e, hi, h, _, hl, hs => by
    simp only [List.getElem?_cons_zero, Option.some.injEq] at h
    subst h
    have := hi.1 m e hl hs
    rw [nextIndex_eq_lo]; omega
  | t :: ps, b + 1, tb, m, e, hi, h, hx, hl, hs => by
    simp only [List.getElem?_cons_succ] at h
    rw [crossed_succ] at hx
    simp only [Bool.or_eq_false_iff, Bool.not_eq_eq_eq_not, Bool.not_false] at hx
    have := local_lt_nextIndex ps b tb m e hi.2.2 h hx.2 hl hs
    simp only [nextIndex, hx.1, if_true]; omega

/-- **(d) no two visible locals share a slot.** Two different local variables that are visible at
the same time inside one function (declared in the current table or in enclosing blocks, no
function boundary between) have different indexes — also when an inner block shadows a name. -/
theorem visible_locals_distinct : ∀ (c : Chain) (a b : Nat) (ta tb : Table) (m₁ m₂ : String) (e₁ e₂ : Symbol),
    IdxInv c → c[a]? = some ta → c[b]? = some tb → crossed c a = false → crossed c b = false →
    lookup m₁ ta.store = some e₁ → lookup m₂ tb.store = some e₂ →
    e₁.scope = .local → e₂.scope = .local → (a ≠ b ∨ m₁ ≠ m₂) → e₁.index ≠ e₂.index
  | [], _, _, _, _, _, _, _, _, _, h, _, _, _, _, _, _, _, _ => by simp at h
  | t :: ps, 0, 0, ta, tb, m₁, m₂, e₁, e₂, hi, ha, hb, _, _, hl₁, hl₂, hs₁, hs₂, hne => by
    simp only [List.getElem?_cons_zero, Option.some.injEq] at ha hb
    subst ha; subst hb
    cases hne with
    | inl h => exact absurd rfl h
    | inr h => exact hi.2.1 m₁ m₂ e₁ e₂ hl₁ hl₂ hs₁ hs₂ h
  | t :: ps, 0, b + 1, ta, tb, m₁, m₂, e₁, e₂, hi, ha, hb, _, hxb, hl₁, hl₂, hs₁, hs₂, _ => by
    simp only [List.getElem?_cons_zero, Option.some.injEq] at ha
    subst ha
    simp only [List.getElem?_cons_succ] at hb
    rw [crossed_succ] at hxb
    simp only [Bool.or_eq_false_iff, Bool.not_eq_eq_eq_not, Bool.not_false] at hxb
    have h2 := local_lt_nextIndex ps b tb m₂ e₂ hi.2.2 hb hxb.2 hl₂ hs₂
    have h1 := (hi.1 m₁ e₁ hl₁ hs₁).1
    simp only [lo, hxb.1, if_true] at h1
    omega
  | t :: ps, a + 1, 0, ta, tb, m₁, m₂, e₁, e₂, hi, ha, hb, hxa, _, hl₁, hl₂, hs₁, hs₂, _ => by
    simp only [List.getElem?_cons_zero, Option.some.injEq] at hb
    subst hb
    simp only [List.getElem?_cons_succ] at ha
    rw [crossed_succ] at hxa
    simp only [Bool.or_eq_false_iff, Bool.not_eq_eq_eq_not, Bool.not_false] at hxa
    have h1 := local_lt_nextIndex ps a ta m₁ e₁ hi.2.2 ha hxa.2 hl₁ hs₁
    have h2 := (hi.1 m₂ e₂ hl₂ hs₂).1
    simp only [lo, hxa.1, if_true] at h2
    omega
  | t :: ps, a + 1, b + 1, ta, tb, m₁, m₂, e₁, e₂, hi, ha, hb, hxa, hxb, hl₁, hl₂, hs₁, hs₂, hne => by
    simp only [List.getElem?_cons_succ] at ha hb
    rw [crossed_succ] at hxa hxb
    simp only [Bool.or_eq_false_iff] at hxa hxb
    refine visible_locals_distinct ps a b ta tb m₁ m₂ e₁ e₂ hi.2.2 ha hb hxa.2 hxb.2 hl₁ hl₂ hs₁ hs₂ ?_
    cases hne with
    | inl h => exact Or.inl (fun e => h (by rw [e]))
    | inr h => exact Or.inr h

theorem max_le_funcMax : ∀ (t : Table) (ps : Chain), MaxMono (t :: ps) → t.maxDefinition ≤ funcMax (t :: ps)
  | t, [], h => by simp only [MaxMono] at h; simp [funcMax, h]
  | t, p :: ps, h => by
    by_cases b : t.block
    · have := max_le_funcMax p ps h.2
      have h1 := h.1 b
      simp only [funcMax, b, if_true] at this ⊢
      omega
    · simp [funcMax, b]

/-- **(d) local indexes stay below `MaxSymbols()`.** Every local visible inside the current
function has an index below the `maxDefinition` of the function's table — the `NumLocals` the
compiler stores in the `CompiledFunction`. -/
theorem visible_locals_lt_max : ∀ (c : Chain) (a : Nat) (ta : Table) (m : String) (e : Symbol),
    IdxInv c → MaxMono c → c[a]? = some ta → crossed c a = false →
    lookup m ta.store = some e → e.scope = .local → e.index < funcMax c
  | [], _, _, _, _, _, _, h, _, _, _ => by simp at h
  | t :: ps, 0, ta, m, e, hi, hm, h, _, hl, hs => by
    simp only [List.getElem?_cons_zero, Option.some.injEq] at h
    subst h
    have := (hi.1 m e hl hs).2.2
    have := max_le_funcMax t ps hm
    omega
  | t :: ps, a + 1, ta, m, e, hi, hm, h, hx, hl, hs => by
    simp only [List.getElem?_cons_succ] at h
    rw [crossed_succ] at hx
    simp only [Bool.or_eq_false_iff, Bool.not_eq_eq_eq_not, Bool.not_false] at hx
    have hm' : MaxMono ps := by
      cases ps with
      | nil => trivial
      | cons p ps => exact hm.2
    have := visible_locals_lt_max ps a ta m e hi.2.2 hm' h hx.2 hl hs
    simp only [funcMax, hx.1, if_true]; exact this


/-! ## (c) captures -/

/-- Length of the free list of the enclosing function's table. -/
def funcFree : Chain → Nat
  | [] => 0
  | t :: ps => if t.block then funcFree ps else t.freeSymbols.length

/-- A captured original is a local or free symbol of the enclosing function whose index is a valid
operand there: `GETLP idx` with `idx < MaxSymbols()`, or `GETFP idx` with `idx < len(FreeSymbols())`. -/
def OrigOK (ps : Chain) (o : Symbol) : Prop :=
  (o.scope = .local ∧ o.index < funcMax ps) ∨ (o.scope = .free ∧ o.index < funcFree ps)

/-- Invariant 4: a FREE entry `m ↦ e` points at position `e.index` of its table's free list, where
the original of the same name sits; every original is a valid operand in the enclosing function. -/
def FreeInv : Chain → Prop
  | [] => True
  | t :: ps =>
    (∀ m e, lookup m t.store = some e → e.scope = .free → ∃ o, t.freeSymbols[e.index]? = some o ∧ o.name = m) ∧
    (∀ o ∈ t.freeSymbols, OrigOK ps o) ∧
    FreeInv ps

/-- `t'` is `t` with possibly larger `maxDefinition`, the same free list and no new FREE entry. -/
def FSub (t' t : Table) : Prop :=
  t'.block = t.block ∧ t.maxDefinition ≤ t'.maxDefinition ∧ t'.freeSymbols = t.freeSymbols ∧
  ∀ m e, lookup m t'.store = some e → e.scope = .free → lookup m t.store = some e

inductive ChainFSub : Chain → Chain → Prop
  | nil : ChainFSub [] []
  | cons {t' t : Table} {ps' ps : Chain} : FSub t' t → ChainFSub ps' ps → ChainFSub (t' :: ps') (t :: ps)

theorem fsub_refl (t : Table) : FSub t t := ⟨rfl, Nat.le_refl _, rfl, fun _ _ h _ => h⟩

theorem chainFSub_refl (c : Chain) : ChainFSub c c := by
  induction c with
  | nil => exact ChainFSub.nil
  | cons t ps ih => exact ChainFSub.cons (fsub_refl t) ih

theorem funcMax_fsub {c' c : Chain} (h : ChainFSub c' c) : funcMax c ≤ funcMax c' := by
  induction h with
  | nil => exact Nat.le_refl _
  | cons ht _ ih =>
    simp only [funcMax, ht.1]
    split
    · exact ih
    · exact ht.2.1

theorem funcFree_fsub {c' c : Chain} (h : ChainFSub c' c) : funcFree c' = funcFree c := by
  induction h with
  | nil => rfl
  | cons ht _ ih => simp only [funcFree, ht.1, ht.2.2.1, ih]

theorem origOK_fsub {ps' ps : Chain} (h : ChainFSub ps' ps) {o : Symbol} (ho : OrigOK ps o) : OrigOK ps' o := by
  cases ho with
  | inl h1 => exact Or.inl ⟨h1.1, Nat.lt_of_lt_of_le h1.2 (funcMax_fsub h)⟩
  | inr h1 => exact Or.inr ⟨h1.1, by rw [funcFree_fsub h]; exact h1.2⟩

theorem freeInv_fsub {c' c : Chain} (h : ChainFSub c' c) (hi : FreeInv c) : FreeInv c' := by
  induction h with
  | nil => trivial
  | @cons t' t ps' ps ht hps ih =>
    obtain ⟨h1, h2, h3⟩ := hi
    refine ⟨fun m e hl hs => ?_, fun o ho => ?_, ih h3⟩
    · rw [ht.2.2.1]; exact h1 m e (ht.2.2.2 m e hl hs) hs
    · rw [ht.2.2.1] at ho; exact origOK_fsub hps (h2 o ho)

theorem updateMax_fsub (k : Nat) (c : Chain) : ChainFSub (updateMax k c) c := by
  induction c with
  | nil => exact ChainFSub.nil
  | cons t ps ih =>
    have ht : FSub { t with maxDefinition := max t.maxDefinition k } t :=
      ⟨rfl, Nat.le_max_left _ _, rfl, fun _ _ h _ => h⟩
    simp only [updateMax]
    split
    · exact ChainFSub.cons ht ih
    · exact ChainFSub.cons ht (chainFSub_refl ps)

theorem incRoot_fsub (c : Chain) : ChainFSub (incRoot c) c := by
  induction c with
  | nil => exact ChainFSub.nil
  | cons t ps ih =>
    cases ps with
    | nil => exact ChainFSub.cons ⟨rfl, Nat.le_refl _, rfl, fun _ _ h _ => h⟩ ChainFSub.nil
    | cons p ps => exact ChainFSub.cons (fsub_refl t) ih

theorem fsub_trans {a b c : Table} (h₁ : FSub a b) (h₂ : FSub b c) : FSub a c :=
  ⟨h₁.1.trans h₂.1, Nat.le_trans h₂.2.1 h₁.2.1, h₁.2.2.1.trans h₂.2.2.1,
   fun m e hl hs => h₂.2.2.2 m e (h₁.2.2.2 m e hl hs) hs⟩

theorem chainFSub_trans {a b c : Chain} (h₁ : ChainFSub a b) (h₂ : ChainFSub b c) : ChainFSub a c := by
  induction h₁ generalizing c with
  | nil => cases h₂; exact ChainFSub.nil
  | cons h _ ih =>
    cases h₂ with
    | cons h' hr => exact ChainFSub.cons (fsub_trans h h') (ih hr)

/-- `store[n] = s` with a symbol that is not FREE adds no FREE entry. -/
theorem put_fsub (t : Table) (n : String) (s : Symbol) (hs : s.scope ≠ .free) (num : Nat) :
    FSub { t with store := put n s t.store, numDefinition := num } t :=
  ⟨rfl, Nat.le_refl _, rfl, fun m e hl he => by
    simp only [lookup_put] at hl
    by_cases hm : m = n
    · simp only [hm, if_true, Option.some.injEq] at hl
      subst hl; exact absurd he hs
    · simp only [hm, if_false] at hl; exact hl⟩

theorem define_fsub (n : String) (c : Chain) : ChainFSub (define n c).2 c := by
  cases c with
  | nil => exact ChainFSub.nil
  | cons t ps =>
    simp only [define]
    refine chainFSub_trans (updateMax_fsub _ _) ?_
    split
    · refine chainFSub_trans (incRoot_fsub _) ?_
      exact ChainFSub.cons (put_fsub t n _ (by simp) t.numDefinition) (chainFSub_refl ps)
    · exact ChainFSub.cons (put_fsub t n _ (by simp) (t.numDefinition + 1)) (chainFSub_refl ps)

theorem defineBuiltin_fsub (i : Nat) (n : String) (c : Chain) : ChainFSub (defineBuiltin i n c).2 c := by
  induction c with
  | nil => exact ChainFSub.nil
  | cons t ps ih =>
    cases ps with
    | nil =>
      refine ChainFSub.cons ⟨rfl, Nat.le_refl _, rfl, fun m e hl he => ?_⟩ ChainFSub.nil
      simp only [lookup_put] at hl
      by_cases hm : m = n
      · simp only [hm, if_true, Option.some.injEq] at hl
        subst hl; simp at he
      · simp only [hm, if_false] at hl; exact hl
    | cons p ps => exact ChainFSub.cons (fsub_refl t) ih

theorem setAssigned_fsub (n : String) (t : Table) : FSub { t with store := setAssigned n t.store } t :=
  ⟨rfl, Nat.le_refl _, rfl, fun m e hl he => by
    rw [lookup_setAssigned] at hl
    cases hl0 : lookup m t.store with
    | none => simp [hl0] at hl
    | some e0 =>
      simp only [hl0, Option.map_some, Option.some.injEq] at hl
      by_cases c : m = n ∧ e0.scope = .local
      · simp only [c, and_self, if_true] at hl
        subst hl; simp [c.2] at he
      · simp only [c, if_false] at hl
        rw [hl]⟩

theorem markLevel_fsub (n : String) (d : Nat) (c : Chain) : ChainFSub (markLevel n d c) c := by
  induction c generalizing d with
  | nil => cases d <;> exact ChainFSub.nil
  | cons t ps ih =>
    cases d with
    | zero => exact ChainFSub.cons (setAssigned_fsub n t) (chainFSub_refl ps)
    | succ d => exact ChainFSub.cons (fsub_refl t) (ih d)

theorem markFirst_fsub (n : String) (c : Chain) : ChainFSub (markFirst n c) c := by
  induction c with
  | nil => exact ChainFSub.nil
  | cons t ps ih =>
    simp only [markFirst]
    cases lookup n t.store with
    | none => exact ChainFSub.cons (fsub_refl t) ih
    | some _ => exact ChainFSub.cons (setAssigned_fsub n t) (chainFSub_refl ps)

theorem markCaptured_fsub (os : List Symbol) (c : Chain) : ChainFSub (markCaptured os c) c := by
  induction os generalizing c with
  | nil => exact chainFSub_refl c
  | cons o os ih =>
    simp only [markCaptured]
    by_cases g : o.scope = .local
    · simp only [g, if_true]; exact chainFSub_trans (ih _) (markFirst_fsub _ _)
    · simp only [g, if_false]; exact ih _

theorem funcMax_congr : ∀ {c c' : Chain}, c.map frame = c'.map frame → funcMax c = funcMax c'
  | [], [], _ => rfl
  | [], _ :: _, h => by simp at h
  | _ :: _, [], h => by simp at h
  | t :: ps, t' :: ps', h => by
    simp only [List.map_cons, List.cons.injEq, frame, Prod.mk.injEq] at h
    have ih := funcMax_congr (c := ps) (c' := ps') h.2
    simp [funcMax, h.1.1, h.1.2.2, ih]

/-- `Resolve` only appends to free lists. -/
theorem resolve_funcFree_mono (c : Chain) (n : String) (r : Bool) :
    funcFree c ≤ funcFree (resolve c n r).2 := by
  induction c generalizing r with
  | nil => exact Nat.le_refl _
  | cons t ps ih =>
    have up : funcFree (t :: ps) ≤ funcFree (resolveUp t (resolve ps n true)).2 := by
      unfold resolveUp
      cases hr : (resolve ps n true).1 with
      | none => simp only [funcFree]; split; exact ih true; exact Nat.le_refl _
      | some p =>
        obtain ⟨s0, d0⟩ := p
        by_cases g : (!t.block && s0.scope != .global && s0.scope != .builtin) = true
        · have hb : t.block = false := by cases hb : t.block <;> simp [hb] at g ⊢
          simp only [g, if_true, Table.defineFree]
          simp [funcFree, hb]
        · have g' := (Bool.not_eq_true _).mp g
          simp only [g', Bool.false_eq_true, if_false, funcFree]
          split; exact ih true; exact Nat.le_refl _
    simp only [resolve]
    cases lookup n t.store with
    | none => exact up
    | some s =>
      by_cases u : usable s r = true
      · simp only [u, if_true]; exact Nat.le_refl _
      · have u' := (Bool.not_eq_true _).mp u
        simp only [u', Bool.false_eq_true, if_false]; exact up

theorem origOK_resolve {ps : Chain} (n : String) (r : Bool) {o : Symbol} (ho : OrigOK ps o) :
    OrigOK (resolve ps n r).2 o := by
  cases ho with
  | inl h => exact Or.inl ⟨h.1, by rw [funcMax_congr (resolve_frames ps n r)]; exact h.2⟩
  | inr h => exact Or.inr ⟨h.1, Nat.lt_of_lt_of_le h.2 (resolve_funcFree_mono ps n r)⟩

/-- **(c), kernel.** `Resolve` keeps the capture invariant, and what it returns is a valid operand
in the current function: a LOCAL result has an index below `MaxSymbols()` of the function's table, a
FREE result an index inside that table's free list. -/
theorem resolve_freeInv (c : Chain) (n : String) (r : Bool) (hw : WF c) (hf : FreeInv c) :
    FreeInv (resolve c n r).2 ∧
    ∀ s d, (resolve c n r).1 = some (s, d) →
      (s.scope = .local → s.index < funcMax (resolve c n r).2) ∧
      (s.scope = .free → s.index < funcFree (resolve c n r).2) := by
  induction c generalizing r with
  | nil => exact ⟨trivial, fun s d h => by simp [resolve] at h⟩
  | cons t ps ih =>
    have hwps : ps ≠ [] → WF ps := fun hne =>
      ⟨hne, hw.scope.2, hw.idx.2.2, by
        cases ps with
        | nil => trivial
        | cons p ps => exact hw.mono.2⟩
    -- level 0 hit
    have hit : ∀ s, lookup n t.store = some s →
        (s.scope = .local → s.index < funcMax (t :: ps)) ∧ (s.scope = .free → s.index < funcFree (t :: ps)) := by
      intro s hl
      refine ⟨fun hs => ?_, fun hs => ?_⟩
      · have := (hw.idx.1 n s hl hs).2.2
        have := max_le_funcMax t ps hw.mono
        omega
      · have hb := ((hw.scope.1 n s hl).2.2.2.1 hs).1
        obtain ⟨o, ho, _⟩ := hf.1 n s hl hs
        have : s.index < t.freeSymbols.length := by
          rcases Nat.lt_or_ge s.index t.freeSymbols.length with h | h
          · exact h
          · rw [List.getElem?_eq_none h] at ho; simp at ho
        simp [funcFree, hb, this]
    have up : FreeInv (resolveUp t (resolve ps n true)).2 ∧
        ∀ s d, (resolveUp t (resolve ps n true)).1 = some (s, d) →
          (s.scope = .local → s.index < funcMax (resolveUp t (resolve ps n true)).2) ∧
          (s.scope = .free → s.index < funcFree (resolveUp t (resolve ps n true)).2) := by
      unfold resolveUp
      cases hr : (resolve ps n true).1 with
      | none =>
        have hps : FreeInv (resolve ps n true).2 := by
          cases ps with
          | nil => trivial
          | cons p ps => exact (ih true (hwps (by simp)) hf.2.2).1
        exact ⟨⟨hf.1, fun o ho => origOK_resolve n true (hf.2.1 o ho), hps⟩, fun s d h => by simp at h⟩
      | some p =>
        obtain ⟨s0, d0⟩ := p
        have hne : ps ≠ [] := resolve_some_ne_nil hr
        obtain ⟨hps, hb0⟩ := ih true (hwps hne) hf.2.2
        have hb0 := hb0 s0 d0 hr
        by_cases g : (!t.block && s0.scope != .global && s0.scope != .builtin) = true
        · have hb : t.block = false := by cases hb : t.block <;> simp [hb] at g ⊢
          simp only [g, if_true, Table.defineFree]
          refine ⟨⟨fun m e hl hs => ?_, fun o ho => ?_, hps⟩, fun s d h => ?_⟩
          · simp only [lookup_put] at hl
            by_cases hm : m = s0.name
            · simp only [hm, if_true, Option.some.injEq] at hl
              subst hl
              exact ⟨s0, by simp, hm.symm⟩
            · simp only [hm, if_false] at hl
              obtain ⟨o, ho, hn⟩ := hf.1 m e hl hs
              refine ⟨o, ?_, hn⟩
              have : e.index < t.freeSymbols.length := by
                rcases Nat.lt_or_ge e.index t.freeSymbols.length with h | h
                · exact h
                · rw [List.getElem?_eq_none h] at ho; simp at ho
              rw [List.getElem?_append_left this]; exact ho
          · simp only [List.mem_append, List.mem_singleton] at ho
            cases ho with
            | inl h => exact origOK_resolve n true (hf.2.1 o h)
            | inr h =>
              subst h
              have hcap : o.scope = .local ∨ o.scope = .free := by
                simp only [hb] at g
                cases hs : o.scope <;> simp [hs] at g ⊢
              cases hcap with
              | inl h => exact Or.inl ⟨h, hb0.1 h⟩
              | inr h => exact Or.inr ⟨h, hb0.2 h⟩
          · simp only [Option.some.injEq, Prod.mk.injEq] at h
            obtain ⟨hs, _⟩ := h
            subst hs
            exact ⟨fun h => by simp at h, fun _ => by simp [funcFree, hb]⟩
        · have g' := (Bool.not_eq_true _).mp g
          simp only [g', Bool.false_eq_true, if_false]
          refine ⟨⟨hf.1, fun o ho => origOK_resolve n true (hf.2.1 o ho), hps⟩, fun s d h => ?_⟩
          simp only [Option.some.injEq, Prod.mk.injEq] at h
          obtain ⟨hs, _⟩ := h
          subst hs
          -- not captured: either `t` is a block, or the symbol is global/builtin
          by_cases b : t.block
          · simp only [funcMax, funcFree, b, if_true]; exact hb0
          · have hb : t.block = false := by simpa using b
            simp only [hb] at g'
            refine ⟨fun h => ?_, fun h => ?_⟩ <;> simp [h] at g'
    simp only [resolve]
    cases hl : lookup n t.store with
    | none => exact up
    | some s =>
      by_cases u : usable s r = true
      · simp only [u, if_true]
        refine ⟨hf, fun s' d' h => ?_⟩
        simp only [Option.some.injEq, Prod.mk.injEq] at h
        rw [← h.1]; exact hit s hl
      · have u' := (Bool.not_eq_true _).mp u
        simp only [u', Bool.false_eq_true, if_false]; exact up


theorem freeInv_step (o : Op) (c : Chain) (hw : WF c) (hf : FreeInv c) : FreeInv (step o c).2 := by
  cases o with
  | define n => exact freeInv_fsub (define_fsub n c) hf
  | builtin i n => exact freeInv_fsub (defineBuiltin_fsub i n c) hf
  | fork b => exact ⟨fun m e hl => by simp [lookup] at hl, fun o ho => by simp at ho, hf⟩
  | parent =>
    simp only [step]
    match c, hf with
    | [], _ => trivial
    | [_], h => exact h
    | _ :: p :: ps, h => exact h.2.2
  | leave =>
    simp only [step]
    match c, hf with
    | [], _ => trivial
    | [_], h => exact h
    | t :: p :: ps, h => exact freeInv_fsub (markCaptured_fsub _ _) h.2.2
  | resolve n r => exact (resolve_freeInv c n r hw hf).1
  | assign n =>
    simp only [step]
    have := (resolve_freeInv c n false hw hf).1
    cases (resolve c n false).1 with
    | none => exact this
    | some p =>
      obtain ⟨s, d⟩ := p
      by_cases g : s.scope = .local
      · simp only [g, if_true]; exact freeInv_fsub (markLevel_fsub _ _ _) this
      · simp only [g, if_false]; exact this
  | mark n =>
    simp only [step]
    have := (resolve_freeInv c n true hw hf).1
    cases (resolve c n true).1 with
    | none => exact this
    | some p =>
      obtain ⟨s, d⟩ := p
      by_cases g : s.scope = .local ∧ d = 0
      · simp only [g, and_self, if_true]; exact freeInv_fsub (markLevel_fsub _ _ _) this
      · simp only [g, if_false]; exact this

theorem freeInv_reachable (os : List Op) : FreeInv (run os init).2 := by
  have : ∀ (os : List Op) (c : Chain), WF c → FreeInv c → FreeInv (run os c).2 := by
    intro os
    induction os with
    | nil => intro c _ h; exact h
    | cons o os ih => intro c hw hf; exact ih _ (wf_step o c hw) (freeInv_step o c hw hf)
  exact this os init wf_init ⟨fun m e hl => by simp [init, lookup] at hl, fun o ho => by simp [init] at ho, trivial⟩

theorem freeInv_drop (c : Chain) (d : Nat) (h : FreeInv c) : FreeInv (c.drop d) := by
  induction d generalizing c with
  | zero => exact h
  | succ d ih =>
    cases c with
    | nil => trivial
    | cons t ps => exact ih ps h.2.2

/-- In a well-formed chain the symbol `Resolve(n, ·)` returns is called `n`. -/
theorem resolve_name (c : Chain) (hc : ScopeInv c) (n : String) (r : Bool) (s : Symbol) (d : Nat)
    (h : (resolve c n r).1 = some (s, d)) : s.name = n := by
  obtain ⟨e, hd, h1, h2⟩ := resolve_decl c n r s d h
  obtain ⟨t, ps, hdrop, hl⟩ := declAt_drop c n r d e hd
  have hen : e.name = n := by
    have := scopeInv_drop c d hc
    rw [hdrop] at this
    exact (this.1 n e hl).1
  cases hx : (captures e && crossed c d) with
  | true => rw [(h1 hx).2, hen]
  | false => rw [h2 hx, hen]

/-- A FREE result is the entry `n ↦ s` of the current function's table. -/
theorem resolve_stored (c : Chain) (hc : ScopeInv c) (n : String) (r : Bool) (s : Symbol) (d : Nat)
    (h : (resolve c n r).1 = some (s, d)) (hs : s.scope = .free) :
    ∃ k f ps, (resolve c n r).2.drop k = f :: ps ∧ crossed (resolve c n r).2 k = false ∧
      lookup n f.store = some s := by
  induction c generalizing r s d with
  | nil => simp [resolve] at h
  | cons t ps ih =>
    have up : ∀ s d, (resolveUp t (resolve ps n true)).1 = some (s, d) → s.scope = .free →
        ∃ k f ps', (resolveUp t (resolve ps n true)).2.drop k = f :: ps' ∧
          crossed (resolveUp t (resolve ps n true)).2 k = false ∧ lookup n f.store = some s := by
      intro s d h hs
      unfold resolveUp at h ⊢
      cases hr : (resolve ps n true).1 with
      | none => simp [hr] at h
      | some p =>
        obtain ⟨s0, d0⟩ := p
        have hn0 := resolve_name ps hc.2 n true s0 d0 hr
        simp only [hr] at h ⊢
        by_cases g : (!t.block && s0.scope != .global && s0.scope != .builtin) = true
        · simp only [g, if_true, Table.defineFree, Option.some.injEq, Prod.mk.injEq] at h ⊢
          refine ⟨0, _, _, rfl, crossed_zero _, ?_⟩
          rw [← h.1, hn0, lookup_put]; simp
        · have g' := (Bool.not_eq_true _).mp g
          simp only [g', Bool.false_eq_true, if_false, Option.some.injEq, Prod.mk.injEq] at h ⊢
          obtain ⟨h1, _⟩ := h
          subst h1
          have hb : t.block = true := by
            cases hb : t.block
            · simp [hb, hs] at g'
            · rfl
          obtain ⟨k, f, ps', hk, hx, hl⟩ := ih hc.2 true s0 d0 hr hs
          exact ⟨k + 1, f, ps', hk, by rw [crossed_succ]; simp [hb, hx], hl⟩
    simp only [resolve] at h ⊢
    cases hl : lookup n t.store with
    | none => simp only [hl] at h; exact up s d h hs
    | some s1 =>
      simp only [hl] at h
      by_cases u : usable s1 r = true
      · simp only [u, if_true, Option.some.injEq, Prod.mk.injEq] at h ⊢
        exact ⟨0, t, ps, rfl, crossed_zero _, h.1 ▸ hl⟩
      · have u' := (Bool.not_eq_true _).mp u
        simp only [u', Bool.false_eq_true, if_false] at h ⊢
        exact up s d h hs

/-- **(c) capture is complete.** When `Resolve` answers with a FREE symbol `s`, the table of the
current function (reached from the current table through blocks only) stores `n ↦ s`, its free
list has at position `s.index` an original named `n`, and that original is a LOCAL or FREE symbol
with a valid index in the enclosing function — so the loop over `FreeSymbols()` in the `FuncLit`
case has an operand for every `GETLP` / `GETFP` it emits. -/
theorem free_capture_complete (c : Chain) (hw : WF c) (hf : FreeInv c) (n : String) (r : Bool)
    (s : Symbol) (d : Nat) (h : (resolve c n r).1 = some (s, d)) (hs : s.scope = .free) :
    ∃ k f ps o, (resolve c n r).2.drop k = f :: ps ∧ crossed (resolve c n r).2 k = false ∧
      f.block = false ∧ lookup n f.store = some s ∧
      f.freeSymbols[s.index]? = some o ∧ o.name = n ∧ OrigOK ps o := by
  obtain ⟨k, f, ps, hk, hx, hl⟩ := resolve_stored c hw.scope n r s d h hs
  have hs' := scopeInv_drop _ k (scopeInv_resolve c n r hw.scope)
  have hf' := freeInv_drop _ k (resolve_freeInv c n r hw hf).1
  rw [hk] at hs' hf'
  obtain ⟨o, ho, hon⟩ := hf'.1 n s hl hs
  have hb := ((hs'.1 n s hl).2.2.2.1 hs).1
  exact ⟨k, f, ps, o, hk, hx, hb, hl, ho, hon, hf'.2.1 o (List.mem_of_getElem? ho)⟩

/-! ### exactly once -/

/-- Invariant 5: the names in a free list are pairwise different, and every captured name still
has an entry in the table's store (the FREE entry, or a later redefinition). -/
def CapInv : Chain → Prop
  | [] => True
  | t :: ps =>
    (∀ (i j : Nat) (o₁ o₂ : Symbol), t.freeSymbols[i]? = some o₁ → t.freeSymbols[j]? = some o₂ → o₁.name = o₂.name → i = j) ∧
    (∀ o ∈ t.freeSymbols, (lookup o.name t.store).isSome = true) ∧
    CapInv ps

/-- The discipline under which a capture cannot be repeated: the lookup does not start (`recur =
false`) at a table that holds a not yet assigned local of that name. compiler.go keeps it: `Define`
is followed by the mark at once (parameters, `:=` of a non-function) or after compiling the function
literal on the right-hand side, whose lookups reach the table with `recur = true`. -/
def NoPending (c : Chain) (n : String) (r : Bool) : Prop :=
  r = true ∨ ∀ t ps, c = t :: ps → ∀ e, lookup n t.store = some e → usable e false = true

theorem capInv_resolve (c : Chain) (hc : ScopeInv c) (n : String) (r : Bool) (hp : NoPending c n r)
    (h : CapInv c) : CapInv (resolve c n r).2 := by
  induction c generalizing r with
  | nil => trivial
  | cons t ps ih =>
    have hps : CapInv (resolve ps n true).2 := ih hc.2 true (Or.inl rfl) h.2.2
    have up : lookup n t.store = none → CapInv (resolveUp t (resolve ps n true)).2 := by
      intro hnone
      unfold resolveUp
      cases hr : (resolve ps n true).1 with
      | none => exact ⟨h.1, h.2.1, hps⟩
      | some p =>
        obtain ⟨s0, d0⟩ := p
        have hn0 := resolve_name ps hc.2 n true s0 d0 hr
        by_cases g : (!t.block && s0.scope != .global && s0.scope != .builtin) = true
        · simp only [g, if_true, Table.defineFree]
          have hfresh : ∀ o ∈ t.freeSymbols, o.name ≠ n := by
            intro o ho hn
            have := h.2.1 o ho
            rw [hn, hnone] at this; simp at this
          refine ⟨fun i j o₁ o₂ h₁ h₂ hn => ?_, fun o ho => ?_, hps⟩
          · rcases Nat.lt_or_ge i t.freeSymbols.length with hi | hi
            · rw [List.getElem?_append_left hi] at h₁
              rcases Nat.lt_or_ge j t.freeSymbols.length with hj | hj
              · rw [List.getElem?_append_left hj] at h₂
                exact h.1 i j o₁ o₂ h₁ h₂ hn
              · rw [List.getElem?_append_right hj] at h₂
                have : o₂ = s0 := by
                  cases hk : j - t.freeSymbols.length with
                  | zero => simpa [hk] using h₂.symm
                  | succ k => simp [hk] at h₂
                exact absurd (hn.trans (this ▸ hn0)) (hfresh o₁ (List.mem_of_getElem? h₁))
            · rw [List.getElem?_append_right hi] at h₁
              have e₁ : o₁ = s0 ∧ i = t.freeSymbols.length := by
                cases hk : i - t.freeSymbols.length with
                | zero => exact ⟨by simpa [hk] using h₁.symm, by omega⟩
                | succ k => simp [hk] at h₁
              rcases Nat.lt_or_ge j t.freeSymbols.length with hj | hj
              · rw [List.getElem?_append_left hj] at h₂
                exact absurd (hn.symm.trans (e₁.1 ▸ hn0)) (hfresh o₂ (List.mem_of_getElem? h₂))
              · rw [List.getElem?_append_right hj] at h₂
                have : j = t.freeSymbols.length := by
                  cases hk : j - t.freeSymbols.length with
                  | zero => omega
                  | succ k => simp [hk] at h₂
                omega
          · simp only [List.mem_append, List.mem_singleton] at ho
            simp only [lookup_put]
            split
            · rfl
            · cases ho with
              | inl ho => exact h.2.1 o ho
              | inr ho => subst ho; simp_all
        · have g' := (Bool.not_eq_true _).mp g
          simp only [g', Bool.false_eq_true, if_false]
          exact ⟨h.1, h.2.1, hps⟩
    simp only [resolve]
    cases hl : lookup n t.store with
    | none => exact up hl
    | some s =>
      by_cases u : usable s r = true
      · simp only [u, if_true]; exact h
      · -- excluded by the discipline
        exfalso
        cases hp with
        | inl hr => subst hr; simp [usable] at u
        | inr hp =>
          have := hp t ps rfl s hl
          cases r
          · exact u this
          · simp [usable] at u


/-! ### `CapInv` under the other operations -/

/-- `t'` has the free list of `t` and an entry for every name `t` has one for. -/
def CSub (t' t : Table) : Prop :=
  t'.freeSymbols = t.freeSymbols ∧ ∀ m, (lookup m t.store).isSome = true → (lookup m t'.store).isSome = true

inductive ChainCSub : Chain → Chain → Prop
  | nil : ChainCSub [] []
  | cons {t' t : Table} {ps' ps : Chain} : CSub t' t → ChainCSub ps' ps → ChainCSub (t' :: ps') (t :: ps)

theorem csub_refl (t : Table) : CSub t t := ⟨rfl, fun _ h => h⟩

theorem chainCSub_refl : ∀ (c : Chain), ChainCSub c c
  | [] => ChainCSub.nil
  | t :: ps => ChainCSub.cons (csub_refl t) (chainCSub_refl ps)

theorem chainCSub_trans {a b c : Chain} (h₁ : ChainCSub a b) (h₂ : ChainCSub b c) : ChainCSub a c := by
  induction h₁ generalizing c with
  | nil => cases h₂; exact ChainCSub.nil
  | cons h _ ih =>
    cases h₂ with
    | cons h' hr => exact ChainCSub.cons ⟨h.1.trans h'.1, fun m hm => h.2 m (h'.2 m hm)⟩ (ih hr)

theorem capInv_csub {c' c : Chain} (h : ChainCSub c' c) (hi : CapInv c) : CapInv c' := by
  induction h with
  | nil => trivial
  | cons ht _ ih =>
    refine ⟨?_, fun o ho => ?_, ih hi.2.2⟩
    · rw [ht.1]; exact hi.1
    · rw [ht.1] at ho; exact ht.2 _ (hi.2.1 o ho)

theorem put_csub (t : Table) (n : String) (s : Symbol) (num : Nat) :
    CSub { t with store := put n s t.store, numDefinition := num } t :=
  ⟨rfl, fun m hm => by simp only [lookup_put]; split <;> simp [hm]⟩

theorem updateMax_csub (k : Nat) : ∀ (c : Chain), ChainCSub (updateMax k c) c
  | [] => ChainCSub.nil
  | t :: ps => by
    simp only [updateMax]
    split
    · exact ChainCSub.cons ⟨rfl, fun _ h => h⟩ (updateMax_csub k ps)
    · exact ChainCSub.cons ⟨rfl, fun _ h => h⟩ (chainCSub_refl ps)

theorem incRoot_csub : ∀ (c : Chain), ChainCSub (incRoot c) c
  | [] => ChainCSub.nil
  | [_] => ChainCSub.cons ⟨rfl, fun _ h => h⟩ ChainCSub.nil
  | t :: p :: ps => ChainCSub.cons (csub_refl t) (incRoot_csub (p :: ps))

theorem define_csub (n : String) (c : Chain) : ChainCSub (define n c).2 c := by
  cases c with
  | nil => exact ChainCSub.nil
  | cons t ps =>
    simp only [define]
    refine chainCSub_trans (updateMax_csub _ _) ?_
    split
    · exact chainCSub_trans (incRoot_csub _) (ChainCSub.cons (put_csub t n _ t.numDefinition) (chainCSub_refl ps))
    · exact ChainCSub.cons (put_csub t n _ (t.numDefinition + 1)) (chainCSub_refl ps)

theorem defineBuiltin_csub (i : Nat) (n : String) : ∀ (c : Chain), ChainCSub (defineBuiltin i n c).2 c
  | [] => ChainCSub.nil
  | [t] => ChainCSub.cons ⟨rfl, fun m hm => by simp only [lookup_put]; split <;> simp [hm]⟩ ChainCSub.nil
  | t :: p :: ps => ChainCSub.cons (csub_refl t) (defineBuiltin_csub i n (p :: ps))

theorem setAssigned_csub (n : String) (t : Table) : CSub { t with store := setAssigned n t.store } t :=
  ⟨rfl, fun m hm => by rw [lookup_setAssigned]; cases h : lookup m t.store <;> simp [h] at hm ⊢⟩

theorem markLevel_csub (n : String) : ∀ (d : Nat) (c : Chain), ChainCSub (markLevel n d c) c
  | _, [] => by cases ‹Nat› <;> exact ChainCSub.nil
  | 0, t :: ps => ChainCSub.cons (setAssigned_csub n t) (chainCSub_refl ps)
  | d + 1, t :: ps => ChainCSub.cons (csub_refl t) (markLevel_csub n d ps)

theorem markFirst_csub (n : String) : ∀ (c : Chain), ChainCSub (markFirst n c) c
  | [] => ChainCSub.nil
  | t :: ps => by
    simp only [markFirst]
    cases lookup n t.store with
    | none => exact ChainCSub.cons (csub_refl t) (markFirst_csub n ps)
    | some _ => exact ChainCSub.cons (setAssigned_csub n t) (chainCSub_refl ps)

theorem markCaptured_csub : ∀ (os : List Symbol) (c : Chain), ChainCSub (markCaptured os c) c
  | [], c => chainCSub_refl c
  | o :: os, c => by
    simp only [markCaptured]
    by_cases g : o.scope = .local
    · simp only [g, if_true]; exact chainCSub_trans (markCaptured_csub os _) (markFirst_csub _ _)
    · simp only [g, if_false]; exact markCaptured_csub os _

/-- The operation keeps the discipline (see `NoPending`). -/
def OpNoPending (c : Chain) : Op → Prop
  | .resolve n r => NoPending c n r
  | .assign n => NoPending c n false
  | _ => True

theorem capInv_step (o : Op) (c : Chain) (hs : ScopeInv c) (hp : OpNoPending c o) (h : CapInv c) :
    CapInv (step o c).2 := by
  cases o with
  | define n => exact capInv_csub (define_csub n c) h
  | builtin i n => exact capInv_csub (defineBuiltin_csub i n c) h
  | fork b => exact ⟨fun i j o₁ o₂ h₁ => by simp at h₁, fun o ho => by simp at ho, h⟩
  | parent =>
    simp only [step]
    match c, h with
    | [], _ => trivial
    | [_], h => exact h
    | _ :: p :: ps, h => exact h.2.2
  | leave =>
    simp only [step]
    match c, h with
    | [], _ => trivial
    | [_], h => exact h
    | t :: p :: ps, h => exact capInv_csub (markCaptured_csub _ _) h.2.2
  | resolve n r => exact capInv_resolve c hs n r hp h
  | assign n =>
    simp only [step]
    have := capInv_resolve c hs n false hp h
    cases (resolve c n false).1 with
    | none => exact this
    | some p =>
      obtain ⟨s, d⟩ := p
      by_cases g : s.scope = .local
      · simp only [g, if_true]; exact capInv_csub (markLevel_csub _ _ _) this
      · simp only [g, if_false]; exact this
  | mark n =>
    simp only [step]
    have := capInv_resolve c hs n true (Or.inl rfl) h
    cases (resolve c n true).1 with
    | none => exact this
    | some p =>
      obtain ⟨s, d⟩ := p
      by_cases g : s.scope = .local ∧ d = 0
      · simp only [g, and_self, if_true]; exact capInv_csub (markLevel_csub _ _ _) this
      · simp only [g, if_false]; exact this

theorem capInv_init : CapInv init :=
  ⟨fun i j o₁ o₂ h₁ => by simp [init] at h₁, fun o ho => by simp [init] at ho, trivial⟩

theorem capInv_drop (c : Chain) (d : Nat) (h : CapInv c) : CapInv (c.drop d) := by
  induction d generalizing c with
  | zero => exact h
  | succ d ih =>
    cases c with
    | nil => trivial
    | cons t ps => exact ih ps h.2.2

/-- **(c) exactly once, consecutive indexes.** Under the discipline `NoPending` a name resolved as
FREE occurs at exactly one position of the function's free list — position `s.index`, the list's
length when it was captured — so free indexes are `0, 1, 2, …` in capture order and the `CLOSURE`
operand count equals the number of distinct captured names. -/
theorem free_capture_once (c : Chain) (hw : WF c) (hf : FreeInv c) (hcap : CapInv c) (n : String) (r : Bool)
    (hp : NoPending c n r) (s : Symbol) (d : Nat)
    (h : (resolve c n r).1 = some (s, d)) (hs : s.scope = .free) :
    ∃ k f ps, (resolve c n r).2.drop k = f :: ps ∧ crossed (resolve c n r).2 k = false ∧
      lookup n f.store = some s ∧
      ∀ (j : Nat) (o : Symbol), f.freeSymbols[j]? = some o → (o.name = n ↔ j = s.index) := by
  obtain ⟨k, f, ps, o, hk, hx, _, hl, ho, hon, _⟩ := free_capture_complete c hw hf n r s d h hs
  have hc := capInv_drop _ k (capInv_resolve c hw.scope n r hp hcap)
  rw [hk] at hc
  refine ⟨k, f, ps, hk, hx, hl, fun j o' hj => ⟨fun hn => hc.1 j s.index o' o hj ho (hn.trans hon.symm), fun hjs => ?_⟩⟩
  subst hjs
  rw [ho] at hj
  exact (Option.some.inj hj) ▸ hon


/-! ### globals: one counter at the root -/

/-- `numDefinition` of the root table: the number of global slots handed out so far. -/
def rootNum : Chain → Nat
  | [] => 0
  | [t] => t.numDefinition
  | _ :: p :: ps => rootNum (p :: ps)

/-- Invariant 6 (with bound `b`): blocks of the global scope count nothing themselves, and every
global symbol stored anywhere in the chain has an index below `b`. -/
def GInvB (b : Nat) : Chain → Prop
  | [] => True
  | t :: ps =>
    (ps ≠ [] → globalCtx (t :: ps) = true → t.numDefinition = 0) ∧
    (∀ m e, lookup m t.store = some e → e.scope = .global → e.index < b) ∧
    GInvB b ps

def GInv (c : Chain) : Prop := GInvB (rootNum c) c

theorem gInvB_mono {b b' : Nat} (hb : b ≤ b') : ∀ {c : Chain}, GInvB b c → GInvB b' c
  | [], _ => trivial
  | _ :: _, h => ⟨h.1, fun m e hl hs => Nat.lt_of_lt_of_le (h.2.1 m e hl hs) hb, gInvB_mono hb h.2.2⟩

theorem shape_of_sub {c' c : Chain} (h : ChainSub c' c) : shape c' = shape c := by
  induction h with
  | nil => rfl
  | cons ht _ ih => simp only [shape, List.map_cons, ht.1.1] at ih ⊢; rw [ih]

theorem rootNum_of_sub {c' c : Chain} (h : ChainSub c' c) : rootNum c' = rootNum c := by
  induction h with
  | nil => rfl
  | cons ht hps ih =>
    cases hps with
    | nil => exact ht.1.2.1
    | cons _ _ => simpa [rootNum] using ih

theorem gInvB_sub {b : Nat} {c' c : Chain} (h : ChainSub c' c) (hi : GInvB b c) : GInvB b c' := by
  induction h with
  | nil => trivial
  | @cons t' t ps' ps ht hps ih =>
    refine ⟨fun hne hg => ?_, fun m e' hl hs => ?_, ih hi.2.2⟩
    · rw [ht.1.2.1]
      apply hi.1
      · intro e; subst e; cases hps; exact hne rfl
      · rw [← hg]; exact globalCtx_congr (shape_of_sub (ChainSub.cons ht hps)).symm
    · obtain ⟨e, hle, hse, hie⟩ := ht.2 m e' hl (Or.inr hs)
      rw [← hie]; exact hi.2.1 m e hle (hse.trans hs)

theorem gInv_sub {c' c : Chain} (h : ChainSub c' c) (hi : GInv c) : GInv c' := by
  unfold GInv at *; rw [rootNum_of_sub h]; exact gInvB_sub h hi

/-- In the global scope the next index is the root's counter, however many blocks are open. -/
theorem nextIndex_global {b : Nat} : ∀ (c : Chain), GInvB b c → globalCtx c = true → nextIndex c = rootNum c
  | [], _, _ => rfl
  | [t], _, _ => by by_cases hb : t.block <;> simp [nextIndex, rootNum, hb]
  | t :: p :: ps, h, hg => by
    have hb : t.block = true := by
      cases hb : t.block
      · simp [globalCtx, hb] at hg
      · rfl
    have h0 := h.1 (by simp) hg
    have := nextIndex_global (p :: ps) h.2.2 (globalCtx_tail hg)
    rw [nextIndex, if_pos hb, h0, this]; rfl

theorem rootNum_cons_ne (t : Table) {c : Chain} (h : c ≠ []) : rootNum (t :: c) = rootNum c := by
  cases c with
  | nil => exact absurd rfl h
  | cons _ _ => rfl

theorem rootNum_incRoot : ∀ (c : Chain), c ≠ [] → rootNum (incRoot c) = rootNum c + 1
  | [], h => absurd rfl h
  | [_], _ => rfl
  | t :: p :: ps, _ => by
    have ih := rootNum_incRoot (p :: ps) (by simp)
    have hne : incRoot (p :: ps) ≠ [] := by
      intro e
      have := incRoot_length (p :: ps)
      rw [e] at this; simp at this
    show rootNum (t :: incRoot (p :: ps)) = rootNum (p :: ps) + 1
    rw [rootNum_cons_ne t hne, ih]

theorem incRoot_shape (c : Chain) : shape (incRoot c) = shape c := by
  have := congrArg (List.map (fun f : Bool × List (String × Symbol) => f.1)) (incRoot_view c)
  simpa [shape, List.map_map, Function.comp_def] using this

theorem gInvB_incRoot {b : Nat} : ∀ (c : Chain), GInvB b c → GInvB b (incRoot c)
  | [], _ => trivial
  | [t], h => ⟨fun hne => absurd rfl hne, h.2.1, trivial⟩
  | t :: p :: ps, h => by
    refine ⟨fun _ hg => h.1 (by simp) ?_, h.2.1, gInvB_incRoot (p :: ps) h.2.2⟩
    rw [← hg]
    exact globalCtx_congr (by simpa [shape] using (incRoot_shape (p :: ps)).symm)

/-- **(d) globals get root-unique indexes.** A `Define` in the global scope — at top level or in
any nesting of blocks — hands out the root counter: an index above that of every global symbol
stored anywhere in the chain, and the counter moves on by one. -/
theorem global_define_fresh (n : String) (c : Chain) (hne : c ≠ []) (hg : GInv c) (hctx : globalCtx c = true) :
    (define n c).1.scope = .global ∧ (define n c).1.index = rootNum c ∧
    rootNum (define n c).2 = rootNum c + 1 ∧ GInv (define n c).2 := by
  cases c with
  | nil => exact absurd rfl hne
  | cons t ps =>
    have hidx := nextIndex_global (t :: ps) hg hctx
    have hroot : rootNum (define n (t :: ps)).2 = rootNum (t :: ps) + 1 := by
      simp only [define, hctx, if_true]
      rw [rootNum_of_sub (updateMax_sub _ _), rootNum_incRoot _ (by simp)]
      cases ps <;> rfl
    refine ⟨by simp [define, hctx], by simp [define, hidx], hroot, ?_⟩
    unfold GInv
    rw [hroot]
    simp only [define, hctx, if_true]
    apply gInvB_sub (updateMax_sub _ _)
    apply gInvB_incRoot
    refine ⟨hg.1, fun m e hl hs => ?_, gInvB_mono (Nat.le_succ _) hg.2.2⟩
    simp only [lookup_put] at hl
    by_cases hm : m = n
    · simp only [hm, if_true, Option.some.injEq] at hl
      rw [← hl]; simp only []; omega
    · simp only [hm, if_false] at hl
      exact Nat.lt_succ_of_lt (hg.2.1 m e hl hs)

theorem rootNum_updateMax (k : Nat) (c : Chain) : rootNum (updateMax k c) = rootNum c :=
  rootNum_of_sub (updateMax_sub k c)

theorem gInv_define (n : String) (c : Chain) (hne : c ≠ []) (hg : GInv c) : GInv (define n c).2 := by
  by_cases hctx : globalCtx c = true
  · exact (global_define_fresh n c hne hg hctx).2.2.2
  · cases c with
    | nil => exact absurd rfl hne
    | cons t ps =>
      have g' := (Bool.not_eq_true _).mp hctx
      have hps : ps ≠ [] := by
        intro e; subst e
        by_cases hb : t.block <;> simp [globalCtx, hb] at g'
      have hr : rootNum (define n (t :: ps)).2 = rootNum (t :: ps) := by
        simp only [define, g', Bool.false_eq_true, if_false, rootNum_updateMax]
        cases ps with
        | nil => exact absurd rfl hps
        | cons _ _ => rfl
      unfold GInv
      rw [hr]
      simp only [define, g', Bool.false_eq_true, if_false]
      apply gInvB_sub (updateMax_sub _ _)
      refine ⟨fun _ hg' => ?_, fun m e hl hs => ?_, hg.2.2⟩
      · have : globalCtx (t :: ps) = true := by rw [← hg']; simp [globalCtx]
        rw [g'] at this; simp at this
      · simp only [lookup_put] at hl
        by_cases hm : m = n
        · simp only [hm, if_true, Option.some.injEq] at hl
          rw [← hl] at hs; simp at hs
        · simp only [hm, if_false] at hl
          exact hg.2.1 m e hl hs

theorem gInv_tail {t p : Table} {ps : Chain} (h : GInv (t :: p :: ps)) : GInv (p :: ps) := h.2.2

theorem gInv_step (o : Op) (c : Chain) (hne : c ≠ []) (h : GInv c) : GInv (step o c).2 := by
  cases o with
  | define n => exact gInv_define n c hne h
  | builtin i n => exact gInv_sub (defineBuiltin_sub i n c) h
  | fork b =>
    cases c with
    | nil => exact absurd rfl hne
    | cons p ps =>
      exact ⟨fun _ _ => rfl, fun m e hl => by simp [lookup] at hl, h⟩
  | parent =>
    simp only [step]
    match c, h with
    | [], _ => trivial
    | [_], h => exact h
    | _ :: p :: ps, h => exact gInv_tail h
  | leave =>
    simp only [step]
    match c, h with
    | [], _ => trivial
    | [_], h => exact h
    | t :: p :: ps, h => exact gInv_sub (markCaptured_sub _ _) (gInv_tail h)
  | resolve n r => exact gInv_sub (resolve_sub c n r) h
  | assign n =>
    simp only [step]
    have := gInv_sub (resolve_sub c n false) h
    cases (resolve c n false).1 with
    | none => exact this
    | some p =>
      obtain ⟨s, d⟩ := p
      by_cases g : s.scope = .local
      · simp only [g, if_true]; exact gInv_sub (markLevel_sub _ _ _) this
      · simp only [g, if_false]; exact this
  | mark n =>
    simp only [step]
    have := gInv_sub (resolve_sub c n true) h
    cases (resolve c n true).1 with
    | none => exact this
    | some p =>
      obtain ⟨s, d⟩ := p
      by_cases g : s.scope = .local ∧ d = 0
      · simp only [g, and_self, if_true]; exact gInv_sub (markLevel_sub _ _ _) this
      · simp only [g, if_false]; exact this

theorem gInv_reachable (os : List Op) : GInv (run os init).2 := by
  have : ∀ (os : List Op) (c : Chain), c ≠ [] → GInv c → GInv (run os c).2 := by
    intro os
    induction os with
    | nil => intro c _ h; exact h
    | cons o os ih => intro c hne h; exact ih _ (step_ne_nil o c hne) (gInv_step o c hne h)
  exact this os init (by simp [init]) ⟨fun h => absurd rfl h, fun m e hl => by simp [init, lookup] at hl, trivial⟩


/-! ## renaming that keeps the builtin names (the "consistently renamed variables" clause) -/

theorem renameChain_init (σ : String → String) : renameChain σ init = init := rfl

/-- The compiler starts from `NewSymbolTable()` plus one `DefineBuiltin` per builtin function. A
renaming that is injective and leaves the builtin names alone leaves that table alone, so replaying
a renamed program's operations on it gives the original's results up to the names: scopes, indexes,
depths and free lists are identical. -/
theorem run_rename_keeping_builtins {σ : String → String} (hσ : Function.Injective σ)
    (bs : List (Nat × String)) (hfix : ∀ p ∈ bs, σ p.2 = p.2) (os : List Op) :
    run (os.map (Op.rename σ)) (run (bs.map (fun p => Op.builtin p.1 p.2)) init).2 =
      ((run os (run (bs.map (fun p => Op.builtin p.1 p.2)) init).2).1.map (Res.rename σ),
       renameChain σ (run os (run (bs.map (fun p => Op.builtin p.1 p.2)) init).2).2) := by
  have hb : (bs.map (fun p => Op.builtin p.1 p.2)).map (Op.rename σ) = bs.map (fun p => Op.builtin p.1 p.2) := by
    rw [List.map_map]
    apply List.map_congr_left
    intro p hp
    simp [Op.rename, hfix p hp]
  have hbase : renameChain σ (run (bs.map (fun p => Op.builtin p.1 p.2)) init).2
      = (run (bs.map (fun p => Op.builtin p.1 p.2)) init).2 := by
    have := run_rename hσ (bs.map (fun p => Op.builtin p.1 p.2)) init
    rw [hb, renameChain_init] at this
    exact (congrArg Prod.snd this).symm
  have := run_rename hσ os (run (bs.map (fun p => Op.builtin p.1 p.2)) init).2
  rw [hbase] at this
  exact this

/-! ## non-vacuity: concrete tables -/

section Examples

/-- `x := …` at top level; a function with a body block; inside it a nested function with a body
block that reads `x`, the outer function's `y` and its own `z`. -/
def exOps : List Op :=
  [ .builtin 0 "len", .define "x",
    .fork false, .fork true, .define "y", .mark "y",         -- func() { y := …
    .fork false, .fork true, .define "z", .mark "z",         --   func() { z := …
    .resolve "x" false, .resolve "y" false, .resolve "z" false, .resolve "len" false, .resolve "w" false ]

/-- GLOBAL at depth 4, FREE (captured from the enclosing function) at depth 2, LOCAL at depth 0,
BUILTIN, unresolved. -/
example : ((run exOps init).1.drop 10) =
    [ .found ⟨"x", .global, 0, false⟩ 4, .found ⟨"y", .free, 0, false⟩ 2, .found ⟨"z", .local, 0, true⟩ 0,
      .found ⟨"len", .builtin, 0, false⟩ 4, .notFound ] := by decide

/-- The hypotheses of `scope_classification`, `free_capture_complete`, `visible_locals_distinct`,
`visible_locals_lt_max` and `global_define_fresh` hold in every reachable state, e.g. after `exOps`. -/
example : WF (run exOps init).2 ∧ FreeInv (run exOps init).2 ∧ GInv (run exOps init).2 :=
  ⟨wf_reachable exOps, freeInv_reachable exOps, gInv_reachable exOps⟩

/-- … and the resolve of `y` there is a FREE result (the premise of `free_capture_complete`). -/
example : ∃ s d, (resolve (run (exOps.take 10) init).2 "y" false).1 = some (s, d) ∧ s.scope = .free :=
  ⟨⟨"y", .free, 0, false⟩, 2, by decide, rfl⟩

/-- Doubly nested capture: the innermost function's free list holds the middle function's FREE
symbol, the middle function's free list holds the outer LOCAL. -/
example :
    ((run ([.fork false, .define "a", .mark "a", .fork false, .fork false, .resolve "a" false]) init).2.map
      (fun t => t.freeSymbols)) =
    [[⟨"a", .free, 0, false⟩], [⟨"a", .local, 0, true⟩], [], []] := by decide

/-- Shadowing in a nested block: both `v` are visible locals of the same function, indexes 0 and 1. -/
example :
    (run [.fork false, .define "v", .mark "v", .fork true, .define "v", .mark "v",
          .resolve "v" false, .parent, .resolve "v" false] init).1 =
    [.ok, .sym ⟨"v", .local, 0, false⟩, .found ⟨"v", .local, 0, false⟩ 0, .ok, .sym ⟨"v", .local, 1, false⟩,
     .found ⟨"v", .local, 1, false⟩ 0, .found ⟨"v", .local, 1, true⟩ 0, .ok, .found ⟨"v", .local, 0, true⟩ 0] := by
  decide

/-- Globals defined in blocks: indexes 0, 1, 2 come from the root's counter; a sibling block does
not reuse 1. -/
example :
    (run [.define "a", .fork true, .define "b", .parent, .fork true, .define "c"] init).1 =
    [.sym ⟨"a", .global, 0, false⟩, .ok, .sym ⟨"b", .global, 1, false⟩, .ok, .ok, .sym ⟨"c", .global, 2, false⟩] := by
  decide

/-- Without `NoPending` a capture can be repeated (the `TODO: should we check duplicates?` of
`defineFree`): capture `x`, redefine `x` in the function's own table, look `x` up before it is
assigned — `x` is captured a second time and the fresh local is overwritten by a FREE symbol. -/
example :
    ((run [.fork false, .define "x", .mark "x", .fork false, .resolve "x" false, .define "x", .resolve "x" false]
        init).2.head?.map (fun t => t.freeSymbols.map (·.name))) = some ["x", "x"] := by decide

/-- A swap of two names is injective (premise of the renaming theorems) … -/
def swapAB (s : String) : String := if s = "a" then "b" else if s = "b" then "a" else s

theorem swapAB_invol (s : String) : swapAB (swapAB s) = s := by
  unfold swapAB
  by_cases h1 : s = "a"
  · simp [h1]
  · by_cases h2 : s = "b"
    · simp [h2]
    · simp [h1, h2]

theorem swapAB_inj : Function.Injective swapAB := fun x y h => by
  have := congrArg swapAB h
  rwa [swapAB_invol, swapAB_invol] at this

/-- … it keeps `len`, and replaying the swapped program gives the swapped results. -/
example :
    run ([Op.define "a", .fork false, .define "b", .resolve "a" false].map (Op.rename swapAB))
        (run [Op.builtin 0 "len"] init).2 =
    ((run [Op.define "a", .fork false, .define "b", .resolve "a" false] (run [Op.builtin 0 "len"] init).2).1.map
        (Res.rename swapAB),
     renameChain swapAB (run [Op.define "a", .fork false, .define "b", .resolve "a" false]
        (run [Op.builtin 0 "len"] init).2).2) :=
  run_rename_keeping_builtins swapAB_inj [(0, "len")] (by decide) _

end Examples


end Tengo.Props.C11

import Tengo.Props.C03
import Tengo.Proofs.C03Machine
import Tengo.Proofs.C03SrcMap
import Tengo.Proofs.C03Decode
/-!
C03 — Dead-code elimination never changes what a program does: totality, layout, lock-step
simulation for every data semantics, source positions, trailing RETURN.

All theorems are about `Tengo.Model.Optimizer.optInstrs` / `opt` (the model of `optimizeFunc`, compared
byte for byte with the real optimizer on every run). Helper lemmas: `Tengo/Proofs/C03*.lean`.
-/
namespace Tengo.Props.C03Sim
open Tengo.Model Tengo.Model.Opcodes Tengo.Model.Optimizer Tengo.Proofs.C03

/-- Old position ↦ new position (`posMap` of the Go code) as a partial function. -/
abbrev newPos (is : List Instr) (p : Nat) : Option Nat := (posMap (kept is)).lookup p
/-- Byte length of the kept instructions (`newEndPost` of the Go code). -/
abbrev newEnd (is : List Instr) : Nat := totalSize (kept is)

/-! ## Running example (non-vacuity): `JMPF →end; RET 1; NULL; JMP →0`, 13 bytes -/

def ex : List Instr :=
  [⟨0, opJumpFalsy, [13]⟩, ⟨5, opReturn, [1]⟩, ⟨7, opNull, []⟩, ⟨8, opJump, [0]⟩]
def exSm : List (Nat × Nat) := [(0, 100), (5, 101), (7, 102), (8, 103)]

theorem ex_layout : Layout 0 ex := ⟨rfl, rfl, rfl, rfl, trivial⟩
theorem ex_end : 13 = totalSize ex := rfl
theorem ex_wf : WFJumps ex 13 := by
  intro i hi hj
  simp only [ex, List.mem_cons, List.not_mem_nil, or_false] at hi
  rcases hi with rfl | rfl | rfl | rfl
  · exact ⟨13, rfl, Or.inl rfl⟩
  · cases hj
  · cases hj
  · exact ⟨0, rfl, Or.inr ⟨_, List.mem_cons_self .., rfl⟩⟩
theorem ex_one : OneOperand ex := by
  intro i hi hj
  simp only [ex, List.mem_cons, List.not_mem_nil, or_false] at hi
  rcases hi with rfl | rfl | rfl | rfl <;> first | rfl | cases hj
theorem ex_sm_functional : ∀ p s s', (p, s) ∈ exSm → (p, s') ∈ exSm → s = s' := by
  intro p s s' h h'
  simp only [exSm, List.mem_cons, Prod.mk.injEq, List.not_mem_nil, or_false] at h h'
  omega

/-- What the optimizer makes of it: NULL and JMP are dropped, the jump to the end is re-targeted to
the appended `RET 0` at offset 7. -/
def exOut : Result :=
  { insts := [⟨0, opJumpFalsy, [7]⟩, ⟨5, opReturn, [1]⟩, ⟨7, opReturn, [0]⟩],
    bytes := [9, 0, 0, 0, 7, 21, 1, 21, 0],
    srcMap := [(0, 100), (5, 101), (7, 99)], appended := true }
theorem ex_ok : optInstrs ex 13 exSm 99 = .ok exOut := by rfl

/-! ## 1. Totality -/

/-- **opt_total.** With well-formed jumps the optimizer never panics ("invalid jump position" is
unreachable): a jump target that is an instruction position is a member of `dsts`, hence kept, hence
a key of `posMap`. -/
theorem opt_total (is : List Instr) (endPos : Nat) (sm : List (Nat × Nat)) (rp : Nat)
    (hw : WFJumps is endPos) : ∃ r, optInstrs is endPos sm rp = .ok r := by
  apply optInstrs_total
  intro p hp hj
  have hk : p.1 ∈ kept is := (mem_layout (x := p.1) (n := p.2) hp).1
  have hx : p.1 ∈ is := (K_sublist _ _ _).subset hk
  obtain ⟨t, ht, hc⟩ := hw p.1 hx hj
  refine ⟨t, ht, ?_⟩
  rcases hc with hc | ⟨j, hjm, hjp⟩
  · exact Or.inr hc
  · left
    have hd : j.pos ∈ dsts is := by
      rw [hjp]; simp only [dsts, List.mem_filterMap]; exact ⟨p.1, hx, by simp [hj, ht]⟩
    obtain ⟨m, hm⟩ := exists_layout 0 (mem_K_of_dst hd is false hjm)
    obtain ⟨b, hb⟩ := lookup_some_of_mem (mem_posMap.mpr ⟨j, hm, hjp⟩)
    have hb' : (posMap (kept is)).lookup t = some b := hb
    simp [hb']

theorem opt_never_panics (is : List Instr) (endPos : Nat) (sm : List (Nat × Nat)) (rp : Nat)
    (hw : WFJumps is endPos) (why : String) : optInstrs is endPos sm rp ≠ .panic why := by
  obtain ⟨r, hr⟩ := opt_total is endPos sm rp hw
  rw [hr]; intro h; cases h

example : ∃ r, optInstrs ex 13 exSm 99 = .ok r := opt_total ex 13 exSm 99 ex_wf

/-! ## 2. Layout and `posMap` -/

/-- **decode_layout.** Decoded streams have consecutive positions, their sizes add up to the byte
length, and jump opcodes carry exactly one operand. -/
theorem decode_layout {bs : Bytes} {is : List Instr} (h : decode bs = some is) :
    Layout 0 is ∧ totalSize is = bs.length ∧ OneOperand is :=
  ⟨Tengo.Proofs.C03.decode_layout h, decode_totalSize h, decode_oneOperand h⟩

example : decode [9, 0, 0, 0, 13, 21, 1, 13, 12, 0, 0, 0, 0] = some ex := by decide

theorem kept_pairwise {is : List Instr} (hl : Layout 0 is) :
    (kept is).Pairwise (fun a b => a.pos < b.pos) :=
  (layout_pairwise hl).sublist (K_sublist _ _ _)

/-- Keys of `posMap` are positions of instructions of the input; values are offsets inside the new
code. -/
theorem posmap_dom {is : List Instr} {p n : Nat} (h : newPos is p = some n) :
    ∃ x ∈ is, x.pos = p ∧ (x, n) ∈ layout 0 (kept is) ∧ n + x.size ≤ newEnd is := by
  obtain ⟨x, hx, hp⟩ := lookup_posMap_some h
  have := mem_layout hx
  exact ⟨x, (K_sublist _ _ _).subset this.1, hp, hx, by simpa using this.2.2⟩

theorem pairwise_mono2 : ∀ {L : List (Instr × Nat)},
    L.Pairwise (fun a b => a.1.pos < b.1.pos ∧ a.2 < b.2) →
    ∀ a ∈ L, ∀ b ∈ L, a.1.pos < b.1.pos → a.2 < b.2 := by
  intro L
  induction L with
  | nil => intro _ a ha; cases ha
  | cons c L ih =>
    intro h a ha b hb hlt
    rw [List.pairwise_cons] at h
    rcases List.mem_cons.mp ha with ha' | ha' <;> rcases List.mem_cons.mp hb with hb' | hb'
    · rw [ha', hb'] at hlt; exact absurd hlt (Nat.lt_irrefl _)
    · rw [ha']; exact (h.1 b hb').2
    · rw [hb'] at hlt; exact absurd hlt (Nat.lt_asymm (h.1 a ha').1)
    · exact ih h.2 a ha' b hb' hlt

/-- **posmap_mono.** Kept instructions map to strictly increasing new offsets. -/
theorem posmap_mono {is : List Instr} (hl : Layout 0 is) {p q n m : Nat}
    (hp : newPos is p = some n) (hq : newPos is q = some m) (hlt : p < q) : n < m := by
  obtain ⟨x, hx, rfl⟩ := lookup_posMap_some hp
  obtain ⟨y, hy, rfl⟩ := lookup_posMap_some hq
  exact pairwise_mono2 (layout_pairwise2 0 (kept_pairwise hl)) _ hx _ hy hlt

theorem posmap_inj {is : List Instr} (hl : Layout 0 is) {p q n : Nat}
    (hp : newPos is p = some n) (hq : newPos is q = some n) : p = q := by
  rcases Nat.lt_trichotomy p q with h | h | h
  · exact absurd (posmap_mono hl hp hq h) (Nat.lt_irrefl _)
  · exact h
  · exact absurd (posmap_mono hl hq hp h) (Nat.lt_irrefl _)

example : (0 : Nat) < 5 :=
  posmap_mono ex_layout (p := 0) (q := 5) (n := 0) (m := 5) (by decide) (by decide) (by decide)

example : newPos ex 0 = some 0 ∧ newPos ex 5 = some 5 ∧ newPos ex 7 = none ∧ newEnd ex = 7 := by decide

/-- **opt_out_layout.** The output's positions are consecutive from 0. -/
theorem opt_out_layout {is : List Instr} {endPos : Nat} {sm : List (Nat × Nat)} {rp : Nat} {r : Result}
    (h : optInstrs is endPos sm rp = .ok r) : Layout 0 r.insts := out_layout (optInstrs_ok h)

/-- **opt_out_instr.** Every kept instruction `x ↦ n` appears in the output at `n` with the same
opcode and size; non-jump operands are unchanged; a jump operand `t` becomes `posMap t`, or the new
end when `t` has no image (then `t = endPos` and a RETURN is appended there). -/
theorem opt_out_instr {is : List Instr} {endPos : Nat} {sm : List (Nat × Nat)} {rp : Nat} {r : Result}
    (h : optInstrs is endPos sm rp = .ok r) (hl : Layout 0 is) {x : Instr} {n : Nat} (hx : x ∈ is)
    (hn : newPos is x.pos = some n) :
    ∃ y, fetch r.insts n = some y ∧ y.pos = n ∧ y.op = x.op ∧ y.size = x.size ∧
      (isJump x.op = false → y.args = x.args) ∧
      (isJump x.op = true → ∃ t, x.args.head? = some t ∧
        ((∃ m, newPos is t = some m ∧ y.args = [m]) ∨
         (newPos is t = none ∧ t = endPos ∧ y.args = [newEnd is] ∧ r.appended = true))) := by
  have hs := optInstrs_ok h
  obtain ⟨x', hx'm, hx'p, hx'l, _⟩ := posmap_dom hn
  have hpw := layout_pairwise hl
  have hxx : x' = x := by
    have h1 := fetch_of_pairwise hpw hx'm
    have h2 := fetch_of_pairwise hpw hx
    rw [hx'p, h2] at h1; exact (Option.some.inj h1).symm
  subst hxx
  refine ⟨_, out_fetch hs hx'l, rt_pos .., rt_op .., rt_size .., fun hj => rt_args_nonjump hj, ?_⟩
  intro hj
  obtain ⟨t, ht, hc⟩ := hs.jumps (x', n) hx'l hj
  refine ⟨t, ht, ?_⟩
  rw [rt_args_jump hj ht]
  cases hm : (posMap (kept is)).lookup t with
  | some m => exact Or.inl ⟨m, hm, by simp [tgt, hm]⟩
  | none =>
    right
    rw [hm] at hc
    refine ⟨hm, ?_, by simp [tgt, hm], hs.app_jump (x', n) hx'l t hj ht hm⟩
    rcases hc with hc | hc
    · cases hc
    · exact hc

/-- **opt_out_only.** The output contains nothing else: every output instruction is the image of a
kept instruction, or the appended `RET 0` at the new end. -/
theorem opt_out_only {is : List Instr} {endPos : Nat} {sm : List (Nat × Nat)} {rp : Nat} {r : Result}
    (h : optInstrs is endPos sm rp = .ok r) (hl : Layout 0 is) {y : Instr} (hy : y ∈ r.insts) :
    (∃ x ∈ is, newPos is x.pos = some y.pos ∧ y.op = x.op) ∨
    (r.appended = true ∧ y = ⟨newEnd is, opReturn, [0]⟩) := by
  have hs := optInstrs_ok h
  rw [hs.insts] at hy
  rcases List.mem_append.mp hy with hy | hy
  · obtain ⟨⟨x, n⟩, hxn, rfl⟩ := List.mem_map.mp hy
    left
    exact ⟨x, (K_sublist _ _ _).subset (mem_layout hxn).1,
      by simpa using lookup_posMap_eq (kept_pairwise hl) hxn, by simp⟩
  · right
    cases ha : r.appended with
    | false => simp [ha] at hy
    | true => simp only [ha, if_true, List.mem_singleton] at hy; exact ⟨rfl, hy⟩

/-- **posmap_targets.** Under `WFJumps`, the target of a jump is kept (has a new position) when it is
an instruction position; every kept instruction but RETURN is followed in the new code by the image
of its old successor, or both are last. -/
theorem posmap_targets {is : List Instr} {x j : Instr} {t : Nat}
    (hx : x ∈ is) (hj : isJump x.op = true) (ht : x.args.head? = some t) (hjm : j ∈ is) (hjp : j.pos = t) :
    ∃ m, newPos is t = some m := by
  have hd : j.pos ∈ dsts is := by
    rw [hjp]; simp only [dsts, List.mem_filterMap]; exact ⟨x, hx, by simp [hj, ht]⟩
  obtain ⟨m, hm⟩ := exists_layout 0 (mem_K_of_dst hd is false hjm)
  exact lookup_some_of_mem (mem_posMap.mpr ⟨j, hm, hjp⟩)

theorem posmap_succ {is : List Instr} (hl : Layout 0 is) {x : Instr} {n : Nat} (hx : x ∈ is)
    (hn : newPos is x.pos = some n) (hr : x.op ≠ opReturn) :
    newPos is (x.pos + x.size) = some (n + x.size) ∨
    (x.pos + x.size = totalSize is ∧ n + x.size = newEnd is ∧ (kept is).getLast? = some x) := by
  obtain ⟨x', hx'm, hx'p, hx'l, _⟩ := posmap_dom hn
  have hpw := layout_pairwise hl
  have hxx : x' = x := by
    have h1 := fetch_of_pairwise hpw hx'm
    have h2 := fetch_of_pairwise hpw hx
    rw [hx'p, h2] at h1; exact (Option.some.inj h1).symm
  subst hxx
  rcases succ_layout (dsts is) is false 0 0 hl x' n hx'l hr with ⟨y, hy, hyp⟩ | h
  · left; rw [← hyp]; exact lookup_posMap_eq (kept_pairwise hl) hy
  · obtain ⟨h1, h2, h3⟩ := h
    simp only [Nat.zero_add] at h1 h2
    exact Or.inr ⟨h1, h2, h3⟩

example : Layout 0 exOut.insts := opt_out_layout ex_ok
example : ∃ y, fetch exOut.insts 0 = some y ∧ y.args = [7] := by
  obtain ⟨y, h1, _, _, _, _, h2⟩ :=
    opt_out_instr ex_ok ex_layout (x := ⟨0, opJumpFalsy, [13]⟩) (n := 0) (by decide) (by decide)
  obtain ⟨t, ht, h3⟩ := h2 (by decide)
  cases ht
  rcases h3 with ⟨m, hm, _⟩ | ⟨_, _, h4, _⟩
  · have hn : newPos ex 13 = none := by decide
    rw [hn] at hm; cases hm
  · exact ⟨y, h1, h4⟩

/-! ## 3. Simulation: same behaviour for every data semantics -/

/-- input configuration ~ output configuration: same data state, and the input is at a kept
instruction whose image is the output position, or the input is at its end and the output at the
appended RETURN; or both have halted with the same result. Never `stuck`. -/
def Sim {σ ρ : Type} (is : List Instr) (r : Result) : Cfg σ ρ → Cfg σ ρ → Prop
  | .running p s, .running q s' => s = s' ∧
      (newPos is p = some q ∨ (p = totalSize is ∧ q = newEnd is ∧ r.appended = true))
  | .halted v, .halted v' => v = v'
  | _, _ => False

theorem sim_of_rel {σ ρ : Type} {is : List Instr} {r : Result} (hl : Layout 0 is) {c c' : Cfg σ ρ}
    (h : Rel is r c c') : Sim is r c c' := by
  cases h with
  | «at» x n s hxn => exact ⟨rfl, Or.inl (lookup_posMap_eq (kept_pairwise hl) hxn)⟩
  | atEnd s ha => exact ⟨rfl, Or.inr ⟨rfl, rfl, ha⟩⟩
  | halted v => exact rfl

/-- **opt_simulates.** For every machine `M` (any data semantics that reads only opcode, non-jump
operands and state), every start state and every number of steps, the run of the input (whose end
behaves as `RET 0`) and the run of the optimizer's output (whose end would be `stuck`) are in
lock-step under `Sim`. -/
theorem opt_simulates {σ ρ : Type} (M : Machine σ ρ) {is : List Instr} {endPos : Nat}
    {sm : List (Nat × Nat)} {rp : Nat} {r : Result} (h : optInstrs is endPos sm rp = .ok r)
    (hl : Layout 0 is) (he : endPos = totalSize is) (hw : WFJumps is endPos) (ho : OneOperand is)
    (s : σ) (n : Nat) :
    Sim is r (runN M is (some endPos) n (.running 0 s)) (runN M r.insts none n (.running 0 s)) :=
  have hs := optInstrs_ok h
  sim_of_rel hl (rel_runN M hs hl he hw ho n (rel_init hs hl s))

theorem obs_of_sim {σ ρ : Type} {is : List Instr} {r : Result} {c c' : Cfg σ ρ} (h : Sim is r c c') :
    c.obs = c'.obs ∧ c'.obs ≠ .stuck := by
  cases c <;> cases c' <;> simp only [Sim] at h <;> simp [Cfg.obs, h]

/-- **opt_same_outcome.** After any number of steps both runs are still running with the same data
state, or both have halted with the same result (same globals, same error); neither is ever stuck. -/
theorem opt_same_outcome {σ ρ : Type} (M : Machine σ ρ) {is : List Instr} {endPos : Nat}
    {sm : List (Nat × Nat)} {rp : Nat} {r : Result} (h : optInstrs is endPos sm rp = .ok r)
    (hl : Layout 0 is) (he : endPos = totalSize is) (hw : WFJumps is endPos) (ho : OneOperand is)
    (s : σ) (n : Nat) :
    (runN M is (some endPos) n (.running 0 s)).obs = (runN M r.insts none n (.running 0 s)).obs ∧
    (runN M r.insts none n (.running 0 s)).obs ≠ .stuck :=
  obs_of_sim (opt_simulates M h hl he hw ho s n)

/-- **opt_bytes_same_outcome.** The same for `opt` on bytes: decodability and well-formed jumps are
the only hypotheses (layout, size and operand count follow from `decode`). -/
theorem opt_bytes_same_outcome {σ ρ : Type} (M : Machine σ ρ) {bs : Bytes} {is : List Instr}
    {sm : List (Nat × Nat)} {rp : Nat} (hd : decode bs = some is) (hw : WFJumps is bs.length)
    (s : σ) (n : Nat) :
    ∃ r, opt bs sm rp = .ok r ∧
      (runN M is (some bs.length) n (.running 0 s)).obs = (runN M r.insts none n (.running 0 s)).obs ∧
      (runN M r.insts none n (.running 0 s)).obs ≠ .stuck := by
  obtain ⟨r, hr⟩ := opt_total is bs.length sm rp hw
  obtain ⟨hl, hsz, ho⟩ := decode_layout hd
  refine ⟨r, by simp [opt, hd, hr], opt_same_outcome M hr hl hsz.symm hw ho s n⟩

example : decode [9, 0, 0, 0, 13, 21, 1, 13, 12, 0, 0, 0, 0] = some ex ∧
    WFJumps ex ([9, 0, 0, 0, 13, 21, 1, 13, 12, 0, 0, 0, 0] : Bytes).length := ⟨by decide, ex_wf⟩

/-- A toy data semantics for the examples: the state is the condition JMPF tests, RETURN yields its
operand. -/
def toy : Machine Bool Nat :=
  { step := fun op _ s => .cont s (op == opJumpFalsy && !s), ret := fun args _ => args.headD 0 }

example (s : Bool) (n : Nat) :
    (runN toy ex (some 13) n (.running 0 s)).obs = (runN toy exOut.insts none n (.running 0 s)).obs ∧
    (runN toy exOut.insts none n (.running 0 s)).obs ≠ .stuck :=
  opt_same_outcome toy ex_ok ex_layout ex_end ex_wf ex_one s n

/-- The example runs are not trivial: with a true condition both return 1, with a false one the
input runs off its end (= `RET 0`) and the output executes the appended `RET 0`. -/
example : (runN toy ex (some 13) 2 (.running 0 true)).obs = .halted 1 ∧
    (runN toy exOut.insts none 2 (.running 0 true)).obs = .halted 1 ∧
    (runN toy ex (some 13) 2 (.running 0 false)).obs = .halted 0 ∧
    (runN toy ex (some 13) 1 (.running 0 false)).obs = .running false ∧
    (runN toy exOut.insts none 2 (.running 0 false)).obs = .halted 0 := ⟨rfl, rfl, rfl, rfl, rfl⟩

/-! ## 4. Source positions -/

/-- **opt_srcpos.** If the input source map is functional, a kept instruction keeps its source
position: `(p, s) ∈ srcMap` and `posMap p = n` give `srcMap' n = s`. -/
theorem opt_srcpos {is : List Instr} {endPos : Nat} {sm : List (Nat × Nat)} {rp : Nat} {r : Result}
    (h : optInstrs is endPos sm rp = .ok r) (hl : Layout 0 is)
    (hf : ∀ p s s', (p, s) ∈ sm → (p, s') ∈ sm → s = s')
    {p s n : Nat} (hps : (p, s) ∈ sm) (hn : newPos is p = some n) : r.srcMap.lookup n = some s := by
  have hs := optInstrs_ok h
  rw [hs.srcMap]
  apply sortMap_lookup
  · exact List.mem_append_left _ (mem_smKept.mpr ⟨p, hps, hn⟩)
  · intro q hq hk
    rcases List.mem_append.mp hq with hq | hq
    · obtain ⟨q1, q2⟩ := q
      obtain ⟨p', hp', hn'⟩ := mem_smKept.mp hq
      simp only at hk; subst hk
      have : p = p' := posmap_inj hl hn hn'
      subst this
      rw [hf p s q2 hps hp']
    · cases ha : r.appended with
      | false => simp [ha] at hq
      | true =>
        simp only [ha, if_true, List.mem_singleton] at hq
        subst hq
        simp only at hk
        obtain ⟨x, _, _, _, hle⟩ := posmap_dom hn
        have := size_pos x
        simp only [newEnd] at hle
        omega

/-- **opt_srcpos_eq.** Same, as an equation of lookups: whatever the input source map says (or does
not say) about a kept position, the output source map says about its image. -/
theorem opt_srcpos_eq {is : List Instr} {endPos : Nat} {sm : List (Nat × Nat)} {rp : Nat} {r : Result}
    (h : optInstrs is endPos sm rp = .ok r) (hl : Layout 0 is)
    (hf : ∀ p s s', (p, s) ∈ sm → (p, s') ∈ sm → s = s')
    {p n : Nat} (hn : newPos is p = some n) : r.srcMap.lookup n = sm.lookup p := by
  cases hp : sm.lookup p with
  | some s => exact opt_srcpos h hl hf (lookup_some_mem hp) hn
  | none =>
    have hs := optInstrs_ok h
    cases hq : r.srcMap.lookup n with
    | none => rfl
    | some s =>
      exfalso
      have hm := lookup_some_mem hq
      rw [hs.srcMap] at hm
      rcases List.mem_append.mp (mem_sortMap hm) with hm | hm
      · obtain ⟨p', hp', hn'⟩ := mem_smKept.mp hm
        have : p = p' := posmap_inj hl hn hn'
        subst this
        obtain ⟨s', hs'⟩ := lookup_some_of_mem hp'
        rw [hp] at hs'; cases hs'
      · cases ha : r.appended with
        | false => simp [ha] at hm
        | true =>
          simp only [ha, if_true, List.mem_singleton, Prod.mk.injEq] at hm
          obtain ⟨x, _, _, _, hle⟩ := posmap_dom hn
          have := size_pos x
          simp only [newEnd] at hle
          omega

/-- **opt_srcpos_ret.** The appended RETURN gets `retPos`. -/
theorem opt_srcpos_ret {is : List Instr} {endPos : Nat} {sm : List (Nat × Nat)} {rp : Nat} {r : Result}
    (h : optInstrs is endPos sm rp = .ok r) (ha : r.appended = true) :
    r.srcMap.lookup (newEnd is) = some rp := by
  have hs := optInstrs_ok h
  rw [hs.srcMap, ha]
  apply sortMap_lookup
  · simp
  · intro q hq hk
    rcases List.mem_append.mp hq with hq | hq
    · obtain ⟨q1, q2⟩ := q
      obtain ⟨p', _, hn'⟩ := mem_smKept.mp hq
      obtain ⟨x, _, _, _, hle⟩ := posmap_dom hn'
      have := size_pos x
      simp only [newEnd] at hle hk
      omega
    · simp only [if_true, List.mem_singleton] at hq; exact hq.symm

/-- **opt_srcpos_total.** If every input instruction start has a source-map entry, so has every
output instruction start. -/
theorem opt_srcpos_total {is : List Instr} {endPos : Nat} {sm : List (Nat × Nat)} {rp : Nat} {r : Result}
    (h : optInstrs is endPos sm rp = .ok r) (hl : Layout 0 is)
    (hall : ∀ x ∈ is, ∃ s, (x.pos, s) ∈ sm) {y : Instr} (hy : y ∈ r.insts) :
    ∃ s, r.srcMap.lookup y.pos = some s := by
  have hs := optInstrs_ok h
  rcases opt_out_only h hl hy with ⟨x, hx, hn, _⟩ | ⟨ha, rfl⟩
  · obtain ⟨s, hxs⟩ := hall x hx
    rw [hs.srcMap]
    exact sortMap_key (v := s) (List.mem_append_left _ (mem_smKept.mpr ⟨x.pos, hxs, hn⟩))
  · exact ⟨rp, opt_srcpos_ret h ha⟩

/-- **opt_same_position.** In the lock-step runs the current instructions always carry the same
source position (so an error raised by either is reported at the same place). -/
theorem opt_same_position {σ ρ : Type} (M : Machine σ ρ) {is : List Instr} {endPos : Nat}
    {sm : List (Nat × Nat)} {rp : Nat} {r : Result} (h : optInstrs is endPos sm rp = .ok r)
    (hl : Layout 0 is) (he : endPos = totalSize is) (hw : WFJumps is endPos) (ho : OneOperand is)
    (hf : ∀ p s s', (p, s) ∈ sm → (p, s') ∈ sm → s = s')
    (s : σ) (n p : Nat) (s' : σ) (hrun : runN M is (some endPos) n (.running 0 s) = .running p s')
    (hp : p ≠ endPos) :
    ∃ q, runN M r.insts none n (.running 0 s) = .running q s' ∧ r.srcMap.lookup q = sm.lookup p := by
  have hsim := opt_simulates M h hl he hw ho s n
  rw [hrun] at hsim
  cases hc : runN M r.insts none n (.running 0 s) with
  | running q s'' =>
    rw [hc] at hsim
    obtain ⟨rfl, hq | ⟨hpe, _, _⟩⟩ := hsim
    · exact ⟨q, rfl, opt_srcpos_eq h hl hf hq⟩
    · exact absurd (hpe.trans he.symm) hp
  | halted v => rw [hc] at hsim; exact hsim.elim
  | stuck => rw [hc] at hsim; exact hsim.elim

example : exOut.srcMap.lookup 5 = some 101 :=
  opt_srcpos ex_ok ex_layout ex_sm_functional (p := 5) (by decide) (by decide)
example : exOut.srcMap.lookup 7 = some 99 := opt_srcpos_ret ex_ok rfl
example : ∀ x ∈ ex, ∃ s, (x.pos, s) ∈ exSm := by
  intro x hx
  simp only [ex, List.mem_cons, List.not_mem_nil, or_false] at hx
  rcases hx with rfl | rfl | rfl | rfl
  · exact ⟨100, by decide⟩
  · exact ⟨101, by decide⟩
  · exact ⟨102, by decide⟩
  · exact ⟨103, by decide⟩
example : runN toy ex (some 13) 1 (.running 0 true) = .running 5 true ∧ 5 ≠ 13 := ⟨rfl, by decide⟩

/-! ## 5. Every path ends in RETURN -/

theorem getLast_layout {x : Instr} : ∀ {k : List Instr} (start : Nat), k.getLast? = some x →
    ∃ n, (layout start k).getLast? = some (x, n) := by
  intro k
  induction k with
  | nil => intro _ h; simp at h
  | cons a k ih =>
    intro start h
    cases k with
    | nil => simp at h; subst h; exact ⟨start, by simp [layout]⟩
    | cons b k =>
      rw [List.getLast?_cons_cons] at h
      obtain ⟨n, hn⟩ := ih (start + a.size) h
      exact ⟨n, by simp only [layout] at hn ⊢; rw [List.getLast?_cons_cons]; exact hn⟩

/-- **opt_ends_in_return.** The output is never empty, its last instruction is RETURN, and every
jump in it has exactly one operand, which is the start of an output instruction (so no jump leaves
the code, and the only way out is a RETURN). -/
theorem opt_ends_in_return {is : List Instr} {endPos : Nat} {sm : List (Nat × Nat)} {rp : Nat} {r : Result}
    (h : optInstrs is endPos sm rp = .ok r) :
    (∃ y, r.insts.getLast? = some y ∧ y.op = opReturn) ∧
    (∀ y ∈ r.insts, isJump y.op = true → ∃ t, y.args = [t] ∧ ∃ z ∈ r.insts, z.pos = t) := by
  have hs := optInstrs_ok h
  constructor
  · cases ha : r.appended with
    | true => exact ⟨retInstr (newEnd is), by rw [hs.insts, ha]; simp, rfl⟩
    | false =>
      obtain ⟨x, hx, hr⟩ := hs.no_app ha
      obtain ⟨n, hn⟩ := getLast_layout 0 hx
      refine ⟨rt (posMap (kept is)) (newEnd is) x n, ?_, by simp [hr]⟩
      rw [hs.insts, ha]
      simp [List.getLast?_map, hn]
  · intro y hy hj
    rw [hs.insts] at hy
    rcases List.mem_append.mp hy with hy | hy
    · obtain ⟨⟨x, n⟩, hxn, rfl⟩ := List.mem_map.mp hy
      simp only [rt_op] at hj
      obtain ⟨t, ht, _⟩ := hs.jumps (x, n) hxn hj
      refine ⟨_, rt_args_jump hj ht, ?_⟩
      cases hm : (posMap (kept is)).lookup t with
      | some m =>
        obtain ⟨z, hz, _⟩ := lookup_posMap_some hm
        exact ⟨_, out_mem hs hz, by simp [tgt, hm]⟩
      | none =>
        have ha := hs.app_jump (x, n) hxn t hj ht hm
        exact ⟨retInstr (newEnd is), by rw [hs.insts, ha]; simp, by simp [tgt, hm, retInstr]⟩
    · cases ha : r.appended with
      | false => simp [ha] at hy
      | true =>
        simp only [ha, if_true, List.mem_singleton] at hy
        subst hy; cases hj

example : exOut.insts.getLast? = some ⟨7, opReturn, [0]⟩ := rfl

end Tengo.Props.C03Sim

import Tengo.Props.C01F3Spec
import Tengo.Proofs.C01BridgeF3ConvRun
import Tengo.Proofs.C01BridgeF3ConvFwdRun
import Tengo.Proofs.C01BridgeF3ConvMono
import Tengo.Proofs.C01BridgeF3ConvScoped
import Tengo.Proofs.C01ConverseVM
import Tengo.Proofs.C01BridgeF3ConvVM
/-!
C01 on fragment F3 (first-order functions): **the CONVERSE for the reference interpreter, and the forward direction
without the fuel bound.**

`Props/C01F3Spec` proves: `F3.exec` terminates with fuel `f ≤ 1800` ⇒ `Spec.runProgram` (fuel `≥ 4 f`) and `VM.run` on
the compiled code agree with it. Here:

* `exec_fuel_mono`: fuel monotonicity of `F3.exec` (a result other than `out` is the result with every larger fuel;
  determinism is trivial, `F3.exec` is a function).
* `runProgram_trichotomy3`: with EVERY fuel `F`, `Spec.runProgram` on the embedded program answers `fuel`, or
  `excluded`, or — for every evaluator fuel `f ≥ F` — `F3.exec` is not `out` and the interpreter's answer is the
  related one. Proof: a second simulation by induction on the INTERPRETER's fuel (`all_conv3`,
  Proofs/C01BridgeF3Conv*.lean); no bound on fuel or call depth is needed because a call at depth 900 is itself
  "no answer".
* `runProgram_converse3`: an `ok` answer of the interpreter forces `F3.exec` to finish — with the interpreter's fuel
  and every larger one, the SAME globals `g'` — and the answer lists the slot names with values `ValRel`-related to
  `g'`; an answer that is neither `ok` nor `fuel` nor `excluded` forces `F3.exec` to report a run-time error.
* `spec_agrees_fragment3_nobound`: the forward theorem `spec_agrees_fragment3` WITHOUT `f ≤ 1800`: if `F3.exec`
  finishes with ANY fuel `f`, the interpreter with every fuel `F ≥ 4 f` answers `excluded` (it refuses call depth
  900) or `ok` with related globals — never fuel exhaustion, never an error. This is the weakest honest form of the
  bound: the only trace left of the depth limit is the interpreter's own `excluded` verdict.
* `reference_and_vm_agree_fragment3_full_partial`: stated with `Spec.runProgram`, `Compiler.compileFile`, `VM.run`
  (and the hypothesis `WithinVM` of the forward theorems): (1) interpreter `ok` ⇒ `VM.run` on the code really emitted
  halts with related globals, for every sufficient fuel; (2) interpreter run-time error ⇒ `VM.run` fails;
  (3) `VM.run` halted ⇒ every answer of the interpreter (any fuel, any heap) is `fuel`, `excluded`, or `ok` with
  globals related to the VM's; (4) `VM.run` failed ⇒ the interpreter never answers `ok`.
  PARTIAL only in that (3)/(4) do not say that the interpreter answers eventually; that is in the next theorem.
* `vm_converse3`, `reference_and_vm_agree_fragment3_full`: the VM side of the converse. If `F3.exec` runs out of
  every fuel, the fragment's machine is still running after any number of dispatches (`F3.program_diverges_F3`,
  Proofs/C01BridgeF3ConvDiv*.lean: an `out` with fuel `f` keeps the machine alive for `j` dispatches whenever
  `j·K + nesting height ≤ f`, `K` = 2 + the largest body height), hence `VM.run` on the emitted code is `outOfFuel` with
  every fuel (`vm_diverges3`; `WithinVM` covers the infinite run and so excludes unbounded recursion, where the real VM
  fails with a frame-limit error). So `VM.run` halting / failing forces `F3.exec` to terminate, and the full headline
  holds in both directions: (3) halted ⇒ for every sufficient fuel the interpreter answers `excluded` or `ok` with
  globals related to the VM's; (4) failed ⇒ for every sufficient fuel the outcome of an error other than fuel;
  (5) `VM.run` never ends in `fault` or `limit`.
-/
set_option linter.unusedVariables false
namespace Tengo.Props.C01F3Converse
open Tengo.Model Tengo.Model.F3
open Tengo.Model.Spec (Value GSt Err)
open Tengo.Model.VM (Core Code Cfg Log FnObj)
open Tengo.Proofs.C01BridgeF3 (DataRel GlobRel3 FV val3_cases)
open Tengo.Proofs.C01BridgeF3Comp (NamesOK toAstProg budMain nlitsMain)
open Tengo.Proofs.C01Bridge (inputsOf Scalar errOutcome)
open Tengo.Proofs.C02Compile (toCodeR toCode)
open Tengo.Proofs.C01F3Opt
open Tengo.Proofs.C01BridgeF3Spec (ValRel inputs3)
open Tengo.Proofs.C01BridgeF3Conv (ProgRel runProgram_tri3 runProgram_fragment3_nobound exec_mono scoped_of_srcOk
  scoped_envOf)
open Tengo.Props.C01F3Bridge (WithinVM)
open Tengo.Props.C01F3Spec (csOf_value)

/-- **Fuel monotonicity of `F3.exec`.** -/
theorem exec_fuel_mono {V : Type} (E : Env V) (P : Prog) {f f' : Nat} (hf : f ≤ f') (g : Nat → V)
    (h : F3.exec E P f g ≠ .out) : F3.exec E P f' g = F3.exec E P f g :=
  exec_mono hf g h

/-- **The interpreter against `F3.exec`, every fuel of the interpreter** (see the module text; `ProgRel`: `done g'` —
the answer is `ok gs st` with the slot names and `ValRel`-related values; `err` — the outcome of an error other than
fuel; `out` — impossible; `bad` — no claim). -/
theorem runProgram_trichotomy3 {V : Type} (E : Env V) (val : V → Value) (refs : Nat → Nat)
    (names lnames : Nat → String) (ctab : Nat → F0.Const) (n : Nat) (P : Prog)
    (hN : NamesOK names lnames n) (hb : ∀ i, lnames i ∉ Spec.builtinNames)
    (hs : SrcOk P n) (hbud : budMain P P.main ≤ 4000)
    (hD : DataRel E.S val) (hE : EnvOk P ctab E val refs)
    (hvals : ∀ v, Scalar (val v) = true ∨ ∃ r, val v = .cfn r)
    (hcs : ∀ k, P.fns k = none → val (E.cs k) = F0.constValue (ctab k))
    (F : Nat) (g : Nat → V) (hg0 : ∀ i, i < n → Scalar (val (g i)) = true) (initHeap : Spec.St) :
    Spec.runProgram F (inputs3 names val n g) initHeap (toAstProg names lnames ctab P) = .fuel ∨
    (∃ why, Spec.runProgram F (inputs3 names val n g) initHeap (toAstProg names lnames ctab P) = .excluded why) ∨
    ∀ f, F ≤ f →
      ProgRel E val P names lnames ctab n
        (Spec.runProgram F (inputs3 names val n g) initHeap (toAstProg names lnames ctab P)) (F3.exec E P f g) :=
  runProgram_tri3 E val refs names lnames ctab n P hN hb hs hbud hD hE hvals hcs F g hg0 initHeap

theorem errOutcome_ne_ok (e : Err) (gs : List (String × Value)) (st : Spec.St) : errOutcome e ≠ .ok gs st := by
  cases e <;> intro h <;> cases h

/-- **Converse of `spec_agrees_fragment3`.** Hypotheses of `spec_agrees_fragment3` without any fuel bound, plus:
callable values denote function constants of the program (`Scoped.closed`). For every fuel `F` of the interpreter and
every initial heap:
1. if `Spec.runProgram` answers `ok gs st`, there are globals `g'` with `F3.exec E P f g = done g'` for EVERY `f ≥ F`,
   `gs` lists exactly the slot names, and the value of slot `i` is `ValRel`-related to `g' i`;
2. if it answers anything that is not `ok`, not `fuel`, not `excluded`, then `F3.exec E P f g = err` for every
   `f ≥ F`. -/
theorem runProgram_converse3 {V : Type} (E : Env V) (val : V → Value) (refs : Nat → Nat)
    (names lnames : Nat → String) (ctab : Nat → F0.Const) (n : Nat) (P : Prog)
    (hN : NamesOK names lnames n) (hb : ∀ i, lnames i ∉ Spec.builtinNames)
    (hs : SrcOk P n) (hbud : budMain P P.main ≤ 4000)
    (hD : DataRel E.S val) (hE : EnvOk P ctab E val refs)
    (hvals : ∀ v, Scalar (val v) = true ∨ ∃ r, val v = .cfn r)
    (hcs : ∀ k, P.fns k = none → val (E.cs k) = F0.constValue (ctab k))
    (hcl : ∀ v k, E.asFn v = some k → ∃ fd, P.fns k = some fd)
    (F : Nat) (g : Nat → V) (hg0 : ∀ i, i < n → Scalar (val (g i)) = true) (initHeap : Spec.St) :
    (∀ gs st, Spec.runProgram F (inputs3 names val n g) initHeap (toAstProg names lnames ctab P) = .ok gs st →
      ∃ g', (∀ f, F ≤ f → F3.exec E P f g = .done g') ∧
        gs.map Prod.fst = (List.range n).map names ∧
        ∀ i, i < n → ∃ w, gs[i]? = some (names i, w) ∧ ValRel E val P names lnames ctab st (g' i) w) ∧
    ((∀ gs st, Spec.runProgram F (inputs3 names val n g) initHeap (toAstProg names lnames ctab P) ≠ .ok gs st) →
      Spec.runProgram F (inputs3 names val n g) initHeap (toAstProg names lnames ctab P) ≠ .fuel →
      (∀ why, Spec.runProgram F (inputs3 names val n g) initHeap (toAstProg names lnames ctab P) ≠ .excluded why) →
      ∀ f, F ≤ f → F3.exec E P f g = .err) := by
  have hSc : Scoped E P := scoped_of_srcOk E hs hcl
  have htri := runProgram_tri3 E val refs names lnames ctab n P hN hb hs hbud hD hE hvals hcs F g hg0 initHeap
  constructor
  · intro gs st hrun
    rcases htri with h | ⟨why, h⟩ | h
    · rw [hrun] at h; cases h
    · rw [hrun] at h; cases h
    · have hF := h F (Nat.le_refl F)
      rw [hrun] at hF
      cases hex : F3.exec E P F g with
      | done g' =>
        rw [hex] at hF
        obtain ⟨gs', st', heq, hfst, hall⟩ := hF
        injection heq with h1 h2
        subst h1 h2
        refine ⟨g', fun f hf => ?_, hfst, hall⟩
        rw [exec_mono hf g (by rw [hex]; intro h; cases h), hex]
      | err =>
        rw [hex] at hF
        obtain ⟨err, _, heq⟩ := hF
        exact absurd heq.symm (errOutcome_ne_ok err gs st)
      | out => rw [hex] at hF; exact hF.elim
      | bad => exact absurd hex (F3.exec_not_bad hSc F g)
  · intro hnok hnf hnx f hf
    rcases htri with h | ⟨why, h⟩ | h
    · exact absurd h hnf
    · exact absurd h (hnx why)
    · have hF := h f hf
      cases hex : F3.exec E P f g with
      | done g' =>
        rw [hex] at hF
        obtain ⟨gs', st', heq, _⟩ := hF
        exact absurd heq (hnok gs' st')
      | err => rfl
      | out => rw [hex] at hF; exact hF.elim
      | bad => exact absurd hex (F3.exec_not_bad hSc f g)

/-- **`spec_agrees_fragment3` without the bound `f ≤ 1800`** (see the module text). -/
theorem spec_agrees_fragment3_nobound {V : Type} (E : Env V) (val : V → Value) (refs : Nat → Nat)
    (names lnames : Nat → String) (ctab : Nat → F0.Const) (n : Nat) (P : Prog)
    (hN : NamesOK names lnames n) (hb : ∀ i, lnames i ∉ Spec.builtinNames)
    (hs : SrcOk P n) (hbud : budMain P P.main ≤ 4000)
    (hD : DataRel E.S val) (hE : EnvOk P ctab E val refs)
    (hvals : ∀ v, Scalar (val v) = true ∨ ∃ r, val v = .cfn r)
    (hcs : ∀ k, P.fns k = none → val (E.cs k) = F0.constValue (ctab k))
    (f F : Nat) (hF : 4 * f ≤ F) (g : Nat → V) (hg0 : ∀ i, i < n → Scalar (val (g i)) = true)
    (initHeap : Spec.St) :
    (∀ g', F3.exec E P f g = .done g' →
      (∃ why, Spec.runProgram F (inputs3 names val n g) initHeap (toAstProg names lnames ctab P) = .excluded why) ∨
      ∃ gs st, Spec.runProgram F (inputs3 names val n g) initHeap (toAstProg names lnames ctab P) = .ok gs st ∧
        gs.map Prod.fst = (List.range n).map names ∧
        ∀ i, i < n → ∃ w, gs[i]? = some (names i, w) ∧ ValRel E val P names lnames ctab st (g' i) w) ∧
    (F3.exec E P f g = .err →
      ∃ err, err ≠ Err.fuel ∧
        Spec.runProgram F (inputs3 names val n g) initHeap (toAstProg names lnames ctab P) = errOutcome err) :=
  runProgram_fragment3_nobound E val refs names lnames ctab n P hN hb hs hbud hD hE hvals hcs f F hF g hg0 initHeap

/-- **`reference_and_vm_agree_fragment3` without the bound `f ≤ 1800`.** With `F3.exec` as the termination witness,
ANY fuel `f`: if `F3.exec` finishes with `g'`, then `Spec.runProgram` (every fuel `F ≥ 4 f`, every initial heap)
answers `excluded` or `ok` with the slot names and values `ValRel`-related to `g'`, AND `VM.run` on the code really
emitted halts with an empty stack and globals `g'`; if `F3.exec` ends in a run-time error, `runProgram` reports an
error outcome other than fuel and `VM.run` ends `failed` with an error other than fuel. -/
theorem reference_and_vm_agree_fragment3_nobound (names lnames : Nat → String) (ctab : Nat → F0.Const) (n : Nat)
    (P : Prog) (hN : NamesOK names lnames n) (hb : ∀ i, lnames i ∉ Spec.builtinNames)
    (hs : SrcOk P n) (hbud : budMain P P.main ≤ 4000) :
    ∃ bc, Compiler.compileFile (toAstProg names lnames ctab P) (inputsOf names n) = .ok bc ∧
      ∃ refs : Nat → Nat, (VM.initFobjs (toCode bc)).1 = toCodeR refs bc ∧
        ∀ (f : Nat) (g : Nat → FVOf P refs) (globals : Array Value), globals.size = n →
          (∀ i, i < n → globals.getD i .undef = (g i).1) → (∀ i, i < n → Scalar (g i).1 = true) →
          WithinVM (envOf P ctab refs) (compProg P) (St.init (fun _ => (envOf P ctab refs).S.undef) g) →
          ∀ (keep : Nat) (allocs : Int), allocs ≤ 0 → ∀ (gst : GSt) (heap : Spec.St),
            (∀ g', F3.exec (envOf P ctab refs) P f g = .done g' →
              (∀ F initHeap, 4 * f ≤ F →
                (∃ why, Spec.runProgram F (inputs3 names Subtype.val n g) initHeap
                    (toAstProg names lnames ctab P) = .excluded why) ∨
                ∃ gs st, Spec.runProgram F (inputs3 names Subtype.val n g) initHeap
                    (toAstProg names lnames ctab P) = .ok gs st ∧
                  gs.map Prod.fst = (List.range n).map names ∧
                  ∀ i, i < n → ∃ w, gs[i]? = some (names i, w) ∧
                    ValRel (envOf P ctab refs) Subtype.val P names lnames ctab st (g' i) w) ∧
              ∃ (c' : Core) (m : Nat), GlobRel3 n Subtype.val g' c'.regs.globals ∧ c'.regs.sp = 0 ∧
                ∀ k, (VM.run (VM.initFobjs (toCode bc)).1 keep (m + 1 + k) allocs
                  ⟨VM.initCore globals (VM.initFobjs (toCode bc)).2, gst, heap⟩ {}).1 = .halted ⟨c', gst, heap⟩) ∧
            (F3.exec (envOf P ctab refs) P f g = .err →
              (∀ F initHeap, 4 * f ≤ F →
                ∃ err, err ≠ Err.fuel ∧ Spec.runProgram F (inputs3 names Subtype.val n g) initHeap
                  (toAstProg names lnames ctab P) = errOutcome err) ∧
              ∃ (e : Err) (at_ : Cfg) (m : Nat), e ≠ Err.fuel ∧
                ∀ k, (VM.run (VM.initFobjs (toCode bc)).1 keep (m + 1 + k) allocs
                  ⟨VM.initCore globals (VM.initFobjs (toCode bc)).2, gst, heap⟩ {}).1 = .failed e at_) := by
  have hbudC : budMain P P.main ≤ Compiler.fuel := by unfold Compiler.fuel; omega
  have hbc := Tengo.Props.C01F3Source.compileFile_srcOk names lnames ctab n P hN hb hs hbudC
  obtain ⟨refs, hinj, hcode, hobj⟩ := init_refs hs ctab
  refine ⟨bcOf P ctab n, hbc, refs, hcode, ?_⟩
  intro f g globals hgs hg hsc hW keep allocs ha gst heap
  have hEnv := envOk_env3 hs ctab refs hinj
  obtain ⟨bc', hbc', h1, h2⟩ := Tengo.Props.C01F3Source.source_to_vm_fragment3 (envOf P ctab refs) Subtype.val refs
    names lnames ctab n P hN hb hs hbudC (Tengo.Proofs.C01BridgeF3.dataRel3 _) hEnv f g globals
    (VM.initFobjs (toCode (bcOf P ctab n))).2 hgs hg hobj hW keep allocs ha gst heap
  rw [hbc] at hbc'
  injection hbc' with hbc'
  subst hbc'
  rw [hcode]
  have hspec := fun F initHeap (hF : 4 * f ≤ F) =>
    spec_agrees_fragment3_nobound (envOf P ctab refs) Subtype.val refs names lnames ctab n P hN hb hs hbud
      (Tengo.Proofs.C01BridgeF3.dataRel3 _) hEnv (fun v => val3_cases v.2)
      (fun k hk => csOf_value P ctab _ refs k hk) f F hF g hsc initHeap
  exact ⟨fun g' hg' => ⟨fun F initHeap hF => (hspec F initHeap hF).1 g' hg', h1 g' hg'⟩,
    fun he => ⟨fun F initHeap hF => (hspec F initHeap hF).2 he, h2 he⟩⟩

/-- **Reference interpreter and compile-and-run on fragment F3 without the evaluator as a witness — the directions
that start from the interpreter, and consistency in the other direction** (PARTIAL: see the module text).
For every `SrcOk` program within the budgets and every admissible naming, `Compiler.compileFile` compiles the embedded
program to some `bc`; for scalar initial globals and a run within the VM's fixed sizes (`WithinVM`):
1. `Spec.runProgram` (any fuel `F`, any initial heap) answers `ok gs st` ⇒ `VM.run` on `bc`'s code halts, for every
   sufficient fuel, with an empty stack, heap and declaration table untouched, and there are globals `g'` such that
   `gs` lists the slot names with values `ValRel`-related to `g'` and the VM's globals array holds `g'` (`GlobRel3`);
2. `Spec.runProgram` answers neither `ok` nor `fuel` nor `excluded` ⇒ `VM.run` ends `failed` with an error other
   than fuel, for every sufficient fuel;
3. `VM.run` with some fuel answers `halted cfg` ⇒ `cfg` has an empty stack and the heap/table it started with, and
   EVERY answer of the interpreter (any fuel, any heap) is `fuel`, `excluded`, or `ok gs st` with `gs` related (through
   some `g'`) to `cfg`'s globals;
4. `VM.run` with some fuel answers `failed e at_` ⇒ every answer of the interpreter is `fuel`, `excluded`, or the
   outcome of an error (never `ok`). -/
theorem reference_and_vm_agree_fragment3_full_partial (names lnames : Nat → String) (ctab : Nat → F0.Const) (n : Nat)
    (P : Prog) (hN : NamesOK names lnames n) (hb : ∀ i, lnames i ∉ Spec.builtinNames)
    (hs : SrcOk P n) (hbud : budMain P P.main ≤ 4000) :
    ∃ bc, Compiler.compileFile (toAstProg names lnames ctab P) (inputsOf names n) = .ok bc ∧
      ∃ refs : Nat → Nat, (VM.initFobjs (toCode bc)).1 = toCodeR refs bc ∧
        ∀ (g : Nat → FVOf P refs) (globals : Array Value), globals.size = n →
          (∀ i, i < n → globals.getD i .undef = (g i).1) → (∀ i, i < n → Scalar (g i).1 = true) →
          WithinVM (envOf P ctab refs) (compProg P) (St.init (fun _ => (envOf P ctab refs).S.undef) g) →
          ∀ (keep : Nat) (allocs : Int), allocs ≤ 0 → ∀ (gst : GSt) (heap : Spec.St),
            (∀ F initHeap gs st,
              Spec.runProgram F (inputs3 names Subtype.val n g) initHeap (toAstProg names lnames ctab P) = .ok gs st →
              ∃ (g' : Nat → FVOf P refs) (c' : Core) (m : Nat),
                gs.map Prod.fst = (List.range n).map names ∧
                (∀ i, i < n → ∃ w, gs[i]? = some (names i, w) ∧
                  ValRel (envOf P ctab refs) Subtype.val P names lnames ctab st (g' i) w) ∧
                GlobRel3 n Subtype.val g' c'.regs.globals ∧ c'.regs.sp = 0 ∧
                ∀ k, (VM.run (VM.initFobjs (toCode bc)).1 keep (m + 1 + k) allocs
                  ⟨VM.initCore globals (VM.initFobjs (toCode bc)).2, gst, heap⟩ {}).1 = .halted ⟨c', gst, heap⟩) ∧
            (∀ F initHeap,
              (∀ gs st, Spec.runProgram F (inputs3 names Subtype.val n g) initHeap
                (toAstProg names lnames ctab P) ≠ .ok gs st) →
              Spec.runProgram F (inputs3 names Subtype.val n g) initHeap (toAstProg names lnames ctab P) ≠ .fuel →
              (∀ why, Spec.runProgram F (inputs3 names Subtype.val n g) initHeap
                (toAstProg names lnames ctab P) ≠ .excluded why) →
              ∃ (e : Err) (at_ : Cfg) (m : Nat), e ≠ Err.fuel ∧
                ∀ k, (VM.run (VM.initFobjs (toCode bc)).1 keep (m + 1 + k) allocs
                  ⟨VM.initCore globals (VM.initFobjs (toCode bc)).2, gst, heap⟩ {}).1 = .failed e at_) ∧
            (∀ m cfg,
              (VM.run (VM.initFobjs (toCode bc)).1 keep m allocs
                ⟨VM.initCore globals (VM.initFobjs (toCode bc)).2, gst, heap⟩ {}).1 = .halted cfg →
              ∀ F initHeap,
                Spec.runProgram F (inputs3 names Subtype.val n g) initHeap (toAstProg names lnames ctab P) = .fuel ∨
                (∃ why, Spec.runProgram F (inputs3 names Subtype.val n g) initHeap
                  (toAstProg names lnames ctab P) = .excluded why) ∨
                ∃ (gs : List (String × Value)) (st : Spec.St) (g' : Nat → FVOf P refs),
                  Spec.runProgram F (inputs3 names Subtype.val n g) initHeap (toAstProg names lnames ctab P) =
                    .ok gs st ∧
                  gs.map Prod.fst = (List.range n).map names ∧
                  (∀ i, i < n → ∃ w, gs[i]? = some (names i, w) ∧
                    ValRel (envOf P ctab refs) Subtype.val P names lnames ctab st (g' i) w) ∧
                  GlobRel3 n Subtype.val g' cfg.core.regs.globals ∧ cfg.core.regs.sp = 0 ∧
                  cfg.gst = gst ∧ cfg.heap = heap) ∧
            (∀ m e at_,
              (VM.run (VM.initFobjs (toCode bc)).1 keep m allocs
                ⟨VM.initCore globals (VM.initFobjs (toCode bc)).2, gst, heap⟩ {}).1 = .failed e at_ →
              ∀ F initHeap,
                Spec.runProgram F (inputs3 names Subtype.val n g) initHeap (toAstProg names lnames ctab P) = .fuel ∨
                (∃ why, Spec.runProgram F (inputs3 names Subtype.val n g) initHeap
                  (toAstProg names lnames ctab P) = .excluded why) ∨
                ∃ err, err ≠ Err.fuel ∧
                  Spec.runProgram F (inputs3 names Subtype.val n g) initHeap (toAstProg names lnames ctab P) =
                    errOutcome err) := by
  have hbudC : budMain P P.main ≤ Compiler.fuel := by unfold Compiler.fuel; omega
  have hbc := Tengo.Props.C01F3Source.compileFile_srcOk names lnames ctab n P hN hb hs hbudC
  obtain ⟨refs, hinj, hcode, hobj⟩ := init_refs hs ctab
  refine ⟨bcOf P ctab n, hbc, refs, hcode, ?_⟩
  intro g globals hgs hg hsc hW keep allocs ha gst heap
  have hEnv := envOk_env3 hs ctab refs hinj
  have hSc : Scoped (envOf P ctab refs) P := scoped_envOf hs ctab refs
  -- the VM at evaluator fuel `f`
  have hvm : ∀ f,
      (∀ g', F3.exec (envOf P ctab refs) P f g = .done g' →
        ∃ (c' : Core) (m : Nat), GlobRel3 n Subtype.val g' c'.regs.globals ∧ c'.regs.sp = 0 ∧
          ∀ k, (VM.run (VM.initFobjs (toCode (bcOf P ctab n))).1 keep (m + 1 + k) allocs
            ⟨VM.initCore globals (VM.initFobjs (toCode (bcOf P ctab n))).2, gst, heap⟩ {}).1 =
              .halted ⟨c', gst, heap⟩) ∧
      (F3.exec (envOf P ctab refs) P f g = .err →
        ∃ (e : Err) (at_ : Cfg) (m : Nat), e ≠ Err.fuel ∧
          ∀ k, (VM.run (VM.initFobjs (toCode (bcOf P ctab n))).1 keep (m + 1 + k) allocs
            ⟨VM.initCore globals (VM.initFobjs (toCode (bcOf P ctab n))).2, gst, heap⟩ {}).1 = .failed e at_) := by
    intro f
    obtain ⟨bc', hbc', h1, h2⟩ := Tengo.Props.C01F3Source.source_to_vm_fragment3 (envOf P ctab refs) Subtype.val refs
      names lnames ctab n P hN hb hs hbudC (Tengo.Proofs.C01BridgeF3.dataRel3 _) hEnv f g globals
      (VM.initFobjs (toCode (bcOf P ctab n))).2 hgs hg hobj hW keep allocs ha gst heap
    rw [hbc] at hbc'
    injection hbc' with hbc'
    subst hbc'
    rw [hcode]
    exact ⟨h1, h2⟩
  -- the interpreter at its fuel `F`
  have htri := fun F initHeap =>
    runProgram_tri3 (envOf P ctab refs) Subtype.val refs names lnames ctab n P hN hb hs hbud
      (Tengo.Proofs.C01BridgeF3.dataRel3 _) hEnv (fun v => val3_cases v.2)
      (fun k hk => csOf_value P ctab _ refs k hk) F g hsc initHeap
  refine ⟨?_, ?_, ?_, ?_⟩
  · intro F initHeap gs st hrun
    rcases htri F initHeap with h | ⟨why, h⟩ | h
    · rw [hrun] at h; cases h
    · rw [hrun] at h; cases h
    · have hF := h F (Nat.le_refl F)
      rw [hrun] at hF
      cases hex : F3.exec (envOf P ctab refs) P F g with
      | done g' =>
        rw [hex] at hF
        obtain ⟨gs', st', heq, hfst, hall⟩ := hF
        injection heq with h1 h2
        subst h1 h2
        obtain ⟨c', m, hgl, hsp, hrunvm⟩ := (hvm F).1 g' hex
        exact ⟨g', c', m, hfst, hall, hgl, hsp, hrunvm⟩
      | err =>
        rw [hex] at hF
        obtain ⟨err, _, heq⟩ := hF
        exact absurd heq.symm (errOutcome_ne_ok err gs st)
      | out => rw [hex] at hF; exact hF.elim
      | bad => exact absurd hex (F3.exec_not_bad hSc F g)
  · intro F initHeap hnok hnf hnx
    rcases htri F initHeap with h | ⟨why, h⟩ | h
    · exact absurd h hnf
    · exact absurd h (hnx why)
    · have hF := h F (Nat.le_refl F)
      cases hex : F3.exec (envOf P ctab refs) P F g with
      | done g' =>
        rw [hex] at hF
        obtain ⟨gs', st', heq, _⟩ := hF
        exact absurd heq (hnok gs' st')
      | err => exact (hvm F).2 hex
      | out => rw [hex] at hF; exact hF.elim
      | bad => exact absurd hex (F3.exec_not_bad hSc F g)
  · intro m cfg hrun F initHeap
    rcases htri F initHeap with h | ⟨why, h⟩ | h
    · exact .inl h
    · exact .inr (.inl ⟨why, h⟩)
    · right; right
      have hF := h F (Nat.le_refl F)
      cases hex : F3.exec (envOf P ctab refs) P F g with
      | done g' =>
        rw [hex] at hF
        obtain ⟨gs, st, heq, hfst, hall⟩ := hF
        obtain ⟨c', m', hgl, hsp, hrunvm⟩ := (hvm F).1 g' hex
        have hrunvm' : ∀ k, (VM.run (VM.initFobjs (toCode (bcOf P ctab n))).1 keep (m' + 1 + k) allocs
            ⟨VM.initCore globals (VM.initFobjs (toCode (bcOf P ctab n))).2, gst, heap⟩ {}).1 =
              .halted ⟨c', gst, heap⟩ := hrunvm
        rcases Tengo.Proofs.C01Bridge.run_agree _ keep m (m' + 1) allocs _ {} _ hrunvm' with ⟨c, hc⟩ | hh
        · rw [hrun] at hc; cases hc
        · rw [hrun] at hh
          injection hh with hh
          subst hh
          exact ⟨gs, st, g', heq, hfst, hall, hgl, hsp, rfl, rfl⟩
      | err =>
        obtain ⟨e, at_, m', _, hrunvm⟩ := (hvm F).2 hex
        rcases Tengo.Proofs.C01Bridge.run_agree _ keep m (m' + 1) allocs _ {} _ hrunvm with ⟨c, hc⟩ | hh
        · rw [hrun] at hc; cases hc
        · rw [hrun] at hh; cases hh
      | out => rw [hex] at hF; exact hF.elim
      | bad => exact absurd hex (F3.exec_not_bad hSc F g)
  · intro m e at_ hrun F initHeap
    rcases htri F initHeap with h | ⟨why, h⟩ | h
    · exact .inl h
    · exact .inr (.inl ⟨why, h⟩)
    · right; right
      have hF := h F (Nat.le_refl F)
      cases hex : F3.exec (envOf P ctab refs) P F g with
      | done g' =>
        obtain ⟨c', m', hgl, hsp, hrunvm⟩ := (hvm F).1 g' hex
        rcases Tengo.Proofs.C01Bridge.run_agree _ keep m (m' + 1) allocs _ {} _ hrunvm with ⟨c, hc⟩ | hh
        · rw [hrun] at hc; cases hc
        · rw [hrun] at hh; cases hh
      | err => rw [hex] at hF; exact hF
      | out => rw [hex] at hF; exact hF.elim
      | bad => exact absurd hex (F3.exec_not_bad hSc F g)

/-- `F3.exec` over all fuels, for a statically checked program: it runs out of every fuel, or finishes with some
fuel, or reports an error with some fuel. -/
theorem exec_all_fuels {V : Type} (E : Env V) (P : Prog) (hSc : Scoped E P) (g : Nat → V) :
    (∀ f, F3.exec E P f g = .out) ∨ (∃ f g', F3.exec E P f g = .done g') ∨ (∃ f, F3.exec E P f g = .err) := by
  by_cases h : ∀ f, F3.exec E P f g = .out
  · exact .inl h
  · right
    have ⟨f, hf⟩ : ∃ f, F3.exec E P f g ≠ .out := Classical.not_forall.mp h
    rcases F3.exec_cases hSc f g with ⟨g', hd⟩ | he | ho
    · exact .inl ⟨f, g', hd⟩
    · exact .inr ⟨f, he⟩
    · exact absurd ho hf

/-- **Converse of `source_to_vm_fragment3`.** Setting of `source_to_vm_fragment3` (`bcOf P ctab n` is what
`Compiler.compileFile` emits, `compileFile_srcOk`), callable values denote function constants. If `VM.run` on the
emitted code answers anything but `outOfFuel` with some fuel, `F3.exec` terminates (finishes or reports an error) with
some fuel. Proof: if `F3.exec` runs out of every fuel the fragment's machine never stops (`F3.program_diverges_F3`:
every unit of fuel beyond the nesting height pays for a loop round or a call, each of which dispatches an
instruction), so `VM.run` is `outOfFuel` with every fuel (`vm_diverges3`). `WithinVM` speaks about every dispatch of the
run, finite or not: it excludes unbounded recursion, where the real VM ends in a frame-limit error. -/
theorem vm_converse3 {V : Type} (E : Env V) (val : V → Value) (refs : Nat → Nat) (ctab : Nat → F0.Const) (n : Nat)
    (P : Prog) (hs : SrcOk P n) (hD : DataRel E.S val) (hE : EnvOk P ctab E val refs)
    (hcl : ∀ v k, E.asFn v = some k → ∃ fd, P.fns k = some fd)
    (g : Nat → V) (globals : Array Value) (fobjs : Array FnObj)
    (hgs : globals.size = n) (hg : ∀ i, i < n → globals.getD i .undef = val (g i))
    (hfo : ∀ k fd, P.fns k = some fd → fobjs[refs k]? = some (k, []))
    (hW : WithinVM E (compProg P) (St.init (fun _ => E.S.undef) g))
    (keep : Nat) (allocs : Int) (ha : allocs ≤ 0) (gst : GSt) (heap : Spec.St) (m : Nat)
    (hrun : ∀ cfg, (VM.run (toCodeR refs (bcOf P ctab n)) keep m allocs
      ⟨VM.initCore globals fobjs, gst, heap⟩ {}).1 ≠ .outOfFuel cfg) :
    (∃ f g', F3.exec E P f g = .done g') ∨ (∃ f, F3.exec E P f g = .err) := by
  rcases exec_all_fuels E P (scoped_of_srcOk E hs hcl) g with hout | h | h
  · exfalso
    obtain ⟨cfg, hc⟩ := Tengo.Proofs.C01BridgeF3Conv.vm_diverges3 E val refs ctab n P hs hD hE g globals fobjs hgs hg
      hfo hW keep allocs ha gst heap hout m
    exact hrun cfg hc
  · exact .inl h
  · exact .inr h

/-- **Reference interpreter = compile-and-run on fragment F3, both directions, no termination witness.** Only
`Spec.runProgram`, `Compiler.compileFile` and `VM.run` are mentioned (plus the hypothesis `WithinVM`: every dispatch of
the run — finite or not — stays within the VM's 2048 stack slots and 1024 frames). For every `SrcOk` program within
the budgets, every admissible naming, scalar initial globals:
1. `Spec.runProgram` (any fuel, any heap) answers `ok gs st` ⇒ `VM.run` on the code really emitted halts for every
   sufficient fuel, stack empty, heap/table untouched, and some `g'` relates `gs` (`ValRel`) and the VM's globals;
2. `Spec.runProgram` answers neither `ok` nor `fuel` nor `excluded` ⇒ `VM.run` ends `failed` (error other than fuel);
3. `VM.run` with some fuel answers `halted cfg` ⇒ `cfg` has an empty stack and the heap/table it started with, and
   for every SUFFICIENT fuel (from every heap) the interpreter answers `excluded` (its refusal of call depth 900) or
   `ok gs st` with `gs` related (through some `g'`) to `cfg`'s globals — never fuel exhaustion, never an error;
4. `VM.run` with some fuel answers `failed e at_` ⇒ for every sufficient fuel the interpreter answers the outcome of
   an error other than fuel exhaustion (possibly `excluded`; never `ok`, never a compile error);
5. `VM.run` answers `halted`, `failed` or `outOfFuel` at every fuel (never `fault`, never `limit`). -/
theorem reference_and_vm_agree_fragment3_full (names lnames : Nat → String) (ctab : Nat → F0.Const) (n : Nat)
    (P : Prog) (hN : NamesOK names lnames n) (hb : ∀ i, lnames i ∉ Spec.builtinNames)
    (hs : SrcOk P n) (hbud : budMain P P.main ≤ 4000) :
    ∃ bc, Compiler.compileFile (toAstProg names lnames ctab P) (inputsOf names n) = .ok bc ∧
      ∃ refs : Nat → Nat, (VM.initFobjs (toCode bc)).1 = toCodeR refs bc ∧
        ∀ (g : Nat → FVOf P refs) (globals : Array Value), globals.size = n →
          (∀ i, i < n → globals.getD i .undef = (g i).1) → (∀ i, i < n → Scalar (g i).1 = true) →
          WithinVM (envOf P ctab refs) (compProg P) (St.init (fun _ => (envOf P ctab refs).S.undef) g) →
          ∀ (keep : Nat) (allocs : Int), allocs ≤ 0 → ∀ (gst : GSt) (heap : Spec.St),
            (∀ F initHeap gs st,
              Spec.runProgram F (inputs3 names Subtype.val n g) initHeap (toAstProg names lnames ctab P) = .ok gs st →
              ∃ (g' : Nat → FVOf P refs) (c' : Core) (m : Nat),
                gs.map Prod.fst = (List.range n).map names ∧
                (∀ i, i < n → ∃ w, gs[i]? = some (names i, w) ∧
                  ValRel (envOf P ctab refs) Subtype.val P names lnames ctab st (g' i) w) ∧
                GlobRel3 n Subtype.val g' c'.regs.globals ∧ c'.regs.sp = 0 ∧
                ∀ k, (VM.run (VM.initFobjs (toCode bc)).1 keep (m + 1 + k) allocs
                  ⟨VM.initCore globals (VM.initFobjs (toCode bc)).2, gst, heap⟩ {}).1 = .halted ⟨c', gst, heap⟩) ∧
            (∀ F initHeap,
              (∀ gs st, Spec.runProgram F (inputs3 names Subtype.val n g) initHeap
                (toAstProg names lnames ctab P) ≠ .ok gs st) →
              Spec.runProgram F (inputs3 names Subtype.val n g) initHeap (toAstProg names lnames ctab P) ≠ .fuel →
              (∀ why, Spec.runProgram F (inputs3 names Subtype.val n g) initHeap
                (toAstProg names lnames ctab P) ≠ .excluded why) →
              ∃ (e : Err) (at_ : Cfg) (m : Nat), e ≠ Err.fuel ∧
                ∀ k, (VM.run (VM.initFobjs (toCode bc)).1 keep (m + 1 + k) allocs
                  ⟨VM.initCore globals (VM.initFobjs (toCode bc)).2, gst, heap⟩ {}).1 = .failed e at_) ∧
            (∀ m cfg,
              (VM.run (VM.initFobjs (toCode bc)).1 keep m allocs
                ⟨VM.initCore globals (VM.initFobjs (toCode bc)).2, gst, heap⟩ {}).1 = .halted cfg →
              cfg.gst = gst ∧ cfg.heap = heap ∧ cfg.core.regs.sp = 0 ∧
              ∃ F0, ∀ F initHeap, F0 ≤ F →
                (∃ why, Spec.runProgram F (inputs3 names Subtype.val n g) initHeap
                  (toAstProg names lnames ctab P) = .excluded why) ∨
                ∃ (gs : List (String × Value)) (st : Spec.St) (g' : Nat → FVOf P refs),
                  Spec.runProgram F (inputs3 names Subtype.val n g) initHeap (toAstProg names lnames ctab P) =
                    .ok gs st ∧
                  gs.map Prod.fst = (List.range n).map names ∧
                  (∀ i, i < n → ∃ w, gs[i]? = some (names i, w) ∧
                    ValRel (envOf P ctab refs) Subtype.val P names lnames ctab st (g' i) w) ∧
                  GlobRel3 n Subtype.val g' cfg.core.regs.globals) ∧
            (∀ m e at_,
              (VM.run (VM.initFobjs (toCode bc)).1 keep m allocs
                ⟨VM.initCore globals (VM.initFobjs (toCode bc)).2, gst, heap⟩ {}).1 = .failed e at_ →
              ∃ F0, ∀ F initHeap, F0 ≤ F →
                ∃ err, err ≠ Err.fuel ∧
                  Spec.runProgram F (inputs3 names Subtype.val n g) initHeap (toAstProg names lnames ctab P) =
                    errOutcome err) ∧
            (∀ m,
              (∃ cfg, (VM.run (VM.initFobjs (toCode bc)).1 keep m allocs
                ⟨VM.initCore globals (VM.initFobjs (toCode bc)).2, gst, heap⟩ {}).1 = .halted cfg) ∨
              (∃ e at_, (VM.run (VM.initFobjs (toCode bc)).1 keep m allocs
                ⟨VM.initCore globals (VM.initFobjs (toCode bc)).2, gst, heap⟩ {}).1 = .failed e at_) ∨
              (∃ cfg, (VM.run (VM.initFobjs (toCode bc)).1 keep m allocs
                ⟨VM.initCore globals (VM.initFobjs (toCode bc)).2, gst, heap⟩ {}).1 = .outOfFuel cfg)) := by
  have hbudC : budMain P P.main ≤ Compiler.fuel := by unfold Compiler.fuel; omega
  have hbc := Tengo.Props.C01F3Source.compileFile_srcOk names lnames ctab n P hN hb hs hbudC
  obtain ⟨refs, hinj, hcode, hobj⟩ := init_refs hs ctab
  refine ⟨bcOf P ctab n, hbc, refs, hcode, ?_⟩
  intro g globals hgs hg hsc hW keep allocs ha gst heap
  have hEnv := envOk_env3 hs ctab refs hinj
  have hSc : Scoped (envOf P ctab refs) P := scoped_envOf hs ctab refs
  have hvm : ∀ f,
      (∀ g', F3.exec (envOf P ctab refs) P f g = .done g' →
        ∃ (c' : Core) (m : Nat), GlobRel3 n Subtype.val g' c'.regs.globals ∧ c'.regs.sp = 0 ∧
          ∀ k, (VM.run (VM.initFobjs (toCode (bcOf P ctab n))).1 keep (m + 1 + k) allocs
            ⟨VM.initCore globals (VM.initFobjs (toCode (bcOf P ctab n))).2, gst, heap⟩ {}).1 =
              .halted ⟨c', gst, heap⟩) ∧
      (F3.exec (envOf P ctab refs) P f g = .err →
        ∃ (e : Err) (at_ : Cfg) (m : Nat), e ≠ Err.fuel ∧
          ∀ k, (VM.run (VM.initFobjs (toCode (bcOf P ctab n))).1 keep (m + 1 + k) allocs
            ⟨VM.initCore globals (VM.initFobjs (toCode (bcOf P ctab n))).2, gst, heap⟩ {}).1 = .failed e at_) := by
    intro f
    obtain ⟨bc', hbc', h1, h2⟩ := Tengo.Props.C01F3Source.source_to_vm_fragment3 (envOf P ctab refs) Subtype.val refs
      names lnames ctab n P hN hb hs hbudC (Tengo.Proofs.C01BridgeF3.dataRel3 _) hEnv f g globals
      (VM.initFobjs (toCode (bcOf P ctab n))).2 hgs hg hobj hW keep allocs ha gst heap
    rw [hbc] at hbc'
    injection hbc' with hbc'
    subst hbc'
    rw [hcode]
    exact ⟨h1, h2⟩
  have hdiv : (∀ f, F3.exec (envOf P ctab refs) P f g = .out) → ∀ m, ∃ cfg,
      (VM.run (VM.initFobjs (toCode (bcOf P ctab n))).1 keep m allocs
        ⟨VM.initCore globals (VM.initFobjs (toCode (bcOf P ctab n))).2, gst, heap⟩ {}).1 = .outOfFuel cfg := by
    intro hout m
    rw [hcode]
    exact Tengo.Proofs.C01BridgeF3Conv.vm_diverges3 (envOf P ctab refs) Subtype.val refs ctab n P hs
      (Tengo.Proofs.C01BridgeF3.dataRel3 _) hEnv g globals (VM.initFobjs (toCode (bcOf P ctab n))).2 hgs hg hobj hW
      keep allocs ha gst heap hout m
  have hspec := fun f F initHeap (hF : 4 * f ≤ F) =>
    spec_agrees_fragment3_nobound (envOf P ctab refs) Subtype.val refs names lnames ctab n P hN hb hs hbud
      (Tengo.Proofs.C01BridgeF3.dataRel3 _) hEnv (fun v => val3_cases v.2)
      (fun k hk => csOf_value P ctab _ refs k hk) f F hF g hsc initHeap
  have hall := exec_all_fuels (envOf P ctab refs) P hSc g
  -- directions 1 and 2: as in the partial theorem (same `bc`, `refs` are existential there: redo them here)
  have htri := fun F initHeap =>
    runProgram_tri3 (envOf P ctab refs) Subtype.val refs names lnames ctab n P hN hb hs hbud
      (Tengo.Proofs.C01BridgeF3.dataRel3 _) hEnv (fun v => val3_cases v.2)
      (fun k hk => csOf_value P ctab _ refs k hk) F g hsc initHeap
  refine ⟨?_, ?_, ?_, ?_, ?_⟩
  · intro F initHeap gs st hrun
    rcases htri F initHeap with h | ⟨why, h⟩ | h
    · rw [hrun] at h; cases h
    · rw [hrun] at h; cases h
    · have hF := h F (Nat.le_refl F)
      rw [hrun] at hF
      cases hex : F3.exec (envOf P ctab refs) P F g with
      | done g' =>
        rw [hex] at hF
        obtain ⟨gs', st', heq, hfst, hall'⟩ := hF
        injection heq with h1 h2
        subst h1 h2
        obtain ⟨c', m, hgl, hsp, hrunvm⟩ := (hvm F).1 g' hex
        exact ⟨g', c', m, hfst, hall', hgl, hsp, hrunvm⟩
      | err =>
        rw [hex] at hF
        obtain ⟨err, _, heq⟩ := hF
        exact absurd heq.symm (errOutcome_ne_ok err gs st)
      | out => rw [hex] at hF; exact hF.elim
      | bad => exact absurd hex (F3.exec_not_bad hSc F g)
  · intro F initHeap hnok hnf hnx
    rcases htri F initHeap with h | ⟨why, h⟩ | h
    · exact absurd h hnf
    · exact absurd h (hnx why)
    · have hF := h F (Nat.le_refl F)
      cases hex : F3.exec (envOf P ctab refs) P F g with
      | done g' =>
        rw [hex] at hF
        obtain ⟨gs', st', heq, _⟩ := hF
        exact absurd heq (hnok gs' st')
      | err => exact (hvm F).2 hex
      | out => rw [hex] at hF; exact hF.elim
      | bad => exact absurd hex (F3.exec_not_bad hSc F g)
  · intro m cfg hrun
    rcases hall with hout | ⟨f, g', hf⟩ | ⟨f, hf⟩
    · obtain ⟨c, hc⟩ := hdiv hout m
      rw [hrun] at hc; cases hc
    · obtain ⟨c', m', hgl, hsp, hrunvm⟩ := (hvm f).1 g' hf
      rcases Tengo.Proofs.C01Bridge.run_agree _ keep m (m' + 1) allocs _ {} _ hrunvm with ⟨c, hc⟩ | hh
      · rw [hrun] at hc; cases hc
      · rw [hrun] at hh
        injection hh with hh
        subst hh
        refine ⟨rfl, rfl, hsp, 4 * f, fun F initHeap hF => ?_⟩
        rcases (hspec f F initHeap hF).1 g' hf with hx | ⟨gs, st, hok, hfst, hrel⟩
        · exact .inl hx
        · exact .inr ⟨gs, st, g', hok, hfst, hrel, hgl⟩
    · obtain ⟨e, at_, m', _, hrunvm⟩ := (hvm f).2 hf
      rcases Tengo.Proofs.C01Bridge.run_agree _ keep m (m' + 1) allocs _ {} _ hrunvm with ⟨c, hc⟩ | hh
      · rw [hrun] at hc; cases hc
      · rw [hrun] at hh; cases hh
  · intro m e at_ hrun
    rcases hall with hout | ⟨f, g', hf⟩ | ⟨f, hf⟩
    · obtain ⟨c, hc⟩ := hdiv hout m
      rw [hrun] at hc; cases hc
    · obtain ⟨c', m', hgl, hsp, hrunvm⟩ := (hvm f).1 g' hf
      rcases Tengo.Proofs.C01Bridge.run_agree _ keep m (m' + 1) allocs _ {} _ hrunvm with ⟨c, hc⟩ | hh
      · rw [hrun] at hc; cases hc
      · rw [hrun] at hh; cases hh
    · exact ⟨4 * f, fun F initHeap hF => (hspec f F initHeap hF).2 hf⟩
  · intro m
    rcases hall with hout | ⟨f, g', hf⟩ | ⟨f, hf⟩
    · exact .inr (.inr (hdiv hout m))
    · obtain ⟨c', m', hgl, hsp, hrunvm⟩ := (hvm f).1 g' hf
      rcases Tengo.Proofs.C01Bridge.run_agree _ keep m (m' + 1) allocs _ {} _ hrunvm with hc | hh
      · exact .inr (.inr hc)
      · exact .inl ⟨_, hh⟩
    · obtain ⟨e, at_, m', _, hrunvm⟩ := (hvm f).2 hf
      rcases Tengo.Proofs.C01Bridge.run_agree _ keep m (m' + 1) allocs _ {} _ hrunvm with hc | hh
      · exact .inr (.inr hc)
      · exact .inr (.inl ⟨_, _, hh⟩)

/-! ### non-vacuity: `g = func(x) { return x; x = 7 }; gg = g(5)` (the program of `Props/C01F3Spec`) -/

namespace Example
open Tengo.Props.C01F3Source.Example
open Tengo.Proofs.C01BridgeF3 (sem3 env3 dataRel3)
open Tengo.Proofs.C01BridgeF3Comp (gname lname demo_builtin)
open Tengo.Props.C01F3Spec.Example (exD_cs)

theorem exD_closed : ∀ (v : FV exUnref) k, (env3 exUnref exCs).asFn v = some k → ∃ fd, exD.fns k = some fd := by
  intro v k h
  obtain ⟨v, hv⟩ := v
  cases v <;> simp only [env3] at h <;> try (cases h)
  rename_i r
  simp only [exUnref] at h
  split at h
  · injection h with h; subst h; exact ⟨deadDef, by simp [exD]⟩
  · cases h

/-- The reference interpreter answers `ok` on the concrete program with fuel 56 from the empty heap
(`spec_agrees_fragment3`, evaluator fuel 14). -/
theorem exD_runProgram_ok : ∃ gs st, Spec.runProgram 56 (inputs3 gname Subtype.val 2 (fun _ => (sem3 exUnref).undef)) {}
      (toAstProg gname lname exCtab exD) = .ok gs st := by
  obtain ⟨h1, _⟩ := Tengo.Props.C01F3Spec.spec_agrees_fragment3 (env3 exUnref exCs) Subtype.val exRefs gname lname
    exCtab 2 exD exD_names demo_builtin exD_src (by decide) (dataRel3 exUnref) exD_env (fun v => val3_cases v.2) exD_cs
    14 56 (by decide) (by decide) (fun _ => (sem3 exUnref).undef) (fun i hi => rfl) {}
  have hev : gg5 (F3.exec (env3 exUnref exCs) exD 14 (fun _ => (sem3 exUnref).undef)) = true := by decide
  cases he : F3.exec (env3 exUnref exCs) exD 14 (fun _ => (sem3 exUnref).undef) with
  | done g' => obtain ⟨gs, st, hrun, _⟩ := h1 g' he; exact ⟨gs, st, hrun⟩
  | err => rw [he] at hev; cases hev
  | out => rw [he] at hev; cases hev
  | bad => rw [he] at hev; cases hev

/-- **Non-vacuity of `runProgram_converse3`**: all hypotheses hold of the concrete program, the interpreter's `ok`
answer (fuel 56) is the premise of part 1, so `F3.exec` finishes with fuel 56 and every larger one. -/
example : ∃ g', ∀ f, 56 ≤ f → F3.exec (env3 exUnref exCs) exD f (fun _ => (sem3 exUnref).undef) = .done g' := by
  obtain ⟨gs, st, hrun⟩ := exD_runProgram_ok
  obtain ⟨g', hg', _⟩ := (runProgram_converse3 (env3 exUnref exCs) Subtype.val exRefs gname lname exCtab 2 exD
    exD_names demo_builtin exD_src (by decide) (dataRel3 exUnref) exD_env (fun v => val3_cases v.2) exD_cs exD_closed
    56 (fun _ => (sem3 exUnref).undef) (fun i hi => rfl) {}).1 gs st hrun
  exact ⟨g', hg'⟩

/-- Non-vacuity of `exec_fuel_mono`: the evaluator's result with fuel 14 is not `out`. -/
example : F3.exec (env3 exUnref exCs) exD 14 (fun _ => (sem3 exUnref).undef) ≠ .out := by
  have hev : gg5 (F3.exec (env3 exUnref exCs) exD 14 (fun _ => (sem3 exUnref).undef)) = true := by decide
  intro h; rw [h] at hev; cases hev

/-- The hypotheses of `spec_agrees_fragment3_nobound` hold for the concrete program at a fuel above the old bound. -/
example := spec_agrees_fragment3_nobound (env3 exUnref exCs) Subtype.val exRefs gname lname exCtab 2 exD
  exD_names demo_builtin exD_src (by decide) (dataRel3 exUnref) exD_env (fun v => val3_cases v.2) exD_cs
  5000 20000 (by decide) (fun _ => (sem3 exUnref).undef) (fun i hi => rfl) {}

/-- The hypotheses of `reference_and_vm_agree_fragment3_nobound` hold for the concrete program. -/
example := reference_and_vm_agree_fragment3_nobound gname lname exCtab 2 exD exD_names demo_builtin exD_src (by decide)

/-- **Non-vacuity of `vm_converse3`**: every hypothesis is discharged for the concrete program — `WithinVM` by the
decidable certificate, the premise "`VM.run` does not answer `outOfFuel`" by the halting run `source_to_vm_fragment3`
provides — so the theorem fires. -/
example (keep : Nat) (allocs : Int) (ha : allocs ≤ 0) (gst : GSt) (heap : Spec.St) :
    (∃ f g', F3.exec (env3 exUnref exCs) exD f (fun _ => (sem3 exUnref).undef) = .done g') ∨
    (∃ f, F3.exec (env3 exUnref exCs) exD f (fun _ => (sem3 exUnref).undef) = .err) := by
  have hW : WithinVM (env3 exUnref exCs) (compProg exD)
      (St.init (fun _ => (env3 exUnref exCs).S.undef) (fun _ => (sem3 exUnref).undef)) :=
    Tengo.Props.C01F3Bridge.withinVM_of_check 14 _ (by decide)
  have hgl : ∀ i, i < 2 → (#[.undef, .undef] : Array Value).getD i .undef =
      Subtype.val ((fun _ => (sem3 exUnref).undef : Nat → FV exUnref) i) := by
    intro i hi
    match i, hi with
    | 0, _ => rfl
    | 1, _ => rfl
  have hfo : ∀ k fd, exD.fns k = some fd → (#[(1, [])] : Array FnObj)[exRefs k]? = some (k, []) := by
    intro k fd h; obtain ⟨rfl, _⟩ := exD_fns h; rfl
  obtain ⟨bc, hbc, hdone, _⟩ := Tengo.Props.C01F3Source.source_to_vm_fragment3 (env3 exUnref exCs) Subtype.val exRefs
    gname lname exCtab 2 exD exD_names demo_builtin exD_src (by decide) (dataRel3 exUnref) exD_env 14
    (fun _ => (sem3 exUnref).undef) #[.undef, .undef] #[(1, [])] rfl hgl hfo hW keep allocs ha gst heap
  have hbc' := Tengo.Props.C01F3Source.compileFile_srcOk gname lname exCtab 2 exD exD_names demo_builtin exD_src
    (by decide)
  rw [hbc'] at hbc
  injection hbc with hbc
  subst hbc
  have hev : gg5 (F3.exec (env3 exUnref exCs) exD 14 (fun _ => (sem3 exUnref).undef)) = true := by decide
  cases he : F3.exec (env3 exUnref exCs) exD 14 (fun _ => (sem3 exUnref).undef) with
  | done g' =>
    obtain ⟨c', m, _, _, hrun⟩ := hdone g' he
    exact vm_converse3 (env3 exUnref exCs) Subtype.val exRefs exCtab 2 exD exD_src (dataRel3 exUnref) exD_env
      exD_closed (fun _ => (sem3 exUnref).undef) #[.undef, .undef] #[(1, [])] rfl hgl hfo hW keep allocs ha gst heap
      (m + 1 + 0) (fun cfg h => by rw [hrun 0] at h; cases h)
  | err => rw [he] at hev; cases hev
  | out => rw [he] at hev; cases hev
  | bad => rw [he] at hev; cases hev

/-- The hypotheses of `reference_and_vm_agree_fragment3_full` hold for the concrete program. -/
example := reference_and_vm_agree_fragment3_full gname lname exCtab 2 exD exD_names demo_builtin exD_src (by decide)

/-- The hypotheses of `reference_and_vm_agree_fragment3_full_partial` hold for the concrete program. -/
example := reference_and_vm_agree_fragment3_full_partial gname lname exCtab 2 exD exD_names demo_builtin exD_src
  (by decide)

end Example

end Tengo.Props.C01F3Converse

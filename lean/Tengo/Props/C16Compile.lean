import Tengo.Proofs.C16CompileTail
import Tengo.Proofs.C16CompileOpt
import Tengo.Props.C02Compile
import Tengo.Props.VM
/-!
# C16 — `tail_pattern_sound` for the compiler MODEL (`Tengo.Model.Compiler`)

vm.go's OpCall reuses the frame of a self call when the NEXT opcode is `RETURN` (or `POP; RETURN`); the
compiler has no tail-call logic of its own. This file proves, for the model of the whole compiler (tied
byte for byte to compiler.go by the `comp` stream of C01), which layouts it emits:

1. `tail_expr_ends_with_call`: the code of an expression with a call in tail position (`TailE`: the call
   itself, `(e)`, `+e`, `l && e`, `l || e`, `c ? t : e`) ENDS with `CALL n s` (n = number of arguments,
   s = 1 for a spread last argument);
2. `return_tail_call_layout`: `return e` for such an `e` emits `… CALL n s; RETURN 1`, nothing in between;
3. `stmt_call_layout`: `e` in statement position emits `… CALL n s; POP`;
4. `expr_inner_call_not_tail`: inside the code of ANY expression no instruction is RETURN or POP, so a CALL
   that is not the last instruction of the outermost expression (an operand of `+`, an argument of another
   call, the TRUE branch of `?:`, the left operand of `&&`) is never followed by RETURN / POP;
5. `opt_keeps_call_ret`, `opt_call_pop_end`, `opt_keeps_next`: `optimizeFunc` keeps the layout of a live call:
   `CALL; RETURN` stays, `CALL; POP` at the end of a body becomes `CALL; POP; RETURN 0`, `CALL; <other>` stays
   `CALL; <same opcode>`.

The statements hold for every depth budget and every compiler state satisfying the layout invariant `Inv`
of `Tengo.Props.C02Compile` (so for every sub-expression / statement at any nesting of any program), under
the size hypothesis of C02 (`szE`/`szS` below `2 ^ 30`).
-/
set_option linter.unusedVariables false
namespace Tengo.Props.C16Compile
open Tengo.Model Tengo.Model.Opcodes Tengo.Model.Compiler Tengo.Model.Optimizer
open Tengo.Model.Spec (Expr Stmt)
open Tengo.Proofs.C03 Tengo.Proofs.C03Reloc Tengo.Props.C03Sim Tengo.Proofs.C02Compile Tengo.Proofs.C16Compile

/-- the call instruction of `f(args)` / `f(args...)` at byte offset `p` -/
def callI (p : Nat) (ell : Bool) (args : List Expr) : Instr := ⟨p, opCall, [args.length, if ell then 1 else 0]⟩

/-- **(1) tail expressions end with the CALL.** -/
theorem tail_expr_ends_with_call {e : Expr} {ell : Bool} {f : Expr} {args : List Expr} (ht : TailE e ell f args)
    (d : Nat) (s s' : CState) (L : List Instr) (F : List Nat)
    (h : compileExpr d e s = .ok ((), s')) (hinv : Inv s L F) (hsz : szE d e < 2 ^ 30) :
    ∃ B0 F', Inv s' (L ++ B0 ++ [callI (totalSize L + totalSize B0) ell args]) F' ∧
      s'.insts.toList = encode (L ++ B0) ++ encodeInstr opCall [args.length, if ell then 1 else 0] := by
  obtain ⟨B0, F', hinv', _, _, _⟩ := tailE_tres ht d s s' L F h hinv hsz
  refine ⟨B0, F', hinv', ?_⟩
  rw [hinv'.em.bytes, encode_append]
  simp [encode]

/-- **(2) `return e`, call in tail position: `… CALL n s; RETURN 1`** — in the instruction list of the
function being compiled and in its bytes (`MakeInstruction` output), with nothing between the two. -/
theorem return_tail_call_layout {e : Expr} {ell : Bool} {f : Expr} {args : List Expr} (ht : TailE e ell f args)
    (d : Nat) (s s' : CState) (L : List Instr) (F : List Nat)
    (h : compileStmt (d + 1) (.ret (some e)) s = .ok ((), s')) (hinv : Inv s L F)
    (hsz : szS (d + 1) (.ret (some e)) < 2 ^ 30) :
    ∃ B0 F', Inv s' (L ++ B0 ++ [callI (totalSize L + totalSize B0) ell args,
        ⟨totalSize L + totalSize B0 + 3, opReturn, [1]⟩]) F' ∧
      s'.insts.toList = encode (L ++ B0) ++ encodeInstr opCall [args.length, if ell then 1 else 0] ++
        encodeInstr opReturn [1] := by
  obtain ⟨B0, F', hinv', _⟩ := ret_tail ht s s' L F h hinv hsz
  refine ⟨B0, F', hinv', ?_⟩
  rw [hinv'.em.bytes, encode_append]
  simp [encode]

/-- **(3) call in statement position: `… CALL n s; POP`.** (At the end of a function body `optimizeFunc`
appends `RETURN 0`: `opt_call_pop_end`.) -/
theorem stmt_call_layout {e : Expr} {ell : Bool} {f : Expr} {args : List Expr} (ht : TailE e ell f args)
    (d : Nat) (s s' : CState) (L : List Instr) (F : List Nat)
    (h : compileStmt (d + 1) (.expr e) s = .ok ((), s')) (hinv : Inv s L F)
    (hsz : szS (d + 1) (.expr e) < 2 ^ 30) :
    ∃ B0 F', Inv s' (L ++ B0 ++ [callI (totalSize L + totalSize B0) ell args,
        ⟨totalSize L + totalSize B0 + 3, opPop, []⟩]) F' ∧
      s'.insts.toList = encode (L ++ B0) ++ encodeInstr opCall [args.length, if ell then 1 else 0] ++
        encodeInstr opPop [] := by
  obtain ⟨B0, F', hinv', _⟩ := exprstmt_tail ht s s' L F h hinv hsz
  refine ⟨B0, F', hinv', ?_⟩
  rw [hinv'.em.bytes, encode_append]
  simp [encode]

/-- **(4) negative contexts.** In the code `B` of any expression, an instruction that follows a CALL is
neither RETURN nor POP: only the LAST instruction of an expression's code can be a call in tail layout. -/
theorem expr_inner_call_not_tail (d : Nat) (e : Expr) (s s' : CState) (L : List Instr) (F : List Nat)
    (h : compileExpr d e s = .ok ((), s')) (hinv : Inv s L F) (hsz : szE d e < 2 ^ 30) :
    ∃ B F', Inv s' (L ++ B) F' ∧ B ≠ [] ∧
      ∀ A x y C, B = A ++ x :: y :: C → x.op = opCall → y.op ≠ opReturn ∧ y.op ≠ opPop := by
  obtain ⟨B, F', hinv', _, _, _, _, hb⟩ := Tengo.Props.C02Compile.compileExpr_block d e s s' L F h hinv hsz
  obtain ⟨H, h0, h1, _, hhi, _, hn⟩ := Tengo.Props.C02Compile.eblk_meaning (hb 0)
  refine ⟨B, F', hinv', ?_, ?_⟩
  · intro hnil
    subst hnil
    simp only [totalSize_nil, Nat.add_zero] at h1
    omega
  · intro A x y C hB _
    have hy : y ∈ B := by rw [hB]; simp
    exact ⟨(hn y hy).2, (hn y hy).1⟩

/-- **(5) the optimizer keeps what follows a live instruction** (`newPos is x.pos = some n`: `x` is not
removed as dead code and is moved to offset `n`). -/
theorem opt_keeps_next {raw : Bytes} {is : List Instr} {r : Result} {sm : List (Nat × Nat)} {rp : Nat}
    (hdec : decode raw = some is) (hopt : Optimizer.opt raw sm rp = .ok r)
    {x z : Instr} (hx : x ∈ is) (hz : z ∈ is) (hzp : z.pos = x.pos + x.size) (hr : x.op ≠ opReturn)
    {n : Nat} (hn : newPos is x.pos = some n) :
    ∃ y1 ∈ r.insts, ∃ y2 ∈ r.insts, y1.pos = n ∧ y1.op = x.op ∧ (isJump x.op = false → y1.args = x.args) ∧
      y2.pos = n + x.size ∧ y2.op = z.op ∧ (isJump z.op = false → y2.args = z.args) :=
  opt_next hdec hopt hx hz hzp hr hn

/-- `CALL; RETURN` of the raw body is `CALL; RETURN` in the optimized bytes (offsets `n`, `n + 3`). -/
theorem opt_keeps_call_ret {raw : Bytes} {is : List Instr} {r : Result} {sm : List (Nat × Nat)} {rp : Nat}
    (hdec : decode raw = some is) (hlen : raw.length < 2 ^ 32) (hopt : Optimizer.opt raw sm rp = .ok r)
    {x z : Instr} (hx : x ∈ is) (hz : z ∈ is) (hzp : z.pos = x.pos + x.size) (hxo : x.op = opCall)
    (hzo : z.op = opReturn) {n : Nat} (hn : newPos is x.pos = some n) :
    (r.bytes.getD n 0).toNat = opCall ∧ (r.bytes.getD (n + 3) 0).toNat = opReturn :=
  opt_call_ret_bytes hdec hlen hopt hx hz hzp hxo hzo hn

/-- `CALL; POP` ending the raw body is `CALL; POP; RETURN` in the optimized bytes. -/
theorem opt_call_pop_end {raw : Bytes} {is : List Instr} {r : Result} {sm : List (Nat × Nat)} {rp : Nat}
    (hdec : decode raw = some is) (hlen : raw.length < 2 ^ 32) (hopt : Optimizer.opt raw sm rp = .ok r)
    {x z : Instr} (hx : x ∈ is) (hz : z ∈ is) (hzp : z.pos = x.pos + x.size) (hxo : x.op = opCall)
    (hzo : z.op = opPop) (hend : z.pos + z.size = raw.length) {n : Nat} (hn : newPos is x.pos = some n) :
    (r.bytes.getD n 0).toNat = opCall ∧ (r.bytes.getD (n + 3) 0).toNat = opPop ∧
      (r.bytes.getD (n + 4) 0).toNat = opReturn :=
  opt_call_pop_end_bytes hdec hlen hopt hx hz hzp hxo hzo hend hn

/-- **(6) on the whole-VM model: the frame of a compiled self tail call is reused.** Let `f` be a function
whose code is the optimizer's output for a raw body in which a live CALL (new offset `n`) is directly followed
by RETURN (what (2) gives for `return f(…)`). Whenever the whole-VM model dispatches that CALL
(`ip + 1 = n`) with the running function object itself as callee, the frame is reused: same callers, same
base pointer, same function — the frame index does not grow. -/
theorem compiled_self_tail_call_reuses_frame_partial {raw : Bytes} {is : List Instr} {r : Result}
    {sm : List (Nat × Nat)} {rp : Nat}
    (hdec : decode raw = some is) (hlen : raw.length < 2 ^ 32) (hopt : Optimizer.opt raw sm rp = .ok r)
    {x z : Instr} (hx : x ∈ is) (hz : z ∈ is) (hzp : z.pos = x.pos + x.size) (hxo : x.op = opCall)
    (hzo : z.op = opReturn) {n : Nat} (hn : newPos is x.pos = some n)
    (code : VM.Code) (c : VM.Core) (f : VM.Fn) (cr : Nat)
    (hf : code.fn c.cur.fnIdx = some f) (hfi : f.insts = r.bytes.toArray)
    (hip : c.cur.ip + 1 = (n : Int))
    (hcallee : VM.calleeOf f c = .cfn cr) (hself : c.cur.fnRef = some cr) :
    VM.PostX (VM.exec code c) (fun o => ∀ c' a, o = .next c' a →
      c'.callers = c.callers ∧ c'.cur.bp = c.cur.bp ∧ c'.cur.fnRef = c.cur.fnRef) := by
  obtain ⟨b1, b2⟩ := opt_keeps_call_ret hdec hlen hopt hx hz hzp hxo hzo hn
  have hl : f.insts.toList = r.bytes := by rw [hfi]
  refine Tengo.Props.VM.self_tail_call_reuses_frame code c f cr hf ?_ hcallee hself (Or.inl ?_)
  · rw [hip, VM.byteAt_getD, hl]; exact b1
  · have e : c.cur.ip + 1 + 2 + 1 = ((n + 3 : Nat) : Int) := by omega
    rw [e, VM.byteAt_getD, hl]; exact b2

/-! ## Non-vacuity -/

/-- `f(n - 1)`, `(f(n - 1))`, `n == 0 || f(n - 1)`, `a && (b || f(xs...))`, `c ? 1 : f(n - 1)`, `+f(n)` are
tail expressions -/
example : TailE (.call false (.ident "f") [.bin "Sub" (.ident "n") (.int 1)]) false (.ident "f")
    [.bin "Sub" (.ident "n") (.int 1)] := .call _ _ _
example : TailE (.paren (.call false (.ident "f") [.ident "n"])) false (.ident "f") [.ident "n"] :=
  .paren (.call _ _ _)
example : TailE (.bin "LOr" (.bin "Equal" (.ident "n") (.int 0)) (.call false (.ident "f") [.ident "n"])) false
    (.ident "f") [.ident "n"] := .andor _ (by decide) (.call _ _ _)
example : TailE (.bin "LAnd" (.ident "a") (.paren (.bin "LOr" (.ident "b") (.call true (.ident "f") [.ident "xs"]))))
    true (.ident "f") [.ident "xs"] := .andor _ (by decide) (.paren (.andor _ (by decide) (.call _ _ _)))
example : TailE (.cond (.ident "c") (.int 1) (.call false (.ident "f") [.ident "n"])) false (.ident "f")
    [.ident "n"] := .condF _ _ (.call _ _ _)
example : TailE (.un "Add" (.call false (.ident "f") [.ident "n"])) false (.ident "f") [.ident "n"] :=
  .plus (.call _ _ _)

/-- `f := func(n, acc) { if n == 0 { return acc }; return n == 0 || f(n - 1, acc + n) }; out := f(10, 0)` -/
def demoTail : List Stmt :=
  [.assign "Define" [.ident "f"] [.func false ["n", "acc"]
      [.ifs none (.bin "Equal" (.ident "n") (.int 0)) [.ret (some (.ident "acc"))] none,
       .ret (some (.bin "LOr" (.bin "Equal" (.ident "n") (.int 0))
         (.call false (.ident "f") [.bin "Sub" (.ident "n") (.int 1), .bin "Add" (.ident "acc") (.ident "n")])))]],
   .assign "Define" [.ident "out"] [.call false (.ident "f") [.int 10, .int 0]]]

/-- `g := func(n) { if n == 0 { return 0 }; g(n - 1) }` (call statement last) and
`h := func(n) { return h(n - 1) + 1 }`, `k := func(n) { return n ? k(n - 1) : 0 }` (not tail) -/
def demoOther : List Stmt :=
  [.assign "Define" [.ident "g"] [.func false ["n"]
      [.ifs none (.bin "Equal" (.ident "n") (.int 0)) [.ret (some (.int 0))] none,
       .expr (.call false (.ident "g") [.bin "Sub" (.ident "n") (.int 1)])]],
   .assign "Define" [.ident "h"] [.func false ["n"]
      [.ret (some (.bin "Add" (.call false (.ident "h") [.bin "Sub" (.ident "n") (.int 1)]) (.int 1)))]],
   .assign "Define" [.ident "k"] [.func false ["n"]
      [.ret (some (.cond (.ident "n") (.call false (.ident "k") [.bin "Sub" (.ident "n") (.int 1)]) (.int 0)))]]]

/-- opcodes following each CALL of a decoded function -/
def afterCalls : List Instr → List (List Nat)
  | [] => []
  | x :: rest =>
    (if x.op == opCall then [(rest.take 2).map (·.op)] else []) ++ afterCalls rest

def fnCodes (bc : Bytecode') : List Bytes :=
  bc.consts.filterMap (fun c => match c with | .fn code _ _ _ => some code | _ => none)

def callContexts (ss : List Stmt) : List (List (List Nat)) :=
  match compileFile ss [] with
  | .ok bc => (fnCodes bc).map (fun code => match decode code with | some is => afterCalls is | none => [])
  | .error _ => []

/-- the model compiles `demoTail`; in `f` the only CALL is followed by RETURN (and nothing else) -/
example : callContexts demoTail = [[[opReturn]]] := by decide +kernel

/-- `g`: `CALL; POP; RETURN` (the RETURN 0 appended by the optimizer); `h`: `CALL; CONST; …`; `k`: `CALL; JMP` -/
example : callContexts demoOther =
    [[[opPop, opReturn]], [[opConstant, opBinaryOp]], [[opJump, opConstant]]] := by decide +kernel

/-- the hypotheses of (2) are met inside `f`: the size bound of the whole program holds -/
example : Tengo.Props.C02Compile.codeBound demoTail ≤ 2 ^ 30 := by decide +kernel

/-- the optimizer hypotheses of (5) are met by a concrete raw body `GETL 0; CALL 1 0; RETURN 1`: the call is
live (`newPos … 2 = some 2`) and the output has CALL at 2, RETURN at 5 -/
example : decode [opGetLocal.toUInt8, 0, opCall.toUInt8, 1, 0, opReturn.toUInt8, 1] =
    some [⟨0, opGetLocal, [0]⟩, ⟨2, opCall, [1, 0]⟩, ⟨5, opReturn, [1]⟩] ∧
    newPos [⟨0, opGetLocal, [0]⟩, ⟨2, opCall, [1, 0]⟩, ⟨5, opReturn, [1]⟩] 2 = some 2 := by decide +kernel

/-- … the optimizer accepts that body and leaves it unchanged (hypothesis `hopt` of (5) and (6)) -/
example : (match Optimizer.opt [opGetLocal.toUInt8, 0, opCall.toUInt8, 1, 0, opReturn.toUInt8, 1] [] 0 with
    | .ok r => r.bytes == [opGetLocal.toUInt8, 0, opCall.toUInt8, 1, 0, opReturn.toUInt8, 1]
    | .panic _ => false) = true := by decide +kernel

end Tengo.Props.C16Compile

import Tengo.Model.VM
import Tengo.Model.Verifier
/-!
Whole-program bytecode verification (property C02): the per-function verifier of
`Tengo.Model.Verifier` applied to the main function and to every function constant an instruction
refers to, with the environment derived from the program itself, plus the program-level conditions
the safety theorem (`Tengo.Proofs.VMSafe`) needs:

* every `CLOSURE k n` agrees on `n` for a given `k`; a function loaded by `CONST k` captures nothing;
* the free-variable operands of a function are below that `n`;
* a call with spread has at least one argument;
* at a call directly followed by `RET` (or `POP; RET`) the operand stack holds exactly the callee
  and its arguments (so that a self tail call restarts the function at height 0);
* the main function never returns and suspends only with an empty operand stack; no other function
  suspends.

`checkProgram` is a decidable check of given tables; `verifyProgram` computes the tables and checks
them. Run on the code the real compiler emits for every program of the C02 stream. Core Lean only.
-/
namespace Tengo.Model.VM
open Tengo.Model Tengo.Model.Opcodes Tengo.Model.Verifier Tengo.Model.Spec

def heightLimit : Nat := 1073741824

/-- Verified view of one function: its decoded instructions and its height table. -/
structure FnTab where
  idx : Nat                 -- 0 = main, k + 1 = constant k
  is  : List Instr
  hm  : HMap

structure ProgTabs where
  fns     : List FnTab
  numFree : List (Nat × Nat)          -- constant index ↦ number of captured variables

def ProgTabs.tab (t : ProgTabs) (idx : Nat) : Option FnTab := t.fns.find? (fun ft => ft.idx == idx)
/-- Captured variables of function `idx` (the main function has none). -/
def ProgTabs.free (t : ProgTabs) (idx : Nat) : Nat :=
  if idx == 0 then 0 else (t.numFree.lookup (idx - 1)).getD 0

def constIsFn (code : Code) : List Bool :=
  code.consts.toList.map (fun c => match c with | .fn _ _ => true | .val _ => false)

def envOf (code : Code) (t : ProgTabs) (globalsSize : Nat) (idx : Nat) (f : Fn) : Verifier.Env :=
  { constIsFn := constIsFn code, numBuiltins := builtinNames.length, globalsSize := globalsSize,
    numLocals := f.numLocals, numFree := t.free idx }

/-- Conditions on one instruction beyond the per-function verifier. -/
def extraOk (code : Code) (t : ProgTabs) (idx : Nat) (bs : Bytes) (hm : HMap) (i : Instr) : Bool :=
  let a0 := i.args.headD 0
  let a1 := (i.args.drop 1).headD 0
  let reach := hm.get i.pos
  if i.op == opClosure then t.numFree.lookup a0 == some a1
  else if i.op == opConstant then
    (match code.consts[a0]? with
     | some (.fn _ _) => t.numFree.lookup a0 == some 0
     | _ => true)
  else if i.op == opCall then
    (a1 != 1 || a0 ≥ 1) &&
    (match reach with
     | none => true
     | some h =>
       let n1 := (bs.getD (i.pos + 3) 0).toNat
       let n2 := (bs.getD (i.pos + 4) 0).toNat
       if n1 == opReturn || (n1 == opPop && n2 == opReturn) then h == a0 + 1 else true)
  else if i.op == opReturn then (idx != 0 || reach == none)
  else if i.op == opSuspend then (if idx == 0 then (reach == none || reach == some 0) else reach == none)
  else true

/-- Everything the safety theorem needs to know about one function. -/
def checkFn (code : Code) (t : ProgTabs) (globalsSize : Nat) (ft : FnTab) : Bool :=
  match code.fn ft.idx with
  | none => false
  | some f =>
    decode f.insts.toList == some ft.is &&
    (match operandsOk (envOf code t globalsSize ft.idx f) ft.is with | .ok _ => true | .error _ => false) &&
    checkAll ft.is ft.hm heightLimit && ft.hm.get 0 == some 0 && (instrAt ft.is 0).isSome &&
    ft.is.all (extraOk code t ft.idx f.insts.toList ft.hm)

/-- Function constants some instruction of a tabulated function refers to. -/
def referenced (t : ProgTabs) : List Nat :=
  t.fns.flatMap (fun ft => ft.is.filterMap (fun i =>
    if i.op == opClosure || i.op == opConstant then some (i.args.headD 0) else none))

def checkProgram (code : Code) (globalsSize : Nat) (t : ProgTabs) : Bool :=
  t.fns.all (checkFn code t globalsSize) &&
  (t.tab 0).isSome && code.main.numLocals == 0 &&
  -- every function constant that is referred to, or has a declared capture count, is tabulated
  (List.range code.consts.size).all (fun k =>
    match code.consts[k]? with
    | some (.fn _ _) => (!((referenced t).contains k) && (t.numFree.lookup k).isNone) || (t.tab (k + 1)).isSome
    | _ => true) &&
  -- a capture count is declared only for function constants, once
  t.numFree.all (fun (k, _) => match code.consts[k]? with | some (.fn _ _) => true | _ => false)

/-! ### computing the tables -/

inductive PErr where
  | fn (idx : Nat) (e : VErr)
  | inconsistentClosure (k : Nat)
  | check
  deriving Repr

def decodeFn (f : Fn) : Option (List Instr) := decode f.insts.toList

/-- `(k, n)` of every CLOSURE instruction and `(k, 0)` of every CONST of a function constant. -/
def captureDecls (code : Code) (fs : List (Nat × List Instr)) : List (Nat × Nat) :=
  fs.flatMap (fun (_, is) => is.filterMap (fun i =>
    let a0 := i.args.headD 0
    if i.op == opClosure then some (a0, (i.args.drop 1).headD 0)
    else if i.op == opConstant then
      (match code.consts[a0]? with | some (.fn _ _) => some (a0, 0) | _ => none)
    else none))

def dedupDecls : List (Nat × Nat) → List (Nat × Nat) → Option (List (Nat × Nat))
  | [], acc => some acc
  | (k, n) :: rest, acc =>
    match acc.lookup k with
    | none => dedupDecls rest ((k, n) :: acc)
    | some m => if m == n then dedupDecls rest acc else none

def buildTabs (code : Code) (globalsSize : Nat) : Except PErr ProgTabs := do
  -- decode everything that decodes; which functions are tabulated is decided by the references
  let all : List (Nat × Fn) := (0, code.main) :: (List.range code.consts.size).filterMap (fun k =>
    match code.consts[k]? with | some (Const.fn f _) => some (k + 1, f) | _ => none)
  let decoded : List (Nat × Fn × List Instr) := all.filterMap (fun (idx, f) => (decodeFn f).map (fun is => (idx, f, is)))
  let decls := captureDecls code (decoded.map (fun (idx, _, is) => (idx, is)))
  let some numFree := dedupDecls decls [] | throw (.inconsistentClosure 0)
  let wanted := all.filter (fun (idx, _) => idx == 0 || (numFree.lookup (idx - 1)).isSome)
  let t0 : ProgTabs := { fns := [], numFree := numFree }
  let mut fns : List FnTab := []
  for (idx, f) in wanted do
    match verifyFn (envOf code t0 globalsSize idx f) heightLimit f.insts.toList, decodeFn f with
    | .ok hm, some is => fns := { idx := idx, is := is, hm := hm } :: fns
    | .error e, _ => throw (.fn idx e)
    | _, none => throw (.fn idx .undecodable)
  pure { fns := fns.reverse, numFree := numFree }

/-- Compute the tables (untrusted search), then check them (`checkProgram`, what the safety theorem
relies on). -/
def verifyProgram (code : Code) (globalsSize : Nat) : Except PErr ProgTabs :=
  match buildTabs code globalsSize with
  | .error e => .error e
  | .ok t => if checkProgram code globalsSize t then .ok t else .error .check

theorem verifyProgram_ok {code : Code} {G : Nat} {t : ProgTabs} (h : verifyProgram code G = .ok t) :
    checkProgram code G t = true := by
  unfold verifyProgram at h
  split at h
  · cases h
  · split at h
    · rename_i hc; injection h with h; subst h; exact hc
    · cases h

/-! ### the initial function objects -/

/-- Function constants loaded by some CONST instruction (of any function that decodes). -/
def constLoaded (code : Code) : List Nat :=
  let all : List Fn := code.main :: code.consts.toList.filterMap (fun (c : Const) => match c with | .fn f _ => some f | _ => none)
  all.flatMap (fun f => match decodeFn f with
    | none => []
    | some is => is.filterMap (fun i =>
        let a0 := i.args.headD 0
        if i.op == opConstant then (match code.consts[a0]? with | some (Const.fn _ _) => some a0 | _ => none) else none))

/-- Give every function constant that is loaded by a CONST instruction its function object
`(k, [])` (the constant itself: it captures nothing) and point its `ref` at it. Other function
constants are only ever instantiated by CLOSURE. -/
def initFobjs (code : Code) : Code × Array FnObj :=
  let loaded := constLoaded code
  let step := fun (acc : Array Const × Array FnObj × Nat) (c : Const) =>
    let (cs, fo, k) := acc
    match c with
    | .fn f _ => if loaded.contains k then (cs.push (.fn f fo.size), fo.push (k, []), k + 1)
                 else (cs.push (.fn f (code.consts.size + 1)), fo, k + 1)      -- dangling on purpose
    | c => (cs.push c, fo, k + 1)
  let (cs, fo, _) := code.consts.toList.foldl step (#[], #[], 0)
  ({ code with consts := cs }, fo)

/-- What the safety theorem assumes about the initial function objects. -/
def initOk (code : Code) (t : ProgTabs) (fobjs : Array FnObj) : Bool :=
  fobjs.toList.all (fun (k, free) => free.isEmpty && t.numFree.lookup k == some 0) &&
  (List.range code.consts.size).all (fun k =>
    match code.consts[k]? with
    | some (.fn _ ref) => t.numFree.lookup k != some 0 || fobjs[ref]? == some (k, [])
    | _ => true)

end Tengo.Model.VM

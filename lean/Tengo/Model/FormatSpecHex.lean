import Tengo.Model.Format
import Tengo.Model.FormatSpec
import Tengo.Model.FormatSpecMulti
/-!
`G` for `%x` / `%X` applied to a string or a byte slice, written from the package documentation of
Go's `fmt` ("String and slice of bytes (treated equivalently with these verbs): `%x` base 16, lower-case,
two characters per byte; `%X` base 16, upper-case, two characters per byte"; "precision sets … for
strings/byte slices with `%x`: the number of bytes of INPUT to format"; flags: "`#` alternate format: add
leading 0x or 0X (`%#x`)", "`' '` (space) … put spaces between bytes printing strings or slices in hex
(`% x`, `% X`)"; width pads the whole encoding, `-` on the right, `0` with zeros on the left) and checked
against `fmtSbx` of `$GOROOT/src/fmt/format.go`:

* every byte gives exactly two hex digits (high nibble first), lower case for `x`, upper case for `X`;
* without the space flag the digits are written back to back, and `#` puts ONE `0x`/`0X` in front of the whole
  (nothing at all when there is no byte to encode);
* with the space flag the bytes are separated by one blank, and `#` puts `0x`/`0X` in front of EVERY byte;
* the precision truncates the input to its first `p` BYTES (not runes);
* the encoding is then padded to the width as every other field (`field`; the encoding is ASCII, so runes = bytes):
  blanks on the left, zeros on the left with the `0` flag (Go pads strings with zeros), blanks on the right with `-`
  (`0` is ignored together with `-`). An empty encoding is padded all the same (`%5x` of `""` is five blanks).

Plain list functions, nothing of the formatter's control flow (no computed `width`, no encoding loop with a
`first` flag). Core Lean only. Shared with `M`: `digitChar` (the digit alphabets `ldigits`/`udigits`), as in `FormatSpec`.
-/
namespace Tengo.Model.FormatSpecHex
open Tengo.Model.Format Tengo.Model.FormatSpec Tengo.Model.FormatSpecMulti

/-- Two hex digits of one byte, high nibble first. -/
def hexPair (upper : Bool) (c : UInt8) : Bytes :=
  [digitChar upper (c.toNat / 16), digitChar upper (c.toNat % 16)]

/-- `0x` / `0X`. -/
def hexMark (upper : Bool) : Bytes := [48, if upper then 88 else 120]

/-- The pieces joined by single blanks. -/
def joinBlank : List Bytes → Bytes
  | [] => []
  | [x] => x
  | x :: y :: rest => x ++ 32 :: joinBlank (y :: rest)

/-- The encoding of the bytes `bs` (already truncated) before padding. -/
def hexBody (sharp space upper : Bool) (bs : Bytes) : Bytes :=
  if space then joinBlank (bs.map fun c => (if sharp then hexMark upper else []) ++ hexPair upper c)
  else if bs = [] then []
  else (if sharp then hexMark upper else []) ++ bs.flatMap (hexPair upper)

/-- `%x` / `%X` on a string or a byte slice `s` (verb `X` = 88 selects upper case). -/
def renderHex (d : GDir) (s : Bytes) : Bytes :=
  field d true (hexBody d.sharp d.space (decide (d.verb = 88)) (match d.prec with | some p => s.take p | none => s))

/-! ### whole format strings: the items of `FormatSpecMulti` plus hex directives on strings / byte slices -/

/-- An item of a format string: one of `FormatSpecMulti`'s items (literal text, a canonical directive of the integer /
`%c` / `%s` / `%t` families with its operand, `%%`) or a canonical `%x` / `%X` directive with a string
(`asBytes = false`) or byte-slice (`asBytes = true`) operand `s`. -/
inductive HItem where
  | base (it : GItem)
  | hex (d : GDir) (asBytes : Bool) (s : Bytes)
  deriving Repr

/-- Canonical hex directive: width 1..10^6, precision ≤ 10^6, verb `x` or `X`. -/
def HexOk (d : GDir) : Prop :=
  (∀ w, d.width = some w → 1 ≤ w ∧ w ≤ 1000000) ∧ (∀ p, d.prec = some p → p ≤ 1000000) ∧ (d.verb = 120 ∨ d.verb = 88)

def HItemOk : HItem → Prop
  | .base it => ItemOk it
  | .hex d _ _ => HexOk d

def HItemsOk (items : List HItem) : Prop := ∀ it ∈ items, HItemOk it

def hexArg (asBytes : Bool) (s : Bytes) : Arg := if asBytes then .bytes s else .str s

def showHItem : HItem → Bytes
  | .base it => showItem it
  | .hex d _ _ => showDir d

def operandH : HItem → List Arg
  | .base (.dir _ a) => [a.toArg]
  | .base (.lit _) => []
  | .base .pct => []
  | .hex _ b s => [hexArg b s]

def renderHItem : HItem → Bytes
  | .base it => renderItem it
  | .hex d _ s => renderHex d s

/-- Printed form of the format string. -/
def showHItems : List HItem → Bytes
  | [] => []
  | it :: rest => showHItem it ++ showHItems rest

/-- The operands, in the order the directives consume them. -/
def operandsH : List HItem → List Arg
  | [] => []
  | it :: rest => operandH it ++ operandsH rest

/-- The documented output: literal text copied, every directive replaced by its rendering. -/
def renderAllH : List HItem → Bytes
  | [] => []
  | it :: rest => renderHItem it ++ renderAllH rest

end Tengo.Model.FormatSpecHex

import Tengo.Model.Token
/-!
AST of parser/expr.go and parser/stmt.go as ONE mutual inductive with its own list/option types, so that
recursion over it is structural and `induction`/`cases` work (nested `List Expr` would not allow it).
Positions are not stored (the token stream carries them; the printed/dumped forms compared by C20 are
position free). Core Lean only.
-/
namespace Tengo.Model.Ast
open Tengo.Model.Token

mutual
  inductive Expr where
    | ident (name : Bs)
    | int (v : Int) (lit : Bs)
    | float (bits : Nat) (lit : Bs)
    | char (v : Nat) (lit : Bs)
    | str (val : Bs) (lit : Bs)
    | bool (b : Bool)
    | undef
    | bin (op : Tok) (l r : Expr)
    | un (op : Tok) (e : Expr)
    | cond (c t f : Expr)
    | paren (e : Expr)
    | arr (es : Exprs)
    | map (els : MapElems)
    | sel (e : Expr) (name : Bs)                    -- SelectorExpr: Sel is always a StringLit of the name
    | idx (e : Expr) (i : OptExpr)
    | slice (e : Expr) (lo hi : OptExpr)
    | call (f : Expr) (args : Exprs) (ellipsis : Bool)
    | func (params : List Bs) (varargs : Bool) (body : Stmts)
    | imp (name : Bs)
    | error (e : Expr)
    | immutable (e : Expr)
    | bad
  inductive Exprs where
    | nil
    | cons (e : Expr) (es : Exprs)
  inductive OptExpr where
    | none
    | some (e : Expr)
  inductive MapElems where
    | nil
    | cons (key : Bs) (v : Expr) (rest : MapElems)
  inductive Stmt where
    | expr (e : Expr)
    | assign (tok : Tok) (lhs rhs : Exprs)
    | incdec (tok : Tok) (e : Expr)
    | ifS (init : OptStmt) (cond : Expr) (body : Stmts) (els : OptStmt)
    | forS (init : OptStmt) (cond : OptExpr) (post : OptStmt) (body : Stmts)
    | forIn (key value : Option Bs) (iter : Expr) (body : Stmts)
    | block (ss : Stmts)
    | branch (tok : Tok) (label : Option Bs)
    | ret (e : OptExpr)
    | export (e : Expr)
    | empty (implicit : Bool)
    | bad
  inductive Stmts where
    | nil
    | cons (s : Stmt) (ss : Stmts)
  inductive OptStmt where
    | none
    | some (s : Stmt)
end

instance : Inhabited Expr := ⟨.bad⟩
instance : Inhabited Stmt := ⟨.bad⟩

def Exprs.ofList : List Expr → Exprs
  | [] => .nil
  | e :: es => .cons e (Exprs.ofList es)

def Exprs.toList : Exprs → List Expr
  | .nil => []
  | .cons e es => e :: es.toList

def Exprs.length : Exprs → Nat
  | .nil => 0
  | .cons _ es => es.length + 1

def Exprs.snoc : Exprs → Expr → Exprs
  | .nil, x => .cons x .nil
  | .cons e es, x => .cons e (es.snoc x)

def Stmts.snoc : Stmts → Stmt → Stmts
  | .nil, x => .cons x .nil
  | .cons s ss, x => .cons s (ss.snoc x)

def MapElems.snoc : MapElems → Bs → Expr → MapElems
  | .nil, k, v => .cons k v .nil
  | .cons k' v' r, k, v => .cons k' v' (r.snoc k v)

/- `norm` of DESIGN §5 C20: strip ParenExpr and EmptyStmt. -/
mutual
  def Expr.strip : Expr → Expr
    | .bin op l r => .bin op l.strip r.strip
    | .un op e => .un op e.strip
    | .cond c t f => .cond c.strip t.strip f.strip
    | .paren e => e.strip
    | .arr es => .arr es.strip
    | .map els => .map els.strip
    | .sel e n => .sel e.strip n
    | .idx e i => .idx e.strip i.strip
    | .slice e lo hi => .slice e.strip lo.strip hi.strip
    | .call f args ell => .call f.strip args.strip ell
    | .func ps va body => .func ps va body.strip
    | .error e => .error e.strip
    | .immutable e => .immutable e.strip
    | e => e
  def Exprs.strip : Exprs → Exprs
    | .nil => .nil
    | .cons e es => .cons e.strip es.strip
  def OptExpr.strip : OptExpr → OptExpr
    | .none => .none
    | .some e => .some e.strip
  def MapElems.strip : MapElems → MapElems
    | .nil => .nil
    | .cons k v r => .cons k v.strip r.strip
  def Stmt.strip : Stmt → Stmt
    | .expr e => .expr e.strip
    | .assign t l r => .assign t l.strip r.strip
    | .incdec t e => .incdec t e.strip
    | .ifS i c b e => .ifS i.strip c.strip b.strip e.strip
    | .forS i c p b => .forS i.strip c.strip p.strip b.strip
    | .forIn k v it b => .forIn k v it.strip b.strip
    | .block ss => .block ss.strip
    | .ret e => .ret e.strip
    | .export e => .export e.strip
    | s => s
  def Stmts.strip : Stmts → Stmts
    | .nil => .nil
    | .cons (.empty _) ss => ss.strip
    | .cons s ss => .cons s.strip ss.strip
  def OptStmt.strip : OptStmt → OptStmt
    | .none => .none
    | .some s => .some s.strip
end

end Tengo.Model.Ast

import Tengo.Model.Format
/-!
`G`: a declarative specification of `fmt.Sprintf` for single directives, written from the package
documentation of Go's `fmt` ("Printing": verbs, width, precision, flags), over the Go values the
five Tengo types map to. It is executable (stream `gspec` compares it with the real `fmt.Sprintf`)
and `Props/C17` proves the model `M` of tengo's formatter equal to it, family by family.

Shared with `M`: the UTF-8 primitives (`decodeRune`, `encodeRune`) and positional digits
(`digitsRev`), which are arithmetic, not formatter logic.
-/
namespace Tengo.Model.FormatSpec
open Tengo.Model.Format

/-- A directive `%[flags][width][.precision]verb`. -/
structure GDir where
  plus : Bool := false
  minus : Bool := false
  sharp : Bool := false
  space : Bool := false
  zero : Bool := false
  width : Option Nat := none
  prec : Option Nat := none
  verb : Nat
  deriving Repr, DecidableEq

/-- Number of runes of a (possibly invalid) UTF-8 text: the documentation's unit of width. -/
def runes : Bytes → Nat := runeCount

/-- "Width … minimum number of runes to output, padding the formatted form with spaces if necessary";
`-` pads on the right; `0` pads with leading zeros and is ignored together with `-`. -/
def field (d : GDir) (zeroOk : Bool) (s : Bytes) : Bytes :=
  match d.width with
  | none => s
  | some w =>
    let n := w - runes s
    if d.minus then s ++ List.replicate n 32
    else List.replicate n (if zeroOk && d.zero then 48 else 32) ++ s

/-- The first `n` runes of `s` ("precision … truncating if necessary", measured in runes). -/
def firstRunes : Nat → Bytes → Bytes
  | 0, _ => []
  | _ + 1, [] => []
  | n + 1, b :: t => (b :: t).take (decodeRune (b :: t)).2 ++ firstRunes n ((b :: t).drop (decodeRune (b :: t)).2)

def digitsText (upper : Bool) (base n : Nat) : Bytes := (digitsRev base n).reverse.map (digitChar upper)

def baseOf (verb : Nat) : Nat :=
  if verb = 98 then 2 else if verb = 111 ∨ verb = 79 then 8 else if verb = 120 ∨ verb = 88 then 16 else 10

/-- Integers, verbs `b d o O x X`. Precision = minimum number of digits (precision 0 prints no
digits for the value 0); with a precision, or with `-`, the `0` flag is ignored; otherwise `0` pads
with zeros after the sign up to the width. `+` always a sign, ` ` a space for an elided sign, `#`
leading `0b` / `0` / `0x`, `%O` a leading `0o`. -/
def renderInt (d : GDir) (n : Int) : Bytes :=
  let base := baseOf d.verb
  let upper := decide (d.verb = 88)
  let ds := digitsText upper base n.natAbs
  let sign : Bytes := if n < 0 then [45] else if d.plus then [43] else if d.space then [32] else []
  match d.prec with
  | some p =>
    if p = 0 ∧ n = 0 then List.replicate (d.width.getD 0) 32
    else finish d base upper sign (List.replicate (p - ds.length) 48 ++ ds)
  | none =>
    let zw := if d.zero && !d.minus then d.width.getD 0 - sign.length else 0
    finish d base upper sign (List.replicate (zw - ds.length) 48 ++ ds)
where
  finish (d : GDir) (base : Nat) (upper : Bool) (sign body : Bytes) : Bytes :=
    let alt : Bytes :=
      if d.sharp then
        (if base = 2 then [48, 98]
         else if base = 8 then (if body.head? = some 48 then [] else [48])
         else if base = 16 then [48, if upper then 88 else 120]
         else [])
      else []
    let o : Bytes := if d.verb = 79 then [48, 111] else []
    field d false (sign ++ o ++ alt ++ body)

/-- `%s` on strings and byte slices. -/
def renderStr (d : GDir) (s : Bytes) : Bytes :=
  field d true (match d.prec with | some p => firstRunes p s | none => s)

/-- `%t`. -/
def renderBool (d : GDir) (b : Bool) : Bytes :=
  field d true (if b then [116, 114, 117, 101] else [102, 97, 108, 115, 101])

/-- `%c`: the character of the code point; not a valid code point → U+FFFD. -/
def renderChar (d : GDir) (n : Int) : Bytes :=
  field d true (encodeRune (if n < 0 ∨ n > 0x10FFFF then 0xFFFD else n.toNat))

/-- Canonical text of a directive: `%`, flags in the order `+-# 0`, width, `.precision`, verb. -/
def decimal (n : Nat) : Bytes := digitsText false 10 n

def showDir (d : GDir) : Bytes :=
  [37] ++ (if d.plus then [43] else []) ++ (if d.minus then [45] else []) ++ (if d.sharp then [35] else []) ++
    (if d.space then [32] else []) ++ (if d.zero then [48] else []) ++
    (match d.width with | some w => decimal w | none => []) ++
    (match d.prec with | some p => 46 :: decimal p | none => []) ++ encodeRune d.verb

end Tengo.Model.FormatSpec

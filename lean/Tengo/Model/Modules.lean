/-!
Model of import resolution in compiler.go (ImportExpr case, compileModule, checkCyclicImports,
loadCompiledModule/storeCompiledModule, fork, getPathModule) — core Lean only.

What is modelled, as coded:
* the import stack is the parent chain of compilers (`stack`, innermost first); it is checked BEFORE
  the compiled-module cache, which lives at the root compiler (`St.cache`);
* an import name is first looked up in the embedder's module map (`Env`); only when it misses and
  `allowFileImport` is set is the file system consulted (`FS`: finite tables for os.Stat through
  getPathModule, ioutil.ReadFile, filepath.Dir);
* a module body is compiled with a fresh symbol table that holds the builtin functions only;
* every error aborts the whole compile (the state at the moment of the error is kept for the tie).

A module body is abstracted to what matters here: the import expressions in syntactic order (wherever
they occur: function bodies and dead code included, the compiler visits them all), uses of names and
module-level definitions.

Termination of `compileItems` is proved (no fuel): the measure is the number of module keys of the
finite environment that are not on the import stack, then the number of remaining items.
-/
namespace Tengo.Model.Modules

inductive Item where
  | imp (name : String)    -- `import("name")`
  | ref (name : String)    -- use of an identifier
  | defn (name : String)   -- `name := …` at the top level of the body
  deriving Repr, DecidableEq, Inhabited

structure Body where
  parseErr : Bool := false
  items : List Item := []
  deriving Repr, DecidableEq, Inhabited

inductive Mod where
  | src (b : Body)   -- Importable returning []byte
  | builtin          -- Importable returning an Object
  deriving Repr, DecidableEq, Inhabited

/-- The embedder's module map (ModuleGetter), finite. -/
abbrev Env := List (String × Mod)

/-- The file system as far as the compiler looks at it. -/
structure FS where
  files : List (String × Body) := []                  -- absolute path ↦ readable file (parsed)
  resolve : List ((String × String) × String) := []   -- (importDir, name) ↦ path getPathModule returns
  dirs : List (String × String) := []                 -- filepath.Dir
  deriving Repr, DecidableEq, Inhabited

structure Cfg where
  allowFileImport : Bool := false
  importDir : String := ""
  builtins : List String := []   -- builtin function names (root of every symbol table)
  hostVars : List String := []   -- names the embedder defined in the main script's table
  deriving Repr, DecidableEq, Inhabited

/-- Symbol table, reduced to name resolution. -/
structure Syms where
  builtins : List String
  defined : List String
  deriving Repr, DecidableEq, Inhabited

def Syms.resolves (s : Syms) (x : String) : Bool := s.builtins.contains x || s.defined.contains x
def Syms.define (s : Syms) (x : String) : Syms := { s with defined := x :: s.defined }
/-- compileModule: `NewSymbolTable()` + the importer's `BuiltinSymbols()`, forked as a function scope. -/
def Syms.forModule (importer : Syms) : Syms := ⟨importer.builtins, []⟩

inductive Err where
  | emptyName
  | cyclic (path : String)
  | notFound (name : String)
  | unresolved (name : String)
  | parse (path : String)
  | filePath (name : String)   -- "module file path error"
  | fileRead (path : String)   -- "module file read error"
  deriving Repr, DecidableEq, Inhabited

/-- Observable bookkeeping of one `Compile` (lists are most-recent-first). -/
structure St where
  cache : List String := []      -- compiledModules of the root compiler (finished modules)
  compiled : List String := []   -- module bodies parsed+compiled (one AddFile each)
  fetched : List String := []    -- Importable.Import calls
  fsLog : List String := []      -- file-system accesses
  deriving Repr, DecidableEq, Inhabited

abbrev Res := Except (Err × St) St

def keys (env : Env) (fs : FS) : List String := env.map Prod.fst ++ fs.files.map Prod.fst

/-- Termination measure: keys of the finite environment not on the import stack. -/
def free (u stack : List String) : Nat := (u.filter (fun k => decide (k ∉ stack))).length

theorem filter_length_le {α : Type} (p q : α → Bool) (h : ∀ x, p x = true → q x = true) (u : List α) :
    (u.filter p).length ≤ (u.filter q).length := by
  induction u with
  | nil => simp
  | cons a u ih =>
    simp only [List.filter_cons]
    cases hp : p a
    · cases hq : q a <;> simp <;> omega
    · simp [h a hp]; exact ih

theorem filter_length_lt {α : Type} (p q : α → Bool) (h : ∀ x, p x = true → q x = true) {u : List α} {k : α}
    (hk : k ∈ u) (hq : q k = true) (hp : p k = false) : (u.filter p).length < (u.filter q).length := by
  induction u with
  | nil => cases hk
  | cons a u ih =>
    have hle := filter_length_le p q h u
    simp only [List.filter_cons]
    cases hk with
    | head => simp [hq, hp]; omega
    | tail _ hk' =>
      have := ih hk'
      cases hpa : p a
      · cases hqa : q a <;> simp <;> omega
      · simp [h a hpa]; exact this

theorem free_cons_lt {u stack : List String} {k : String} (hu : k ∈ u) (hs : k ∉ stack) :
    free u (k :: stack) < free u stack := by
  unfold free
  apply filter_length_lt _ _ _ hu
  · simpa using hs
  · simp
  · intro x hx
    simp at hx ⊢
    exact hx.2

theorem mem_keys_of_lookup {β : Type} {l : List (String × β)} {k : String} {v : β}
    (h : l.lookup k = some v) : k ∈ l.map Prod.fst := by
  induction l with
  | nil => simp [List.lookup] at h
  | cons a l ih =>
    obtain ⟨a1, a2⟩ := a
    by_cases hk : k = a1
    · subst hk; simp
    · have : (k == a1) = false := by simp [hk]
      simp only [List.lookup, this] at h
      simp [ih h]

/-- The ImportExpr case up to the call of compileModule: what the name resolves to.
`some (key, body, isFile)` = a source module to hand to compileModule under cache key `key`;
`none` = a builtin module (a constant, nothing to compile). -/
def resolveCore (cfg : Cfg) (env : Env) (fs : FS) (dir : String) (n : String) (st : St) :
    Except (Err × St) (Option (String × Body × Bool) × St) :=
  if n = "" then .error (.emptyName, st) else
  match env.lookup n with
  | some (.src body) => .ok (some (n, body, false), { st with fetched := n :: st.fetched })
  | some .builtin => .ok (none, { st with fetched := n :: st.fetched })
  | none =>
    if cfg.allowFileImport then
      let st1 := { st with fsLog := ("stat " ++ dir ++ " " ++ n) :: st.fsLog }
      match fs.resolve.lookup (dir, n) with
      | none => .error (.filePath n, st1)
      | some p =>
        let st2 := { st1 with fsLog := ("read " ++ p) :: st1.fsLog }
        match fs.files.lookup p with
        | none => .error (.fileRead p, st2)
        | some body => .ok (some (p, body, true), st2)
    else .error (.notFound n, st)

theorem resolveCore_mem {cfg : Cfg} {env : Env} {fs : FS} {dir n : String} {st st' : St}
    {key : String} {body : Body} {isFile : Bool}
    (h : resolveCore cfg env fs dir n st = .ok (some (key, body, isFile), st')) :
    key ∈ keys env fs := by
  unfold resolveCore at h
  split at h
  · cases h
  · split at h
    · rename_i b hb
      cases h
      exact List.mem_append_left _ (mem_keys_of_lookup hb)
    · cases h
    · split at h
      · simp only at h
        split at h
        · cases h
        · split at h
          · cases h
          · rename_i b hb
            cases h
            exact List.mem_append_right _ (mem_keys_of_lookup hb)
      · cases h

/-- fork: a file module compiled under a non-empty import dir continues in its own directory. -/
def childDir (fs : FS) (dir key : String) (isFile : Bool) : String :=
  if isFile && dir != "" then (fs.dirs.lookup key).getD "" else dir

set_option linter.unusedVariables false in
/-- Compile the import expressions (and name uses) of one body in syntactic order.
`stack` = module paths of the compilers on the parent chain (innermost first), `syms` = the symbol
table of the body being compiled. -/
def compileItems (cfg : Cfg) (env : Env) (fs : FS) (stack : List String) (dir : String) (syms : Syms)
    (items : List Item) (st : St) : Res :=
  match items with
  | [] => .ok st
  | .ref x :: rest =>
    if syms.resolves x then compileItems cfg env fs stack dir syms rest st
    else .error (.unresolved x, st)
  | .defn x :: rest => compileItems cfg env fs stack dir (syms.define x) rest st
  | .imp n :: rest =>
    match h : resolveCore cfg env fs dir n st with
    | .error e => .error e
    | .ok (none, st') => compileItems cfg env fs stack dir syms rest st'
    | .ok (some (key, body, isFile), st') =>
      -- compileModule
      if hs : key ∈ stack then .error (.cyclic key, st')          -- checkCyclicImports (parent chain)
      else if key ∈ st'.cache then                                  -- loadCompiledModule (root)
        compileItems cfg env fs stack dir syms rest st'
      else
        let st1 := { st' with compiled := key :: st'.compiled }
        if body.parseErr then .error (.parse key, st1)
        else
          match compileItems cfg env fs (key :: stack) (childDir fs dir key isFile)
                  syms.forModule body.items st1 with
          | .error e => .error e
          | .ok st2 =>                                              -- storeCompiledModule
            compileItems cfg env fs stack dir syms rest { st2 with cache := key :: st2.cache }
termination_by (free (keys env fs) stack, items.length)
decreasing_by
  all_goals simp_wf
  all_goals first
    | (apply Prod.Lex.right; simp)
    | (apply Prod.Lex.left; exact free_cons_lt (resolveCore_mem h) hs)

/-- compileModule as a function of its own (same code as the branch above). `importer` is the
symbol table of the importing compiler. -/
def compileModule (cfg : Cfg) (env : Env) (fs : FS) (stack : List String) (dir : String) (importer : Syms)
    (key : String) (body : Body) (isFile : Bool) (st : St) : Res :=
  if key ∈ stack then .error (.cyclic key, st)
  else if key ∈ st.cache then .ok st
  else
    let st1 := { st with compiled := key :: st.compiled }
    if body.parseErr then .error (.parse key, st1)
    else
      match compileItems cfg env fs (key :: stack) (childDir fs dir key isFile)
              importer.forModule body.items st1 with
      | .error e => .error e
      | .ok st2 => .ok { st2 with cache := key :: st2.cache }

/-- One `Compile` of a main script. -/
def compileGraph (cfg : Cfg) (env : Env) (fs : FS) (main : List Item) : Res :=
  compileItems cfg env fs [] cfg.importDir ⟨cfg.builtins, cfg.hostVars⟩ main {}

/-! ### What an import expression and an export statement emit, and what a call of the module
function yields (micro model of the tail of a module function). -/

inductive Instr where
  | const (k : Nat)
  | call (nargs ellipsis : Nat)
  | immutable
  | ret (n : Nat)
  | tick            -- a module-level side effect (a call of a host-provided function)
  | push (v : Nat)  -- computes a (mutable, e.g. array) value identified by `v`
  deriving Repr, DecidableEq, Inhabited

/-- ImportExpr: source module ⇒ `CONST k; CALL 0 0`, builtin module ⇒ `CONST k`. -/
def emitImport (isSource : Bool) (k : Nat) : List Instr :=
  if isSource then [.const k, .call 0 0] else [.const k]

/-- ExportStmt inside a module (after the exported expression). -/
def emitExport : List Instr := [.immutable, .ret 1]

inductive Val where
  | undefined
  | mutable (v : Nat)
  | immutable (v : Nat)
  deriving Repr, DecidableEq, Inhabited

/-- How a module body ends. -/
inductive Ending where
  | export (v : Nat)      -- `export <value v>`
  | none                  -- no export: optimizeFunc appends `RET 0`
  | topReturn (v : Nat)   -- top-level `return <value v>` (accepted: the module body is a function scope)
  deriving Repr, DecidableEq, Inhabited

/-- Code of a module function: `ticks` side effects, then the ending. -/
def moduleCode (ticks : Nat) : Ending → List Instr
  | .export v => List.replicate ticks .tick ++ (.push v :: emitExport)
  | .none => List.replicate ticks .tick ++ [.ret 0]
  | .topReturn v => List.replicate ticks .tick ++ [.push v, .ret 1]

/-- Run a module function: (value on top of the stack, side effects so far) → (returned value, effects). -/
def runFn : List Instr → Val → Nat → Val × Nat
  | [], _, n => (.undefined, n)
  | .tick :: r, top, n => runFn r top (n + 1)
  | .push v :: r, _, n => runFn r (.mutable v) n
  | .immutable :: r, top, n =>
    runFn r (match top with | .mutable v => .immutable v | t => t) n
  | .ret 0 :: _, _, n => (.undefined, n)
  | .ret _ :: _, top, n => (top, n)
  | _ :: r, top, n => runFn r top n

/-- Evaluate the import expression of a source module `times` times (`CONST k; CALL 0 0` each time). -/
def evalImports (code : List Instr) : Nat → Nat → List Val × Nat
  | 0, n => ([], n)
  | t + 1, n =>
    let (v, n') := runFn code .undefined n
    let (vs, n'') := evalImports code t n'
    (v :: vs, n'')

end Tengo.Model.Modules

import Tengo.Model.Heap9
/-!
`copy(x)` over the heap model of C09 (stores, references, immutable flag), for C10 "a copy shares no mutable
state with its original". Core Lean only.

`Object.Copy()` as the Go methods behave now (objects.go):
* `*Array`, `*ImmutableArray`  → a NEW `*Array` (mutable) over a NEW backing array holding the copies of the elements;
* `*Map`, `*ImmutableMap`      → a NEW `*Map` (mutable) over a NEW Go map holding the copies of the values;
* `*Error`                     → a NEW `*Error` whose payload is the copy of the payload;
* scalars (undefined, int, string, and the opaque ones: bool, float, char, bytes, time) → the same value
  (Go allocates a new box / a new byte slice; none of them has an `IndexSet`, so the value is all there is);
* functions → in Go a new function object SHARING the captured free-variable cells (known finding C10-K2).
  The heap model has no cells: functions are opaque scalars. Values holding functions are therefore excluded
  from the theorems by the decidable predicate `dataN` / `isData` below.

The recursion is `Heap9.copyN` (the definition the C09 driver runs on every `copy` operation of the objops and
exhaustive streams, compared there with the real `Copy`), with the capacities Go's `append` happens to choose
for the new backing arrays as a parameter (`caps`, pre-order); the theorems hold for every choice.
Values of a heap may be cyclic (Go recurses forever: finding O9): `copyN` takes fuel, `copyVal` supplies
`objs.length + 2` and gives the heap and the value back unchanged when that does not suffice.
-/
namespace Tengo.Model.HeapCopy
open Tengo.Model.Heap9

/-- `copy(v)` with the capacities of the new backing arrays given (pre-order). -/
def copyValCaps (caps : List Nat) (h : Heap) (v : Val) : Heap × Val :=
  match copyN h.fuel h caps v with
  | some (h1, _, w) => (h1, w)
  | none => (h, v)

/-- `copy(v)`, every new backing array exactly as long as its contents. -/
def copyVal (h : Heap) (v : Val) : Heap × Val := copyValCaps [] h v

/-- Canonical texts of function values (`lib.Canon`: user, builtin, compiled functions). -/
def isFn (s : String) : Bool := s.startsWith "(uf" || s.startsWith "(bf" || s.startsWith "(fn"

/-- `dataN strict n h v`: everything reachable from `v` (error payloads included) is a tree of height `< n`
(so acyclic), with no retired object and no function value inside. With `strict` also no error value and no
scalar `Equals` cannot compare (NaN): the values on which `copy(v) == v` holds (known finding C10-K1). -/
def dataN (strict : Bool) : Nat → Heap → Val → Bool
  | 0, _, _ => false
  | n + 1, h, v =>
    match v with
    | .opq s => if strict then opqComparable s else !isFn s
    | .ref r =>
      match h.obj r with
      | .arr _ s off len _ => (h.content s off len).all (dataN strict n h)
      | .map _ s => ((h.mstore s).map Prod.snd).all (dataN strict n h)
      | .err p => !strict && dataN strict n h p
      | .dead => false
    | _ => true

/-- A data value: acyclic, closure-free (fuel of `copyVal`). -/
def isData (h : Heap) (v : Val) : Bool := dataN false h.fuel h v

/-- A data value without errors and NaN. -/
def isPlain (h : Heap) (v : Val) : Bool := dataN true h.fuel h v

/-! ### Cells and the executable reachable set (used by the `copyheap` driver line and by the proofs) -/

/-- A piece of mutable state of the heap: an object header, a backing array, a Go map. -/
inductive Cell where
  | obj (r : Nat)
  | arr (s : Nat)
  | map (s : Nat)
  deriving DecidableEq, Repr

def cellsL (f : Val → Option (List Cell)) : List Val → Option (List Cell)
  | [] => some []
  | v :: vs =>
    match f v, cellsL f vs with
    | some a, some b => some (a ++ b)
    | _, _ => none

/-- The cells reachable from `v` (`none`: out of fuel, e.g. a cyclic value). -/
def cellsN : Nat → Heap → Val → Option (List Cell)
  | 0, _, _ => none
  | n + 1, h, v =>
    match v with
    | .ref r =>
      match h.obj r with
      | .arr _ s off len _ => (cellsL (cellsN n h) (h.content s off len)).map (fun l => .obj r :: .arr s :: l)
      | .map _ s => (cellsL (cellsN n h) ((h.mstore s).map Prod.snd)).map (fun l => .obj r :: .map s :: l)
      | .err p => (cellsN n h p).map (fun l => .obj r :: l)
      | .dead => some [.obj r]
    | _ => some []

/-- Allocated after `h`, as a test. -/
def Cell.isNewIn (h : Heap) : Cell → Bool
  | .obj r => decide (h.objs.length ≤ r)
  | .arr s => decide (h.astores.length ≤ s)
  | .map s => decide (h.mstores.length ≤ s)

/-- What the `copyheap` driver line answers for `copy(v)`:
`<snapshot of the copy> ; <snapshot of the original afterwards> ; data0|1 ; fresh0|1 ; sep0|1` —
`fresh`: every cell reachable from the copy was allocated by the copy; `sep`: the copy and the original reach no
common cell (both computed on the model heap; proved to be 1 for data values: `copy_fresh`, `copy_disjoint`). -/
def copyReport (h : Heap) (v : Val) : String :=
  let p := copyVal h v
  let bit : Bool → String := fun b => if b then "1" else "0"
  let cc := cellsN p.1.fuel p.1 p.2
  let co := cellsN p.1.fuel p.1 v
  let fresh := match cc with | some l => l.all (Cell.isNewIn h) | none => false
  let sep := match cc, co with | some a, some b => a.all (fun c => !b.contains c) | _, _ => false
  snap p.1 p.2 ++ " ; " ++ snap p.1 v ++ " ; data" ++ bit (isData h v) ++ " ; fresh" ++ bit fresh ++ " ; sep" ++ bit sep

end Tengo.Model.HeapCopy

/-!
Tokens of token/token.go, hand-written. `Props/C20.lean` proves this table (constant names, numeric
values, spellings, precedence, literal/operator/keyword ranges) equal to the regenerated
`Tengo.Gen.Tokens`. Core Lean only.
-/
namespace Tengo.Model.Token

abbrev Bs := List UInt8

inductive Tok where
  | Illegal | EOF | Comment
  | Ident | Int | Float | Char | String
  | Add | Sub | Mul | Quo | Rem | And | Or | Xor | Shl | Shr | AndNot
  | AddAssign | SubAssign | MulAssign | QuoAssign | RemAssign | AndAssign | OrAssign | XorAssign
  | ShlAssign | ShrAssign | AndNotAssign
  | LAnd | LOr | Inc | Dec | Equal | Less | Greater | Assign | Not | NotEqual | LessEq | GreaterEq
  | Define | Ellipsis | LParen | LBrack | LBrace | Comma | Period | RParen | RBrack | RBrace
  | Semicolon | Colon | Question
  | Break | Continue | Else | For | Func | Error | Immutable | If | Return | Export | True | False
  | In | Undefined | Import
  deriving DecidableEq, Repr, Inhabited

namespace Tok

/-- Every token, in declaration order (the unexported range markers are not tokens). -/
def all : List Tok :=
  [Illegal, EOF, Comment, Ident, Int, Float, Char, String,
   Add, Sub, Mul, Quo, Rem, And, Or, Xor, Shl, Shr, AndNot,
   AddAssign, SubAssign, MulAssign, QuoAssign, RemAssign, AndAssign, OrAssign, XorAssign,
   ShlAssign, ShrAssign, AndNotAssign,
   LAnd, LOr, Inc, Dec, Equal, Less, Greater, Assign, Not, NotEqual, LessEq, GreaterEq,
   Define, Ellipsis, LParen, LBrack, LBrace, Comma, Period, RParen, RBrack, RBrace,
   Semicolon, Colon, Question,
   Break, Continue, Else, For, Func, Error, Immutable, If, Return, Export, True, False,
   In, Undefined, Import]

/-- Name of the Go constant. -/
def name : Tok → _root_.String
  | Illegal => "Illegal" | EOF => "EOF" | Comment => "Comment" | Ident => "Ident" | Int => "Int"
  | Float => "Float" | Char => "Char" | String => "String" | Add => "Add" | Sub => "Sub" | Mul => "Mul"
  | Quo => "Quo" | Rem => "Rem" | And => "And" | Or => "Or" | Xor => "Xor" | Shl => "Shl" | Shr => "Shr"
  | AndNot => "AndNot" | AddAssign => "AddAssign" | SubAssign => "SubAssign" | MulAssign => "MulAssign"
  | QuoAssign => "QuoAssign" | RemAssign => "RemAssign" | AndAssign => "AndAssign" | OrAssign => "OrAssign"
  | XorAssign => "XorAssign" | ShlAssign => "ShlAssign" | ShrAssign => "ShrAssign"
  | AndNotAssign => "AndNotAssign" | LAnd => "LAnd" | LOr => "LOr" | Inc => "Inc" | Dec => "Dec"
  | Equal => "Equal" | Less => "Less" | Greater => "Greater" | Assign => "Assign" | Not => "Not"
  | NotEqual => "NotEqual" | LessEq => "LessEq" | GreaterEq => "GreaterEq" | Define => "Define"
  | Ellipsis => "Ellipsis" | LParen => "LParen" | LBrack => "LBrack" | LBrace => "LBrace" | Comma => "Comma"
  | Period => "Period" | RParen => "RParen" | RBrack => "RBrack" | RBrace => "RBrace"
  | Semicolon => "Semicolon" | Colon => "Colon" | Question => "Question" | Break => "Break"
  | Continue => "Continue" | Else => "Else" | For => "For" | Func => "Func" | Error => "Error"
  | Immutable => "Immutable" | If => "If" | Return => "Return" | Export => "Export" | True => "True"
  | False => "False" | In => "In" | Undefined => "Undefined" | Import => "Import"

/-- Numeric value of the Go constant (iota, range markers included in the count). -/
def code : Tok → Nat
  | Illegal => 0 | EOF => 1 | Comment => 2
  | Ident => 4 | Int => 5 | Float => 6 | Char => 7 | String => 8
  | Add => 11 | Sub => 12 | Mul => 13 | Quo => 14 | Rem => 15 | And => 16 | Or => 17 | Xor => 18
  | Shl => 19 | Shr => 20 | AndNot => 21 | AddAssign => 22 | SubAssign => 23 | MulAssign => 24
  | QuoAssign => 25 | RemAssign => 26 | AndAssign => 27 | OrAssign => 28 | XorAssign => 29
  | ShlAssign => 30 | ShrAssign => 31 | AndNotAssign => 32 | LAnd => 33 | LOr => 34 | Inc => 35
  | Dec => 36 | Equal => 37 | Less => 38 | Greater => 39 | Assign => 40 | Not => 41 | NotEqual => 42
  | LessEq => 43 | GreaterEq => 44 | Define => 45 | Ellipsis => 46 | LParen => 47 | LBrack => 48
  | LBrace => 49 | Comma => 50 | Period => 51 | RParen => 52 | RBrack => 53 | RBrace => 54
  | Semicolon => 55 | Colon => 56 | Question => 57
  | Break => 60 | Continue => 61 | Else => 62 | For => 63 | Func => 64 | Error => 65 | Immutable => 66
  | If => 67 | Return => 68 | Export => 69 | True => 70 | False => 71 | In => 72 | Undefined => 73
  | Import => 74

/-- `Token.String()`: the spelling in the `tokens` array. -/
def str : Tok → _root_.String
  | Illegal => "ILLEGAL" | EOF => "EOF" | Comment => "COMMENT" | Ident => "IDENT" | Int => "INT"
  | Float => "FLOAT" | Char => "CHAR" | String => "STRING" | Add => "+" | Sub => "-" | Mul => "*"
  | Quo => "/" | Rem => "%" | And => "&" | Or => "|" | Xor => "^" | Shl => "<<" | Shr => ">>"
  | AndNot => "&^" | AddAssign => "+=" | SubAssign => "-=" | MulAssign => "*=" | QuoAssign => "/="
  | RemAssign => "%=" | AndAssign => "&=" | OrAssign => "|=" | XorAssign => "^=" | ShlAssign => "<<="
  | ShrAssign => ">>=" | AndNotAssign => "&^=" | LAnd => "&&" | LOr => "||" | Inc => "++" | Dec => "--"
  | Equal => "==" | Less => "<" | Greater => ">" | Assign => "=" | Not => "!" | NotEqual => "!="
  | LessEq => "<=" | GreaterEq => ">=" | Define => ":=" | Ellipsis => "..." | LParen => "("
  | LBrack => "[" | LBrace => "{" | Comma => "," | Period => "." | RParen => ")" | RBrack => "]"
  | RBrace => "}" | Semicolon => ";" | Colon => ":" | Question => "?" | Break => "break"
  | Continue => "continue" | Else => "else" | For => "for" | Func => "func" | Error => "error"
  | Immutable => "immutable" | If => "if" | Return => "return" | Export => "export" | True => "true"
  | False => "false" | In => "in" | Undefined => "undefined" | Import => "import"

/-- `Token.Precedence()`; 0 is `LowestPrec` (not a binary operator). -/
def prec : Tok → Nat
  | LOr => 1
  | LAnd => 2
  | Equal | NotEqual | Less | LessEq | Greater | GreaterEq => 3
  | Add | Sub | Or | Xor => 4
  | Mul | Quo | Rem | Shl | Shr | And | AndNot => 5
  | _ => 0

/-- Range markers of the const block. -/
def literalBeg : Nat := 3
def literalEnd : Nat := 9
def operatorBeg : Nat := 10
def operatorEnd : Nat := 58
def keywordBeg : Nat := 59
def keywordEnd : Nat := 75

def isLiteral (t : Tok) : Bool := literalBeg < t.code && t.code < literalEnd
def isOperator (t : Tok) : Bool := operatorBeg < t.code && t.code < operatorEnd
def isKeyword (t : Tok) : Bool := keywordBeg < t.code && t.code < keywordEnd

/-- The keyword tokens (`init()` fills the `keywords` map from this range). -/
def keywords : List Tok := all.filter isKeyword

/-- Spelling as bytes (every spelling is ASCII; `String.toList` reduces in the kernel). -/
def bytes (t : Tok) : Bs := t.str.toList.map (fun c => UInt8.ofNat c.toNat)

/-- `token.Lookup`. -/
def lookup (ident : Bs) : Tok :=
  match keywords.find? (fun k => k.bytes == ident) with
  | some k => k
  | none => Ident

end Tok
end Tengo.Model.Token

import Tengo.Model.Bytecode
/-!
Model of `(*Compiler).optimizeFunc` (compiler.go): dead-code elimination after RETURN, jump
re-targeting, source-map rebuild, trailing-return insertion. Core Lean only.
-/
namespace Tengo.Model.Optimizer
open Tengo.Model Tengo.Model.Opcodes

/-- pass 1: all jump destinations. -/
def dsts (is : List Instr) : List Nat :=
  is.filterMap (fun i => if isJump i.op then i.args.head? else none)

/-- pass 2 as a marking: `true` = the instruction is kept. `dead` is the Go variable `deadCode`. -/
def marks (ds : List Nat) : Bool → List Instr → List Bool
  | _, [] => []
  | dead, i :: is =>
    if ds.contains i.pos then true :: marks ds false is
    else if i.op == opReturn then
      (if dead then false :: marks ds true is else true :: marks ds true is)
    else if dead then false :: marks ds true is
    else true :: marks ds false is

def keepMarked : List Instr → List Bool → List Instr
  | i :: is, true :: ms => i :: keepMarked is ms
  | _ :: is, false :: ms => keepMarked is ms
  | _, _ => []

/-- The kept instructions, still carrying their OLD positions. -/
def kept (is : List Instr) : List Instr := keepMarked is (marks (dsts is) false is)

/-- New byte offsets of a list of instructions laid out from `start`. -/
def layout : Nat → List Instr → List (Instr × Nat)
  | _, [] => []
  | start, i :: is => (i, start) :: layout (start + i.size) is

def totalSize (is : List Instr) : Nat := (is.map Instr.size).sum

/-- old position ↦ new position of kept instructions (`posMap`). -/
def posMap (k : List Instr) : List (Nat × Nat) := (layout 0 k).map (fun (i, n) => (i.pos, n))

structure Result where
  insts     : List Instr          -- final instructions with NEW positions and re-targeted jumps
  bytes     : Bytes
  srcMap    : List (Nat × Nat)    -- sorted by offset
  appended  : Bool
  deriving Repr

inductive Outcome where
  | ok (r : Result)
  | panic (why : String)          -- "invalid jump position" or undecodable stream
  deriving Repr

/-- pass 3 on one instruction: `none` = panic. Returns the re-targeted instruction and whether it
jumps to the function end. -/
def retarget (pm : List (Nat × Nat)) (endPos newEnd : Nat) (i : Instr) (newPos : Nat) : Option (Instr × Bool) :=
  if isJump i.op then
    match i.args.head? with
    | none => none
    | some t =>
      match pm.lookup t with
      | some n => some ({ pos := newPos, op := i.op, args := [n] }, false)
      | none => if t == endPos then some ({ pos := newPos, op := i.op, args := [newEnd] }, true) else none
  else some ({ i with pos := newPos }, false)

def retargetAll (pm : List (Nat × Nat)) (endPos newEnd : Nat) : List (Instr × Nat) → Option (List Instr × Bool)
  | [] => some ([], false)
  | (i, n) :: rest =>
    match retarget pm endPos newEnd i n, retargetAll pm endPos newEnd rest with
    | some (i', e), some (is', e') => some (i' :: is', e || e')
    | _, _ => none

def insertSorted (p : Nat × Nat) : List (Nat × Nat) → List (Nat × Nat)
  | [] => [p]
  | q :: qs => if p.1 < q.1 then p :: q :: qs else if p.1 == q.1 then p :: qs else q :: insertSorted p qs

def sortMap (m : List (Nat × Nat)) : List (Nat × Nat) := m.foldl (fun acc p => insertSorted p acc) []

/-- `optimizeFunc` on a decoded function. `endPos` is the byte length of the input, `retPos` the
source position `emit` records for an appended RETURN (the function literal's position). -/
def optInstrs (is : List Instr) (endPos : Nat) (srcMap : List (Nat × Nat)) (retPos : Nat) : Outcome :=
  let k := kept is
  let pm := posMap k
  let newEnd := totalSize k
  match retargetAll pm endPos newEnd (layout 0 k) with
  | none => .panic "invalid jump position"
  | some (out, jumpsToEnd) =>
    let lastOp := match k.getLast? with
      | some i => i.op
      | none => 0
    let app := jumpsToEnd || lastOp != opReturn
    let sm := srcMap.filterMap (fun (p, s) => (pm.lookup p).map (fun n => (n, s)))
    let out' := if app then out ++ [{ pos := newEnd, op := opReturn, args := [0] }] else out
    let sm' := if app then sm ++ [(newEnd, retPos)] else sm
    .ok { insts := out', bytes := encode out', srcMap := sortMap sm', appended := app }

/-- `optimizeFunc` on bytes. -/
def opt (bs : Bytes) (srcMap : List (Nat × Nat)) (retPos : Nat) : Outcome :=
  match decode bs with
  | none => .panic "undecodable"
  | some is => optInstrs is bs.length srcMap retPos

end Tengo.Model.Optimizer

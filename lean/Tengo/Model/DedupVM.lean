import Tengo.Model.Dedup
import Tengo.Model.RenumCheck
/-!
The bridge between the two models of C12:

* `Tengo.Model.Dedup` — `RemoveDuplicates` + `updateConstIndexes` over an abstract constant pool
  (`Dedup.Const`, `Dedup.Bytecode`), and
* `Tengo.Model.VM` — the whole-VM model (`Code`, `Const (.val v | .fn f ref)`) with the decidable
  renumbering check `checkRenum` (`Tengo.Model.RenumCheck`).

`toDedup` abstracts a VM program to a pool of the `Dedup` model; `renumCode` turns the `Dedup` model's
output back into a VM program (value constants are *taken from the original pool* at the first index
that maps to the new index, function bodies from the model's rewritten bytes); `dedupCode` composes the
three. `Tengo.Proofs.C12Renum` proves that for every program that passes `checkDedupPre` the result
passes `checkRenum` against the original — for every such program, not per evaluated program.

Pointer identity of function constants (the key of the Go map `fns`) is a parameter `ptr : index → Nat`:
`refPtr code` (the `ref` of the constant: constants that stand for the same function object are the same
pointer) or `id` (all function constants are different pointers — the programs the harness sends).
Core Lean only.
-/
namespace Tengo.Model.VM
open Tengo.Model Tengo.Model.Opcodes Tengo.Model.Spec

/-- A function constant as the `Dedup` model sees it (no source map: the VM model has none). -/
def toDfn (p : Nat) (f : Fn) : Dedup.Fn :=
  { ptr := p, insts := f.insts.toList, numLocals := f.numLocals, numParams := f.numParams, varargs := f.varargs,
    srcMap := [] }

/-- The abstract pool entry of a constant: value constants by kind (`Float` by its bit pattern), every
other value ↦ `other` (the default arm of the type switch), function constants with pointer `ptr k`. -/
def toDconst (ptr : Nat → Nat) (k : Nat) : Const → Dedup.Const
  | .val (.int v) => .int v
  | .val (.float x) => .float x.toBits.toNat
  | .val (.char v) => .char v
  | .val (.str b) => .str b
  | .val _ => .other
  | .fn f _ => .fn (toDfn (ptr k) f)

/-- The program as the `Dedup` model sees it. -/
def toDedup (ptr : Nat → Nat) (code : Code) : Dedup.Bytecode :=
  { main := code.main.insts.toList, mainSrcMap := [],
    consts := code.consts.toList.mapIdx (fun k c => toDconst ptr k c) }

/-- Pointer identity by `ref`: function constants with the same `ref` are the same object. -/
def refPtr (code : Code) (k : Nat) : Nat :=
  match code.consts[k]? with
  | some (.fn _ r) => r
  | _ => 0

/-- The constant at new index `j`: the original constant at the first old index that maps to `j`
(value constants are never compared or rebuilt); a function constant gets the model's rewritten bytes. -/
def renumConst (code : Code) (bc' : Dedup.Bytecode) (m : List Nat) (j : Nat) : Const :=
  match code.consts[m.findIdx (· == j)]?, bc'.consts[j]? with
  | some (.fn f r), some (.fn g) => .fn { f with insts := g.insts.toArray } r
  | some c, _ => c
  | none, _ => .val .undef

/-- The VM program that the `Dedup` model's output `(bc', m)` stands for. -/
def renumCode (code : Code) (bc' : Dedup.Bytecode) (m : List Nat) : Code :=
  { main := { code.main with insts := bc'.main.toArray },
    consts := ((List.range bc'.consts.length).map (renumConst code bc' m)).toArray }

/-- `RemoveDuplicates` on a VM program, through the `Dedup` model: the new program and the index map.
`none` = the Go code panics. -/
def dedupCode (ptr : Nat → Nat) (code : Code) : Option (Code × List Nat) :=
  match Dedup.dedup (toDedup ptr code) with
  | .ok (bc', m) => some (renumCode code bc' m, m)
  | .error _ => none

/-- Instruction starts of a function (decoded positions). -/
def instrStarts (f : Fn) : List Nat :=
  match decode f.insts.toList with
  | some is => is.map (·.pos)
  | none => []

/-- Instruction starts per function index (`0` = main, `k + 1` = function constant `k`). -/
def codeStarts (code : Code) (idx : Nat) : List Nat :=
  match code.fn idx with
  | some f => instrStarts f
  | none => []

/-! ### the decidable precondition -/

def fnEqB (f g : Fn) : Bool :=
  f.insts.toList == g.insts.toList && f.numLocals == g.numLocals && f.numParams == g.numParams &&
    f.varargs == g.varargs

/-- One function: it decodes, is not empty, every CONST / CLOSURE operand is an index of the pool, every
CLOSURE operand names a function constant, every jump lands on an instruction, and no instruction that can
fall through is the last one. -/
def fnPreB (code : Code) (f : Fn) : Bool :=
  match decode f.insts.toList with
  | none => false
  | some is =>
    !is.isEmpty &&
    is.all (fun i =>
      (!Dedup.isConstRef i.op ||
        (match i.args.head? with
         | some c => decide (c < code.consts.size)
         | none => false)) &&
      (i.op != opClosure ||
        (match code.consts[i.args.headD 0]? with
         | some (.fn _ _) => true
         | _ => false)) &&
      (!isJump i.op ||
        (match i.args.head? with
         | some t => is.any (fun j => j.pos == t)
         | none => false)) &&
      (!canFallB i.op || i.pos + i.size != f.insts.size))

/-- Function constants with the same pointer are the same function with the same `ref`. -/
def ptrOKB (ptr : Nat → Nat) (code : Code) : Bool :=
  (List.range code.consts.size).all (fun k1 =>
    (List.range code.consts.size).all (fun k2 =>
      k1 == k2 || ptr k1 != ptr k2 ||
        match code.consts[k1]?, code.consts[k2]? with
        | some (.fn f1 r1), some (.fn f2 r2) => fnEqB f1 f2 && r1 == r2
        | _, _ => true))

/-- The precondition of the universal theorem (`Tengo.Proofs.C12Renum.dedup_code_renum`). -/
def checkDedupPre (ptr : Nat → Nat) (code : Code) : Bool :=
  decide (code.consts.size ≤ 65536) &&
  (List.range (code.consts.size + 1)).all (fun idx =>
    match code.fn idx with
    | some f => fnPreB code f
    | none => true) &&
  ptrOKB ptr code

/-- No two float constants at different indexes are equal as Go map keys (`+0 == -0`, NaN equals
nothing): the model never merges two float constants. (Sufficient for `FloatsOK`; needed only for the
agreement of the value constants — `Float` has no provable equality in core Lean.) -/
def floatsDistinctB (code : Code) : Bool :=
  (List.range code.consts.size).all (fun k1 =>
    (List.range code.consts.size).all (fun k2 =>
      k1 == k2 ||
        match code.consts[k1]?, code.consts[k2]? with
        | some (.val (.float x)), some (.val (.float y)) => !Dedup.floatEq x.toBits.toNat y.toBits.toNat
        | _, _ => true))

/-! ### is a given program the model's output? -/

/-- Same program up to the value constants (compared as written by the driver) and the `ref`s (assigned by
the driver, not part of the real program): same main, as many constants, value constants at the same
indexes, function constants with the same bytes and frame layout. -/
def sameUpToValsB (c c' : Code) : Bool :=
  fnEqB c.main c'.main && c.consts.size == c'.consts.size &&
  (List.range c.consts.size).all (fun j =>
    match c.consts[j]?, c'.consts[j]? with
    | some (.val _), some (.val _) => true
    | some (.fn f _), some (.fn g _) => fnEqB f g
    | _, _ => false)

/-- The real de-duplicated program `code'` (as parsed by the driver) is what the model makes of `code`,
with the index map `tab`. -/
def outputIsModel (ptr : Nat → Nat) (code code' : Code) (tab : List Nat) : Bool :=
  match dedupCode ptr code with
  | some (c, m) => m == tab && sameUpToValsB c code'
  | none => false

end Tengo.Model.VM

/-!
# C06 — resource limits (model)

Core Lean only (linked into the driver).

* (a) `Expect.*`: the tables the extractor must find in /repo (`Tengo.Gen.AllocSites`): which opcode
  cases of `VM.run` count one tracked allocation, that each decrement is tested against zero before
  the result is stored, the single reset in `VM.Run`, the frame check, the fixed arrays, and every
  comparison against `MaxStringLen` / `MaxBytesLen`.
* (b) the budget machine: any step function whose steps may be tagged `alloc`, wrapped with the
  counter exactly as `VM.Run`/`VM.run` do (`allocs = maxAllocs + 1` in int64 arithmetic, `allocs--`
  at each allocating step, `== 0` ⇒ allocation-limit error before the result is stored).
* (c) the length guards of the core operators with the limit as an explicit parameter.
* (d) the frame counter (`framesIndex`, `MaxFrames`).
-/
namespace Tengo.Model.Limits

/-! ## (a) expected tables -/
namespace Expect

/-- a checked site: test follows the decrement, the store follows the test, nothing stored before -/
def ok (path : List String) : List String × Bool × Bool × Bool := (path, true, true, false)

/-- One row per `case` of the dispatch switch of `VM.run`, in source order. A row lists the tracked
allocations of the case; the path names the sub-case (type-switch arm / else branch) so that at most
one decrement lies on any path through the case. -/
def allocSites : List (String × List (List String × Bool × Bool × Bool)) := [
  ("OpConstant", []),
  ("OpNull", []),
  ("OpBinaryOp", [ok []]),
  ("OpEqual", []),
  ("OpNotEqual", []),
  ("OpPop", []),
  ("OpTrue", []),
  ("OpFalse", []),
  ("OpLNot", []),
  ("OpBComplement", [ok ["case *Int"]]),
  ("OpMinus", [ok ["case *Int"], ok ["case *Float"]]),
  ("OpJumpFalsy", []),
  ("OpAndJump", []),
  ("OpOrJump", []),
  ("OpJump", []),
  ("OpSetGlobal", []),
  ("OpSetSelGlobal", []),
  ("OpGetGlobal", []),
  ("OpArray", [ok []]),
  ("OpMap", [ok []]),
  ("OpError", [ok []]),
  ("OpImmutable", [ok ["case *Array"], ok ["case *Map"]]),
  ("OpIndex", []),
  ("OpSliceIndex", [ok ["case *Array"], ok ["case *ImmutableArray"], ok ["case *String"], ok ["case *Bytes"]]),
  ("OpCall", [ok ["else"]]),
  ("OpReturn", []),
  ("OpDefineLocal", []),
  ("OpSetLocal", []),
  ("OpSetSelLocal", []),
  ("OpGetLocal", []),
  ("OpGetBuiltin", []),
  ("OpClosure", [ok []]),
  ("OpGetFreePtr", []),
  ("OpGetFree", []),
  ("OpSetFree", []),
  ("OpGetLocalPtr", []),
  ("OpSetSelFree", []),
  ("OpIteratorInit", [ok []]),
  ("OpIteratorNext", []),
  ("OpIteratorKey", []),
  ("OpIteratorValue", []),
  ("OpSuspend", []),
  ("default", [])
]

def allocsOtherWrites : List (String × String) := [("VM.Run", "allocs=maxAllocs+1")]

def frameChecks : List (String × String × String × Bool × Bool) :=
  [("OpCall", "framesIndex>=MaxFrames", "ErrStackOverflow", true, true)]

def vmArrays : List (String × String) := [("stack", "StackSize"), ("frames", "MaxFrames")]

def lenChecks : List (String × String × String × String × String × String × String) := [
  ("builtins.go", "builtinTypeName", "MaxStringLen", ">", "len", "ErrStringLimit", "return"),
  ("builtins.go", "builtinString", "MaxStringLen", ">", "len", "ErrStringLimit", "return"),
  ("builtins.go", "builtinBytes", "MaxBytesLen", ">", "n", "ErrBytesLimit", "return"),
  ("builtins.go", "builtinBytes", "MaxBytesLen", ">", "len", "ErrBytesLimit", "return"),
  ("compiler.go", "Compiler.Compile", "MaxStringLen", ">", "len", "ErrStringLimit", "return"),
  ("compiler.go", "Compiler.Compile", "MaxStringLen", ">", "len", "ErrStringLimit", "return"),
  ("formatter.go", "formatter.writePadding", "MaxStringLen", ">", "n", "ErrStringLimit", "panic"),
  ("formatter.go", "formatter.fmtSbx", "MaxStringLen", ">", "len+n", "ErrStringLimit", "panic"),
  ("formatter.go", "fmtbuf.Write", "MaxStringLen", ">", "len+len", "ErrStringLimit", "panic"),
  ("formatter.go", "fmtbuf.WriteString", "MaxStringLen", ">", "len+len", "ErrStringLimit", "panic"),
  ("formatter.go", "fmtbuf.WriteSingleByte", "MaxStringLen", ">=", "len", "ErrStringLimit", "panic"),
  ("formatter.go", "fmtbuf.WriteRune", "MaxStringLen", ">", "len+call", "ErrStringLimit", "panic"),
  ("objects.go", "Bytes.BinaryOp", "MaxBytesLen", ">", "len+len", "ErrBytesLimit", "return"),
  ("objects.go", "Map.IndexSet", "MaxStringLen", ">", "len", "ErrStringLimit", "return"),
  ("objects.go", "String.BinaryOp", "MaxStringLen", ">", "len+len", "ErrStringLimit", "return"),
  ("objects.go", "String.BinaryOp", "MaxStringLen", ">", "len+len", "ErrStringLimit", "return"),
  ("tengo.go", "FromInterface", "MaxStringLen", ">", "len", "ErrStringLimit", "return"),
  ("tengo.go", "FromInterface", "MaxBytesLen", ">", "len", "ErrBytesLimit", "return"),
  ("stdlib/fmt.go", "getPrintArgs", "MaxStringLen", ">", "n+n", "ErrStringLimit", "return"),
  ("stdlib/func_typedefs.go", "FuncARS", "MaxStringLen", ">", "len", "ErrStringLimit", "return"),
  ("stdlib/func_typedefs.go", "FuncARSE", "MaxStringLen", ">", "len", "ErrStringLimit", "return"),
  ("stdlib/func_typedefs.go", "FuncARYE", "MaxBytesLen", ">", "len", "ErrBytesLimit", "return"),
  ("stdlib/func_typedefs.go", "FuncARSs", "MaxStringLen", ">", "len", "ErrStringLimit", "return"),
  ("stdlib/func_typedefs.go", "FuncASRS", "MaxStringLen", ">", "len", "ErrStringLimit", "return"),
  ("stdlib/func_typedefs.go", "FuncASRSs", "MaxStringLen", ">", "len", "ErrStringLimit", "return"),
  ("stdlib/func_typedefs.go", "FuncASRSE", "MaxStringLen", ">", "len", "ErrStringLimit", "return"),
  ("stdlib/func_typedefs.go", "FuncASSRSs", "MaxStringLen", ">", "len", "ErrStringLimit", "return"),
  ("stdlib/func_typedefs.go", "FuncASSIRSs", "MaxStringLen", ">", "len", "ErrStringLimit", "return"),
  ("stdlib/func_typedefs.go", "FuncASSRS", "MaxStringLen", ">", "len", "ErrStringLimit", "return"),
  ("stdlib/func_typedefs.go", "FuncASsSRS", "MaxStringLen", ">", "len", "ErrStringLimit", "return"),
  ("stdlib/func_typedefs.go", "FuncASIRS", "MaxStringLen", ">", "len", "ErrStringLimit", "return"),
  ("stdlib/func_typedefs.go", "FuncASRYE", "MaxBytesLen", ">", "len", "ErrBytesLimit", "return"),
  ("stdlib/func_typedefs.go", "FuncAIRSsE", "MaxStringLen", ">", "len", "ErrStringLimit", "return"),
  ("stdlib/func_typedefs.go", "FuncAIRS", "MaxStringLen", ">", "len", "ErrStringLimit", "return"),
  ("stdlib/os.go", "osReadFile", "MaxBytesLen", ">", "len", "ErrBytesLimit", "return"),
  ("stdlib/os.go", "osArgs", "MaxStringLen", ">", "len", "ErrStringLimit", "return"),
  ("stdlib/os.go", "osLookupEnv", "MaxStringLen", ">", "len", "ErrStringLimit", "return"),
  ("stdlib/os.go", "osExpandEnv", "MaxStringLen", ">", "n", "none", "none"),
  ("stdlib/os.go", "osExpandEnv", "MaxStringLen", ">", "len", "ErrStringLimit", "return"),
  ("stdlib/text.go", "textPadLeft", "MaxStringLen", ">", "n", "ErrStringLimit", "return"),
  ("stdlib/text.go", "textPadRight", "MaxStringLen", ">", "n", "ErrStringLimit", "return"),
  ("stdlib/text.go", "textRepeat", "MaxStringLen", ">", "len*n", "ErrStringLimit", "return"),
  ("stdlib/text.go", "textJoin", "MaxStringLen", ">", "n+len*(len-1)", "ErrStringLimit", "return"),
  ("stdlib/text.go", "doTextReplace", "MaxStringLen", ">", "n+len+len", "none", "none"),
  ("stdlib/text.go", "doTextReplace", "MaxStringLen", ">", "n+len", "none", "none"),
  ("stdlib/text_regexp.go", "doTextRegexpReplace", "MaxStringLen", ">", "len+n-n+len", "none", "none"),
  ("stdlib/text_regexp.go", "doTextRegexpReplace", "MaxStringLen", ">", "len+len-n", "none", "none"),
  ("stdlib/times.go", "timesTimeFormat", "MaxStringLen", ">", "len", "ErrStringLimit", "return")
]

def bufStores : List (String × Bool) :=
  [("formatter.writePadding", true), ("formatter.fmtSbx", true), ("fmtbuf.Write", true),
   ("fmtbuf.WriteString", true), ("fmtbuf.WriteSingleByte", true), ("fmtbuf.WriteRune", true)]

end Expect

/-- every decrement of a table is tested immediately, and its result is stored only after the test -/
def sitesChecked (t : List (String × List (List String × Bool × Bool × Bool))) : Bool :=
  t.all fun (_, sites) => sites.all fun (_, tested, storeAfter, storeBefore) => tested && storeAfter && !storeBefore

/-- no two decrements of one opcode case lie on the same path (equal or nested sub-case paths) -/
def pathsDisjoint (t : List (String × List (List String × Bool × Bool × Bool))) : Bool :=
  t.all fun (_, sites) =>
    let ps := sites.map (·.1)
    (List.range ps.length).all fun i => (List.range ps.length).all fun j =>
      i == j || !((ps.getD i []).isPrefixOf (ps.getD j []))

/-- number of tracked allocation sites of a table -/
def siteCount (t : List (String × List (List String × Bool × Bool × Bool))) : Nat :=
  (t.map (·.2.length)).foldl (· + ·) 0

/-! ## (b) the budget machine -/

/-- One step of a machine. `alloc s'`: the step performs one tracked allocation and `s'` is the state
after its result has been stored. -/
inductive StepResult (σ ε : Type) where
  | cont (s : σ)
  | alloc (s : σ)
  | halt
  | fail (e : ε)

structure Machine (σ ε : Type) where
  step : σ → StepResult σ ε

inductive Outcome (σ ε : Type) where
  /-- normal end in state `s` -/
  | ok (s : σ)
  /-- run-time error `e` raised by the step from state `s` -/
  | fail (e : ε) (s : σ)
  /-- the allocation attempted from state `s` was refused; its result was never stored -/
  | allocLimit (s : σ)
  | outOfFuel (s : σ)
deriving DecidableEq, Repr

def Outcome.isAllocLimit {σ ε : Type} : Outcome σ ε → Bool
  | .allocLimit _ => true
  | _ => false

/-- outcome and the number of tracked allocations performed (results stored) -/
structure Result (σ ε : Type) where
  outcome : Outcome σ ε
  allocs : Nat
deriving DecidableEq, Repr

def Result.bump {σ ε : Type} (r : Result σ ε) : Result σ ε := ⟨r.outcome, r.allocs + 1⟩

/-- the run without any counter -/
def runFree {σ ε : Type} (m : Machine σ ε) : Nat → σ → Result σ ε
  | 0, s => ⟨.outOfFuel s, 0⟩
  | f + 1, s =>
    match m.step s with
    | .cont s' => runFree m f s'
    | .alloc s' => (runFree m f s').bump
    | .halt => ⟨.ok s, 0⟩
    | .fail e => ⟨.fail e s, 0⟩

/-- `VM.run` around the machine: `c` is the `allocs` field (int64, wrapping). -/
def runCounted {σ ε : Type} (m : Machine σ ε) : Nat → BitVec 64 → σ → Result σ ε
  | 0, _, s => ⟨.outOfFuel s, 0⟩
  | f + 1, c, s =>
    match m.step s with
    | .cont s' => runCounted m f c s'
    | .alloc s' =>
      let c' := c - 1                              -- v.allocs--
      if c' = 0 then ⟨.allocLimit s, 0⟩            -- if v.allocs == 0 { v.err = ErrObjectAllocLimit; return }
      else (runCounted m f c' s').bump             -- v.stack[..] = result
    | .halt => ⟨.ok s, 0⟩
    | .fail e => ⟨.fail e s, 0⟩

/-- `v.allocs = v.maxAllocs + 1` -/
def initCounter (maxAllocs : Int) : BitVec 64 := BitVec.ofInt 64 maxAllocs + 1

/-- `VM.Run` with `maxAllocs = N` -/
def runWithBudget {σ ε : Type} (m : Machine σ ε) (N : Int) (fuel : Nat) (s : σ) : Result σ ε :=
  runCounted m fuel (initCounter N) s

/-- decrements needed to bring the counter to zero -/
def need (c : BitVec 64) : Nat := if c = 0 then 2 ^ 64 else c.toNat

/-- the trace machine: the state is the remaining tag list (`c` ordinary step, `a` allocating step,
`f` failing step, anything else or the end: halt). Used by the driver to replay a measured run. -/
def traceMachine : Machine (List Char) Unit where
  step
    | 'c' :: r => .cont r
    | 'a' :: r => .alloc r
    | 'f' :: _ => .fail ()
    | _ => .halt

/-! ## (c) length guards -/

inductive GuardErr where
  | stringLimit | bytesLimit
  /-- a Go run-time panic (an error through RunContext) -/
  | goPanic
deriving DecidableEq, Repr

abbrev Bytes := List UInt8

/-- `String.BinaryOp(+)`: `b` is the right operand's text (its value for a string, `String()` otherwise) -/
def strAdd (maxStr : Nat) (a b : Bytes) : Except GuardErr Bytes :=
  if a.length + b.length > maxStr then .error .stringLimit else .ok (a ++ b)

/-- `Bytes.BinaryOp(+)` -/
def bytesAdd (maxBytes : Nat) (a b : Bytes) : Except GuardErr Bytes :=
  if a.length + b.length > maxBytes then .error .bytesLimit else .ok (a ++ b)

/-- `builtinString` on a non-string argument whose `ToString` text is `v` -/
def builtinString (maxStr : Nat) (v : Bytes) : Except GuardErr Bytes :=
  if v.length > maxStr then .error .stringLimit else .ok v

/-- `builtinBytes` on a string/bytes argument -/
def builtinBytes (maxBytes : Nat) (v : Bytes) : Except GuardErr Bytes :=
  if v.length > maxBytes then .error .bytesLimit else .ok v

/-- `builtinBytes(n)`: `make([]byte, n)`; a negative `n` passes the comparison and panics in `make` -/
def builtinBytesN (maxBytes : Nat) (n : Int) : Except GuardErr Bytes :=
  if n > (maxBytes : Int) then .error .bytesLimit
  else if n < 0 then .error .goPanic
  else .ok (List.replicate n.toNat 0)

/-- compile-time check of a string literal / map-literal key; `FromInterface` on a string -/
def stringLit (maxStr : Nat) (v : Bytes) : Except GuardErr Bytes :=
  if v.length > maxStr then .error .stringLimit else .ok v

/-- `FromInterface` on a `[]byte` -/
def bytesVal (maxBytes : Nat) (v : Bytes) : Except GuardErr Bytes :=
  if v.length > maxBytes then .error .bytesLimit else .ok v

/-- slicing a string/bytes value: never longer than the operand (indices already clamped) -/
def sliceVal (v : Bytes) (lo hi : Nat) : Bytes := (v.take hi).drop lo

/-- writes into the output buffer of `format` -/
inductive BufOp where
  | write (p : Bytes)          -- fmtbuf.Write / WriteString
  | byte (c : UInt8)           -- fmtbuf.WriteSingleByte
  | rune (enc : Bytes)         -- fmtbuf.WriteRune (its UTF-8 encoding)
  | pad (n : Int) (c : UInt8)  -- formatter.writePadding
  | sbx (enc : Bytes)          -- formatter.fmtSbx: the hexadecimal text written directly

def bufStep (maxStr : Nat) (buf : Bytes) : BufOp → Except GuardErr Bytes
  | .write p => if buf.length + p.length > maxStr then .error .stringLimit else .ok (buf ++ p)
  | .byte c => if buf.length ≥ maxStr then .error .stringLimit else .ok (buf ++ [c])
  | .rune e => if buf.length + e.length > maxStr then .error .stringLimit else .ok (buf ++ e)
  | .pad n c =>
    if n ≤ 0 then .ok buf
    else if buf.length + n.toNat > maxStr then .error .stringLimit
    else .ok (buf ++ List.replicate n.toNat c)
  | .sbx e => if buf.length + e.length > maxStr then .error .stringLimit else .ok (buf ++ e)

/-- a whole `format` call as the sequence of its buffer writes -/
def bufRun (maxStr : Nat) : Bytes → List BufOp → Except GuardErr Bytes
  | buf, [] => .ok buf
  | buf, op :: ops =>
    match bufStep maxStr buf op with
    | .ok buf' => bufRun maxStr buf' ops
    | .error e => .error e

/-- `Map.IndexSet`: the key under which the value is stored. `rendered` is `ToString(index)`. A string
index (`isStr`) is stored as it is: it is an existing string value, checked where it was made. A key made
by converting any other index is a new string value and is compared with the maximum (repaired O12). -/
def mapKeyOfIndex (maxStr : Nat) (isStr : Bool) (rendered : Bytes) : Except GuardErr Bytes :=
  if !isStr && rendered.length > maxStr then .error .stringLimit else .ok rendered

/-- `builtinTypeName`: `name` is `args[0].TypeName()` (repaired O13) -/
def typeNameResult (maxStr : Nat) (name : Bytes) : Except GuardErr Bytes :=
  if name.length > maxStr then .error .stringLimit else .ok name

/-! ## (d) frames -/

/-- one step of a machine seen at the frame level -/
inductive FStep (σ : Type) where
  | cont (s : σ)
  /-- non-tail call of a compiled function -/
  | call (s : σ)
  | ret (s : σ)
  | halt

structure FMachine (σ : Type) where
  step : σ → FStep σ

inductive FOutcome (σ : Type) where
  | ok (s : σ)
  /-- `ErrStackOverflow`: the call attempted from `s` found `framesIndex >= MaxFrames` -/
  | stackOverflow (s : σ)
  /-- a return with `framesIndex = 1` (never emitted by the compiler; a Go panic in the VM) -/
  | underflow (s : σ)
  | outOfFuel (s : σ)
deriving DecidableEq, Repr

def FOutcome.isOverflow {σ : Type} : FOutcome σ → Bool
  | .stackOverflow _ => true
  | _ => false

/-- outcome, final `framesIndex`, highest `framesIndex` seen -/
structure FResult (σ : Type) where
  outcome : FOutcome σ
  fi : Nat
  high : Nat
deriving DecidableEq, Repr

/-- `VM.run` at the frame level with `MaxFrames = K`; `fi` is `framesIndex`, `hi` its high-water mark -/
def runFrames {σ : Type} (m : FMachine σ) (K : Nat) : Nat → Nat → Nat → σ → FResult σ
  | 0, fi, hi, s => ⟨.outOfFuel s, fi, hi⟩
  | f + 1, fi, hi, s =>
    match m.step s with
    | .cont s' => runFrames m K f fi hi s'
    | .call s' =>
      if fi ≥ K then ⟨.stackOverflow s, fi, hi⟩       -- if v.framesIndex >= MaxFrames { ErrStackOverflow }
      else runFrames m K f (fi + 1) (max hi (fi + 1)) s'   -- v.framesIndex++
    | .ret s' =>
      if fi ≤ 1 then ⟨.underflow s, fi, hi⟩
      else runFrames m K f (fi - 1) hi s'                  -- v.framesIndex--
    | .halt => ⟨.ok s, fi, hi⟩

/-- `VM.Run`: `framesIndex = 1` -/
def runDepth {σ : Type} (m : FMachine σ) (K fuel : Nat) (s : σ) : FResult σ := runFrames m K fuel 1 1 s

def frameTraceMachine : FMachine (List Char) where
  step
    | 'o' :: r => .cont r
    | 'c' :: r => .call r
    | 'r' :: r => .ret r
    | _ => .halt

def maxFrames : Nat := 1024
def stackSize : Nat := 2048

end Tengo.Model.Limits

import Tengo.Model.Bytecode
/-!
Model of `(*Bytecode).RemoveDuplicates` and `updateConstIndexes` (bytecode.go), and an abstract model
of the gob round trip `Encode`/`Decode`/`fixDecodedObject`. Core Lean only.

Pointer identity of `*CompiledFunction` constants (the key of the Go map `fns`) is the field `ptr`:
the compiler puts the SAME pointer into the pool once per `import` of a source module, and a fresh
pointer for every function literal.
-/
namespace Tengo.Model.Dedup
open Tengo.Model Tengo.Model.Opcodes

/-- A `*CompiledFunction` constant. -/
structure Fn where
  ptr       : Nat
  insts     : Bytes
  numLocals : Nat
  numParams : Nat
  varargs   : Bool
  srcMap    : List (Nat × Nat)
  deriving DecidableEq, Repr, Inhabited

/-- A constant-pool entry. `float` carries the IEEE-754 bit pattern, `imap` the `__module_name__` of an
`*ImmutableMap` (`[]` when it has none), `other` any object of another type (default arm). -/
inductive Const where
  | fn (f : Fn)
  | int (v : Int)
  | float (bits : Nat)
  | char (v : Int)
  | str (b : Bytes)
  | imap (name : Bytes)
  | other
  deriving DecidableEq, Repr, Inhabited

structure Bytecode where
  main       : Bytes
  mainSrcMap : List (Nat × Nat)
  consts     : List Const
  deriving DecidableEq, Repr, Inhabited

/-! ### Go `==` on float64 map keys -/

def isNaN (b : Nat) : Bool := (b / 2 ^ 52) % 2048 == 2047 && b % 2 ^ 52 != 0
def isZero (b : Nat) : Bool := b % 2 ^ 63 == 0
/-- `a == b` on float64 given as bit patterns: NaN equals nothing, `+0 == -0`. -/
def floatEq (a b : Nat) : Bool := !isNaN a && !isNaN b && (a == b || (isZero a && isZero b))

/-! ### The six first-occurrence tables

`fns`, `ints`, `strings`, `floats`, `chars`, `immutableMaps` are modelled as ONE association list whose
keys carry the table they belong to (a disjoint union of the six Go maps): keys of different tables
never compare equal. Newest entry first, so that a later assignment shadows an earlier one. -/

inductive Key where
  | fn (ptr : Nat)
  | int (v : Int)
  | str (b : Bytes)
  | float (bits : Nat)
  | char (v : Int)
  | imap (name : Bytes)
  deriving DecidableEq, Repr

/-- Go map-key equality inside one table. -/
def Key.eqv : Key → Key → Bool
  | .fn a, .fn b => a == b
  | .int a, .int b => a == b
  | .str a, .str b => a == b
  | .float a, .float b => floatEq a b
  | .char a, .char b => a == b
  | .imap a, .imap b => a == b
  | _, _ => false

abbrev Table := List (Key × Nat)

/-- `newIdx, ok := table[k]` -/
def Table.get? (t : Table) (k : Key) : Option Nat := (t.find? (fun e => e.1.eqv k)).map (·.2)

/-- The table and key the type switch of `RemoveDuplicates` uses for a constant; `none` = default arm. -/
def Const.key : Const → Option Key
  | .fn f => some (.fn f.ptr)
  | .int v => some (.int v)
  | .float b => some (.float b)
  | .char v => some (.char v)
  | .str b => some (.str b)
  | .imap n => some (.imap n)
  | .other => none

/-- The extra guard of the `*ImmutableMap` arm: `modName != "" && ok`. -/
def Const.reusable : Const → Bool
  | .imap n => !n.isEmpty
  | _ => true

structure Scan where
  deduped  : List Const
  indexMap : List Nat      -- old index ↦ new index, total on the indexes scanned so far
  table    : Table
  deriving Repr

/-- `indexMap[curIdx] = newIdx` for a constant found in its table. -/
def Scan.reuse (s : Scan) (j : Nat) : Scan := { s with indexMap := s.indexMap ++ [j] }

/-- `newIdx = len(deduped); table[k] = newIdx; indexMap[curIdx] = newIdx; deduped = append(deduped, c)` -/
def Scan.add (s : Scan) (c : Const) (k : Option Key) : Scan :=
  { deduped := s.deduped ++ [c]
    indexMap := s.indexMap ++ [s.deduped.length]
    table := match k with
      | some k => (k, s.deduped.length) :: s.table
      | none => s.table }

/-- One iteration of `for curIdx, c := range b.Constants`. -/
def scanStep (s : Scan) (c : Const) : Scan :=
  match c.key with
  | none => s.add c none
  | some k =>
    match s.table.get? k with
    | some j => if c.reusable then s.reuse j else s.add c (some k)
    | none => s.add c (some k)

def scanFrom (s : Scan) (cs : List Const) : Scan := cs.foldl scanStep s

def scan (cs : List Const) : Scan := scanFrom ⟨[], [], []⟩ cs

/-! ### updateConstIndexes -/

def isConstRef (op : Nat) : Bool := op == opConstant || op == opClosure

/-- The replacement bytes of one instruction (`copy(insts[i:], MakeInstruction(op, newIdx[, numFree]))`),
or the instruction's own bytes for any other opcode. -/
def updInstr (m : List Nat) (op : Nat) (args : List Nat) (own : Bytes) : Except String Bytes :=
  if isConstRef op then
    match args with
    | cur :: more =>
      match m[cur]? with
      | some new => .ok (encodeInstr op (new :: more))
      | none => .error ("constant index not found: " ++ toString cur)
    | [] => .error "index out of range"
  else .ok own

def updFuel : Nat → List Nat → Bytes → Except String Bytes
  | _, _, [] => .ok []
  | 0, _, _ :: _ => .error "fuel"
  | f + 1, m, b :: rest =>
    match widths b.toNat with
    | none => .error "index out of range"
    | some ws =>
      match readOperands ws rest with
      | none => .error "index out of range"
      | some (args, rest') =>
        match updInstr m b.toNat args (b :: rest.take ws.sum) with
        | .error e => .error e
        | .ok h =>
          match updFuel f m rest' with
          | .error e => .error e
          | .ok t => .ok (h ++ t)

/-- `updateConstIndexes(insts, indexMap)`; `.error` = the Go code panics. -/
def updateConstIndexes (m : List Nat) (bs : Bytes) : Except String Bytes := updFuel bs.length m bs

def rewriteConst (m : List Nat) : Const → Except String Const
  | .fn f =>
    match updateConstIndexes m f.insts with
    | .ok i => .ok (.fn { f with insts := i })
    | .error e => .error e
  | c => .ok c

def rewriteAll (m : List Nat) : List Const → Except String (List Const)
  | [] => .ok []
  | c :: cs =>
    match rewriteConst m c with
    | .error e => .error e
    | .ok c' =>
      match rewriteAll m cs with
      | .error e => .error e
      | .ok cs' => .ok (c' :: cs')

/-- `RemoveDuplicates`: the new bytecode and the old→new index map. Every function constant of the new
pool is rewritten once (distinct pointers are assumed to have disjoint instruction storage). -/
def dedup (bc : Bytecode) : Except String (Bytecode × List Nat) :=
  let s := scan bc.consts
  match updateConstIndexes s.indexMap bc.main with
  | .error e => .error e
  | .ok main' =>
    match rewriteAll s.indexMap s.deduped with
    | .error e => .error e
    | .ok cs => .ok ({ main := main', mainSrcMap := bc.mainSrcMap, consts := cs }, s.indexMap)

/-- Old index of the constant kept at every new index (first `i` with `indexMap[i] = j`). -/
def keptOrigins (m : List Nat) (n : Nat) : List Nat :=
  (List.range n).map (fun j => m.findIdx (· == j))

/-! ### Abstract gob round trip

What `encoding/gob` does to a value is reduced to three facts (the wire format is trusted): exported
non-func fields survive, unexported and func-typed fields are dropped, pointer sharing is lost (every
decoded pointer is fresh). Objects are trees; `canon` says "this is the process-wide singleton"
(`TrueValue`/`FalseValue`/`UndefinedValue`), `userFn` has its Go func (`live`) or not. -/

mutual
  inductive Obj where
    | undef (canon : Bool)
    | bool (v : Bool) (canon : Bool)
    | scalar (c : Const)                       -- Int, Float, Char, String (no unexported state the VM reads)
    | bytes (b : Bytes)
    | arr (xs : Objs)
    | iarr (xs : Objs)
    | map (kv : Objs)
    | imap (kv : Objs)
    | userFn (name : Bytes) (live : Bool)
    | err (o : Obj)
    | func (ptr : Nat) (insts : Bytes) (numLocals numParams : Nat) (varargs : Bool) (srcMap : List (Nat × Nat))
  inductive Objs where
    | nil
    | cons (key : Bytes) (o : Obj) (tl : Objs)   -- key is `[]` for array elements
end

def Objs.lookup : Objs → Bytes → Option Obj
  | .nil, _ => none
  | .cons k o tl, q => if k == q then some o else tl.lookup q

def moduleNameKey : Bytes := "__module_name__".toUTF8.toList

/-- `inferModuleName`. -/
def Obj.moduleName : Obj → Bytes
  | .imap kv => match kv.lookup moduleNameKey with
    | some (.scalar (.str n)) => n
    | _ => []
  | _ => []

/-- Encode→Decode without the fix-up, on one node: singletons become fresh copies (the `Bool` value survives
through its GobEncode/GobDecode pair), user functions lose their Go func, everything else is rebuilt field by
field (pointer sharing between pool entries is lost: `ptr` of a decoded function means nothing any more). -/
def wire : Obj → Obj
  | .undef _ => .undef false
  | .bool v _ => .bool v false
  | .userFn n _ => .userFn n false
  | o => o

mutual
  def Obj.wireDeep : Obj → Obj
    | .arr xs => .arr xs.wireDeep
    | .iarr xs => .iarr xs.wireDeep
    | .map kv => .map kv.wireDeep
    | .imap kv => .imap kv.wireDeep
    | .err o => .err o.wireDeep
    | o => wire o
  def Objs.wireDeep : Objs → Objs
    | .nil => .nil
    | .cons k o tl => .cons k o.wireDeep tl.wireDeep
end

def Objs.hasUserFn : Objs → Bool
  | .nil => false
  | .cons _ (.userFn _ _) _ => true
  | .cons _ _ tl => tl.hasUserFn

/-- The module map handed to `Decode`: builtin module name ↦ its attribute map (live functions). -/
abbrev Modules := List (Bytes × Objs)

mutual
  /-- `fixDecodedObject`. `none` = "user function not decodable". -/
  def Obj.fix (mods : Modules) : Obj → Option Obj
    | .bool v _ => some (.bool v true)
    | .undef _ => some (.undef true)
    | .arr xs => (xs.fix mods).map .arr
    | .iarr xs => (xs.fix mods).map .iarr
    | .map kv => (kv.fix mods).map .map
    | .imap kv =>
      match mods.lookup (Obj.moduleName (.imap kv)) with
      | some attrs => some (.imap (.cons moduleNameKey (.scalar (.str (Obj.moduleName (.imap kv)))) attrs))
      | none => if kv.hasUserFn then none else (kv.fix mods).map .imap
    | o => some o
  def Objs.fix (mods : Modules) : Objs → Option Objs
    | .nil => some .nil
    | .cons k o tl =>
      match o.fix mods, tl.fix mods with
      | some o', some tl' => some (.cons k o' tl')
      | _, _ => none
end

/-- `Decode(Encode(o))` for one constant. -/
def roundtrip (mods : Modules) (o : Obj) : Option Obj := o.wireDeep.fix mods

/-! Hand-written expectation of the facts regenerated into `Tengo.Gen.GobFields`. -/

/-- Types registered with gob in `init()` of bytecode.go. -/
def gobRegistered : List String :=
  ["parser.SourceFileSet", "parser.SourceFile", "Array", "Bool", "Bytes", "Char", "CompiledFunction", "Error",
   "Float", "ImmutableArray", "ImmutableMap", "Int", "Map", "String", "Time", "Undefined", "UserFunction"]

/-- Arms of the type switch in `RemoveDuplicates` (the default arm keeps the constant). -/
def dedupArms : List String := ["CompiledFunction", "ImmutableMap", "Int", "String", "Float", "Char", "default"]

/-- Arms of the type switch in `fixDecodedObject`. -/
def fixArms : List String := ["Bool", "Undefined", "Array", "ImmutableArray", "Map", "ImmutableMap"]

/-- Fields the VM (`NewVM`, `run`, calls, closures) and the error decoration (`SourcePos`,
`SourceFileSet.Position`) read from decoded bytecode: (struct, field). -/
def fieldsRead : List (String × String) :=
  [("Bytecode", "FileSet"), ("Bytecode", "MainFunction"), ("Bytecode", "Constants"),
   ("CompiledFunction", "Instructions"), ("CompiledFunction", "NumLocals"), ("CompiledFunction", "NumParameters"),
   ("CompiledFunction", "VarArgs"), ("CompiledFunction", "SourceMap"), ("CompiledFunction", "Free"),
   ("SourceFileSet", "Files"), ("SourceFileSet", "LastFile"),
   ("SourceFile", "Name"), ("SourceFile", "Base"), ("SourceFile", "Size"), ("SourceFile", "Lines"),
   ("Int", "Value"), ("Float", "Value"), ("Char", "Value"), ("String", "Value"), ("Bytes", "Value"),
   ("Array", "Value"), ("ImmutableArray", "Value"), ("Map", "Value"), ("ImmutableMap", "Value"),
   ("Error", "Value"), ("Time", "Value")]

end Tengo.Model.Dedup

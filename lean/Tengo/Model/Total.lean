import Tengo.Model.Scanner
/-!
C04 model (scanner, parser and compiler are total on arbitrary source bytes). Core Lean only.

* `Expect` — the EXPECTED inventory of partial operations (explicit `panic`, index, slice, type assertion,
  integer division) of parser/scanner.go, parser/parser.go, parser/source_file.go, compiler.go,
  symbol_table.go, script.go, bytecode.go, instructions.go, each with the class of argument that makes it
  unreachable from source bytes (or names the branch that handles it). `Tengo.Props.C04.panic_sites_covered`
  proves that the inventory regenerated from /repo on every run is contained in this list, so a NEW partial
  operation, or one MOVED to another function, or a duplicated one breaks a proof obligation.
* `Pos` — position arithmetic of source_file.go: line table (`AddLine` as the scanner drives it), the binary
  search `searchInts`, `unpack`/`position`.
* `Recover` — the parser's error recovery primitives: `advance` with `syncPos`/`syncCount`, the error list
  with same-line suppression and the more-than-10-errors bailout, and the worst-case recovery loop, defined
  WITHOUT fuel (the termination measure is the content of `advance_progress`).
-/
namespace Tengo.Model.Total
open Tengo.Model.Token Tengo.Model.Scanner

/-! ## Expected inventory of partial operations -/
namespace Expect

/-- Why a partial operation cannot fire on the path bytes → scan → parse → compile. -/
inductive Just where
  /-- the enclosing `if`/`switch len(..)` tests the length (or non-emptiness) first -/
  | guardedByLengthCheck
  /-- `x[:len(x):len(x)]`: both bounds are the slice's own length, which never exceeds its capacity -/
  | ownLength
  /-- index is the loop variable of `for i < len(x)` / `for i := 0; i < n; i++` -/
  | loopBound
  /-- index is the key of a `range` over the same slice -/
  | rangeIndex
  /-- the parser only builds nodes for which the case cannot occur (BranchStmt token is break/continue;
      assignment sides come from parseExprList) -/
  | unreachableAfterParserValidation
  /-- parseExprList returns at least one expression -/
  | exprListNonEmpty
  /-- positions come from emitted jumps: changeOperand/replaceInstruction/optimizeFunc see positions that
      `emit` returned for the current scope -/
  | jumpPatchingInvariant
  /-- enterScope/leaveScope are paired; scopeIndex = len(scopes) − 1 ≥ 0 -/
  | scopeStackInvariant
  /-- enterLoop/leaveLoop are paired -/
  | loopStackInvariant
  /-- the byte string was produced by MakeInstruction: every opcode is followed by its operands -/
  | wellFormedInstructions
  /-- the opcode byte was emitted by the compiler, hence below the length of the opcode tables -/
  | definedOpcode
  /-- `make([]byte, totalLen)` with totalLen computed from the same widths -/
  | freshBufferOfComputedSize
  /-- every `emit` call site passes as many operands as the opcode table lists -/
  | emitArity
  /-- every index handed to RemoveDuplicates' map was entered for every constant (the O2 defect made this fail) -/
  | constantDedupInvariant
  /-- `panic(bailout{})` is recovered by the function deferred in ParseFile -/
  | recoveredBailout
  /-- ParseFile re-raises what is not a bailout: reachable only if another site fires -/
  | repanicForeign
  /-- offs ≤ s.offset ≤ len(src): the scanner only moves forward, up to the end -/
  | scannerOffsetsMonotone
  /-- the position handed to `SourceFile.Position` was produced by this file's own scanner or nodes -/
  | positionOfOwnFile
  /-- result of the binary search is in −1 … len−1 and is tested for ≥ 0 (see `Pos.searchInts_spec`) -/
  | binarySearchBounds
  /-- only called by `sort.Sort` with indices below `Len()` -/
  | sortInterfaceContract
  /-- global indices come from the symbol table the globals slice was sized for -/
  | symbolIndexInvariant
  /-- only runs when a trace writer is configured; bounded by its own loop -/
  | traceOnly
  /-- FormatInstructions: diagnostic printing (trace, tests), not on the compile path -/
  | diagnosticOnly
  /-- documented precondition of an exported function that source bytes cannot influence (file size equals
      len(src); `Importable.Import` returns `[]byte` or `Object`; line numbers/offsets in range) -/
  | apiContract
  deriving DecidableEq, Repr

/-- (file, enclosing function, kind, text, occurrences). -/
abbrev Site := String × String × String × String × Nat

def expected : List (Site × Just) := [
  (("bytecode.go", "Bytecode.Decode", "index", "b.Constants[i]", 1), .rangeIndex),
  (("bytecode.go", "Bytecode.RemoveDuplicates", "index", "b.Constants[i]", 1), .rangeIndex),
  (("bytecode.go", "Bytecode.ReplaceBuiltinModule", "index", "b.Constants[i]", 1), .rangeIndex),
  (("bytecode.go", "fixDecodedObject", "index", "o.Value[i]", 2), .rangeIndex),
  (("bytecode.go", "updateConstIndexes", "index", "insts[i+1]", 2), .wellFormedInstructions),
  (("bytecode.go", "updateConstIndexes", "index", "insts[i+2]", 2), .wellFormedInstructions),
  (("bytecode.go", "updateConstIndexes", "index", "insts[i+3]", 1), .wellFormedInstructions),
  (("bytecode.go", "updateConstIndexes", "index", "insts[i]", 1), .loopBound),
  (("bytecode.go", "updateConstIndexes", "index", "parser.OpcodeOperands[op]", 1), .definedOpcode),
  (("bytecode.go", "updateConstIndexes", "panic", "fmt.Errorf(\"constant index not found: %d\", curId…", 2), .constantDedupInvariant),
  (("bytecode.go", "updateConstIndexes", "slice", "insts[i+1:]", 1), .loopBound),
  (("bytecode.go", "updateConstIndexes", "slice", "insts[i:]", 2), .loopBound),
  (("compiler.go", "Compiler.Compile", "panic", "fmt.Errorf(\"invalid branch statement: %s\", node.…", 1), .unreachableAfterParserValidation),
  (("compiler.go", "Compiler.Compile", "panic", "fmt.Errorf(\"invalid import value type: %T\", v)", 1), .apiContract),
  (("compiler.go", "Compiler.addInstruction", "index", "c.scopes[c.scopeIndex]", 1), .scopeStackInvariant),
  (("compiler.go", "Compiler.changeOperand", "index", "c.currentInstructions()[opPos]", 1), .jumpPatchingInvariant),
  (("compiler.go", "Compiler.compileAssign", "index", "lhs[0]", 2), .unreachableAfterParserValidation),
  (("compiler.go", "Compiler.compileAssign", "index", "rhs[0]", 1), .unreachableAfterParserValidation),
  (("compiler.go", "Compiler.compileAssign", "index", "selectors[i]", 1), .rangeIndex),
  (("compiler.go", "Compiler.currentInstructions", "index", "c.scopes[c.scopeIndex]", 1), .scopeStackInvariant),
  (("compiler.go", "Compiler.currentLoop", "index", "c.loops[c.loopIndex]", 1), .guardedByLengthCheck),
  (("compiler.go", "Compiler.currentSourceMap", "index", "c.scopes[c.scopeIndex]", 1), .scopeStackInvariant),
  (("compiler.go", "Compiler.emit", "index", "FormatInstructions( c.scopes[c.scopeIndex].Instructions[pos:], pos)[0]", 1), .traceOnly),
  (("compiler.go", "Compiler.emit", "index", "c.scopes[c.scopeIndex]", 2), .scopeStackInvariant),
  (("compiler.go", "Compiler.emit", "slice", "c.scopes[c.scopeIndex].Instructions[pos:]", 1), .traceOnly),
  (("compiler.go", "Compiler.leaveLoop", "slice", "c.loops[:len(c.loops)-1]", 1), .loopStackInvariant),
  (("compiler.go", "Compiler.leaveScope", "index", "c.scopes[c.scopeIndex]", 2), .scopeStackInvariant),
  (("compiler.go", "Compiler.leaveScope", "slice", "c.scopes[:len(c.scopes)-1]", 1), .scopeStackInvariant),
  (("compiler.go", "Compiler.optimizeFunc", "index", "c.scopes[c.scopeIndex]", 6), .scopeStackInvariant),
  (("compiler.go", "Compiler.optimizeFunc", "index", "operands[0]", 3), .wellFormedInstructions),
  (("compiler.go", "Compiler.optimizeFunc", "panic", "fmt.Errorf(\"invalid jump position: %d\", newDst)", 1), .jumpPatchingInvariant),
  (("compiler.go", "Compiler.optimizeFunc", "slice", "newInsts[pos:]", 2), .jumpPatchingInvariant),
  (("compiler.go", "Compiler.printTrace", "slice", "dots[0:i]", 1), .traceOnly),
  (("compiler.go", "Compiler.replaceInstruction", "index", "FormatInstructions( c.scopes[c.scopeIndex].Instructions[pos:], pos)[0]", 1), .traceOnly),
  (("compiler.go", "Compiler.replaceInstruction", "index", "c.scopes[c.scopeIndex]", 1), .scopeStackInvariant),
  (("compiler.go", "Compiler.replaceInstruction", "slice", "c.currentInstructions()[pos:]", 1), .jumpPatchingInvariant),
  (("compiler.go", "Compiler.replaceInstruction", "slice", "c.scopes[c.scopeIndex].Instructions[pos:]", 1), .jumpPatchingInvariant),
  (("compiler.go", "NewCompiler", "slice", "constants[:len(constants):len(constants)]", 1), .ownLength),
  (("compiler.go", "iterateInstructions", "index", "b[i]", 2), .loopBound),
  (("compiler.go", "iterateInstructions", "index", "parser.OpcodeOperands[b[i]]", 1), .definedOpcode),
  (("compiler.go", "iterateInstructions", "slice", "b[i+1:]", 1), .wellFormedInstructions),
  (("instructions.go", "FormatInstructions", "index", "b[i]", 4), .diagnosticOnly),
  (("instructions.go", "FormatInstructions", "index", "operands[0]", 2), .diagnosticOnly),
  (("instructions.go", "FormatInstructions", "index", "operands[1]", 1), .diagnosticOnly),
  (("instructions.go", "FormatInstructions", "index", "parser.OpcodeNames[b[i]]", 3), .diagnosticOnly),
  (("instructions.go", "FormatInstructions", "index", "parser.OpcodeOperands[b[i]]", 1), .diagnosticOnly),
  (("instructions.go", "FormatInstructions", "slice", "b[i+1:]", 1), .diagnosticOnly),
  (("instructions.go", "MakeInstruction", "index", "instruction[0]", 1), .freshBufferOfComputedSize),
  (("instructions.go", "MakeInstruction", "index", "instruction[offset+1]", 2), .freshBufferOfComputedSize),
  (("instructions.go", "MakeInstruction", "index", "instruction[offset+2]", 1), .freshBufferOfComputedSize),
  (("instructions.go", "MakeInstruction", "index", "instruction[offset+3]", 1), .freshBufferOfComputedSize),
  (("instructions.go", "MakeInstruction", "index", "instruction[offset]", 3), .freshBufferOfComputedSize),
  (("instructions.go", "MakeInstruction", "index", "numOperands[i]", 1), .emitArity),
  (("instructions.go", "MakeInstruction", "index", "parser.OpcodeOperands[opcode]", 1), .definedOpcode),
  (("parser/parser.go", "ErrorList.Error", "index", "p[0]", 2), .guardedByLengthCheck),
  (("parser/parser.go", "ErrorList.Less", "index", "p[i]", 2), .sortInterfaceContract),
  (("parser/parser.go", "ErrorList.Less", "index", "p[j]", 2), .sortInterfaceContract),
  (("parser/parser.go", "ErrorList.Swap", "index", "p[i]", 2), .sortInterfaceContract),
  (("parser/parser.go", "ErrorList.Swap", "index", "p[j]", 2), .sortInterfaceContract),
  (("parser/parser.go", "Parser.ParseFile", "panic", "e", 1), .repanicForeign),
  (("parser/parser.go", "Parser.error", "index", "p.errors[n-1]", 1), .guardedByLengthCheck),
  (("parser/parser.go", "Parser.error", "panic", "bailout{}", 1), .recoveredBailout),
  (("parser/parser.go", "Parser.parseCharLit", "slice", "p.tokenLit[1 : n-1]", 1), .guardedByLengthCheck),
  (("parser/parser.go", "Parser.parseSimpleStmt", "index", "x[0]", 14), .exprListNonEmpty),
  (("parser/parser.go", "Parser.parseSimpleStmt", "index", "x[1]", 3), .guardedByLengthCheck),
  (("parser/parser.go", "Parser.printTrace", "slice", "dots[0:i]", 1), .traceOnly),
  (("parser/parser.go", "incNestLev", "panic", "bailout{}", 1), .recoveredBailout),
  (("parser/scanner.go", "NewScanner", "panic", "fmt.Sprintf(\"file size (%d) does not match src l…", 1), .apiContract),
  (("parser/scanner.go", "Scanner.next", "index", "s.src[s.readOffset]", 1), .guardedByLengthCheck),
  (("parser/scanner.go", "Scanner.next", "slice", "s.src[s.readOffset:]", 1), .guardedByLengthCheck),
  (("parser/scanner.go", "Scanner.peek", "index", "s.src[s.readOffset]", 1), .guardedByLengthCheck),
  (("parser/scanner.go", "Scanner.scanComment", "index", "lit[1]", 2), .guardedByLengthCheck),
  (("parser/scanner.go", "Scanner.scanComment", "index", "lit[len(lit)-1]", 1), .guardedByLengthCheck),
  (("parser/scanner.go", "Scanner.scanComment", "slice", "lit[:len(lit)-1]", 1), .guardedByLengthCheck),
  (("parser/scanner.go", "Scanner.scanComment", "slice", "s.src[offs:s.offset]", 1), .scannerOffsetsMonotone),
  (("parser/scanner.go", "Scanner.scanIdentifier", "slice", "s.src[offs:s.offset]", 1), .scannerOffsetsMonotone),
  (("parser/scanner.go", "Scanner.scanNumber", "slice", "s.src[offs:s.offset]", 1), .scannerOffsetsMonotone),
  (("parser/scanner.go", "Scanner.scanRawString", "slice", "s.src[offs:s.offset]", 1), .scannerOffsetsMonotone),
  (("parser/scanner.go", "Scanner.scanRune", "slice", "s.src[offs:s.offset]", 1), .scannerOffsetsMonotone),
  (("parser/scanner.go", "Scanner.scanString", "slice", "s.src[offs:s.offset]", 1), .scannerOffsetsMonotone),
  (("parser/scanner.go", "StripCR", "index", "b[j+1]", 1), .loopBound),
  (("parser/scanner.go", "StripCR", "index", "c[i-1]", 1), .loopBound),
  (("parser/scanner.go", "StripCR", "index", "c[i]", 1), .loopBound),
  (("parser/scanner.go", "StripCR", "slice", "c[:i]", 1), .loopBound),
  (("parser/source_file.go", "SourceFile.AddLine", "index", "f.Lines[i-1]", 1), .guardedByLengthCheck),
  (("parser/source_file.go", "SourceFile.FileSetPos", "panic", "\"illegal file offset\"", 1), .scannerOffsetsMonotone),
  (("parser/source_file.go", "SourceFile.LineStart", "index", "f.Lines[line-1]", 1), .apiContract),
  (("parser/source_file.go", "SourceFile.LineStart", "panic", "\"illegal line number (line numbering starts at 1…", 1), .apiContract),
  (("parser/source_file.go", "SourceFile.LineStart", "panic", "\"illegal line number\"", 1), .apiContract),
  (("parser/source_file.go", "SourceFile.Offset", "panic", "\"illegal SourcePos value\"", 1), .apiContract),
  (("parser/source_file.go", "SourceFile.Position", "panic", "\"illegal SourcePos value\"", 1), .positionOfOwnFile),
  (("parser/source_file.go", "SourceFile.unpack", "index", "f.Lines[i]", 1), .binarySearchBounds),
  (("parser/source_file.go", "SourceFileSet.AddFile", "panic", "\"illegal base or size\"", 1), .apiContract),
  (("parser/source_file.go", "SourceFileSet.AddFile", "panic", "\"offset overflow (> 2G of source code in file se…", 1), .apiContract),
  (("parser/source_file.go", "SourceFileSet.file", "index", "s.Files[i]", 1), .binarySearchBounds),
  (("parser/source_file.go", "searchFiles", "index", "a[i]", 1), .binarySearchBounds),
  (("parser/source_file.go", "searchInts", "index", "a[h]", 1), .binarySearchBounds),
  (("script.go", "Compiled.Clone", "index", "clone.globals[idx]", 1), .symbolIndexInvariant),
  (("script.go", "Compiled.Get", "index", "c.globals[idx]", 1), .symbolIndexInvariant),
  (("script.go", "Compiled.GetAll", "index", "c.globals[idx]", 1), .symbolIndexInvariant),
  (("script.go", "Compiled.IsDefined", "index", "c.globals[idx]", 1), .symbolIndexInvariant),
  (("script.go", "Compiled.Set", "index", "c.globals[idx]", 1), .symbolIndexInvariant),
  (("script.go", "Script.Compile", "slice", "globals[:symbolTable.MaxSymbols()+1]", 1), .guardedByLengthCheck),
  (("script.go", "Script.prepCompile", "index", "globals[symbol.Index]", 1), .guardedByLengthCheck),
  (("script.go", "Script.prepCompile", "panic", "fmt.Errorf(\"wrong symbol index: %d != %d\", idx, …", 1), .symbolIndexInvariant)
]

def sites : List Site := expected.map (·.1)

/-- Skeleton of the function deferred by `(*Parser).ParseFile`: a recovered value that is not a `bailout` is
re-raised; the error list is then sorted and returned. -/
def parseFileDeferred : List String := [
  "if e := recover(); e != nil",
  "  if _, ok := e.(bailout); !ok",
  "    panic(e)",
  "p.errors.Sort()",
  "err = p.errors.Err()"
]

/-- The only `recover()` of the front end is ParseFile's (RunContext's belongs to C05). -/
def recoverCalls : List String := ["parser/parser.go: Parser.ParseFile", "script.go: Compiled.RunContext"]

/-- Skeleton of `(*Parser).advance`, the function `Recover.advance` models. -/
def advanceBody : List String := [
  "for ; p.token != token.EOF; p.next()",
  "  if to[p.token]",
  "    if p.pos == p.syncPos && p.syncCount < 10",
  "      p.syncCount++",
  "      return",
  "    if p.pos > p.syncPos",
  "      p.syncPos = p.pos",
  "      p.syncCount = 0",
  "      return"
]

/-- Skeleton of `(*Parser).error`, the function `Recover.report` models. -/
def errorBody : List String := [
  "filePos := p.file.Position(pos)",
  "n := len(p.errors)",
  "if n > 0 && p.errors[n-1].Pos.Line == filePos.Line",
  "  return",
  "if n > 10",
  "  panic(bailout{})",
  "p.errors.Add(filePos, msg)"
]

/-- `(*Parser).expect` consumes one token whether or not it is the expected one (so every rule that starts with
`expect` makes progress). -/
def expectBody : List String := [
  "pos := p.pos",
  "if p.token != token",
  "  p.errorExpected(pos, \"'\"+token.String()+\"'\")",
  "p.next()",
  "return pos"
]

/-- `(*Parser).expectSemi`: nothing before `)`/`}`, consumes `,`/`;`, otherwise reports and calls `advance`. -/
def expectSemiBody : List String := [
  "{ switch p.token { case token.RParen, token.RBrace: case token.Comma: p.errorExpected(p.pos, \"';'\") fallthrough case token.Semicolon: p.next() default: p.errorExpected(p.pos, \"';'\") p.advance(stmtStart) } }"
]

/-- `bailout` is raised in two places: after more than 10 errors, and by the nesting-depth limit (O45); both only
under `ParseFile`, whose deferred function recovers it. -/
def bailoutRaised : List String := ["parser/parser.go: Parser.error", "parser/parser.go: incNestLev"]

end Expect

/-! ## Position arithmetic of source_file.go -/
namespace Pos

/-- `(*SourceFile).AddLine(offset)` on a file of `size` bytes. -/
def addLine (size : Nat) (lines : List Nat) (offset : Nat) : List Nat :=
  match lines.getLast? with
  | none => if offset < size then lines ++ [offset] else lines
  | some l => if l < offset ∧ offset < size then lines ++ [offset] else lines

/-- Offsets `Scanner.next` hands to `AddLine`: the offset after every newline byte (a byte 0x0A is a
character of its own under `utf8.DecodeRune`, also inside invalid sequences). -/
def nlOffsets (off : Nat) : Bs → List Nat
  | [] => []
  | b :: bs => if b == 10 then (off + 1) :: nlOffsets (off + 1) bs else nlOffsets (off + 1) bs

/-- `SourceFile.Lines` after the whole source was scanned (`Lines: []int{0}` initially). -/
def lineTable (src : Bs) : List Nat := (nlOffsets 0 src).foldl (addLine src.length) [0]

/-- The loop of `searchInts(a, x)`; `a[h]` is read with a default, `probe_in_range` shows the default is
never used. -/
def searchLoop (a : List Nat) (x : Nat) (i j : Nat) : Nat :=
  if i < j then
    let h := i + (j - i) / 2
    if a.getD h 0 ≤ x then searchLoop a x (h + 1) j else searchLoop a x i h
  else i
termination_by j - i
decreasing_by all_goals omega

/-- `searchInts(a, x) + 1` (Go returns `i - 1`, −1 when no entry is ≤ x). -/
def searchInts (a : List Nat) (x : Nat) : Nat := searchLoop a x 0 a.length

structure FilePos where
  offset : Nat
  line : Nat
  column : Nat
  deriving Repr, DecidableEq

/-- `(*SourceFile).position` / `unpack` for a file-relative offset (line 0 = invalid position). -/
def position (lines : List Nat) (offset : Nat) : FilePos :=
  let k := searchInts lines offset
  if k ≥ 1 then { offset := offset, line := k, column := offset - lines.getD (k - 1) 0 + 1 }
  else { offset := offset, line := 0, column := 0 }

/-- Invariant of `Lines`: starts with 0, strictly increasing. -/
def WF (lines : List Nat) : Prop := lines.head? = some 0 ∧ lines.Pairwise (· < ·)

end Pos

/-! ## Error recovery of parser.go -/
namespace Recover

/-- `syncPos`, `syncCount`. Token positions are `offset + 1` (file base 1), `syncPos` starts at `NoPos = 0`. -/
structure Sync where
  pos : Nat := 0
  cnt : Nat := 0
  deriving Repr, DecidableEq

/-- The `stmtStart` map. -/
def stmtStartToks : List Tok := [.Break, .Continue, .For, .If, .Return, .Export]
def stmtStart (t : Tok) : Bool := stmtStartToks.contains t

def posOf (t : Token) : Nat := t.off + 1

/-- Current token kind; an exhausted list reads as EOF (as `Scan()` keeps answering EOF). -/
def tk : List Token → Tok
  | [] => .EOF
  | t :: _ => t.tok

/-- `p.advance(to)`: skip tokens until one of `to` is reached at which progress is guaranteed. -/
def advance (to : Tok → Bool) : List Token → Sync → List Token × Sync
  | [], s => ([], s)
  | t :: ts, s =>
    if t.tok == .EOF then (t :: ts, s)
    else if to t.tok && posOf t == s.pos && s.cnt < 10 then (t :: ts, { s with cnt := s.cnt + 1 })
    else if to t.tok && posOf t > s.pos then (t :: ts, { pos := posOf t, cnt := 0 })
    else advance to ts s

/-- How many more times `advance` may return at the current token without consuming it. -/
def slack (ts : List Token) (s : Sync) : Nat :=
  match ts with
  | [] => 0
  | t :: _ => if posOf t > s.pos then 11 else if posOf t == s.pos then 10 - s.cnt else 0

/-- Termination measure of every loop that calls `advance` once per round. -/
def potential (ts : List Token) (s : Sync) : Nat := 12 * ts.length + slack ts s

theorem slack_le (ts : List Token) (s : Sync) : slack ts s ≤ 11 := by
  unfold slack; split
  · omega
  · split
    · omega
    · split <;> omega

theorem advance_at_eof (to : Tok → Bool) (ts : List Token) (s : Sync) (h : tk ts = .EOF) :
    advance to ts s = (ts, s) := by
  cases ts with
  | nil => rfl
  | cons t ts => simp [tk] at h; simp [advance, h]

/-- Every call of `advance` away from EOF strictly lowers `potential`: it consumes a token, or uses up one
of the 10 returns allowed at `syncPos`, or moves `syncPos` forward. -/
theorem advance_progress (to : Tok → Bool) (ts : List Token) (s : Sync) (h : tk ts ≠ .EOF) :
    potential (advance to ts s).1 (advance to ts s).2 < potential ts s := by
  induction ts with
  | nil => simp [tk] at h
  | cons t ts ih =>
    have ht : t.tok ≠ .EOF := by simpa [tk] using h
    unfold advance
    simp only [beq_iff_eq, ht, if_false]
    split
    · rename_i h1
      simp only [Bool.and_eq_true, beq_iff_eq, decide_eq_true_eq] at h1
      simp only [potential, slack, List.length_cons]
      simp [h1.1.2]; omega
    · split
      · rename_i h1 h2
        simp only [Bool.and_eq_true, decide_eq_true_eq] at h2
        simp only [potential, slack, List.length_cons]
        simp [h2.2]
      · by_cases he : tk ts = .EOF
        · rw [advance_at_eof to ts s he]
          have := slack_le ts s
          simp only [potential, List.length_cons]; omega
        · have := ih he
          have h2 := slack_le ts s
          simp only [potential, List.length_cons] at *; omega

/-- Worst case for termination: a loop whose every round fails without consuming a token and calls
`advance` (the `default` arm of `parseStmt` under `parseStmtList`). Result: number of rounds. No fuel:
the recursion is well-founded on `potential`. -/
def recoverLoop (to : Tok → Bool) (ts : List Token) (s : Sync) : Nat :=
  if h : tk ts = .EOF then 0
  else recoverLoop to (advance to ts s).1 (advance to ts s).2 + 1
termination_by potential ts s
decreasing_by exact advance_progress to ts s h

/-- `p.error`: the list holds the line of every recorded error. `none` = `panic(bailout{})`. -/
def report (errLines : List Nat) (line : Nat) : Option (List Nat) :=
  match errLines.getLast? with
  | some l =>
    if l == line then some errLines
    else if errLines.length > 10 then none
    else some (errLines ++ [line])
  | none => some [line]

end Recover

end Tengo.Model.Total

/-!
Ownership / footprint model of `Compiled.Clone` and of concurrently running clones (script.go,
bytecode.go, objects.go `Copy`). Core Lean only.

* every heap location is `shared` (constants, bytecode, file set, the singletons `true`/`false`/
  `undefined`) or `owned i` by clone `i`;
* a value is a tree of nodes labelled with their location (`Val`); `copy i` is `Object.Copy()`
  allocating the new nodes in the region of clone `i`:
    - Int/Float/Char/Time/String/Bytes/BuiltinFunction/UserFunction: a fresh node,
    - Array/Map/Error: fresh node, elements copied (deep); ImmutableArray/ImmutableMap: a fresh
      *mutable* Array/Map, elements copied,
    - CompiledFunction: fresh function object, the `Free` cells are NOT copied (shared),
    - ObjectPtr, Bool, Undefined: `Copy` returns the receiver,
    - a host-provided `Object`: unknown; worst case the receiver;
* `Compiled.Clone` = per-global `copy`, bytecode and global index shared;
* a clone run is a `Machine`: a deterministic step function over the whole memory with an access set
  and a write set (its footprint); `exec` runs any schedule of K machines;
* the API methods of `Compiled` as lock-annotated actions and the RWMutex as a transition system.
-/
namespace Tengo.Model.Clone

inductive Owner where
  | shared
  | owned (i : Nat)
  deriving DecidableEq, Repr

structure Loc where
  owner : Owner
  id : Nat
  deriving DecidableEq, Repr

/-- leaf payloads; `hostfn` is a UserFunction (a Go function supplied by the host). -/
inductive Atom where
  | int (n : Int)
  | str (s : String)
  | bytes (b : List Nat)
  | other (tag : Nat)      -- Float, Char, Time, BuiltinFunction
  | hostfn (tag : Nat)
  deriving DecidableEq, Repr

inductive BoxKind where
  | arr | map | iarr | imap | err
  deriving DecidableEq, Repr

/-- `Copy` of an immutable array/map yields the mutable kind. -/
def BoxKind.thaw : BoxKind → BoxKind
  | .iarr => .arr
  | .imap => .map
  | k => k

mutual
  inductive Val where
    | single (k : Nat)                                -- Undefined / True / False (immutable singletons)
    | atom (l : Loc) (a : Atom)
    | box (l : Loc) (k : BoxKind) (items : Items)
    | clos (l : Loc) (fn : Nat) (cells : Items)       -- CompiledFunction: code `fn` of the shared bytecode, captured cells
    | cell (l : Loc) (content : Val)                  -- ObjectPtr and the variable slot it points to
    | host (l : Loc)                                  -- host-provided Object
  inductive Items where
    | nil
    | cons (key : String) (v : Val) (tl : Items)
end

def singleLoc (k : Nat) : Loc := ⟨.shared, k⟩

mutual
  /-- every location reachable from a value -/
  def Val.locs : Val → List Loc
    | .single k => [singleLoc k]
    | .atom l _ => [l]
    | .box l _ items => l :: items.locs
    | .clos l _ cells => l :: cells.locs
    | .cell l c => l :: c.locs
    | .host l => [l]
  def Items.locs : Items → List Loc
    | .nil => []
    | .cons _ v tl => v.locs ++ tl.locs
end

mutual
  /-- `Object.Copy()` allocating in the region of clone `i`; `n` is the next free id. -/
  def copy (i : Nat) : Val → Nat → Val × Nat
    | .single k, n => (.single k, n)
    | .atom _ a, n => (.atom ⟨.owned i, n⟩ a, n + 1)
    | .box _ k items, n =>
        let r := copyItems i items (n + 1)
        (.box ⟨.owned i, n⟩ k.thaw r.1, r.2)
    | .clos _ fn cells, n => (.clos ⟨.owned i, n⟩ fn cells, n + 1)
    | .cell l c, n => (.cell l c, n)
    | .host l, n => (.host l, n)
  def copyItems (i : Nat) : Items → Nat → Items × Nat
    | .nil, n => (.nil, n)
    | .cons key v tl, n =>
        let r := copy i v n
        let r' := copyItems i tl r.2
        (.cons key r.1 r'.1, r'.2)
end

/-- `Compiled.Clone`: globals are `Items` keyed by name; clone `i` gets the per-global copy. -/
def cloneGlobals (i : Nat) (g : Items) : Items := (copyItems i g 0).1

mutual
  /-- no closure with captured cells, no free-variable cell, no host-provided object / function -/
  def Val.cloneSafe : Val → Bool
    | .single _ => true
    | .atom _ (.hostfn _) => false
    | .atom _ _ => true
    | .box _ _ items => items.cloneSafe
    | .clos _ _ .nil => true
    | .clos _ _ (.cons _ _ _) => false
    | .cell _ _ => false
    | .host _ => false
  def Items.cloneSafe : Items → Bool
    | .nil => true
    | .cons _ v tl => v.cloneSafe && tl.cloneSafe
end

/-- separation: a location reachable from both sides is a shared one -/
def Sep (a b : Items) : Prop := ∀ l, l ∈ a.locs → l ∈ b.locs → l.owner = Owner.shared

/-- data of a value with the locations forgotten (what a script can observe), immutability thawed -/
inductive Data where
  | single (k : Nat)
  | atom (a : Atom)
  | box (k : BoxKind) (items : List (String × Data))
  | clos (fn : Nat) (cells : List (String × Data))
  | cell (c : Data)
  | host (l : Loc)

mutual
  def Val.data : Val → Data
    | .single k => .single k
    | .atom _ a => .atom a
    | .box _ k items => .box k.thaw items.data
    | .clos _ fn cells => .clos fn cells.data
    | .cell _ c => .cell c.data
    | .host l => .host l
  def Items.data : Items → List (String × Data)
    | .nil => []
    | .cons key v tl => (key, v.data) :: tl.data
end

/-! ### Shape of a copy (driver line `cloneshape`): which nodes of the copy are new -/

mutual
  /-- preorder flags of `copy 1 v`: `F` fresh node, `S` the same node as in the original -/
  def Val.shape : Val → List String
    | .single _ => ["S"]
    | .atom _ _ => ["F"]
    | .box _ k items =>
        (match k.thaw with | .arr => "Fa" | .map => "Fm" | .err => "Fe" | _ => "F?") :: items.shape
    | .clos _ _ cells => "Fc" :: cells.sharedShape
    | .cell _ c => "S" :: c.sharedShape
    | .host _ => ["S"]
  def Items.shape : Items → List String
    | .nil => []
    | .cons _ v tl => v.shape ++ tl.shape
  /-- below a shared node everything is shared -/
  def Val.sharedShape : Val → List String
    | .single _ => ["S"]
    | .atom _ _ => ["S"]
    | .box _ _ items => "S" :: items.sharedShape
    | .clos _ _ cells => "S" :: cells.sharedShape
    | .cell _ c => "S" :: c.sharedShape
    | .host _ => ["S"]
  def Items.sharedShape : Items → List String
    | .nil => []
    | .cons _ v tl => v.sharedShape ++ tl.sharedShape
end

/-! ### Machines, schedules -/

/-- One clone run as a deterministic step function over the whole memory `Loc → V` (registers and
stack of its VM are locations it owns). A halted machine steps to the same memory. -/
structure Machine (V : Type) where
  step : (Loc → V) → (Loc → V)
  acc : Loc → Prop        -- everything a step may read or write
  wr : Loc → Prop         -- everything a step may write
  frame : ∀ m l, ¬ wr l → step m l = m l
  loc : ∀ m m', (∀ l, acc l → m l = m' l) → ∀ l, acc l → step m l = step m' l

def iter {α : Type} (f : α → α) : Nat → α → α
  | 0, a => a
  | n + 1, a => iter f n (f a)

/-- run a schedule: the k-th entry names the machine that takes the k-th step -/
def exec {V : Type} (M : Nat → Machine V) : List Nat → (Loc → V) → (Loc → V)
  | [], m => m
  | i :: s, m => exec M s ((M i).step m)

/-- nobody writes what another one reads or writes -/
def NoInterf {V : Type} (M : Nat → Machine V) : Prop :=
  ∀ i j, i ≠ j → ∀ l, (M i).wr l → ¬ (M j).acc l

/-- writes go to the own region only -/
def WritesOwned {V : Type} (M : Nat → Machine V) : Prop :=
  ∀ i l, (M i).wr l → l.owner = Owner.owned i
/-- accesses go to the own region or to shared locations -/
def AccOwnedOrShared {V : Type} (M : Nat → Machine V) : Prop :=
  ∀ i l, (M i).acc l → l.owner = Owner.owned i ∨ l.owner = Owner.shared

/-- the sequential composition with the same number of steps per machine, machines `< k` in order -/
def sequential (count : Nat → Nat) : Nat → List Nat
  | 0 => []
  | k + 1 => sequential count k ++ List.replicate (count k) k

/-! ### Memory operations of a running clone and their footprints -/

def lastFileLoc : Loc := ⟨.shared, 0⟩            -- SourceFileSet.LastFile
def constLoc (k : Nat) : Loc := ⟨.shared, k + 1⟩  -- k-th constant (for a String: including its runeStr cache)

/-- The operations of a run that touch memory outside the VM's own registers. `target` is the
object operated on. -/
inductive Op where
  | constant (k : Nat)                              -- OpConstant: read a shared constant
  | getGlobal (g : Nat) | setGlobal (g : Nat)
  | indexGet (target : Loc) (isString : Bool) (cacheFilled : Bool)   -- IndexGet / Iterate
  | indexSet (target : Loc)                         -- Array.IndexSet / Map.IndexSet
  | iterNext (it : Loc)                             -- iterator Next
  | getFree (cell : Loc) | setFree (cell : Loc)
  | resolvePos (lastFileHit : Bool)                 -- error path: SourceFileSet.Position
  deriving DecidableEq, Repr

def globalLoc (i g : Nat) : Loc := ⟨.owned i, g⟩

def Op.reads (i : Nat) : Op → List Loc
  | .constant k => [constLoc k]
  | .getGlobal g => [globalLoc i g]
  | .setGlobal _ => []
  | .indexGet t _ _ => [t]
  | .indexSet t => [t]
  | .iterNext it => [it]
  | .getFree c => [c]
  | .setFree _ => []
  | .resolvePos _ => [lastFileLoc]

def Op.writes (i : Nat) : Op → List Loc
  | .constant _ => []
  | .getGlobal _ => []
  | .setGlobal g => [globalLoc i g]
  | .indexGet t isString cacheFilled => if isString && !cacheFilled then [t] else []   -- o.runeStr = []rune(o.Value)
  | .indexSet t => [t]
  | .iterNext it => [it]
  | .setFree c => [c]
  | .getFree _ => []
  | .resolvePos hit => if hit then [] else [lastFileLoc]                               -- s.LastFile = f

/-- the operations excluded by the partial theorem: filling the rune cache of a shared string,
and a file-set lookup that misses the one-entry cache -/
def Op.touchesSharedCache : Op → Bool
  | .indexGet t true false => t.owner == Owner.shared
  | .resolvePos false => true
  | _ => false

/-- targets of mutating operations lie in the clone's own region (what separation gives) -/
def Op.targetsOwned (i : Nat) : Op → Prop
  | .indexSet t => t.owner = Owner.owned i
  | .iterNext t => t.owner = Owner.owned i
  | .setFree c => c.owner = Owner.owned i
  | .indexGet t true false => t.owner = Owner.owned i ∨ t.owner = Owner.shared
  | _ => True

/-! ### API of `Compiled` as lock-annotated actions; the RWMutex -/

inductive Mode where
  | exclusive | shared
  deriving DecidableEq, Repr

inductive Api where
  | run | runContext | set | replaceBuiltinModule
  | get | getAll | isDefined | clone | size
  deriving DecidableEq, Repr

def Api.all : List Api := [.run, .runContext, .set, .replaceBuiltinModule, .get, .getAll, .isDefined, .clone, .size]

def Api.name : Api → String
  | .run => "Run" | .runContext => "RunContext" | .set => "Set"
  | .replaceBuiltinModule => "ReplaceBuiltinModule"
  | .get => "Get" | .getAll => "GetAll" | .isDefined => "IsDefined" | .clone => "Clone" | .size => "Size"

def Api.mode : Api → Mode
  | .run | .runContext | .set | .replaceBuiltinModule => .exclusive
  | _ => .shared

/-- parts of the receiver an action may write (`globals[]`: the slots and the objects below them) -/
def Api.writes : Api → List String
  | .run | .runContext => ["globals[]"]
  | .set => ["globals[]"]
  | .replaceBuiltinModule => ["bytecode", "globalIndexes", "fullClone"]
  | _ => []

def Api.reads : Api → List String
  | .run | .runContext => ["bytecode", "globals", "globals[]", "maxAllocs"]
  | .set => ["globalIndexes", "globals"]
  | .replaceBuiltinModule => ["bytecode", "globalIndexes", "fullClone"]
  | .get | .getAll | .isDefined => ["globalIndexes", "globals", "globals[]"]
  | .clone => ["bytecode", "globalIndexes", "globals", "globals[]", "maxAllocs"]
  | .size => ["bytecode", "globalIndexes", "globals"]

def Api.conflict (a b : Api) : Bool :=
  a.writes.any (fun f => b.writes.contains f || b.reads.contains f) ||
  b.writes.any (fun f => a.reads.contains f)

/-- RWMutex: the multiset of current holders. -/
abbrev Holders := List (Nat × Mode)

def canAcquire (h : Holders) : Mode → Bool
  | .exclusive => h.isEmpty
  | .shared => h.all (fun x => x.2 == Mode.shared)

inductive LockEv where
  | acquire (t : Nat) (m : Mode)
  | release (t : Nat)

/-- one event of the mutex; an acquire that is not admissible blocks (no transition) -/
def lockStep (h : Holders) : LockEv → Option Holders
  | .acquire t m => if canAcquire h m then some ((t, m) :: h) else none
  | .release t => some (h.filter (fun x => x.1 != t))

def lockRun : Holders → List LockEv → Option Holders
  | h, [] => some h
  | h, e :: es => match lockStep h e with
    | some h' => lockRun h' es
    | none => none

/-- two holders at once are both readers, or there is a single holder -/
def Compatible (h : Holders) : Prop :=
  h.length ≤ 1 ∨ ∀ x, x ∈ h → x.2 = Mode.shared

/-- `ReplaceBuiltinModule`: copy-on-write of the parts a clone shares. `fullClone` is the flag of
script.go; `bytecodeOwner` says whose region the `Bytecode` object (its `Constants` slice) lies in:
`shared` as soon as more than one `Compiled` points to it. -/
structure Cow where
  fullClone : Bool
  bytecodeOwner : Owner
  deriving DecidableEq, Repr

/-- `Script.Compile`: `fullClone = true`, nobody else holds the bytecode -/
def Cow.compiled (i : Nat) : Cow := { fullClone := true, bytecodeOwner := Owner.owned i }
/-- `Clone` builds an object with `fullClone = false` pointing to the same bytecode … -/
def Cow.cloneOf (_orig : Cow) : Cow := { fullClone := false, bytecodeOwner := Owner.shared }
/-- … and from then on the original's bytecode is shared too (its flag is NOT reset by `Clone`) -/
def Cow.afterCloned (orig : Cow) : Cow := { orig with bytecodeOwner := Owner.shared }

/-- `ReplaceBuiltinModule` of object `i`: new state and the owner of the `Constants` slice it writes -/
def Cow.replace (i : Nat) (c : Cow) : Cow × Owner :=
  if c.fullClone then (c, c.bytecodeOwner)
  else ({ fullClone := true, bytecodeOwner := Owner.owned i }, Owner.owned i)

end Tengo.Model.Clone

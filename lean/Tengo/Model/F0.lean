/-!
Fragment F0 of the compiler and the VM (property C01): expressions over constants and global
variables with all binary/unary operators, `==`/`!=`, `!`, the ternary and the short-circuit
operators, and straight-line statements with assignment to globals and if/else.

`comp`/`compS` mirror compiler.go (BinaryExpr, UnaryExpr, CondExpr, compileLogical, ExprStmt,
AssignStmt on globals, IfStmt) including absolute jump targets in BYTES; `step` mirrors the
corresponding cases of VM.run on (ip, stack, globals). The data semantics (what `+` does, what is
falsy) is a parameter `Sem`: the reference semantics and the VM share the object operations, so
this fragment is about control, jumps and stack plumbing. Core Lean only.
-/
namespace Tengo.Model.F0

/-- Data semantics shared by the reference evaluator and the machine. -/
structure Sem (V : Type) where
  binop  : Nat → V → V → Option V      -- BinaryOp by token number; `none` = run-time error
  eqv    : V → V → Bool
  falsy  : V → Bool
  neg    : V → Option V                -- unary -
  bnot   : V → Option V                -- unary ^
  ofBool : Bool → V
  undef  : V

/-- Instructions used by the fragment (operands as in parser/opcodes.go). -/
inductive Ins where
  | const (k : Nat) | getg (i : Nat) | setg (i : Nat) | binop (tok : Nat)
  | eql | neq | minus | bcompl | lnot | tru | fls | null | pop
  | jmpf (t : Nat) | jmp (t : Nat) | andjmp (t : Nat) | orjmp (t : Nat)
  deriving Repr, DecidableEq

/-- Encoded size in bytes. -/
def Ins.size : Ins → Nat
  | .const _ | .getg _ | .setg _ => 3
  | .binop _ => 2
  | .jmpf _ | .jmp _ | .andjmp _ | .orjmp _ => 5
  | _ => 1

def csize : List Ins → Nat
  | [] => 0
  | i :: is => i.size + csize is

theorem csize_append (a b : List Ins) : csize (a ++ b) = csize a + csize b := by
  induction a with
  | nil => simp [csize]
  | cons i is ih => simp [csize, ih, Nat.add_assoc]

/-- Resolved expressions: constants by pool index, variables by global index. -/
inductive Ex where
  | lit (k : Nat) | tru | fls | undef | glob (i : Nat)
  | bin (tok : Nat) (l r : Ex) | eq (l r : Ex) | ne (l r : Ex)
  | neg (e : Ex) | bnot (e : Ex) | lnot (e : Ex) | plus (e : Ex)
  | cond (c t f : Ex) | land (l r : Ex) | lor (l r : Ex)

mutual
  /-- Statements: expression statement, assignment to a global, if without / with else. -/
  inductive Stm where
    | expr (e : Ex)
    | assign (i : Nat) (e : Ex)
    | ifs (c : Ex) (body : Stms)
    | ifelse (c : Ex) (body els : Stms)
  /-- Statement lists (own list type: keeps recursion and induction structural). -/
  inductive Stms where
    | nil
    | cons (s : Stm) (ss : Stms)
end

/-! ### reference semantics (big step; total: the fragment has no loops) -/

variable {V : Type}

def eval (S : Sem V) (cs g : Nat → V) : Ex → Option V
  | .lit k => some (cs k)
  | .tru => some (S.ofBool true)
  | .fls => some (S.ofBool false)
  | .undef => some S.undef
  | .glob i => some (g i)
  | .bin tok l r =>
    match eval S cs g l with
    | none => none
    | some a => match eval S cs g r with
      | none => none
      | some b => S.binop tok a b
  | .eq l r =>
    match eval S cs g l with
    | none => none
    | some a => match eval S cs g r with
      | none => none
      | some b => some (S.ofBool (S.eqv a b))
  | .ne l r =>
    match eval S cs g l with
    | none => none
    | some a => match eval S cs g r with
      | none => none
      | some b => some (S.ofBool (!S.eqv a b))
  | .neg e => match eval S cs g e with
    | none => none
    | some a => S.neg a
  | .bnot e => match eval S cs g e with
    | none => none
    | some a => S.bnot a
  | .lnot e => match eval S cs g e with
    | none => none
    | some a => some (S.ofBool (S.falsy a))
  | .plus e => eval S cs g e
  | .cond c t f => match eval S cs g c with
    | none => none
    | some a => if S.falsy a then eval S cs g f else eval S cs g t
  | .land l r => match eval S cs g l with
    | none => none
    | some a => if S.falsy a then some a else eval S cs g r
  | .lor l r => match eval S cs g l with
    | none => none
    | some a => if S.falsy a then eval S cs g r else some a

def upd (g : Nat → V) (i : Nat) (v : V) : Nat → V := fun j => if j = i then v else g j

mutual
  def exec (S : Sem V) (cs : Nat → V) : Stm → (Nat → V) → Option (Nat → V)
    | .expr e, g => (eval S cs g e).map (fun _ => g)
    | .assign i e, g => (eval S cs g e).map (fun v => upd g i v)
    | .ifs c body, g =>
      match eval S cs g c with
      | none => none
      | some a => if S.falsy a then some g else execs S cs body g
    | .ifelse c body els, g =>
      match eval S cs g c with
      | none => none
      | some a => if S.falsy a then execs S cs els g else execs S cs body g
  def execs (S : Sem V) (cs : Nat → V) : Stms → (Nat → V) → Option (Nat → V)
    | .nil, g => some g
    | .cons s ss, g => match exec S cs s g with
      | none => none
      | some g' => execs S cs ss g'
end

/-! ### the compiler -/

/-- `comp off e`: code of `e` placed at byte offset `off` (jump operands are absolute). -/
def comp (off : Nat) : Ex → List Ins
  | .lit k => [.const k]
  | .tru => [.tru]
  | .fls => [.fls]
  | .undef => [.null]
  | .glob i => [.getg i]
  | .bin tok l r =>
    let lc := comp off l
    lc ++ comp (off + csize lc) r ++ [.binop tok]
  | .eq l r =>
    let lc := comp off l
    lc ++ comp (off + csize lc) r ++ [.eql]
  | .ne l r =>
    let lc := comp off l
    lc ++ comp (off + csize lc) r ++ [.neq]
  | .neg e => comp off e ++ [.minus]
  | .bnot e => comp off e ++ [.bcompl]
  | .lnot e => comp off e ++ [.lnot]
  | .plus e => comp off e
  | .cond c t f =>
    let cc := comp off c
    let tOff := off + csize cc + 5
    let tc := comp tOff t
    let fOff := tOff + csize tc + 5
    let fc := comp fOff f
    cc ++ [.jmpf fOff] ++ tc ++ [.jmp (fOff + csize fc)] ++ fc
  | .land l r =>
    let lc := comp off l
    let rOff := off + csize lc + 5
    let rc := comp rOff r
    lc ++ [.andjmp (rOff + csize rc)] ++ rc
  | .lor l r =>
    let lc := comp off l
    let rOff := off + csize lc + 5
    let rc := comp rOff r
    lc ++ [.orjmp (rOff + csize rc)] ++ rc

mutual
  def compS (off : Nat) : Stm → List Ins
    | .expr e => comp off e ++ [.pop]
    | .assign i e => comp off e ++ [.setg i]
    | .ifs c body =>
      let cc := comp off c
      let bOff := off + csize cc + 5
      let bc := compSs bOff body
      cc ++ [.jmpf (bOff + csize bc)] ++ bc
    | .ifelse c body els =>
      let cc := comp off c
      let bOff := off + csize cc + 5
      let bc := compSs bOff body
      let eOff := bOff + csize bc + 5
      let ec := compSs eOff els
      cc ++ [.jmpf eOff] ++ bc ++ [.jmp (eOff + csize ec)] ++ ec
  def compSs (off : Nat) : Stms → List Ins
    | .nil => []
    | .cons s ss =>
      let sc := compS off s
      sc ++ compSs (off + csize sc) ss
end

/-! ### the machine -/

structure St (V : Type) where
  ip : Nat
  stack : List V
  g : Nat → V

/-- Instruction that starts at byte offset `ip`. -/
def fetch : List Ins → Nat → Option Ins
  | [], _ => none
  | i :: is, 0 => some i
  | i :: is, n + 1 => if n + 1 ≥ i.size then fetch is (n + 1 - i.size) else none

inductive Res (V : Type) where
  | next (s : St V)
  | err                  -- run-time error (v.err set) or stack underflow
  | stuck                -- no instruction starts at ip

/-- One dispatch of `VM.run` for the fragment's opcodes. -/
def step (S : Sem V) (cs : Nat → V) (code : List Ins) (s : St V) : Res V :=
  match fetch code s.ip with
  | none => .stuck
  | some i =>
    let nip := s.ip + i.size
    match i, s.stack with
    | .const k, st => .next { s with ip := nip, stack := cs k :: st }
    | .tru, st => .next { s with ip := nip, stack := S.ofBool true :: st }
    | .fls, st => .next { s with ip := nip, stack := S.ofBool false :: st }
    | .null, st => .next { s with ip := nip, stack := S.undef :: st }
    | .getg j, st => .next { s with ip := nip, stack := s.g j :: st }
    | .setg j, v :: st => .next { ip := nip, stack := st, g := upd s.g j v }
    | .pop, _ :: st => .next { s with ip := nip, stack := st }
    | .binop tok, b :: a :: st =>
      match S.binop tok a b with
      | some v => .next { s with ip := nip, stack := v :: st }
      | none => .err
    | .eql, b :: a :: st => .next { s with ip := nip, stack := S.ofBool (S.eqv a b) :: st }
    | .neq, b :: a :: st => .next { s with ip := nip, stack := S.ofBool (!S.eqv a b) :: st }
    | .minus, a :: st =>
      match S.neg a with
      | some v => .next { s with ip := nip, stack := v :: st }
      | none => .err
    | .bcompl, a :: st =>
      match S.bnot a with
      | some v => .next { s with ip := nip, stack := v :: st }
      | none => .err
    | .lnot, a :: st => .next { s with ip := nip, stack := S.ofBool (S.falsy a) :: st }
    | .jmpf t, a :: st => .next { s with ip := (if S.falsy a then t else nip), stack := st }
    | .jmp t, st => .next { s with ip := t, stack := st }
    | .andjmp t, a :: st =>
      if S.falsy a then .next { s with ip := t, stack := a :: st } else .next { s with ip := nip, stack := st }
    | .orjmp t, a :: st =>
      if S.falsy a then .next { s with ip := nip, stack := st } else .next { s with ip := t, stack := a :: st }
    | _, _ => .err

/-- Outcome of running at most `n` dispatches. -/
inductive Out (V : Type) where
  | at (s : St V)        -- still running, currently at `s`
  | err
  | stuck

def runN (S : Sem V) (cs : Nat → V) (code : List Ins) : Nat → St V → Out V
  | 0, s => .at s
  | n + 1, s =>
    match step S cs code s with
    | .next s' => runN S cs code n s'
    | .err => .err
    | .stuck => .stuck

end Tengo.Model.F0

import Tengo.Model.F0
import Tengo.Model.F1
import Tengo.Model.SpecEval
import Tengo.Model.Bytecode
/-!
Front half of the F0 compiler model: from the real parser's AST (Tengo.Model.Spec) to resolved F0
statements (names ↦ global indexes through the block-scoped symbol table, literals ↦ constant-pool
indexes in `addConstant` order), and from F0 instructions to bytes. Programs outside the fragment
resolve to `none`. The byte output is compared with the real compiler's main function on every run.
Core Lean only.
-/
namespace Tengo.Model.F0
open Tengo.Model.Spec (Expr Stmt Value)

/-- Token numbers of the binary operators (token/token.go; checked against Gen.Tokens in Props). -/
def tokNumbers : List (String × Nat) :=
  [("Add", 11), ("Sub", 12), ("Mul", 13), ("Quo", 14), ("Rem", 15), ("And", 16), ("Or", 17), ("Xor", 18),
   ("Shl", 19), ("Shr", 20), ("AndNot", 21), ("Less", 38), ("Greater", 39), ("LessEq", 43), ("GreaterEq", 44)]

def tokNameOf (n : Nat) : String := ((tokNumbers.find? (fun p => p.2 == n)).map Prod.fst).getD "?"

inductive Const where
  | int (v : Int) | float (bits : UInt64) | char (v : Int) | str (b : Spec.Bytes)

structure RS where
  consts : List Const := []                 -- constant pool (in addConstant order)
  scopes : List (List (String × Nat)) := [[]]  -- block scopes of global names, innermost first
  nglob  : Nat := 0                         -- next global index

def RS.lookup (rs : RS) (n : String) : Option Nat := rs.scopes.findSome? (fun s => s.lookup n)

def RS.define (rs : RS) (n : String) : RS × Nat :=
  match rs.scopes with
  | s :: rest => ({ rs with scopes := ((n, rs.nglob) :: s) :: rest, nglob := rs.nglob + 1 }, rs.nglob)
  | [] => ({ rs with scopes := [[(n, rs.nglob)]], nglob := rs.nglob + 1 }, rs.nglob)

def RS.addConst (rs : RS) (c : Const) : RS × Nat := ({ rs with consts := rs.consts ++ [c] }, rs.consts.length)

def resolveE : Nat → RS → Expr → Option (Ex × RS)
  | 0, _, _ => none
  | d + 1, rs, e =>
    match e with
    | .int v => let (rs, k) := rs.addConst (.int v); some (.lit k, rs)
    | .float b => let (rs, k) := rs.addConst (.float b); some (.lit k, rs)
    | .char v => let (rs, k) := rs.addConst (.char v); some (.lit k, rs)
    | .str b => let (rs, k) := rs.addConst (.str b); some (.lit k, rs)
    | .bool b => some (if b then .tru else .fls, rs)
    | .undef => some (.undef, rs)
    | .ident n => (rs.lookup n).map (fun i => (.glob i, rs))
    | .paren x => resolveE d rs x
    | .bin tok l r => do
        let (l', rs) ← resolveE d rs l
        let (r', rs) ← resolveE d rs r
        if tok == "LAnd" then pure (.land l' r', rs)
        else if tok == "LOr" then pure (.lor l' r', rs)
        else if tok == "Equal" then pure (.eq l' r', rs)
        else if tok == "NotEqual" then pure (.ne l' r', rs)
        else match tokNumbers.lookup tok with
          | some n => pure (.bin n l' r', rs)
          | none => none
    | .un tok x => do
        let (x', rs) ← resolveE d rs x
        match tok with
        | "Not" => pure (.lnot x', rs)
        | "Sub" => pure (.neg x', rs)
        | "Xor" => pure (.bnot x', rs)
        | "Add" => pure (.plus x', rs)
        | _ => none
    | .cond c t f => do
        let (c', rs) ← resolveE d rs c
        let (t', rs) ← resolveE d rs t
        let (f', rs) ← resolveE d rs f
        pure (.cond c' t' f', rs)
    | _ => none

def stmsOfList : List F1.Stm → F1.Stms
  | [] => .nil
  | s :: ss => .cons s (stmsOfList ss)

mutual
  /-- One source statement resolves to a list of F0 statements (an `if` with an init statement
  yields the init followed by the conditional). -/
  def resolveS : Nat → RS → Stmt → Option (List F1.Stm × RS)
    | 0, _, _ => none
    | d + 1, rs, s =>
      match s with
      | .expr e => do let (e', rs) ← resolveE d rs e; pure ([.expr e'], rs)
      | .empty => some ([], rs)
      | .assign tok [.ident n] [r] =>
        if tok == "Define" then
          match r with
          | .func .. => none
          | _ => do
            -- redeclaration in the same block is a compile error: outside the fragment
            match rs.scopes.head? with
            | some s0 => if (s0.lookup n).isSome then none else pure ()
            | none => pure ()
            let (r', rs) ← resolveE d rs r
            let (rs, i) := rs.define n
            pure ([.assign i r'], rs)
        else if tok == "Assign" then do
          let i ← rs.lookup n
          let (r', rs) ← resolveE d rs r
          pure ([.assign i r'], rs)
        else do
          let i ← rs.lookup n
          let op := (tok.dropEnd 6).toString
          let num ← tokNumbers.lookup op
          let (r', rs) ← resolveE d rs r
          pure ([.assign i (.bin num (.glob i) r')], rs)
      | .incdec tok (.ident n) => do
          let i ← rs.lookup n
          let (rs, k) := rs.addConst (.int 1)
          pure ([.assign i (.bin (if tok == "Inc" then 11 else 12) (.glob i) (.lit k))], rs)
      | .ifs ini c body els => do
          -- the statement's own scope
          let rs1 := { rs with scopes := [] :: rs.scopes }
          let (pre, rs2) ← match ini with
            | some st => resolveS d rs1 st
            | none => some ([], rs1)
          let (c', rs3) ← resolveE d rs2 c
          let (b', rs4) ← resolveBlock d rs3 body
          match els with
          | none =>
            pure (pre ++ [.ifs c' (stmsOfList b')], { rs4 with scopes := rs4.scopes.drop 1 })
          | some (.block ess) => do
            let (e', rs5) ← resolveBlock d rs4 ess
            pure (pre ++ [.ifelse c' (stmsOfList b') (stmsOfList e')], { rs5 with scopes := rs5.scopes.drop 1 })
          | some st => do
            let (e', rs5) ← resolveS d rs4 st
            pure (pre ++ [.ifelse c' (stmsOfList b') (stmsOfList e')], { rs5 with scopes := rs5.scopes.drop 1 })
      | .block ss => resolveBlock d rs ss
      | .fors ini c post body => do
          -- loops without break/continue: init; `for cond { body; post }`
          let rs1 := { rs with scopes := [] :: rs.scopes }
          let (pre, rs2) ← match ini with
            | some st => resolveS d rs1 st
            | none => some ([], rs1)
          let (c', rs3) ← match c with
            | some c => do let (x, r) ← resolveE d rs2 c; pure (some x, r)
            | none => some (none, rs2)
          let (b', rs4) ← resolveBlock d rs3 body
          let (p', rs5) ← match post with
            | some st => resolveS d rs4 st
            | none => some ([], rs4)
          let loop : F1.Stm := match c' with
            | some x => .whil x (stmsOfList (b' ++ p'))
            | none => .forever (stmsOfList (b' ++ p'))
          pure (pre ++ [loop], { rs5 with scopes := rs5.scopes.drop 1 })
      | _ => none
  /-- A block: its own scope unless empty. -/
  def resolveBlock : Nat → RS → List Stmt → Option (List F1.Stm × RS)
    | 0, _, _ => none
    | _ + 1, rs, [] => some ([], rs)
    | d + 1, rs, ss => do
        let (out, rs') ← resolveList d { rs with scopes := [] :: rs.scopes } ss
        pure (out, { rs' with scopes := rs'.scopes.drop 1 })
  def resolveList : Nat → RS → List Stmt → Option (List F1.Stm × RS)
    | 0, _, _ => none
    | _ + 1, rs, [] => some ([], rs)
    | d + 1, rs, s :: ss => do
        let (a, rs) ← resolveS d rs s
        let (b, rs) ← resolveList d rs ss
        pure (a ++ b, rs)
end

/-! ### encoding -/

def Ins.toInstr : Ins → Nat × List Nat
  | .const k => (Opcodes.opConstant, [k]) | .getg i => (Opcodes.opGetGlobal, [i]) | .setg i => (Opcodes.opSetGlobal, [i])
  | .binop t => (Opcodes.opBinaryOp, [t]) | .eql => (Opcodes.opEqual, []) | .neq => (Opcodes.opNotEqual, [])
  | .minus => (Opcodes.opMinus, []) | .bcompl => (Opcodes.opBComplement, []) | .lnot => (Opcodes.opLNot, [])
  | .tru => (Opcodes.opTrue, []) | .fls => (Opcodes.opFalse, []) | .null => (Opcodes.opNull, []) | .pop => (Opcodes.opPop, [])
  | .jmpf t => (Opcodes.opJumpFalsy, [t]) | .jmp t => (Opcodes.opJump, [t])
  | .andjmp t => (Opcodes.opAndJump, [t]) | .orjmp t => (Opcodes.opOrJump, [t])

def encodeIns (is : List Ins) : Tengo.Model.Bytes :=
  is.flatMap (fun i => let (op, args) := i.toInstr; Tengo.Model.encodeInstr op args)

/-- Main function of a program of the fragment: statements then SUSPEND. -/
def compileMain (ss : List Stmt) : Option (Tengo.Model.Bytes × RS × F1.Stms) :=
  match resolveList 4000 {} ss with
  | none => none
  | some (stms, rs) =>
    let st := stmsOfList stms
    some (encodeIns (F1.compSs 0 st) ++ [UInt8.ofNat Opcodes.opSuspend], rs, st)

/-! ### the data semantics of the reference interpreter restricted to scalars -/

def runPure {α} (x : Spec.M α) : Option α :=
  match x.run {} with
  | .ok (a, _) => some a
  | .error _ => none

def specSem : Sem Value where
  binop := fun t a b => runPure (Spec.binaryOp (tokNameOf t) a b)
  eqv := fun a b => (runPure (Spec.equalsV 8 a b)).getD false
  falsy := fun a => (runPure (Spec.isFalsy a)).getD false
  neg := fun a => match a with
    | .int n => some (.int (Spec.wrap64 (-n)))
    | .float f => some (.float (-f))
    | _ => none
  bnot := fun a => match a with
    | .int n => some (.int (-n - 1))
    | _ => none
  ofBool := .bool
  undef := .undef

def constValue : Const → Value
  | .int v => .int v | .float b => .float (Float.ofBits b) | .char v => .char v | .str b => .str b

end Tengo.Model.F0

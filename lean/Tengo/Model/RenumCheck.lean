import Tengo.Model.VM
import Tengo.Model.RelocCheck
/-!
Translation validation for bytecode transformations that renumber the constant pool
(`Bytecode.RemoveDuplicates` + `updateConstIndexes` of bytecode.go): a decidable check that `code'` is
`code` with constant `k` moved to index `cm k` and the first operand of every CONST / CLOSURE rewritten to
`cm k`, everything else (instruction sizes, jump targets, other operands, frame layouts) unchanged.

Soundness (`Tengo.Proofs.VMRenumCheck`): a passed check plus agreement of the value constants gives the
relation `Renum`, hence (`run_renum`) corresponding outcomes of the whole-VM model for every input. The
index table and the sets of instruction starts are untrusted (any that pass will do).

`Value` has no decidable equality (it contains `Float`, which is opaque in core Lean), so the check
itself does not compare value constants. Their agreement is a separate hypothesis of the theorems,
discharged either by `valsAgreeB` (decidable, pools without float constants) or by construction:
`expandVals code code' tab` is `code` with every value constant `k` replaced by the value constant
`cm k` of `code'` (the driver verifies that this replaces every constant by a constant with the same
S-expression text). Core Lean only.
-/
namespace Tengo.Model.VM
open Tengo.Model.Opcodes Tengo.Model.Spec

/-- Function index (`0` = main, `k + 1` = function constant `k`) under the constant map `cm`. -/
def fim (cm : Nat → Nat) (idx : Nat) : Nat := if idx = 0 then 0 else cm (idx - 1) + 1
/-- A function object names its constant by index: renumbered. Its captured cells are untouched. -/
def mapFobj (cm : Nat → Nat) (fo : FnObj) : FnObj := (cm fo.1, fo.2)

/-- The index map given by a table: `tab[k]` for the constants of the original pool, an index past the
new pool for everything else. -/
def cmOf (tab : List Nat) (newSize : Nat) (k : Nat) : Nat := (tab[k]?).getD (newSize + k)

def fnShapeB (f f' : Fn) : Bool :=
  f'.numLocals == f.numLocals && f'.numParams == f.numParams && f'.varargs == f.varargs &&
    f'.insts.size == f.insts.size

/-- Same kind of constant; function constants with the same frame layout and as many instruction bytes. -/
def constShapeB : Option Const → Option Const → Bool
  | some (.val _), some (.val _) => true
  | some (.fn f _), some (.fn f' _) => fnShapeB f f'
  | none, none => true
  | _, _ => false

/-- What CONST needs: the constant exists; function constants stand for the same function object. -/
def constRefOkB : Option Const → Option Const → Bool
  | some (.val _), some (.val _) => true
  | some (.fn _ r), some (.fn _ r') => r' == r
  | _, _ => false

/-- What CLOSURE needs: function constants on both sides. -/
def isFnPairB : Option Const → Option Const → Bool
  | some (.fn _ _), some (.fn _ _) => true
  | _, _ => false

/-- The renumbered instruction reads like the original: same opcode, size and second operand; the first
operand is renumbered for CONST and CLOSURE and unchanged otherwise. -/
def fetchRelCB (cm : Nat → Nat) (i i' : Fetched) : Bool :=
  i'.op == i.op && i'.a1 == i.a1 && i'.size == i.size &&
    i'.a0 == (if i.op == opConstant || i.op == opClosure then cm i.a0 else i.a0)

/-- One function: `st` contains 0, is closed under fall-through and jump targets, and at every member
the two functions read corresponding instructions. -/
def checkFnRenum (code code' : Code) (cm : Nat → Nat) (f f' : Fn) (st : List Nat) : Bool :=
  st.contains 0 &&
  st.all (fun p =>
    let i := fetch f p
    p < f.insts.size && fetchRelCB cm i (fetch f' p) &&
    (i.op != opConstant || constRefOkB (code.consts[i.a0]?) (code'.consts[cm i.a0]?)) &&
    (i.op != opClosure || isFnPairB (code.consts[i.a0]?) (code'.consts[cm i.a0]?)) &&
    (!canFallB i.op || st.contains (p + i.size)) &&
    (!jumpOpsB.contains i.op || st.contains i.a0))

/-- Is `code'` the program `code` with its constant pool renumbered by `tab` (value constants are not
compared: see `valsAgreeB` / `expandVals`)? -/
def checkRenum (code code' : Code) (tab : List Nat) (starts : Nat → List Nat) : Bool :=
  let cm := cmOf tab code'.consts.size
  tab.length == code.consts.size &&
  fnShapeB code.main code'.main &&
  (List.range code.consts.size).all (fun k => constShapeB (code.consts[k]?) (code'.consts[cm k]?)) &&
  (List.range (code.consts.size + 1)).all (fun idx =>
    match code.fn idx, code'.fn (fim cm idx) with
    | some f, some f' => checkFnRenum code code' cm f f' (starts idx)
    | some _, none => false
    | none, _ => true)

/-- Structural equality of the constant kinds that have a decidable equality. (Float constants never
compare equal: `Float` is opaque in core Lean; pools with float constants go through `expandVals`.) -/
def valEqB : Value → Value → Bool
  | .undef, .undef => true
  | .bool a, .bool b => a == b
  | .int a, .int b => a == b
  | .char a, .char b => a == b
  | .str a, .str b => a == b
  | .bytes a, .bytes b => a == b
  | _, _ => false

/-- Every value constant `k` of `code` equals the value constant `cm k` of `code'`. -/
def valsAgreeB (code code' : Code) (tab : List Nat) : Bool :=
  (List.range code.consts.size).all (fun k =>
    match code.consts[k]?, code'.consts[cmOf tab code'.consts.size k]? with
    | some (.val v), some (.val v') => valEqB v' v
    | _, _ => true)

/-- `code` with every value constant `k` replaced by the value constant `cm k` of `code'`. -/
def expandVals (code code' : Code) (tab : List Nat) : Code :=
  { code with consts := code.consts.mapIdx (fun k c =>
      match c, code'.consts[cmOf tab code'.consts.size k]? with
      | .val _, some (.val v') => .val v'
      | c, _ => c) }

/-- The initial function objects of the two programs correspond. -/
def initRelB (fobjs fobjs' : Array FnObj) (tab : List Nat) (newSize : Nat) : Bool :=
  fobjs'.toList == fobjs.toList.map (mapFobj (cmOf tab newSize))

end Tengo.Model.VM

/-!
Model of the host/script value exchange of d5/tengo (C15). Core Lean only.

* `fromInterface` / `toInterface`  — the two type switches of tengo.go, case by case;
* `normalize`                      — the documented normalisation of a Go value by a round trip;
* `access`                         — the typed accessors of variable.go (through ToInt64, ToFloat64, …);
* `Host` / `step`                  — Script / Compiled state machine of script.go over an object store
                                     (top-level objects have identity: `Compile` shares them, `Clone` copies);
* `Abs` / `astep`                  — the abstract specification: every handle maps names to their last value.

External to the model (parameters `Ext`, no behaviour assumed): `Object.String()` of a value
(strconv.Quote, FormatFloat, … live there), `strconv.ParseInt/ParseFloat`, Go's float↔int conversions.
-/
namespace Tengo.Model.Host

abbrev Bytes := List UInt8

/-! ## Values -/

/-- Tengo objects (objects.go), as trees. `time`: Unix seconds and nanoseconds. `userFn`: a
`*UserFunction` wrapping host callable `#id`; `other`: any other `Object` implementation. -/
inductive TVal where
  | undefined
  | int (v : Int)
  | str (s : Bytes)
  | float (bits : UInt64)
  | bool (b : Bool)
  | char (c : Int)
  | bytes (b : Bytes)
  | array (xs : List TVal)
  | immArray (xs : List TVal)
  | map (m : List (String × TVal))
  | immMap (m : List (String × TVal))
  | time (sec : Int) (nsec : Nat)
  | error (payload : TVal)
  | userFn (id : Nat)
  | other (id : Nat)
  deriving Repr, Inhabited

/-- Go's sized integer types as they can sit in an `interface{}` (`rune` = int32, `byte` = uint8). -/
inductive IntKind where
  | int | int8 | int16 | int32 | int64 | uint | uint8 | uint16 | uint32 | uint64 | uintptr
  deriving Repr, DecidableEq, Inhabited

def IntKind.goName : IntKind → String
  | .int => "int" | .int8 => "int8" | .int16 => "int16" | .int32 => "int32" | .int64 => "int64"
  | .uint => "uint" | .uint8 => "uint8" | .uint16 => "uint16" | .uint32 => "uint32"
  | .uint64 => "uint64" | .uintptr => "uintptr"

/-- Go values as the host hands them over in an `interface{}`. -/
inductive GoVal where
  | nil
  | bool (b : Bool)
  | int (k : IntKind) (v : Int)
  | float64 (bits : UInt64)
  | str (s : Bytes)
  | bytes (b : Bytes)
  | time (sec : Int) (nsec : Nat)
  | error (msg : Bytes)                    -- an `error` whose Error() text is msg
  | mapObj (m : List (String × TVal))      -- map[string]Object
  | mapIface (m : List (String × GoVal))   -- map[string]interface{}
  | sliceObj (xs : List TVal)              -- []Object
  | sliceIface (xs : List GoVal)           -- []interface{}
  | object (o : TVal)                      -- a tengo.Object handed over as such
  | callable (id : Nat)                    -- CallableFunc
  | unsupported (typeName : String)        -- any other dynamic type (chan, struct, float32, []int, …)
  deriving Repr, Inhabited

structure Limits where
  maxStringLen : Nat
  maxBytesLen : Nat
  deriving Repr

inductive ConvErr where
  | stringLimit                       -- ErrStringLimit
  | bytesLimit                        -- ErrBytesLimit
  | cannotConvert (typeName : String) -- "cannot convert to object: %T"
  deriving Repr, DecidableEq, Inhabited

/-- What the Go standard library and `Object.String()` compute; parameters of the model. -/
structure Ext where
  objString : TVal → Bytes            -- Object.String()
  parseInt : Bytes → Option Int       -- strconv.ParseInt(s, 10, 64)
  parseFloat : Bytes → Option UInt64  -- strconv.ParseFloat(s, 64)
  floatToInt : UInt64 → Int           -- int64(f)
  intToFloat : Int → UInt64           -- float64(i)

def bytesOf (s : String) : Bytes := s.toUTF8.toList

/-- `(*Error).String()`: "error: " ++ payload.String(). -/
def errorText (X : Ext) (p : TVal) : Bytes := bytesOf "error: " ++ X.objString p

/-! ## FromInterface (tengo.go) -/

mutual
/-- `FromInterface`: the cases in source order. -/
def fromInterface (L : Limits) : GoVal → Except ConvErr TVal
  | .nil => .ok .undefined
  | .str s => if s.length > L.maxStringLen then .error .stringLimit else .ok (.str s)
  | .int .int64 v => .ok (.int v)
  | .int .int v => .ok (.int v)
  | .bool b => .ok (.bool b)
  | .int .int32 v => .ok (.char v)          -- case rune
  | .int .uint8 v => .ok (.char v)          -- case byte
  | .float64 b => .ok (.float b)
  | .bytes b => if b.length > L.maxBytesLen then .error .bytesLimit else .ok (.bytes b)
  | .error msg => .ok (.error (.str msg))
  | .mapObj m => .ok (.map m)
  | .mapIface m => match fromInterfaceMap L m with
      | .ok kv => .ok (.map kv)
      | .error e => .error e
  | .sliceObj xs => .ok (.array xs)
  | .sliceIface xs => match fromInterfaceList L xs with
      | .ok arr => .ok (.array arr)
      | .error e => .error e
  | .time s n => .ok (.time s n)
  | .object o => .ok o
  | .callable id => .ok (.userFn id)
  | .int k _ => .error (.cannotConvert k.goName)
  | .unsupported t => .error (.cannotConvert t)
def fromInterfaceList (L : Limits) : List GoVal → Except ConvErr (List TVal)
  | [] => .ok []
  | g :: gs => match fromInterface L g with
      | .error e => .error e
      | .ok v => match fromInterfaceList L gs with
        | .ok vs => .ok (v :: vs)
        | .error e => .error e
/-- Entries in list order (the Go loop ranges over the map: with two bad entries the reported one is
whichever comes first; the harness compares only the error-ness then). -/
def fromInterfaceMap (L : Limits) : List (String × GoVal) → Except ConvErr (List (String × TVal))
  | [] => .ok []
  | (k, g) :: gs => match fromInterface L g with
      | .error e => .error e
      | .ok v => match fromInterfaceMap L gs with
        | .ok vs => .ok ((k, v) :: vs)
        | .error e => .error e
end

/-! ## ToInterface (tengo.go) -/

mutual
def toInterface (X : Ext) : TVal → GoVal
  | .int v => .int .int64 v
  | .str s => .str s
  | .float b => .float64 b
  | .bool b => .bool b
  | .char c => .int .int32 c
  | .bytes b => .bytes b
  | .array xs => .sliceIface (toInterfaceList X xs)
  | .immArray xs => .sliceIface (toInterfaceList X xs)
  | .map m => .mapIface (toInterfaceMap X m)
  | .immMap m => .mapIface (toInterfaceMap X m)
  | .time s n => .time s n
  | .error p => .error (errorText X p)
  | .undefined => .nil
  | .userFn id => .object (.userFn id)      -- case Object: returned as is
  | .other id => .object (.other id)
def toInterfaceList (X : Ext) : List TVal → List GoVal
  | [] => []
  | v :: vs => toInterface X v :: toInterfaceList X vs
def toInterfaceMap (X : Ext) : List (String × TVal) → List (String × GoVal)
  | [] => []
  | (k, v) :: m => (k, toInterface X v) :: toInterfaceMap X m
end

/-! ## The documented normalisation

int kinds ↦ int64; byte/rune ↦ rune (int32); an error ↦ an error carrying the text of the Tengo error
value made of its message; containers of objects ↦ containers of converted elements; an Object ↦ what
ToInterface makes of it; a callable ↦ the UserFunction object wrapping it; the rest unchanged. -/
mutual
def normalize (X : Ext) : GoVal → GoVal
  | .nil => .nil
  | .bool b => .bool b
  | .int .int64 v => .int .int64 v
  | .int .int v => .int .int64 v
  | .int .int32 v => .int .int32 v
  | .int .uint8 v => .int .int32 v
  | .int k v => .int k v
  | .float64 b => .float64 b
  | .str s => .str s
  | .bytes b => .bytes b
  | .time s n => .time s n
  | .error msg => .error (errorText X (.str msg))
  | .mapObj m => .mapIface (toInterfaceMap X m)
  | .mapIface m => .mapIface (normalizeMap X m)
  | .sliceObj xs => .sliceIface (toInterfaceList X xs)
  | .sliceIface xs => .sliceIface (normalizeList X xs)
  | .object o => toInterface X o
  | .callable id => .object (.userFn id)
  | .unsupported t => .unsupported t
def normalizeList (X : Ext) : List GoVal → List GoVal
  | [] => []
  | g :: gs => normalize X g :: normalizeList X gs
def normalizeMap (X : Ext) : List (String × GoVal) → List (String × GoVal)
  | [] => []
  | (k, g) :: m => (k, normalize X g) :: normalizeMap X m
end

/-! ## Typed accessors (variable.go over ToInt64, ToFloat64, ToBool, ToRune, ToString, ToByteSlice) -/

def wrap32 (v : Int) : Int := (v + 2147483648) % 4294967296 - 2147483648

def isNaN (bits : UInt64) : Bool :=
  ((bits >>> 52) &&& 0x7ff) == 0x7ff && (bits &&& 0xfffffffffffff) != 0

/-- Unix seconds of `time.Time{}` (January 1, year 1, 00:00 UTC). -/
def zeroTimeSec : Int := -62135596800

def isFalsy : TVal → Bool
  | .undefined => true
  | .int v => v == 0
  | .str s => s.isEmpty
  | .float b => isNaN b
  | .bool b => !b
  | .char c => c == 0
  | .bytes b => b.isEmpty
  | .array xs => xs.isEmpty
  | .immArray xs => xs.isEmpty
  | .map m => m.isEmpty
  | .immMap m => m.isEmpty
  | .time s n => s == zeroTimeSec && n == 0
  | .error _ => true
  | .userFn _ => false
  | .other _ => false

def toInt64 (X : Ext) : TVal → Option Int
  | .int v => some v
  | .float b => some (X.floatToInt b)
  | .char c => some c
  | .bool b => some (if b then 1 else 0)
  | .str s => X.parseInt s
  | _ => none

def toFloat64 (X : Ext) : TVal → Option UInt64
  | .int v => some (X.intToFloat v)
  | .float b => some b
  | .str s => X.parseFloat s
  | _ => none

def toRune : TVal → Option Int
  | .int v => some (wrap32 v)
  | .char c => some c
  | _ => none

def toByteSlice : TVal → Option Bytes
  | .bytes b => some b
  | .str s => some s
  | _ => none

def toStringT (X : Ext) : TVal → Option Bytes
  | .undefined => none
  | .str s => some s
  | v => some (X.objString v)

inductive Accessor where
  | int | int64 | float | char | bool | string | bytes | array | map | error | isUndefined
  deriving Repr, DecidableEq, Inhabited

/-- Result of an accessor. `none` is Go's nil slice / map / error. -/
inductive AccOut where
  | int (v : Int)
  | float (bits : UInt64)
  | bool (b : Bool)
  | str (s : Bytes)
  | bytes (b : Option Bytes)
  | slice (xs : Option (List GoVal))
  | map (m : Option (List (String × GoVal)))
  | err (text : Option Bytes)
  deriving Repr, Inhabited

def zero : Accessor → AccOut
  | .int => .int 0 | .int64 => .int 0 | .float => .float 0 | .char => .int 0 | .bool => .bool false
  | .string => .str [] | .bytes => .bytes none | .array => .slice none | .map => .map none
  | .error => .err none | .isUndefined => .bool false

/-- The methods of `Variable`, one line each. (`Array()` appends to a nil slice: an empty array reads nil.) -/
def access (X : Ext) : Accessor → TVal → AccOut
  | .int, v => .int ((toInt64 X v).getD 0)
  | .int64, v => .int ((toInt64 X v).getD 0)
  | .float, v => .float ((toFloat64 X v).getD 0)
  | .char, v => .int ((toRune v).getD 0)
  | .bool, v => .bool (!isFalsy v)
  | .string, v => .str ((toStringT X v).getD [])
  | .bytes, v => .bytes (toByteSlice v)
  | .array, .array xs => .slice (if xs.isEmpty then none else some (toInterfaceList X xs))
  | .array, _ => .slice none
  | .map, .map m => .map (some (toInterfaceMap X m))
  | .map, _ => .map none
  | .error, .error p => .err (some (errorText X p))
  | .error, _ => .err none
  | .isUndefined, .undefined => .bool true
  | .isUndefined, _ => .bool false

/-! ### The coercion table of docs/runtime-types.md -/

inductive Kind where
  | int | string | float | bool | char | bytes | array | map | time | error | undefined
  deriving Repr, DecidableEq, Inhabited

def kindOf : TVal → Option Kind
  | .int _ => some .int | .str _ => some .string | .float _ => some .float | .bool _ => some .bool
  | .char _ => some .char | .bytes _ => some .bytes | .array _ => some .array | .map _ => some .map
  | .time _ _ => some .time | .error _ => some .error | .undefined => some .undefined
  | _ => none

/-- Cell notations of the table. -/
inductive Cell where
  | x            -- **X**: no conversion, zero value
  | same         -- "-"
  | strconv      -- _strconv_
  | float64v     -- float64(v)
  | notFalsy     -- !IsFalsy()
  | runev        -- rune(v)
  | timeUnix     -- _time.Unix()_
  | bytesS       -- []byte(s)
  | int64f       -- int64(f)
  | oneZero      -- 1 / 0
  | trueFalse    -- "true" / "false"
  | int64c       -- int64(c)
  | stringC      -- string(c)
  | stringY      -- string(y)
  | text         -- "[...]", "{...}", String(), "error: ..."
  | false_       -- false
  deriving Repr, DecidableEq, Inhabited

namespace Expect
open Cell

/-- docs/runtime-types.md, "Type Conversion/Coercion Table": rows = source kind, columns =
Int String Float Bool Char Bytes Array Map Time Error Undefined. -/
def coercionRows : List (Kind × List Cell) := [
  (.int,       [same, strconv, float64v, notFalsy, runev, x, x, x, timeUnix, x, x]),
  (.string,    [strconv, same, strconv, notFalsy, x, bytesS, x, x, x, x, x]),
  (.float,     [int64f, strconv, same, notFalsy, x, x, x, x, x, x, x]),
  (.bool,      [oneZero, trueFalse, x, same, x, x, x, x, x, x, x]),
  (.char,      [int64c, stringC, x, notFalsy, same, x, x, x, x, x, x]),
  (.bytes,     [x, stringY, x, notFalsy, x, same, x, x, x, x, x]),
  (.array,     [x, text, x, notFalsy, x, x, same, x, x, x, x]),
  (.map,       [x, text, x, notFalsy, x, x, x, same, x, x, x]),
  (.time,      [x, text, x, notFalsy, x, x, x, x, same, x, x]),
  (.error,     [x, text, x, false_, x, x, x, x, x, same, x]),
  (.undefined, [x, x, x, false_, x, x, x, x, x, x, same])]

/-- Column of the table an accessor reads (there is no Time accessor). -/
def column : Accessor → Nat
  | .int => 0 | .int64 => 0 | .string => 1 | .float => 2 | .bool => 3 | .char => 4 | .bytes => 5
  | .array => 6 | .map => 7 | .error => 9 | .isUndefined => 10

def coercionTable (k : Kind) (a : Accessor) : Cell :=
  match coercionRows.lookup k with
  | some row => row.getD (column a) .x
  | none => .x

/-- The `case` types of FromInterface's switch in source order, with the constructor of the returned
object and the limit variable the clause tests. -/
def fromCases : List (String × String × String) := [
  ("nil", "UndefinedValue", ""), ("string", "String", "MaxStringLen"), ("int64", "Int", ""), ("int", "Int", ""),
  ("bool", "TrueValue|FalseValue", ""), ("rune", "Char", ""), ("byte", "Char", ""), ("float64", "Float", ""),
  ("[]byte", "Bytes", "MaxBytesLen"), ("error", "Error", ""), ("map[string]Object", "Map", ""),
  ("map[string]interface{}", "Map", ""), ("[]Object", "Array", ""), ("[]interface{}", "Array", ""),
  ("time.Time", "Time", ""), ("Object", "v", ""), ("CallableFunc", "UserFunction", "")]

/-- The `case` types of ToInterface's switch in source order. -/
def toCases : List String := ["*Int", "*String", "*Float", "*Bool", "*Char", "*Bytes", "*Array",
  "*ImmutableArray", "*Map", "*ImmutableMap", "*Time", "*Error", "*Undefined", "Object"]

/-- Methods of `*Variable` and the conversion function each one calls. -/
def variableMethods : List (String × String) := [
  ("Name", ""), ("Value", "ToInterface"), ("ValueType", ""), ("Int", "ToInt"), ("Int64", "ToInt64"),
  ("Float", "ToFloat64"), ("Char", "ToRune"), ("Bool", "ToBool"), ("Array", "ToInterface"),
  ("Map", "ToInterface"), ("String", "ToString"), ("Bytes", "ToByteSlice"), ("Error", ""),
  ("Object", ""), ("IsUndefined", "")]

end Expect

/-- What a cell of the table says an accessor returns for a value of the row's kind. -/
def cellMeaning (X : Ext) (a : Accessor) (v : TVal) : Cell → AccOut
  | .x => zero a
  | .false_ => .bool false
  | .notFalsy => .bool (!isFalsy v)
  | .same => match a, v with
      | .int, .int i => .int i | .int64, .int i => .int i
      | .string, .str s => .str s
      | .float, .float b => .float b
      | .bool, .bool b => .bool b
      | .char, .char c => .int c
      | .bytes, .bytes b => .bytes (some b)
      | .array, .array xs => .slice (if xs.isEmpty then none else some (toInterfaceList X xs))
      | .map, .map m => .map (some (toInterfaceMap X m))
      | .error, .error p => .err (some (errorText X p))
      | .isUndefined, .undefined => .bool true
      | _, _ => zero a
  | .strconv => match a, v with
      | .string, v => .str (X.objString v)                      -- FormatInt / FormatFloat inside String()
      | .float, .str s => .float ((X.parseFloat s).getD 0)
      | _, .str s => .int ((X.parseInt s).getD 0)
      | _, _ => zero a
  | .float64v => match v with | .int i => .float (X.intToFloat i) | _ => zero a
  | .runev => match v with | .int i => .int (wrap32 i) | _ => zero a
  | .timeUnix => zero a
  | .bytesS => match v with | .str s => .bytes (some s) | _ => zero a
  | .int64f => match v with | .float b => .int (X.floatToInt b) | _ => zero a
  | .oneZero => match v with | .bool b => .int (if b then 1 else 0) | _ => zero a
  | .int64c => match v with | .char c => .int c | _ => zero a
  | .trueFalse => .str (X.objString v)
  | .stringC => .str (X.objString v)
  | .stringY => .str (X.objString v)
  | .text => .str (X.objString v)

/-! ## The API state machine (script.go)

Scripts are straight-line programs over globals; what matters to the API is their effect on the
globals. -/

inductive Expr where
  | const (v : TVal)     -- a literal (a fresh object each time it is evaluated)
  | var (name : String)  -- a global
  deriving Repr, Inhabited

inductive Stmt where
  | define (dst : String) (e : Expr)               -- dst := e
  | assign (dst : String) (e : Expr)               -- dst = e
  | selset (dst : String) (key : String) (v : TVal) -- dst.key = <literal>   (in-place update of a map object)
  | fail                                           -- a statement that fails at run time (1 + "s")
  | hidden (shape : Nat)                           -- a top-level block / loop declaring block-scoped variables only
                                                   -- (`if true { t := 1 }`, `for i := 0; …`, `for k, v in …`): they take
                                                   -- global slots but no name of globalIndexes; invisible to the API
  deriving Repr, Inhabited

inductive ApiErr where
  | conv (e : ConvErr)            -- from FromInterface (Add, Set)
  | notDefined (name : String)    -- Set: "'%s' is not defined"
  | unresolved (name : String)    -- Compile: "unresolved reference '%s'"
  | redeclared (name : String)    -- Compile: "'%s' redeclared in this block"
  | runtime                       -- Run: a run-time error
  deriving Repr, Inhabited

inductive Out where
  | ok
  | err (e : ApiErr)
  | bool (b : Bool)
  | val (v : TVal)                       -- Get(name).Object()
  | vars (vs : List (String × TVal))     -- GetAll()
  | script (id : Nat)
  | compiled (id : Nat)
  | noHandle
  deriving Repr, Inhabited

inductive Op where
  | newScript (src : List Stmt)
  | add (s : Nat) (name : String) (g : GoVal)
  | remove (s : Nat) (name : String)
  | compile (s : Nat)
  | set (c : Nat) (name : String) (g : GoVal)
  | run (c : Nat)
  | get (c : Nat) (name : String)
  | getAll (c : Nat)
  | isDefined (c : Nat) (name : String)
  | clone (c : Nat)
  deriving Repr, Inhabited

/-- A statement / script creation without in-place update of an object (`dst.key = v`). -/
def Stmt.pure : Stmt → Bool
  | .selset _ _ _ => false
  | _ => true

def Op.pure : Op → Bool
  | .newScript src => src.all Stmt.pure
  | _ => true

/-! ### Association lists -/

def hasKey {α : Type} (n : String) (l : List (String × α)) : Bool := l.any (fun p => p.1 == n)

def setKey {α : Type} (n : String) (a : α) (l : List (String × α)) : List (String × α) :=
  l.map (fun p => if p.1 == n then (p.1, a) else p)

/-- Go's `m[n] = a`. -/
def upsert {α : Type} (n : String) (a : α) (l : List (String × α)) : List (String × α) :=
  if hasKey n l then setKey n a l else l ++ [(n, a)]

def eraseKey {α : Type} (n : String) (l : List (String × α)) : List (String × α) :=
  l.filter (fun p => !(p.1 == n))

def isUndef : TVal → Bool
  | .undefined => true
  | _ => false

mutual
/-- `Object.Copy()` as `Clone` applies it to every global: deep, and a copy of an immutable container
is mutable. -/
def copyT : TVal → TVal
  | .array xs => .array (copyList xs)
  | .immArray xs => .array (copyList xs)
  | .map m => .map (copyMap m)
  | .immMap m => .map (copyMap m)
  | .error p => .error (copyT p)
  | v => v
def copyList : List TVal → List TVal
  | [] => []
  | v :: vs => copyT v :: copyList vs
def copyMap : List (String × TVal) → List (String × TVal)
  | [] => []
  | (k, v) :: m => (k, copyT v) :: copyMap m
end

/-- Symbol resolution of `Compile` over the straight-line language: `names` are the globals known so
far (the script's variables first). Returns the names afterwards. -/
def exprUnresolved (names : List String) : Expr → Option String
  | .const _ => none
  | .var n => if names.contains n then none else some n

def compileNames : List Stmt → List String → Except ApiErr (List String)
  | [], names => .ok names
  | .define d e :: rest, names =>
      if names.contains d then .error (.redeclared d)
      else match exprUnresolved names e with
        | some n => .error (.unresolved n)
        | none => compileNames rest (names ++ [d])
  | .assign d e :: rest, names =>
      if !names.contains d then .error (.unresolved d)
      else match exprUnresolved names e with
        | some n => .error (.unresolved n)
        | none => compileNames rest names
  | .selset d _ _ :: rest, names =>
      if !names.contains d then .error (.unresolved d) else compileNames rest names
  | .fail :: rest, names => compileNames rest names
  | .hidden _ :: rest, names => compileNames rest names

/-! ### Concrete model: globals hold references into a store of top-level objects -/

structure ScriptSt where
  vars : List (String × Nat)          -- Script.variables: name ↦ the object made by Add
  src : List Stmt
  deriving Repr, Inhabited

structure CompiledSt where
  slots : List (String × Option Nat)  -- globalIndexes + globals: name ↦ object | nil
  code : List Stmt
  deriving Repr, Inhabited

structure Host where
  store : List TVal := []
  scripts : List ScriptSt := []
  compiled : List CompiledSt := []
  deriving Repr, Inhabited

def deref (st : List TVal) (r : Nat) : TVal := st[r]?.getD .undefined

def slotOf (sl : List (String × Option Nat)) (n : String) : Option Nat := (sl.lookup n).join

/-- One run of the code over the globals. `true` = stopped with a run-time error (effects so far stay). -/
def execC : List Stmt → List TVal → List (String × Option Nat) → List TVal × List (String × Option Nat) × Bool
  | [], st, sl => (st, sl, false)
  | .define d (.const v) :: rest, st, sl => execC rest (st ++ [v]) (setKey d (some st.length) sl)
  | .define d (.var n) :: rest, st, sl => execC rest st (setKey d (slotOf sl n) sl)
  | .assign d (.const v) :: rest, st, sl => execC rest (st ++ [v]) (setKey d (some st.length) sl)
  | .assign d (.var n) :: rest, st, sl => execC rest st (setKey d (slotOf sl n) sl)
  | .selset d k v :: rest, st, sl =>
      match slotOf sl d with
      | some r => match st[r]? with
          | some (.map m) => execC rest (st.set r (.map (upsert k v m))) sl
          | _ => (st, sl, true)
      | none => (st, sl, true)
  | .fail :: _, st, sl => (st, sl, true)
  | .hidden _ :: rest, st, sl => execC rest st sl

/-- `Clone`: every non-nil global is copied into a fresh object. -/
def cloneSlots : List (String × Option Nat) → List TVal → List TVal × List (String × Option Nat)
  | [], st => (st, [])
  | (n, none) :: rest, st => let (st', sl) := cloneSlots rest st; (st', (n, none) :: sl)
  | (n, some r) :: rest, st =>
      let (st', sl) := cloneSlots rest (st ++ [copyT (deref st r)])
      (st', (n, some st.length) :: sl)

def modifyNth {α : Type} (l : List α) (i : Nat) (f : α → α) : List α :=
  match l[i]? with
  | some a => l.set i (f a)
  | none => l

def step (L : Limits) (h : Host) : Op → Host × Out
  | .newScript src => ({ h with scripts := h.scripts ++ [{ vars := [], src := src }] }, .script h.scripts.length)
  | .add s n g =>
      match h.scripts[s]? with
      | none => (h, .noHandle)
      | some sc => match fromInterface L g with
        | .error e => (h, .err (.conv e))
        | .ok v => ({ h with store := h.store ++ [v],
                             scripts := h.scripts.set s { sc with vars := upsert n h.store.length sc.vars } }, .ok)
  | .remove s n =>
      match h.scripts[s]? with
      | none => (h, .noHandle)
      | some sc =>
        if hasKey n sc.vars then
          ({ h with scripts := h.scripts.set s { sc with vars := eraseKey n sc.vars } }, .bool true)
        else (h, .bool false)
  | .compile s =>
      match h.scripts[s]? with
      | none => (h, .noHandle)
      | some sc => match compileNames sc.src (sc.vars.map (·.1)) with
        | .error e => (h, .err e)
        | .ok names =>
          let slots := sc.vars.map (fun p => (p.1, some p.2)) ++
            ((names.drop sc.vars.length).map (fun n => (n, none)))
          ({ h with compiled := h.compiled ++ [{ slots := slots, code := sc.src }] }, .compiled h.compiled.length)
  | .set c n g =>
      match h.compiled[c]? with
      | none => (h, .noHandle)
      | some cs => match fromInterface L g with
        | .error e => (h, .err (.conv e))
        | .ok v =>
          if hasKey n cs.slots then
            ({ h with store := h.store ++ [v],
                      compiled := h.compiled.set c { cs with slots := setKey n (some h.store.length) cs.slots } }, .ok)
          else (h, .err (.notDefined n))
  | .run c =>
      match h.compiled[c]? with
      | none => (h, .noHandle)
      | some cs =>
        let (st, sl, failed) := execC cs.code h.store cs.slots
        ({ h with store := st, compiled := h.compiled.set c { cs with slots := sl } },
          if failed then .err .runtime else .ok)
  | .get c n =>
      match h.compiled[c]? with
      | none => (h, .noHandle)
      | some cs => (h, .val (((slotOf cs.slots n).map (deref h.store)).getD .undefined))
  | .getAll c =>
      match h.compiled[c]? with
      | none => (h, .noHandle)
      | some cs => (h, .vars (cs.slots.map (fun p => (p.1, (p.2.map (deref h.store)).getD .undefined))))
  | .isDefined c n =>
      match h.compiled[c]? with
      | none => (h, .noHandle)
      | some cs => (h, .bool (match slotOf cs.slots n with
          | some r => !isUndef (deref h.store r)
          | none => false))
  | .clone c =>
      match h.compiled[c]? with
      | none => (h, .noHandle)
      | some cs =>
        let (st, sl) := cloneSlots cs.slots h.store
        ({ h with store := st, compiled := h.compiled ++ [{ slots := sl, code := cs.code }] },
          .compiled h.compiled.length)

def runOps (L : Limits) : Host → List Op → List Out
  | _, [] => []
  | h, op :: ops => let (h', o) := step L h op; o :: runOps L h' ops

/-! ### Abstract specification: each handle maps names to their last value -/

structure AScript where
  vars : List (String × TVal)
  src : List Stmt
  deriving Repr, Inhabited

structure ACompiled where
  env : List (String × Option TVal)   -- names fixed at compile; `none` = not assigned yet
  code : List Stmt
  deriving Repr, Inhabited

structure Abs where
  scripts : List AScript := []
  compiled : List ACompiled := []
  deriving Repr, Inhabited

def envOf (env : List (String × Option TVal)) (n : String) : Option TVal := (env.lookup n).join

def execA : List Stmt → List (String × Option TVal) → List (String × Option TVal) × Bool
  | [], env => (env, false)
  | .define d (.const v) :: rest, env => execA rest (setKey d (some v) env)
  | .define d (.var n) :: rest, env => execA rest (setKey d (envOf env n) env)
  | .assign d (.const v) :: rest, env => execA rest (setKey d (some v) env)
  | .assign d (.var n) :: rest, env => execA rest (setKey d (envOf env n) env)
  | .selset d k v :: rest, env =>
      match envOf env d with
      | some (.map m) => execA rest (setKey d (some (.map (upsert k v m))) env)
      | _ => (env, true)
  | .fail :: _, env => (env, true)
  | .hidden _ :: rest, env => execA rest env

def astep (L : Limits) (a : Abs) : Op → Abs × Out
  | .newScript src => ({ a with scripts := a.scripts ++ [{ vars := [], src := src }] }, .script a.scripts.length)
  | .add s n g =>
      match a.scripts[s]? with
      | none => (a, .noHandle)
      | some sc => match fromInterface L g with
        | .error e => (a, .err (.conv e))
        | .ok v => ({ a with scripts := a.scripts.set s { sc with vars := upsert n v sc.vars } }, .ok)
  | .remove s n =>
      match a.scripts[s]? with
      | none => (a, .noHandle)
      | some sc =>
        if hasKey n sc.vars then
          ({ a with scripts := a.scripts.set s { sc with vars := eraseKey n sc.vars } }, .bool true)
        else (a, .bool false)
  | .compile s =>
      match a.scripts[s]? with
      | none => (a, .noHandle)
      | some sc => match compileNames sc.src (sc.vars.map (·.1)) with
        | .error e => (a, .err e)
        | .ok names =>
          let env := sc.vars.map (fun p => (p.1, some p.2)) ++
            ((names.drop sc.vars.length).map (fun n => (n, none)))
          ({ a with compiled := a.compiled ++ [{ env := env, code := sc.src }] }, .compiled a.compiled.length)
  | .set c n g =>
      match a.compiled[c]? with
      | none => (a, .noHandle)
      | some cs => match fromInterface L g with
        | .error e => (a, .err (.conv e))
        | .ok v =>
          if hasKey n cs.env then
            ({ a with compiled := a.compiled.set c { cs with env := setKey n (some v) cs.env } }, .ok)
          else (a, .err (.notDefined n))
  | .run c =>
      match a.compiled[c]? with
      | none => (a, .noHandle)
      | some cs =>
        let (env, failed) := execA cs.code cs.env
        ({ a with compiled := a.compiled.set c { cs with env := env } }, if failed then .err .runtime else .ok)
  | .get c n =>
      match a.compiled[c]? with
      | none => (a, .noHandle)
      | some cs => (a, .val ((envOf cs.env n).getD .undefined))
  | .getAll c =>
      match a.compiled[c]? with
      | none => (a, .noHandle)
      | some cs => (a, .vars (cs.env.map (fun p => (p.1, p.2.getD .undefined))))
  | .isDefined c n =>
      match a.compiled[c]? with
      | none => (a, .noHandle)
      | some cs => (a, .bool (match envOf cs.env n with
          | some v => !isUndef v
          | none => false))
  | .clone c =>
      match a.compiled[c]? with
      | none => (a, .noHandle)
      | some cs =>
        ({ a with compiled := a.compiled ++ [{ env := cs.env.map (fun p => (p.1, p.2.map copyT)), code := cs.code }] },
          .compiled a.compiled.length)

def arunOps (L : Limits) : Abs → List Op → List Out
  | _, [] => []
  | a, op :: ops => let (a', o) := astep L a op; o :: arunOps L a' ops

/-! ### tengo.Eval (eval.go): `__res__ := (expr)` run with the parameters added -/

def resName : String := "__res__"

/-- The calls eval.go makes, as a history (parameters in the order the map is ranged over). -/
def evalOps (e : Expr) (params : List (String × GoVal)) : List Op :=
  .newScript [.define resName e] :: (params.map (fun p => Op.add 0 p.1 p.2) ++ [.compile 0, .run 0, .get 0 resName])

inductive EvalOut where
  | value (g : GoVal)
  | addErr (e : ConvErr)     -- "script add: …"
  | runErr (e : ApiErr)      -- "script run: …"
  deriving Repr, Inhabited

/-- Eval's answer read off the outputs of its history: the first failing Add, else compile/run error,
else the converted value of `__res__`. -/
def evalResult (X : Ext) : List Out → EvalOut
  | .err (.conv e) :: _ => .addErr e
  | .err e :: _ => .runErr e
  | [.val v] => .value (toInterface X v)
  | _ :: rest => evalResult X rest
  | [] => .runErr .runtime

def eval (L : Limits) (X : Ext) (e : Expr) (params : List (String × GoVal)) : EvalOut :=
  evalResult X (runOps L {} (evalOps e params))

end Tengo.Model.Host

import Tengo.Model.Ast
/-!
Model of `Node.String()` (parser/expr.go, parser/stmt.go, parser/file.go, `IdentList.String` of ast.go).
Structural recursion over the mutual AST. Core Lean only.
-/
namespace Tengo.Model.Printer
open Tengo.Model.Token Tengo.Model.Ast

def s (x : String) : Bs := x.toUTF8.toList

/-- `strings.Join(parts, sep)`. -/
def join (sep : Bs) : List Bs → Bs
  | [] => []
  | [x] => x
  | x :: xs => x ++ sep ++ join sep xs

/-- Parameter list: `IdentList.String()`. -/
def params : List Bs → Bool → List Bs
  | [], _ => []
  | [p], va => [if va then s "..." ++ p else p]
  | p :: ps, va => p :: params ps va

/-- Appends "..." to the last argument (CallExpr with a valid Ellipsis). -/
def markLast : List Bs → List Bs
  | [] => []
  | [x] => [x ++ s "..."]
  | x :: xs => x :: markLast xs

/-- Is the last argument a number literal? (`CallExpr.String()` parenthesises it before "...": `f(1...)` would scan
as the float literal `1.` followed by `..`; finding C20-4.) -/
def lastIsNum : Exprs → Bool
  | .nil => false
  | .cons (.int _ _) .nil => true
  | .cons (.float _ _) .nil => true
  | .cons _ .nil => false
  | .cons _ es => lastIsNum es

/-- Parenthesises the last printed argument. -/
def parenLast : List Bs → List Bs
  | [] => []
  | [x] => [s "(" ++ x ++ s ")"]
  | x :: xs => x :: parenLast xs

def optName : Option Bs → Bs
  | some n => n
  | none => s "<null>"

/-- `BlockStmt.String()` from the printed statements. -/
def blockOf (l : List Bs) : Bs := s "{" ++ join (s "; ") l ++ s "}"

mutual
  def printExpr : Expr → Bs
    | .ident n => n
    | .int _ lit => lit
    | .float _ lit => lit
    | .char _ lit => lit
    | .str _ lit => lit
    | .bool b => if b then s "true" else s "false"
    | .undef => s "undefined"
    | .bin op l r => s "(" ++ printExpr l ++ s " " ++ op.bytes ++ s " " ++ printExpr r ++ s ")"
    | .un op e => s "(" ++ op.bytes ++ printExpr e ++ s ")"
    | .cond c t f => s "(" ++ printExpr c ++ s " ? " ++ printExpr t ++ s " : " ++ printExpr f ++ s ")"
    | .paren e => s "(" ++ printExpr e ++ s ")"
    | .arr es => s "[" ++ join (s ", ") (printExprs es) ++ s "]"
    | .map els => s "{" ++ join (s ", ") (printMapElems els) ++ s "}"
    -- `SelectorExpr.String()`: an *IntLit operand is parenthesised (`1.a` would scan as the float `1.`).
    | .sel (.int _ lit) n => s "(" ++ lit ++ s ")." ++ n
    | .sel e n => printExpr e ++ s "." ++ n
    | .idx e i => printExpr e ++ s "[" ++ printOptExpr i ++ s "]"
    | .slice e lo hi => printExpr e ++ s "[" ++ printOptExpr lo ++ s ":" ++ printOptExpr hi ++ s "]"
    | .call f args ell =>
      let as := printExprs args
      printExpr f ++ s "(" ++ join (s ", ") (if ell then markLast (if lastIsNum args then parenLast as else as) else as) ++ s ")"
    | .func ps va body => s "func" ++ s "(" ++ join (s ", ") (params ps va) ++ s ")" ++ s " " ++ blockOf (printStmts body)
    | .imp n => s "import(\"" ++ n ++ s "\")"
    | .error e => s "error(" ++ printExpr e ++ s ")"
    | .immutable e => s "immutable(" ++ printExpr e ++ s ")"
    | .bad => s "<bad expression>"
  def printExprs : Exprs → List Bs
    | .nil => []
    | .cons e es => printExpr e :: printExprs es
  def printOptExpr : OptExpr → Bs
    | .none => []
    | .some e => printExpr e
  def printMapElems : MapElems → List Bs
    | .nil => []
    | .cons k v r => (k ++ s ": " ++ printExpr v) :: printMapElems r
  def printStmt : Stmt → Bs
    | .expr e => printExpr e
    | .assign tok l r =>
      join (s ", ") (printExprs l) ++ s " " ++ tok.bytes ++ s " " ++ join (s ", ") (printExprs r)
    | .incdec tok e => printExpr e ++ tok.bytes
    | .ifS init c body els =>
      s "if " ++ (match init with
        | .none => []
        | .some i => printStmt i ++ s "; ") ++ printExpr c ++ s " " ++ blockOf (printStmts body) ++
        (match els with
        | .none => []
        | .some e => s " else " ++ printStmt e)
    | .forS init cond post body =>
      let i : Bs := match init with
        | .none => []
        | .some x => printStmt x
      let c : Bs := match cond with
        | .none => []
        | .some x => printExpr x ++ s " "
      let p : Bs := match post with
        | .none => []
        | .some x => printStmt x
      if !i.isEmpty || !p.isEmpty then s "for " ++ i ++ s " ; " ++ c ++ s " ; " ++ p ++ blockOf (printStmts body)
      else s "for " ++ c ++ blockOf (printStmts body)
    | .forIn k v it body =>
      match v with
      | some vn => s "for " ++ optName k ++ s ", " ++ vn ++ s " in " ++ printExpr it ++ s " " ++ blockOf (printStmts body)
      | none => s "for " ++ optName k ++ s " in " ++ printExpr it ++ s " " ++ blockOf (printStmts body)
    | .block ss => blockOf (printStmts ss)
    | .branch tok label =>
      tok.bytes ++ (match label with
        | some l => s " " ++ l
        | none => [])
    | .ret e =>
      (match e with
        | .none => s "return"
        | .some x => s "return " ++ printExpr x)
    | .export e => s "export " ++ printExpr e
    | .empty _ => s ";"
    | .bad => s "<bad statement>"
  def printStmts : Stmts → List Bs
    | .nil => []
    | .cons x xs => printStmt x :: printStmts xs
end

/-- `File.String()`. -/
def printFile (ss : Stmts) : Bs := join (s "; ") (printStmts ss)

end Tengo.Model.Printer

import Tengo.Model.Opcodes
/-!
Frame-level model of `OpCall` / `OpReturn` of `VM.run` (vm.go) for property C16 (self tail calls run in
constant frame space). Core Lean only.

* `callStep` mirrors the `case parser.OpCall` for a compiled callee statement by statement: operand
  decode, callable test, spread, variadic roll-up, arity test, the tail-call test
  (`callee == v.curFrame.fn`, next opcode `RETURN` or `POP; RETURN`), the `discardResult` mark, the
  ascending argument copy to `basePointer`, `v.sp -= numArgs + 1`, `v.ip = -1; continue`, and otherwise
  the `MaxFrames` test and the frame push.
* `retStep` mirrors `case parser.OpReturn` (operand, `discardResult`, frame pop, result slot).
* the remaining opcodes never touch `frames`/`framesIndex`; a small executable fragment (`otherEffect`:
  ints, bools, arrays, locals incl. `GETLP` boxing, globals, jumps) lets the driver run real compiled
  recursion skeletons. Everything outside the fragment answers `unsupported`.

`pc` is the offset of the next opcode to dispatch (Go: `v.ip + 1`). `frames` is the Go array
`v.frames` (index 0 = main); the current frame is `frames[framesIndex-1]`. A Go index out of range is
`Outcome.goPanic`. A stack slot is a `Val`; `Val.ptr c` is an `*ObjectPtr` (boxed cell `c` of `cells`).
-/
namespace Tengo.Model.TailCall
open Tengo.Model.Opcodes

inductive Val where
  | undef
  | int (n : Int)
  | bool (b : Bool)
  | fn (id : Nat)                -- *CompiledFunction, identified by pointer (index into `Cfg.prog`)
  | arr (xs : List Val)
  | ptr (c : Nat)                -- *ObjectPtr: boxed cell
  | native (k : Nat)             -- callable that is not a compiled function
  | other (tag : Nat)            -- any other value
  deriving Repr, Inhabited

structure Fn where
  numParams : Nat
  numLocals : Nat
  varArgs   : Bool
  insts     : List Nat           -- instruction bytes
  deriving Repr, Inhabited

structure Cfg where
  prog      : List Fn
  maxFrames : Nat
  consts    : List Val := []
  deriving Inhabited

def Cfg.instsOf (cfg : Cfg) (id : Nat) : List Nat := ((cfg.prog[id]?).map Fn.insts).getD []

structure Frame where
  fn            : Nat
  ip            : Nat            -- Go `frame.ip` of a suspended frame (offset of the CALL's last operand byte)
  basePointer   : Nat
  discardResult : Bool
  deriving Repr, Inhabited, DecidableEq

structure State where
  frames      : List Frame
  framesIndex : Nat
  stack       : List Val
  sp          : Nat
  pc          : Nat
  cells       : List Val := []
  globals     : List Val := []
  deriving Inhabited

inductive Err where
  | notCallable | notArray | wrongNumArgs | stackOverflow | other
  deriving Repr, DecidableEq

inductive Outcome where
  | ok (s : State)
  | halt (s : State)             -- SUSPEND
  | err (e : Err)
  | goPanic                      -- Go run-time panic (index out of range, nil dereference)
  | unsupported                  -- outside the modelled fragment
  deriving Inhabited

def State.curFrame? (s : State) : Option Frame :=
  if s.framesIndex = 0 then none else s.frames[s.framesIndex - 1]?

def Val.canCall : Val → Bool
  | .fn _ => true
  | .native _ => true
  | _ => false

/-! ### OpCall -/

/-- `for _, item := range arr.Value { v.stack[v.sp] = item; v.sp++ }` -/
def pushAll (stack : List Val) (sp : Nat) : List Val → List Val × Nat
  | [] => (stack, sp)
  | x :: xs => pushAll (stack.set sp x) (sp + 1) xs

/-- The `spread == 1` block. Returns the updated state and `numArgs`. -/
def doSpread (s : State) (numArgs spread : Nat) : Except Outcome (State × Nat) :=
  if spread != 1 then .ok (s, numArgs)
  else if s.sp = 0 then .error .goPanic
  else match s.stack[s.sp - 1]? with
    | none => .error .goPanic
    | some (.arr xs) =>
      if numArgs = 0 then .error .unsupported                  -- never emitted: the array is an argument
      else if s.sp - 1 + xs.length > s.stack.length then .error .goPanic
      else
        let r := pushAll s.stack (s.sp - 1) xs
        .ok ({ s with stack := r.1, sp := r.2 }, numArgs + xs.length - 1)
    | some _ => .error (.err .notArray)

/-- The `callee.VarArgs` block: roll the trailing arguments up into one array. -/
def rollUp (callee : Fn) (s : State) (numArgs : Nat) : Option (State × Nat) :=
  if !callee.varArgs then some (s, numArgs)
  else if callee.numParams = 0 then none
  else
    let realArgs := callee.numParams - 1
    if numArgs < realArgs then some (s, numArgs)               -- varArgs < 0: arity error follows
    else
      let k := numArgs - realArgs
      let spStart := s.sp - k
      let args := (s.stack.drop spStart).take k
      some ({ s with stack := s.stack.set spStart (.arr args), sp := spStart + 1 }, realArgs + 1)

/-- The peek at the opcode(s) after the CALL (`ip` = offset of the CALL's last operand byte):
`some (isTail, viaPop)`; `none` = the read is out of range. -/
def tailPattern (insts : List Nat) (ip : Nat) : Option (Bool × Bool) :=
  match insts[ip + 1]? with
  | none => none
  | some nextOp =>
    if nextOp = opReturn then some (true, false)
    else if nextOp = opPop then
      match insts[ip + 2]? with
      | none => none
      | some x => if x = opReturn then some (true, true) else some (false, false)
    else some (false, false)

/-- `for p := 0; p < numArgs; p++ { v.stack[bp+p] = v.stack[src+p] }` (ascending, in place). -/
def copyArgs (stack : List Val) (bp src : Nat) : Nat → List Val
  | 0 => stack
  | n + 1 => copyArgs (stack.set bp (stack.getD src .undef)) (bp + 1) (src + 1) n

/-- The tail-call branch: reuse the current frame. -/
def tailCall (s : State) (cur : Frame) (numArgs : Nat) (viaPop : Bool) : State :=
  { s with
    frames := if viaPop then s.frames.set (s.framesIndex - 1) { cur with discardResult := true } else s.frames
    stack := copyArgs s.stack cur.basePointer (s.sp - numArgs) numArgs
    sp := s.sp - (numArgs + 1)
    pc := 0 }

/-- The `MaxFrames` test and the frame push. -/
def pushFrame (cfg : Cfg) (s : State) (cur : Frame) (id : Nat) (callee : Fn) (numArgs ip : Nat) : Outcome :=
  if s.framesIndex ≥ cfg.maxFrames then .err .stackOverflow
  else match s.frames[s.framesIndex]? with
    | none => .goPanic
    | some old =>
      .ok { s with
        frames := (s.frames.set (s.framesIndex - 1) { cur with ip := ip }).set s.framesIndex
                    { old with fn := id, basePointer := s.sp - numArgs, discardResult := false }
        framesIndex := s.framesIndex + 1
        pc := 0
        sp := s.sp - numArgs + callee.numLocals }

/-- After spread, roll-up and the arity test: tail call or frame push. -/
def dispatch (cfg : Cfg) (s : State) (cur : Frame) (id : Nat) (callee : Fn) (numArgs ip : Nat) : Outcome :=
  if id = cur.fn then
    match tailPattern (cfg.instsOf cur.fn) ip with
    | none => .goPanic
    | some (true, viaPop) => .ok (tailCall s cur numArgs viaPop)
    | some (false, _) => pushFrame cfg s cur id callee numArgs ip
  else pushFrame cfg s cur id callee numArgs ip

/-- A non-compiled callee: arguments and callee are replaced by one result. -/
def nativeCall (s : State) (k numArgs ip : Nat) : Outcome :=
  .ok { s with stack := s.stack.set (s.sp - (numArgs + 1)) (.other k), sp := s.sp - (numArgs + 1) + 1, pc := ip + 1 }

def callStep (cfg : Cfg) (s : State) : Outcome :=
  match s.curFrame? with
  | none => .goPanic
  | some cur =>
    let insts := cfg.instsOf cur.fn
    match insts[s.pc + 1]?, insts[s.pc + 2]? with
    | some numArgs, some spread =>
      let ip := s.pc + 2
      if s.sp < numArgs + 1 then .goPanic
      else match s.stack[s.sp - 1 - numArgs]? with
        | none => .goPanic
        | some value =>
          if !value.canCall then .err .notCallable
          else match doSpread s numArgs spread with
            | .error o => o
            | .ok (s1, n1) =>
              match value with
              | .fn id =>
                match cfg.prog[id]? with
                | none => .goPanic
                | some callee =>
                  match rollUp callee s1 n1 with
                  | none => .unsupported
                  | some (s2, n2) =>
                    if n2 ≠ callee.numParams then .err .wrongNumArgs
                    else dispatch cfg s2 cur id callee n2 ip
              | .native k => nativeCall s1 k n1 ip
              | _ => .err .notCallable
    | _, _ => .goPanic

/-! ### OpReturn -/

def retStep (cfg : Cfg) (s : State) : Outcome :=
  match s.curFrame? with
  | none => .goPanic
  | some cur =>
    match (cfg.instsOf cur.fn)[s.pc + 1]? with
    | none => .goPanic
    | some k =>
      let retVal? : Option Val :=
        if k = 1 ∧ cur.discardResult = false then (if s.sp = 0 then none else s.stack[s.sp - 1]?) else some .undef
      match retVal? with
      | none => .goPanic
      | some retVal =>
        let fi := s.framesIndex - 1                       -- v.framesIndex--
        if fi = 0 then .goPanic                           -- v.frames[-1]
        else match s.frames[fi - 1]? with
          | none => .goPanic
          | some caller =>
            let sp := cur.basePointer                     -- v.frames[v.framesIndex].basePointer
            if sp = 0 ∨ sp > s.stack.length then .goPanic
            else .ok { s with framesIndex := fi, pc := caller.ip + 1, sp := sp, stack := s.stack.set (sp - 1) retVal }

/-! ### Locals (the four opcodes that read or write a frame slot) -/

/-- `OpGetLocalPtr`: box the slot (once) and push the cell pointer. -/
def getLocalPtr (s : State) (bp idx : Nat) : Option State :=
  match s.stack[bp + idx]? with
  | none => none
  | some (.ptr c) => if s.sp < s.stack.length then some { s with stack := s.stack.set s.sp (.ptr c), sp := s.sp + 1 } else none
  | some v =>
    if s.sp < s.stack.length then
      let c := s.cells.length
      some { s with cells := s.cells ++ [v], stack := (s.stack.set (bp + idx) (.ptr c)).set s.sp (.ptr c), sp := s.sp + 1 }
    else none

/-- The value a slot denotes (`OpGetLocal` dereferences a boxed slot). -/
def slotValue (s : State) (i : Nat) : Option Val :=
  match s.stack[i]? with
  | none => none
  | some (.ptr c) => s.cells[c]?
  | some v => some v

/-- `OpSetLocal`: write through a boxed slot, else replace the slot. -/
def setLocal (s : State) (bp idx : Nat) (v : Val) : Option State :=
  match s.stack[bp + idx]? with
  | none => none
  | some (.ptr c) => if c < s.cells.length then some { s with cells := s.cells.set c v } else none
  | some _ => some { s with stack := s.stack.set (bp + idx) v }

/-- `OpDefineLocal`: replace the slot. -/
def defineLocal (s : State) (bp idx : Nat) (v : Val) : Option State :=
  if bp + idx < s.stack.length then some { s with stack := s.stack.set (bp + idx) v } else none

/-! ### The executable fragment of the other opcodes -/

def wrap64 (n : Int) : Int := (n + 9223372036854775808) % 18446744073709551616 - 9223372036854775808

def Val.falsy : Val → Bool
  | .undef => true
  | .int n => n == 0
  | .bool b => !b
  | .arr xs => xs.isEmpty
  | _ => false

mutual
  def valEq : Val → Val → Option Bool
    | .undef, .undef => some true
    | .int a, .int b => some (a == b)
    | .bool a, .bool b => some (a == b)
    | .arr xs, .arr ys => valsEq xs ys
    | .fn _, _ => none | _, .fn _ => none
    | .ptr _, _ => none | _, .ptr _ => none
    | .native _, _ => none | _, .native _ => none
    | .other _, _ => none | _, .other _ => none
    | _, _ => some false
  def valsEq : List Val → List Val → Option Bool
    | [], [] => some true
    | x :: xs, y :: ys =>
      match valEq x y, valsEq xs ys with
      | some a, some b => some (a && b)
      | _, _ => none
    | _, _ => some false
end

/-- `token.Add … token.GreaterEq` on the modelled values. -/
def binop (tok : Nat) : Val → Val → Option Val
  | .int a, .int b =>
    if tok = 11 then some (.int (wrap64 (a + b)))
    else if tok = 12 then some (.int (wrap64 (a - b)))
    else if tok = 13 then some (.int (wrap64 (a * b)))
    else if tok = 15 then (if b = 0 then none else some (.int (Int.tmod a b)))
    else if tok = 38 then some (.bool (a < b))
    else if tok = 39 then some (.bool (a > b))
    else if tok = 43 then some (.bool (a ≤ b))
    else if tok = 44 then some (.bool (a ≥ b))
    else none
  | .arr xs, .arr ys => if tok = 11 then some (.arr (xs ++ ys)) else none
  | _, _ => none

/-- What a non-CALL/RETURN opcode changes. It has no access to `frames` or `framesIndex`. -/
structure Eff where
  stack   : List Val
  sp      : Nat
  pc      : Nat
  cells   : List Val
  globals : List Val

def be2 (insts : List Nat) (p : Nat) : Option Nat :=
  match insts[p]?, insts[p + 1]? with
  | some a, some b => some (a * 256 + b)
  | _, _ => none

def be4 (insts : List Nat) (p : Nat) : Option Nat :=
  match be2 insts p, be2 insts (p + 2) with
  | some a, some b => some (a * 65536 + b)
  | _, _ => none

inductive EffResult where
  | eff (e : Eff)
  | halt
  | goPanic
  | unsupported

def effOf (s : State) (stack : List Val) (sp pc : Nat) : EffResult :=
  .eff { stack := stack, sp := sp, pc := pc, cells := s.cells, globals := s.globals }

def pushVal (s : State) (v : Val) (pc : Nat) : EffResult :=
  if s.sp < s.stack.length then effOf s (s.stack.set s.sp v) (s.sp + 1) pc else .goPanic

def top? (s : State) (k : Nat) : Option Val := if s.sp < k + 1 then none else s.stack[s.sp - 1 - k]?

def otherEffect (cfg : Cfg) (s : State) (cur : Frame) (op : Nat) : EffResult :=
  let insts := cfg.instsOf cur.fn
  let bp := cur.basePointer
  if op = opSuspend then .halt
  else if op = opConstant then
    match be2 insts (s.pc + 1) with
    | none => .goPanic
    | some k => match cfg.consts[k]? with
      | none => .goPanic
      | some (.other _) => .unsupported
      | some v => pushVal s v (s.pc + 3)
  else if op = opNull then pushVal s .undef (s.pc + 1)
  else if op = opTrue then pushVal s (.bool true) (s.pc + 1)
  else if op = opFalse then pushVal s (.bool false) (s.pc + 1)
  else if op = opPop then (if s.sp = 0 then .goPanic else effOf s s.stack (s.sp - 1) (s.pc + 1))
  else if op = opEqual ∨ op = opNotEqual then
    match top? s 1, top? s 0 with
    | some a, some b => match valEq a b with
      | none => .unsupported
      | some r => effOf s (s.stack.set (s.sp - 2) (.bool (if op = opEqual then r else !r))) (s.sp - 1) (s.pc + 1)
    | _, _ => .goPanic
  else if op = opBinaryOp then
    match insts[s.pc + 1]?, top? s 1, top? s 0 with
    | some tok, some a, some b => match binop tok a b with
      | none => .unsupported
      | some r => effOf s (s.stack.set (s.sp - 2) r) (s.sp - 1) (s.pc + 2)
    | _, _, _ => .goPanic
  else if op = opLNot then
    match top? s 0 with
    | some a => effOf s (s.stack.set (s.sp - 1) (.bool a.falsy)) s.sp (s.pc + 1)
    | none => .goPanic
  else if op = opMinus then
    match top? s 0 with
    | some (.int a) => effOf s (s.stack.set (s.sp - 1) (.int (wrap64 (-a)))) s.sp (s.pc + 1)
    | some _ => .unsupported
    | none => .goPanic
  else if op = opJump then
    match be4 insts (s.pc + 1) with
    | some t => effOf s s.stack s.sp t
    | none => .goPanic
  else if op = opJumpFalsy then
    match be4 insts (s.pc + 1), top? s 0 with
    | some t, some a => effOf s s.stack (s.sp - 1) (if a.falsy then t else s.pc + 5)
    | _, _ => .goPanic
  else if op = opAndJump then
    match be4 insts (s.pc + 1), top? s 0 with
    | some t, some a => if a.falsy then effOf s s.stack s.sp t else effOf s s.stack (s.sp - 1) (s.pc + 5)
    | _, _ => .goPanic
  else if op = opOrJump then
    match be4 insts (s.pc + 1), top? s 0 with
    | some t, some a => if a.falsy then effOf s s.stack (s.sp - 1) (s.pc + 5) else effOf s s.stack s.sp t
    | _, _ => .goPanic
  else if op = opGetGlobal then
    match be2 insts (s.pc + 1) with
    | none => .goPanic
    | some g => match s.globals[g]? with
      | none => .goPanic
      | some v => pushVal s v (s.pc + 3)
  else if op = opSetGlobal then
    match be2 insts (s.pc + 1), top? s 0 with
    | some g, some v =>
      if g < s.globals.length then
        .eff { stack := s.stack, sp := s.sp - 1, pc := s.pc + 3, cells := s.cells, globals := s.globals.set g v }
      else .goPanic
    | _, _ => .goPanic
  else if op = opGetLocal then
    match insts[s.pc + 1]? with
    | none => .goPanic
    | some i => match slotValue s (bp + i) with
      | none => .goPanic
      | some v => pushVal s v (s.pc + 2)
  else if op = opSetLocal ∨ op = opDefineLocal then
    match insts[s.pc + 1]?, top? s 0 with
    | some i, some v =>
      let s1 := { s with sp := s.sp - 1 }
      match (if op = opSetLocal then setLocal s1 bp i v else defineLocal s1 bp i v) with
      | none => .goPanic
      | some s2 => .eff { stack := s2.stack, sp := s2.sp, pc := s.pc + 2, cells := s2.cells, globals := s2.globals }
    | _, _ => .goPanic
  else if op = opGetLocalPtr then
    match insts[s.pc + 1]? with
    | none => .goPanic
    | some i => match getLocalPtr s bp i with
      | none => .goPanic
      | some s2 => .eff { stack := s2.stack, sp := s2.sp, pc := s.pc + 2, cells := s2.cells, globals := s2.globals }
  else if op = opArray then
    match be2 insts (s.pc + 1) with
    | none => .goPanic
    | some n =>
      if s.sp < n then .goPanic
      else if s.sp - n < s.stack.length then
        effOf s (s.stack.set (s.sp - n) (.arr ((s.stack.drop (s.sp - n)).take n))) (s.sp - n + 1) (s.pc + 3)
      else .goPanic
  else if op = opIndex then
    match top? s 1, top? s 0 with
    | some (.arr xs), some (.int i) =>
      let v := if i < 0 then Val.undef else (xs[i.toNat]?).getD .undef
      effOf s (s.stack.set (s.sp - 2) v) (s.sp - 1) (s.pc + 1)
    | some _, some _ => .unsupported
    | _, _ => .goPanic
  else .unsupported

def applyEff (s : State) (e : Eff) : State :=
  { s with stack := e.stack, sp := e.sp, pc := e.pc, cells := e.cells, globals := e.globals }

/-- One dispatched instruction. -/
def step (cfg : Cfg) (s : State) : Outcome :=
  match s.curFrame? with
  | none => .goPanic
  | some cur =>
    match (cfg.instsOf cur.fn)[s.pc]? with
    | none => .goPanic
    | some op =>
      if op = opCall then callStep cfg s
      else if op = opReturn then retStep cfg s
      else match otherEffect cfg s cur op with
        | .eff e => .ok (applyEff s e)
        | .halt => .halt s
        | .goPanic => .goPanic
        | .unsupported => .unsupported

/-- Result of a bounded run with the high-water marks the probe of the harness records. -/
structure RunResult where
  outcome : Outcome
  maxFi   : Nat
  maxSp   : Nat
  steps   : Nat
  outOfFuel : Bool := false

def runN (cfg : Cfg) : Nat → State → Nat → Nat → Nat → RunResult
  | 0, s, mf, ms, n => { outcome := .ok s, maxFi := mf, maxSp := ms, steps := n, outOfFuel := true }
  | fuel + 1, s, mf, ms, n =>
    let mf := max mf s.framesIndex
    let ms := max ms s.sp
    match step cfg s with
    | .ok s' => runN cfg fuel s' mf ms (n + 1)
    | o => { outcome := o, maxFi := mf, maxSp := ms, steps := n + 1 }

/-- `NewVM` + `Run`: frame 0 is the main function (`prog[0]`), `framesIndex = 1`, `sp = 0`. -/
def initState (cfg : Cfg) (stackSize numGlobals : Nat) : State :=
  { frames := List.replicate cfg.maxFrames { fn := 0, ip := 0, basePointer := 0, discardResult := false }
    framesIndex := 1
    stack := List.replicate stackSize .undef
    sp := 0
    pc := 0
    cells := []
    globals := List.replicate numGlobals .undef }


/-! ### What the compiler emits after a self call, per syntactic context

(form of the harness generator, opcodes that follow the CALL, does the VM reuse the frame). The harness
compares the opcodes the real compiler emits and the frame behaviour the real VM shows with this table;
`Props/C16.lean` proves the last column equal to `tailPattern` on the listed opcodes. -/
def contextTable : List (String × List Nat × Bool) := [
  ("return",          [opReturn],        true),
  ("and",             [opReturn],        true),
  ("or",              [opReturn],        true),
  ("and-merged",      [opReturn],        true),
  ("or-merged",       [opReturn],        true),
  ("ternary-false",   [opReturn],        true),
  ("if-else",         [opReturn],        true),
  ("paren",           [opReturn],        true),
  ("in-loop",         [opReturn],        true),
  ("forin",           [opReturn],        true),
  ("spread",          [opReturn],        true),
  ("stmt",            [opPop, opReturn], true),
  ("stmt-in-if",      [opPop, opReturn], true),
  ("plus",            [opBinaryOp],      false),
  ("assign",          [opDefineLocal],   false),
  ("arg",             [opCall],          false),
  ("ternary-true",    [opJump],          false),
  ("stmt-then-more",  [opPop, opGetGlobal], false)]

/-! ### Expected shape of the source (compared with `Tengo.Gen.TailCallShape` in `Props/C16.lean`)

What `callStep`/`retStep` above were written from. A change of the tail-call test, of the tail branch,
of the `MaxFrames` comparison, of the frame push or of the `OpReturn` case in vm.go changes the
regenerated table and breaks `shape_matches`. -/
namespace Shape
def ipAdvance : List String := ["v.ip += 2"]
def calleeTest : String := "callee == v.curFrame.fn"
def beforeLayout : List String := []
def layoutTest : List (List String) :=
  [["parser.OpReturn == v.curInsts[v.ip+1]"],
   ["parser.OpPop == v.curInsts[v.ip+1]", "parser.OpReturn == v.curInsts[v.ip+2]"]]
def tailBranch : List String := [
  "if parser.OpPop == v.curInsts[v.ip+1] { v.curFrame.discardResult = true }",
  "for p := 0; p < numArgs; p++ { v.stack[v.curFrame.basePointer+p] = v.stack[v.sp-numArgs+p] }",
  "v.sp -= numArgs + 1",
  "v.ip = -1",
  "continue"]
def maxFramesTest : String × String × String := ("v.framesIndex", ">=", "MaxFrames")
def maxFramesBody : List String := ["v.err = ErrStackOverflow", "return"]
def framePush : List String := [
  "v.curFrame.ip = v.ip",
  "v.curFrame = &(v.frames[v.framesIndex])",
  "v.curFrame.fn = callee",
  "v.curFrame.freeVars = callee.Free",
  "v.curFrame.basePointer = v.sp - numArgs",
  "v.curFrame.discardResult = false",
  "v.curInsts = callee.Instructions",
  "v.ip = -1",
  "v.framesIndex++",
  "v.sp = v.sp - numArgs + callee.NumLocals"]
def returnCase : List String := [
  "v.ip++",
  "var retVal Object",
  "if int(v.curInsts[v.ip]) == 1 && !v.curFrame.discardResult { retVal = v.stack[v.sp-1] } else { retVal = UndefinedValue }",
  "v.framesIndex--",
  "v.curFrame = &v.frames[v.framesIndex-1]",
  "v.curInsts = v.curFrame.fn.Instructions",
  "v.ip = v.curFrame.ip",
  "v.sp = v.frames[v.framesIndex].basePointer",
  "v.stack[v.sp-1] = retVal"]
/-- only these two cases of the dispatch switch write the frame registers: every other opcode is a
`NonCall` step of `Props/C16.lean` -/
def frameWriters : List String := ["parser.OpCall", "parser.OpReturn"]
end Shape

end Tengo.Model.TailCall

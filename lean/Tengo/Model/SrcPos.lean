import Tengo.Model.Bytecode
/-!
C14 model: how a run-time error is given a source position.

* `sourcePos` — `(*CompiledFunction).SourcePos` (objects.go): walk `ip` downwards until the source map
  has an entry; `NoPos = 0` when none is found.
* `ipAdvance` — per `case parser.OpX` of `VM.run` (vm.go): by how many bytes `v.ip` has moved past the
  opcode byte when `v.err` is set (written by hand from vm.go; `Tengo.Props.C14.ip_advance_matches`
  proves it equal to the table regenerated from the source).
* `reportedPos` — `VM.Run`'s decoration: `SourcePos(ip − 1)` where `ip` is `v.ip` at the error (failing
  frame) or the `frame.ip` saved by CALL (outer frames).
* `runTrace` — one position per active frame, innermost first.

Core Lean only.
-/
namespace Tengo.Model.SrcPos
open Tengo.Model Tengo.Model.Opcodes

abbrev SrcMap := List (Nat × Nat)

/-- `SourcePos(ip)` for `ip ≥ 0`: the entry at the greatest key `≤ ip`, `NoPos` (0) if there is none. -/
def sourcePos (sm : SrcMap) : Nat → Nat
  | 0 => (sm.lookup 0).getD 0
  | ip + 1 =>
    match sm.lookup (ip + 1) with
    | some p => p
    | none => sourcePos sm ip

/-- `SourcePos(ip − 1)` as `VM.Run` calls it; Go's `ip` is an `int`, `ip − 1 = −1` skips the loop. -/
def reportedPos (sm : SrcMap) (ipAtErr : Nat) : Nat :=
  if ipAtErr = 0 then 0 else sourcePos sm (ipAtErr - 1)

/-- (Go opcode constant, distinct values of "`v.ip` − offset of the opcode byte" over the `v.err = …`
assignments of that case), in the order of the cases of `VM.run`. Cases without an error site are
absent. `default` is the unknown-opcode arm. -/
def ipAdvance : List (String × List Nat) := [
  ("OpBinaryOp", [1]),
  ("OpBComplement", [0]),
  ("OpMinus", [0]),
  ("OpSetSelGlobal", [3]),
  ("OpArray", [2]),
  ("OpMap", [2]),
  ("OpError", [0]),
  ("OpImmutable", [0]),
  ("OpIndex", [0]),
  ("OpSliceIndex", [0]),
  ("OpCall", [2]),
  ("OpSetSelLocal", [2]),
  ("OpClosure", [3]),
  ("OpSetSelFree", [2]),
  ("OpIteratorInit", [0]),
  ("default", [0])
]

/-- `v.curFrame.ip = v.ip` in `case parser.OpCall`: advance of `v.ip` at that assignment. -/
def callSavedIp : List Nat := [2]

/-- `fmt.Errorf` formats of `VM.Run`, in source order. -/
def runFormats : List String := ["Runtime Error: %w\n\tat %s", "%w\n\tat %s"]

/-- Arguments of the `SourcePos(…)` calls of `VM.Run`: (base expression, constant added). -/
def runSourcePosArgs : List (String × Int) := [("v.ip", -1), ("v.curFrame.ip", -1)]

/-- Frame walk of `VM.Run`: loop condition and the two statements that select the next frame. -/
def runFrameWalk : List String :=
  ["v.framesIndex > 1", "v.framesIndex--", "v.curFrame = &v.frames[v.framesIndex-1]"]

/-- Shape of `SourcePos`: loop condition, lookup, step, fall-through result. -/
def sourcePosShape : List String :=
  ["ip >= 0", "p, ok := o.SourceMap[ip]; ok", "return p", "ip--", "return parser.NoPos"]

def opName (op : Nat) : Option String := (table.find? (fun r => r.2.1 == op)).map (fun r => r.1)

/-- Advance of `v.ip` at the error sites of opcode byte `op` (`none`: the case has no error site, or
its sites disagree). -/
def advanceOf (op : Nat) : Option Nat :=
  match opName op with
  | none => none
  | some n =>
    match ipAdvance.lookup n with
    | some [a] => some a
    | _ => none

/-- Position reported for an error raised by the instruction with opcode `op` that starts at `p`. -/
def reportAt (sm : SrcMap) (op p : Nat) : Option Nat :=
  (advanceOf op).map (fun a => reportedPos sm (p + a))

/-- One VM frame as `Run` sees it: the function's source map and the frame's `ip` field. -/
structure Frame where
  sm : SrcMap
  ip : Nat
  deriving Repr

/-- `frames` = `v.frames[0 .. framesIndex)` (outermost first), `vip` = `v.ip` when `v.err` was set.
Result: the positions of the decoration, in the order they are printed. -/
def runTrace (frames : List Frame) (vip : Nat) : List Nat :=
  match frames.reverse with
  | [] => []
  | cur :: outer => reportedPos cur.sm vip :: outer.map (fun f => reportedPos f.sm f.ip)

/-- A format wraps its first argument so that `errors.Is/As` see through it iff that argument is
consumed by `%w`. (fmt.Errorf: the first verb consumes the first argument.) -/
def firstVerbChars : List Char → Option Char
  | [] => none
  | [_] => none
  | a :: b :: rest =>
    if a = '%' then (if b = '%' then firstVerbChars rest else some b) else firstVerbChars (b :: rest)

def firstVerb (s : String) : Option Char := firstVerbChars s.toList

end Tengo.Model.SrcPos

import Tengo.Model.Scanner
import Tengo.Model.Ast
import Tengo.Model.Literal
/-!
Model of parser/parser.go on the token stream of `Scanner.scan`, for error-free input: the first error
(scanner or parser) makes the model answer `none` (`error` on the wire). Error recovery (`advance`,
`syncPos`/`syncCount`, the 10-error bailout, same-line suppression) is not modelled yet; every place
where the Go code reports an error is a `none` here, so recovery can be added by replacing these answers.

No fuel: every function returns the remaining tokens together with a proof that they are fewer than a
bound tied to its input (`Ok α n`), and the mutual recursion is well-founded on
`16 * tokens left + rank of the function`. `exprLevel` is written but never read by parser.go and is
therefore not modelled. The float value of a Float literal is external: `fo lit` supplies the bits
(`none`: ParseFloat reported a range error). Core Lean only.
-/
namespace Tengo.Model.Parser
open Tengo.Model.Token Tengo.Model.Scanner Tengo.Model.Ast Tengo.Model.Literal

abbrev Toks := List Token

/-- A successful parse: value, remaining tokens, and `rest.length < n`. -/
structure Ok (α : Type) (n : Nat) where
  val : α
  rest : Toks
  lt : rest.length < n

abbrev R (α : Type) (n : Nat) := Option (Ok α n)

/-- Kind of the current token (a token list always ends with EOF; an exhausted list reads as EOF,
like `Scan()` after the end). -/
def tk : Toks → Tok
  | [] => .EOF
  | t :: _ => t.tok

/-- `p.expect(t)` on error-free input: the current token must be `t`. -/
def expectTok (t : Tok) (ts : Toks) : R Unit ts.length :=
  match ts with
  | [] => none
  | x :: rest => if x.tok == t then some ⟨(), rest, by simp⟩ else none

/-- `p.expectSemi()`: nothing before ')' or '}', a ';' is consumed, anything else is an error. -/
def expectSemi (ts : Toks) : R Unit (ts.length + 1) :=
  match ts with
  | [] => none
  | x :: rest =>
    if x.tok == .RParen || x.tok == .RBrace then some ⟨(), x :: rest, by simp⟩
    else if x.tok == .Semicolon then some ⟨(), rest, by simp; omega⟩
    else none

/-- `p.expectComma(closing, …)`: `true` = a comma was consumed and an element follows. -/
def expectComma (closing : Tok) (ts : Toks) : R Bool (ts.length + 1) :=
  match ts with
  | [] => some ⟨false, [], by simp⟩
  | x :: rest =>
    if x.tok == .Comma then
      if tk rest == closing then none else some ⟨true, rest, by simp; omega⟩
    else if x.tok == .Semicolon && x.lit == [10] then some ⟨false, rest, by simp; omega⟩
    else some ⟨false, x :: rest, by simp⟩

/-- One parameter: `[...] ident`. -/
def identItem (ts : Toks) : R (Bs × Bool) ts.length :=
  match ts with
  | [] => none
  | x :: rest =>
    if x.tok == .Ellipsis then
      match rest with
      | [] => none
      | y :: r2 => if y.tok == .Ident then some ⟨(y.lit, true), r2, by simp; omega⟩ else none
    else if x.tok == .Ident then some ⟨(x.lit, false), rest, by simp⟩
    else none

/-- Parameters after the first: `{ "," [...] ident }` until a variadic one. -/
def identMore (ts : Toks) : R (List Bs × Bool) (ts.length + 1) :=
  match ts with
  | [] => some ⟨([], false), [], by simp⟩
  | x :: rest =>
    if x.tok == .Comma then
      match identItem rest with
      | none => none
      | some ⟨(nm, va), r, h⟩ =>
        if va then some ⟨([nm], true), r, by simp at *; omega⟩
        else match identMore r with
          | none => none
          | some ⟨(ns, va'), r', h'⟩ => some ⟨(nm :: ns, va'), r', by simp at *; omega⟩
    else some ⟨([], false), x :: rest, by simp⟩
termination_by ts.length
decreasing_by simp at *; omega

/-- `parseIdentList`: `( [ [...]ident { , [...]ident } ] )`. -/
def identList (ts : Toks) : R (List Bs × Bool) ts.length :=
  match ts with
  | [] => none
  | x :: rest =>
    if x.tok != .LParen then none
    else if tk rest == .RParen then
      match rest with
      | [] => none
      | _ :: r => some ⟨([], false), r, by simp; omega⟩
    else
      match identItem rest with
      | none => none
      | some ⟨(nm, va), r, h⟩ =>
        let more : R (List Bs × Bool) (r.length + 1) :=
          if va then some ⟨([], true), r, by simp⟩ else identMore r
        match more with
        | none => none
        | some ⟨(ns, va'), r', h'⟩ =>
          match expectTok .RParen r' with
          | none => none
          | some ⟨_, r'', h''⟩ => some ⟨(nm :: ns, va'), r'', by simp at *; omega⟩

/-- `if p.token == token.Ellipsis { …; p.next() }` of `parseCall`. -/
def optEllipsis (ts : Toks) : Ok Bool (ts.length + 1) :=
  match ts with
  | [] => ⟨false, [], by simp⟩
  | d :: r1 => if d.tok == .Ellipsis then ⟨true, r1, by simp; omega⟩ else ⟨false, d :: r1, by simp⟩

/-- Optional label of `break` / `continue`. -/
def optLabel (ts : Toks) : Ok (Option Bs) (ts.length + 1) :=
  match ts with
  | [] => ⟨none, [], by simp⟩
  | l :: r1 => if l.tok == .Ident then ⟨some l.lit, r1, by simp; omega⟩ else ⟨none, l :: r1, by simp⟩

def isUnaryOp (t : Tok) : Bool := t == .Add || t == .Sub || t == .Not || t == .Xor

/-- Tokens on which `parseStmt` starts a simple statement. -/
def isSimpleStart (t : Tok) : Bool :=
  match t with
  | .Func | .Error | .Immutable | .Ident | .Int | .Float | .Char | .String | .True | .False
  | .Undefined | .Import | .LParen | .LBrace | .LBrack | .Add | .Sub | .Mul | .And | .Xor | .Not => true
  | _ => false

/-- The op-assignment tokens of the second switch of `parseSimpleStmt`. -/
def isOpAssign (t : Tok) : Bool :=
  match t with
  | .Define | .AddAssign | .SubAssign | .MulAssign | .QuoAssign | .RemAssign | .AndAssign | .OrAssign
  | .XorAssign | .ShlAssign | .ShrAssign | .AndNotAssign => true
  | _ => false

/-- `makeExpr` on error-free input. -/
def makeExpr : Stmt → Option Expr
  | .expr e => some e
  | _ => none

def identName : Expr → Option Bs
  | .ident n => some n
  | _ => none

/-- Key and value of a for-in header (`none` = the parser reports "expected identifier", or "expected
1 or 2 identifiers" for three or more names). -/
def forInNames : Exprs → Option (Option Bs × Option Bs)
  | .cons x .nil => (identName x).map (fun v => (some [95], some v))
  | .cons x (.cons y .nil) =>
    match identName x, identName y with
    | some k, some v => some (some k, some v)
    | _, _ => none
  | _ => none

macro "lt_tac" : tactic =>
  `(tactic| ((try simp only [List.length_cons] at *); omega))

variable (fo : Bs → Option Nat)

mutual

/-- `parseExpr`: binary expression, then an optional `? :`. -/
def parseExpr (ts : Toks) : R Expr ts.length :=
  match parseBinary 1 ts with
  | none => none
  | some ⟨x, r, h⟩ =>
    match r, h with
    | [], h => some ⟨x, [], h⟩
    | t :: r1, h =>
      if t.tok == .Question then
        match parseExpr r1 with
        | none => none
        | some ⟨a, r2, h2⟩ =>
          match r2, h2 with
          | [], _ => none
          | c :: r3, h2 =>
            if c.tok == .Colon then
              match parseExpr r3 with
              | none => none
              | some ⟨b, r4, h4⟩ => some ⟨.cond x a b, r4, by lt_tac⟩
            else none
      else some ⟨x, t :: r1, h⟩
termination_by ts.length * 16 + 8
decreasing_by all_goals lt_tac

/-- `parseBinaryExpr(prec1)`. -/
def parseBinary (prec1 : Nat) (ts : Toks) : R Expr ts.length :=
  match parseUnary ts with
  | none => none
  | some ⟨x, r, h⟩ =>
    match binLoop prec1 x r with
    | none => none
    | some ⟨y, r', h'⟩ => some ⟨y, r', by lt_tac⟩
termination_by ts.length * 16 + 7
decreasing_by all_goals lt_tac

/-- The `for` loop of `parseBinaryExpr`: `x` is the left operand built so far. -/
def binLoop (prec1 : Nat) (x : Expr) (ts : Toks) : R Expr (ts.length + 1) :=
  match ts with
  | [] => some ⟨x, [], by simp⟩
  | t :: rest =>
    if t.tok.prec < prec1 then some ⟨x, t :: rest, by simp⟩
    else
      match parseBinary (t.tok.prec + 1) rest with
      | none => none
      | some ⟨y, r, h⟩ =>
        match binLoop prec1 (.bin t.tok x y) r with
        | none => none
        | some ⟨z, r', h'⟩ => some ⟨z, r', by lt_tac⟩
termination_by ts.length * 16 + 15
decreasing_by all_goals lt_tac

/-- `parseUnaryExpr`. -/
def parseUnary (ts : Toks) : R Expr ts.length :=
  match ts with
  | [] => none
  | t :: rest =>
    if isUnaryOp t.tok then
      match parseUnary rest with
      | none => none
      | some ⟨x, r, h⟩ => some ⟨.un t.tok x, r, by lt_tac⟩
    else parsePrimary (t :: rest)
termination_by ts.length * 16 + 6
decreasing_by all_goals lt_tac

/-- `parsePrimaryExpr`: operand, then selectors / indexes / slices / calls. -/
def parsePrimary (ts : Toks) : R Expr ts.length :=
  match parseOperand ts with
  | none => none
  | some ⟨x, r, h⟩ =>
    match postfixLoop x r with
    | none => none
    | some ⟨y, r', h'⟩ => some ⟨y, r', by lt_tac⟩
termination_by ts.length * 16 + 5
decreasing_by all_goals lt_tac

/-- The loop `L:` of `parsePrimaryExpr`. -/
def postfixLoop (x : Expr) (ts : Toks) : R Expr (ts.length + 1) :=
  match ts with
  | [] => some ⟨x, [], by simp⟩
  | t :: rest =>
    if t.tok == .Period then
      match rest with
      | [] => none
      | s :: r1 =>
        if s.tok == .Ident then
          match postfixLoop (.sel x s.lit) r1 with
          | none => none
          | some ⟨y, r', h'⟩ => some ⟨y, r', by lt_tac⟩
        else none
    else if t.tok == .LBrack then
      -- parseIndexOrSlice
      match optExpr (tk rest == .Colon) rest with
      | none => none
      | some ⟨i0, r1, h1⟩ =>
        match r1, h1 with
        | [], _ => none
        | c :: r2, h1 =>
          if c.tok == .Colon then
            match optExpr (tk r2 == .RBrack || tk r2 == .EOF) r2 with
            | none => none
            | some ⟨i1, r3, h3⟩ =>
              match expectTok .RBrack r3 with
              | none => none
              | some ⟨_, r4, h4⟩ =>
                match postfixLoop (.slice x i0 i1) r4 with
                | none => none
                | some ⟨y, r', h'⟩ => some ⟨y, r', by lt_tac⟩
          else if c.tok == .RBrack then
            match postfixLoop (.idx x i0) r2 with
            | none => none
            | some ⟨y, r', h'⟩ => some ⟨y, r', by lt_tac⟩
          else none
    else if t.tok == .LParen then
      match callArgs rest with
      | none => none
      | some ⟨(args, ell), r1, h1⟩ =>
        match expectTok .RParen r1 with
        | none => none
        | some ⟨_, r2, h2⟩ =>
          match postfixLoop (.call x args ell) r2 with
          | none => none
          | some ⟨y, r', h'⟩ => some ⟨y, r', by lt_tac⟩
    else some ⟨x, t :: rest, by simp⟩
termination_by ts.length * 16 + 15
decreasing_by all_goals lt_tac

/-- Argument loop of `parseCall` (up to, not including, the closing parenthesis). -/
def callArgs (ts : Toks) : R (Exprs × Bool) (ts.length + 1) :=
  match ts with
  | [] => some ⟨(.nil, false), [], by simp⟩
  | t :: rest =>
    if t.tok == .RParen || t.tok == .EOF then some ⟨(.nil, false), t :: rest, by simp⟩
    else
      match parseExpr (t :: rest) with
      | none => none
      | some ⟨e, r, h⟩ =>
        match optEllipsis r with
        | ⟨ell, r1, h1⟩ =>
          match expectComma .RParen r1 with
          | none => none
          | some ⟨more, r2, h2⟩ =>
            if more && !ell then
              match callArgs r2 with
              | none => none
              | some ⟨(es, ell'), r3, h3⟩ => some ⟨(.cons e es, ell'), r3, by lt_tac⟩
            else some ⟨(.cons e .nil, ell), r2, by lt_tac⟩
termination_by ts.length * 16 + 15
decreasing_by all_goals lt_tac

/-- Element loop of `parseArrayLit`. -/
def elems (ts : Toks) : R Exprs (ts.length + 1) :=
  match ts with
  | [] => some ⟨.nil, [], by simp⟩
  | t :: rest =>
    if t.tok == .RBrack || t.tok == .EOF then some ⟨.nil, t :: rest, by simp⟩
    else
      match parseExpr (t :: rest) with
      | none => none
      | some ⟨e, r, h⟩ =>
        match expectComma .RBrack r with
        | none => none
        | some ⟨more, r2, h2⟩ =>
          if more then
            match elems r2 with
            | none => none
            | some ⟨es, r3, h3⟩ => some ⟨.cons e es, r3, by lt_tac⟩
          else some ⟨.cons e .nil, r2, by lt_tac⟩
termination_by ts.length * 16 + 15
decreasing_by all_goals lt_tac

/-- Element loop of `parseMapLit` with `parseMapElementLit`. -/
def mapElems (ts : Toks) : R MapElems (ts.length + 1) :=
  match ts with
  | [] => some ⟨.nil, [], by simp⟩
  | t :: rest =>
    if t.tok == .RBrace || t.tok == .EOF then some ⟨.nil, t :: rest, by simp⟩
    else
      let key : Option Bs :=
        if t.tok == .Ident then some t.lit
        else if t.tok == .String then some (stringValue t.lit)
        else none
      match key with
      | none => none
      | some k =>
        match expectTok .Colon rest with
        | none => none
        | some ⟨_, r0, h0⟩ =>
          match parseExpr r0 with
          | none => none
          | some ⟨e, r, h⟩ =>
            match expectComma .RBrace r with
            | none => none
            | some ⟨more, r2, h2⟩ =>
              if more then
                match mapElems r2 with
                | none => none
                | some ⟨es, r3, h3⟩ => some ⟨.cons k e es, r3, by lt_tac⟩
              else some ⟨.cons k e .nil, r2, by lt_tac⟩
termination_by ts.length * 16 + 15
decreasing_by all_goals lt_tac

/-- An optional expression: absent when `skip` (decided by the caller from the current token). -/
def optExpr (skip : Bool) (ts : Toks) : R OptExpr (ts.length + 1) :=
  if skip then some ⟨.none, ts, by simp⟩
  else match parseExpr ts with
    | none => none
    | some ⟨e, r, h⟩ => some ⟨.some e, r, by lt_tac⟩
termination_by ts.length * 16 + 9
decreasing_by all_goals lt_tac

/-- An optional simple statement of a `for` header. -/
def optSimple (skip forIn : Bool) (ts : Toks) : R OptStmt (ts.length + 1) :=
  if skip then some ⟨.none, ts, by simp⟩
  else match parseSimpleStmt forIn ts with
    | none => none
    | some ⟨s, r, h⟩ => some ⟨.some s, r, by lt_tac⟩
termination_by ts.length * 16 + 11
decreasing_by all_goals lt_tac

/-- `parseOperand`. -/
def parseOperand (ts : Toks) : R Expr ts.length :=
  match ts with
  | [] => none
  | t :: rest =>
    match t.tok with
    | .Ident => some ⟨.ident t.lit, rest, by simp⟩
    | .Int =>
      match parseInt0 t.lit with
      | .ok v => some ⟨.int v t.lit, rest, by simp⟩
      | _ => none
    | .Float =>
      if floatSyntaxOk t.lit then
        match fo t.lit with
        | some b => some ⟨.float b t.lit, rest, by simp⟩
        | none => none
      else none
    | .Char =>
      match charValue t.lit with
      | some v => some ⟨.char v t.lit, rest, by simp⟩
      | none => none
    | .String => some ⟨.str (stringValue t.lit) t.lit, rest, by simp⟩
    | .True => some ⟨.bool true, rest, by simp⟩
    | .False => some ⟨.bool false, rest, by simp⟩
    | .Undefined => some ⟨.undef, rest, by simp⟩
    | .Import =>
      match expectTok .LParen rest with
      | none => none
      | some ⟨_, r1, h1⟩ =>
        match r1, h1 with
        | [], _ => none
        | s :: r2, h1 =>
          if s.tok == .String then
            match expectTok .RParen r2 with
            | none => none
            | some ⟨_, r3, h3⟩ => some ⟨.imp (stringValue s.lit), r3, by lt_tac⟩
          else none
    | .LParen =>
      match parseExpr rest with
      | none => none
      | some ⟨e, r, h⟩ =>
        match expectTok .RParen r with
        | none => none
        | some ⟨_, r', h'⟩ => some ⟨.paren e, r', by lt_tac⟩
    | .LBrack =>
      match elems rest with
      | none => none
      | some ⟨es, r, h⟩ =>
        match expectTok .RBrack r with
        | none => none
        | some ⟨_, r', h'⟩ => some ⟨.arr es, r', by lt_tac⟩
    | .LBrace =>
      match mapElems rest with
      | none => none
      | some ⟨es, r, h⟩ =>
        match expectTok .RBrace r with
        | none => none
        | some ⟨_, r', h'⟩ => some ⟨.map es, r', by lt_tac⟩
    | .Func =>
      match identList rest with
      | none => none
      | some ⟨(ps, va), r, h⟩ =>
        match parseBlock r with
        | none => none
        | some ⟨body, r', h'⟩ => some ⟨.func ps va body, r', by lt_tac⟩
    | .Error =>
      match expectTok .LParen rest with
      | none => none
      | some ⟨_, r1, h1⟩ =>
        match parseExpr r1 with
        | none => none
        | some ⟨e, r, h⟩ =>
          match expectTok .RParen r with
          | none => none
          | some ⟨_, r', h'⟩ => some ⟨.error e, r', by lt_tac⟩
    | .Immutable =>
      match expectTok .LParen rest with
      | none => none
      | some ⟨_, r1, h1⟩ =>
        match parseExpr r1 with
        | none => none
        | some ⟨e, r, h⟩ =>
          match expectTok .RParen r with
          | none => none
          | some ⟨_, r', h'⟩ => some ⟨.immutable e, r', by lt_tac⟩
    | _ => none
termination_by ts.length * 16 + 4
decreasing_by all_goals lt_tac

/-- `parseBlockStmt` / `parseBody`: `{ stmts }`. -/
def parseBlock (ts : Toks) : R Stmts ts.length :=
  match expectTok .LBrace ts with
  | none => none
  | some ⟨_, r, h⟩ =>
    match parseStmtList r with
    | none => none
    | some ⟨ss, r1, h1⟩ =>
      match expectTok .RBrace r1 with
      | none => none
      | some ⟨_, r2, h2⟩ => some ⟨ss, r2, by lt_tac⟩
termination_by ts.length * 16 + 11
decreasing_by all_goals lt_tac

/-- `parseStmtList`. -/
def parseStmtList (ts : Toks) : R Stmts (ts.length + 1) :=
  match ts with
  | [] => some ⟨.nil, [], by simp⟩
  | t :: rest =>
    if t.tok == .RBrace || t.tok == .EOF then some ⟨.nil, t :: rest, by simp⟩
    else
      match parseStmt (t :: rest) with
      | none => none
      | some ⟨s, r, h⟩ =>
        match parseStmtList r with
        | none => none
        | some ⟨ss, r', h'⟩ => some ⟨.cons s ss, r', by lt_tac⟩
termination_by ts.length * 16 + 14
decreasing_by all_goals lt_tac

/-- `parseStmt` (the `}` case is dead: `parseStmtList` is the only caller and stops there). -/
def parseStmt (ts : Toks) : R Stmt ts.length :=
  match ts with
  | [] => none
  | t :: rest =>
    if isSimpleStart t.tok then
      match parseSimpleStmt false (t :: rest) with
      | none => none
      | some ⟨s, r, h⟩ =>
        match expectSemi r with
        | none => none
        | some ⟨_, r', h'⟩ => some ⟨s, r', by lt_tac⟩
    else if t.tok == .Return then
      if tk rest == .Semicolon || tk rest == .RBrace then
        match expectSemi rest with
        | none => none
        | some ⟨_, r', h'⟩ => some ⟨.ret .none, r', by lt_tac⟩
      else
        match parseExpr rest with
        | none => none
        | some ⟨e, r, h⟩ =>
          match expectSemi r with
          | none => none
          | some ⟨_, r', h'⟩ => some ⟨.ret (.some e), r', by lt_tac⟩
    else if t.tok == .Export then
      match parseExpr rest with
      | none => none
      | some ⟨e, r, h⟩ =>
        match expectSemi r with
        | none => none
        | some ⟨_, r', h'⟩ => some ⟨.export e, r', by lt_tac⟩
    else if t.tok == .If then
      match parseIfRest rest with
      | none => none
      | some ⟨s, r, h⟩ => some ⟨s, r, by lt_tac⟩
    else if t.tok == .For then
      match parseForRest rest with
      | none => none
      | some ⟨s, r, h⟩ => some ⟨s, r, by lt_tac⟩
    else if t.tok == .Break || t.tok == .Continue then
      match optLabel rest with
      | ⟨label, r1, h1⟩ =>
        match expectSemi r1 with
        | none => none
        | some ⟨_, r', h'⟩ => some ⟨.branch t.tok label, r', by lt_tac⟩
    else if t.tok == .Semicolon then some ⟨.empty (t.lit == [10]), rest, by simp⟩
    else none
termination_by ts.length * 16 + 13
decreasing_by all_goals lt_tac

/-- `parseIfStmt` after the `if` keyword. -/
def parseIfRest (ts : Toks) : R Stmt ts.length :=
  if tk ts == .LBrace || tk ts == .Semicolon then none
  else
    match parseSimpleStmt false ts with
    | none => none
    | some ⟨s1, r, h⟩ =>
      if tk r == .LBrace then
        match makeExpr s1 with
        | none => none
        | some c =>
          match parseIfTail .none c r with
          | none => none
          | some ⟨s, r', h'⟩ => some ⟨s, r', by lt_tac⟩
      else
        match r, h with
        | [], _ => none
        | sc :: r1, h =>
          if sc.tok == .Semicolon then
            match parseSimpleStmt false r1 with
            | none => none
            | some ⟨s2, r2, h2⟩ =>
              match makeExpr s2 with
              | none => none
              | some c =>
                match parseIfTail (.some s1) c r2 with
                | none => none
                | some ⟨s, r', h'⟩ => some ⟨s, r', by lt_tac⟩
          else none
termination_by ts.length * 16 + 12
decreasing_by all_goals lt_tac

/-- Body and else branch of an if statement. -/
def parseIfTail (init : OptStmt) (c : Expr) (ts : Toks) : R Stmt ts.length :=
  match parseBlock ts with
  | none => none
  | some ⟨body, r, h⟩ =>
    match r, h with
    | [], _ => none
    | e :: r1, h =>
      if e.tok == .Else then
        match r1, h with
        | [], _ => none
        | x :: r2, h =>
          if x.tok == .If then
            match parseIfRest r2 with
            | none => none
            | some ⟨s, r', h'⟩ => some ⟨.ifS init c body (.some s), r', by lt_tac⟩
          else if x.tok == .LBrace then
            match parseBlock (x :: r2) with
            | none => none
            | some ⟨eb, r3, h3⟩ =>
              match expectSemi r3 with
              | none => none
              | some ⟨_, r', h'⟩ => some ⟨.ifS init c body (.some (.block eb)), r', by lt_tac⟩
          else none
      else
        match expectSemi (e :: r1) with
        | none => none
        | some ⟨_, r', h'⟩ => some ⟨.ifS init c body .none, r', by lt_tac⟩
termination_by ts.length * 16 + 12
decreasing_by all_goals lt_tac

/-- `parseForStmt` after the `for` keyword. -/
def parseForRest (ts : Toks) : R Stmt ts.length :=
  if tk ts == .LBrace then
    match parseBlock ts with
    | none => none
    | some ⟨body, r, h⟩ =>
      match expectSemi r with
      | none => none
      | some ⟨_, r', h'⟩ => some ⟨.forS .none .none .none body, r', by lt_tac⟩
  else
    -- s1
    match optSimple (tk ts == .Semicolon) true ts with
    | none => none
    | some ⟨.some (.forIn k v it _), r, h⟩ =>
      match parseBlock r with
      | none => none
      | some ⟨body, r1, h1⟩ =>
        match expectSemi r1 with
        | none => none
        | some ⟨_, r', h'⟩ => some ⟨.forIn k v it body, r', by lt_tac⟩
    | some ⟨init, r, h⟩ =>
      match r, h with
      | [], _ => none
      | sc :: r1, h =>
        if sc.tok == .Semicolon then
          -- for init; cond; post {}
          match optSimple (tk r1 == .Semicolon) false r1 with
          | none => none
          | some ⟨cnd, r2, h2⟩ =>
            match expectTok .Semicolon r2 with
            | none => none
            | some ⟨_, r3, h3⟩ =>
              match optSimple (tk r3 == .LBrace) false r3 with
              | none => none
              | some ⟨post, r4, h4⟩ =>
                match parseBlock r4 with
                | none => none
                | some ⟨body, r5, h5⟩ =>
                  match expectSemi r5 with
                  | none => none
                  | some ⟨_, r', h'⟩ =>
                    let c : Option OptExpr :=
                      match cnd with
                      | .none => some .none
                      | .some s => (makeExpr s).map .some
                    match c with
                    | none => none
                    | some ce => some ⟨.forS init ce post body, r', by lt_tac⟩
        else
          -- for cond {}
          match parseBlock (sc :: r1) with
          | none => none
          | some ⟨body, r5, h5⟩ =>
            match expectSemi r5 with
            | none => none
            | some ⟨_, r', h'⟩ =>
              let c : Option OptExpr :=
                match init with
                | .none => some .none
                | .some s => (makeExpr s).map .some
              match c with
              | none => none
              | some ce => some ⟨.forS .none ce .none body, r', by lt_tac⟩
termination_by ts.length * 16 + 12
decreasing_by all_goals lt_tac

/-- `parseSimpleStmt(forIn)`. A for-in header is returned with an empty body (the caller fills it). -/
def parseSimpleStmt (forIn : Bool) (ts : Toks) : R Stmt ts.length :=
  match parseExprList ts with
  | none => none
  | some ⟨x, r, h⟩ =>
    match r, h with
    | [], h => (match x with
      | .cons x0 .nil => some ⟨.expr x0, [], h⟩
      | _ => none)
    | t :: r1, h =>
      if t.tok == .Assign || t.tok == .Define then
        match parseExprList r1 with
        | none => none
        | some ⟨y, r2, h2⟩ => some ⟨.assign t.tok x y, r2, by lt_tac⟩
      else if t.tok == .In && forIn then
        match parseExpr r1 with
        | none => none
        | some ⟨y, r2, h2⟩ =>
          match forInNames x with
          | none => none
          | some (k, v) => some ⟨.forIn k v y .nil, r2, by lt_tac⟩
      else
        match x with
        | .cons x0 .nil =>
          if isOpAssign t.tok then
            match parseExpr r1 with
            | none => none
            | some ⟨y, r2, h2⟩ => some ⟨.assign t.tok (.cons x0 .nil) (.cons y .nil), r2, by lt_tac⟩
          else if t.tok == .Inc || t.tok == .Dec then some ⟨.incdec t.tok x0, r1, by lt_tac⟩
          else some ⟨.expr x0, t :: r1, h⟩
        | _ => none
termination_by ts.length * 16 + 10
decreasing_by all_goals lt_tac

/-- `parseExprList`. -/
def parseExprList (ts : Toks) : R Exprs ts.length :=
  match parseExpr ts with
  | none => none
  | some ⟨e, r, h⟩ =>
    match r, h with
    | [], h => some ⟨.cons e .nil, [], h⟩
    | c :: r1, h =>
      if c.tok == .Comma then
        match parseExprList r1 with
        | none => none
        | some ⟨es, r2, h2⟩ => some ⟨.cons e es, r2, by lt_tac⟩
      else some ⟨.cons e .nil, c :: r1, h⟩
termination_by ts.length * 16 + 9
decreasing_by all_goals lt_tac

end

/-- `ParseFile` on the token stream: statements up to EOF. -/
def parseToks (ts : Toks) : Option Stmts :=
  match parseStmtList fo ts with
  | none => none
  | some ⟨ss, r, _⟩ => if tk r == .EOF then some ss else none

/-- `NewParser` + `ParseFile` on source bytes: any scanner error is an error. -/
def parseFile (cls : Nat → Nat) (src : Bs) : Option Stmts :=
  let o := scan cls src
  if o.errs.isEmpty then parseToks fo o.toks else none

end Tengo.Model.Parser

import Tengo.Model.Token
/-!
Model of parser/scanner.go (mode 0: comments skipped, semicolons inserted), case by case.

The source bytes are first decoded into characters (`utf8.DecodeRune` as `Scanner.next` applies it, with
the error `next` reports for each character); the scanner proper runs over the character list. Every
helper is a structural recursion over that list and answers "how many characters are consumed"; the
main loop `scanLoop` recurses on `2 * remaining + insertSemi`, so termination is established by the
definitions themselves (no fuel). Unicode letter/digit classification of non-ASCII runes is a parameter
(`cls r = 1` letter, `2` digit). Core Lean only.
-/
namespace Tengo.Model.Scanner
open Tengo.Model.Token

/-- Scanner error messages (classes; the rune of `illegal character` messages is kept). -/
inductive Msg where
  | nul | utf8 | bom
  | illegalChar (r : Nat)
  | commentNotTerminated
  | exponentNoDigits
  | escUnknown | escNotTerminated | escIllegalChar (r : Nat) | escInvalidCodePoint
  | runeNotTerminated | illegalRune
  | stringNotTerminated | rawStringNotTerminated
  deriving DecidableEq, Repr, Inhabited

/-- One decoded character: rune (0xFFFD for an invalid byte), its bytes, and the error `next()` reports
when it is read. -/
structure Ch where
  r : Nat
  bytes : Bs
  err : Option Msg
  deriving Repr, Inhabited

def bomR : Nat := 0xFEFF
def runeError : Nat := 0xFFFD
/-- Stands for Go's `ch = -1` at end of input (not a rune). -/
def eofR : Nat := 0x110000

/-! ### UTF-8 (`utf8.DecodeRune`) -/

def inRange (b : UInt8) (lo hi : Nat) : Bool := lo ≤ b.toNat && b.toNat ≤ hi

/-- `(rune, width)` of the first character of `b0 :: rest`. -/
def decodeRune (b0 : UInt8) (rest : Bs) : Nat × Nat :=
  let p0 := b0.toNat
  let bad : Nat × Nat := (runeError, 1)
  if p0 < 0x80 then (p0, 1)
  else if p0 < 0xC2 || p0 > 0xF4 then bad
  else
    let szlohi : Nat × Nat × Nat :=
      if p0 < 0xE0 then (2, 0x80, 0xBF)
      else if p0 == 0xE0 then (3, 0xA0, 0xBF)
      else if p0 == 0xED then (3, 0x80, 0x9F)
      else if p0 < 0xF0 then (3, 0x80, 0xBF)
      else if p0 == 0xF0 then (4, 0x90, 0xBF)
      else if p0 == 0xF4 then (4, 0x80, 0x8F)
      else (4, 0x80, 0xBF)
    let sz := szlohi.1
    match rest with
    | [] => bad
    | b1 :: r1 =>
      if !(inRange b1 szlohi.2.1 szlohi.2.2) then bad
      else if sz == 2 then ((p0 % 32) * 64 + b1.toNat % 64, 2)
      else match r1 with
        | [] => bad
        | b2 :: r2 =>
          if !(inRange b2 0x80 0xBF) then bad
          else if sz == 3 then ((p0 % 16) * 4096 + (b1.toNat % 64) * 64 + b2.toNat % 64, 3)
          else match r2 with
            | [] => bad
            | b3 :: _ =>
              if !(inRange b3 0x80 0xBF) then bad
              else ((p0 % 8) * 262144 + (b1.toNat % 64) * 4096 + (b2.toNat % 64) * 64 + b3.toNat % 64, 4)

/-- Error `next()` reports for a character read at offset `off`. -/
def nextErr (off r w : Nat) : Option Msg :=
  if r == 0 then some .nul
  else if r == runeError && w == 1 then some .utf8
  else if r == bomR && off > 0 then some .bom
  else none

/-- All characters of the source, as `next()` would deliver them one after the other. -/
def decodeAt (off : Nat) (bs : Bs) : List Ch :=
  match bs with
  | [] => []
  | b0 :: rest =>
    let rw := decodeRune b0 rest
    { r := rw.1, bytes := b0 :: rest.take (rw.2 - 1), err := nextErr off rw.1 rw.2 } ::
      decodeAt (off + rw.2) (rest.drop (rw.2 - 1))
termination_by bs.length
decreasing_by simp [List.length_drop]; omega

/-! ### Character access -/

def cur : List Ch → Nat
  | [] => eofR
  | c :: _ => c.r

/-- `peek()`: first byte of the character after the current one, 0 at end of input. -/
def peekB : List Ch → Nat
  | _ :: c :: _ => match c.bytes with
    | b :: _ => b.toNat
    | [] => 0
  | _ => 0

def width (cs : List Ch) : Nat := cs.foldl (fun a c => a + c.bytes.length) 0
def litOf (cs : List Ch) : Bs := cs.foldr (fun c a => c.bytes ++ a) []

def isAsciiLetter (r : Nat) : Bool := (97 ≤ r && r ≤ 122) || (65 ≤ r && r ≤ 90) || r == 95
def isLetter (cls : Nat → Nat) (r : Nat) : Bool := isAsciiLetter r || (r ≥ 0x80 && r < eofR && cls r == 1)
def isDigit (cls : Nat → Nat) (r : Nat) : Bool := (48 ≤ r && r ≤ 57) || (r ≥ 0x80 && r < eofR && cls r == 2)
def isDec (r : Nat) : Bool := 48 ≤ r && r ≤ 57

/-- `digitVal`. -/
def digitVal (r : Nat) : Nat :=
  if 48 ≤ r && r ≤ 57 then r - 48
  else if 97 ≤ r && r ≤ 102 then r - 97 + 10
  else if 65 ≤ r && r ≤ 70 then r - 65 + 10
  else 16

/-- `lower(c) = c | 0x20`. -/
def lowerB (b : Nat) : Nat := if (b / 32) % 2 == 1 then b else b + 32

/-! ### Helpers: each answers how many characters it consumes -/

/-- A helper error: emitted when `k` characters of the token are consumed, located at character `j` of
the token. -/
structure HErr where
  k : Nat
  j : Nat
  msg : Msg
  deriving Repr

def identLen (cls : Nat → Nat) : List Ch → Nat
  | [] => 0
  | c :: cs => if isLetter cls c.r || isDigit cls c.r then identLen cls cs + 1 else 0

/-- `scanDigits(base)`. -/
def digitsLen (base : Nat) : List Ch → Nat
  | [] => 0
  | c :: cs => if c.r == 95 || digitVal c.r < base then digitsLen base cs + 1 else 0

/-- Base chosen by the prefix of a number and the length of the prefix. -/
def numBase (cs : List Ch) : Nat × Nat :=
  let p := lowerB (peekB cs)
  if cur cs == 48 && p == 98 then (2, 2)
  else if cur cs == 48 && p == 111 then (8, 2)
  else if cur cs == 48 && p == 120 then (16, 2)
  else (10, 0)

/-- Whole number and fractional part: (has a fraction, characters consumed so far). -/
def numMant (cs : List Ch) : Bool × Nat :=
  let bn := numBase cs
  let base := bn.1
  let n1 := bn.2 + digitsLen base (cs.drop bn.2)
  if cur (cs.drop n1) == 46 && (base == 10 || base == 16) then
    (true, n1 + 1 + digitsLen base (cs.drop (n1 + 1)))
  else (false, n1)

/-- Exponent after `n2` characters: `none` when there is none. -/
def numExp (cs : List Ch) (n2 : Nat) : Option (Nat × List HErr) :=
  let e := cur (cs.drop n2)
  if e == 101 || e == 69 || e == 112 || e == 80 then
    let n3 := n2 + 1
    let s := cur (cs.drop n3)
    let n4 := if s == 45 || s == 43 then n3 + 1 else n3
    let d := digitsLen 10 (cs.drop n4)
    some (n4 + d, if d == 0 then [{ k := n4, j := n4, msg := .exponentNoDigits }] else [])
  else none

/-- `scanNumber` from the current character: characters consumed, token, errors. -/
def scanNumber (cs : List Ch) : Nat × Tok × List HErr :=
  let m := numMant cs
  match numExp cs m.2 with
  | some (n, errs) => (n, Tok.Float, errs)
  | none => (m.2, if m.1 then Tok.Float else Tok.Int, [])

/-- Mode of the quoted-literal automaton (`scanString`/`scanRune` with `scanEscape` inlined). -/
inductive QMode where
  | normal
  | esc                                            -- just after a backslash
  | digits (n base max x offs : Nat)               -- n digits still to read
  deriving Repr

structure QRes where
  n : Nat := 0            -- characters consumed (counted from the opening quote = 1)
  errs : List HErr := []
  main : Nat := 0         -- characters counted by the main loop of scanRune (`n`)
  valid : Bool := true    -- every escape was accepted
  closed : Bool := false
  deriving Repr

def isSimpleEsc (quote r : Nat) : Bool :=
  r == 97 || r == 98 || r == 102 || r == 110 || r == 114 || r == 116 || r == 118 || r == 92 || r == quote

/-- Body of `scanString` (`quote = '"'`) and `scanRune` (`quote = '\''`). `i` = characters consumed so
far (the opening quote included). A failed escape hands the current character back to the main loop,
which is why the mode is resolved first and the character consumed afterwards. -/
def quoted (quote : Nat) : QMode → Nat → List Ch → QRes
  | mode, i, cs =>
    let r := cur cs
    -- 1. resolve escapes that fail on the current character (no character consumed)
    let res : QMode × List HErr × Bool :=
      match mode with
      | .normal => (.normal, [], true)
      | .esc =>
        if isSimpleEsc quote r || (48 ≤ r && r ≤ 55) || r == 120 || r == 117 || r == 85 then (.esc, [], true)
        else (.normal, [{ k := i, j := i, msg := if r == eofR then .escNotTerminated else .escUnknown }], false)
      | .digits n base max x offs =>
        if digitVal r < base then (.digits n base max x offs, [], true)
        else (.normal, [{ k := i, j := i, msg := if r == eofR then .escNotTerminated else .escIllegalChar r }], false)
    match cs with
    | [] => { n := i, errs := res.2.1, valid := res.2.2 }
    | c :: rest =>
      match res.1 with
      | .normal =>
        if c.r == 10 then { n := i, errs := res.2.1, valid := res.2.2 }
        else if c.r == quote then { n := i + 1, errs := res.2.1, valid := res.2.2, closed := true }
        else
          let t := quoted quote (if c.r == 92 then .esc else .normal) (i + 1) rest
          { t with errs := res.2.1 ++ t.errs, main := t.main + 1, valid := res.2.2 && t.valid }
      | .esc =>
        let m : QMode :=
          if isSimpleEsc quote c.r then .normal
          else if 48 ≤ c.r && c.r ≤ 55 then .digits 2 8 255 (c.r - 48) (i)
          else if c.r == 120 then .digits 2 16 255 0 i
          else if c.r == 117 then .digits 4 16 0x10FFFF 0 i
          else .digits 8 16 0x10FFFF 0 i
        quoted quote m (i + 1) rest
      | .digits n base max x offs =>
        let x' := x * base + digitVal c.r
        if n ≤ 1 then
          if x' > max || (0xD800 ≤ x' && x' < 0xE000) then
            let t := quoted quote .normal (i + 1) rest
            { t with errs := { k := i + 1, j := offs, msg := .escInvalidCodePoint } :: t.errs, valid := false }
          else quoted quote .normal (i + 1) rest
        else quoted quote (.digits (n - 1) base max x' offs) (i + 1) rest

/-- `scanRawString` after the opening back quote: characters consumed (opening quote included), closed. -/
def rawLen : List Ch → Nat × Bool
  | [] => (1, false)
  | c :: cs => if c.r == 96 then (2, true) else let t := rawLen cs; (t.1 + 1, t.2)

def stripCRBytes (bs : Bs) : Bs := bs.filter (· != 13)

/-- `scanComment` after the initial '/': characters consumed including the initial '/', and whether
the comment is terminated. `cs` starts at the second character ('/' or '*'). -/
def lineCommentLen : List Ch → Nat
  | [] => 0
  | c :: cs => if c.r == 10 then 0 else lineCommentLen cs + 1

/-- Inside `/* … `: `prevStar` = the previously consumed character was '*'. -/
def blockCommentLen : Bool → List Ch → Nat × Bool
  | _, [] => (0, false)
  | prevStar, c :: cs =>
    if prevStar && c.r == 47 then (1, true)
    else let t := blockCommentLen (c.r == 42) cs; (t.1 + 1, t.2)

def commentLen (cs : List Ch) : Nat × Bool :=
  match cs with
  | [] => (1, true)
  | c :: rest =>
    if c.r == 47 then (2 + lineCommentLen rest, true)
    else let t := blockCommentLen false rest; (2 + t.1, t.2)

/-- State of the `findLineEnd` look-ahead. -/
inductive FMode where
  | head                    -- after a '/': expect '/' or '*'
  | block (prevStar : Bool) -- inside a general comment
  | gap                     -- after a general comment: skipping blanks
  deriving Repr

/-- `findLineEnd`: `cs` starts at the character after the initial '/'. Result: the answer and the
number of `next()` calls the look-ahead made (their errors are reported a second time). -/
def findLineEnd : FMode → List Ch → Bool × Nat
  | .head, [] => (false, 0)
  | .block _, [] => (true, 0)
  | .gap, [] => (true, 0)
  | .head, c :: cs =>
    if c.r == 47 then (true, 0)
    else if c.r == 42 then let t := findLineEnd (.block false) cs; (t.1, t.2 + 1)
    else (false, 0)
  | .block prevStar, c :: cs =>
    if prevStar && c.r == 47 then let t := findLineEnd .gap cs; (t.1, t.2 + 1)
    else if c.r == 10 then (true, 0)
    else let t := findLineEnd (.block (c.r == 42)) cs; (t.1, t.2 + 1)
  | .gap, c :: cs =>
    if c.r == 32 || c.r == 9 || c.r == 13 then let t := findLineEnd .gap cs; (t.1, t.2 + 1)
    else if c.r == 10 then (true, 0)
    else if c.r == 47 then let t := findLineEnd .head cs; (t.1, t.2 + 1)
    else (false, 0)

/-! ### One `Scan()` step -/

/-- The documented insert-semicolon set restricted to identifier-like tokens: the inner `switch tok` of
`Scan` after `token.Lookup`. -/
def identSemi : Tok → Bool
  | .Ident | .Break | .Continue | .Return | .Export | .True | .False | .Undefined => true
  | _ => false

/-- Result of one step: consumes `m + 1` characters. -/
structure Step where
  m : Nat
  tok : Option (Tok × Bs)      -- `none`: white space or a skipped comment
  ins : Bool                   -- new value of `insertSemi`
  errs : List HErr := []
  deriving Repr

def switch2 (cs : List Ch) (t0 t1 : Tok) : Nat × Tok :=
  if cur cs == 61 then (1, t1) else (0, t0)

def switch3 (cs : List Ch) (t0 t1 : Tok) (ch2 : Nat) (t2 : Tok) : Nat × Tok :=
  if cur cs == 61 then (1, t1) else if cur cs == ch2 then (1, t2) else (0, t0)

def switch4 (cs : List Ch) (t0 t1 : Tok) (ch2 : Nat) (t2 t3 : Tok) : Nat × Tok :=
  if cur cs == 61 then (1, t1)
  else if cur cs == ch2 then
    if cur (cs.drop 1) == 61 then (2, t3) else (1, t2)
  else (0, t0)

def op (mt : Nat × Tok) (ins : Bool) : Step := { m := mt.1, tok := some (mt.2, []), ins := ins }

/-- Encoding of `string(ch)` for the literal of an Illegal token. -/
def illegalLit (c : Ch) : Bs := if c.r == runeError then [0xEF, 0xBF, 0xBD] else c.bytes

/-- `Scan()` with current character `c` of rune `r` (`ins` is the current `insertSemi`; white space is a
step of its own that returns no token). -/
def scanR (cls : Nat → Nat) (ins : Bool) (r : Nat) (c : Ch) (cs : List Ch) : Step :=
  if r == 32 || r == 9 || r == 13 || (r == 10 && !ins) then { m := 0, tok := none, ins := ins }
  else if isLetter cls r then
    let n := identLen cls cs
    let lit := litOf (c :: cs.take n)
    let tok := Tok.lookup lit
    { m := n, tok := some (tok, lit), ins := identSemi tok }
  else if isDec r || (r == 46 && isDec (peekB (c :: cs))) then
    let t := scanNumber (c :: cs)
    { m := t.1 - 1, tok := some (t.2.1, litOf ((c :: cs).take t.1)), ins := true, errs := t.2.2 }
  else if r == 10 then { m := 0, tok := some (.Semicolon, [10]), ins := false }
  else if r == 34 then
    let q := quoted 34 .normal 1 cs
    { m := q.n - 1, tok := some (.String, litOf ((c :: cs).take q.n)), ins := true,
      errs := q.errs ++ (if q.closed then [] else [{ k := q.n, j := 0, msg := .stringNotTerminated }]) }
  else if r == 39 then
    let q := quoted 39 .normal 1 cs
    let e1 : List HErr := if !q.closed && q.valid then [{ k := q.n, j := 0, msg := .runeNotTerminated }] else []
    let valid := q.valid && q.closed
    let e2 : List HErr := if valid && q.main != 1 then [{ k := q.n, j := 0, msg := .illegalRune }] else []
    { m := q.n - 1, tok := some (.Char, litOf ((c :: cs).take q.n)), ins := true, errs := q.errs ++ e1 ++ e2 }
  else if r == 96 then
    let t := rawLen cs
    { m := t.1 - 1, tok := some (.String, stripCRBytes (litOf ((c :: cs).take t.1))), ins := true,
      errs := if t.2 then [] else [{ k := t.1, j := 0, msg := .rawStringNotTerminated }] }
  else if r == 58 then op (switch2 cs .Colon .Define) false
  else if r == 46 then
    if cur cs == 46 && peekB cs == 46 then op (2, .Ellipsis) false else op (0, .Period) false
  else if r == 44 then op (0, .Comma) false
  else if r == 63 then op (0, .Question) false
  else if r == 59 then { m := 0, tok := some (.Semicolon, [59]), ins := false }
  else if r == 40 then op (0, .LParen) false
  else if r == 41 then op (0, .RParen) true
  else if r == 91 then op (0, .LBrack) false
  else if r == 93 then op (0, .RBrack) true
  else if r == 123 then op (0, .LBrace) false
  else if r == 125 then op (0, .RBrace) true
  else if r == 43 then
    let t := switch3 cs .Add .AddAssign 43 .Inc
    op t (t.2 == .Inc)
  else if r == 45 then
    let t := switch3 cs .Sub .SubAssign 45 .Dec
    op t (t.2 == .Dec)
  else if r == 42 then op (switch2 cs .Mul .MulAssign) false
  else if r == 47 then
    if cur cs == 47 || cur cs == 42 then
      -- comment (the `insertSemi && findLineEnd()` case is taken by the caller); skipped in mode 0
      let t := commentLen cs
      { m := t.1 - 1, tok := none, ins := false,
        errs := if t.2 then [] else [{ k := t.1, j := 0, msg := .commentNotTerminated }] }
    else op (switch2 cs .Quo .QuoAssign) false
  else if r == 37 then op (switch2 cs .Rem .RemAssign) false
  else if r == 94 then op (switch2 cs .Xor .XorAssign) false
  else if r == 60 then op (switch4 cs .Less .LessEq 60 .Shl .ShlAssign) false
  else if r == 62 then op (switch4 cs .Greater .GreaterEq 62 .Shr .ShrAssign) false
  else if r == 61 then op (switch2 cs .Assign .Equal) false
  else if r == 33 then op (switch2 cs .Not .NotEqual) false
  else if r == 38 then
    if cur cs == 94 then
      let t := switch2 (cs.drop 1) .AndNot .AndNotAssign
      op (t.1 + 1, t.2) false
    else op (switch3 cs .And .AndAssign 38 .LAnd) false
  else if r == 124 then op (switch3 cs .Or .OrAssign 124 .LOr) false
  else
    { m := 0, tok := some (.Illegal, illegalLit c), ins := ins,
      errs := if r == bomR then [] else [{ k := 1, j := 0, msg := .illegalChar r }] }

def scan1 (cls : Nat → Nat) (ins : Bool) (c : Ch) (cs : List Ch) : Step := scanR cls ins c.r c cs

/-! ### Errors in emission order -/

/-- A reported error: byte offset and message. -/
structure Err where
  off : Nat
  msg : Msg
  deriving Repr

/-- Errors `next()` reports while `n` characters are consumed starting with the character before
`cs`: those of the first `n` characters of `cs` (each becomes current once). `k` numbers them. -/
def charEvents : (k off n : Nat) → List Ch → List (Nat × Err)
  | _, _, 0, _ => []
  | _, _, _ + 1, [] => []
  | k, off, n + 1, c :: cs =>
    match c.err with
    | some m => (k, { off := off, msg := m }) :: charEvents (k + 1) (off + c.bytes.length) n cs
    | none => charEvents (k + 1) (off + c.bytes.length) n cs

/-- Insert a helper event after every event emitted at or before the same count. -/
def insertEv (e : Nat × Err) : List (Nat × Err) → List (Nat × Err)
  | [] => [e]
  | x :: xs => if x.1 ≤ e.1 then x :: insertEv e xs else e :: x :: xs

/-- Errors of one step in the order the scanner reports them. `all` = current character :: rest,
at byte offset `off`. -/
def stepErrs (off : Nat) (c : Ch) (cs : List Ch) (st : Step) : List Err :=
  let ce := charEvents 1 (off + c.bytes.length) (st.m + 1) cs
  let he := st.errs.map (fun h => (h.k, ({ off := off + width ((c :: cs).take h.j), msg := h.msg } : Err)))
  (he.foldl (fun acc e => insertEv e acc) ce).map (·.2)

/-- Errors re-reported by the `findLineEnd` look-ahead that made `t` calls of `next()`: the characters
at index 2 … t+1 counted from the initial '/' (index 0). -/
def lookErrs (off : Nat) (c : Ch) (cs : List Ch) (t : Nat) : List Err :=
  match cs with
  | [] => []
  | c1 :: rest => (charEvents 2 (off + c.bytes.length + c1.bytes.length) t rest).map (·.2)

/-! ### The token stream -/

structure Token where
  tok : Tok
  lit : Bs
  off : Nat
  deriving Repr, Inhabited

structure Out where
  toks : List Token
  errs : List Err
  deriving Repr

/-- Is the scanner at a comment while a semicolon is pending, and does `findLineEnd` say the comment
runs to the end of the line? Answers the look-ahead result. -/
def atComment (c : Ch) (cs : List Ch) : Bool := c.r == 47 && (cur cs == 47 || cur cs == 42)

/-- Repeated `Scan()` until EOF. Measure: `2 * characters left + insertSemi`. -/
def scanLoop (cls : Nat → Nat) (cs : List Ch) (off : Nat) (ins : Bool) : Out :=
  match cs with
  | [] =>
    if ins then { toks := [⟨.Semicolon, [10], off⟩, ⟨.EOF, [], off⟩], errs := [] }
    else { toks := [⟨.EOF, [], off⟩], errs := [] }
  | c :: rest =>
    if hc : ins = true ∧ atComment c rest = true then
      let fl := findLineEnd .head rest
      let le := lookErrs off c rest fl.2
      if fl.1 then
        -- automatic semicolon in front of the comment; nothing is consumed
        let o := scanLoop cls (c :: rest) off false
        { toks := ⟨.Semicolon, [10], off⟩ :: o.toks, errs := le ++ o.errs }
      else
        let st := scan1 cls ins c rest
        let o := scanLoop cls (rest.drop st.m) (off + width (c :: rest.take st.m)) st.ins
        { toks := o.toks, errs := le ++ stepErrs off c rest st ++ o.errs }
    else
      let st := scan1 cls ins c rest
      let o := scanLoop cls (rest.drop st.m) (off + width (c :: rest.take st.m)) st.ins
      match st.tok with
      | some (t, lit) => { toks := ⟨t, lit, off⟩ :: o.toks, errs := stepErrs off c rest st ++ o.errs }
      | none => { toks := o.toks, errs := stepErrs off c rest st ++ o.errs }
termination_by 2 * cs.length + (if ins then 1 else 0)
decreasing_by
  · simp [hc.1]
  · simp only [List.length_drop, List.length_cons]; split <;> split <;> omega
  · simp only [List.length_drop, List.length_cons]; split <;> split <;> omega

/-- `NewScanner` + `Scan()` until EOF. -/
def scan (cls : Nat → Nat) (src : Bs) : Out :=
  let cs := decodeAt 0 src
  match cs with
  | [] => scanLoop cls [] 0 false
  | c :: rest =>
    let e0 : List Err := match c.err with
      | some m => [{ off := 0, msg := m }]
      | none => []
    if c.r == bomR then
      let e1 : List Err := match rest with
        | c1 :: _ => (match c1.err with
          | some m => [{ off := c.bytes.length, msg := m }]
          | none => [])
        | [] => []
      let o := scanLoop cls rest c.bytes.length false
      { o with errs := e0 ++ e1 ++ o.errs }
    else
      let o := scanLoop cls cs 0 false
      { o with errs := e0 ++ o.errs }

end Tengo.Model.Scanner

import Tengo.Model.SpecValue
import Tengo.Model.SpecCheck
import Tengo.Model.Format
/-!
The reference interpreter (property C01): a fuel-indexed big-step evaluator over the AST, written
from docs/tutorial.md, operators.md, runtime-types.md, builtins.md. Variables are named heap cells
(global, function and block scopes), closures capture environments, evaluation is left to right.
No stacks, slots, jumps or frames. Points the documents leave open follow DESIGN.md Appendix B.
Core Lean only.
-/
namespace Tengo.Model.Spec

inductive Flow where
  | normal
  | brk
  | cont
  | ret (v : Value)

/-- Evaluation context that is not part of the heap. -/
structure Ctx where
  env       : Env
  callDepth : Nat := 0
  path      : List Nat := []      -- position of the current statement in the main program (global level only)

structure GSt where
  sites : List (List Nat × String × Nat) := []   -- global-level declaration site ↦ its cell

abbrev EM := StateT GSt M

def liftM {α} (x : M α) : EM α := StateT.lift x
def eRt {α} (msg : String) : EM α := liftM (rtErr msg)
def eUnsup {α} (why : String) : EM α := liftM (unsupported why)

/-! ### variables -/

def lookupVar (env : Env) (n : String) : Option Nat :=
  env.findSome? (fun f => f.vars.lookup n)

def readVar (env : Env) (n : String) : EM Value := do
  match lookupVar env n with
  | some r => do
    match ← liftM (getObj r) with
    | .cell v _ => pure v
    | _ => eUnsup "bad cell"
  | none => if builtinNames.contains n then pure (.builtin n) else eUnsup s!"unresolved at run time: {n}"

def writeVar (env : Env) (n : String) (v : Value) : EM Unit := do
  match lookupVar env n with
  | some r => liftM (setObj r (.cell v false))
  | none => eUnsup s!"assignment to unresolved name: {n}"

/-- Bind `n` in the innermost frame of `ctx`. At global level a declaration site keeps one cell
for all its executions (the compiler gives it one global slot); inside functions every execution
makes a fresh variable. Returns the extended environment. -/
def declare (ctx : Ctx) (n : String) (v : Value) (siteTag : Nat := 0) : EM Env := do
  let bind (r : Nat) : Env :=
    match ctx.env with
    | f :: rest => { f with vars := (n, r) :: f.vars.filter (fun p => p.1 != n) } :: rest
    | [] => [{ vars := [(n, r)] }]
  if ctx.callDepth == 0 then
    let key := (siteTag :: ctx.path, n)
    let g ← get
    match g.sites.find? (fun s => s.1 == key.1 && s.2.1 == key.2) with
    | some (_, _, r) => do
        liftM (setObj r (.cell v false))
        pure (bind r)
    | none => do
        let r ← liftM (alloc (.cell v false))
        set { g with sites := (key.1, key.2, r) :: g.sites }
        pure (bind r)
  else do
    let r ← liftM (alloc (.cell v false))
    pure (bind r)

/-! ### indexing -/

def toIntConv (v : Value) : Option Int :=      -- ToInt / ToInt64
  match v with
  | .int n => some n
  | .float f => some (intOfFloat f)
  | .char c => some c
  | .bool b => some (if b then 1 else 0)
  | _ => none                                    -- strings: handled by callers that support them

/-- Parse a decimal int64 as `strconv.ParseInt(s, 10, 64)` (optional sign, digits, underscores not
allowed in base 10). -/
def parseIntBytes (b : Bytes) : Option Int :=
  let (neg, ds) := match b with
    | 45 :: r => (true, r)
    | 43 :: r => (false, r)
    | r => (false, r)
  if ds.isEmpty || !ds.all (fun c => 48 ≤ c && c ≤ 57) then none
  else
    let n : Nat := ds.foldl (fun acc c => acc * 10 + (c.toNat - 48)) 0
    let v : Int := if neg then -(Int.ofNat n) else Int.ofNat n
    if v < minInt64 || v > maxInt64 then none else some v

def indexGet (l i : Value) : EM Value := do
  match l with
  | .arr r | .imarr r =>
    match i with
    | .int n => do
        let es ← liftM (arrElems r)
        if n < 0 || n ≥ es.length then pure .undef else pure (es.getD n.toNat .undef)
    | _ => eRt s!"invalid index type: {typeName i}"
  | .str b =>
    match i with
    | .int n =>
        let rs := runes b
        if n < 0 || n ≥ rs.length then pure .undef else pure (.char (Int.ofNat (rs.getD n.toNat 0)))
    | _ => eRt s!"invalid index type: {typeName i}"
  | .bytes b =>
    match i with
    | .int n => if n < 0 || n ≥ b.length then pure .undef else pure (.int (Int.ofNat (b.getD n.toNat 0).toNat))
    | _ => eRt s!"invalid index type: {typeName i}"
  | .map r | .immap r => do
      match ← liftM (toStringConv i) with
      | none => eRt s!"invalid index type: {typeName i}"
      | some k => do
          let kvs ← liftM (mapEntries r)
          pure ((kvs.lookup k).getD .undef)
  | .err r => do
      match ← liftM (toStringConv i) with
      | some k =>
        if k == strBytes "value" then
          match ← liftM (getObj r) with
          | .err v => pure v
          | _ => eUnsup "bad error ref"
        else eRt "invalid index on error"
      | none => eRt "invalid index on error"
  | .undef => pure .undef
  | _ => eRt s!"not indexable: {typeName i}"     -- the VM names the index's type here

/-- `IndexSet` on the final container. -/
def indexSet (dst idx v : Value) : EM Unit := do
  match dst with
  | .arr r => do
      let n? : Option Int := match idx with
        | .str b => parseIntBytes b
        | x => toIntConv x
      match n? with
      | none => eRt "invalid index type"
      | some n => do
        match ← liftM (getObj r) with
        | .arr st off len =>
          if n < 0 || n ≥ len then eRt "index out of bounds"
          else do
           liftM (noteWrite r)
           match ← liftM (getObj st) with
            | .store vs h => liftM (setObj st (.store (vs.setIfInBounds (off + n.toNat) v) h))
            | _ => eUnsup "bad store"
        | _ => eUnsup "bad array"
  | .map r => do
      match ← liftM (toStringConv idx) with
      | none => eRt "invalid index type"
      | some k => do
          let kvs ← liftM (mapEntries r)
          liftM (setObj r (.map (mapInsert k v kvs)))
  | _ => eRt s!"not index-assignable: {typeName dst}"

/-- `indexAssign(dst, src, selectors)`: walk all selectors but the last, then set. -/
def indexAssign (dst v : Value) (sels : List Value) : EM Unit := do
  match sels.reverse with
  | [] => pure ()
  | last :: initRev => do
      let mut cur := dst
      for s in initRev.reverse do
        -- errors of the walk name the container (not indexable) or the selector (invalid index type)
        match cur with
        | .arr _ | .imarr _ | .str _ | .bytes _ =>
          match s with
          | .int _ => cur ← indexGet cur s
          | _ => eRt s!"invalid index type: {typeName s}"
        | .map _ | .immap _ | .err _ | .undef => cur ← indexGet cur s
        | _ => eRt s!"not indexable: {typeName cur}"
      indexSet cur last v

/-! ### slicing -/

def sliceBounds (lo hi : Value) (n : Nat) : EM (Nat × Nat) := do
  let lowIdx ← match lo with
    | .undef => pure (0 : Int)
    | .int x => pure x
    | _ => eRt s!"invalid slice index type: {typeName lo}"
  let highIdx ← match hi with
    | .undef => pure (Int.ofNat n)
    | .int x => pure x
    | _ => eRt s!"invalid slice index type: {typeName hi}"
  if lowIdx > highIdx then eRt s!"invalid slice index: {lowIdx} > {highIdx}"
  let clamp (x : Int) : Nat := if x < 0 then 0 else if x > n then n else x.toNat
  pure (clamp lowIdx, clamp highIdx)

def sliceV (l lo hi : Value) : EM Value := do
  -- the low bound's type is checked before the container's type
  match lo with
  | .undef | .int _ => pure ()
  | _ => eRt s!"invalid slice index type: {typeName lo}"
  match l with
  | .arr r => do
      match ← liftM (getObj r) with
      | .arr st off len => do
          let (a, b) ← sliceBounds lo hi len
          -- a new header over the same store (Go slice of a slice)
          match ← liftM (getObj st) with
          | .store vs h => liftM (setObj st (.store vs (h + 1)))
          | _ => eUnsup "bad store"
          pure (.arr (← liftM (alloc (.arr st (off + a) (b - a)))))
      | _ => eUnsup "bad array"
  | .imarr r => do
      let es ← liftM (arrElems r)
      let (a, b) ← sliceBounds lo hi es.length
      pure (.arr (← liftM (newArray ((es.drop a).take (b - a)))))
  | .str s => do
      let (a, b) ← sliceBounds lo hi s.length
      pure (.str ((s.drop a).take (b - a)))
  | .bytes s => do
      let (a, b) ← sliceBounds lo hi s.length
      pure (.bytes ((s.drop a).take (b - a)))
  | _ => eRt s!"not indexable: {typeName l}"

/-! ### copy -/

def copyV : Nat → Value → EM Value
  | 0, _ => liftM (throw Err.fuel)
  | d + 1, v =>
    match v with
    | .arr r | .imarr r => do
        let es ← liftM (arrElems r)
        let cs ← es.mapM (copyV d)
        pure (.arr (← liftM (newArray cs)))
    | .map r | .immap r => do
        let kvs ← liftM (mapEntries r)
        let cs ← kvs.mapM (fun (k, x) => do pure (k, ← copyV d x))
        pure (.map (← liftM (alloc (.map cs))))
    | .err r => do
        match ← liftM (getObj r) with
        | .err x => do
            let c ← copyV d x
            pure (.err (← liftM (alloc (.err c))))
        | _ => eUnsup "bad error ref"
    | .fn _ => eUnsup "copy of a function"
    | .cfn _ => eUnsup "copy of a compiled function"   -- function objects live in the VM's own store
    | .builtin _ => eUnsup "copy of a builtin"     -- Go returns a fresh BuiltinFunction; identity is not observable
    | v => pure v

/-! ### builtin functions -/

def wrongArgs {α} (name : String) : EM α :=
  eRt s!"wrong number of arguments in call to 'builtin-function:{name}'"

def invalidArg {α} (name arg expected : String) (found : Value) : EM α :=
  eRt s!"invalid type for argument '{arg}' in call to 'builtin-function:{name}': expected {expected}, found {typeName found}"

def isPred (name : String) (v : Value) : Option Bool :=
  match name with
  | "is_int" => some (match v with | .int _ => true | _ => false)
  | "is_float" => some (match v with | .float _ => true | _ => false)
  | "is_string" => some (match v with | .str _ => true | _ => false)
  | "is_bool" => some (match v with | .bool _ => true | _ => false)
  | "is_char" => some (match v with | .char _ => true | _ => false)
  | "is_bytes" => some (match v with | .bytes _ => true | _ => false)
  | "is_array" => some (match v with | .arr _ => true | _ => false)
  | "is_immutable_array" => some (match v with | .imarr _ => true | _ => false)
  | "is_map" => some (match v with | .map _ => true | _ => false)
  | "is_immutable_map" => some (match v with | .immap _ => true | _ => false)
  | "is_time" => some false
  | "is_error" => some (match v with | .err _ => true | _ => false)
  | "is_undefined" => some (match v with | .undef => true | _ => false)
  | "is_function" => some (match v with | .fn _ | .cfn _ => true | _ => false)
  | "is_callable" => some (match v with | .fn _ | .cfn _ | .builtin _ => true | _ => false)
  | "is_iterable" => some (match v with
      | .arr _ | .imarr _ | .map _ | .immap _ | .str _ | .bytes _ | .undef => true | _ => false)
  | _ => none

def buildRangeUp (cur stop step : Int) : Nat → List Value
  | 0 => []
  | f + 1 => if cur < stop then .int cur :: buildRangeUp (wrap64 (cur + step)) stop step f else []

def buildRangeDown (cur stop step : Int) : Nat → List Value
  | 0 => []
  | f + 1 => if cur > stop then .int cur :: buildRangeDown (wrap64 (cur - step)) stop step f else []

/-- `buildRange`: the direction is fixed by the first comparison. -/
def buildRange (start stop step : Int) (fuel : Nat) : List Value :=
  if start ≤ stop then buildRangeUp start stop step fuel else buildRangeDown start stop step fuel

def formatNoOracle : Format.Oracle :=
  { appendFloat := fun _ _ _ => none, floatStr := fun _ => none, floatInt := fun _ => none, quote := fun _ => none,
    quoteAscii := fun _ => none, canBackquote := fun _ => none, quoteRune := fun _ => none,
    quoteRuneAscii := fun _ => none, isPrint := fun _ => none }

def formatArg : Value → Option Format.Arg
  | .int n => some (.int (BitVec.ofInt 64 n))
  | .str b => some (.str b)
  | .bool b => some (.bool b)
  | .bytes b => some (.bytes b)
  | _ => none

def callBuiltin (name : String) (args : List Value) : EM Value := do
  match isPred name (args.headD .undef) with
  | some b => if args.length != 1 then wrongArgs name else pure (.bool b)
  | none =>
  match name, args with
  | "type_name", [v] => pure (.str (strBytes (typeName v)))
  | "type_name", _ => wrongArgs name
  | "len", [v] =>
    match v with
    | .arr r | .imarr r => do pure (.int (← liftM (arrElems r)).length)
    | .map r | .immap r => do pure (.int (← liftM (mapEntries r)).length)
    | .str b | .bytes b => pure (.int b.length)
    | _ => invalidArg name "first" "array/string/bytes/map" v
  | "len", _ => wrongArgs name
  | "copy", [v] => copyV 64 v
  | "copy", _ => wrongArgs name
  | "append", a :: x :: xs =>
    match a with
    | .arr r => do
        -- hidden capacity: whether the result shares storage with `a` is unspecified. It is
        -- unobservable unless another header over the same store exists.
        match ← liftM (getObj r) with
        | .arr st _ _ =>
          match ← liftM (getObj st) with
          | .store _ h => if h > 1 then liftM (throw (Err.excluded "append to an array whose storage is shared (hidden capacity)")) else pure ()
          | _ => eUnsup "bad store"
        | _ => eUnsup "bad array"
        let es ← liftM (arrElems r)
        let res ← liftM (newArray (es ++ x :: xs))
        liftM (noteAppend r res)
        pure (.arr res)
    | .imarr r => do
        let es ← liftM (arrElems r)
        pure (.arr (← liftM (newArray (es ++ x :: xs))))
    | _ => invalidArg name "first" "array" a
  | "append", _ => wrongArgs name
  | "delete", [m, k] =>
    match m with
    | .map r =>
      match k with
      | .str kb => do
          let kvs ← liftM (mapEntries r)
          liftM (setObj r (.map (kvs.filter (fun p => p.1 != kb))))
          pure .undef
      | _ => invalidArg name "second" "string" k
    | _ => invalidArg name "first" "map" m
  | "delete", _ => wrongArgs name
  | "splice", [] => wrongArgs name
  | "splice", a :: rest =>
    match a with
    | .arr r => do
        let es ← liftM (arrElems r)
        let n := es.length
        let start ← match rest with
          | [] => pure (0 : Int)
          | .int s :: _ => if s < 0 || s > n then eRt "index out of bounds" else pure s
          | x :: _ => invalidArg name "second" "int" x
        let del ← match rest.drop 1 with
          | [] => pure (Int.ofNat n)
          | .int c :: _ => if c < 0 then eRt "index out of bounds" else pure c
          | x :: _ => invalidArg name "third" "int" x
        let s := start.toNat
        let dc := if s + del.toNat > n then n - s else del.toNat
        let deleted := (es.drop s).take dc
        let items := rest.drop 2
        let newEs := es.take s ++ items ++ es.drop (s + dc)
        -- in-place update of the array object; sharing with other headers is capacity dependent
        match ← liftM (getObj r) with
        | .arr st _ _ =>
          match ← liftM (getObj st) with
          | .store _ h => if h > 1 then liftM (throw (Err.excluded "splice of an array whose storage is shared (hidden capacity)")) else pure ()
          | _ => eUnsup "bad store"
        | _ => eUnsup "bad array"
        liftM (noteWrite r)
        let st' ← liftM (alloc (.store newEs.toArray 1))
        liftM (setObj r (.arr st' 0 newEs.length))
        pure (.arr (← liftM (newArray deleted)))
    | _ => invalidArg name "first" "array" a
  | "range", _ =>
    if args.length < 2 || args.length > 3 then wrongArgs name
    else do
      let names := ["start", "stop", "step"]
      let mut ints : List Int := []
      for (a, i) in args.zipIdx do
        match a with
        | .int v =>
          if i == 2 && v ≤ 0 then eRt "range step must be greater than 0"
          ints := ints ++ [v]
        | x => invalidArg name (names.getD i "") "int" x
      let start := ints.getD 0 0
      let stop := ints.getD 1 0
      let step := ints.getD 2 1
      let count := ((stop - start).natAbs / step.natAbs) + 2
      if count > 100000 then eUnsup "huge range"
      pure (.arr (← liftM (newArray (buildRange start stop step count))))
  | "string", v :: rest =>
    if rest.length > 1 then wrongArgs name
    else match v with
      | .str _ => pure v
      | _ => do
        match ← liftM (toStringConv v) with
        | some s => pure (.str s)
        | none => pure (rest.headD .undef)
  | "int", v :: rest =>
    if rest.length > 1 then wrongArgs name
    else match v with
      | .str b => pure (match parseIntBytes b with | some n => .int n | none => rest.headD .undef)
      | _ => pure (match toIntConv v with | some n => .int n | none => rest.headD .undef)
  | "float", v :: rest =>
    if rest.length > 1 then wrongArgs name
    else match v with
      | .float _ => pure v
      | .int n => pure (.float (floatOfInt n))
      | .str _ => eUnsup "float from text"
      | _ => pure (rest.headD .undef)
  | "bool", [v] => do pure (.bool (!(← liftM (isFalsy v))))
  | "bool", _ => wrongArgs name
  | "char", v :: rest =>
    if rest.length > 1 then wrongArgs name
    else match v with
      | .char _ => pure v
      | .int n => pure (.char (wrap32 n))
      | _ => pure (rest.headD .undef)
  | "bytes", v :: rest =>
    if rest.length > 1 then wrongArgs name
    else match v with
      | .int n =>
        if n < 0 then liftM (throw (Err.gopanic "runtime error: makeslice: len out of range"))
        else if n > 100000 then eUnsup "huge bytes"
        else pure (.bytes (List.replicate n.toNat 0))
      | .bytes _ => pure v
      | .str b => pure (.bytes b)
      | _ => pure (rest.headD .undef)
  | "string", [] | "int", [] | "float", [] | "char", [] | "bytes", [] => wrongArgs name
  -- `format`: the formatter model of C17 (`Model.Format`) with an empty oracle, so every format that needs
  -- strconv (floats, %q, %U) is unsupported here and left to C17; int/string/bool/bytes under the other
  -- verbs, flags, width and precision are decided by the model
  | "format", [] => wrongArgs name
  | "format", [.str f] => pure (.str f)
  | "format", (.str f) :: rest =>
    match rest.mapM formatArg with
    | none => eUnsup "format argument outside int/string/bool/bytes"
    | some as =>
      match Format.format formatNoOracle 2147483647 f as with
      | .ok b => pure (.str b)
      | .error _ => eUnsup "format needs the strconv oracle (C17)"
  | "format", v :: _ => invalidArg name "format" "string" v
  | _, _ => eUnsup s!"builtin {name}"

/-! ### evaluation -/

def selValue : Expr → Option Value
  | .str b => some (.str b)
  | _ => none

mutual
  def evalExpr : Nat → Ctx → Expr → EM Value
    | 0, _, _ => liftM (throw Err.fuel)
    | fuel + 1, ctx, e =>
      match e with
      | .ident n => readVar ctx.env n
      | .int v => pure (.int v)
      | .float b => pure (.float (Float.ofBits b))
      | .char v => pure (.char v)
      | .str b => pure (.str b)
      | .bool b => pure (.bool b)
      | .undef => pure .undef
      | .paren x => evalExpr fuel ctx x
      | .bin tok l r =>
        if tok == "LAnd" then do
          let a ← evalExpr fuel ctx l
          if ← liftM (isFalsy a) then pure a else evalExpr fuel ctx r
        else if tok == "LOr" then do
          let a ← evalExpr fuel ctx l
          if ← liftM (isFalsy a) then evalExpr fuel ctx r else pure a
        else do
          let a ← evalExpr fuel ctx l
          let b ← evalExpr fuel ctx r
          if tok == "Equal" then pure (.bool (← liftM (equalsV 64 a b)))
          else if tok == "NotEqual" then pure (.bool (!(← liftM (equalsV 64 a b))))
          else liftM (binaryOp tok a b)
      | .un tok x => do
          let a ← evalExpr fuel ctx x
          match tok with
          | "Not" => pure (.bool (← liftM (isFalsy a)))
          | "Sub" =>
            match a with
            | .int n => pure (.int (wrap64 (-n)))
            | .float f => pure (.float (-f))
            | _ => eRt s!"invalid operation: -{typeName a}"
          | "Xor" =>
            match a with
            | .int n => pure (.int (-n - 1))
            | _ => eRt s!"invalid operation: ^{typeName a}"
          | _ => pure a        -- unary plus: identity on every type
      | .cond c t f => do
          let cv ← evalExpr fuel ctx c
          if ← liftM (isFalsy cv) then evalExpr fuel ctx f else evalExpr fuel ctx t
      | .arr es => do
          let vs ← evalExprs fuel ctx es
          pure (.arr (← liftM (newArray vs)))
      | .map kvs => do
          let vs ← evalExprs fuel ctx (kvs.map Prod.snd)
          pure (.map (← liftM (newMap ((kvs.map Prod.fst).zip vs))))
      | .sel x s => do
          let a ← evalExpr fuel ctx x
          let i ← evalExpr fuel ctx s
          indexGet a i
      | .idx x i => do
          let a ← evalExpr fuel ctx x
          let iv ← evalExpr fuel ctx i
          indexGet a iv
      | .slice x lo hi => do
          let a ← evalExpr fuel ctx x
          let l ← match lo with | some l => evalExpr fuel ctx l | none => pure .undef
          let h ← match hi with | some h => evalExpr fuel ctx h | none => pure .undef
          sliceV a l h
      | .error x => do
          let v ← evalExpr fuel ctx x
          pure (.err (← liftM (alloc (.err v))))
      | .immutable x => do
          let v ← evalExpr fuel ctx x
          match v with
          | .arr r => do
              -- wraps the existing storage: a new immutable header over the same store
              match ← liftM (getObj r) with
              | .arr st off len => do
                  match ← liftM (getObj st) with
                  | .store vs h => liftM (setObj st (.store vs (h + 1)))
                  | _ => eUnsup "bad store"
                  pure (.imarr (← liftM (alloc (.arr st off len))))
              | _ => eUnsup "bad array"
          | .map r => pure (.immap r)     -- shares the map storage with the mutable value
          | v => pure v
      | .func va ps body => do
          pure (.fn (← liftM (alloc (.clos { params := ps, varargs := va, body := body, env := ctx.env }))))
      | .call ell f args => do
          let fv ← evalExpr fuel ctx f
          let avs ← evalExprs fuel ctx args
          -- callable check comes before spreading
          match fv with
          | .fn _ | .builtin _ => pure ()
          | _ => eRt s!"not callable: {typeName fv}"
          let avs ← if ell then
              match avs.reverse with
              | last :: initRev =>
                match last with
                | .arr r | .imarr r => do pure (initRev.reverse ++ (← liftM (arrElems r)))
                | x => eRt s!"not an array: {typeName x}"
              | [] => pure avs
            else pure avs
          match fv with
          | .builtin n => callBuiltin n avs
          | .fn r => do
              match ← liftM (getObj r) with
              | .clos c => callClosure fuel ctx c avs
              | _ => eUnsup "bad closure"
          | _ => eRt s!"not callable: {typeName fv}"
      | .imp _ => eUnsup "import"
      | .bad => eUnsup "bad expression"
  def evalExprs : Nat → Ctx → List Expr → EM (List Value)
    | 0, _, _ => liftM (throw Err.fuel)
    | _ + 1, _, [] => pure []
    | fuel + 1, ctx, e :: es => do
        let v ← evalExpr fuel ctx e
        let vs ← evalExprs fuel ctx es
        pure (v :: vs)
  def callClosure : Nat → Ctx → Closure → List Value → EM Value
    | 0, _, _, _ => liftM (throw Err.fuel)
    | fuel + 1, ctx, c, args => do
        let np := c.params.length
        let args ← if c.varargs then
            (if args.length + 1 ≥ np then do
              let real := np - 1
              let rest ← liftM (newArray (args.drop real))
              pure (args.take real ++ [.arr rest])
            else pure args)
          else pure args
        if args.length != np then
          if c.varargs then eRt s!"wrong number of arguments: want>={np - 1}, got={args.length}"
          else eRt s!"wrong number of arguments: want={np}, got={args.length}"
        if ctx.callDepth ≥ 900 then liftM (throw (Err.excluded "call depth near the frame limit"))
        let mut frame : Frame := { vars := [], isFn := true }
        for (p, a) in c.params.zip args do
          let r ← liftM (alloc (.cell a false))
          frame := { frame with vars := (p, r) :: frame.vars.filter (fun q => q.1 != p) }
        let ctx' : Ctx := { env := frame :: c.env, callDepth := ctx.callDepth + 1, path := [] }
        match ← execBlock fuel ctx' c.body 0 with
        | .ret v => pure v
        | _ => pure .undef
  /-- A `BlockStmt`: its own scope (none when empty). `tag` distinguishes sibling blocks of one
  statement for global-level declaration sites. -/
  def execBlock : Nat → Ctx → List Stmt → Nat → EM Flow
    | 0, _, _, _ => liftM (throw Err.fuel)
    | _ + 1, _, [], _ => pure .normal
    | fuel + 1, ctx, ss, tag => do
        let ctx' := { ctx with env := { vars := [] } :: ctx.env, path := tag :: ctx.path }
        let (fl, _) ← execStmts fuel ctx' ss 0
        pure fl
  /-- Statements of one scope in sequence; declarations extend the environment of the rest. -/
  def execStmts : Nat → Ctx → List Stmt → Nat → EM (Flow × Env)
    | 0, _, _, _ => liftM (throw Err.fuel)
    | _ + 1, ctx, [], _ => pure (.normal, ctx.env)
    | fuel + 1, ctx, s :: rest, i => do
        let (fl, env') ← execStmt fuel { ctx with path := i :: ctx.path } s
        match fl with
        | .normal => execStmts fuel { ctx with env := env' } rest (i + 1)
        | f => pure (f, env')
  def assignTo : Nat → Ctx → String → Expr → Value → EM Env
    | 0, _, _, _, _ => liftM (throw Err.fuel)
    | fuel + 1, ctx, tok, lhs, v => do
        let (name, _) := lhsName lhs
        let sels := lhsSelectors lhs
        if sels.isEmpty then
          if tok == "Define" then declare ctx name v
          else do writeVar ctx.env name v; pure ctx.env
        else do
          -- selectors are evaluated from the last to the first, then the base variable is read
          let svsRev ← evalExprs fuel ctx sels.reverse
          let base ← readVar ctx.env name
          indexAssign base v svsRev.reverse
          pure ctx.env
  def execStmt : Nat → Ctx → Stmt → EM (Flow × Env)
    | 0, _, _ => liftM (throw Err.fuel)
    | fuel + 1, ctx, s =>
      match s with
      | .expr e => do let _ ← evalExpr fuel ctx e; pure (.normal, ctx.env)
      | .empty => pure (.normal, ctx.env)
      | .assign tok lhs rhs =>
        match lhs, rhs with
        | [l], [r] => do
            let isFunc := match r with | .func .. => true | _ => false
            if tok == "Define" && isFunc then
              -- the name is visible inside the function literal (recursion)
              let (name, _) := lhsName l
              let env1 ← declare ctx name .undef
              let v ← evalExpr fuel { ctx with env := env1 } r
              writeVar env1 name v
              pure (.normal, env1)
            else if tok == "Define" || tok == "Assign" then do
              let v ← evalExpr fuel ctx r
              let env' ← assignTo fuel ctx tok l v
              pure (.normal, env')
            else do
              let op := (tok.dropEnd 6).toString      -- "AddAssign" ↦ "Add"
              let cur ← evalExpr fuel ctx l
              let rv ← evalExpr fuel ctx r
              let v ← liftM (binaryOp op cur rv)
              let env' ← assignTo fuel ctx "Assign" l v
              pure (.normal, env')
        | _, _ => eUnsup "assignment shape"
      | .incdec tok e => do
          let cur ← evalExpr fuel ctx e
          let v ← liftM (binaryOp (if tok == "Inc" then "Add" else "Sub") cur (.int 1))
          let env' ← assignTo fuel ctx "Assign" e v
          pure (.normal, env')
      | .block ss => do let fl ← execBlock fuel ctx ss 0; pure (fl, ctx.env)
      | .ifs ini c body els => do
          let ctx1 := { ctx with env := { vars := [] } :: ctx.env }
          let env2 ← match ini with
            | some st => do let (_, e) ← execStmt fuel ctx1 st; pure e
            | none => pure ctx1.env
          let ctx2 := { ctx1 with env := env2 }
          let cv ← evalExpr fuel ctx2 c
          if !(← liftM (isFalsy cv)) then do
            let fl ← execBlock fuel ctx2 body 1
            pure (fl, ctx.env)
          else match els with
            | some st => do
                let (fl, _) ← execStmt fuel { ctx2 with path := 2 :: ctx2.path } st
                pure (fl, ctx.env)
            | none => pure (.normal, ctx.env)
      | .fors ini c post body => do
          let ctx1 := { ctx with env := { vars := [] } :: ctx.env }
          let env2 ← match ini with
            | some st => do let (_, e) ← execStmt fuel ctx1 st; pure e
            | none => pure ctx1.env
          let fl ← loopFor fuel { ctx1 with env := env2 } c post body
          pure (fl, ctx.env)
      | .forin k v it body => do
          let ctx1 := { ctx with env := { vars := [] } :: ctx.env }
          let itv ← evalExpr fuel ctx1 it
          let items : List (Value × Value) ← match itv with
            | .arr r | .imarr r => do
                let es ← liftM (arrElems r)
                pure (es.zipIdx.map (fun (x, i) => (Value.int i, x)))
            | .map r | .immap r => do
                let kvs ← liftM (mapEntries r)
                if kvs.length > 1 && false then pure [] else pure (kvs.map (fun (kk, x) => (Value.str kk, x)))
            | .str b => pure ((runes b).zipIdx.map (fun (x, i) => (Value.int i, Value.char x)))
            | .bytes b => pure (b.zipIdx.map (fun (x, i) => (Value.int i, Value.int x.toNat)))
            | .undef => pure []
            | x => eRt s!"not iterable: {typeName x}"
          let live : Option (Nat × Nat) ← match itv with
            | .arr r => do
                match ← liftM (getObj r) with
                | .arr st _ _ => pure (some (r, st))
                | _ => pure none
            | _ => pure none
          let fl ← loopForIn fuel ctx1 k v items live 0 body
          pure (fl, ctx.env)
      | .branch tok => pure (if tok == "Break" then .brk else .cont, ctx.env)
      | .ret e => do
          match e with
          | some e => do let v ← evalExpr fuel ctx e; pure (.ret v, ctx.env)
          | none => pure (.ret .undef, ctx.env)
      | .export _ => pure (.normal, ctx.env)     -- ignored in the main program
      | .bad => eUnsup "bad statement"
  def loopFor : Nat → Ctx → Option Expr → Option Stmt → List Stmt → EM Flow
    | 0, _, _, _, _ => liftM (throw Err.fuel)
    | fuel + 1, ctx, c, post, body => do
        let go ← match c with
          | some c => do let cv ← evalExpr fuel ctx c; pure (!(← liftM (isFalsy cv)))
          | none => pure true
        if !go then pure .normal
        else do
          match ← execBlock fuel ctx body 1 with
          | .brk => pure .normal
          | .ret v => pure (.ret v)
          | _ => do
              match post with
              | some p => do let _ ← execStmt fuel { ctx with path := 3 :: ctx.path } p; pure ()
              | none => pure ()
              loopFor fuel ctx c post body
  /-- for-in: arrays are iterated through the live array (element writes during the loop are seen,
  length is fixed at the start); other iterables through the snapshot. -/
  def loopForIn : Nat → Ctx → String → String → List (Value × Value) → Option (Nat × Nat) → Nat → List Stmt → EM Flow
    | 0, _, _, _, _, _, _, _ => liftM (throw Err.fuel)
    | _ + 1, _, _, _, [], _, _, _ => pure .normal
    | fuel + 1, ctx, k, v, (kv, vv) :: rest, live, i, body => do
        let vv ← match live with
          | some (r, st0) => do
              let es ← liftM (arrElems r)
              -- the iterator holds the slice it started with: if the array was restructured meanwhile
              -- (splice: another length, or another store of the same length), what it sees depends on
              -- hidden capacity
              let sameStore ← match ← liftM (getObj r) with
                | .arr st _ _ => pure (st == st0)
                | _ => pure false
              if es.length != rest.length + 1 + i || !sameStore then
                liftM (throw (Err.excluded "array restructured during for-in over it (hidden capacity)"))
              pure (es.getD i vv)
          | none => pure vv
        let env1 ← if k != "_" then declare { ctx with path := 4 :: ctx.path } k kv 1 else pure ctx.env
        let env2 ← if v != "_" then declare { ctx with env := env1, path := 4 :: ctx.path } v vv 2 else pure env1
        match ← execBlock fuel { ctx with env := env2 } body 1 with
        | .brk => pure .normal
        | .ret x => pure (.ret x)
        | _ => loopForIn fuel ctx k v rest live (i + 1) body
end

/-! ### whole programs -/

inductive Outcome where
  | ok (globals : List (String × Value)) (st : St)
  | compileErr (msg : String)
  | runtimeErr (msg : String)
  | goPanic (msg : String)
  | unsupported (why : String)
  | excluded (why : String)
  | fuel

/-- Run a main program: `inputs` are the pre-declared globals with their values. -/
def runProgram (fuel : Nat) (inputs : List (String × Value)) (initHeap : St) (ss : List Stmt) : Outcome :=
  match checkProgram (inputs.map Prod.fst) ss with
  | some msg => if msg.startsWith "unsupported" then .unsupported msg else .compileErr msg
  | none =>
    let prog : EM (List (String × Value)) := do
      let mut frame : Frame := { vars := [] }
      for (n, v) in inputs do
        let r ← liftM (alloc (.cell v false))
        frame := { frame with vars := (n, r) :: frame.vars }
      let ctx : Ctx := { env := [frame] }
      let (_, env) ← execStmts fuel ctx ss 0
      -- observable globals: every name bound in the outermost scope
      match env.getLast? with
      | some f =>
        f.vars.reverse.mapM (fun (n, r) => do
          match ← liftM (getObj r) with
          | .cell v _ => pure (n, v)
          | _ => pure (n, Value.undef))
      | none => pure []
    match (prog.run {}).run initHeap with
    | .ok ((gs, _), st) => .ok gs st
    | .error (.runtime m) => .runtimeErr m
    | .error (.gopanic m) => .goPanic m
    | .error (.unsupported w) => .unsupported w
    | .error (.excluded w) => .excluded w
    | .error .fuel => .fuel

end Tengo.Model.Spec

import Tengo.Model.SpecAst
/-!
Static rules of the reference semantics (what the language definition rejects before running):
unresolved and redeclared names, `:=` with a selector, tuple assignment, break/continue outside a
loop, return outside a function, export inside a function. The traversal order follows the order in
which the compiler meets the constructs, so the FIRST error is the reported one. Core Lean only.
-/
namespace Tengo.Model.Spec

/-- One symbol table: names defined in it, whether it is a block (as opposed to a function scope). -/
structure Tab where
  names : List String
  block : Bool

structure CSt where
  tabs      : List Tab        -- innermost first; the last one is the root (builtins + globals)
  loops     : Nat := 0        -- loops enclosing the current position within the current function
  loopStack : List Nat := []  -- saved loop counts of enclosing functions
  isModule  : Bool := false
  inputs    : List String := []
  shadowed  : List String := []   -- builtin names re-declared at top level

abbrev CM := StateT CSt (Except String)

def builtinNames : List String :=
  ["len", "copy", "append", "delete", "splice", "string", "int", "bool", "float", "char", "bytes", "time",
   "is_int", "is_float", "is_string", "is_bool", "is_char", "is_bytes", "is_array", "is_immutable_array",
   "is_map", "is_immutable_map", "is_iterable", "is_time", "is_error", "is_undefined", "is_function",
   "is_callable", "type_name", "format", "range", "freeze"]

def cerr {α} (msg : String) : CM α := throw msg

def pushTab (block : Bool) : CM Unit := modify fun s => { s with tabs := { names := [], block := block } :: s.tabs }
def popTab : CM Unit := modify fun s => { s with tabs := s.tabs.drop 1 }

def define (n : String) : CM Unit := modify fun s =>
  match s.tabs with
  | t :: rest => { s with tabs := { t with names := n :: t.names } :: rest }
  | [] => s

/-- (exists, depth) as `SymbolTable.Resolve` reports them. -/
def resolve (n : String) : CM (Option Nat) := do
  let s ← get
  let rec go : List Tab → Nat → Option Nat
    | [], _ => none
    | t :: rest, d => if t.names.contains n then some d else go rest (d + 1)
  pure (go s.tabs 0)

/-- Inside a function (i.e. some enclosing table is a function scope)? -/
def inFunction : CM Bool := do
  let s ← get
  pure (s.tabs.any (fun t => !t.block) && s.tabs.length > 1 && (s.tabs.dropLast.any (fun t => !t.block)))

def lhsName : Expr → String × Nat
  | .sel e _ => let (n, k) := lhsName e; (n, k + 1)
  | .idx e _ => let (n, k) := lhsName e; (n, k + 1)
  | .ident n => (n, 0)
  | _ => ("", 0)

def lhsSelectors : Expr → List Expr
  | .sel e s => lhsSelectors e ++ [s]
  | .idx e i => lhsSelectors e ++ [i]
  | _ => []

def binaryToks : List String :=
  ["Add", "Sub", "Mul", "Quo", "Rem", "Greater", "GreaterEq", "Less", "LessEq", "Equal", "NotEqual", "And", "Or",
   "Xor", "AndNot", "Shl", "Shr", "LAnd", "LOr"]

mutual
  def checkExpr : Nat → Expr → CM Unit
    | 0, _ => cerr "too deep"
    | d + 1, e =>
      match e with
      | .ident n => do
          match ← resolve n with
          | some _ => pure ()
          | none => cerr s!"unresolved reference '{n}'"
      | .int _ | .float _ | .char _ | .str _ | .bool _ | .undef => pure ()
      | .bin tok l r => do
          checkExpr d l; checkExpr d r
          if binaryToks.contains tok then pure () else cerr s!"invalid binary operator: {tok}"
      | .un tok x => do
          checkExpr d x
          if ["Not", "Sub", "Xor", "Add"].contains tok then pure () else cerr s!"invalid unary operator: {tok}"
      | .cond c t f => do checkExpr d c; checkExpr d t; checkExpr d f
      | .paren x => checkExpr d x
      | .arr es => checkExprs d es
      | .map kvs => checkExprs d (kvs.map Prod.snd)
      | .sel x s => do checkExpr d x; checkExpr d s
      | .idx x i => do checkExpr d x; checkExpr d i
      | .slice x lo hi => do
          checkExpr d x
          match lo with | some l => checkExpr d l | none => pure ()
          match hi with | some h => checkExpr d h | none => pure ()
      | .call _ f args => do checkExpr d f; checkExprs d args
      | .func _ ps body => do
          let s ← get
          set { s with tabs := { names := [], block := false } :: s.tabs, loops := 0, loopStack := s.loops :: s.loopStack }
          ps.forM define
          checkBlock d body
          let s' ← get
          set { s' with tabs := s'.tabs.drop 1, loops := s.loops, loopStack := s.loopStack }
      | .imp _ => cerr "unsupported: import"
      | .error x => checkExpr d x
      | .immutable x => checkExpr d x
      | .bad => cerr "unsupported: bad expression"
  def checkExprs : Nat → List Expr → CM Unit
    | 0, _ => cerr "too deep"
    | _ + 1, [] => pure ()
    | d + 1, e :: es => do checkExpr d e; checkExprs d es
  /-- A `BlockStmt`: no table at all when empty. -/
  def checkBlock : Nat → List Stmt → CM Unit
    | 0, _ => cerr "too deep"
    | _ + 1, [] => pure ()
    | d + 1, ss => do pushTab true; checkStmts d ss; popTab
  def checkStmts : Nat → List Stmt → CM Unit
    | 0, _ => cerr "too deep"
    | _ + 1, [] => pure ()
    | d + 1, s :: ss => do checkStmt d s; checkStmts d ss
  def checkOptStmt : Nat → Option Stmt → CM Unit
    | 0, _ => cerr "too deep"
    | _ + 1, none => pure ()
    | d + 1, some s => checkStmt d s
  def checkAssign : Nat → String → List Expr → List Expr → CM Unit
    | 0, _, _, _ => cerr "too deep"
    | d + 1, tok, lhs, rhs => do
      if lhs.length > 1 || rhs.length > 1 then cerr "tuple assignment not allowed"
      match lhs, rhs with
      | [l], [r] =>
        let (name, nsel) := lhsName l
        if tok == "Define" && nsel > 0 then cerr "operator ':=' not allowed with selector"
        let isFunc := match r with | .func .. => true | _ => false
        let res ← resolve name
        -- at top level a builtin function lives in the root table without being declared there: it may be
        -- shadowed by `:=` as in any other scope (repaired O26)
        let st0 ← get
        let stillBuiltin := builtinNames.contains name && !st0.inputs.contains name && !st0.shadowed.contains name
        let shadowsBuiltin := tok == "Define" && st0.tabs.length == 1 && stillBuiltin
        if shadowsBuiltin then modify fun s => { s with shadowed := name :: s.shadowed }
        if tok == "Define" then
          if res == some 0 && !shadowsBuiltin then cerr s!"'{name}' redeclared in this block"
          if isFunc then define name
        else
          if res.isNone then cerr s!"unresolved reference '{name}'"
        if tok != "Assign" && tok != "Define" then checkExpr d l
        checkExpr d r
        if tok == "Define" && !isFunc then define name
        checkExprs d (lhsSelectors l).reverse
        if tok != "Define" && stillBuiltin then
          -- assignment to a name that still denotes the builtin function (found in the root table)
          match ← resolve name with
          | some k => if k + 1 == (← get).tabs.length then cerr "invalid assignment variable scope: BUILTIN" else pure ()
          | none => pure ()
      | _, _ => cerr "unsupported: assignment shape"
  def checkStmt : Nat → Stmt → CM Unit
    | 0, _ => cerr "too deep"
    | d + 1, s =>
      match s with
      | .expr e => checkExpr d e
      | .assign tok lhs rhs => checkAssign d tok lhs rhs
      | .incdec _ e => checkAssign d "AddAssign" [e] [.int 1]
      | .ifs ini c body els => do
          pushTab true
          checkOptStmt d ini
          checkExpr d c
          checkBlock d body
          checkOptStmt d els
          popTab
      | .fors ini c post body => do
          pushTab true
          checkOptStmt d ini
          match c with | some c => checkExpr d c | none => pure ()
          modify fun s => { s with loops := s.loops + 1 }
          checkBlock d body
          modify fun s => { s with loops := s.loops - 1 }
          checkOptStmt d post
          popTab
      | .forin k v it body => do
          pushTab true
          define ":it"
          checkExpr d it
          modify fun s => { s with loops := s.loops + 1 }
          if k != "_" then define k
          if v != "_" then define v
          checkBlock d body
          modify fun s => { s with loops := s.loops - 1 }
          popTab
      | .block ss => checkBlock d ss
      | .branch tok => do
          if (← get).loops == 0 then
            cerr (if tok == "Break" then "break not allowed outside loop" else "continue not allowed outside loop")
      | .ret e => do
          -- "outside function": no function scope between here and the root
          let s ← get
          if s.loopStack.isEmpty && !s.isModule then cerr "return not allowed outside function"
          match e with | some e => checkExpr d e | none => pure ()
      | .export _ => do
          let s ← get
          if !s.loopStack.isEmpty then cerr "export not allowed inside function"
          -- main program: export is ignored and its expression is not compiled
      | .empty => pure ()
      | .bad => cerr "unsupported: bad statement"
end

/-- Static check of a main program with pre-declared input names. `none` = accepted. -/
def checkProgram (inputs : List String) (ss : List Stmt) : Option String :=
  let st : CSt := { tabs := [{ names := inputs ++ builtinNames, block := false }], inputs := inputs }
  match (checkStmts 4000 ss).run st with
  | .ok _ => none
  | .error e => some e

end Tengo.Model.Spec

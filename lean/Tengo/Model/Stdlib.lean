/-
C19 — model of the standard-library adapter family `stdlib.FuncAxxRyy` (stdlib/func_typedefs.go) and of
the argument coercions `tengo.ToString/ToInt/ToInt64/ToFloat64/ToByteSlice` (tengo.go) they use.
Core Lean only. External text/float functions (`strconv.ParseFloat`, `strconv.FormatFloat`, the
`String()` text of compound values) are parameters (`Oracle`, `shown` fields): nothing is assumed of them.
Platform fact: Go `int` is 64 bit (so `ToInt` = `ToInt64`), `int64(float64)` follows amd64 CVTTSD2SI.
-/
namespace Tengo.Model.Stdlib

abbrev Bytes := List UInt8

def ascii (s : String) : Bytes := s.toList.map (fun c => UInt8.ofNat c.toNat)

/-- Run-time values an adapter can be handed. `shown` is the `String()` text of a compound value. -/
inductive Value where
  | int (v : Int)
  | float (bits : Nat)
  | str (s : Bytes)
  | bool (b : Bool)
  | char (c : Int)
  | bytes (b : Bytes)
  | undef
  | arr (immutable : Bool) (xs : List Value) (shown : Bytes)
  | other (typeName : String) (shown : Bytes)     -- map, immutable-map, time, error, functions, …

def typeName : Value → String
  | .int _ => "int" | .float _ => "float" | .str _ => "string" | .bool _ => "bool" | .char _ => "char"
  | .bytes _ => "bytes" | .undef => "undefined"
  | .arr imm _ _ => if imm then "immutable-array" else "array"
  | .other tn _ => tn

structure Oracle where
  /-- `strconv.ParseFloat(s, 64)`: bits, or `none` on error -/
  parseFloat : Bytes → Option Nat
  /-- `strconv.FormatFloat(f, 'f', -1, 64)` by bit pattern -/
  formatFloat : Nat → Bytes

structure Limits where
  maxString : Nat
  maxBytes : Nat

/-! ### Scalar conversions written out -/

def minInt64 : Int := -9223372036854775808

/-- `int64(f)` on amd64 (truncation; NaN, ±Inf and out-of-range give 0x8000000000000000). -/
def f2i (bits : Nat) : Int :=
  let neg := bits / 2 ^ 63 % 2 == 1
  let e := bits / 2 ^ 52 % 2048
  let m := bits % 2 ^ 52
  if e == 2047 then minInt64
  else if e < 1023 then 0
  else
    let ex := e - 1023
    if ex ≥ 63 then minInt64
    else
      let mag : Nat := if ex ≥ 52 then (2 ^ 52 + m) * 2 ^ (ex - 52) else (2 ^ 52 + m) / 2 ^ (52 - ex)
      if neg then -(mag : Int) else (mag : Int)

/-- `float64(i)`: round to nearest, ties to even. -/
def i2f (v : Int) : Nat :=
  if v == 0 then 0
  else
    let sign := if v < 0 then 2 ^ 63 else 0
    let mag := v.natAbs
    let n := Nat.log2 mag + 1
    if n ≤ 53 then sign + (n - 1 + 1023) * 2 ^ 52 + (mag * 2 ^ (53 - n) - 2 ^ 52)
    else
      let sh := n - 53
      let q := mag / 2 ^ sh
      let r := mag % 2 ^ sh
      let half := 2 ^ (sh - 1)
      let q' := if r > half || (r == half && q % 2 == 1) then q + 1 else q
      if q' == 2 ^ 53 then sign + (n + 1023) * 2 ^ 52
      else sign + (n - 1 + 1023) * 2 ^ 52 + (q' - 2 ^ 52)

def digitsVal : Bytes → Nat → Option Nat
  | [], acc => some acc
  | d :: ds, acc => if 48 ≤ d.toNat ∧ d.toNat ≤ 57 then digitsVal ds (acc * 10 + (d.toNat - 48)) else none

/-- `strconv.ParseInt(s, 10, 64)`: value, or `none` on syntax / range error. -/
def parseInt10 (s : Bytes) : Option Int :=
  let (neg, ds) : Bool × Bytes := match s with
    | 43 :: r => (false, r)
    | 45 :: r => (true, r)
    | _ => (false, s)
  if ds.isEmpty then none
  else match digitsVal ds 0 with
    | none => none
    | some n =>
      if neg then (if n ≤ 2 ^ 63 then some (-(n : Int)) else none)
      else (if n < 2 ^ 63 then some (n : Int) else none)

def decimal (v : Int) : Bytes := ascii (toString v)

/-- `string(rune)`: UTF-8, invalid code points give U+FFFD. -/
def utf8 (c : Int) : Bytes :=
  if c < 0 ∨ c > 0x10FFFF ∨ (0xD800 ≤ c ∧ c ≤ 0xDFFF) then [0xEF, 0xBF, 0xBD]
  else
    let n := c.toNat
    let b (x : Nat) : UInt8 := UInt8.ofNat x
    if n < 0x80 then [b n]
    else if n < 0x800 then [b (0xC0 + n / 64), b (0x80 + n % 64)]
    else if n < 0x10000 then [b (0xE0 + n / 4096), b (0x80 + n / 64 % 64), b (0x80 + n % 64)]
    else [b (0xF0 + n / 262144), b (0x80 + n / 4096 % 64), b (0x80 + n / 64 % 64), b (0x80 + n % 64)]

/-! ### The coercions (tengo.go) -/

/-- `tengo.ToString`: fails on undefined only; strings as they are; everything else by `String()`. -/
def toStr (O : Oracle) : Value → Option Bytes
  | .undef => none
  | .str s => some s
  | .int v => some (decimal v)
  | .float b => some (O.formatFloat b)
  | .bool b => some (ascii (if b then "true" else "false"))
  | .char c => some (utf8 c)
  | .bytes y => some y
  | .arr _ _ shown => some shown
  | .other _ shown => some shown

/-- `tengo.ToInt64` -/
def toInt64 : Value → Option Int
  | .int v => some v
  | .float b => some (f2i b)
  | .char c => some c
  | .bool b => some (if b then 1 else 0)
  | .str s => parseInt10 s
  | _ => none

/-- `tengo.ToInt` (Go `int` is 64 bit on the platform) -/
def toInt (v : Value) : Option Int := toInt64 v

/-- `tengo.ToFloat64` -/
def toFloat (O : Oracle) : Value → Option Nat
  | .int v => some (i2f v)
  | .float b => some b
  | .str s => O.parseFloat s
  | _ => none

/-- `tengo.ToByteSlice` -/
def toBytes : Value → Option Bytes
  | .bytes y => some y
  | .str s => some s
  | _ => none

/-! ### What the wrapped Go function sees and returns -/

inductive Arg where
  | i (v : Int) | f (bits : Nat) | s (x : Bytes) | y (x : Bytes) | ss (xs : List Bytes)
  deriving DecidableEq, Repr

/-- Result of the wrapped function. For `(T, error)` results: `err msg` when the error is non-nil. -/
inductive Res where
  | unit | i (v : Int) | f (bits : Nat) | b (x : Bool) | s (x : Bytes) | y (x : Bytes)
  | ss (xs : List Bytes) | is (xs : List Int) | err (msg : Bytes)
  deriving DecidableEq, Repr

inductive RunErr where
  | wrongNumArgs
  | invalidArg (name expected found : String)
  | stringLimit
  | bytesLimit
  | illTyped          -- the wrapped function answered outside its Go result type (cannot happen in Go)
  deriving DecidableEq, Repr

inductive RetVal where
  | undef | int (v : Int) | float (bits : Nat) | bool (b : Bool) | str (s : Bytes) | bytes (b : Bytes)
  | strs (xs : List Bytes) | ints (xs : List Int) | error (msg : Bytes)
  deriving DecidableEq, Repr

/-- What the `CallableFunc` returns: `(nil, err)` or `(value, nil)`. -/
inductive Out where
  | runErr (e : RunErr)
  | val (v : RetVal)
  deriving DecidableEq, Repr

inductive ArgKind where | I | I64 | F | S | Y | Ss
  deriving DecidableEq, Repr

inductive ResKind where
  | none | I | I64 | F | B | S | Ss | Is | E | SE | YE | IE | IsE | SsE
  deriving DecidableEq, Repr

inductive AdapterKind where
  | AR | ARI | ARI64 | AI64RI64 | AI64R | ARB | ARE | ARS | ARSE | ARYE | ARF | ARSs | ARIsE | AIRIs
  | AFRF | AIR | AIRF | AFRI | AFFRF | AIFRF | AFIRF | AFIRB | AFRB | ASRS | ASRSs | ASRSE | ASRE
  | ASSRE | ASSRSs | ASSIRSs | ASSRI | ASSRS | ASSRB | ASsSRS | ASI64RE | AIIRE | ASIRS | ASIIRE
  | AYRIE | AYRS | ASRIE | ASRYE | AIRSsE | AIRS
  deriving DecidableEq, Repr

open AdapterKind ArgKind in
/-- Argument and result kinds, read off the adapter's name. -/
def sig : AdapterKind → List ArgKind × ResKind
  | AR => ([], .none) | ARI => ([], .I) | ARI64 => ([], .I64) | AI64RI64 => ([I64], .I64)
  | AI64R => ([I64], .none) | ARB => ([], .B) | ARE => ([], .E) | ARS => ([], .S) | ARSE => ([], .SE)
  | ARYE => ([], .YE) | ARF => ([], .F) | ARSs => ([], .Ss) | ARIsE => ([], .IsE) | AIRIs => ([I], .Is)
  | AFRF => ([F], .F) | AIR => ([I], .none) | AIRF => ([I], .F) | AFRI => ([F], .I)
  | AFFRF => ([F, F], .F) | AIFRF => ([I, F], .F) | AFIRF => ([F, I], .F) | AFIRB => ([F, I], .B)
  | AFRB => ([F], .B) | ASRS => ([S], .S) | ASRSs => ([S], .Ss) | ASRSE => ([S], .SE) | ASRE => ([S], .E)
  | ASSRE => ([S, S], .E) | ASSRSs => ([S, S], .Ss) | ASSIRSs => ([S, S, I], .Ss) | ASSRI => ([S, S], .I)
  | ASSRS => ([S, S], .S) | ASSRB => ([S, S], .B) | ASsSRS => ([Ss, S], .S) | ASI64RE => ([S, I64], .E)
  | AIIRE => ([I, I], .E) | ASIRS => ([S, I], .S) | ASIIRE => ([S, I, I], .E) | AYRIE => ([Y], .IE)
  | AYRS => ([Y], .S) | ASRIE => ([S], .IE) | ASRYE => ([S], .YE) | AIRSsE => ([I], .SsE) | AIRS => ([I], .S)

def arity (k : AdapterKind) : Nat := (sig k).1.length

/-- `FuncAYRS` is the one string-returning adapter without a `MaxStringLen` test. -/
def limited : AdapterKind → Bool
  | .AYRS => false
  | _ => true

/-! ### Result wrapping (the tails of the adapters) -/

def ill : Out := .runErr .illTyped
def retUndef (_ : Res) : Out := .val .undef
def retInt : Res → Out | .i v => .val (.int v) | _ => ill
def retFloat : Res → Out | .f b => .val (.float b) | _ => ill
def retBool : Res → Out | .b x => .val (.bool x) | _ => ill
/-- `if len(s) > tengo.MaxStringLen { return nil, ErrStringLimit }; return &String{s}` -/
def retStr (L : Limits) : Res → Out
  | .s x => if x.length > L.maxString then .runErr .stringLimit else .val (.str x)
  | _ => ill
def retStrNoLimit : Res → Out | .s x => .val (.str x) | _ => ill
def retStrs (L : Limits) : Res → Out
  | .ss xs => if xs.any (fun x => x.length > L.maxString) then .runErr .stringLimit else .val (.strs xs)
  | _ => ill
def retInts : Res → Out | .is xs => .val (.ints xs) | _ => ill
/-- `wrapError`: nil ↦ true, otherwise an error value holding `err.Error()` -/
def retErr : Res → Out
  | .unit => .val (.bool true)
  | .err m => .val (.error m)
  | _ => ill
def orErr (f : Res → Out) : Res → Out
  | .err m => .val (.error m)
  | r => f r
def retBytes (L : Limits) : Res → Out
  | .y x => if x.length > L.maxBytes then .runErr .bytesLimit else .val (.bytes x)
  | _ => ill

def wrapResult (k : AdapterKind) (L : Limits) (r : Res) : Out :=
  match (sig k).2 with
  | .none => retUndef r
  | .I => retInt r
  | .I64 => retInt r
  | .F => retFloat r
  | .B => retBool r
  | .S => if limited k then retStr L r else retStrNoLimit r
  | .Ss => retStrs L r
  | .Is => retInts r
  | .E => retErr r
  | .SE => orErr (retStr L) r
  | .YE => orErr (retBytes L) r
  | .IE => orErr retInt r
  | .IsE => orErr retInts r
  | .SsE => orErr (retStrs L) r

/-! ### Uniform description of the argument stage -/

def ordinals : List String := ["first", "second", "third", "fourth", "fifth", "sixth", "seventh", "eighth"]

/-- Name reported for argument `i`. `FuncASSRSs` calls its second argument "first". -/
def ordinalName (k : AdapterKind) (i : Nat) : String :=
  match k, i with
  | .ASSRSs, 1 => "first"
  | _, i => ordinals.getD i ""

/-- Index of the argument whose type name is reported for argument `i`. `FuncASSRI` reports the first
argument's type for its second argument. -/
def foundIdx (k : AdapterKind) (i : Nat) : Nat :=
  match k, i with
  | .ASSRI, 1 => 0
  | _, i => i

def expected : ArgKind → String
  | .I => "int(compatible)" | .I64 => "int(compatible)" | .F => "float(compatible)"
  | .S => "string(compatible)" | .Y => "bytes(compatible)" | .Ss => "array"

/-- Elements of an array argument through `ToString`, first failure reported as `first[idx]`. -/
def strsOf (O : Oracle) : List Value → Nat → Except RunErr (List Bytes)
  | [], _ => .ok []
  | a :: rest, idx =>
    match toStr O a with
    | none => .error (.invalidArg ("first[" ++ toString idx ++ "]") "string(compatible)" (typeName a))
    | some s =>
      match strsOf O rest (idx + 1) with
      | .error e => .error e
      | .ok ss => .ok (s :: ss)

/-- The conversion applied for each argument kind. -/
def convert (O : Oracle) : ArgKind → Value → Option Arg
  | .I, v => (toInt v).map .i
  | .I64, v => (toInt64 v).map .i
  | .F, v => (toFloat O v).map .f
  | .S, v => (toStr O v).map .s
  | .Y, v => (toBytes v).map .y
  | .Ss, _ => none

def coerceArg (O : Oracle) (k : AdapterKind) (args : List Value) (i : Nat) (a : ArgKind) (v : Value) :
    Except RunErr Arg :=
  match a, v with
  | .Ss, .arr _ xs _ =>
    match strsOf O xs 0 with
    | .error e => .error e
    | .ok ss => .ok (.ss ss)
  | a, v =>
    match convert O a v with
    | some x => .ok x
    | none => .error (.invalidArg (ordinalName k i) (expected a) (typeName (args.getD (foundIdx k i) .undef)))

def coerceFrom (O : Oracle) (k : AdapterKind) (args : List Value) : Nat → List ArgKind → List Value →
    Except RunErr (List Arg)
  | i, a :: as, v :: vs =>
    match coerceArg O k args i a v with
    | .error e => .error e
    | .ok x =>
      match coerceFrom O k args (i + 1) as vs with
      | .error e => .error e
      | .ok xs => .ok (x :: xs)
  | _, _, _ => .ok []

/-- Left to right, the first failing argument decides the error. -/
def coerceAll (O : Oracle) (k : AdapterKind) (args : List Value) : Except RunErr (List Arg) :=
  coerceFrom O k args 0 (sig k).1 args

/-- The specification of the whole family in one line. -/
def spec (O : Oracle) (L : Limits) (k : AdapterKind) (fn : List Arg → Res) (args : List Value) : Out :=
  if args.length ≠ arity k then .runErr .wrongNumArgs
  else match coerceAll O k args with
    | .error e => .runErr e
    | .ok xs => wrapResult k L (fn xs)

/-! ### The adapters, mirrored one by one from stdlib/func_typedefs.go -/

def wrongNum : Out := .runErr .wrongNumArgs
def bad (name expd : String) (found : Value) : Out := .runErr (.invalidArg name expd (typeName found))

open AdapterKind in
def adapter (O : Oracle) (L : Limits) (k : AdapterKind) (fn : List Arg → Res) (args : List Value) : Out :=
  match k with
  | AR => match args with
    | [] => retUndef (fn [])
    | _ => wrongNum
  | ARI => match args with
    | [] => retInt (fn [])
    | _ => wrongNum
  | ARI64 => match args with
    | [] => retInt (fn [])
    | _ => wrongNum
  | AI64RI64 => match args with
    | [a0] => match toInt64 a0 with
      | none => bad "first" "int(compatible)" a0
      | some i1 => retInt (fn [.i i1])
    | _ => wrongNum
  | AI64R => match args with
    | [a0] => match toInt64 a0 with
      | none => bad "first" "int(compatible)" a0
      | some i1 => retUndef (fn [.i i1])
    | _ => wrongNum
  | ARB => match args with
    | [] => retBool (fn [])
    | _ => wrongNum
  | ARE => match args with
    | [] => retErr (fn [])
    | _ => wrongNum
  | ARS => match args with
    | [] => retStr L (fn [])
    | _ => wrongNum
  | ARSE => match args with
    | [] => orErr (retStr L) (fn [])
    | _ => wrongNum
  | ARYE => match args with
    | [] => orErr (retBytes L) (fn [])
    | _ => wrongNum
  | ARF => match args with
    | [] => retFloat (fn [])
    | _ => wrongNum
  | ARSs => match args with
    | [] => retStrs L (fn [])
    | _ => wrongNum
  | ARIsE => match args with
    | [] => orErr retInts (fn [])
    | _ => wrongNum
  | AIRIs => match args with
    | [a0] => match toInt a0 with
      | none => bad "first" "int(compatible)" a0
      | some i1 => retInts (fn [.i i1])
    | _ => wrongNum
  | AFRF => match args with
    | [a0] => match toFloat O a0 with
      | none => bad "first" "float(compatible)" a0
      | some f1 => retFloat (fn [.f f1])
    | _ => wrongNum
  | AIR => match args with
    | [a0] => match toInt a0 with
      | none => bad "first" "int(compatible)" a0
      | some i1 => retUndef (fn [.i i1])
    | _ => wrongNum
  | AIRF => match args with
    | [a0] => match toInt a0 with
      | none => bad "first" "int(compatible)" a0
      | some i1 => retFloat (fn [.i i1])
    | _ => wrongNum
  | AFRI => match args with
    | [a0] => match toFloat O a0 with
      | none => bad "first" "float(compatible)" a0
      | some f1 => retInt (fn [.f f1])
    | _ => wrongNum
  | AFFRF => match args with
    | [a0, a1] => match toFloat O a0 with
      | none => bad "first" "float(compatible)" a0
      | some f1 => match toFloat O a1 with
        | none => bad "second" "float(compatible)" a1
        | some f2 => retFloat (fn [.f f1, .f f2])
    | _ => wrongNum
  | AIFRF => match args with
    | [a0, a1] => match toInt a0 with
      | none => bad "first" "int(compatible)" a0
      | some i1 => match toFloat O a1 with
        | none => bad "second" "float(compatible)" a1
        | some f2 => retFloat (fn [.i i1, .f f2])
    | _ => wrongNum
  | AFIRF => match args with
    | [a0, a1] => match toFloat O a0 with
      | none => bad "first" "float(compatible)" a0
      | some f1 => match toInt a1 with
        | none => bad "second" "int(compatible)" a1
        | some i2 => retFloat (fn [.f f1, .i i2])
    | _ => wrongNum
  | AFIRB => match args with
    | [a0, a1] => match toFloat O a0 with
      | none => bad "first" "float(compatible)" a0
      | some f1 => match toInt a1 with
        | none => bad "second" "int(compatible)" a1
        | some i2 => retBool (fn [.f f1, .i i2])
    | _ => wrongNum
  | AFRB => match args with
    | [a0] => match toFloat O a0 with
      | none => bad "first" "float(compatible)" a0
      | some f1 => retBool (fn [.f f1])
    | _ => wrongNum
  | ASRS => match args with
    | [a0] => match toStr O a0 with
      | none => bad "first" "string(compatible)" a0
      | some s1 => retStr L (fn [.s s1])
    | _ => wrongNum
  | ASRSs => match args with
    | [a0] => match toStr O a0 with
      | none => bad "first" "string(compatible)" a0
      | some s1 => retStrs L (fn [.s s1])
    | _ => wrongNum
  | ASRSE => match args with
    | [a0] => match toStr O a0 with
      | none => bad "first" "string(compatible)" a0
      | some s1 => orErr (retStr L) (fn [.s s1])
    | _ => wrongNum
  | ASRE => match args with
    | [a0] => match toStr O a0 with
      | none => bad "first" "string(compatible)" a0
      | some s1 => retErr (fn [.s s1])
    | _ => wrongNum
  | ASSRE => match args with
    | [a0, a1] => match toStr O a0 with
      | none => bad "first" "string(compatible)" a0
      | some s1 => match toStr O a1 with
        | none => bad "second" "string(compatible)" a1
        | some s2 => retErr (fn [.s s1, .s s2])
    | _ => wrongNum
  | ASSRSs => match args with
    | [a0, a1] => match toStr O a0 with
      | none => bad "first" "string(compatible)" a0
      | some s1 => match toStr O a1 with
        | none => bad "first" "string(compatible)" a1          -- sic: the source says "first"
        | some s2 => retStrs L (fn [.s s1, .s s2])
    | _ => wrongNum
  | ASSIRSs => match args with
    | [a0, a1, a2] => match toStr O a0 with
      | none => bad "first" "string(compatible)" a0
      | some s1 => match toStr O a1 with
        | none => bad "second" "string(compatible)" a1
        | some s2 => match toInt a2 with
          | none => bad "third" "int(compatible)" a2
          | some i3 => retStrs L (fn [.s s1, .s s2, .i i3])
    | _ => wrongNum
  | ASSRI => match args with
    | [a0, a1] => match toStr O a0 with
      | none => bad "first" "string(compatible)" a0
      | some s1 => match toStr O a1 with
        | none => bad "second" "string(compatible)" a0         -- sic: the source reports args[0]'s type
        | some s2 => retInt (fn [.s s1, .s s2])
    | _ => wrongNum
  | ASSRS => match args with
    | [a0, a1] => match toStr O a0 with
      | none => bad "first" "string(compatible)" a0
      | some s1 => match toStr O a1 with
        | none => bad "second" "string(compatible)" a1
        | some s2 => retStr L (fn [.s s1, .s s2])
    | _ => wrongNum
  | ASSRB => match args with
    | [a0, a1] => match toStr O a0 with
      | none => bad "first" "string(compatible)" a0
      | some s1 => match toStr O a1 with
        | none => bad "second" "string(compatible)" a1
        | some s2 => retBool (fn [.s s1, .s s2])
    | _ => wrongNum
  | ASsSRS => match args with
    | [a0, a1] =>
      match a0 with
      | .arr _ xs _ =>        -- the *Array and *ImmutableArray arms are the same code
        match strsOf O xs 0 with
        | .error e => .runErr e
        | .ok ss1 => match toStr O a1 with
          | none => bad "second" "string(compatible)" a1
          | some s2 => retStr L (fn [.ss ss1, .s s2])
      | _ => bad "first" "array" a0
    | _ => wrongNum
  | ASI64RE => match args with
    | [a0, a1] => match toStr O a0 with
      | none => bad "first" "string(compatible)" a0
      | some s1 => match toInt64 a1 with
        | none => bad "second" "int(compatible)" a1
        | some i2 => retErr (fn [.s s1, .i i2])
    | _ => wrongNum
  | AIIRE => match args with
    | [a0, a1] => match toInt a0 with
      | none => bad "first" "int(compatible)" a0
      | some i1 => match toInt a1 with
        | none => bad "second" "int(compatible)" a1
        | some i2 => retErr (fn [.i i1, .i i2])
    | _ => wrongNum
  | ASIRS => match args with
    | [a0, a1] => match toStr O a0 with
      | none => bad "first" "string(compatible)" a0
      | some s1 => match toInt a1 with
        | none => bad "second" "int(compatible)" a1
        | some i2 => retStr L (fn [.s s1, .i i2])
    | _ => wrongNum
  | ASIIRE => match args with
    | [a0, a1, a2] => match toStr O a0 with
      | none => bad "first" "string(compatible)" a0
      | some s1 => match toInt a1 with
        | none => bad "second" "int(compatible)" a1
        | some i2 => match toInt a2 with
          | none => bad "third" "int(compatible)" a2
          | some i3 => retErr (fn [.s s1, .i i2, .i i3])
    | _ => wrongNum
  | AYRIE => match args with
    | [a0] => match toBytes a0 with
      | none => bad "first" "bytes(compatible)" a0
      | some y1 => orErr retInt (fn [.y y1])
    | _ => wrongNum
  | AYRS => match args with
    | [a0] => match toBytes a0 with
      | none => bad "first" "bytes(compatible)" a0
      | some y1 => retStrNoLimit (fn [.y y1])                  -- no MaxStringLen test in the source
    | _ => wrongNum
  | ASRIE => match args with
    | [a0] => match toStr O a0 with
      | none => bad "first" "string(compatible)" a0
      | some s1 => orErr retInt (fn [.s s1])
    | _ => wrongNum
  | ASRYE => match args with
    | [a0] => match toStr O a0 with
      | none => bad "first" "string(compatible)" a0
      | some s1 => orErr (retBytes L) (fn [.s s1])
    | _ => wrongNum
  | AIRSsE => match args with
    | [a0] => match toInt a0 with
      | none => bad "first" "int(compatible)" a0
      | some i1 => orErr (retStrs L) (fn [.i i1])
    | _ => wrongNum
  | AIRS => match args with
    | [a0] => match toInt a0 with
      | none => bad "first" "int(compatible)" a0
      | some i1 => retStr L (fn [.i i1])
    | _ => wrongNum

/-! ### The adapter table as the extractor reads it from func_typedefs.go (static tie) -/

open AdapterKind in
def kindName : AdapterKind → String
  | AR => "AR" | ARI => "ARI" | ARI64 => "ARI64" | AI64RI64 => "AI64RI64" | AI64R => "AI64R" | ARB => "ARB"
  | ARE => "ARE" | ARS => "ARS" | ARSE => "ARSE" | ARYE => "ARYE" | ARF => "ARF" | ARSs => "ARSs"
  | ARIsE => "ARIsE" | AIRIs => "AIRIs" | AFRF => "AFRF" | AIR => "AIR" | AIRF => "AIRF" | AFRI => "AFRI"
  | AFFRF => "AFFRF" | AIFRF => "AIFRF" | AFIRF => "AFIRF" | AFIRB => "AFIRB" | AFRB => "AFRB"
  | ASRS => "ASRS" | ASRSs => "ASRSs" | ASRSE => "ASRSE" | ASRE => "ASRE" | ASSRE => "ASSRE"
  | ASSRSs => "ASSRSs" | ASSIRSs => "ASSIRSs" | ASSRI => "ASSRI" | ASSRS => "ASSRS" | ASSRB => "ASSRB"
  | ASsSRS => "ASsSRS" | ASI64RE => "ASI64RE" | AIIRE => "AIIRE" | ASIRS => "ASIRS" | ASIIRE => "ASIIRE"
  | AYRIE => "AYRIE" | AYRS => "AYRS" | ASRIE => "ASRIE" | ASRYE => "ASRYE" | AIRSsE => "AIRSsE" | AIRS => "AIRS"

open AdapterKind in
/-- All 44 adapters, by name. -/
def allKinds : List AdapterKind :=
  [AFFRF, AFIRB, AFIRF, AFRB, AFRF, AFRI, AI64R, AI64RI64, AIFRF, AIIRE, AIR, AIRF, AIRIs, AIRS, AIRSsE,
   AR, ARB, ARE, ARF, ARI, ARI64, ARIsE, ARS, ARSE, ARSs, ARYE, ASI64RE, ASIIRE, ASIRS, ASRE, ASRIE, ASRS,
   ASRSE, ASRSs, ASRYE, ASSIRSs, ASSRB, ASSRE, ASSRI, ASSRS, ASSRSs, ASsSRS, AYRIE, AYRS]


def goArgType : ArgKind → String
  | .I => "int" | .I64 => "int64" | .F => "float64" | .S => "string" | .Y => "[]byte" | .Ss => "[]string"

def goResTypes : ResKind → List String
  | .none => [] | .I => ["int"] | .I64 => ["int64"] | .F => ["float64"] | .B => ["bool"] | .S => ["string"]
  | .Ss => ["[]string"] | .Is => ["[]int"] | .E => ["error"] | .SE => ["string", "error"]
  | .YE => ["[]byte", "error"] | .IE => ["int", "error"] | .IsE => ["[]int", "error"] | .SsE => ["[]string", "error"]

def convName : ArgKind → String
  | .I => "ToInt" | .I64 => "ToInt64" | .F => "ToFloat64" | .S => "ToString" | .Y => "ToByteSlice" | .Ss => "ToString"

def idioms (k : AdapterKind) : List String :=
  match (sig k).2 with
  | .S => if limited k then ["ErrStringLimit", "MaxStringLen"] else []
  | .Ss => ["ErrStringLimit", "MaxStringLen"]
  | .SE => ["ErrStringLimit", "MaxStringLen", "wrapError"]
  | .SsE => ["ErrStringLimit", "MaxStringLen", "wrapError"]
  | .YE => ["ErrBytesLimit", "MaxBytesLen", "wrapError"]
  | .E => ["wrapError"] | .IE => ["wrapError"] | .IsE => ["wrapError"]
  | _ => []

def convRows : Nat → List ArgKind → List (String × String)
  | _, [] => []
  | i, .Ss :: as => [("ToString", "a"), ("ToString", "a")] ++ convRows (i + 1) as
  | i, a :: as => (convName a, "args[" ++ toString i ++ "]") :: convRows (i + 1) as

def errRows (k : AdapterKind) : Nat → List ArgKind → List (String × String × String)
  | _, [] => []
  | i, .Ss :: as =>
    [("fmt.Sprintf(\"first[%d]\", idx)", "string(compatible)", "a.TypeName()"),
     ("fmt.Sprintf(\"first[%d]\", idx)", "string(compatible)", "a.TypeName()"),
     (ordinalName k i, "array", "args[" ++ toString i ++ "].TypeName()")] ++ errRows k (i + 1) as
  | i, a :: as =>
    (ordinalName k i, expected a, "args[" ++ toString (foundIdx k i) ++ "].TypeName()") :: errRows k (i + 1) as

def funcName (k : AdapterKind) : String := "Func" ++ kindName k

def adapterTypes : List (String × List String × List String × Nat) :=
  allKinds.map (fun k => (funcName k, (sig k).1.map goArgType, goResTypes (sig k).2, arity k))
def adapterConvs : List (String × List (String × String)) :=
  allKinds.map (fun k => (funcName k, convRows 0 (sig k).1))
def adapterErrs : List (String × List (String × String × String)) :=
  allKinds.map (fun k => (funcName k, errRows k 0 (sig k).1))
def adapterIdioms : List (String × List String) :=
  allKinds.map (fun k => (funcName k, idioms k))

end Tengo.Model.Stdlib

import Tengo.Model.VM
import Tengo.Model.Conc
/-!
Cancellation on the WHOLE-VM model, and the bridge from the whole-VM model to the protocol model.

vm.go: `func (v *VM) run() { for atomic.LoadInt64(&v.aborting) == 0 { v.ip++; switch v.curInsts[v.ip] … } }`,
`func (v *VM) Abort() { atomic.StoreInt64(&v.aborting, 1) }`.

* `dispatch` — ONE iteration of the loop body of `VM.run` (`Tengo.Model.VM.run`): `VM.exec` (unchanged) on
  the configuration, then the loop's own bookkeeping of the allocation counter. `VM.run` is the iteration of
  `dispatch` (`runAbort_none`, `Proofs/C07VMRun`).
* `runAbort` — the loop of `VM.run` with the abort flag polled at the loop head BEFORE every dispatch. The
  flag is an oracle `abortAt : Option Nat`: `some k` = the `Abort()` store becomes visible to the loop after
  `k` further dispatches (`some 0`: the next poll sees it); `none` = `Abort` is never called.
  The poll is per dispatch by construction — exactly what the loop head of vm.go does (the only `continue` of
  the loop body, the self tail call, and every jump go back to it: `Gen.RunContextShape`, `C07.shape_matches`).
* `behOf` — the `Conc.Beh` (behaviour seen by the RunContext protocol model) of a VM configuration: what the
  `i`-th dispatch does, derived from `VM.exec`'s outcome at dispatch `i`.

Core Lean only.
-/
namespace Tengo.Model.VMAbort
open Tengo.Model.VM Tengo.Model.Spec

/-- Result of one iteration of the loop body. -/
inductive Step1 where
  | stop (o : VM.Outcome)                           -- the loop ends by itself: halt, error, fault, limit
  | go (cfg : Cfg) (allocs : Int) (counted : Bool)  -- back to the loop head with this configuration

/-- One iteration of the loop body of `VM.run`: `VM.exec`, then the allocation counter. -/
def dispatch (code : Code) (allocs : Int) (cfg : Cfg) : Step1 :=
  match (((exec code cfg.core).run).run cfg.gst).run cfg.heap with
  | .error e => .stop (.failed e cfg)
  | .ok ((.error ft, _), _) => .stop (.fault ft cfg)
  | .ok ((.ok (.halt c), g), h) => .stop (.halted ⟨c, g, h⟩)
  | .ok ((.ok (.next c false), g), h) => .go ⟨c, g, h⟩ allocs false
  | .ok ((.ok (.next c true), g), h) =>
    if allocs - 1 == 0 then .stop (.limit cfg) else .go ⟨c, g, h⟩ (allocs - 1) true

/-- How the abortable loop ends. -/
inductive AOutcome where
  | fin (o : VM.Outcome)      -- as `VM.run` (by itself, or the model's fuel ran out)
  | aborted (at_ : Cfg)       -- the loop-head poll saw the flag: `at_` is the configuration at the loop head;
                              -- no instruction of it was dispatched

/-- The flag oracle after one more dispatch. -/
def tickAbort : Option Nat → Option Nat
  | none => none
  | some k => some (k - 1)

/-- `VM.run` with the abort flag: the poll comes first (it is the loop guard), then the dispatch. Fuel bounds
the number of dispatches as in `VM.run`; the poll needs none. -/
def runAbort (code : Code) (keep : Nat) : Option Nat → Nat → Int → Cfg → Log → AOutcome × Log
  | some 0, _, _, cfg, log => (.aborted cfg, log)
  | _, 0, _, cfg, log => (.fin (.outOfFuel cfg), log)
  | ab, fuel + 1, allocs, cfg, log =>
    let log := log.tick keep (observe cfg.core allocs)
    match dispatch code allocs cfg with
    | .stop o => (.fin o, log)
    | .go cfg' allocs' counted =>
      runAbort code keep (tickAbort ab) fuel allocs' cfg' (if counted then log.count else log)

/-! ### The behaviour of a VM configuration, as the protocol model sees it -/

/-- Outcome class of the way a VM run ends.

* `halted` (SUSPEND) → `ok`.
* `failed (runtime _)` → `err` (returned through `v.err`); `limit` (ErrObjectAllocLimit) → `err`.
* `failed (gopanic _)` → `goPanic`: a Go run-time panic the deferred `recover` of RunContext catches.
* internal faults: in the real VM an unknown opcode and CLOSURE on a non-function are errors, all other
  faults are Go run-time panics (index out of range / nil dereference) — `Model/VM.lean`, `Fault`.
* `failed fuel`: the bounded native recursion of the value model (`equalsV 64`, `toStringV`, `copyV`, …) ran
  out. This is the model's only stand-in for unbounded NATIVE recursion; in the real code such an operation
  either completes (a deep acyclic value) or exhausts the Go stack (a cyclic value: known finding O9). It is
  classed `fatal`, the conservative choice.
* `failed (unsupported _ | excluded _)`: the case is outside the modelled language (the differential streams
  skip it); classed `err`, nothing is claimed about the real code for such runs.
* `outOfFuel` is not a way a run ends (`stepOutOf`); classed `ok` for totality only. -/
def classify : VM.Outcome → Conc.Outcome
  | .halted _ => .ok
  | .failed (.runtime _) _ => .err
  | .failed (.gopanic _) _ => .goPanic
  | .failed .fuel _ => .fatal
  | .failed (.unsupported _) _ => .err
  | .failed (.excluded _) _ => .err
  | .fault (.unknownOpcode _) _ => .err
  | .fault (.notFunction _) _ => .err
  | .fault _ _ => .goPanic
  | .limit _ => .err
  | .outOfFuel _ => .ok

/-- What the protocol model is told about a dispatch that ends the run with `o`. -/
def stepOutOf : VM.Outcome → Conc.StepOut
  | .outOfFuel _ => .cont
  | o => .fin (classify o)

/-- The effect of the `i`-th dispatch (0-based) of the run from `cfg`: `cont` if `VM.exec` hands back a next
configuration, `fin (class)` if the run ends there. (After the end the last answer is repeated; the
protocol model never looks past the first `fin`.) -/
def behFrom (code : Code) : Nat → Int → Cfg → Conc.StepOut
  | 0, allocs, cfg =>
    match dispatch code allocs cfg with
    | .stop o => .fin (classify o)
    | .go _ _ _ => .cont
  | i + 1, allocs, cfg =>
    match dispatch code allocs cfg with
    | .stop o => .fin (classify o)
    | .go cfg' allocs' _ => behFrom code i allocs' cfg'

/-- The `Conc.Beh` of a VM configuration (code, allocation counter, machine state + heap). -/
def behOf (code : Code) (allocs : Int) (cfg : Cfg) : Conc.Beh := fun i => behFrom code i allocs cfg

/-- The configuration at the loop head after `i` dispatches, if the run gets that far. -/
def cfgAt (code : Code) : Nat → Int → Cfg → Option (Cfg × Int)
  | 0, allocs, cfg => some (cfg, allocs)
  | i + 1, allocs, cfg =>
    match dispatch code allocs cfg with
    | .stop _ => none
    | .go cfg' allocs' _ => cfgAt code i allocs' cfg'

end Tengo.Model.VMAbort

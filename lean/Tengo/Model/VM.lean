import Tengo.Model.SpecEval
import Tengo.Model.Opcodes
/-!
The VM model: `VM.run` of vm.go, all 42 opcodes, on the value/heap model of the reference semantics
(`Tengo.Model.Spec`): operand stack of `StackSize` slots with `sp`, call frames with base pointers,
captured-variable cells (`ObjectPtr`), iterators, the allocation counter, self tail calls with the
`discardResult` mark, error texts as the VM produces them.

Shape (chosen so that the structural theorems are short):
* `fetch` — decode the instruction at `ip` (opcode, at most two operands, size) from the raw bytes.
* `execSimple` — the 38 opcodes that neither call nor return nor suspend. It sees the current frame
  read-only, the registers (`stack`, `sp`, `globals`, function objects) and its DECODED operands — never
  the instruction stream or a position; it answers "continue with the next instruction" or "jump to t"
  and whether the instruction is one of the VM's tracked allocations. It cannot touch the frame stack
  *by type* and is position independent *by type*.
* `execCall`, `execReturn` — the only code that changes frames (the tail-call test peeks at the bytes
  after the call, as vm.go does).
* `exec` — one dispatch, without the allocation counter; `run` — the loop, which owns the counter
  (`v.allocs--; if v.allocs == 0 { ErrObjectAllocLimit }`).
* internal faults (`Fault`) are values of a separate layer (`XM = ExceptT Fault VMM`): nothing written in
  `VMM` — none of the value-level operations and builtins — can produce one.

Tied to the real VM on every run by lock-step comparison of (function, ip, sp, frame index, allocs)
at every dispatched instruction, of the outcome and of every global (harness stream `vm`).
Core Lean only.
-/
namespace Tengo.Model.VM
open Tengo.Model.Spec Tengo.Model.Opcodes

def stackSize : Nat := 2048
def maxFrames : Nat := 1024

structure Fn where
  insts     : Array UInt8
  numLocals : Nat
  numParams : Nat
  varargs   : Bool
  deriving Inhabited

inductive Const where
  | val (v : Value)
  | fn (f : Fn) (ref : Nat)      -- `ref`: the heap object standing for the constant itself (identity)
  deriving Inhabited

structure Code where
  main   : Fn
  consts : Array Const

structure Frame where
  fnIdx   : Nat          -- 0 = main, k + 1 = function constant k
  fnRef   : Option Nat   -- the function object being run (identity decides "self" in the tail-call test)
  ip      : Int          -- as in vm.go: index of the last consumed byte (-1 at entry)
  bp      : Nat
  free    : List Nat     -- captured cells
  discard : Bool := false
  deriving Inhabited

/-- A compiled-function object: the constant it was made from and its captured cells. Function
objects live in a store of their own (`Regs.fobjs`), out of reach of the value-level operations. -/
abbrev FnObj := Nat × List Nat

structure Regs where
  stack   : Array Value
  sp      : Nat
  globals : Array Value
  fobjs   : Array FnObj := #[]

structure Core where
  regs    : Regs
  cur     : Frame
  callers : List Frame           -- innermost first; framesIndex = callers.length + 1

def Code.fn (c : Code) (idx : Nat) : Option Fn :=
  if idx == 0 then some c.main
  else match c.consts[idx - 1]? with
    | some (.fn f _) => some f
    | _ => none

abbrev VMM := EM          -- StateT GSt (StateT St (Except Err)): heap + errors

/-- Internal faults of the VM: what a well-formed function can never cause (property C02). In the
real VM each is a Go run-time panic (index out of range) or, for the first two, an error. -/
inductive Fault where
  | unknownOpcode (op : Nat)
  | notFunction (k : Nat)        -- CLOSURE on a constant that is not a function
  | constIndex (k : Nat)
  | freeIndex (i : Nat)
  | builtinIndex (i : Nat)
  | globalIndex (i : Nat)
  | ipOutside (ip : Int)         -- instruction fetch outside the instruction stream
  | underflow                    -- operand-stack read below index 0
  | returnFromMain
  | badFunctionIndex
  deriving Repr, DecidableEq

/-- The dispatch monad: faults are values of their own, so nothing written in `VMM` (in particular
none of the value-level operations and builtins) can produce one. -/
abbrev XM := ExceptT Fault VMM

def em {α} (x : VMM α) : XM α := ExceptT.lift x
def fault {α} (f : Fault) : XM α := ExceptT.mk (pure (.error f))
/-- Operand-stack reads of the `k` topmost slots need `sp ≥ k` (Go: negative index panics). -/
def need (r : Regs) (k : Nat) : XM Unit := if r.sp < k then fault .underflow else pure ()

/-- Heap-level computation inside the VM monad. -/
def hp {α} (x : M α) : VMM α := Spec.liftM x

def goPanic {α} (msg : String) : VMM α := hp (throw (Err.gopanic msg))

/-- Write a stack slot (Go: index out of range on the fixed array is a run-time panic). -/
def setSlot (r : Regs) (i : Nat) (v : Value) : VMM Regs :=
  if i < stackSize then pure { r with stack := r.stack.setIfInBounds i v }
  else goPanic s!"runtime error: index out of range [{i}] with length {stackSize}"

def getSlot (r : Regs) (i : Nat) : Value := r.stack.getD i .undef

def push (r : Regs) (v : Value) : VMM Regs := do
  let r ← setSlot r r.sp v
  pure { r with sp := r.sp + 1 }

def pushAll (r : Regs) : List Value → VMM Regs
  | [] => pure r
  | v :: vs => do pushAll (← push r v) vs

def byteAt (f : Fn) (i : Int) : Nat := if i < 0 then 0 else (f.insts.getD i.toNat 0).toNat

def op16 (f : Fn) (ip : Int) : Nat := byteAt f (ip + 1) * 256 + byteAt f (ip + 2)
def op32 (f : Fn) (ip : Int) : Nat :=
  ((byteAt f (ip + 1) * 256 + byteAt f (ip + 2)) * 256 + byteAt f (ip + 3)) * 256 + byteAt f (ip + 4)

/-- Operand widths of the opcodes (`parser.OpcodeOperands`), as a match for fast evaluation; equal to
`Opcodes.widths` (`shape_eq_widths`). -/
def shape : Nat → List Nat
  | 0 | 14 | 15 | 22 | 23 => [2]
  | 9 | 10 | 11 | 12 => [4]
  | 21 | 25 | 26 | 27 | 29 | 30 | 31 | 32 | 34 | 40 => [1]
  | 20 | 28 | 33 => [1, 1]
  | 24 | 35 => [2, 1]
  | _ => []

theorem shape_eq_widths : ∀ op, op < 42 → widths op = some (shape op) := by decide

/-- A fetched instruction: opcode byte, its (at most two) operands, its length in bytes. -/
structure Fetched where
  op   : Nat
  a0   : Nat := 0
  a1   : Nat := 0
  size : Nat := 1
  deriving Repr, DecidableEq

/-- Decode the instruction whose opcode byte is at `ip`. -/
def fetch (f : Fn) (ip : Int) : Fetched :=
  let op := byteAt f ip
  match shape op with
  | [1] => { op := op, a0 := byteAt f (ip + 1), size := 2 }
  | [2] => { op := op, a0 := op16 f ip, size := 3 }
  | [4] => { op := op, a0 := op32 f ip, size := 5 }
  | [1, 1] => { op := op, a0 := byteAt f (ip + 1), a1 := byteAt f (ip + 2), size := 3 }
  | [2, 1] => { op := op, a0 := op16 f ip, a1 := byteAt f (ip + 3), size := 4 }
  | _ => { op := op }

def tokOfNum : Nat → String
  | 11 => "Add" | 12 => "Sub" | 13 => "Mul" | 14 => "Quo" | 15 => "Rem" | 16 => "And" | 17 => "Or"
  | 18 => "Xor" | 19 => "Shl" | 20 => "Shr" | 21 => "AndNot" | 38 => "Less" | 39 => "Greater"
  | 43 => "LessEq" | 44 => "GreaterEq" | n => s!"tok{n}"

def deref (v : Value) : VMM Value :=
  match v with
  | .ptr r => do
      match ← hp (getObj r) with
      | .cell x _ => pure x
      | _ => eUnsup "bad cell"
  | v => pure v

def slots (r : Regs) (from_ n : Nat) : List Value := (List.range n).map (fun i => getSlot r (from_ + i))

/-- Selectors and value of a SETSEL* instruction: `selectors[i] = stack[sp-numSel+i]`, value below. The compiler
pushes the selectors innermost first (`selectors[0]` is the one `IndexSet` is called with, vm.go `indexAssign` walks
`selectors[numSel-1] … selectors[1]` first); `SpecEval.indexAssign` takes them in source order, outermost first. -/
def selArgs (r : Regs) (numSel : Nat) : List Value × Value :=
  ((slots r (r.sp - numSel) numSel).reverse, getSlot r (r.sp - numSel - 1))

/-- `Iterate()` of the iterable types; `none` = `CanIterate()` is false. -/
def makeIter (v : Value) : VMM (Option Obj) := do
  match v with
  | .arr r | .imarr r => do
      let es ← hp (arrElems r)
      let st ← match ← hp (getObj r) with
        | .arr st _ _ => pure st
        | _ => pure 0
      pure (some (.arrIt r st es.length 0))       -- header reference, its store and the length at creation
  | .map r | .immap r => do
      let kvs ← hp (mapEntries r)
      if kvs.length > 1 then
        hp (throw (Err.excluded "iteration over a map with several keys (order is unspecified)"))
      pure (some (.mapIt r (kvs.map Prod.fst) 0))
  | .str b => pure (some (.listIt 0 ((runes b).zipIdx.map (fun (x, i) => (Value.int i, Value.char x))) 0))
  | .bytes b => pure (some (.listIt 1 (b.zipIdx.map (fun (x, i) => (Value.int i, Value.int x.toNat))) 0))
  | .undef => pure (some (.listIt 2 [] 0))
  | _ => pure none

def iterNext (r : Nat) : VMM Bool := do
  match ← hp (getObj r) with
  | .arrIt h off len i => do hp (setObj r (.arrIt h off len (i + 1))); pure (i + 1 ≤ len)
  | .listIt k items i => do hp (setObj r (.listIt k items (i + 1))); pure (i + 1 ≤ items.length)
  | .mapIt m keys i => do hp (setObj r (.mapIt m keys (i + 1))); pure (i + 1 ≤ keys.length)
  | _ => eUnsup "bad iterator"

def iterOut {α} : VMM α := goPanic "runtime error: index out of range"

def iterGet (r : Nat) (wantKey : Bool) : VMM Value := do
  match ← hp (getObj r) with
  | .arrIt h st0 len i =>
    if wantKey then pure (Value.int (Int.ofNat i - 1))
    else do
      let es ← hp (arrElems h)
      -- the iterator holds the slice it started with: if the array was restructured meanwhile
      -- (splice: another length, or another store of the same length), what it sees depends on hidden
      -- capacity
      let sameStore ← match ← hp (getObj h) with
        | .arr st _ _ => pure (st == st0)
        | _ => pure false
      if es.length != len || !sameStore then
        hp (throw (Err.excluded "array restructured during for-in over it (hidden capacity)"))
      if i == 0 || i > len then iterOut else pure (es.getD (i - 1) .undef)
  | .listIt _ items i =>
    match items[i - 1]? with
    | some (k, x) => if i == 0 then iterOut else pure (if wantKey then k else x)
    | none => if items.isEmpty then pure .undef else iterOut     -- Undefined is its own (empty) iterator
  | .mapIt m keys i =>
    if i == 0 || i > keys.length then iterOut
    else do
      let k := keys.getD (i - 1) []
      if wantKey then pure (.str k)
      else do
        let kvs ← hp (mapEntries m)
        pure ((kvs.lookup k).getD .undef)
  | _ => eUnsup "bad iterator"

/-- Where a simple instruction continues: at the next instruction, or at an absolute byte offset. -/
inductive Next where
  | seq
  | jump (target : Nat)
  deriving DecidableEq, Repr

/-- Result of a simple instruction: registers, where to continue, and whether it is a tracked allocation.
Simple instructions see their operands decoded (`a0`, `a1`) — never the instruction stream or a position. -/
structure SimpleOut where
  regs  : Regs
  next  : Next := .seq
  alloc : Bool := false

def rtE {α} (msg : String) : XM α := em (eRt msg)
def unsupE {α} (why : String) : XM α := em (eUnsup why)
def panicE {α} (msg : String) : XM α := em (goPanic msg)

section perOpcode
set_option linter.unusedVariables false

def exConstant (code : Code) (fr : Frame) (a0 a1 : Nat) (op : Nat) (r : Regs) : XM SimpleOut := let k := a0
  match code.consts[k]? with
  | some (.val v) => do pure { regs := ← em (push r v), next := .seq }
  | some (.fn _ ref) => do pure { regs := ← em (push r (.cfn ref)), next := .seq }
  | none => fault (.constIndex k)

def exNull (code : Code) (fr : Frame) (a0 a1 : Nat) (op : Nat) (r : Regs) : XM SimpleOut := do pure { regs := ← em (push r .undef), next := .seq }

def exTrue (code : Code) (fr : Frame) (a0 a1 : Nat) (op : Nat) (r : Regs) : XM SimpleOut := do pure { regs := ← em (push r (.bool true)), next := .seq }

def exFalse (code : Code) (fr : Frame) (a0 a1 : Nat) (op : Nat) (r : Regs) : XM SimpleOut := do pure { regs := ← em (push r (.bool false)), next := .seq }

def exPop (code : Code) (fr : Frame) (a0 a1 : Nat) (op : Nat) (r : Regs) : XM SimpleOut := do
  need r 1
  pure { regs := { r with sp := r.sp - 1 }, next := .seq }

def exBinaryOp (code : Code) (fr : Frame) (a0 a1 : Nat) (op : Nat) (r : Regs) : XM SimpleOut := do
  need r 2
  let tok := a0
  let res ← em (hp (binaryOp (tokOfNum tok) (getSlot r (r.sp - 2)) (getSlot r (r.sp - 1))))
  let r ← em (setSlot r (r.sp - 2) res)
  pure { regs := { r with sp := r.sp - 1 }, next := .seq, alloc := true }

def exEqual (code : Code) (fr : Frame) (a0 a1 : Nat) (op : Nat) (r : Regs) : XM SimpleOut := do
  need r 2
  let e ← em (hp (equalsV 64 (getSlot r (r.sp - 2)) (getSlot r (r.sp - 1))))
  let r ← em (setSlot r (r.sp - 2) (.bool (if op == opEqual then e else !e)))
  pure { regs := { r with sp := r.sp - 1 }, next := .seq }

def exLNot (code : Code) (fr : Frame) (a0 a1 : Nat) (op : Nat) (r : Regs) : XM SimpleOut := do
  need r 1
  let b ← em (hp (isFalsy (getSlot r (r.sp - 1))))
  pure { regs := ← em (setSlot r (r.sp - 1) (.bool b)), next := .seq }

def exBComplement (code : Code) (fr : Frame) (a0 a1 : Nat) (op : Nat) (r : Regs) : XM SimpleOut := do
  need r 1
  match getSlot r (r.sp - 1) with
  | .int n => do pure { regs := ← em (setSlot r (r.sp - 1) (.int (-n - 1))), next := .seq, alloc := true }
  | a => rtE s!"invalid operation: ^{typeName a}"

def exMinus (code : Code) (fr : Frame) (a0 a1 : Nat) (op : Nat) (r : Regs) : XM SimpleOut := do
  need r 1
  match getSlot r (r.sp - 1) with
  | .int n => do pure { regs := ← em (setSlot r (r.sp - 1) (.int (wrap64 (-n)))), next := .seq, alloc := true }
  | .float x => do pure { regs := ← em (setSlot r (r.sp - 1) (.float (-x))), next := .seq, alloc := true }
  | a => rtE s!"invalid operation: -{typeName a}"

def exJumpFalsy (code : Code) (fr : Frame) (a0 a1 : Nat) (op : Nat) (r : Regs) : XM SimpleOut := do
  need r 1
  let b ← em (hp (isFalsy (getSlot r (r.sp - 1))))
  pure { regs := { r with sp := r.sp - 1 }, next := if b then .jump a0 else .seq }

def exAndJump (code : Code) (fr : Frame) (a0 a1 : Nat) (op : Nat) (r : Regs) : XM SimpleOut := do
  need r 1
  if ← em (hp (isFalsy (getSlot r (r.sp - 1)))) then pure { regs := r, next := .jump a0 }
  else pure { regs := { r with sp := r.sp - 1 }, next := .seq }

def exOrJump (code : Code) (fr : Frame) (a0 a1 : Nat) (op : Nat) (r : Regs) : XM SimpleOut := do
  need r 1
  if ← em (hp (isFalsy (getSlot r (r.sp - 1)))) then pure { regs := { r with sp := r.sp - 1 }, next := .seq }
  else pure { regs := r, next := .jump a0 }

def exJump (code : Code) (fr : Frame) (a0 a1 : Nat) (op : Nat) (r : Regs) : XM SimpleOut := pure { regs := r, next := .jump a0 }

def exSetGlobal (code : Code) (fr : Frame) (a0 a1 : Nat) (op : Nat) (r : Regs) : XM SimpleOut := do
  need r 1
  let g := a0
  if g < r.globals.size then
    pure { regs := { r with sp := r.sp - 1, globals := r.globals.setIfInBounds g (getSlot r (r.sp - 1)) }, next := .seq }
  else fault (.globalIndex g)

def exGetGlobal (code : Code) (fr : Frame) (a0 a1 : Nat) (op : Nat) (r : Regs) : XM SimpleOut := do
  let g := a0
  if g < r.globals.size then pure { regs := ← em (push r (r.globals.getD g .undef)), next := .seq }
  else fault (.globalIndex g)

def exSetSelGlobal (code : Code) (fr : Frame) (a0 a1 : Nat) (op : Nat) (r : Regs) : XM SimpleOut := do
  let g := a0
  let n := a1
  need r (n + 1)
  if g < r.globals.size then do
    let (sels, v) := selArgs r n
    em (indexAssign (r.globals.getD g .undef) v sels)
    pure { regs := { r with sp := r.sp - n - 1 }, next := .seq }
  else fault (.globalIndex g)

def exArray (code : Code) (fr : Frame) (a0 a1 : Nat) (op : Nat) (r : Regs) : XM SimpleOut := do
  let n := a0
  need r n
  let a ← em (hp (newArray (slots r (r.sp - n) n)))
  pure { regs := ← em (push { r with sp := r.sp - n } (.arr a)), next := .seq, alloc := true }

def exMap (code : Code) (fr : Frame) (a0 a1 : Nat) (op : Nat) (r : Regs) : XM SimpleOut := do
  let n := a0
  need r n
  let kvs ← em ((List.range (n / 2)).mapM (fun i => do
    match getSlot r (r.sp - n + 2 * i) with
    | .str k => pure (k, getSlot r (r.sp - n + 2 * i + 1))
    | _ => goPanic "interface conversion: tengo.Object is not *tengo.String") : VMM (List (Bytes × Value)))
  let m ← em (hp (newMap kvs))
  pure { regs := ← em (push { r with sp := r.sp - n } (.map m)), next := .seq, alloc := true }

def exError (code : Code) (fr : Frame) (a0 a1 : Nat) (op : Nat) (r : Regs) : XM SimpleOut := do
  need r 1
  let e ← em (hp (alloc (.err (getSlot r (r.sp - 1)))))
  pure { regs := ← em (setSlot r (r.sp - 1) (.err e)), next := .seq, alloc := true }

def exImmutable (code : Code) (fr : Frame) (a0 a1 : Nat) (op : Nat) (r : Regs) : XM SimpleOut := do
  need r 1
  match getSlot r (r.sp - 1) with
  | .arr a => do
      let a' ← em (do
        match ← hp (getObj a) with
        | .arr st off len => do
            match ← hp (getObj st) with
            | .store vs h => hp (setObj st (.store vs (h + 1)))
            | _ => eUnsup "bad store"
            hp (alloc (.arr st off len))
        | _ => eUnsup "bad array" : VMM Nat)
      pure { regs := ← em (setSlot r (r.sp - 1) (.imarr a')), next := .seq, alloc := true }
  | .map m => do pure { regs := ← em (setSlot r (r.sp - 1) (.immap m)), next := .seq, alloc := true }
  | _ => pure { regs := r, next := .seq }

def exIndex (code : Code) (fr : Frame) (a0 a1 : Nat) (op : Nat) (r : Regs) : XM SimpleOut := do
  need r 2
  let v ← em (indexGet (getSlot r (r.sp - 2)) (getSlot r (r.sp - 1)))
  let r ← em (setSlot r (r.sp - 2) v)
  pure { regs := { r with sp := r.sp - 1 }, next := .seq }

def exSliceIndex (code : Code) (fr : Frame) (a0 a1 : Nat) (op : Nat) (r : Regs) : XM SimpleOut := do
  need r 3
  let v ← em (sliceV (getSlot r (r.sp - 3)) (getSlot r (r.sp - 2)) (getSlot r (r.sp - 1)))
  pure { regs := ← em (push { r with sp := r.sp - 3 } v), next := .seq, alloc := true }

def exDefineLocal (code : Code) (fr : Frame) (a0 a1 : Nat) (op : Nat) (r : Regs) : XM SimpleOut := do
  need r 1
  let i := a0
  pure { regs := ← em (setSlot { r with sp := r.sp - 1 } (fr.bp + i) (getSlot r (r.sp - 1))), next := .seq }

def exSetLocal (code : Code) (fr : Frame) (a0 a1 : Nat) (op : Nat) (r : Regs) : XM SimpleOut := do
  need r 1
  let i := a0
  let v := getSlot r (r.sp - 1)
  let r := { r with sp := r.sp - 1 }
  match getSlot r (fr.bp + i) with
  | .ptr c => do em (hp (setObj c (.cell v false))); pure { regs := r, next := .seq }
  | _ => do pure { regs := ← em (setSlot r (fr.bp + i) v), next := .seq }

def exSetSelLocal (code : Code) (fr : Frame) (a0 a1 : Nat) (op : Nat) (r : Regs) : XM SimpleOut := do
  let i := a0
  let n := a1
  need r (n + 1)
  let (sels, v) := selArgs r n
  let dst ← em (deref (getSlot r (fr.bp + i)))
  em (indexAssign dst v sels)
  pure { regs := { r with sp := r.sp - n - 1 }, next := .seq }

def exGetLocal (code : Code) (fr : Frame) (a0 a1 : Nat) (op : Nat) (r : Regs) : XM SimpleOut := do
  let v ← em (deref (getSlot r (fr.bp + a0)))
  pure { regs := ← em (push r v), next := .seq }

def exGetBuiltin (code : Code) (fr : Frame) (a0 a1 : Nat) (op : Nat) (r : Regs) : XM SimpleOut := do
  let i := a0
  match builtinNames[i]? with
  | some n => do pure { regs := ← em (push r (.builtin n)), next := .seq }
  | none => fault (.builtinIndex i)

def exClosure (code : Code) (fr : Frame) (a0 a1 : Nat) (op : Nat) (r : Regs) : XM SimpleOut := do
  let k := a0
  let numFree := a1
  need r numFree
  match code.consts[k]? with
  | some (.fn _ _) => do
    -- compiled code only ever captures through GETLP / GETFP, i.e. cells; a bare value is boxed
    let free ← em ((slots r (r.sp - numFree) numFree).mapM (fun v => do
      match v with
      | .ptr c => pure c
      | v => hp (alloc (.cell v false))) : VMM (List Nat))
    let cl := r.fobjs.size
    let r := { r with sp := r.sp - numFree, fobjs := r.fobjs.push (k, free) }
    pure { regs := ← em (push r (.cfn cl)), next := .seq, alloc := true }
  | some (.val _) => fault (.notFunction k)
  | none => fault (.constIndex k)

def exGetFreePtr (code : Code) (fr : Frame) (a0 a1 : Nat) (op : Nat) (r : Regs) : XM SimpleOut := do
  let i := a0
  match fr.free[i]? with
  | some c => do pure { regs := ← em (push r (.ptr c)), next := .seq }
  | none => fault (.freeIndex i)

def exGetFree (code : Code) (fr : Frame) (a0 a1 : Nat) (op : Nat) (r : Regs) : XM SimpleOut := do
  let i := a0
  match fr.free[i]? with
  | some c => do pure { regs := ← em (do push r (← deref (.ptr c))), next := .seq }
  | none => fault (.freeIndex i)

def exSetFree (code : Code) (fr : Frame) (a0 a1 : Nat) (op : Nat) (r : Regs) : XM SimpleOut := do
  need r 1
  let i := a0
  match fr.free[i]? with
  | some c => do
      em (hp (setObj c (.cell (getSlot r (r.sp - 1)) false)))
      pure { regs := { r with sp := r.sp - 1 }, next := .seq }
  | none => fault (.freeIndex i)

def exGetLocalPtr (code : Code) (fr : Frame) (a0 a1 : Nat) (op : Nat) (r : Regs) : XM SimpleOut := do
  let slot := fr.bp + a0
  match getSlot r slot with
  | .ptr c => do pure { regs := ← em (push r (.ptr c)), next := .seq }
  | v => do
      let c ← em (hp (alloc (.cell v false)))
      let r ← em (setSlot r slot (.ptr c))
      pure { regs := ← em (push r (.ptr c)), next := .seq }

def exSetSelFree (code : Code) (fr : Frame) (a0 a1 : Nat) (op : Nat) (r : Regs) : XM SimpleOut := do
  let i := a0
  let n := a1
  need r (n + 1)
  let (sels, v) := selArgs r n
  match fr.free[i]? with
  | some c => do
      em (do indexAssign (← deref (.ptr c)) v sels)
      pure { regs := { r with sp := r.sp - n - 1 }, next := .seq }
  | none => fault (.freeIndex i)

def exIteratorInit (code : Code) (fr : Frame) (a0 a1 : Nat) (op : Nat) (r : Regs) : XM SimpleOut := do
  need r 1
  let v := getSlot r (r.sp - 1)
  match ← em (makeIter v) with
  | none => rtE s!"not iterable: {typeName v}"
  | some o => do
      let it ← em (hp (alloc o))
      pure { regs := ← em (setSlot r (r.sp - 1) (.iter it)), next := .seq, alloc := true }

def exIteratorNext (code : Code) (fr : Frame) (a0 a1 : Nat) (op : Nat) (r : Regs) : XM SimpleOut := do
  need r 1
  match getSlot r (r.sp - 1) with
  | .iter it => do pure { regs := ← em (do setSlot r (r.sp - 1) (.bool (← iterNext it))), next := .seq }
  | _ => panicE "interface conversion: tengo.Object is not tengo.Iterator"

def exIteratorKey (code : Code) (fr : Frame) (a0 a1 : Nat) (op : Nat) (r : Regs) : XM SimpleOut := do
  need r 1
  match getSlot r (r.sp - 1) with
  | .iter it => do pure { regs := ← em (do setSlot r (r.sp - 1) (← iterGet it (op == opIteratorKey))), next := .seq }
  | _ => panicE "interface conversion: tengo.Object is not tengo.Iterator"

end perOpcode

/-- The opcodes that neither call, return nor suspend. `ip` is the index of the opcode byte. -/
def execSimple (code : Code) (fr : Frame) (a0 a1 : Nat) (op : Nat) (r : Regs) : XM SimpleOut :=
  if op == opConstant then exConstant code fr a0 a1 op r
  else if op == opNull then exNull code fr a0 a1 op r
  else if op == opTrue then exTrue code fr a0 a1 op r
  else if op == opFalse then exFalse code fr a0 a1 op r
  else if op == opPop then exPop code fr a0 a1 op r
  else if op == opBinaryOp then exBinaryOp code fr a0 a1 op r
  else if op == opEqual || op == opNotEqual then exEqual code fr a0 a1 op r
  else if op == opLNot then exLNot code fr a0 a1 op r
  else if op == opBComplement then exBComplement code fr a0 a1 op r
  else if op == opMinus then exMinus code fr a0 a1 op r
  else if op == opJumpFalsy then exJumpFalsy code fr a0 a1 op r
  else if op == opAndJump then exAndJump code fr a0 a1 op r
  else if op == opOrJump then exOrJump code fr a0 a1 op r
  else if op == opJump then exJump code fr a0 a1 op r
  else if op == opSetGlobal then exSetGlobal code fr a0 a1 op r
  else if op == opGetGlobal then exGetGlobal code fr a0 a1 op r
  else if op == opSetSelGlobal then exSetSelGlobal code fr a0 a1 op r
  else if op == opArray then exArray code fr a0 a1 op r
  else if op == opMap then exMap code fr a0 a1 op r
  else if op == opError then exError code fr a0 a1 op r
  else if op == opImmutable then exImmutable code fr a0 a1 op r
  else if op == opIndex then exIndex code fr a0 a1 op r
  else if op == opSliceIndex then exSliceIndex code fr a0 a1 op r
  else if op == opDefineLocal then exDefineLocal code fr a0 a1 op r
  else if op == opSetLocal then exSetLocal code fr a0 a1 op r
  else if op == opSetSelLocal then exSetSelLocal code fr a0 a1 op r
  else if op == opGetLocal then exGetLocal code fr a0 a1 op r
  else if op == opGetBuiltin then exGetBuiltin code fr a0 a1 op r
  else if op == opClosure then exClosure code fr a0 a1 op r
  else if op == opGetFreePtr then exGetFreePtr code fr a0 a1 op r
  else if op == opGetFree then exGetFree code fr a0 a1 op r
  else if op == opSetFree then exSetFree code fr a0 a1 op r
  else if op == opGetLocalPtr then exGetLocalPtr code fr a0 a1 op r
  else if op == opSetSelFree then exSetSelFree code fr a0 a1 op r
  else if op == opIteratorInit then exIteratorInit code fr a0 a1 op r
  else if op == opIteratorNext then exIteratorNext code fr a0 a1 op r
  else if op == opIteratorKey || op == opIteratorValue then exIteratorKey code fr a0 a1 op r
  else fault (.unknownOpcode op)

/-! ### calls and returns -/

inductive ExecOut where
  | next (c : Core) (alloc : Bool)
  | halt (c : Core)       -- SUSPEND

/-- The tail-call test of vm.go: the callee is the function object the current frame runs, and the
next instruction is RET, or POP directly followed by RET. `ipAfter` is `v.ip` after the operands. -/
def isSelfTail (f : Fn) (cur : Frame) (calleeRef : Nat) (ipAfter : Int) : Bool :=
  let nextOp := byteAt f (ipAfter + 1)
  cur.fnRef == some calleeRef &&
    (nextOp == opReturn || (nextOp == opPop && byteAt f (ipAfter + 2) == opReturn))

def copyArgs (r : Regs) (bp numArgs : Nat) : Nat → VMM Regs
  | 0 => pure r
  | n + 1 => do
      let p := numArgs - (n + 1)
      let r ← setSlot r (bp + p) (getSlot r (r.sp - numArgs + p))
      copyArgs r bp numArgs n

/-- The frame decision of OpCall once the callee and its arguments are in place: reuse the frame for
a self tail call, otherwise push a frame unless the frame array is full. -/
def finishCompiled (f : Fn) (ipAfter : Int) (c : Core) (r : Regs) (numArgs : Nat)
    (cr k : Nat) (free : List Nat) (cf : Fn) : XM ExecOut :=
  if isSelfTail f c.cur cr ipAfter then do
    let discard := c.cur.discard || byteAt f (ipAfter + 1) == opPop
    let r ← em (copyArgs r c.cur.bp numArgs numArgs)
    pure (.next { c with regs := { r with sp := r.sp - numArgs - 1 },
                         cur := { c.cur with ip := -1, discard := discard } } false)
  else if c.callers.length + 1 ≥ maxFrames then rtE "stack overflow"
  else
    let newFrame : Frame :=
      { fnIdx := k + 1, fnRef := some cr, ip := -1, bp := r.sp - numArgs, free := free }
    pure (.next { regs := { r with sp := r.sp - numArgs + cf.numLocals },
                  cur := newFrame, callers := { c.cur with ip := ipAfter } :: c.callers } false)

/-- Spread of the last argument (`f(a, b...)`). Returns the registers and the argument count. -/
def spreadArgs (r : Regs) (numArgs0 spread : Nat) : VMM (Regs × Nat) :=
  if spread == 1 then do
    match getSlot r (r.sp - 1) with
    | .arr a | .imarr a => do
        let es ← hp (arrElems a)
        let r ← pushAll { r with sp := r.sp - 1 } es
        pure (r, numArgs0 + es.length - 1)
    | x => eRt s!"not an array: {typeName x}"
  else pure (r, numArgs0)

/-- Roll-up of the variadic arguments into an array. -/
def rollUp (cf : Fn) (r : Regs) (numArgs : Nat) : VMM (Regs × Nat) :=
  if cf.varargs && numArgs + 1 ≥ cf.numParams then do
    let real := cf.numParams - 1
    let nVar := numArgs - real
    let a ← hp (newArray (slots r (r.sp - nVar) nVar))
    let r ← setSlot r (r.sp - nVar) (.arr a)
    pure ({ r with sp := r.sp - nVar + 1 }, real + 1)
  else pure (r, numArgs)

def execCall (code : Code) (f : Fn) (ip : Int) (numArgs0 spread : Nat) (c : Core) : XM ExecOut := do
  let r := c.regs
  need r (numArgs0 + 1)
  let callee := getSlot r (r.sp - 1 - numArgs0)
  let ipAfter := ip + 2
  match callee with
  | .cfn cr => do
      let (r, numArgs) ← em (spreadArgs r numArgs0 spread)
      let some (k, free) := r.fobjs[cr]? | unsupE "bad function object"
      let some (.fn cf _) := code.consts[k]? | unsupE "bad function constant"
      let (r, numArgs) ← em (rollUp cf r numArgs)
      if numArgs != cf.numParams then
        if cf.varargs then rtE s!"wrong number of arguments: want>={cf.numParams - 1}, got={numArgs}"
        else rtE s!"wrong number of arguments: want={cf.numParams}, got={numArgs}"
      else finishCompiled f ipAfter c r numArgs cr k free cf
  | .builtin name => do
      let (r, numArgs) ← em (spreadArgs r numArgs0 spread)
      let ret ← em (callBuiltin name (slots r (r.sp - numArgs) numArgs))
      let r ← em (push { r with sp := r.sp - numArgs - 1 } ret)
      pure (.next { c with regs := r, cur := { c.cur with ip := ipAfter } } true)
  | .fn _ => unsupE "reference-semantics closure in the VM model"
  | _ => rtE s!"not callable: {typeName callee}"

def execReturn (withValue : Nat) (c : Core) : XM ExecOut := do
  let hasVal := withValue == 1
  if hasVal then need c.regs 1
  let ret := if hasVal && !c.cur.discard then getSlot c.regs (c.regs.sp - 1) else .undef
  match c.callers with
  | [] => fault .returnFromMain
  | caller :: rest => do
      let r ← em (setSlot { c.regs with sp := c.cur.bp } (c.cur.bp - 1) ret)
      pure (.next { regs := r, cur := caller, callers := rest } false)

/-- One dispatch of the VM loop (without the allocation counter): fetch and decode the instruction at
`ip`, execute it on its decoded operands, move `ip` (`v.ip` is the index of the last consumed byte). -/
def exec (code : Code) (c : Core) : XM ExecOut := do
  let some f := code.fn c.cur.fnIdx | fault .badFunctionIndex
  let ip := c.cur.ip + 1
  if ip < 0 || ip.toNat ≥ f.insts.size then fault (.ipOutside ip)
  else
    let i := fetch f ip
    if i.op == opCall then execCall code f ip i.a0 i.a1 c
    else if i.op == opReturn then execReturn i.a0 c
    else if i.op == opSuspend then pure (.halt { c with cur := { c.cur with ip := ip } })
    else do
      let o ← execSimple code c.cur i.a0 i.a1 i.op c.regs
      let ip' : Int := match o.next with
        | .seq => ip + i.size - 1
        | .jump t => Int.ofNat t - 1
      pure (.next { c with regs := o.regs, cur := { c.cur with ip := ip' } } o.alloc)

/-! ### the loop -/

/-- A configuration: machine state plus the heap of the value model. -/
structure Cfg where
  core : Core
  gst  : GSt
  heap : St

inductive Outcome where
  | halted (cfg : Cfg)
  | failed (e : Err) (at_ : Cfg)      -- `at_`: the configuration whose dispatch failed
  | fault (f : Fault) (at_ : Cfg)     -- an internal fault (never for verified code: `Tengo.Props.C02`)
  | limit (at_ : Cfg)                 -- ErrObjectAllocLimit: the tracked allocation of this dispatch was refused
  | outOfFuel (cfg : Cfg)

/-- One observed dispatch: what the probe hook reports before the instruction is decoded. -/
structure Obs where
  fnIdx  : Nat
  ip     : Int      -- index of the opcode byte
  sp     : Nat
  bp     : Nat
  depth  : Nat      -- framesIndex
  allocs : Int

def allocLimitText : String := "object allocation limit exceeded"

def observe (c : Core) (allocs : Int) : Obs :=
  { fnIdx := c.cur.fnIdx, ip := c.cur.ip + 1, sp := c.regs.sp, bp := c.cur.bp,
    depth := c.callers.length + 1, allocs := allocs }

/-- Fold the observation into a checksum (all dispatches) — the first `keep` are also listed. -/
def mix (h : Nat) (o : Obs) : Nat :=
  ((h * 1000003 + o.fnIdx * 7919 + o.ip.toNat * 104729 + o.sp * 31 + o.depth * 131 +
    (o.allocs % 1000000007).toNat) % 2147483647)

structure Log where
  steps  : Nat := 0
  counted : Nat := 0          -- tracked allocations that succeeded
  sum    : Nat := 0
  first  : List Obs := []     -- reversed

def Log.tick (log : Log) (keep : Nat) (o : Obs) : Log :=
  { log with steps := log.steps + 1, sum := mix log.sum o,
             first := if log.steps < keep then o :: log.first else log.first }

def Log.count (log : Log) : Log := { log with counted := log.counted + 1 }

/-- `VM.run`: dispatch until SUSPEND, an error, or the fuel runs out. `allocs` is `v.allocs`
(`maxAllocs + 1` at the start; the limit error fires when a tracked allocation brings it to 0). -/
def run (code : Code) (keep : Nat) : Nat → Int → Cfg → Log → Outcome × Log
  | 0, _, cfg, log => (.outOfFuel cfg, log)
  | fuel + 1, allocs, cfg, log =>
    let log := log.tick keep (observe cfg.core allocs)
    match (((exec code cfg.core).run).run cfg.gst).run cfg.heap with
    | .error e => (.failed e cfg, log)
    | .ok ((.error ft, _), _) => (.fault ft cfg, log)
    | .ok ((.ok (.halt c), g), h) => (.halted ⟨c, g, h⟩, log)
    | .ok ((.ok (.next c false), g), h) => run code keep fuel allocs ⟨c, g, h⟩ log
    | .ok ((.ok (.next c true), g), h) =>
      if allocs - 1 == 0 then (.limit cfg, log)
      else run code keep fuel (allocs - 1) ⟨c, g, h⟩ log.count

def initCore (globals : Array Value) (fobjs : Array FnObj) : Core :=
  { regs := { stack := Array.replicate stackSize .undef, sp := 0, globals := globals, fobjs := fobjs },
    cur := { fnIdx := 0, fnRef := none, ip := -1, bp := 0, free := [] }, callers := [] }

end Tengo.Model.VM

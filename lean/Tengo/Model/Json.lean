/-!
Model of `stdlib/json` of d5/tengo: `Encode` / `encodeString` (encode.go), the validating scanner
automaton `checkValid` (scanner.go, with its `maxNestingDepth` limit on the parse stack), `unquote` and
`Decode` with its number typing (decode.go).
Core Lean only (linked into the driver).

External (parameters, supplied by the harness as oracle tables; theorems quantify over them):
* `ff : UInt64 → Bytes × Bytes`  — `strconv.AppendFloat(f,'f',-1,64)` and `(…,'e',-1,64)` of the float
  with the given bit pattern;
* `pf : Bytes → UInt64`          — bits of `strconv.ParseFloat(text, 64)` (value kept on range errors).

Fuel: the scanner takes none (one transition per byte, structural). `unquote` and the decoder's
`value/array/object` recursion take fuel that `unquoteBytes`/`decode` set from the input length
(`|s|` resp. `2·|data|+2`); no proof is needed to run them, and `Props/C18` shows the bound suffices.
-/
namespace Tengo.Model.Json

abbrev Bytes := List UInt8

/-! ## Values (`J`): the JSON-representable tengo values -/

mutual
  /-- `undefined | bool | int (Go int64 when within range) | float (bit pattern) | string (bytes) |
  array | map`. A map is an association list; `decode` produces it sorted by key without duplicates
  (the canonical form of a Go `map[string]Object`), `encode` walks it in the order given (Go: the
  iteration order of the map, supplied by the harness). -/
  inductive J where
    | null
    | bool (b : Bool)
    | int (i : Int)
    | float (bits : UInt64)
    | str (s : Bytes)
    | arr (xs : JList)
    | obj (es : JMems)
  inductive JList where
    | nil
    | cons (x : J) (xs : JList)
  inductive JMems where
    | nil
    | cons (k : Bytes) (v : J) (es : JMems)
end
deriving instance DecidableEq for J, JList, JMems
deriving instance Repr for J, JList, JMems
instance : Inhabited J := ⟨.null⟩

/-- Go string order (bytewise lexicographic). -/
def bytesLt : Bytes → Bytes → Bool
  | [], [] => false
  | [], _ :: _ => true
  | _ :: _, [] => false
  | a :: as, b :: bs => if a.toNat < b.toNat then true else if b.toNat < a.toNat then false else bytesLt as bs

/-- `m[key] = v` on the canonical (sorted, duplicate-free) form of a Go map. -/
def insertMem (k : Bytes) (v : J) : JMems → JMems
  | .nil => .cons k v .nil
  | .cons k' v' es =>
    if k = k' then .cons k v es
    else if bytesLt k k' then .cons k v (.cons k' v' es)
    else .cons k' v' (insertMem k v es)

/-- Insert the members of `raw` in order (later bindings win) into `acc`. -/
def insertAll : JMems → JMems → JMems
  | .nil, acc => acc
  | .cons k v es, acc => insertAll es (insertMem k v acc)

/-! ## UTF-8 (`unicode/utf8`) and UTF-16 surrogates (`unicode/utf16`) -/

def runeError : Nat := 0xFFFD

def isCont (b : UInt8) : Bool := 0x80 ≤ b.toNat && b.toNat ≤ 0xBF

/-- The `acceptRanges` test of a three-byte sequence with lead byte value `x` (E0 and ED narrow the
range of the second byte: no overlong forms, no surrogates). -/
def accept3 (x : Nat) (b1 b2 : UInt8) : Bool :=
  (if x = 0xE0 then 0xA0 else 0x80) ≤ b1.toNat && b1.toNat ≤ (if x = 0xED then 0x9F else 0xBF) && isCont b2

/-- The same for a four-byte sequence (F0 and F4 narrow the second byte: no overlong forms, ≤ U+10FFFF). -/
def accept4 (x : Nat) (b1 b2 b3 : UInt8) : Bool :=
  (if x = 0xF0 then 0x90 else 0x80) ≤ b1.toNat && b1.toNat ≤ (if x = 0xF4 then 0x8F else 0xBF) && isCont b2 && isCont b3

/-- `utf8.DecodeRune`: (rune, width); `(RuneError, 1)` for an invalid or short encoding,
`(RuneError, 0)` for the empty input. -/
def decodeRune : Bytes → Nat × Nat
  | [] => (runeError, 0)
  | b0 :: rest =>
    let x := b0.toNat
    if x < 0x80 then (x, 1)
    else if x < 0xC2 then (runeError, 1)
    else if x < 0xE0 then
      match rest with
      | b1 :: _ => if isCont b1 then ((x - 0xC0) * 64 + (b1.toNat - 0x80), 2) else (runeError, 1)
      | [] => (runeError, 1)
    else if x < 0xF0 then
      match rest with
      | b1 :: b2 :: _ =>
        if accept3 x b1 b2 then
          (((x - 0xE0) * 64 + (b1.toNat - 0x80)) * 64 + (b2.toNat - 0x80), 3)
        else (runeError, 1)
      | _ => (runeError, 1)
    else if x < 0xF5 then
      match rest with
      | b1 :: b2 :: b3 :: _ =>
        if accept4 x b1 b2 b3 then
          ((((x - 0xF0) * 64 + (b1.toNat - 0x80)) * 64 + (b2.toNat - 0x80)) * 64 + (b3.toNat - 0x80), 4)
        else (runeError, 1)
      | _ => (runeError, 1)
    else (runeError, 1)

def isSurrogate (r : Nat) : Bool := 0xD800 ≤ r && r < 0xE000

/-- `utf8.EncodeRune` (surrogates and values above U+10FFFF become U+FFFD). -/
def encodeRune (r : Nat) : Bytes :=
  if r < 0x80 then [UInt8.ofNat r]
  else if r < 0x800 then [UInt8.ofNat (0xC0 + r / 64), UInt8.ofNat (0x80 + r % 64)]
  else if isSurrogate r || 0x10FFFF < r then [0xEF, 0xBF, 0xBD]
  else if r < 0x10000 then
    [UInt8.ofNat (0xE0 + r / 4096), UInt8.ofNat (0x80 + r / 64 % 64), UInt8.ofNat (0x80 + r % 64)]
  else
    [UInt8.ofNat (0xF0 + r / 262144), UInt8.ofNat (0x80 + r / 4096 % 64), UInt8.ofNat (0x80 + r / 64 % 64),
     UInt8.ofNat (0x80 + r % 64)]

/-- `utf16.DecodeRune(r1, r2)`; `r2 = none` stands for the `-1` of a failed `getu4`. -/
def utf16Decode (r1 : Nat) (r2 : Option Nat) : Nat :=
  match r2 with
  | some r2 =>
    if 0xD800 ≤ r1 && r1 < 0xDC00 && 0xDC00 ≤ r2 && r2 < 0xE000 then (r1 - 0xD800) * 1024 + (r2 - 0xDC00) + 0x10000
    else runeError
  | none => runeError

/-! ## encode.go -/

def hexDigit (n : Nat) : UInt8 := if n < 10 then UInt8.ofNat (0x30 + n) else UInt8.ofNat (0x57 + n)

/-- The `safeSet` table (indexes below `utf8.RuneSelf`): everything except control characters, `"`, `\`. -/
def safeSet (b : UInt8) : Bool := 0x20 ≤ b.toNat && b != 0x22 && b != 0x5C

/-- The bytes written for an ASCII byte outside `safeSet` (the `switch` of `encodeStringSlowPath`). -/
def escByte (b : UInt8) : Bytes :=
  if b = 0x5C || b = 0x22 then [0x5C, b]
  else if b = 0x0A then [0x5C, 0x6E]
  else if b = 0x0D then [0x5C, 0x72]
  else if b = 0x09 then [0x5C, 0x74]
  else [0x5C, 0x75, 0x30, 0x30, hexDigit (b.toNat / 16), hexDigit (b.toNat % 16)]

/-- `encodeStringSlowPath` from index `i` on (the pending `val[start:i]` chunk is emitted eagerly).
Bytes ≥ 0x80 are copied without any UTF-8 check. -/
def slowPath : Bytes → Bytes
  | [] => []
  | b :: rest =>
    if b.toNat < 0x80 then
      if safeSet b then b :: slowPath rest else escByte b ++ slowPath rest
    else b :: slowPath rest

/-- The loop condition of the fast path of `encodeString`. -/
def fastOk (c : UInt8) : Bool := 31 < c.toNat && c != 0x22 && c != 0x5C

/-- Fast path: copy while `fastOk`; returns what was copied and what is left. -/
def fastSplit : Bytes → Bytes × Bytes
  | [] => ([], [])
  | c :: rest => if fastOk c then let (p, r) := fastSplit rest; (c :: p, r) else ([], c :: rest)

def encodeString (val : Bytes) : Bytes :=
  let (pre, rest) := fastSplit val
  match rest with
  | [] => 0x22 :: pre ++ [0x22]
  | _ => 0x22 :: pre ++ slowPath rest ++ [0x22]

def digitChar (n : Nat) : UInt8 := UInt8.ofNat (0x30 + n)

/-- Decimal digits of `n` (most significant first); 20 digits cover every uint64. -/
def natDigitsF : Nat → Nat → Bytes
  | 0, _ => []
  | f + 1, n => if n < 10 then [digitChar n] else natDigitsF f (n / 10) ++ [digitChar (n % 10)]

def natDigits (n : Nat) : Bytes := natDigitsF 20 n

/-- `strconv.AppendInt(b, i, 10)`. -/
def appendInt (i : Int) : Bytes :=
  match i with
  | .ofNat n => natDigits n
  | .negSucc n => 0x2D :: natDigits (n + 1)

def bits1em6 : UInt64 := 0x3EB0C6F7A0B5ED8D   -- math.Float64bits(1e-6)
def bits1e21 : UInt64 := 0x444B1AE4D6E2EF50   -- math.Float64bits(1e21)

/-- "clean up e-09 to e-9". -/
def cleanupExp (y : Bytes) : Bytes :=
  match y.reverse with
  | d :: 0x30 :: 0x2D :: 0x65 :: more => (d :: 0x2D :: 0x65 :: more).reverse
  | _ => y

/-- The `*tengo.Float` case of `Encode`; `none` = error "unsupported float value". -/
def encodeFloat (ff : UInt64 → Bytes × Bytes) (bits : UInt64) : Option Bytes :=
  let abs := bits &&& 0x7FFFFFFFFFFFFFFF
  if abs.toNat ≥ 0x7FF0000000000000 then none
  else if abs != 0 && (abs.toNat < bits1em6.toNat || abs.toNat ≥ bits1e21.toNat) then some (cleanupExp (ff bits).2)
  else some (ff bits).1

mutual
  /-- `Encode`. `none` = the error return (NaN / ±Inf somewhere inside). -/
  def encode (ff : UInt64 → Bytes × Bytes) : J → Option Bytes
    | .null => some [0x6E, 0x75, 0x6C, 0x6C]
    | .bool true => some [0x74, 0x72, 0x75, 0x65]
    | .bool false => some [0x66, 0x61, 0x6C, 0x73, 0x65]
    | .int i => some (appendInt i)
    | .float b => encodeFloat ff b
    | .str s => some (encodeString s)
    | .arr xs => match encodeList ff xs with
      | some b => some (0x5B :: b ++ [0x5D])
      | none => none
    | .obj es => match encodeMems ff es with
      | some b => some (0x7B :: b ++ [0x7D])
      | none => none
  def encodeList (ff : UInt64 → Bytes × Bytes) : JList → Option Bytes
    | .nil => some []
    | .cons x .nil => encode ff x
    | .cons x xs => match encode ff x, encodeList ff xs with
      | some a, some b => some (a ++ 0x2C :: b)
      | _, _ => none
  def encodeMems (ff : UInt64 → Bytes × Bytes) : JMems → Option Bytes
    | .nil => some []
    | .cons k v .nil => match encode ff v with
      | some a => some (encodeString k ++ 0x3A :: a)
      | none => none
    | .cons k v es => match encode ff v, encodeMems ff es with
      | some a, some b => some (encodeString k ++ 0x3A :: a ++ 0x2C :: b)
      | _, _ => none
end

/-! ## scanner.go -/

/-- The scan opcodes, in declaration order (`code` is the Go constant). -/
inductive Op where
  | continue_ | beginLiteral | beginObject | objectKey | objectValue | endObject
  | beginArray | arrayValue | endArray | skipSpace | end_ | error
  deriving DecidableEq, Repr, Inhabited

def Op.code : Op → Nat
  | .continue_ => 0 | .beginLiteral => 1 | .beginObject => 2 | .objectKey => 3 | .objectValue => 4
  | .endObject => 5 | .beginArray => 6 | .arrayValue => 7 | .endArray => 8 | .skipSpace => 9
  | .end_ => 10 | .error => 11

/-- Entries of the `parseState` stack. -/
inductive PS where
  | objKey | objVal | arr
  deriving DecidableEq, Repr, Inhabited

def PS.code : PS → Nat
  | .objKey => 0 | .objVal => 1 | .arr => 2

/-- The transition functions (`scanner.step`). -/
inductive Step where
  | beginValueOrEmpty | beginValue | beginStringOrEmpty | beginString | endValue | endTop
  | inString | inStringEsc | inStringEscU | inStringEscU1 | inStringEscU12 | inStringEscU123
  | neg | s1 | s0 | dot | dot0 | e | eSign | e0
  | t | tr | tru | f | fa | fal | fals | n | nu | nul
  | error
  deriving DecidableEq, Repr, Inhabited

structure SynErr where
  bad    : Option UInt8      -- the offending byte; `none`: "unexpected end of JSON input"
  ctx    : String            -- the context text of `scanner.error`
  offset : Nat
  deriving DecidableEq, Repr

/-- What one transition function does: next `step`, new `parseState` (head = top; Go appends at the
end), returned opcode, the context of a `s.error(c, ctx)` call, whether `s.endTop = true` ran. -/
structure Tr where
  step   : Step
  stack  : List PS
  op     : Op
  err    : Option String := none
  endTop : Bool := false
  deriving DecidableEq, Repr

def isSpace (c : UInt8) : Bool := c = 0x20 || c = 0x09 || c = 0x0D || c = 0x0A

def isDigit (c : UInt8) : Bool := 0x30 ≤ c.toNat && c.toNat ≤ 0x39
def isDigit19 (c : UInt8) : Bool := 0x31 ≤ c.toNat && c.toNat ≤ 0x39
def isHex (c : UInt8) : Bool :=
  (0x30 ≤ c.toNat && c.toNat ≤ 0x39) || (0x61 ≤ c.toNat && c.toNat ≤ 0x66) || (0x41 ≤ c.toNat && c.toNat ≤ 0x46)

def failAt (σ : List PS) (ctx : String) : Tr := { step := .error, stack := σ, op := .error, err := some ctx }
def goTo (st : Step) (σ : List PS) (op : Op) : Tr := { step := st, stack := σ, op := op }

def stateEndTop (σ : List PS) (c : UInt8) : Tr :=
  if !isSpace c then { step := .error, stack := σ, op := .end_, err := some "after top-level value" }
  else goTo .endTop σ .end_

/-- `popParseState` followed by `return op`; `σ` is the stack after the pop. -/
def popTo (σ : List PS) (op : Op) : Tr :=
  match σ with
  | [] => { step := .endTop, stack := [], op := op, endTop := true }
  | _ :: _ => goTo .endValue σ op

def stateEndValue (σ : List PS) (c : UInt8) : Tr :=
  match σ with
  | [] => { stateEndTop [] c with endTop := true }
  | ps :: rest =>
    if isSpace c then goTo .endValue σ .skipSpace
    else match ps with
      | .objKey =>
        if c = 0x3A then goTo .beginValue (.objVal :: rest) .objectKey
        else failAt σ "after object key"
      | .objVal =>
        if c = 0x2C then goTo .beginString (.objKey :: rest) .objectValue
        else if c = 0x7D then popTo rest .endObject
        else failAt σ "after object key:value pair"
      | .arr =>
        if c = 0x2C then goTo .beginValue σ .arrayValue
        else if c = 0x5D then popTo rest .endArray
        else failAt σ "after array element"

/-- `maxNestingDepth` of scanner.go (the limit encoding/json has). -/
def maxNestingDepth : Nat := 10000

/-- `s.step = st` followed by `return s.pushParseState(c, p, op)`: the state is pushed first; if the
stack is then longer than `maxNestingDepth` the result is `s.error(c, "exceeded max depth")` (which
overwrites `s.step` with `stateError`), otherwise the success opcode `op`. -/
def pushTo (st : Step) (p : PS) (σ : List PS) (op : Op) : Tr :=
  if (p :: σ).length ≤ maxNestingDepth then goTo st (p :: σ) op
  else failAt (p :: σ) "exceeded max depth"

def stateBeginValue (σ : List PS) (c : UInt8) : Tr :=
  if isSpace c then goTo .beginValue σ .skipSpace
  else if c = 0x7B then pushTo .beginStringOrEmpty .objKey σ .beginObject
  else if c = 0x5B then pushTo .beginValueOrEmpty .arr σ .beginArray
  else if c = 0x22 then goTo .inString σ .beginLiteral
  else if c = 0x2D then goTo .neg σ .beginLiteral
  else if c = 0x30 then goTo .s0 σ .beginLiteral
  else if c = 0x74 then goTo .t σ .beginLiteral
  else if c = 0x66 then goTo .f σ .beginLiteral
  else if c = 0x6E then goTo .n σ .beginLiteral
  else if isDigit19 c then goTo .s1 σ .beginLiteral
  else failAt σ "looking for beginning of value"

def stateBeginValueOrEmpty (σ : List PS) (c : UInt8) : Tr :=
  if isSpace c then goTo .beginValueOrEmpty σ .skipSpace
  else if c = 0x5D then stateEndValue σ c
  else stateBeginValue σ c

def stateBeginString (σ : List PS) (c : UInt8) : Tr :=
  if isSpace c then goTo .beginString σ .skipSpace
  else if c = 0x22 then goTo .inString σ .beginLiteral
  else failAt σ "looking for beginning of object key string"

/-- On `}` Go executes `s.parseState[n-1] = parseObjectValue`, an index panic on an empty stack
(`err = "go-panic"`; unreachable: the state is entered only right after a push). -/
def stateBeginStringOrEmpty (σ : List PS) (c : UInt8) : Tr :=
  if isSpace c then goTo .beginStringOrEmpty σ .skipSpace
  else if c = 0x7D then
    match σ with
    | [] => failAt [] "go-panic"
    | _ :: rest => stateEndValue (.objVal :: rest) c
  else stateBeginString σ c

def stateInString (σ : List PS) (c : UInt8) : Tr :=
  if c = 0x22 then goTo .endValue σ .continue_
  else if c = 0x5C then goTo .inStringEsc σ .continue_
  else if c.toNat < 0x20 then failAt σ "in string literal"
  else goTo .inString σ .continue_

def isSimpleEsc (c : UInt8) : Bool :=
  c = 0x62 || c = 0x66 || c = 0x6E || c = 0x72 || c = 0x74 || c = 0x5C || c = 0x2F || c = 0x22

def stateInStringEsc (σ : List PS) (c : UInt8) : Tr :=
  if isSimpleEsc c then goTo .inString σ .continue_
  else if c = 0x75 then goTo .inStringEscU σ .continue_
  else failAt σ "in string escape code"

def stateHex (next : Step) (σ : List PS) (c : UInt8) : Tr :=
  if isHex c then goTo next σ .continue_ else failAt σ "in \\u hexadecimal character escape"

def stateNeg (σ : List PS) (c : UInt8) : Tr :=
  if c = 0x30 then goTo .s0 σ .continue_
  else if isDigit19 c then goTo .s1 σ .continue_
  else failAt σ "in numeric literal"

def state0 (σ : List PS) (c : UInt8) : Tr :=
  if c = 0x2E then goTo .dot σ .continue_
  else if c = 0x65 || c = 0x45 then goTo .e σ .continue_
  else stateEndValue σ c

def state1 (σ : List PS) (c : UInt8) : Tr :=
  if isDigit c then goTo .s1 σ .continue_ else state0 σ c

def stateDot (σ : List PS) (c : UInt8) : Tr :=
  if isDigit c then goTo .dot0 σ .continue_ else failAt σ "after decimal point in numeric literal"

def stateDot0 (σ : List PS) (c : UInt8) : Tr :=
  if isDigit c then goTo .dot0 σ .continue_
  else if c = 0x65 || c = 0x45 then goTo .e σ .continue_
  else stateEndValue σ c

def stateESign (σ : List PS) (c : UInt8) : Tr :=
  if isDigit c then goTo .e0 σ .continue_ else failAt σ "in exponent of numeric literal"

def stateE (σ : List PS) (c : UInt8) : Tr :=
  if c = 0x2B || c = 0x2D then goTo .eSign σ .continue_ else stateESign σ c

def stateE0 (σ : List PS) (c : UInt8) : Tr :=
  if isDigit c then goTo .e0 σ .continue_ else stateEndValue σ c

/-- The `stateT … stateNul` family: expect exactly `want`. -/
def stateLit (want : UInt8) (next : Step) (ctx : String) (σ : List PS) (c : UInt8) : Tr :=
  if c = want then goTo next σ .continue_ else failAt σ ctx

/-- `s.step(s, c)` on the control part of the scanner. -/
def delta (st : Step) (σ : List PS) (c : UInt8) : Tr :=
  match st with
  | .beginValueOrEmpty => stateBeginValueOrEmpty σ c
  | .beginValue => stateBeginValue σ c
  | .beginStringOrEmpty => stateBeginStringOrEmpty σ c
  | .beginString => stateBeginString σ c
  | .endValue => stateEndValue σ c
  | .endTop => stateEndTop σ c
  | .inString => stateInString σ c
  | .inStringEsc => stateInStringEsc σ c
  | .inStringEscU => stateHex .inStringEscU1 σ c
  | .inStringEscU1 => stateHex .inStringEscU12 σ c
  | .inStringEscU12 => stateHex .inStringEscU123 σ c
  | .inStringEscU123 => stateHex .inString σ c
  | .neg => stateNeg σ c
  | .s1 => state1 σ c
  | .s0 => state0 σ c
  | .dot => stateDot σ c
  | .dot0 => stateDot0 σ c
  | .e => stateE σ c
  | .eSign => stateESign σ c
  | .e0 => stateE0 σ c
  | .t => stateLit 0x72 .tr "in literal true (expecting 'r')" σ c
  | .tr => stateLit 0x75 .tru "in literal true (expecting 'u')" σ c
  | .tru => stateLit 0x65 .endValue "in literal true (expecting 'e')" σ c
  | .f => stateLit 0x61 .fa "in literal false (expecting 'a')" σ c
  | .fa => stateLit 0x6C .fal "in literal false (expecting 'l')" σ c
  | .fal => stateLit 0x73 .fals "in literal false (expecting 's')" σ c
  | .fals => stateLit 0x65 .endValue "in literal false (expecting 'e')" σ c
  | .n => stateLit 0x75 .nu "in literal null (expecting 'u')" σ c
  | .nu => stateLit 0x6C .nul "in literal null (expecting 'l')" σ c
  | .nul => stateLit 0x6C .endValue "in literal null (expecting 'l')" σ c
  | .error => { step := .error, stack := σ, op := .error }

/-- The `scanner` struct (`step` is the enum above; `bytes` is advanced by `checkValid` only). -/
structure Scanner where
  step   : Step := .beginValue
  endTop : Bool := false
  stack  : List PS := []
  err    : Option SynErr := none
  bytes  : Nat := 0
  deriving DecidableEq, Repr

def Scanner.reset (s : Scanner) : Scanner :=
  { s with step := .beginValue, stack := [], err := none, endTop := false }

/-- `s.step(s, c)`: new scanner and opcode. -/
def Scanner.step1 (s : Scanner) (c : UInt8) : Scanner × Op :=
  let t := delta s.step s.stack c
  ({ step := t.step, stack := t.stack, endTop := s.endTop || t.endTop, bytes := s.bytes,
     err := match t.err with
       | some ctx => some { bad := some c, ctx := ctx, offset := s.bytes }
       | none => s.err },
   t.op)

/-- `s.eof()`. -/
def Scanner.eof (s : Scanner) : Scanner × Op :=
  if s.err.isSome then (s, .error)
  else if s.endTop then (s, .end_)
  else
    let s' := (s.step1 0x20).1
    if s'.endTop then (s', .end_)
    else if s'.err.isNone then
      ({ s' with err := some { bad := none, ctx := "unexpected end of JSON input", offset := s'.bytes } }, .error)
    else (s', .error)

/-- The loop of `checkValid`. -/
def scanAll (s : Scanner) : Bytes → Except SynErr Scanner
  | [] => .ok s
  | c :: rest =>
    let (s', op) := ({ s with bytes := s.bytes + 1 } : Scanner).step1 c
    if op = .error then .error (s'.err.getD ⟨none, "", 0⟩) else scanAll s' rest

/-- `checkValid(data, scan)`: the scanner after the run, or the syntax error. -/
def checkValid (data : Bytes) : Except SynErr Scanner :=
  match scanAll ({} : Scanner) data with
  | .error e => .error e
  | .ok s =>
    let (s', op) := s.eof
    if op = .error then .error (s'.err.getD ⟨none, "", 0⟩) else .ok s'

/-! ## decode.go: `unquote` -/

def hexVal (c : UInt8) : Option Nat :=
  if 0x30 ≤ c.toNat && c.toNat ≤ 0x39 then some (c.toNat - 0x30)
  else if 0x61 ≤ c.toNat && c.toNat ≤ 0x66 then some (c.toNat - 0x61 + 10)
  else if 0x41 ≤ c.toNat && c.toNat ≤ 0x46 then some (c.toNat - 0x41 + 10)
  else none

/-- `getu4`: `none` is the `-1` result. -/
def getu4 : Bytes → Option Nat
  | 0x5C :: 0x75 :: a :: b :: c :: d :: _ =>
    match hexVal a, hexVal b, hexVal c, hexVal d with
    | some a, some b, some c, some d => some (((a * 16 + b) * 16 + c) * 16 + d)
    | _, _, _, _ => none
  | _ => none

/-- Bytes that stop the first loop of `unquoteBytes` / are rejected by the second. -/
def isSpecial (c : UInt8) : Bool := c = 0x5C || c = 0x22 || c.toNat < 0x20

/-- First loop of `unquoteBytes`: how many leading bytes need no unquoting. -/
def fastLen : Nat → Bytes → Nat
  | 0, _ => 0
  | _ + 1, [] => 0
  | f + 1, c :: rest =>
    if isSpecial c then 0
    else if c.toNat < 0x80 then 1 + fastLen f rest
    else
      let (rr, size) := decodeRune (c :: rest)
      if rr = runeError && size = 1 then 0 else size + fastLen f ((c :: rest).drop size)

/-- Second loop of `unquoteBytes` from `s[r:]` on: the bytes written, `none` = `ok == false`.
Fuel: one unit per iteration; every iteration consumes at least one byte. -/
def unqLoop : Nat → Bytes → Option Bytes
  | _, [] => some []
  | 0, _ :: _ => none
  | f + 1, c :: rest =>
    if c = 0x5C then
      match rest with
      | [] => none
      | e :: rest2 =>
        if e = 0x22 || e = 0x5C || e = 0x2F || e = 0x27 then (unqLoop f rest2).map (e :: ·)
        else if e = 0x62 then (unqLoop f rest2).map (0x08 :: ·)
        else if e = 0x66 then (unqLoop f rest2).map (0x0C :: ·)
        else if e = 0x6E then (unqLoop f rest2).map (0x0A :: ·)
        else if e = 0x72 then (unqLoop f rest2).map (0x0D :: ·)
        else if e = 0x74 then (unqLoop f rest2).map (0x09 :: ·)
        else if e = 0x75 then
          match getu4 (c :: rest) with
          | none => none
          | some rr =>
            let rest3 := rest2.drop 4
            if isSurrogate rr then
              let dec := utf16Decode rr (getu4 rest3)
              if dec ≠ runeError then (unqLoop f (rest3.drop 6)).map (encodeRune dec ++ ·)
              else (unqLoop f rest3).map (encodeRune runeError ++ ·)
            else (unqLoop f rest3).map (encodeRune rr ++ ·)
        else none
    else if c = 0x22 || c.toNat < 0x20 then none
    else if c.toNat < 0x80 then (unqLoop f rest).map (c :: ·)
    else
      let (rr, size) := decodeRune (c :: rest)
      (unqLoop f ((c :: rest).drop size)).map (encodeRune rr ++ ·)

/-- `unquoteBytes`. -/
def unquoteBytes (s : Bytes) : Option Bytes :=
  match s with
  | 0x22 :: t =>
    match t.reverse with
    | 0x22 :: revBody =>
      let body := revBody.reverse
      let r := fastLen body.length body
      if r = body.length then some body
      else (unqLoop body.length (body.drop r)).map (body.take r ++ ·)
    | _ => none
  | _ => none

def unquote (s : Bytes) : Option Bytes := unquoteBytes s

/-! ## decode.go: number typing -/

def isFloatByte (c : UInt8) : Bool := c = 0x2E || c = 0x65 || c = 0x45

/-- Value of a non-empty all-digit byte string. -/
def parseDigitsAux : Nat → Bytes → Option Nat
  | acc, [] => some acc
  | acc, c :: rest => if isDigit c then parseDigitsAux (acc * 10 + (c.toNat - 0x30)) rest else none

def parseDigits : Bytes → Option Nat
  | [] => none
  | ds => parseDigitsAux 0 ds

/-- `strconv.ParseInt(s, 10, 64)`; `none` = any error (syntax or range). -/
def parseInt (s : Bytes) : Option Int :=
  match s with
  | 0x2D :: ds =>
    match parseDigits ds with
    | some n => if n ≤ 2 ^ 63 then some (-(n : Int)) else none
    | none => none
  | 0x2B :: ds =>
    match parseDigits ds with
    | some n => if n < 2 ^ 63 then some (n : Int) else none
    | none => none
  | ds =>
    match parseDigits ds with
    | some n => if n < 2 ^ 63 then some (n : Int) else none
    | none => none

/-- The `default:` arm of `literal()` after its first-byte check. -/
def number (pf : Bytes → UInt64) (isFloat : Bool) (item : Bytes) : J :=
  if isFloat then .float (pf item)
  else match parseInt item with
    | some n => .int n
    | none => .float (pf item)

/-! ## decode.go: the decoder proper -/

/-- `decodeState` without `data`/`off`: `rest = data[off:]`, `last = data[readIndex()]`. -/
structure DState where
  rest   : Bytes
  last   : UInt8
  opcode : Op
  scan   : Scanner
  deriving DecidableEq, Repr

/-- `scanWhile(op)`: the bytes consumed before the byte that ended the loop, `isFloat` (computed over
every byte looked at, the terminating one included), and the state afterwards. -/
def scanWhile (op : Op) (s : Scanner) (last : UInt8) : Bytes → Bytes × Bool × DState
  | [] =>
    let (s', o) := s.eof
    ([], false, { rest := [], last := last, opcode := o, scan := s' })
  | c :: r =>
    let (s', o) := s.step1 c
    if o ≠ op then ([], isFloatByte c, { rest := r, last := c, opcode := o, scan := s' })
    else
      let (cons, fl, d) := scanWhile op s' c r
      (c :: cons, isFloatByte c || fl, d)

def DState.scanWhile (d : DState) (op : Op) : Bytes × Bool × DState :=
  Json.scanWhile op d.scan d.last d.rest

/-- `scanNext`. -/
def DState.scanNext (d : DState) : DState :=
  match d.rest with
  | c :: r =>
    let (s', o) := d.scan.step1 c
    { rest := r, last := c, opcode := o, scan := s' }
  | [] =>
    let (s', o) := d.scan.eof
    { d with opcode := o, scan := s' }

inductive DRes (α : Type) where
  | ok (a : α) (d : DState)
  | panic (why : String)
  | outOfFuel
  deriving Repr

def phasePanic : String := "JSON decoder out of sync - data changing underfoot?"

/-- `literal()`. -/
def literal (pf : Bytes → UInt64) (d : DState) : DRes J :=
  let first := d.last
  let (cons, isFloat, d') := d.scanWhile .continue_
  let item := first :: cons
  if first = 0x6E then .ok .null d'
  else if first = 0x74 then .ok (.bool true) d'
  else if first = 0x66 then .ok (.bool false) d'
  else if first = 0x22 then
    match unquote item with
    | some s => .ok (.str s) d'
    | none => .panic phasePanic
  else if first ≠ 0x2D && (first.toNat < 0x30 || first.toNat > 0x39) then .panic phasePanic
  else .ok (number pf isFloat item) d'

mutual
  /-- `value()`. -/
  def value (pf : Bytes → UInt64) : Nat → DState → DRes J
    | 0, _ => .outOfFuel
    | f + 1, d =>
      match d.opcode with
      | .beginArray =>
        match arrayLoop pf f d with
        | .ok xs d' => .ok (.arr xs) d'.scanNext
        | .panic w => .panic w
        | .outOfFuel => .outOfFuel
      | .beginObject =>
        match objectLoop pf f d with
        | .ok es d' => .ok (.obj (insertAll es .nil)) d'.scanNext
        | .panic w => .panic w
        | .outOfFuel => .outOfFuel
      | .beginLiteral => literal pf d
      | _ => .panic phasePanic
  /-- One iteration of the `for` of `array()` and all following ones: the elements still to come. -/
  def arrayLoop (pf : Bytes → UInt64) : Nat → DState → DRes JList
    | 0, _ => .outOfFuel
    | f + 1, d =>
      let d1 := (d.scanWhile .skipSpace).2.2
      if d1.opcode = .endArray then .ok .nil d1
      else
        match value pf f d1 with
        | .panic w => .panic w
        | .outOfFuel => .outOfFuel
        | .ok v d2 =>
          let d3 := if d2.opcode = .skipSpace then (d2.scanWhile .skipSpace).2.2 else d2
          if d3.opcode = .endArray then .ok (.cons v .nil) d3
          else if d3.opcode ≠ .arrayValue then .panic phasePanic
          else
            match arrayLoop pf f d3 with
            | .ok xs d4 => .ok (.cons v xs) d4
            | .panic w => .panic w
            | .outOfFuel => .outOfFuel
  /-- One iteration of the `for` of `object()` and all following ones: the members still to come, in
  source order (`value` inserts them into the map). -/
  def objectLoop (pf : Bytes → UInt64) : Nat → DState → DRes JMems
    | 0, _ => .outOfFuel
    | f + 1, d =>
      let d1 := (d.scanWhile .skipSpace).2.2
      if d1.opcode = .endObject then .ok .nil d1
      else if d1.opcode ≠ .beginLiteral then .panic phasePanic
      else
        let (cons, _, d2) := d1.scanWhile .continue_
        match unquote (d1.last :: cons) with
        | none => .panic phasePanic
        | some key =>
          let d3 := if d2.opcode = .skipSpace then (d2.scanWhile .skipSpace).2.2 else d2
          if d3.opcode ≠ .objectKey then .panic phasePanic
          else
            let d4 := (d3.scanWhile .skipSpace).2.2
            match value pf f d4 with
            | .panic w => .panic w
            | .outOfFuel => .outOfFuel
            | .ok v d5 =>
              let d6 := if d5.opcode = .skipSpace then (d5.scanWhile .skipSpace).2.2 else d5
              if d6.opcode = .endObject then .ok (.cons key v .nil) d6
              else if d6.opcode ≠ .objectValue then .panic phasePanic
              else
                match objectLoop pf f d6 with
                | .ok es d7 => .ok (.cons key v es) d7
                | .panic w => .panic w
                | .outOfFuel => .outOfFuel
end

inductive DecodeResult where
  | ok (v : J)
  | syntaxErr (e : SynErr)
  | panic (why : String)
  | outOfFuel
  deriving DecidableEq, Repr

def decodeFuel (data : Bytes) : Nat := 2 * data.length + 2

/-- `Decode`. -/
def decode (pf : Bytes → UInt64) (data : Bytes) : DecodeResult :=
  match checkValid data with
  | .error e => .syntaxErr e
  | .ok sc =>
    let d := (scanWhile .skipSpace sc.reset 0 data).2.2
    match value pf (decodeFuel data) d with
    | .ok v _ => .ok v
    | .panic w => .panic w
    | .outOfFuel => .outOfFuel

/-! ## tengo `Equals` on `J` (`objects.go`), for the round-trip statement -/

def lookupMem (k : Bytes) : JMems → Option J
  | .nil => none
  | .cons k' v es => if k = k' then some v else lookupMem k es

def JList.length : JList → Nat
  | .nil => 0
  | .cons _ xs => xs.length + 1

def JMems.length : JMems → Nat
  | .nil => 0
  | .cons _ _ es => es.length + 1

def isNaNBits (b : UInt64) : Bool := (b &&& 0x7FFFFFFFFFFFFFFF).toNat > 0x7FF0000000000000

/-- Go `==` on float64 given by bit patterns. -/
def floatEq (a b : UInt64) : Bool :=
  !isNaNBits a && !isNaNBits b && (a = b || ((a ||| b) &&& 0x7FFFFFFFFFFFFFFF) = 0)

mutual
  /-- `Object.Equals` restricted to `J`; `i2f` is the external `float64(int64)` conversion (bits). -/
  def equals (i2f : Int → UInt64) : J → J → Bool
    | .null, w => w = .null
    | .bool a, w => w = .bool a
    | .int a, .int b => a = b
    | .int a, .float b => floatEq (i2f a) b
    | .int _, _ => false
    | .float a, .float b => floatEq a b
    | .float a, .int b => floatEq a (i2f b)
    | .float _, _ => false
    | .str a, w => w = .str a
    | .arr xs, .arr ys => equalsList i2f xs ys
    | .arr _, _ => false
    | .obj es, .obj fs => es.length = fs.length && equalsMems i2f es fs
    | .obj _, _ => false
  def equalsList (i2f : Int → UInt64) : JList → JList → Bool
    | .nil, .nil => true
    | .cons x xs, .cons y ys => equals i2f x y && equalsList i2f xs ys
    | _, _ => false
  /-- `for k, v := range o.Value { if !v.Equals(x.Value[k]) { return false } }` -/
  def equalsMems (i2f : Int → UInt64) : JMems → JMems → Bool
    | .nil, _ => true
    | .cons k v es, fs =>
      (match lookupMem k fs with
       | some w => equals i2f v w
       | none => false) && equalsMems i2f es fs
end

end Tengo.Model.Json

import Tengo.Model.Format
import Tengo.Model.FormatSpec
/-!
`G` for whole format strings: a format string seen as a list of items — literal text, canonical
directives (each with the operand it consumes) and `%%` — its printed form, the operand list, and the
documented output: the literal bytes and `G`'s per-directive renderings, concatenated
("Printf: the format string is copied, each directive is replaced by the formatted operand").
Also the documented error texts for operand-count mismatches: `%!verb(MISSING)` per directive that
finds no operand left. Core Lean only.
-/
namespace Tengo.Model.FormatSpecMulti
open Tengo.Model.Format Tengo.Model.FormatSpec

/-- An operand of one of the four directly mapped types `G` covers (floats have no `G` yet). -/
inductive GOperand where
  | int (v : BitVec 64)
  | str (s : Bytes)
  | bytes (s : Bytes)
  | bool (b : Bool)
  deriving Repr

def GOperand.toArg : GOperand → Arg
  | .int v => .int v
  | .str s => .str s
  | .bytes s => .bytes s
  | .bool b => .bool b

inductive GItem where
  | lit (s : Bytes)                    -- literal text (no `%`, see `ItemOk`)
  | dir (d : GDir) (a : GOperand)      -- a canonical directive and the operand it prints
  | pct                                -- `%%`
  deriving Repr

/-- The verbs `G` has a rendering for. -/
def isIntVerb (v : Nat) : Bool := v == 100 || v == 98 || v == 111 || v == 79 || v == 120 || v == 88

/-- Well-formedness: literal text has no `%`; a directive is canonical (width 1..10^6 without a
leading zero by construction of `decimal`, precision ≤ 10^6) and its verb is documented for the
operand: `b d o O x X c` on ints, `s` on strings and bytes, `t` on booleans. -/
def DirOk (d : GDir) (a : GOperand) : Prop :=
  (∀ w, d.width = some w → 1 ≤ w ∧ w ≤ 1000000) ∧ (∀ p, d.prec = some p → p ≤ 1000000) ∧
  (match a with
   | .int _ => isIntVerb d.verb = true ∨ d.verb = 99
   | .str _ => d.verb = 115
   | .bytes _ => d.verb = 115
   | .bool _ => d.verb = 116)

def ItemOk : GItem → Prop
  | .lit s => (37 : UInt8) ∉ s
  | .dir d a => DirOk d a
  | .pct => True

def ItemsOk (items : List GItem) : Prop := ∀ it ∈ items, ItemOk it

/-- Printed form of an item / of a format string. -/
def showItem : GItem → Bytes
  | .lit s => s
  | .dir d _ => showDir d
  | .pct => [37, 37]

def showItems : List GItem → Bytes
  | [] => []
  | it :: rest => showItem it ++ showItems rest

/-- The operands, in the order the directives consume them. -/
def operands : List GItem → List Arg
  | [] => []
  | .lit _ :: rest => operands rest
  | .pct :: rest => operands rest
  | .dir _ a :: rest => a.toArg :: operands rest

/-- `G`'s rendering of one directive on its operand. -/
def renderDir (d : GDir) : GOperand → Bytes
  | .int v => if d.verb = 99 then renderChar d v.toInt else renderInt d v.toInt
  | .str s => renderStr d s
  | .bytes s => renderStr d s
  | .bool b => renderBool d b

def renderItem : GItem → Bytes
  | .lit s => s
  | .dir d a => renderDir d a
  | .pct => [37]

/-- The documented output: literal text copied, every directive replaced by its rendering. -/
def renderAll : List GItem → Bytes
  | [] => []
  | it :: rest => renderItem it ++ renderAll rest

/-- "Too few arguments: `%!verb(MISSING)`". -/
def missingText (d : GDir) : Bytes := [37, 33] ++ encodeRune d.verb ++ [40, 77, 73, 83, 83, 73, 78, 71, 41]

/-- The output when only the first `n` operands are supplied: the directives that still find an
operand print it, every later one prints `%!verb(MISSING)`; literal text and `%%` as always. -/
def renderAllN : Nat → List GItem → Bytes
  | _, [] => []
  | n, .lit s :: rest => s ++ renderAllN n rest
  | n, .pct :: rest => [37] ++ renderAllN n rest
  | 0, .dir d _ :: rest => missingText d ++ renderAllN 0 rest
  | n + 1, .dir d a :: rest => renderDir d a ++ renderAllN n rest

/-- `%!(EXTRA type=value, type=value)`: the text tengo's formatter appends for surplus operands
(Tengo type names and `String()` values; `str` is the operand's `String()`). -/
def extrasText (str : Arg → Bytes) : Bool → List Arg → Bytes
  | _, [] => []
  | first, a :: rest =>
    (if first then [] else [44, 32]) ++ typeName a ++ [61] ++ str a ++ extrasText str false rest

def extraSuffix (str : Arg → Bytes) (extra : List Arg) : Bytes :=
  [37, 33, 40, 69, 88, 84, 82, 65, 32] ++ extrasText str true extra ++ [41]

end Tengo.Model.FormatSpecMulti

import Tengo.Model.Format
import Tengo.Model.FormatSpec
import Tengo.Model.FormatSpecMulti
/-!
`G` for whole format strings whose directives use the full directive syntax of Go's `fmt`
(doc.go, "Printing" and "Explicit argument indexes"):

  `%` flags* ( width | `*` | `[n]*` | `[n]`width | `[n]` )? ( `.` ( 0* precision? | `*` | `[n]*` ) )? ( `[n]` )? verb

* flags: any of `+ - # space 0`, in any order, repeated at will — a SET ("%007d" is the flag `0`
  twice and the width 7);
* width / precision: a decimal literal, or `*`: "the value is taken from the next operand (preceding
  the one to format), which must be of type int" — a negative `*` width means the `-` flag and the
  absolute value, a negative `*` precision, a missing, a non-int or a too large (|n| > 10^6) operand
  prints `%!(BADWIDTH)` / `%!(BADPREC)` and the directive goes on without width / precision;
* `[n]` before a `*` or before the verb: "the nth argument (one-indexed) is to be formatted instead";
  "subsequent verbs will use arguments n+1, n+2, etc."; an index outside `1..len(args)` makes the
  directive print `%!verb(BADINDEX)` (its `*` operands are still taken, from the unmoved cursor);
* an index followed by a literal width or directly by a precision ("%[3]2d", "%[3].2d") is an invalid use of
  an index: the index counts, the width / precision apply, the directive prints `%!verb(BADINDEX)`;
* a verb that finds no operand prints `%!verb(MISSING)`; a format that ends inside a directive prints
  `%!(NOVERB)`; `%%` (with any flags/width) prints `%` and takes no operand.

The meaning is given over the STRUCTURE (`SDir`), with an explicit argument cursor (`Cur`): nothing in
here looks at format bytes. `Proofs/C17Star*` prove that the byte-level parser of the model of
tengo's formatter, run on the printed form `showSItems`, computes exactly this. Core Lean only.
-/
namespace Tengo.Model.FormatSpecStar
open Tengo.Model.Format Tengo.Model.FormatSpec Tengo.Model.FormatSpecMulti

/-- A width or a precision. -/
inductive SNum where
  | none
  | lit (n : Nat)                 -- decimal literal (width: 1..10^6, a leading `0` is the flag; precision: 0..10^6)
  | star (idx : Option Nat)       -- `*` or `[idx]*`
  | dot (zeros : Nat) (n : Option Nat)  -- precision only: `.`, `zeros` times `0`, then a number 1..10^6 or nothing
                                  -- (`.` = `.0` = `.000` = precision 0, `.007` = precision 7)
  | ilit (i n : Nat)              -- width only: `[i]n`, an index followed by a number — invalid use of an index
  | idx (i : Nat)                 -- width only: `[i]` directly followed by a precision — invalid use of an index
  deriving Repr

structure SDir where
  flags : Bytes := []             -- flag characters in the order written
  width : SNum := .none
  prec : SNum := .none
  vidx : Option Nat := none       -- `[n]` right before the verb
  verb : Option Nat               -- `none`: the format string ends here
  deriving Repr

inductive SItem where
  | lit (s : Bytes)               -- literal text without `%`
  | dir (d : SDir)
  deriving Repr

/-! ### printed form -/

def idxText : Option Nat → Bytes
  | none => []
  | some n => 91 :: (decimal n ++ [93])

def widthText : SNum → Bytes
  | .none => []
  | .lit n => decimal n
  | .star i => idxText i ++ [42]
  | .dot _ _ => []
  | .ilit i n => idxText (some i) ++ decimal n
  | .idx i => idxText (some i)

def numText : Option Nat → Bytes
  | some m => decimal m
  | none => []

def precText : SNum → Bytes
  | .none => []
  | .lit n => 46 :: decimal n
  | .star i => 46 :: (idxText i ++ [42])
  | .dot z n => 46 :: (List.replicate z 48 ++ numText n)
  | .ilit _ _ => []
  | .idx _ => []

def verbText : Option Nat → Bytes
  | none => []
  | some v => [v.toUInt8]

/-- The directive after its `%`. -/
def bodyText (d : SDir) : Bytes :=
  d.flags ++ (widthText d.width ++ (precText d.prec ++ (idxText d.vidx ++ verbText d.verb)))

def showSItem : SItem → Bytes
  | .lit s => s
  | .dir d => 37 :: bodyText d

def showSItems : List SItem → Bytes
  | [] => []
  | it :: rest => showSItem it ++ showSItems rest

/-! ### meaning -/

/-- The argument cursor of one directive: next operand, "an index was used", "every index was valid". -/
structure Cur where
  argNum : Nat
  reordered : Bool := false
  good : Bool := true
  deriving Repr

/-- `[n]`: move the cursor to operand `n` (one-indexed) if there is one; otherwise the directive is bad. -/
def useIdx (nargs : Nat) (c : Cur) : Option Nat → Cur
  | none => c
  | some n =>
    if 1 ≤ n ∧ n ≤ nargs then { c with argNum := n - 1, reordered := true }
    else { c with reordered := true, good := false }

/-- The operand of a `*` at cursor `k`: its value if it is an int within ±10^6, and the new cursor
(an operand that is there is consumed whatever it is). Non-int operands are outside the claim (known
finding O27: the code coerces them); the spec gives them Go's meaning: not usable. -/
def starVal (args : List Arg) (k : Nat) : Option Int × Nat :=
  match args[k]? with
  | none => (none, k)
  | some (.int v) => if v.toInt > 1000000 ∨ v.toInt < -1000000 then (none, k + 1) else (some v.toInt, k + 1)
  | some _ => (none, k + 1)

def hasFlag (c : UInt8) : Bytes → Bool
  | [] => false
  | x :: t => x == c || hasFlag c t

/-- The flag set. -/
def baseDir (flags : Bytes) (verb : Nat) : GDir :=
  { plus := hasFlag 43 flags, minus := hasFlag 45 flags, sharp := hasFlag 35 flags, space := hasFlag 32 flags,
    zero := hasFlag 48 flags, verb := verb }

/-- Width: directive so far, BADWIDTH, cursor. -/
def widthStage (args : List Arg) (d : GDir) (c : Cur) : SNum → GDir × Bool × Cur
  | .none => (d, false, c)
  | .dot _ _ => (d, false, c)       -- not a width (excluded by `WidthOk`)
  -- "an index must be followed by `*` or the verb": the index counts, the width too, the directive is bad
  | .ilit i n => ({ d with width := some n }, false, { useIdx args.length c (some i) with good := false })
  | .idx i => (d, false, { useIdx args.length c (some i) with good := false })
  | .lit w => ({ d with width := some w }, false, c)
  | .star i =>
    let c1 := useIdx args.length c i
    match (starVal args c1.argNum).1 with
    | some n => ({ d with width := some n.natAbs, minus := d.minus || decide (n < 0) }, false,
                 { c1 with argNum := (starVal args c1.argNum).2 })
    | none => (d, true, { c1 with argNum := (starVal args c1.argNum).2 })

/-- Precision: directive so far, BADPREC, cursor. -/
def precStage (args : List Arg) (d : GDir) (c : Cur) : SNum → GDir × Bool × Cur
  | .none => (d, false, c)
  | .dot _ n => ({ d with prec := some (n.getD 0) }, false, c)   -- "%9.f": no number = precision 0
  | .ilit _ _ => (d, false, c)      -- not a precision (excluded by `PrecOk`)
  | .idx _ => (d, false, c)
  | .lit p => ({ d with prec := some p }, false, c)
  | .star i =>
    let c1 := useIdx args.length c i
    match (starVal args c1.argNum).1 with
    | some n =>
      if 0 ≤ n then ({ d with prec := some n.toNat }, false, { c1 with argNum := (starVal args c1.argNum).2 })
      else (d, true, { c1 with argNum := (starVal args c1.argNum).2 })
    | none => (d, true, { c1 with argNum := (starVal args c1.argNum).2 })

/-- What a directive amounts to when its verb is reached. -/
structure Head where
  d : GDir
  badWidth : Bool
  badPrec : Bool
  cur : Cur
  deriving Repr

def evalHead (args : List Arg) (argNum : Nat) (sd : SDir) : Head :=
  let w := widthStage args (baseDir sd.flags (sd.verb.getD 0)) { argNum := argNum } sd.width
  let p := precStage args w.1 w.2.2 sd.prec
  { d := p.1, badWidth := w.2.1, badPrec := p.2.1, cur := useIdx args.length p.2.2 sd.vidx }

def ofArg : Arg → Option GOperand
  | .int v => some (.int v)
  | .str s => some (.str s)
  | .bytes s => some (.bytes s)
  | .bool b => some (.bool b)
  | .float _ => none

def badWidthText : Bytes := [37, 33, 40, 66, 65, 68, 87, 73, 68, 84, 72, 41]     -- %!(BADWIDTH)
def badPrecText : Bytes := [37, 33, 40, 66, 65, 68, 80, 82, 69, 67, 41]         -- %!(BADPREC)
def noVerbText : Bytes := [37, 33, 40, 78, 79, 86, 69, 82, 66, 41]              -- %!(NOVERB)
def badIndexText (verb : Nat) : Bytes := [37, 33] ++ encodeRune verb ++ [40, 66, 65, 68, 73, 78, 68, 69, 88, 41]

/-- The text the verb contributes. -/
def verbOut (args : List Arg) (h : Head) : Option Nat → Bytes
  | none => noVerbText
  | some verb =>
    if verb = 37 then [37]
    else if !h.cur.good then badIndexText verb
    else
      match args[h.cur.argNum]? with
      | none => missingText h.d
      | some a => match ofArg a with | some g => renderDir h.d g | none => []

def dirOut (args : List Arg) (argNum : Nat) (sd : SDir) : Bytes :=
  let h := evalHead args argNum sd
  (if h.badWidth then badWidthText else []) ++ ((if h.badPrec then badPrecText else []) ++ verbOut args h sd.verb)

/-- The cursor after the directive: only a verb that printed an operand advances it. -/
def dirNext (args : List Arg) (argNum : Nat) (sd : SDir) : Nat :=
  let h := evalHead args argNum sd
  match sd.verb with
  | none => h.cur.argNum
  | some verb => if verb = 37 ∨ !h.cur.good ∨ h.cur.argNum ≥ args.length then h.cur.argNum else h.cur.argNum + 1

def dirReordered (args : List Arg) (argNum : Nat) (sd : SDir) : Bool := (evalHead args argNum sd).cur.reordered

structure Out where
  text : Bytes
  argNum : Nat
  reordered : Bool
  deriving Repr

/-- The documented output of a whole format string, from a cursor position on. -/
def renderFrom (args : List Arg) : Nat → Bool → List SItem → Out
  | k, r, [] => { text := [], argNum := k, reordered := r }
  | k, r, .lit s :: rest =>
    let o := renderFrom args k r rest
    { o with text := s ++ o.text }
  | k, r, .dir d :: rest =>
    let o := renderFrom args (dirNext args k d) (r || dirReordered args k d) rest
    { o with text := dirOut args k d ++ o.text }

def renderAllStar (items : List SItem) (args : List Arg) : Bytes := (renderFrom args 0 false items).text

/-- Every operand was used or an index was: Go prints no `%!(EXTRA …)` (its surplus text names Go
types and is outside the equality claim). -/
def AllUsed (items : List SItem) (args : List Arg) : Prop :=
  (renderFrom args 0 false items).reordered = true ∨ args.length ≤ (renderFrom args 0 false items).argNum

/-! ### the fragment -/

def isFlag (c : UInt8) : Bool := c == 35 || c == 48 || c == 43 || c == 45 || c == 32

def IdxOk : Option Nat → Prop
  | none => True
  | some n => n ≤ 1000000

/-- The operand a `*` takes is an int, when there is one (known finding O27 otherwise). -/
def StarArgOk (args : List Arg) (k : Nat) : Prop := args[k]? = none ∨ ∃ v, args[k]? = some (.int v)

def WidthOk (args : List Arg) (c : Cur) : SNum → Prop
  | .none => True
  | .lit w => 1 ≤ w ∧ w ≤ 1000000
  | .star i => IdxOk i ∧ StarArgOk args (useIdx args.length c i).argNum
  | .dot _ _ => False
  | .ilit i n => i ≤ 1000000 ∧ n ≤ 1000000
  | .idx i => i ≤ 1000000

def PrecOk (args : List Arg) (c : Cur) : SNum → Prop
  | .none => True
  | .lit p => p ≤ 1000000
  | .star i => IdxOk i ∧ StarArgOk args (useIdx args.length c i).argNum
  | .dot _ n => ∀ m, n = some m → 1 ≤ m ∧ m ≤ 1000000
  | .ilit _ _ => False
  | .idx _ => False

/-- The verb is documented for the operand it meets (`G` has a rendering). -/
def VerbArgOk (verb : Nat) : Arg → Prop
  | .int _ => isIntVerb verb = true ∨ verb = 99
  | .str _ => verb = 115
  | .bytes _ => verb = 115
  | .bool _ => verb = 116
  | .float _ => False

def isKnownVerb (v : Nat) : Bool := isIntVerb v || v == 99 || v == 115 || v == 116 || v == 37

def SDirOk (args : List Arg) (argNum : Nat) (sd : SDir) : Prop :=
  (∀ c ∈ sd.flags, isFlag c = true) ∧
  WidthOk args { argNum := argNum } sd.width ∧
  PrecOk args (widthStage args (baseDir sd.flags (sd.verb.getD 0)) { argNum := argNum } sd.width).2.2 sd.prec ∧
  IdxOk sd.vidx ∧
  (sd.prec = .dot 0 none → sd.vidx ≠ none ∨ sd.verb ≠ none) ∧     -- a format ending in `.` is outside the fragment
  (∀ i, sd.width = .idx i → sd.prec ≠ .none) ∧                    -- `[i]verb` is `vidx`
  (∀ i n, sd.width = .ilit i n → sd.prec = .none → sd.vidx = none) ∧   -- `%[1]5[2]d` is outside the fragment
  (∀ v, sd.verb = some v → isKnownVerb v = true) ∧
  (∀ v a, sd.verb = some v → v ≠ 37 → (evalHead args argNum sd).cur.good = true →
     args[(evalHead args argNum sd).cur.argNum]? = some a → VerbArgOk v a)

/-- Well-formedness of a format along the cursor; a directive without verb can only be the last item. -/
def SItemsOk (args : List Arg) : Nat → List SItem → Prop
  | _, [] => True
  | k, .lit s :: rest => (37 : UInt8) ∉ s ∧ SItemsOk args k rest
  | k, .dir d :: rest => SDirOk args k d ∧ (d.verb = none → rest = []) ∧ SItemsOk args (dirNext args k d) rest

end Tengo.Model.FormatSpecStar

import Tengo.Model.Bytecode
/-!
Bytecode verifier and the abstract stack machine it is sound for (property C02).

`succs i h` is the abstract semantics of one VM instruction inside one function: from operand-stack
height `h` (relative to `basePointer + NumLocals`) the instruction either underflows (`none`) or
continues at one of the listed `(position, height)` pairs (empty list: RETURN / SUSPEND). It mirrors
the `sp` arithmetic and `ip` updates of every `case` of `VM.run` (vm.go); a call is one step that
replaces callee and arguments by the result. Core Lean only.
-/
namespace Tengo.Model.Verifier
open Tengo.Model Tengo.Model.Opcodes

/-- (pops, pushes) of the straight-line opcodes; `none` for control opcodes handled in `succs`. -/
def stackEffect (i : Instr) : Option (Nat × Nat) :=
  let a0 := i.args.headD 0
  let a1 := (i.args.drop 1).headD 0
  if i.op == opConstant || i.op == opNull || i.op == opTrue || i.op == opFalse || i.op == opGetGlobal
     || i.op == opGetLocal || i.op == opGetBuiltin || i.op == opGetFreePtr || i.op == opGetFree
     || i.op == opGetLocalPtr then some (0, 1)
  else if i.op == opBinaryOp || i.op == opEqual || i.op == opNotEqual || i.op == opIndex then some (2, 1)
  else if i.op == opPop || i.op == opSetGlobal || i.op == opSetLocal || i.op == opDefineLocal
     || i.op == opSetFree then some (1, 0)
  else if i.op == opLNot || i.op == opBComplement || i.op == opMinus || i.op == opError
     || i.op == opImmutable || i.op == opIteratorInit || i.op == opIteratorNext
     || i.op == opIteratorKey || i.op == opIteratorValue then some (1, 1)
  else if i.op == opSliceIndex then some (3, 1)
  else if i.op == opArray || i.op == opMap then some (a0, 1)
  else if i.op == opCall then some (a0 + 1, 1)
  else if i.op == opClosure then some (a1, 1)
  else if i.op == opSetSelGlobal || i.op == opSetSelLocal || i.op == opSetSelFree then some (a1 + 1, 0)
  else none

/-- Abstract successors of instruction `i` at height `h`. -/
def succs (i : Instr) (h : Nat) : Option (List (Nat × Nat)) :=
  let t := i.args.headD 0
  let nxt := i.pos + i.size
  if i.op == opReturn then (if h < t then none else some [])      -- RET 1 reads the value on top
  else if i.op == opSuspend then some []
  else if i.op == opJump then some [(t, h)]
  else if i.op == opJumpFalsy then (if h < 1 then none else some [(t, h - 1), (nxt, h - 1)])
  else if i.op == opAndJump || i.op == opOrJump then
    (if h < 1 then none else some [(t, h), (nxt, h - 1)])
  else match stackEffect i with
    | some (pops, pushes) => if h < pops then none else some [(nxt, h - pops + pushes)]
    | none => none                                                  -- unknown opcode

def instrAt (is : List Instr) (p : Nat) : Option Instr := is.find? (fun i => i.pos == p)

/-- Height table: `hm p = some h` means every path reaches offset `p` with height `h`. -/
abbrev HMap := List (Nat × Nat)

def HMap.get (hm : HMap) (p : Nat) : Option Nat := hm.lookup p

/-- Local consistency of one instruction with a height table. -/
def checkInstr (is : List Instr) (hm : HMap) (limit : Nat) (i : Instr) : Bool :=
  match hm.get i.pos with
  | none => true                       -- unreachable instruction: nothing to check here
  | some h =>
    h ≤ limit &&
    match succs i h with
    | none => false
    | some l => l.all (fun (p', h') => (instrAt is p').isSome && hm.get p' == some h')

def checkAll (is : List Instr) (hm : HMap) (limit : Nat) : Bool :=
  is.all (checkInstr is hm limit)

/-- Reachable (position, height) pairs of the abstract machine from the function entry. -/
inductive AReach (is : List Instr) : Nat → Nat → Prop
  | entry : AReach is 0 0
  | step {p h p' h' : Nat} {i : Instr} {l : List (Nat × Nat)} :
      AReach is p h → instrAt is p = some i → succs i h = some l → (p', h') ∈ l → AReach is p' h'

/-! ### Computing the table: forward propagation to a fixpoint -/

inductive VErr where
  | undecodable
  | inconsistent (pos h1 h2 : Nat)      -- two paths reach `pos` with different heights
  | underflow (pos h : Nat)
  | badTarget (pos target : Nat)         -- successor is not an instruction start of this function
  | tooHigh (pos h : Nat)
  | badOperand (pos : Nat) (what : String)
  | emptyFunction
  | noFixpoint
  deriving Repr

def hmInsert (hm : HMap) (p h : Nat) : HMap := (p, h) :: hm

/-- One pass: push the heights of known instructions to their successors. -/
def propagate (is : List Instr) : List Instr → HMap → Except VErr HMap
  | [], hm => .ok hm
  | i :: rest, hm =>
    match hm.get i.pos with
    | none => propagate is rest hm
    | some h =>
      match succs i h with
      | none => .error (.underflow i.pos h)
      | some l =>
        let r := l.foldl (fun (acc : Except VErr HMap) (ph : Nat × Nat) =>
          match acc with
          | .error e => .error e
          | .ok m =>
            match m.get ph.1 with
            | none => if (instrAt is ph.1).isSome then .ok (hmInsert m ph.1 ph.2) else .error (.badTarget i.pos ph.1)
            | some h0 => if h0 == ph.2 then .ok m else .error (.inconsistent ph.1 h0 ph.2)) (.ok hm)
        match r with
        | .error e => .error e
        | .ok m => propagate is rest m

def fixpoint (is : List Instr) : Nat → HMap → Except VErr HMap
  | 0, _ => .error .noFixpoint
  | fuel + 1, hm =>
    match propagate is is hm with
    | .error e => .error e
    | .ok hm' => if hm'.length == hm.length then .ok hm' else fixpoint is fuel hm'

/-- Compute and check the height table of one function. -/
def heights (is : List Instr) (limit : Nat) : Except VErr HMap :=
  match is with
  | [] => .error .emptyFunction
  | _ =>
    match fixpoint is (is.length + 2) [(0, 0)] with
    | .error e => .error e
    | .ok hm =>
      if checkAll is hm limit && hm.get 0 == some 0 && (instrAt is 0).isSome then .ok hm
      else match is.find? (fun i => !checkInstr is hm limit i) with
        | some i => .error (.tooHigh i.pos ((hm.get i.pos).getD 0))
        | none => .error .noFixpoint

/-! ### Operand checks -/

/-- What the verifier needs to know about the constant pool and the environment. -/
structure Env where
  constIsFn   : List Bool          -- per constant: is it a compiled function
  numBuiltins : Nat
  globalsSize : Nat
  numLocals   : Nat                -- of the function being checked
  numFree     : Nat                -- free variables available to it (0 if never closed over)

def operandOk (env : Env) (i : Instr) : Option String :=
  let a0 := i.args.headD 0
  if i.op == opConstant then
    (if a0 < env.constIsFn.length then none else some "constant index")
  else if i.op == opClosure then
    (if env.constIsFn.getD a0 false then none else some "closure constant is not a function")
  else if i.op == opGetLocal || i.op == opSetLocal || i.op == opDefineLocal || i.op == opGetLocalPtr
       || i.op == opSetSelLocal then
    (if a0 < env.numLocals then none else some "local index")
  else if i.op == opGetFree || i.op == opSetFree || i.op == opGetFreePtr || i.op == opSetSelFree then
    (if a0 < env.numFree then none else some "free index")
  else if i.op == opGetBuiltin then
    (if a0 < env.numBuiltins then none else some "builtin index")
  else if i.op == opGetGlobal || i.op == opSetGlobal || i.op == opSetSelGlobal then
    (if a0 < env.globalsSize then none else some "global index")
  else if i.op == opMap then
    (if a0 % 2 == 0 then none else some "odd map element count")
  else none

def operandsOk (env : Env) (is : List Instr) : Except VErr Unit :=
  match is.findSome? (fun i => (operandOk env i).map (fun w => VErr.badOperand i.pos w)) with
  | some e => .error e
  | none => .ok ()

/-- Verify one function given as bytes. -/
def verifyFn (env : Env) (limit : Nat) (bs : Bytes) : Except VErr HMap :=
  match decode bs with
  | none => .error .undecodable
  | some is =>
    match operandsOk env is with
    | .error e => .error e
    | .ok () => heights is limit

end Tengo.Model.Verifier

/-
Hand-written opcode table of the model (the expectation). `Tengo.Props.*` prove it equal to the table
regenerated from parser/opcodes.go on every run (`Tengo.Gen.Opcodes.table`), so that a changed opcode
number, mnemonic or operand width in the source breaks a proof obligation.
-/
namespace Tengo.Model.Opcodes

/-- (Go constant, opcode byte, mnemonic, operand widths) -/
def table : List (String × Nat × String × List Nat) := [
  ("OpConstant", 0, "CONST", [2]),
  ("OpBComplement", 1, "NEG", []),
  ("OpPop", 2, "POP", []),
  ("OpTrue", 3, "TRUE", []),
  ("OpFalse", 4, "FALSE", []),
  ("OpEqual", 5, "EQL", []),
  ("OpNotEqual", 6, "NEQ", []),
  ("OpMinus", 7, "NEG", []),
  ("OpLNot", 8, "NOT", []),
  ("OpJumpFalsy", 9, "JMPF", [4]),
  ("OpAndJump", 10, "ANDJMP", [4]),
  ("OpOrJump", 11, "ORJMP", [4]),
  ("OpJump", 12, "JMP", [4]),
  ("OpNull", 13, "NULL", []),
  ("OpArray", 14, "ARR", [2]),
  ("OpMap", 15, "MAP", [2]),
  ("OpError", 16, "ERROR", []),
  ("OpImmutable", 17, "IMMUT", []),
  ("OpIndex", 18, "INDEX", []),
  ("OpSliceIndex", 19, "SLICE", []),
  ("OpCall", 20, "CALL", [1, 1]),
  ("OpReturn", 21, "RET", [1]),
  ("OpGetGlobal", 22, "GETG", [2]),
  ("OpSetGlobal", 23, "SETG", [2]),
  ("OpSetSelGlobal", 24, "SETSG", [2, 1]),
  ("OpGetLocal", 25, "GETL", [1]),
  ("OpSetLocal", 26, "SETL", [1]),
  ("OpDefineLocal", 27, "DEFL", [1]),
  ("OpSetSelLocal", 28, "SETSL", [1, 1]),
  ("OpGetFreePtr", 29, "GETFP", [1]),
  ("OpGetFree", 30, "GETF", [1]),
  ("OpSetFree", 31, "SETF", [1]),
  ("OpGetLocalPtr", 32, "GETLP", [1]),
  ("OpSetSelFree", 33, "SETSF", [1, 1]),
  ("OpGetBuiltin", 34, "BUILTIN", [1]),
  ("OpClosure", 35, "CLOSURE", [2, 1]),
  ("OpIteratorInit", 36, "ITER", []),
  ("OpIteratorNext", 37, "ITNXT", []),
  ("OpIteratorKey", 38, "ITKEY", []),
  ("OpIteratorValue", 39, "ITVAL", []),
  ("OpBinaryOp", 40, "BINARYOP", [1]),
  ("OpSuspend", 41, "SUSPEND", [])
]


def opConstant : Nat := 0
def opBComplement : Nat := 1
def opPop : Nat := 2
def opTrue : Nat := 3
def opFalse : Nat := 4
def opEqual : Nat := 5
def opNotEqual : Nat := 6
def opMinus : Nat := 7
def opLNot : Nat := 8
def opJumpFalsy : Nat := 9
def opAndJump : Nat := 10
def opOrJump : Nat := 11
def opJump : Nat := 12
def opNull : Nat := 13
def opArray : Nat := 14
def opMap : Nat := 15
def opError : Nat := 16
def opImmutable : Nat := 17
def opIndex : Nat := 18
def opSliceIndex : Nat := 19
def opCall : Nat := 20
def opReturn : Nat := 21
def opGetGlobal : Nat := 22
def opSetGlobal : Nat := 23
def opSetSelGlobal : Nat := 24
def opGetLocal : Nat := 25
def opSetLocal : Nat := 26
def opDefineLocal : Nat := 27
def opSetSelLocal : Nat := 28
def opGetFreePtr : Nat := 29
def opGetFree : Nat := 30
def opSetFree : Nat := 31
def opGetLocalPtr : Nat := 32
def opSetSelFree : Nat := 33
def opGetBuiltin : Nat := 34
def opClosure : Nat := 35
def opIteratorInit : Nat := 36
def opIteratorNext : Nat := 37
def opIteratorKey : Nat := 38
def opIteratorValue : Nat := 39
def opBinaryOp : Nat := 40
def opSuspend : Nat := 41

/-- Operand widths of an opcode byte (`parser.OpcodeOperands`); `none` for a byte that is no opcode
(the Go array index would be out of range). -/
def widths (op : Nat) : Option (List Nat) :=
  (table.find? (fun r => r.2.1 == op)).map (fun r => r.2.2.2)

def mnemonic (op : Nat) : Option String :=
  (table.find? (fun r => r.2.1 == op)).map (fun r => r.2.2.1)

/-- The four opcodes whose first operand is an absolute jump target. -/
def isJump (op : Nat) : Bool :=
  op == opJump || op == opJumpFalsy || op == opAndJump || op == opOrJump

end Tengo.Model.Opcodes
